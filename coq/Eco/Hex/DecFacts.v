(* Base/DecFacts.v — facts about fmt "%d" ([dec]) read back by the digit scanners and
   strconv.Atoi ([atoi]); generic span lemmas. *)
From Coq Require Import Lia.
From Verif.Base Require Import Bytes GoNum BytesFacts.
Local Open Scope N_scope.

(* ---------- take_while / drop_while / span ---------- *)

Lemma take_while_app_stop p (a b : bytes) :
  forallb p a = true ->
  match b with [] => True | c :: _ => p c = false end ->
  take_while p (a ++ b) = a.
Proof.
  intros Ha Hb. induction a as [|x a IH]; simpl in *.
  - destruct b as [|c b]; simpl; [reflexivity|]. rewrite Hb. reflexivity.
  - apply andb_true_iff in Ha as [Hx Ha]. rewrite Hx. f_equal. apply IH; assumption.
Qed.

Lemma drop_while_app_stop p (a b : bytes) :
  forallb p a = true ->
  match b with [] => True | c :: _ => p c = false end ->
  drop_while p (a ++ b) = b.
Proof.
  intros Ha Hb. induction a as [|x a IH]; simpl in *.
  - destruct b as [|c b]; simpl; [reflexivity|]. rewrite Hb. reflexivity.
  - apply andb_true_iff in Ha as [Hx Ha]. rewrite Hx. apply IH; assumption.
Qed.

Lemma span_app_stop p (a b : bytes) :
  forallb p a = true ->
  match b with [] => True | c :: _ => p c = false end ->
  span p (a ++ b) = (a, b).
Proof.
  intros Ha Hb. unfold span.
  rewrite take_while_app_stop, drop_while_app_stop by assumption. reflexivity.
Qed.

Lemma span_all p (a : bytes) : forallb p a = true -> span p a = (a, []).
Proof.
  intros Ha. rewrite <- (app_nil_r a) at 1. apply span_app_stop; simpl; auto.
Qed.

(* ---------- digits ---------- *)

Lemma is_digit_code c : is_digit c = true <-> 48 <= code c <= 57.
Proof.
  unfold is_digit, in_range. rewrite andb_true_iff, !N.leb_le. tauto.
Qed.

Lemma code_chr n : n < 256 -> code (chr n) = n.
Proof. intros H. unfold code, chr. apply N_ascii_embedding. assumption. Qed.

Lemma is_digit_chr d : d < 10 -> is_digit (chr (48 + d)) = true.
Proof. intros H. apply is_digit_code. rewrite code_chr by lia. lia. Qed.

Lemma digit_val_chr d : d < 10 -> digit_val (chr (48 + d)) = d.
Proof. intros H. unfold digit_val. rewrite code_chr by lia. lia. Qed.

Lemma digit_not_char c (k : ascii) :
  is_digit c = true -> (code k < 48 \/ 57 < code k) -> ceqb k c = false /\ ceqb c k = false.
Proof.
  intros Hc Hk. apply is_digit_code in Hc. unfold ceqb. rewrite !N.eqb_neq. lia.
Qed.

Lemma digits_val_snoc s c : digits_val (s ++ [c]) = digits_val s * 10 + digit_val c.
Proof. unfold digits_val. rewrite fold_left_app. reflexivity. Qed.

(* ---------- dec ---------- *)

Lemma dec_fuel_acc fuel : forall n acc, dec_fuel fuel n acc = dec_fuel fuel n [] ++ acc.
Proof.
  induction fuel as [|k IH]; intros n acc; simpl; [reflexivity|].
  destruct (n <? 10); [reflexivity|].
  rewrite (IH (n / 10) (_ :: acc)), (IH (n / 10) [_]). rewrite <- app_assoc. reflexivity.
Qed.

Lemma dec_fuel_spec fuel : forall n,
  n < 2 ^ N.of_nat fuel -> fuel <> O ->
  forallb is_digit (dec_fuel fuel n []) = true /\ dec_fuel fuel n [] <> [] /\
  digits_val (dec_fuel fuel n []) = n.
Proof.
  induction fuel as [|k IH]; intros n Hn Hf; [congruence|].
  cbn [dec_fuel]. clear Hf.
  assert (Hm : n mod 10 < 10) by (apply N.mod_lt; lia).
  destruct (n <? 10) eqn:E.
  - apply N.ltb_lt in E.
    cbn [forallb]. rewrite is_digit_chr by assumption.
    repeat split; try discriminate.
    change (digits_val [chr (48 + n mod 10)]) with (0 * 10 + digit_val (chr (48 + n mod 10))).
    rewrite digit_val_chr by assumption. rewrite N.mod_small by assumption. lia.
  - apply N.ltb_ge in E. rewrite dec_fuel_acc.
    assert (Hq : n / 10 < 2 ^ N.of_nat k).
    { rewrite Nnat.Nat2N.inj_succ, N.pow_succ_r' in Hn.
      apply N.div_lt_upper_bound; lia. }
    assert (Hk : k <> O).
    { intros ->. simpl in Hq. assert (1 <= n / 10) by (apply N.div_le_lower_bound; lia). lia. }
    destruct (IH (n / 10) Hq Hk) as (Hd & Hne & Hv).
    repeat split.
    + rewrite forallb_app, Hd. cbn [forallb]. rewrite is_digit_chr by assumption. reflexivity.
    + intros H. apply app_eq_nil in H as [_ H]. discriminate.
    + rewrite digits_val_snoc, Hv, digit_val_chr by assumption.
      rewrite (N.div_mod n 10) at 3 by lia. lia.
Qed.

Lemma size_nat_bound n : n < 2 ^ N.of_nat (N.size_nat n).
Proof.
  destruct n as [|p]; simpl; [lia|].
  induction p as [p IH|p IH|]; cbn [Pos.size_nat].
  - rewrite Nnat.Nat2N.inj_succ, N.pow_succ_r'. lia.
  - rewrite Nnat.Nat2N.inj_succ, N.pow_succ_r'. lia.
  - simpl. lia.
Qed.

Lemma dec_spec n :
  forallb is_digit (dec n) = true /\ dec n <> [] /\ digits_val (dec n) = n.
Proof.
  unfold dec. apply dec_fuel_spec.
  - rewrite Nnat.Nat2N.inj_succ, N.pow_succ_r'. pose proof (size_nat_bound n). lia.
  - discriminate.
Qed.

Lemma dec_digits n : forallb is_digit (dec n) = true.
Proof. apply dec_spec. Qed.
Lemma dec_nonempty n : dec n <> [].
Proof. apply dec_spec. Qed.
Lemma digits_val_dec n : digits_val (dec n) = n.
Proof. apply dec_spec. Qed.

Lemma nonempty_digits_dec n : nonempty_digits (dec n) = true.
Proof.
  unfold nonempty_digits. pose proof (dec_nonempty n). pose proof (dec_digits n).
  destruct (dec n); [congruence|assumption].
Qed.

Lemma all_digits_dec n : all_digits (dec n) = true.
Proof. apply dec_digits. Qed.

(* strconv.Atoi(fmt.Sprint(n)) = n for 0 <= n <= MaxInt64 *)
Lemma atoi_dec n : n < two63 -> atoi (dec n) = Some (Z.of_N n).
Proof.
  intros Hn. pose proof (nonempty_digits_dec n) as Hd. pose proof (digits_val_dec n) as Hv.
  unfold atoi. destruct (dec n) as [|c r] eqn:E; [discriminate|].
  assert (Hc : is_digit c = true).
  { unfold nonempty_digits in Hd. simpl in Hd. apply andb_true_iff in Hd. tauto. }
  destruct (digit_not_char c "-"%char Hc) as [_ ->]; [left; vm_compute; reflexivity|].
  destruct (digit_not_char c "+"%char Hc) as [_ ->]; [left; vm_compute; reflexivity|].
  rewrite Hd, Hv. apply N.ltb_lt in Hn. rewrite Hn. reflexivity.
Qed.

Lemma dec_z_of_N n : dec_z (Z.of_N n) = dec n.
Proof. destruct n; reflexivity. Qed.
