From Verif.Base Require Import Bytes.
From Verif.Eco Require Import Iface.
From Verif.Eco.Hex Require Version Range.

Definition v : vops := mk_vops Hex.Version.parse_core Hex.Version.cmp_core Hex.Version.raw_orig.

Definition r : rops := {|
  r_show := fun vok s => option_map Hex.Range.show (Hex.Range.parse_range vok s);
  r_contains := fun vok vcmp rg ver =>
    match Hex.Range.parse_range vok rg with
    | Some x => if vok ver then Some (Hex.Range.contains vcmp x ver) else None
    | None => None
    end
|}.

Definition entry : eco := {| e_name := $"hex"; e_v := v; e_r := r |}.
