(* Eco/Hex/Range.v — model of pkg/ecosystem/hex/range.go (definitions only).

   A range is a conjunction of constraints.  The bound of a constraint is either a text that
   NewVersion accepted (kept as text; comparisons go through the oracle [vcmp]), or the upper
   bound synthesised by expandPessimisticConstraint, a Version literal with
   original = Sprintf("%d.%d.0", major, minor) that never went through NewVersion. *)
From Verif.Base Require Import Bytes GoNum Ord.
From Verif.Gen Require Operators.
From Verif.Eco Require Import RangeCore.
From Verif.Eco.Hex Require Version.

(* constraintPattern ^(>=|<=|>|<|=|~>)?(.+)$ : alternation order *)
(* the list is generated from the Go source on every run (tools/gen -> Gen/Operators.v) *)
Definition hex_ops : list bytes :=
  Eval cbv delta [Verif.Gen.Operators.hex_ops] in Verif.Gen.Operators.hex_ops.

Inductive bound :=
| BText (t : bytes)              (* parsed by NewVersion from this (trimmed) text *)
| BSynth (ma mi : Z).            (* &Version{original: "%d.%d.0", major: ma, minor: mi, patch: 0} *)

Definition constraint := (bytes * bound)%type.

Record range := { r_cs : list constraint; r_orig : bytes }.

(* fmt.Sprintf("%d.%d.0", ma, mi) *)
Definition synth_text (ma mi : Z) : bytes := dec_z ma ++ $"." ++ dec_z mi ++ $".0".

(* the core of the synthesised upper bound *)
Definition synth_core (ma mi : Z) : Version.core :=
  {| Version.major := ma; Version.minor := mi; Version.patch := 0%Z;
     Version.pre := []; Version.build := [] |}.

(* expandPessimisticConstraint: (upperMajor, upperMinor) from the bound's text and fields *)
Definition pess_upper (t : bytes) (c : Version.core) : Z * Z :=
  if (count_c "."%char t =? 1)%nat
  then if (Version.minor c =? 0)%Z
       then (wrap64 (Version.major c + 1), 0%Z)
       else (Version.major c, wrap64 (Version.minor c + 1))
  else (Version.major c, wrap64 (Version.minor c + 1)).

Section Range.
  Variable vok : bytes -> bool.
  Variable vcmp : bytes -> bytes -> comparison.

  (* parseConstraint followed by the ~> expansion of parseConstraints *)
  Definition parse_constraint (part : bytes) : option (list constraint) :=
    match part with
    | [] => None
    | _ =>
        let '(op, rest) :=
          match first_prefix_ne hex_ops part with
          | Some (op, rest) => (op, rest)
          | None => ($"=", part)
          end in
        let t := trim_space rest in
        if vok t then
          if beq op $"~>" then
            (* v.original is the trimmed text; the fields are those NewVersion computed *)
            match Version.parse_core (trim_space t) with
            | Some c =>
                let '(ma, mi) := pess_upper (trim_space t) c in
                Some [($">=", BText t); ($"<", BSynth ma mi)]
            | None => None
            end
          else Some [(op, BText t)]
        else None
    end.

  Fixpoint parse_constraints (parts : list bytes) : option (list constraint) :=
    match parts with
    | [] => Some []
    | p :: r =>
        if beq (to_lower p) $"and" then parse_constraints r
        else match parse_constraint p with
             | None => None
             | Some cs =>
                 match parse_constraints r with
                 | Some cs' => Some (cs ++ cs')
                 | None => None
                 end
             end
    end.

  Definition parse_range (s : bytes) : option range :=
    let t := trim_space s in
    match t with
    | [] => None
    | _ =>
        match parse_constraints (fields t) with
        | Some cs => Some {| r_cs := cs; r_orig := s |}
        | None => None
        end
    end.

  (* version.Compare(c.version) *)
  Definition cmp_bound (v : bytes) (b : bound) : comparison :=
    match b with
    | BText t => vcmp v t
    | BSynth ma mi =>
        if (0 <=? ma)%Z && (0 <=? mi)%Z
        then vcmp v (synth_text ma mi)
        else
          (* after int overflow the literal has a negative field and no text NewVersion
             accepts; Compare still reads the fields *)
          match Version.parse_core (trim_space v) with
          | Some c => Version.cmp_core c (synth_core ma mi)
          | None => Eq
          end
    end.

  Definition sat_constraint (v : bytes) (c : constraint) : bool :=
    sat (sem5 (fst c)) (cmp_bound v (snd c)).

  Definition contains (r : range) (v : bytes) : bool := forallb (sat_constraint v) (r_cs r).
  Definition show (r : range) : bytes := r_orig r.
End Range.
