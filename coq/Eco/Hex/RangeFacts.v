(* Eco/Hex/RangeFacts.v — facts about the hex range model, for ARBITRARY version-layer oracles
   [vok] / [vcmp] unless stated:
   C02 (a comparator constraint contains exactly what Compare says),
   C05 (~> is its documented interval), C20 (membership respects Compare-equality; convexity). *)
From Coq Require Import Lia.
From Verif.Base Require Import Bytes BytesFacts GoNum Ord.
From Verif.Eco.Hex Require Import DecFacts.
From Verif.Eco Require Import RangeCore RangeCoreFacts Iface.
From Verif.Eco.Hex Require Version VersionFacts Entry.
From Verif.Eco.Hex Require Import Range.

Notation r_contains := (Iface.r_contains Entry.r).
Notation r_show := (Iface.r_show Entry.r).

(* ---------- scope of the statements ---------- *)

(* a bound text that is one whitespace-free word, does not begin with a comparator character and
   is not the keyword "and" *)
Definition scope_b (a : bytes) : bool :=
  match a with [] => false | c :: _ => negb (opchar c) end
  && no_space a
  && negb (beq (to_lower a) $"and").

Definition plain_ops : list bytes := [$">="; $"<="; $">"; $"<"; $"="].

Lemma hex_ops_ok : ops_ok hex_ops = true.
Proof. reflexivity. Qed.

Lemma scope_parts a :
  scope_b a = true ->
  a <> [] /\ no_space a = true /\ match a with [] => True | c :: _ => opchar c = false end
  /\ beq (to_lower a) $"and" = false.
Proof.
  unfold scope_b. intros H. apply andb_true_iff in H as [H Hand]. apply andb_true_iff in H as [Hhd Hns].
  apply negb_true_iff in Hand. destruct a as [|c a]; [discriminate|].
  apply negb_true_iff in Hhd. repeat split; auto. discriminate.
Qed.

(* ---------- strings.Fields on a single word ---------- *)

Lemma fields_aux_no_space s : forall cur, no_space s = true ->
  fields_aux cur s = match rev cur ++ s with [] => [] | x => [x] end.
Proof.
  induction s as [|c s IH]; intros cur Hs.
  - simpl. rewrite app_nil_r. destruct cur as [|x cur]; [reflexivity|].
    destruct (rev (x :: cur)) eqn:E; [|reflexivity].
    simpl in E. destruct (rev cur); discriminate.
  - unfold no_space in Hs. simpl in Hs. apply andb_true_iff in Hs as [Hc Hs].
    apply negb_true_iff in Hc. simpl. rewrite Hc. rewrite (IH (c :: cur) Hs).
    simpl. rewrite <- app_assoc. reflexivity.
Qed.

Lemma fields_single s : no_space s = true -> s <> [] -> fields s = [s].
Proof.
  intros Hs Hne. unfold fields. rewrite fields_aux_no_space by assumption.
  simpl. destruct s; [contradiction|reflexivity].
Qed.

Section Facts.
  Variable vok : bytes -> bool.
  Variable vcmp : bytes -> bytes -> comparison.

  (* ---------- one word = one constraint ---------- *)

  Lemma parse_range_single p cs :
    no_space p = true -> p <> [] -> beq (to_lower p) $"and" = false ->
    parse_constraint vok p = Some cs ->
    parse_range vok p = Some {| r_cs := cs ++ []; r_orig := p |}.
  Proof.
    intros Hns Hne Hand Hc. unfold parse_range.
    rewrite (trim_space_no_space p Hns). rewrite (fields_single p Hns Hne).
    cbn [parse_constraints]. rewrite Hand, Hc. destruct p; [contradiction|reflexivity].
  Qed.

  Lemma parse_constraint_plain op a :
    In op plain_ops -> scope_b a = true -> vok a = true ->
    parse_constraint vok (op ++ a) = Some [(op, BText a)].
  Proof.
    intros Hin Hsc Hok. destruct (scope_parts a Hsc) as (Hne & Hns & Hhd & _).
    assert (Hin' : In op hex_ops) by (simpl in *; tauto).
    pose proof (first_prefix_hit hex_ops op a hex_ops_ok Hin' Hhd) as Hfp.
    pose proof (first_prefix_ne_eq _ _ _ _ Hfp Hne) as Hfn.
    unfold parse_constraint. rewrite Hfn. rewrite (trim_space_no_space a Hns), Hok.
    assert (Hop : beq op $"~>" = false).
    { simpl in Hin. repeat destruct Hin as [<-|Hin]; try reflexivity. contradiction. }
    rewrite Hop. destruct (op ++ a) eqn:E; [|reflexivity].
    apply app_eq_nil in E as [_ E]. contradiction.
  Qed.

  Lemma parse_constraint_bare a :
    scope_b a = true -> vok a = true ->
    parse_constraint vok a = Some [($"=", BText a)].
  Proof.
    intros Hsc Hok. destruct (scope_parts a Hsc) as (Hne & Hns & Hhd & _).
    assert (Hoc : forallb (fun o => match o with [] => false | _ => forallb opchar o end) hex_ops = true)
      by reflexivity.
    pose proof (first_prefix_ne_none _ _ (first_prefix_none hex_ops a Hoc Hhd)) as Hfn.
    unfold parse_constraint. rewrite Hfn. rewrite (trim_space_no_space a Hns), Hok.
    destruct a; [contradiction|reflexivity].
  Qed.

  Lemma op_word op a :
    In op hex_ops -> scope_b a = true ->
    no_space (op ++ a) = true /\ op ++ a <> [] /\ beq (to_lower (op ++ a)) $"and" = false.
  Proof.
    intros Hin Hsc. destruct (scope_parts a Hsc) as (Hne & Hns & _ & _).
    simpl in Hin.
    repeat destruct Hin as [<-|Hin]; try contradiction;
      (split; [rewrite no_space_app, Hns; reflexivity|split; [discriminate|reflexivity]]).
  Qed.

  (* C02: [op ++ a] contains v iff the sign of Compare(v, a) satisfies op *)
  Theorem hex_c02 op a v :
    In op plain_ops -> scope_b a = true -> vok a = true -> vok v = true ->
    r_contains vok vcmp (op ++ a) v = Some (sat (sem5 op) (vcmp v a)).
  Proof.
    intros Hin Hsc Ha Hv.
    assert (Hin' : In op hex_ops) by (simpl in *; tauto).
    destruct (op_word op a Hin' Hsc) as (Hns & Hne & Hand).
    cbn [Iface.r_contains Entry.r].
    rewrite (parse_range_single _ _ Hns Hne Hand (parse_constraint_plain op a Hin Hsc Ha)).
    rewrite Hv. unfold contains. cbn [r_cs app forallb sat_constraint fst snd cmp_bound].
    unfold sat_constraint. cbn [fst snd cmp_bound]. rewrite andb_true_r. reflexivity.
  Qed.

  (* a bare version is an exact match *)
  Theorem hex_c02_bare a v :
    scope_b a = true -> vok a = true -> vok v = true ->
    r_contains vok vcmp a v = Some (sat CEq (vcmp v a)).
  Proof.
    intros Hsc Ha Hv. destruct (scope_parts a Hsc) as (Hne & Hns & _ & Hand).
    cbn [Iface.r_contains Entry.r].
    rewrite (parse_range_single _ _ Hns Hne Hand (parse_constraint_bare a Hsc Ha)).
    rewrite Hv. unfold contains, sat_constraint. cbn [r_cs app forallb fst snd cmp_bound].
    rewrite andb_true_r. reflexivity.
  Qed.

  (* String() of an accepted range is the input *)
  Theorem hex_show s x : r_show vok s = Some x -> x = s.
  Proof.
    cbn [Iface.r_show Entry.r]. unfold parse_range.
    destruct (trim_space s); [discriminate|].
    destruct (parse_constraints vok _); [|discriminate]. simpl. congruence.
  Qed.

  (* ---------- C05: the pessimistic operator ---------- *)

  Lemma parse_constraint_pess t c :
    scope_b t = true -> vok t = true -> Version.parse_core t = Some c ->
    parse_constraint vok ($"~>" ++ t) =
    Some [($">=", BText t); ($"<", BSynth (fst (pess_upper t c)) (snd (pess_upper t c)))].
  Proof.
    intros Hsc Hok Hc. destruct (scope_parts t Hsc) as (Hne & Hns & Hhd & _).
    assert (Hin : In $"~>" hex_ops) by (simpl; tauto).
    pose proof (first_prefix_hit hex_ops _ t hex_ops_ok Hin Hhd) as Hfp.
    pose proof (first_prefix_ne_eq _ _ _ _ Hfp Hne) as Hfn.
    unfold parse_constraint. rewrite Hfn. rewrite !(trim_space_no_space t Hns), Hok.
    change (beq $"~>" $"~>") with true. cbv iota. rewrite Hc.
    destruct (pess_upper t c). reflexivity.
  Qed.

  (* ~>t = [t, X.Y'.0) where (X, Y') is computed by expandPessimisticConstraint *)
  Theorem hex_c05_pess t c v :
    scope_b t = true -> vok t = true -> vok v = true -> Version.parse_core t = Some c ->
    (0 <=? fst (pess_upper t c))%Z && (0 <=? snd (pess_upper t c))%Z = true ->
    r_contains vok vcmp ($"~>" ++ t) v =
    Some (sat CGe (vcmp v t)
          && sat CLt (vcmp v (synth_text (fst (pess_upper t c)) (snd (pess_upper t c))))).
  Proof.
    intros Hsc Ht Hv Hc Hpos.
    assert (Hin : In $"~>" hex_ops) by (simpl; tauto).
    destruct (op_word _ t Hin Hsc) as (Hns & Hne & Hand).
    cbn [Iface.r_contains Entry.r].
    rewrite (parse_range_single _ _ Hns Hne Hand (parse_constraint_pess t c Hsc Ht Hc)).
    rewrite Hv. unfold contains, sat_constraint. cbn [r_cs app forallb fst snd cmp_bound].
    rewrite Hpos, andb_true_r. reflexivity.
  Qed.
End Facts.

(* ---------- C05 on numeric bounds ---------- *)

Import Version VersionFacts.
Local Open Scope N_scope.

Lemma digit_facts c :
  is_digit c = true ->
  opchar c = false /\ is_space c = false /\ ceqb (to_lower_c c) "a"%char = false
  /\ ceqb "."%char c = false.
Proof.
  destruct c as [[] [] [] [] [] [] [] []]; vm_compute; intros H; try discriminate H; repeat split.
Qed.

Lemma idch_not_space c : is_idch c = true -> is_space c = false.
Proof.
  destruct c as [[] [] [] [] [] [] [] []]; vm_compute; intros H; try discriminate H; reflexivity.
Qed.

Lemma forallb_impl {A} (p q : A -> bool) l :
  (forall x, p x = true -> q x = true) -> forallb p l = true -> forallb q l = true.
Proof.
  intros H. induction l as [|x l IH]; simpl; [reflexivity|].
  rewrite !andb_true_iff. intros [Hx Hl]. auto.
Qed.

Lemma digits_no_space s : forallb is_digit s = true -> no_space s = true.
Proof.
  apply forallb_impl. intros c Hc. destruct (digit_facts c Hc) as (_ & -> & _). reflexivity.
Qed.

Lemma idch_no_space s : forallb is_idch s = true -> no_space s = true.
Proof. apply forallb_impl. intros c Hc. rewrite (idch_not_space c Hc). reflexivity. Qed.

Lemma count_c_app c a b : count_c c (a ++ b) = (count_c c a + count_c c b)%nat.
Proof. unfold count_c. rewrite filter_app, app_length. reflexivity. Qed.

Lemma count_dot_digits s : forallb is_digit s = true -> count_c "."%char s = O.
Proof.
  unfold count_c. induction s as [|c s IH]; simpl; [reflexivity|].
  rewrite andb_true_iff. intros [Hc Hs]. destruct (digit_facts c Hc) as (_ & _ & _ & ->). auto.
Qed.

(* a whitespace-free word starting with a digit is in scope *)
Lemma scope_digit_start s :
  match s with [] => False | c :: _ => is_digit c = true end ->
  no_space s = true -> scope_b s = true.
Proof.
  intros Hd Hns. destruct s as [|c s]; [contradiction|].
  destruct (digit_facts c Hd) as (Ho & _ & Ha & _).
  unfold scope_b. rewrite Hns, Ho. simpl. rewrite Ha. reflexivity.
Qed.

Lemma dec_head n tail : match dec n ++ tail with [] => False | c :: _ => is_digit c = true end.
Proof.
  pose proof (dec_nonempty n) as Hne. pose proof (dec_digits n) as Hd.
  destruct (dec n) as [|c r]; [congruence|]. simpl in *. apply andb_true_iff in Hd. tauto.
Qed.

Lemma no_space_dec n : no_space (dec n) = true.
Proof. apply digits_no_space, dec_digits. Qed.

Lemma scope_ver3 x y z tail : no_space tail = true -> scope_b (ver3 x y z ++ tail) = true.
Proof.
  intros Ht. rewrite ver3_eq. apply scope_digit_start; [apply dec_head|].
  change ("."%char :: dec y ++ "."%char :: dec z ++ tail)
    with ($"." ++ dec y ++ $"." ++ dec z ++ tail).
  rewrite !no_space_app, !no_space_dec, Ht. reflexivity.
Qed.

Lemma scope_ver2 x y : scope_b (ver2 x y) = true.
Proof.
  unfold ver2. cbn [map join]. apply scope_digit_start; [apply dec_head|].
  rewrite !no_space_app, !no_space_dec. reflexivity.
Qed.

Lemma count_ver3 x y z tail :
  count_c "."%char (ver3 x y z ++ tail) = S (S (count_c "."%char tail)).
Proof.
  rewrite ver3_eq.
  change ("."%char :: dec y ++ "."%char :: dec z ++ tail)
    with ($"." ++ dec y ++ $"." ++ dec z ++ tail).
  rewrite !count_c_app.
  rewrite (count_dot_digits (dec x)), (count_dot_digits (dec y)), (count_dot_digits (dec z))
    by apply dec_digits.
  reflexivity.
Qed.

Lemma count_ver2 x y : count_c "."%char (ver2 x y) = 1%nat.
Proof.
  unfold ver2. cbn [map join].
  rewrite !count_c_app.
  rewrite (count_dot_digits (dec x)), (count_dot_digits (dec y)) by apply dec_digits.
  reflexivity.
Qed.

Lemma wrap64_succ n : n + 1 < two63 -> wrap64 (Z.of_N n + 1) = Z.of_N (n + 1).
Proof.
  intros H. unfold wrap64.
  change (Z.of_N two64) with 18446744073709551616%Z.
  change (Z.of_N two63) with 9223372036854775808%Z.
  unfold two63 in H.
  rewrite Z.mod_small by lia.
  destruct (Z.ltb_spec (Z.of_N n + 1) 9223372036854775808); lia.
Qed.

Lemma synth_text_ver3 x y : synth_text (Z.of_N x) (Z.of_N y) = ver3 x y 0.
Proof. unfold synth_text, ver3. rewrite !dec_z_of_N. reflexivity. Qed.

Lemma pess_upper_full x y z p bm tail :
  y + 1 < two63 ->
  pess_upper (ver3 x y z ++ tail) (mk x y z p bm) = (Z.of_N x, Z.of_N (y + 1)).
Proof.
  intros Hy. unfold pess_upper. rewrite count_ver3. cbn [Nat.eqb mk minor major].
  rewrite wrap64_succ by assumption. reflexivity.
Qed.

Lemma pess_upper_partial_pos x y :
  y <> 0 -> y + 1 < two63 ->
  pess_upper (ver2 x y) (mk x y 0 [] []) = (Z.of_N x, Z.of_N (y + 1)).
Proof.
  intros Hy0 Hy. unfold pess_upper. rewrite count_ver2. cbn [Nat.eqb mk minor major].
  destruct (Z.eqb_spec (Z.of_N y) 0); [lia|].
  rewrite wrap64_succ by assumption. reflexivity.
Qed.

Lemma pess_upper_partial_zero x :
  x + 1 < two63 ->
  pess_upper (ver2 x 0) (mk x 0 0 [] []) = (Z.of_N (x + 1), 0%Z).
Proof.
  intros Hx. unfold pess_upper. rewrite count_ver2. cbn [Nat.eqb mk minor major].
  change (Z.of_N 0 =? 0)%Z with true. cbv iota.
  rewrite wrap64_succ by assumption. reflexivity.
Qed.

Lemma nonneg_pair a b : (0 <=? Z.of_N a)%Z && (0 <=? Z.of_N b)%Z = true.
Proof. rewrite andb_true_iff, !Z.leb_le. lia. Qed.

Section C05.
  Variable vok : bytes -> bool.
  Variable vcmp : bytes -> bytes -> comparison.

  (* ~> X.Y.Z  =  >= X.Y.Z and < X.(Y+1).0 *)
  Theorem hex_c05_pess_xyz x y z v :
    x < two63 -> y + 1 < two63 -> z < two63 ->
    vok (ver3 x y z) = true -> vok v = true ->
    r_contains vok vcmp ($"~>" ++ ver3 x y z) v =
    Some (sat CGe (vcmp v (ver3 x y z)) && sat CLt (vcmp v (ver3 x (y + 1) 0))).
  Proof.
    intros Hx Hy Hz Ht Hv.
    assert (Hy' : y < two63) by lia.
    pose proof (parse_release x y z Hx Hy' Hz) as Hc.
    pose proof (pess_upper_full x y z [] [] [] Hy) as Hu. rewrite app_nil_r in Hu.
    pose proof (scope_ver3 x y z [] eq_refl) as Hsc. rewrite app_nil_r in Hsc.
    rewrite (hex_c05_pess vok vcmp _ _ v Hsc Ht Hv Hc); rewrite Hu; cbn [fst snd].
    - rewrite synth_text_ver3. reflexivity.
    - apply nonneg_pair.
  Qed.

  (* ~> X.Y.Z-pre  =  >= X.Y.Z-pre and < X.(Y+1).0 *)
  Theorem hex_c05_pess_xyz_pre x y z p v :
    x < two63 -> y + 1 < two63 -> z < two63 -> valid_pre p = true ->
    vok (ver3 x y z ++ "-"%char :: p) = true -> vok v = true ->
    r_contains vok vcmp ($"~>" ++ ver3 x y z ++ "-"%char :: p) v =
    Some (sat CGe (vcmp v (ver3 x y z ++ "-"%char :: p)) && sat CLt (vcmp v (ver3 x (y + 1) 0))).
  Proof.
    intros Hx Hy Hz Hp Ht Hv.
    assert (Hy' : y < two63) by lia.
    pose proof (parse_prerelease x y z p Hx Hy' Hz Hp) as Hc.
    pose proof (pess_upper_full x y z (split_c "."%char p) [] ("-"%char :: p) Hy) as Hu.
    assert (Hns : no_space ("-"%char :: p) = true).
    { apply idch_no_space. unfold valid_pre in Hp.
      apply andb_true_iff in Hp as [Hp _]. apply andb_true_iff in Hp as [_ Hp].
      simpl. exact Hp. }
    pose proof (scope_ver3 x y z _ Hns) as Hsc.
    rewrite (hex_c05_pess vok vcmp _ _ v Hsc Ht Hv Hc); rewrite Hu; cbn [fst snd].
    - rewrite synth_text_ver3. reflexivity.
    - apply nonneg_pair.
  Qed.

  (* ~> X.Y (Y > 0)  =  >= X.Y and < X.(Y+1).0 *)
  Theorem hex_c05_pess_xy x y v :
    x < two63 -> y <> 0 -> y + 1 < two63 ->
    vok (ver2 x y) = true -> vok v = true ->
    r_contains vok vcmp ($"~>" ++ ver2 x y) v =
    Some (sat CGe (vcmp v (ver2 x y)) && sat CLt (vcmp v (ver3 x (y + 1) 0))).
  Proof.
    intros Hx Hy0 Hy Ht Hv.
    assert (Hy' : y < two63) by lia.
    pose proof (parse_partial_release x y Hx Hy') as Hc.
    pose proof (pess_upper_partial_pos x y Hy0 Hy) as Hu.
    rewrite (hex_c05_pess vok vcmp _ _ v (scope_ver2 x y) Ht Hv Hc); rewrite Hu; cbn [fst snd].
    - rewrite synth_text_ver3. reflexivity.
    - apply nonneg_pair.
  Qed.

  (* ~> X.0  =  >= X.0 and < (X+1).0.0 *)
  Theorem hex_c05_pess_x0 x v :
    x + 1 < two63 ->
    vok (ver2 x 0) = true -> vok v = true ->
    r_contains vok vcmp ($"~>" ++ ver2 x 0) v =
    Some (sat CGe (vcmp v (ver2 x 0)) && sat CLt (vcmp v (ver3 (x + 1) 0 0))).
  Proof.
    intros Hx Ht Hv.
    assert (Hx' : x < two63) by lia.
    pose proof (parse_partial_release x 0 Hx' eq_refl) as Hc.
    pose proof (pess_upper_partial_zero x Hx) as Hu.
    rewrite (hex_c05_pess vok vcmp _ _ v (scope_ver2 x 0) Ht Hv Hc); rewrite Hu; cbn [fst snd].
    - change 0%Z with (Z.of_N 0). rewrite synth_text_ver3. reflexivity.
    - change 0%Z with (Z.of_N 0). apply nonneg_pair.
  Qed.
End C05.

(* ---------- C20: membership depends only on the place in the order ---------- *)

(* the synthesised upper bound has a text (no int overflow in X+1 / Y+1) *)
Definition bound_ok (b : bound) : bool :=
  match b with BText _ => true | BSynth ma mi => (0 <=? ma)%Z && (0 <=? mi)%Z end.
Definition synth_ok (r : range) : bool := forallb (fun c => bound_ok (snd c)) (r_cs r).

Lemma sem5_convex op : convex_op (sem5 op) = true.
Proof.
  unfold sem5. repeat match goal with |- context [if ?b then _ else _] => destruct b end; reflexivity.
Qed.

Section C20.
  Variable vcmp : bytes -> bytes -> comparison.
  Hypothesis TP : TotalPreorder vcmp.

  Lemma cmp_bound_text b : bound_ok b = true -> exists t, forall v, cmp_bound vcmp v b = vcmp v t.
  Proof.
    destruct b as [t|ma mi]; simpl; intros H.
    - exists t. reflexivity.
    - exists (synth_text ma mi). intros v. rewrite H. reflexivity.
  Qed.

  Theorem hex_c20_eq r a b :
    synth_ok r = true -> vcmp a b = Eq -> contains vcmp r a = contains vcmp r b.
  Proof.
    unfold synth_ok, contains. intros Hok E.
    induction (r_cs r) as [|c cs IH]; simpl in *; [reflexivity|].
    apply andb_true_iff in Hok as [Hc Hok]. rewrite (IH Hok). f_equal.
    unfold sat_constraint. destruct (cmp_bound_text _ Hc) as [t Ht].
    rewrite !Ht, (tp_eq_l TP a b t E). reflexivity.
  Qed.

  (* every hex range is a conjunction of convex comparators: it is an interval *)
  Theorem hex_c20_convex r a b c :
    synth_ok r = true ->
    le_c (vcmp a b) -> le_c (vcmp b c) ->
    contains vcmp r a = true -> contains vcmp r c = true -> contains vcmp r b = true.
  Proof.
    unfold synth_ok, contains. intros Hok Hab Hbc.
    induction (r_cs r) as [|k cs IH]; simpl in *; [reflexivity|].
    apply andb_true_iff in Hok as [Hk Hok].
    rewrite !andb_true_iff. intros [Ha1 Ha2] [Hc1 Hc2]. split; [|apply IH; assumption].
    unfold sat_constraint in *. destruct (cmp_bound_text _ Hk) as [t Ht].
    rewrite Ht in *.
    apply (sat_convex bytes vcmp TP (sem5 (fst k)) t a b c); auto. apply sem5_convex.
  Qed.
End C20.

(* no overflow unless a field of the ~> bound is MaxInt64 *)
Lemma pess_upper_ok t c :
  (0 <= Version.major c < max_int64)%Z -> (0 <= Version.minor c < max_int64)%Z ->
  bound_ok (BSynth (fst (pess_upper t c)) (snd (pess_upper t c))) = true.
Proof.
  unfold max_int64. intros Hma Hmi.
  assert (W : forall z, (0 <= z < 9223372036854775807)%Z -> wrap64 (z + 1) = (z + 1)%Z).
  { intros z Hz. unfold wrap64.
    change (Z.of_N two64) with 18446744073709551616%Z.
    change (Z.of_N two63) with 9223372036854775808%Z.
    rewrite Z.mod_small by lia.
    destruct (Z.ltb_spec (z + 1) 9223372036854775808); lia. }
  unfold pess_upper, bound_ok.
  destruct (count_c "."%char t =? 1)%nat; [destruct (Version.minor c =? 0)%Z|];
    cbn [fst snd]; rewrite ?W by assumption; rewrite andb_true_iff, !Z.leb_le; lia.
Qed.

(* ---------- AND: a space or the word "and" between two ranges is intersection ---------- *)

Lemma fields_aux_app_space s1 : forall cur c s2,
  is_space c = true ->
  fields_aux cur (s1 ++ c :: s2) = fields_aux cur s1 ++ fields_aux [] s2.
Proof.
  induction s1 as [|x s1 IH]; intros cur c s2 Hc.
  - simpl. rewrite Hc. destruct cur; reflexivity.
  - simpl. destruct (is_space x).
    + destruct cur; rewrite IH by assumption; reflexivity.
    + apply IH. assumption.
Qed.

Lemma fields_app_space s1 c s2 :
  is_space c = true -> fields (s1 ++ c :: s2) = fields s1 ++ fields s2.
Proof. apply fields_aux_app_space. Qed.

Lemma fields_all_space w : forallb is_space w = true -> fields w = [].
Proof.
  unfold fields. induction w as [|c w IH]; simpl; [reflexivity|].
  rewrite andb_true_iff. intros [-> Hw]. auto.
Qed.

Lemma fields_trim_left s : fields (trim_left s) = fields s.
Proof.
  unfold fields, trim_left. induction s as [|c s IH]; simpl; [reflexivity|].
  destruct (is_space c) eqn:E; [exact IH|]. simpl. rewrite E. reflexivity.
Qed.

Lemma take_drop_while p (l : bytes) :
  l = take_while p l ++ drop_while p l /\ forallb p (take_while p l) = true.
Proof.
  induction l as [|c l [IH1 IH2]]; simpl; [auto|].
  destruct (p c) eqn:E; simpl; [|auto]. rewrite E, IH2. split; [f_equal; exact IH1|reflexivity].
Qed.

Lemma trim_right_decomp s : exists w, forallb is_space w = true /\ s = trim_right s ++ w.
Proof.
  destruct (take_drop_while is_space (rev s)) as [H1 H2].
  exists (rev (take_while is_space (rev s))). split.
  - rewrite forallb_rev. exact H2.
  - unfold trim_right. rewrite <- rev_app_distr, <- H1, rev_involutive. reflexivity.
Qed.

Lemma fields_app_spaces s w : forallb is_space w = true -> fields (s ++ w) = fields s.
Proof.
  intros Hw. destruct w as [|c w]; [rewrite app_nil_r; reflexivity|].
  simpl in Hw. apply andb_true_iff in Hw as [Hc Hw].
  rewrite fields_app_space by assumption. rewrite (fields_all_space w Hw). apply app_nil_r.
Qed.

Lemma fields_trim_right s : fields (trim_right s) = fields s.
Proof.
  destruct (trim_right_decomp s) as (w & Hw & Hs). rewrite Hs at 2.
  symmetry. apply fields_app_spaces. assumption.
Qed.

Lemma fields_trim s : fields (trim_space s) = fields s.
Proof. unfold trim_space. rewrite fields_trim_right. apply fields_trim_left. Qed.

Lemma fields_aux_cur_nonnil s : forall cur, cur <> [] -> fields_aux cur s <> [].
Proof.
  induction s as [|c s IH]; intros cur Hc; simpl.
  - destruct cur; [contradiction|discriminate].
  - destruct (is_space c).
    + destruct cur; [contradiction|discriminate].
    + apply IH. discriminate.
Qed.

Lemma trim_space_nil_iff s : trim_space s = [] <-> fields s = [].
Proof.
  split.
  - intros H. rewrite <- fields_trim, H. reflexivity.
  - intros H. destruct (trim_space s) as [|c t] eqn:E; [reflexivity|]. exfalso.
    assert (Hc : is_space c = false).
    { unfold trim_space in E. destruct (trim_left s) as [|x u] eqn:L; [discriminate|].
      pose proof (trim_left_nonspace_hd _ _ _ L) as Hx.
      rewrite (trim_right_cons_nonspace x u Hx) in E. congruence. }
    rewrite <- fields_trim, E in H. unfold fields in H. simpl in H. rewrite Hc in H.
    apply (fields_aux_cur_nonnil t [c]); [discriminate|assumption].
Qed.

Section And.
  Variable vok : bytes -> bool.
  Variable vcmp : bytes -> bytes -> comparison.

  (* NewVersionRange as a function of strings.Fields of the input *)
  Lemma parse_range_fields s :
    parse_range vok s =
    match fields s with
    | [] => None
    | l => match parse_constraints vok l with
           | Some cs => Some {| r_cs := cs; r_orig := s |}
           | None => None
           end
    end.
  Proof.
    unfold parse_range. rewrite fields_trim.
    destruct (trim_space s) eqn:E.
    - apply trim_space_nil_iff in E. rewrite E. reflexivity.
    - destruct (fields s) eqn:F; [|reflexivity].
      apply trim_space_nil_iff in F. congruence.
  Qed.

  Lemma parse_constraints_app l1 l2 :
    parse_constraints vok (l1 ++ l2) =
    match parse_constraints vok l1, parse_constraints vok l2 with
    | Some a, Some b => Some (a ++ b)
    | _, _ => None
    end.
  Proof.
    induction l1 as [|p l1 IH]; cbn [parse_constraints app].
    - destruct (parse_constraints vok l2); reflexivity.
    - destruct (beq (to_lower p) $"and"); [exact IH|].
      destruct (parse_constraint vok p) as [cs|]; [|reflexivity].
      rewrite IH. destruct (parse_constraints vok l1), (parse_constraints vok l2);
        try reflexivity. rewrite app_assoc. reflexivity.
  Qed.

  Lemma contains_app cs1 cs2 o1 o2 o v :
    contains vcmp {| r_cs := cs1 ++ cs2; r_orig := o |} v =
    contains vcmp {| r_cs := cs1; r_orig := o1 |} v && contains vcmp {| r_cs := cs2; r_orig := o2 |} v.
  Proof. unfold contains. cbn [r_cs]. apply forallb_app. Qed.

  Definition both (x y : option bool) : option bool :=
    match x, y with Some a, Some b => Some (a && b) | _, _ => None end.

  Lemma parse_range_nonnil s l :
    fields s = l -> l <> [] ->
    parse_range vok s =
    match parse_constraints vok l with
    | Some cs => Some {| r_cs := cs; r_orig := s |}
    | None => None
    end.
  Proof.
    intros F Hl. rewrite parse_range_fields, F. destruct l; [contradiction|reflexivity].
  Qed.

  Lemma app_nonnil {A} (l1 l2 : list A) : l1 <> [] -> l1 ++ l2 <> [].
  Proof. destruct l1; [contradiction|discriminate]. Qed.

  Lemma r_contains_of_fields s l1 l2 v :
    fields s = l1 ++ l2 -> l1 <> [] -> l2 <> [] ->
    forall s1 s2, fields s1 = l1 -> fields s2 = l2 ->
    r_contains vok vcmp s v = both (r_contains vok vcmp s1 v) (r_contains vok vcmp s2 v).
  Proof.
    intros Hs H1 H2 s1 s2 F1 F2. cbn [Iface.r_contains Entry.r].
    rewrite (parse_range_nonnil s _ Hs (app_nonnil _ _ H1)).
    rewrite (parse_range_nonnil s1 _ F1 H1), (parse_range_nonnil s2 _ F2 H2).
    rewrite parse_constraints_app.
    destruct (parse_constraints vok l1) as [a|]; [|reflexivity].
    destruct (parse_constraints vok l2) as [b|]; [|unfold both; destruct (vok v); reflexivity].
    unfold both. destruct (vok v); [|reflexivity].
    rewrite (contains_app a b s1 s2). reflexivity.
  Qed.

  (* "r1 r2" *)
  Theorem hex_and_space s1 s2 v :
    trim_space s1 <> [] -> trim_space s2 <> [] ->
    r_contains vok vcmp (s1 ++ $" " ++ s2) v =
    both (r_contains vok vcmp s1 v) (r_contains vok vcmp s2 v).
  Proof.
    intros H1 H2. rewrite trim_space_nil_iff in H1, H2.
    apply (r_contains_of_fields _ (fields s1) (fields s2)); auto.
    apply fields_app_space. reflexivity.
  Qed.

  Lemma to_lower_no_space (x : bytes) : forall y,
    to_lower x = y -> no_space y = true -> no_space x = true.
  Proof.
    induction x as [|c x IHx]; intros y Hy Hn; [reflexivity|].
    destruct y as [|d y]; [discriminate|]. simpl in Hy. injection Hy as Hd Hy.
    unfold no_space in *. simpl in *. apply andb_true_iff in Hn as [Hd' Hn].
    rewrite (IHx y Hy Hn), andb_true_r. subst d.
    unfold to_lower_c in Hd'. destruct (is_upper c) eqn:U; [|assumption].
    destruct c as [[] [] [] [] [] [] [] []]; try discriminate U; reflexivity.
  Qed.

  Lemma and_word_fields w :
    beq (to_lower w) $"and" = true -> parse_constraints vok (fields w) = Some [].
  Proof.
    intros Hw.
    assert (Hns : no_space w = true).
    { apply beq_eq in Hw. apply (to_lower_no_space w _ Hw). reflexivity. }
    destruct w as [|c w]; [discriminate|].
    rewrite fields_single by (assumption || discriminate).
    cbn [parse_constraints]. rewrite Hw. reflexivity.
  Qed.

  (* "r1 and r2", in any letter case *)
  Theorem hex_and_word w s1 s2 v :
    beq (to_lower w) $"and" = true ->
    trim_space s1 <> [] -> trim_space s2 <> [] ->
    r_contains vok vcmp (s1 ++ $" " ++ w ++ $" " ++ s2) v =
    both (r_contains vok vcmp s1 v) (r_contains vok vcmp s2 v).
  Proof.
    intros Hw H1 H2. rewrite trim_space_nil_iff in H1, H2.
    assert (F : fields (s1 ++ $" " ++ w ++ $" " ++ s2) = fields s1 ++ fields w ++ fields s2).
    { change (s1 ++ $" " ++ w ++ $" " ++ s2) with (s1 ++ " "%char :: w ++ " "%char :: s2).
      rewrite fields_app_space by reflexivity. rewrite fields_app_space by reflexivity.
      reflexivity. }
    cbn [Iface.r_contains Entry.r].
    rewrite (parse_range_nonnil _ _ F (app_nonnil _ _ H1)).
    rewrite (parse_range_nonnil s1 _ eq_refl H1), (parse_range_nonnil s2 _ eq_refl H2).
    rewrite !parse_constraints_app, (and_word_fields w Hw).
    destruct (parse_constraints vok (fields s1)) as [a|]; [|reflexivity].
    destruct (parse_constraints vok (fields s2)) as [b|]; [|unfold both; destruct (vok v); reflexivity].
    cbn [app]. unfold both. destruct (vok v); [|reflexivity].
    rewrite (contains_app a b s1 s2). reflexivity.
  Qed.

  (* the curiosity: a range made of "and" words only is accepted and contains everything *)
  Lemma only_and_contains_all v :
    vok v = true -> r_contains vok vcmp $"and" v = Some true.
  Proof. intros Hv. cbn [Iface.r_contains Entry.r]. unfold parse_range. simpl. rewrite Hv. reflexivity. Qed.
End And.

(* ---------- int overflow in ~> : what the synthesised bound then means ---------- *)

Lemma pess_upper_ok_parsed t c :
  Version.parse_core t = Some c ->
  Version.major c <> max_int64 -> Version.minor c <> max_int64 ->
  bound_ok (BSynth (fst (pess_upper t c)) (snd (pess_upper t c))) = true.
Proof.
  intros Hc Hma Hmi. destruct (parse_core_wf t c Hc) as (H1 & H2 & _).
  apply pess_upper_ok; lia.
Qed.

Lemma wrap64_succ_cases z :
  (0 <= z <= max_int64)%Z ->
  (z < max_int64 /\ wrap64 (z + 1) = z + 1)%Z \/ (z = max_int64 /\ wrap64 (z + 1) = min_int64).
Proof.
  unfold max_int64, min_int64. intros Hz. unfold wrap64.
  change (Z.of_N two64) with 18446744073709551616%Z.
  change (Z.of_N two63) with 9223372036854775808%Z.
  rewrite Z.mod_small by lia.
  destruct (Z.ltb_spec (z + 1) 9223372036854775808); [left|right]; lia.
Qed.

(* With the model's own order: when X+1 or Y+1 overflows, ~> matches no version at all
   (the lower bound needs major >= X, the wrapped upper bound needs major < X). *)
Theorem pess_overflow_empty t c cv :
  wf c -> wf cv ->
  bound_ok (BSynth (fst (pess_upper t c)) (snd (pess_upper t c))) = false ->
  sat CGe (Version.cmp_core cv c)
  && sat CLt (Version.cmp_core cv (synth_core (fst (pess_upper t c)) (snd (pess_upper t c)))) = false.
Proof.
  intros (Hma & Hmi & _) (Vma & Vmi & _) Hbad.
  unfold Version.cmp_core, synth_core. cbn [major minor patch pre].
  unfold bound_ok, pess_upper in *.
  destruct (wrap64_succ_cases _ Hma) as [[Lma Wma]|[Lma Wma]];
  destruct (wrap64_succ_cases _ Hmi) as [[Lmi Wmi]|[Lmi Wmi]];
  destruct (count_c "."%char t =? 1)%nat; try destruct (Z.eqb_spec (minor c) 0);
  cbn [fst snd] in *; rewrite ?Wma, ?Wmi in *;
  try (exfalso; apply andb_false_iff in Hbad; rewrite !Z.leb_gt in Hbad; unfold max_int64 in *; lia);
  unfold min_int64, max_int64 in *;
  repeat match goal with
  | |- context [Z.compare ?a ?b] =>
      let E := fresh "E" in destruct (Z.compare_spec a b) as [E|E|E]; cbn [thenc sat andb]
  end; try reflexivity; try lia;
  try (apply andb_false_r).
Qed.

Print Assumptions hex_c02.
Print Assumptions hex_c02_bare.
Print Assumptions hex_c05_pess.
Print Assumptions hex_c05_pess_xyz.
Print Assumptions hex_c05_pess_xyz_pre.
Print Assumptions hex_c05_pess_xy.
Print Assumptions hex_c05_pess_x0.
Print Assumptions hex_c20_eq.
Print Assumptions hex_c20_convex.
Print Assumptions hex_and_space.
Print Assumptions hex_and_word.
Print Assumptions pess_overflow_empty.
