(* Eco/Hex/SpecFacts.v — C08 for hex: the Compare model orders versions as SemVer 2.0.0
   section 11 does (reference: Spec/SemVer.v, denotation [den_hex]), at string level. *)
From Coq Require Import Lia.
From Verif.Base Require Import Bytes BytesFacts GoNum Ord.
From Verif.Eco.Hex Require Import DecFacts.
From Verif.Eco Require Import VLayer Iface RangeCoreFacts.
From Verif.Spec Require SemVer SemVerFacts.
From Verif.Eco.Hex Require Entry.
From Verif.Eco.Hex Require Import RangeFacts.
From Verif.Eco.Hex Require Import Version VersionFacts.
Local Open Scope N_scope.

Import SemVer(INum, IAlnum).

(* ---------- scope ---------- *)

(* Not claimed: versions one of whose numeric components or numeric pre-release identifiers is
   2^63 or more (the Go code rejects such components and compares such identifiers as text). *)
Definition small_ident (i : SemVer.ident) : bool :=
  match i with INum n => n <? two63 | IAlnum _ => true end.

Definition small_sv (v : SemVer.sv) : bool :=
  forallb (fun n => n <? two63) (SemVer.nums v) && forallb small_ident (SemVer.pre v).

Definition in_scope (s : bytes) : bool :=
  match SemVer.den_hex s with Some v => small_sv v | None => true end.

Definition sp_valid (s : bytes) : bool := SemVer.isSome (SemVer.den_hex s).
Definition sp_cmp : bytes -> bytes -> option comparison := SemVer.spec_cmp_with SemVer.den_hex.

(* ---------- generic inversion lemmas ---------- *)

Lemma cut_single c s : forall a b, cut [c] s = Some (a, b) -> s = a ++ c :: b.
Proof.
  induction s as [|x s IH]; intros a b; [discriminate|].
  cbn [cut has_prefix]. rewrite andb_true_r. destruct (ceqb c x) eqn:E.
  - apply ceqb_eq in E. subst. simpl. intros H. injection H as <- <-. reflexivity.
  - destruct (cut [c] s) as [[a' b']|]; [|discriminate].
    intros H. injection H as <- <-. simpl. f_equal. apply IH. reflexivity.
Qed.

Lemma split_c_join sep s : join [sep] (split_c sep s) = s.
Proof.
  induction s as [|c s IH]; [reflexivity|]. cbn [split_c].
  pose proof (split_c_nonnil sep s) as Hne.
  destruct (ceqb sep c) eqn:E.
  - apply ceqb_eq in E. subst. destruct (split_c c s) as [|f fs]; [congruence|].
    cbn [join app] in *. rewrite IH. reflexivity.
  - destruct (split_c sep s) as [|f fs]; [congruence|].
    destruct fs; cbn [join app] in *; rewrite IH; reflexivity.
Qed.

Lemma map_opt_Forall2 {A B} (f : A -> option B) l : forall l',
  SemVer.map_opt f l = Some l' -> Forall2 (fun x y => f x = Some y) l l'.
Proof.
  induction l as [|x l IH]; intros l'; simpl.
  - intros H. injection H as <-. constructor.
  - destruct (f x) as [y|] eqn:E; [|discriminate].
    destruct (SemVer.map_opt f l) as [ys|]; [|discriminate].
    intros H. injection H as <-. constructor; auto.
Qed.

Lemma split_forall (q : ascii -> bool) sep s :
  q sep = true -> forallb (forallb q) (split_c sep s) = true -> forallb q s = true.
Proof.
  intros Hq. induction s as [|c s IH]; [reflexivity|]. cbn [split_c].
  pose proof (split_c_nonnil sep s) as Hne.
  destruct (ceqb sep c) eqn:E.
  - apply ceqb_eq in E. subst. cbn [forallb]. intros H. rewrite Hq. apply IH, H.
  - destruct (split_c sep s) as [|f fs]; [congruence|]. cbn [forallb] in *.
    rewrite !andb_true_iff. intros [[Hc Hf] Hfs]. split; [exact Hc|]. apply IH.
    rewrite Hf, Hfs. reflexivity.
Qed.

(* ---------- numbers ---------- *)

Lemma nonempty_digits_inv d : nonempty_digits d = true -> forallb is_digit d = true /\ d <> [].
Proof. destruct d; [discriminate|]. intros H. split; [exact H|discriminate]. Qed.

Lemma numeric_false_inv d n :
  SemVer.numeric false d = Some n -> nonempty_digits d = true /\ n = digits_val d.
Proof.
  unfold SemVer.numeric. cbn [negb orb]. rewrite andb_true_r.
  destruct (nonempty_digits d); [|discriminate]. intros H. injection H as <-. auto.
Qed.

Lemma atoi_digits_val d :
  nonempty_digits d = true -> digits_val d < two63 -> atoi d = Some (Z.of_N (digits_val d)).
Proof.
  intros Hd Hn. unfold atoi. destruct d as [|c r] eqn:E; [discriminate|].
  assert (Hc : is_digit c = true).
  { unfold nonempty_digits in Hd. simpl in Hd. apply andb_true_iff in Hd. tauto. }
  destruct (digit_not_char c "-"%char Hc) as [_ ->]; [left; vm_compute; reflexivity|].
  destruct (digit_not_char c "+"%char Hc) as [_ ->]; [left; vm_compute; reflexivity|].
  rewrite Hd. apply N.ltb_lt in Hn. rewrite Hn. reflexivity.
Qed.

Lemma digits_dot_gen d r : nonempty_digits d = true -> digits_dot (d ++ "."%char :: r) = Some (d, r).
Proof.
  intros H. destruct (nonempty_digits_inv d H) as [Hd Hne].
  unfold digits_dot. rewrite span_app_stop; [|assumption|reflexivity].
  destruct d; [congruence|reflexivity].
Qed.

Definition mkz (a b c : N) (p : list bytes) (bm : bytes) : core := mk a b c p bm.

Lemma parse_semantic_gen d1 d2 d3 tail p bm :
  nonempty_digits d1 = true -> nonempty_digits d2 = true -> nonempty_digits d3 = true ->
  digits_val d1 < two63 -> digits_val d2 < two63 -> digits_val d3 < two63 ->
  match tail with [] => True | x :: _ => is_digit x = false end ->
  sem_tail tail = Some (p, bm) ->
  parse_semantic (d1 ++ "."%char :: d2 ++ "."%char :: d3 ++ tail) =
  Some (let ids := match p with [] => [] | _ => split_c "."%char p end in
        if forallb (fun i => match i with [] => false | _ => true end) ids
        then Some (mk (digits_val d1) (digits_val d2) (digits_val d3) ids bm) else None).
Proof.
  intros H1 H2 H3 V1 V2 V3 Ht Hs. unfold parse_semantic.
  rewrite (digits_dot_gen d1 _ H1), (digits_dot_gen d2 _ H2).
  destruct (nonempty_digits_inv d3 H3) as [Hd3 Hne3].
  rewrite (span_app_stop is_digit d3 tail Hd3 Ht).
  destruct d3 eqn:E; [congruence|]. rewrite <- E in *.
  rewrite Hs. unfold atoi_digits. rewrite !atoi_digits_val by assumption. reflexivity.
Qed.

Lemma parse_core_partial_gen d1 d2 :
  nonempty_digits d1 = true -> nonempty_digits d2 = true ->
  digits_val d1 < two63 -> digits_val d2 < two63 ->
  parse_core (d1 ++ "."%char :: d2) = Some (mk (digits_val d1) (digits_val d2) 0 [] []).
Proof.
  intros H1 H2 V1 V2. unfold parse_core.
  destruct (nonempty_digits_inv d2 H2) as [Hd2 Hne2].
  assert (Hs : parse_semantic (d1 ++ "."%char :: d2) = None).
  { unfold parse_semantic. rewrite (digits_dot_gen d1 _ H1).
    unfold digits_dot. rewrite span_all by assumption.
    destruct d2; [congruence|reflexivity]. }
  rewrite Hs. unfold parse_partial. rewrite (digits_dot_gen d1 _ H1), H2.
  unfold atoi_digits. rewrite !atoi_digits_val by assumption. reflexivity.
Qed.

(* ---------- identifiers ---------- *)

(* the model's reading of an identifier text agrees with the reference identifier *)
Definition ident_rel (s : bytes) (i : SemVer.ident) : Prop :=
  match i with
  | INum n => num_ident s = Some (Z.of_N n)
  | IAlnum t => t = s /\ num_ident s = None
  end.

Lemma digit_idch c : is_digit c = true -> is_idch c = true.
Proof. intros H. unfold is_idch, is_alnum. rewrite H. reflexivity. Qed.

Lemma ident_char_idch c : SemVer.is_ident_char c = true -> is_idch c = true.
Proof.
  unfold SemVer.is_ident_char, is_idch. intros H. apply orb_true_iff in H as [->| ->]; [reflexivity|].
  rewrite orb_true_r. reflexivity.
Qed.

Lemma pre_ident_inv x i :
  SemVer.pre_ident false x = Some i -> small_ident i = true ->
  x <> [] /\ forallb is_idch x = true /\ ident_rel x i.
Proof.
  unfold SemVer.pre_ident. destruct x as [|c r] eqn:E; [discriminate|]. rewrite <- E.
  assert (Hne : x <> []) by (subst; discriminate).
  destruct (all_digits x) eqn:D.
  - assert (Hnd : nonempty_digits x = true) by (subst; exact D).
    unfold SemVer.numeric. cbn [negb orb]. rewrite Hnd. cbn [andb option_map].
    intros H. injection H as <-. cbn [small_ident]. intros Hs. apply N.ltb_lt in Hs.
    repeat split; [assumption| |].
    + apply (forallb_impl is_digit); [apply digit_idch|exact D].
    + cbn [ident_rel]. unfold num_ident. rewrite D. apply atoi_digits_val; assumption.
  - destruct (forallb SemVer.is_ident_char x) eqn:F; [|discriminate].
    intros H _. injection H as <-. repeat split; [assumption| |].
    + apply (forallb_impl SemVer.is_ident_char); [apply ident_char_idch|exact F].
    + unfold num_ident. rewrite D. reflexivity.
Qed.

Lemma parse_pre_inv p ids :
  SemVer.parse_pre false p = Some ids -> forallb small_ident ids = true ->
  valid_pre p = true /\ Forall2 ident_rel (split_c "."%char p) ids.
Proof.
  unfold SemVer.parse_pre. intros H Hs. apply map_opt_Forall2 in H.
  assert (G : forall l ids, Forall2 (fun x y => SemVer.pre_ident false x = Some y) l ids ->
              forallb small_ident ids = true ->
              forallb (fun i => match i with [] => false | _ => true end) l = true
              /\ forallb (forallb is_idch) l = true /\ Forall2 ident_rel l ids).
  { induction 1 as [|x y l ys Hxy Hl IH]; intros Hsm; [repeat split; constructor|].
    cbn [forallb] in Hsm. apply andb_true_iff in Hsm as [Hy Hys].
    destruct (pre_ident_inv x y Hxy Hy) as (Hne & Hch & Hrel).
    destruct (IH Hys) as (I1 & I2 & I3). cbn [forallb]. rewrite I1, I2, Hch.
    repeat split; [destruct x; [contradiction|reflexivity]|constructor; assumption]. }
  destruct (G _ _ H Hs) as (G1 & G2 & G3). split; [|exact G3].
  unfold valid_pre. rewrite G1, (split_forall is_idch "."%char p eq_refl G2).
  destruct p; [discriminate G1|reflexivity].
Qed.

Lemma build_ok_inv b : SemVer.build_ok b = true -> valid_build b = true.
Proof.
  unfold SemVer.build_ok, valid_build. intros H.
  assert (G1 : forallb (forallb is_idch) (split_c "."%char b) = true).
  { revert H. apply forallb_impl. intros x. unfold SemVer.build_ident_ok.
    destruct x; [discriminate|]. apply forallb_impl, ident_char_idch. }
  rewrite (split_forall is_idch "."%char b eq_refl G1).
  destruct b; [discriminate H|reflexivity].
Qed.

(* ---------- the denotation and the parser ---------- *)

Definition repr (c : core) (v : SemVer.sv) : Prop :=
  exists n1 n2 n3, SemVer.nums v = [n1; n2; n3] /\
    major c = Z.of_N n1 /\ minor c = Z.of_N n2 /\ patch c = Z.of_N n3 /\
    Forall2 ident_rel (pre c) (SemVer.pre v).

Lemma parse_nums_inv core ns :
  SemVer.parse_nums false 3 3 core = Some ns ->
  exists d1 d2 d3, core = d1 ++ "."%char :: d2 ++ "."%char :: d3 /\
    nonempty_digits d1 = true /\ nonempty_digits d2 = true /\ nonempty_digits d3 = true /\
    ns = [digits_val d1; digits_val d2; digits_val d3].
Proof.
  unfold SemVer.parse_nums.
  destruct (SemVer.map_opt (SemVer.numeric false) (split_c "."%char core)) as [l|] eqn:M; [|discriminate].
  apply map_opt_Forall2 in M.
  destruct (Nat.leb 3 (length l) && Nat.leb (length l) 3)%bool eqn:L; [|discriminate].
  intros H. injection H as <-.
  apply andb_true_iff in L as [L1 L2]. apply Nat.leb_le in L1, L2.
  destruct l as [|n1 [|n2 [|n3 [|n4 l]]]]; simpl in L1, L2; try lia.
  inversion M as [|d1 ? r1 ? N1 M1 S1]; subst.
  inversion M1 as [|d2 ? r2 ? N2 M2 S2]; subst.
  inversion M2 as [|d3 ? r3 ? N3 M3 S3]; subst.
  inversion M3; subst.
  apply numeric_false_inv in N1 as [D1 ->], N2 as [D2 ->], N3 as [D3 ->].
  exists d1, d2, d3. repeat split; try assumption.
  rewrite <- (split_c_join "."%char core), <- S1. cbn [join app]. reflexivity.
Qed.

Lemma no_space_digits d : nonempty_digits d = true -> no_space d = true.
Proof. intros H. apply digits_no_space, (nonempty_digits_inv d H). Qed.

Lemma no_space_core d1 d2 d3 tail :
  nonempty_digits d1 = true -> nonempty_digits d2 = true -> nonempty_digits d3 = true ->
  no_space tail = true ->
  no_space (d1 ++ "."%char :: d2 ++ "."%char :: d3 ++ tail) = true.
Proof.
  intros H1 H2 H3 Ht.
  change (d1 ++ "."%char :: d2 ++ "."%char :: d3 ++ tail)
    with (d1 ++ $"." ++ d2 ++ $"." ++ d3 ++ tail).
  rewrite !no_space_app, (no_space_digits d1 H1), (no_space_digits d2 H2), (no_space_digits d3 H3), Ht.
  reflexivity.
Qed.

Lemma valid_pre_idch p : valid_pre p = true -> forallb is_idch p = true /\ p <> [].
Proof.
  unfold valid_pre. intros H. apply andb_true_iff in H as [H _]. apply andb_true_iff in H as [Hne H].
  split; [exact H|]. destruct p; [discriminate|discriminate].
Qed.

Lemma valid_build_idch b : valid_build b = true -> forallb is_idch b = true.
Proof. unfold valid_build. intros H. apply andb_true_iff in H. tauto. Qed.

Lemma split_pre_nonempty p :
  valid_pre p = true ->
  forallb (fun i : bytes => match i with [] => false | _ => true end) (split_c "."%char p) = true.
Proof. unfold valid_pre. intros H. apply andb_true_iff in H. tauto. Qed.

(* a full version *)
Lemma parse_gen_parse s v :
  SemVer.parse_gen false 3 3 s = Some v -> small_sv v = true ->
  exists c, parse_core s = Some c /\ repr c v /\ no_space s = true.
Proof.
  unfold SemVer.parse_gen, split2_c.
  (* the four shapes of the tail *)
  assert (Main : forall main tail p bm ids ns,
    SemVer.parse_nums false 3 3 main = Some ns ->
    small_sv {| SemVer.nums := SemVer.pad_nums 3 ns; SemVer.pre := ids |} = true ->
    match tail with [] => True | x :: _ => is_digit x = false end ->
    sem_tail tail = Some (p, bm) -> no_space tail = true ->
    (p = [] /\ ids = [] \/ valid_pre p = true /\ Forall2 ident_rel (split_c "."%char p) ids) ->
    exists c, parse_core (main ++ tail) = Some c /\
      repr c {| SemVer.nums := SemVer.pad_nums 3 ns; SemVer.pre := ids |} /\
      no_space (main ++ tail) = true).
  { intros main tail p bm ids ns Hn Hsm Ht Hs Hns Hp.
    destruct (parse_nums_inv main ns Hn) as (d1 & d2 & d3 & -> & D1 & D2 & D3 & ->).
    cbn [SemVer.pad_nums] in *.
    unfold small_sv in Hsm. cbn [SemVer.nums SemVer.pre forallb] in Hsm.
    rewrite !andb_true_iff, !N.ltb_lt in Hsm. destruct Hsm as [(V1 & V2 & V3 & _) Hids].
    assert (EQ : (d1 ++ "."%char :: d2 ++ "."%char :: d3) ++ tail
                 = d1 ++ "."%char :: d2 ++ "."%char :: d3 ++ tail).
    { repeat (rewrite <- app_assoc; cbn [app]). reflexivity. }
    rewrite EQ. unfold parse_core.
    rewrite (parse_semantic_gen d1 d2 d3 tail p bm D1 D2 D3 V1 V2 V3 Ht Hs).
    cbv zeta.
    match goal with |- context [forallb ?f ?l] => assert (E : forallb f l = true) end.
    { destruct Hp as [[-> _]|[Hvp _]]; [reflexivity|].
      destruct (valid_pre_idch p Hvp) as [_ Hne]. destruct p; [congruence|].
      apply (split_pre_nonempty _ Hvp). }
    eexists. split; [rewrite E; reflexivity|]. split.
    - exists (digits_val d1), (digits_val d2), (digits_val d3).
      cbn [SemVer.nums SemVer.pre mk major minor patch pre]. repeat split.
      destruct Hp as [[-> ->]|[Hvp HF]]; [constructor|].
      destruct (valid_pre_idch p Hvp) as [_ Hne]. destruct p; [congruence|exact HF].
    - apply no_space_core; assumption. }
  destruct (cut ["+"%char] s) as [[main b]|] eqn:Cb.
  - (* build metadata *)
    apply cut_single in Cb. subst s.
    destruct (SemVer.build_ok b) eqn:B; [|discriminate].
    apply build_ok_inv in B.
    destruct (cut ["-"%char] main) as [[co p]|] eqn:Cp.
    + apply cut_single in Cp. subst main.
      destruct (SemVer.parse_nums false 3 3 co) as [ns|] eqn:Hn; [|discriminate].
      destruct (SemVer.parse_pre false p) as [ids|] eqn:Hp; [|discriminate].
      intros H Hsm. injection H as <-.
      assert (Hids : forallb small_ident ids = true).
      { unfold small_sv in Hsm. apply andb_true_iff in Hsm. tauto. }
      destruct (parse_pre_inv p ids Hp Hids) as [Hvp HF].
      rewrite <- !app_assoc. cbn [app].
      apply (Main co ("-"%char :: p ++ "+"%char :: b) p b ids ns Hn Hsm).
      * reflexivity.
      * apply sem_tail_pre_build; assumption.
      * change ("-"%char :: p ++ "+"%char :: b) with ($"-" ++ p ++ $"+" ++ b).
        rewrite !no_space_app.
        rewrite (idch_no_space p) by apply (valid_pre_idch p Hvp).
        rewrite (idch_no_space b) by apply (valid_build_idch b B). reflexivity.
      * right. split; assumption.
    + destruct (SemVer.parse_nums false 3 3 main) as [ns|] eqn:Hn; [|discriminate].
      intros H Hsm. injection H as <-.
      apply (Main main ("+"%char :: b) [] b [] ns Hn Hsm).
      * reflexivity.
      * apply sem_tail_build; assumption.
      * change ("+"%char :: b) with ($"+" ++ b). rewrite no_space_app.
        rewrite (idch_no_space b) by apply (valid_build_idch b B). reflexivity.
      * left. split; reflexivity.
  - (* no build metadata *)
    destruct (cut ["-"%char] s) as [[co p]|] eqn:Cp.
    + apply cut_single in Cp. subst s.
      destruct (SemVer.parse_nums false 3 3 co) as [ns|] eqn:Hn; [|discriminate].
      destruct (SemVer.parse_pre false p) as [ids|] eqn:Hp; [|discriminate].
      intros H Hsm. injection H as <-.
      assert (Hids : forallb small_ident ids = true).
      { unfold small_sv in Hsm. apply andb_true_iff in Hsm. tauto. }
      destruct (parse_pre_inv p ids Hp Hids) as [Hvp HF].
      apply (Main co ("-"%char :: p) p [] ids ns Hn Hsm).
      * reflexivity.
      * apply sem_tail_pre; assumption.
      * change ("-"%char :: p) with ($"-" ++ p). rewrite no_space_app.
        rewrite (idch_no_space p) by apply (valid_pre_idch p Hvp). reflexivity.
      * right. split; assumption.
    + destruct (SemVer.parse_nums false 3 3 s) as [ns|] eqn:Hn; [|discriminate].
      intros H Hsm. injection H as <-.
      rewrite <- (app_nil_r s).
      apply (Main s [] [] [] [] ns Hn Hsm); auto.
Qed.

(* a full version, or D.D *)
Lemma den_hex_parse s v :
  SemVer.den_hex s = Some v -> small_sv v = true ->
  exists c, parse_core s = Some c /\ repr c v /\ no_space s = true.
Proof.
  unfold SemVer.den_hex, SemVer.parse_loose.
  destruct (SemVer.parse_gen false 3 3 s) as [w|] eqn:G.
  - intros H. injection H as <-. apply parse_gen_parse. exact G.
  - destruct (SemVer.map_opt (SemVer.numeric false) (split_c "."%char s)) as [l|] eqn:M; [|discriminate].
    destruct l as [|n1 [|n2 [|n3 l]]]; try discriminate.
    intros H Hsm. injection H as <-.
    apply map_opt_Forall2 in M.
    inversion M as [|d1 ? r1 ? N1 M1 S1]; subst.
    inversion M1 as [|d2 ? r2 ? N2 M2 S2]; subst.
    inversion M2; subst.
    apply numeric_false_inv in N1 as [D1 ->], N2 as [D2 ->].
    assert (Hs : s = d1 ++ "."%char :: d2).
    { rewrite <- (split_c_join "."%char s), <- S1. reflexivity. }
    unfold small_sv in Hsm. cbn [SemVer.nums SemVer.pre forallb] in Hsm.
    rewrite !andb_true_iff, !N.ltb_lt in Hsm. destruct Hsm as [(V1 & V2 & _) _].
    rewrite Hs. rewrite (parse_core_partial_gen d1 d2 D1 D2 V1 V2).
    eexists. split; [reflexivity|]. split.
    + exists (digits_val d1), (digits_val d2), 0.
      cbn [SemVer.nums SemVer.pre mk major minor patch pre]. repeat split. constructor.
    + change (d1 ++ "."%char :: d2) with (d1 ++ $"." ++ d2).
      rewrite !no_space_app, (no_space_digits d1 D1), (no_space_digits d2 D2). reflexivity.
Qed.

(* ---------- the two orders agree on corresponding values ---------- *)

Lemma cmp_ident_rel s t i j :
  ident_rel s i -> ident_rel t j -> cmp_ident s t = SemVer.ident_cmp i j.
Proof.
  unfold cmp_ident. destruct i as [n|x], j as [m|y]; cbn [ident_rel SemVer.ident_cmp].
  - intros -> ->. apply N2Z.inj_compare.
  - intros -> [_ ->]. reflexivity.
  - intros [_ ->] ->. reflexivity.
  - intros [-> ->] [-> ->]. reflexivity.
Qed.

Lemma lex_short_rel l1 : forall m1 l2 m2,
  Forall2 ident_rel l1 m1 -> Forall2 ident_rel l2 m2 ->
  lex_short cmp_ident l1 l2 = lex_short SemVer.ident_cmp m1 m2.
Proof.
  induction l1 as [|s l1 IH]; intros m1 l2 m2 H1 H2.
  - inversion H1; subst. inversion H2; subst; reflexivity.
  - inversion H1 as [|? i ? m1' Hsi Hl1]; subst.
    inversion H2 as [|t j l2' m2' Htj Hl2]; subst; [reflexivity|].
    cbn [lex_short]. rewrite (cmp_ident_rel _ _ _ _ Hsi Htj). f_equal. apply IH; assumption.
Qed.

Lemma cmp_pre_rel l1 m1 l2 m2 :
  Forall2 ident_rel l1 m1 -> Forall2 ident_rel l2 m2 ->
  cmp_pre l1 l2 = SemVer.pre_cmp m1 m2.
Proof.
  intros H1 H2. unfold SemVer.pre_cmp, cmp_on.
  pose proof (lex_short_rel l1 m1 l2 m2 H1 H2) as L.
  inversion H1; subst; inversion H2; subst; try reflexivity. exact L.
Qed.

Lemma cmp_core_repr c1 v1 c2 v2 :
  repr c1 v1 -> repr c2 v2 -> cmp_core c1 c2 = SemVer.prec v1 v2.
Proof.
  intros (a1 & b1 & x1 & N1 & Ma1 & Mi1 & Pa1 & F1) (a2 & b2 & x2 & N2 & Ma2 & Mi2 & Pa2 & F2).
  unfold cmp_core, SemVer.prec, lexc, cmp_on.
  rewrite N1, N2, SemVerFacts.nums_cmp_3.
  rewrite Ma1, Ma2, Mi1, Mi2, Pa1, Pa2, !N2Z.inj_compare.
  rewrite (cmp_pre_rel _ _ _ _ F1 F2).
  destruct (a1 ?= a2), (b1 ?= b2), (x1 ?= x2); reflexivity.
Qed.

(* ---------- C08 ---------- *)

Lemma vparse_of_den s v :
  SemVer.den_hex s = Some v -> in_scope s = true ->
  exists c, VLayer.parse parse_core raw_orig s = Some {| v_core := c; v_orig := s |} /\ repr c v.
Proof.
  intros Hd Hsc. unfold in_scope in Hsc. rewrite Hd in Hsc.
  destruct (den_hex_parse s v Hd Hsc) as (c & Hp & Hr & Hns).
  exists c. split; [|exact Hr].
  unfold VLayer.parse. rewrite (trim_space_no_space s Hns), Hp. reflexivity.
Qed.

Theorem hex_cmp_is_spec a b :
  in_scope a = true -> in_scope b = true -> sp_valid a = true -> sp_valid b = true ->
  v_cmp Entry.v a b = sp_cmp a b.
Proof.
  unfold sp_valid, sp_cmp, SemVer.spec_cmp_with. intros Sa Sb Va Vb.
  destruct (SemVer.den_hex a) as [va|] eqn:Da; [|discriminate].
  destruct (SemVer.den_hex b) as [vb|] eqn:Db; [|discriminate].
  destruct (vparse_of_den a va Da Sa) as (ca & Pa & Ra).
  destruct (vparse_of_den b vb Db Sb) as (cb & Pb & Rb).
  cbn [v_cmp Entry.v mk_vops]. rewrite Pa, Pb. unfold VLayer.cmp. cbn [v_core].
  f_equal. apply cmp_core_repr; assumption.
Qed.

Theorem hex_accepts_spec_valid s :
  in_scope s = true -> sp_valid s = true -> exists t, v_show Entry.v s = Some t.
Proof.
  unfold sp_valid. intros Ss Vs.
  destruct (SemVer.den_hex s) as [v|] eqn:D; [|discriminate].
  destruct (vparse_of_den s v D Ss) as (c & P & _).
  cbn [v_show Entry.v mk_vops]. rewrite P. eexists. reflexivity.
Qed.

(* ---------- outside the scope the two differ ---------- *)

(* a numeric identifier >= 2^63 is compared as text by the code, numerically by SemVer *)
Lemma hex_cmp_is_spec_refuted_big_ident :
  let a := $"1.0.0-9223372036854775808" in
  let b := $"1.0.0-10000000000000000000" in
  sp_valid a = true /\ sp_valid b = true /\
  v_cmp Entry.v a b = Some Gt /\ sp_cmp a b = Some Lt /\ in_scope a = false.
Proof. vm_compute. repeat split. Qed.

(* a numeric component >= 2^63 is valid SemVer but rejected by the code *)
Lemma hex_accepts_spec_valid_refuted_big_component :
  let s := $"9223372036854775808.0.0" in
  sp_valid s = true /\ v_show Entry.v s = None /\ in_scope s = false.
Proof. vm_compute. repeat split. Qed.

(* the code accepts more than the reference: empty build identifiers *)
Lemma hex_accepts_more_than_spec :
  sp_valid $"1.0.0+." = false /\ v_show Entry.v $"1.0.0+." = Some $"1.0.0+.".
Proof. vm_compute. split; reflexivity. Qed.

(* the scope predicate holds for every spec-valid text whose digit runs have at most 18 digits:
   sanity instances *)
Lemma in_scope_examples :
  in_scope $"1.2.3-alpha.999999999999999999+b" = true /\
  in_scope $"999999999999999999.0" = true /\ in_scope $"not a version" = true.
Proof. vm_compute. repeat split. Qed.

Print Assumptions hex_cmp_is_spec.
Print Assumptions hex_accepts_spec_valid.
