(* Eco/Hex/Version.v — model of pkg/ecosystem/hex/version.go (definitions only). *)
From Verif.Base Require Import Bytes GoNum.
From Verif.Eco Require Import VLayer.
Local Open Scope N_scope.

(* type Version struct { original; major, minor, patch int; preRelease []string; buildMetadata } *)
Record core := {
  major : Z;
  minor : Z;
  patch : Z;
  pre : list bytes;      (* nil, or the non-empty list of identifiers *)
  build : bytes          (* ignored by Compare *)
}.

(* the character class [a-zA-Z0-9\-\.] of pre-release and build metadata *)
Definition is_idch (c : ascii) : bool :=
  is_alnum c || ceqb c "-"%char || ceqb c "."%char.

(* (\d+) followed by a literal '.' : the digits and what follows the dot *)
Definition digits_dot (s : bytes) : option (bytes * bytes) :=
  match span is_digit s with
  | ([], _) => None
  | (d, c :: r) => if ceqb c "."%char then Some (d, r) else None
  | (_, []) => None
  end.

(* (?:-([a-zA-Z0-9\-\.]+))?(?:\+([a-zA-Z0-9\-\.]+))?$ : (matches[4], matches[5]) *)
Definition build_tail (s : bytes) : option bytes :=
  match s with
  | [] => Some []
  | c :: y =>
      if ceqb c "+"%char
      then match y with
           | [] => None
           | _ => if forallb is_idch y then Some y else None
           end
      else None
  end.

Definition sem_tail (s : bytes) : option (bytes * bytes) :=
  match s with
  | c :: x =>
      if ceqb c "-"%char
      then match span is_idch x with
           | ([], _) => None
           | (p, r) => match build_tail r with
                       | Some b => Some (p, b)
                       | None => None
                       end
           end
      else match build_tail s with
           | Some b => Some ([], b)
           | None => None
           end
  | [] => Some ([], [])
  end.

(* strconv.Atoi on a capture of \d+ *)
Definition atoi_digits (d : bytes) : option Z := atoi d.

(* hexVersionPattern: Some (Some core) = parsed, Some None = matched but rejected by
   parseSemanticVersion, None = the pattern does not match *)
Definition parse_semantic (t : bytes) : option (option core) :=
  match digits_dot t with
  | None => None
  | Some (d1, r1) =>
      match digits_dot r1 with
      | None => None
      | Some (d2, r2) =>
          match span is_digit r2 with
          | ([], _) => None
          | (d3, r3) =>
              match sem_tail r3 with
              | None => None
              | Some (p, b) =>
                  Some
                    match atoi_digits d1, atoi_digits d2, atoi_digits d3 with
                    | Some ma, Some mi, Some pa =>
                        let ids := match p with [] => [] | _ => split_c "."%char p end in
                        if forallb (fun i => match i with [] => false | _ => true end) ids
                        then Some {| major := ma; minor := mi; patch := pa; pre := ids; build := b |}
                        else None
                    | _, _, _ => None
                    end
              end
          end
      end
  end.

(* hexPartialVersionPattern ^(\d+)\.(\d+)$ *)
Definition parse_partial (t : bytes) : option core :=
  match digits_dot t with
  | None => None
  | Some (d1, r1) =>
      if nonempty_digits r1
      then match atoi_digits d1, atoi_digits r1 with
           | Some ma, Some mi =>
               Some {| major := ma; minor := mi; patch := 0%Z; pre := []; build := [] |}
           | _, _ => None
           end
      else None
  end.

Definition parse_core (t : bytes) : option core :=
  match parse_semantic t with
  | Some r => r
  | None => parse_partial t
  end.

(* parseNumericIdentifier: digits only, then strconv.Atoi (which fails on "" and on overflow) *)
Definition num_ident (id : bytes) : option Z :=
  if all_digits id then atoi id else None.

(* comparePreReleaseIdentifier *)
Definition cmp_ident (a b : bytes) : comparison :=
  match num_ident a, num_ident b with
  | Some x, Some y => Z.compare x y
  | Some _, None => Lt
  | None, Some _ => Gt
  | None, None => bytes_cmp a b
  end.

(* comparePreRelease *)
Definition cmp_pre (p1 p2 : list bytes) : comparison :=
  match p1, p2 with
  | [], [] => Eq
  | [], _ :: _ => Gt
  | _ :: _, [] => Lt
  | _, _ => lex_short cmp_ident p1 p2
  end.

Definition cmp_core (a b : core) : comparison :=
  thenc (Z.compare (major a) (major b))
    (thenc (Z.compare (minor a) (minor b))
       (thenc (Z.compare (patch a) (patch b))
          (cmp_pre (pre a) (pre b)))).

(* String() returns the trimmed text *)
Definition raw_orig := false.

Definition ver := VLayer.ver core.
Definition parse : bytes -> option ver := VLayer.parse parse_core raw_orig.
Definition cmp : ver -> ver -> comparison := VLayer.cmp cmp_core.
Definition show : ver -> bytes := VLayer.show.
