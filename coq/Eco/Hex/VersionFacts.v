(* Eco/Hex/VersionFacts.v — Compare of hex versions is a total preorder (C01). *)
From Coq Require Import Lia.
From Verif.Base Require Import Bytes GoNum Ord BytesFacts.
From Verif.Eco.Hex Require Import DecFacts.
From Verif.Eco Require Import VLayer VLayerFacts.
From Verif.Eco.Hex Require Import Version.

(* ---------- identifiers: numbers before strings ---------- *)

Definition str_part (s : bytes) : bytes :=
  match num_ident s with Some _ => [] | None => s end.

Lemma cmp_ident_as_lex a b :
  cmp_ident a b =
  lexc (cmp_on num_ident (opt_last Z.compare)) (cmp_on str_part bytes_cmp) a b.
Proof.
  unfold cmp_ident, lexc, cmp_on, str_part, opt_last, thenc.
  destruct (num_ident a) as [x|], (num_ident b) as [y|]; try reflexivity.
  destruct (Z.compare x y); reflexivity.
Qed.

Lemma cmp_ident_tp : TotalPreorder cmp_ident.
Proof.
  eapply TP_ext; [exact cmp_ident_as_lex|].
  apply TP_lexc; apply TP_on.
  - apply TP_opt_last, TP_Z.
  - apply TP_bytes_cmp.
Qed.

(* ---------- pre-release lists: the empty list (a release) is greatest ---------- *)

Definition pre_key (l : list bytes) : option (list bytes) :=
  match l with [] => None | _ => Some l end.

Lemma cmp_pre_as_opt a b :
  cmp_pre a b = cmp_on pre_key (opt_last (lex_short cmp_ident)) a b.
Proof. destruct a, b; reflexivity. Qed.

Lemma cmp_pre_tp : TotalPreorder cmp_pre.
Proof.
  eapply TP_ext; [exact cmp_pre_as_opt|].
  apply TP_on, TP_opt_last, TP_lex_short, cmp_ident_tp.
Qed.

(* ---------- versions ---------- *)

Lemma cmp_core_as_lex a b :
  cmp_core a b =
  lexc (cmp_on major Z.compare)
    (lexc (cmp_on minor Z.compare)
       (lexc (cmp_on patch Z.compare) (cmp_on pre cmp_pre))) a b.
Proof. reflexivity. Qed.

Lemma cmp_core_tp : TotalPreorder cmp_core.
Proof.
  eapply TP_ext; [exact cmp_core_as_lex|].
  repeat apply TP_lexc; apply TP_on; try apply TP_Z. apply cmp_pre_tp.
Qed.

Lemma cmp_tp : TotalPreorder cmp.
Proof. apply VLayerFacts.cmp_tp, cmp_core_tp. Qed.


(* ---------- C03: numeric triples compare as integer triples; pre-release sorts first ---------- *)

Local Open Scope N_scope.

Definition mk (a b c : N) (p : list bytes) (bm : bytes) : core :=
  {| major := Z.of_N a; minor := Z.of_N b; patch := Z.of_N c; pre := p; build := bm |}.

(* a pre-release / build text the grammar accepts *)
Definition valid_pre (p : bytes) : bool :=
  match p with [] => false | _ => true end
  && forallb is_idch p
  && forallb (fun i => match i with [] => false | _ => true end) (split_c "."%char p).
Definition valid_build (b : bytes) : bool :=
  match b with [] => false | _ => true end && forallb is_idch b.

Lemma digits_dot_dec a r : digits_dot (dec a ++ "."%char :: r) = Some (dec a, r).
Proof.
  unfold digits_dot. rewrite span_app_stop; [|apply dec_digits|reflexivity].
  pose proof (dec_nonempty a). destruct (dec a); [congruence|reflexivity].
Qed.

Lemma span_digits_dec c r :
  match r with [] => True | x :: _ => is_digit x = false end ->
  span is_digit (dec c ++ r) = (dec c, r).
Proof. intros H. apply span_app_stop; [apply dec_digits|assumption]. Qed.

Lemma parse_semantic_dec a b c tail p bm :
  a < two63 -> b < two63 -> c < two63 ->
  match tail with [] => True | x :: _ => is_digit x = false end ->
  sem_tail tail = Some (p, bm) ->
  parse_semantic (dec a ++ "."%char :: dec b ++ "."%char :: dec c ++ tail) =
  Some (let ids := match p with [] => [] | _ => split_c "."%char p end in
        if forallb (fun i => match i with [] => false | _ => true end) ids
        then Some (mk a b c ids bm) else None).
Proof.
  intros Ha Hb Hc Ht Hs. unfold parse_semantic.
  rewrite digits_dot_dec, digits_dot_dec, (span_digits_dec c tail Ht).
  pose proof (dec_nonempty c) as Hne. destruct (dec c) eqn:E; [congruence|]. rewrite <- E.
  rewrite Hs. unfold atoi_digits. rewrite !atoi_dec by assumption. reflexivity.
Qed.

Definition ver3 (a b c : N) : bytes := join $"." (map dec [a; b; c]).
Definition ver2 (a b : N) : bytes := join $"." (map dec [a; b]).

Lemma ver3_eq a b c tail :
  ver3 a b c ++ tail = dec a ++ "."%char :: dec b ++ "."%char :: dec c ++ tail.
Proof.
  unfold ver3. cbn [map join app list_ascii_of_string].
  rewrite <- !app_assoc. cbn [app]. rewrite <- !app_assoc. reflexivity.
Qed.

(* X.Y.Z *)
Lemma parse_release a b c :
  a < two63 -> b < two63 -> c < two63 ->
  parse_core (ver3 a b c) = Some (mk a b c [] []).
Proof.
  intros Ha Hb Hc. unfold parse_core.
  rewrite <- (app_nil_r (ver3 a b c)), ver3_eq.
  rewrite (parse_semantic_dec a b c [] [] []); auto.
Qed.

(* X.Y : patch 0 *)
Lemma parse_partial_release a b :
  a < two63 -> b < two63 ->
  parse_core (ver2 a b) = Some (mk a b 0 [] []).
Proof.
  intros Ha Hb. unfold parse_core, ver2. cbn [map join app list_ascii_of_string].
  assert (Hs : parse_semantic (dec a ++ "."%char :: dec b) = None).
  { unfold parse_semantic. rewrite digits_dot_dec.
    unfold digits_dot. rewrite span_all by apply dec_digits.
    pose proof (dec_nonempty b). destruct (dec b); [congruence|reflexivity]. }
  rewrite Hs. unfold parse_partial. rewrite digits_dot_dec, nonempty_digits_dec.
  unfold atoi_digits. rewrite !atoi_dec by assumption. reflexivity.
Qed.

Lemma is_idch_dash_false : is_idch "+"%char = false.
Proof. reflexivity. Qed.

Lemma sem_tail_pre p : valid_pre p = true -> sem_tail ("-"%char :: p) = Some (p, []).
Proof.
  unfold valid_pre. intros H. apply andb_true_iff in H as [H _]. apply andb_true_iff in H as [Hne Hall].
  unfold sem_tail. change (ceqb "-"%char "-"%char) with true. cbv iota.
  rewrite span_all by assumption. destruct p; [discriminate|reflexivity].
Qed.

Lemma sem_tail_build bm : valid_build bm = true -> sem_tail ("+"%char :: bm) = Some ([], bm).
Proof.
  unfold valid_build. intros H. apply andb_true_iff in H as [Hne Hall].
  unfold sem_tail, build_tail. change (ceqb "+"%char "-"%char) with false.
  change (ceqb "+"%char "+"%char) with true. cbv iota.
  destruct bm; [discriminate|]. rewrite Hall. reflexivity.
Qed.

Lemma sem_tail_pre_build p bm :
  valid_pre p = true -> valid_build bm = true ->
  sem_tail ("-"%char :: p ++ "+"%char :: bm) = Some (p, bm).
Proof.
  unfold valid_pre, valid_build. intros H Hb.
  apply andb_true_iff in H as [H _]. apply andb_true_iff in H as [Hne Hall].
  apply andb_true_iff in Hb as [Hbne Hball].
  unfold sem_tail. change (ceqb "-"%char "-"%char) with true. cbv iota.
  rewrite span_app_stop; [|assumption|reflexivity].
  destruct p; [discriminate|].
  unfold build_tail. change (ceqb "+"%char "+"%char) with true. cbv iota.
  destruct bm; [discriminate|]. rewrite Hball. reflexivity.
Qed.

(* X.Y.Z-pre *)
Lemma parse_prerelease a b c p :
  a < two63 -> b < two63 -> c < two63 -> valid_pre p = true ->
  parse_core (ver3 a b c ++ "-"%char :: p) = Some (mk a b c (split_c "."%char p) []).
Proof.
  intros Ha Hb Hc Hp. unfold parse_core. rewrite ver3_eq.
  rewrite (parse_semantic_dec a b c _ p []); auto; [|apply sem_tail_pre; assumption].
  unfold valid_pre in Hp. apply andb_true_iff in Hp as [Hp Hids]. apply andb_true_iff in Hp as [Hne _].
  destruct p; [discriminate|]. cbv zeta. rewrite Hids. reflexivity.
Qed.

(* X.Y.Z+build *)
Lemma parse_build a b c bm :
  a < two63 -> b < two63 -> c < two63 -> valid_build bm = true ->
  parse_core (ver3 a b c ++ "+"%char :: bm) = Some (mk a b c [] bm).
Proof.
  intros Ha Hb Hc Hp. unfold parse_core. rewrite ver3_eq.
  rewrite (parse_semantic_dec a b c _ [] bm); auto. apply sem_tail_build; assumption.
Qed.

(* X.Y.Z-pre+build *)
Lemma parse_prerelease_build a b c p bm :
  a < two63 -> b < two63 -> c < two63 -> valid_pre p = true -> valid_build bm = true ->
  parse_core (ver3 a b c ++ "-"%char :: p ++ "+"%char :: bm) =
  Some (mk a b c (split_c "."%char p) bm).
Proof.
  intros Ha Hb Hc Hp Hbm. unfold parse_core. rewrite ver3_eq.
  rewrite (parse_semantic_dec a b c _ p bm); auto; [|apply sem_tail_pre_build; assumption].
  unfold valid_pre in Hp. apply andb_true_iff in Hp as [Hp Hids]. apply andb_true_iff in Hp as [Hne _].
  destruct p; [discriminate|]. cbv zeta. rewrite Hids. reflexivity.
Qed.

(* numeric triples compare as integer triples, whatever the build metadata *)
Lemma cmp_core_numeric a b c a' b' c' bm bm' :
  cmp_core (mk a b c [] bm) (mk a' b' c' [] bm') = lex_short N.compare [a; b; c] [a'; b'; c'].
Proof.
  unfold cmp_core, mk. cbn [major minor patch pre lex_short cmp_pre].
  rewrite !N2Z.inj_compare.
  destruct (a ?= a'), (b ?= b'), (c ?= c'); reflexivity.
Qed.

Theorem c03_numeric3 a b c a' b' c' :
  a < two63 -> b < two63 -> c < two63 -> a' < two63 -> b' < two63 -> c' < two63 ->
  exists x y, parse_core (ver3 a b c) = Some x /\ parse_core (ver3 a' b' c') = Some y /\
              cmp_core x y = lex_short N.compare [a; b; c] [a'; b'; c'].
Proof.
  intros. eexists; eexists. rewrite !parse_release by assumption.
  repeat split. apply cmp_core_numeric.
Qed.

Theorem c03_numeric2 a b a' b' :
  a < two63 -> b < two63 -> a' < two63 -> b' < two63 ->
  exists x y, parse_core (ver2 a b) = Some x /\ parse_core (ver2 a' b') = Some y /\
              cmp_core x y = lex_short N.compare [a; b] [a'; b'].
Proof.
  intros. eexists; eexists. rewrite !parse_partial_release by assumption.
  repeat split. rewrite cmp_core_numeric. cbn [lex_short]. rewrite N.compare_refl. 
  destruct (a ?= a'), (b ?= b'); reflexivity.
Qed.

(* X.Y is Compare-equal to X.Y.0 *)
Theorem partial_eq_full a b :
  a < two63 -> b < two63 ->
  exists x y, parse_core (ver2 a b) = Some x /\ parse_core (ver3 a b 0) = Some y /\ cmp_core x y = Eq.
Proof.
  intros. eexists; eexists. rewrite parse_partial_release, parse_release by (assumption || reflexivity).
  repeat split. apply (tp_refl cmp_core_tp).
Qed.

(* a pre-release is smaller than its release, with or without build metadata *)
Lemma cmp_core_pre_lt a b c p bm bm' :
  p <> [] -> cmp_core (mk a b c p bm) (mk a b c [] bm') = Lt.
Proof.
  intros Hp. unfold cmp_core, mk. cbn [major minor patch pre].
  rewrite !Z.compare_refl. cbn [thenc]. destruct p; [congruence|reflexivity].
Qed.

Lemma split_c_nonnil sep s : split_c sep s <> [].
Proof.
  induction s as [|c s IH]; simpl; [discriminate|].
  destruct (ceqb sep c); [discriminate|]. destruct (split_c sep s); discriminate.
Qed.

Theorem c03_prerelease_lt a b c p :
  a < two63 -> b < two63 -> c < two63 -> valid_pre p = true ->
  exists x y, parse_core (ver3 a b c ++ "-"%char :: p) = Some x /\
              parse_core (ver3 a b c) = Some y /\ cmp_core x y = Lt.
Proof.
  intros. eexists; eexists. rewrite parse_prerelease, parse_release by assumption.
  repeat split. apply cmp_core_pre_lt, split_c_nonnil.
Qed.

(* build metadata never matters *)
Theorem c03_build_ignored a b c bm :
  a < two63 -> b < two63 -> c < two63 -> valid_build bm = true ->
  exists x y, parse_core (ver3 a b c ++ "+"%char :: bm) = Some x /\
              parse_core (ver3 a b c) = Some y /\ cmp_core x y = Eq.
Proof.
  intros. eexists; eexists. rewrite parse_build, parse_release by assumption.
  repeat split. rewrite cmp_core_numeric. apply (tp_refl (TP_lex_short _ _ TP_N)).
Qed.

Lemma cmp_core_build_irrelevant x bm :
  cmp_core x {| major := major x; minor := minor x; patch := patch x; pre := pre x; build := bm |} = Eq.
Proof.
  unfold cmp_core. cbn [major minor patch pre]. rewrite !Z.compare_refl. cbn [thenc].
  apply (tp_refl cmp_pre_tp).
Qed.

(* numeric identifiers: compared as integers, and below every alphanumeric identifier *)
Lemma num_ident_dec n : n < two63 -> num_ident (dec n) = Some (Z.of_N n).
Proof. intros H. unfold num_ident. rewrite all_digits_dec. apply atoi_dec, H. Qed.

Lemma cmp_ident_numeric m n :
  m < two63 -> n < two63 -> cmp_ident (dec m) (dec n) = N.compare m n.
Proof.
  intros Hm Hn. unfold cmp_ident. rewrite !num_ident_dec by assumption. apply N2Z.inj_compare.
Qed.

Lemma cmp_ident_num_lt_alpha n s :
  n < two63 -> all_digits s = false -> cmp_ident (dec n) s = Lt.
Proof.
  intros Hn Hs. unfold cmp_ident. rewrite num_ident_dec by assumption.
  unfold num_ident. rewrite Hs. reflexivity.
Qed.

(* the quirk: a digit string above MaxInt64 is an alphanumeric identifier, compared bytewise *)
Lemma num_ident_overflow :
  num_ident $"9223372036854775808" = None /\
  cmp_ident $"9223372036854775808" $"10000000000000000000" = Gt /\
  cmp_ident $"9223372036854775807" $"9223372036854775808" = Lt /\
  cmp_ident $"9223372036854775808" $"a" = Lt /\
  cmp_ident $"99999999999999999999" $"9223372036854775807" = Gt.
Proof. vm_compute. repeat split. Qed.

(* ---------- parser invariant: the numeric fields are in [0, MaxInt64] ---------- *)

Lemma take_while_all p (s : bytes) : forallb p (take_while p s) = true.
Proof. induction s as [|c s IH]; simpl; [reflexivity|]. destruct (p c) eqn:E; simpl; [rewrite E; exact IH|reflexivity]. Qed.

Lemma atoi_digits_range d z :
  nonempty_digits d = true -> atoi d = Some z -> (0 <= z <= max_int64)%Z.
Proof.
  intros Hd. unfold atoi. destruct d as [|c r]; [discriminate|].
  assert (Hc : is_digit c = true).
  { unfold nonempty_digits in Hd. simpl in Hd. apply andb_true_iff in Hd. tauto. }
  destruct (digit_not_char c "-"%char Hc) as [_ ->]; [left; vm_compute; reflexivity|].
  destruct (digit_not_char c "+"%char Hc) as [_ ->]; [left; vm_compute; reflexivity|].
  rewrite Hd. destruct (N.ltb_spec (digits_val (c :: r)) two63) as [L|L]; [|discriminate].
  intros H. injection H as <-. unfold two63 in L. unfold max_int64. lia.
Qed.

Lemma digits_dot_digits s d r : digits_dot s = Some (d, r) -> nonempty_digits d = true.
Proof.
  unfold digits_dot, span. pose proof (take_while_all is_digit s) as H.
  destruct (take_while is_digit s) as [|x d'] eqn:E; [discriminate|].
  destruct (drop_while is_digit s) as [|c r']; [discriminate|].
  destruct (ceqb c "."%char); [|discriminate]. intros G. injection G as <- <-. exact H.
Qed.

Definition wf (c : core) : Prop :=
  (0 <= major c <= max_int64)%Z /\ (0 <= minor c <= max_int64)%Z /\ (0 <= patch c <= max_int64)%Z
  /\ Forall (fun i => i <> []) (pre c).

Lemma parse_partial_wf t c : parse_partial t = Some c -> wf c.
Proof.
  unfold parse_partial.
  destruct (digits_dot t) as [[d1 r1]|] eqn:E1; [|discriminate].
  pose proof (digits_dot_digits _ _ _ E1) as H1.
  destruct (nonempty_digits r1) eqn:H2; [|discriminate].
  unfold atoi_digits.
  destruct (atoi d1) as [ma|] eqn:A1; [|discriminate].
  destruct (atoi r1) as [mi|] eqn:A2; [|discriminate].
  intros G. injection G as <-. unfold wf. cbn [major minor patch pre].
  pose proof (atoi_digits_range _ _ H1 A1). pose proof (atoi_digits_range _ _ H2 A2).
  unfold max_int64 in *. repeat split; try lia. constructor.
Qed.

Lemma parse_semantic_wf t c : parse_semantic t = Some (Some c) -> wf c.
Proof.
  unfold parse_semantic.
  destruct (digits_dot t) as [[d1 r1]|] eqn:E1; [|discriminate].
  pose proof (digits_dot_digits _ _ _ E1) as H1.
  destruct (digits_dot r1) as [[d2 r2]|] eqn:E2; [|discriminate].
  pose proof (digits_dot_digits _ _ _ E2) as H2.
  unfold span. pose proof (take_while_all is_digit r2) as H3.
  destruct (take_while is_digit r2) as [|x d3] eqn:E3; [discriminate|].
  destruct (sem_tail (drop_while is_digit r2)) as [[p b]|]; [|discriminate].
  unfold atoi_digits.
  destruct (atoi d1) as [ma|] eqn:A1; [|discriminate].
  destruct (atoi d2) as [mi|] eqn:A2; [|discriminate].
  destruct (atoi (x :: d3)) as [pa|] eqn:A3; [|discriminate].
  match goal with |- context [forallb ?f ?l] => destruct (forallb f l) eqn:F end; [|discriminate].
  intros G. injection G as <-. unfold wf. cbn [major minor patch pre].
  pose proof (atoi_digits_range _ _ H1 A1). pose proof (atoi_digits_range _ _ H2 A2).
  pose proof (atoi_digits_range (x :: d3) _ H3 A3).
  repeat split; try tauto.
  apply Forall_forall. intros i Hi. rewrite forallb_forall in F. specialize (F i Hi).
  destruct i; discriminate.
Qed.

Lemma parse_core_wf t c : parse_core t = Some c -> wf c.
Proof.
  unfold parse_core. destruct (parse_semantic t) as [[x|]|] eqn:E.
  - intros G. injection G as <-. apply (parse_semantic_wf t), E.
  - discriminate.
  - apply parse_partial_wf.
Qed.

Print Assumptions cmp_core_tp.
Print Assumptions cmp_tp.
Print Assumptions c03_numeric3.
Print Assumptions c03_numeric2.
Print Assumptions c03_prerelease_lt.
Print Assumptions c03_build_ignored.
Print Assumptions parse_core_wf.
