(* Eco/Iface.v — the uniform string-level interface of an ecosystem model, consumed by the
   driver (correspondence), the VERS model and the CLI model. *)
From Verif.Base Require Import Bytes GoNum.
From Verif.Eco Require Import RangeCore VLayer.

(* version layer, string level *)
Record vops := {
  v_show : bytes -> option bytes;                 (* Some (String()) iff NewVersion accepts *)
  v_cmp : bytes -> bytes -> option comparison     (* Compare of the two parsed versions *)
}.

(* from an ecosystem's [parse_core] / [cmp_core] / [raw_orig] (see Eco/VLayer.v) *)
Definition mk_vops {C} (parse_core : bytes -> option C)
  (cmp_core : C -> C -> comparison) (raw_orig : bool) : vops := {|
  v_show := fun s => option_map VLayer.show (VLayer.parse parse_core raw_orig s);
  v_cmp := fun a b =>
    match VLayer.parse parse_core raw_orig a, VLayer.parse parse_core raw_orig b with
    | Some x, Some y => Some (VLayer.cmp cmp_core x y)
    | _, _ => None
    end
|}.

(* range layer over a version layer given as an oracle on version TEXTS:
     vok s      = NewVersion(s) succeeds
     vcmp a b   = NewVersion(a).Compare(NewVersion(b))   (only asked when both are ok)
   In the correspondence run the oracle is the implementation, so that only range logic is
   compared; end to end it is the model's own version layer ([self_vok], [self_vcmp]).
   Where the Go range code reads FIELDS of a parsed version (v.major, ...), the range model
   calls its own ecosystem's [parse_core] on the same text. *)
Record rops := {
  r_show : (bytes -> bool) -> bytes -> option bytes;   (* Some (String()) iff NewVersionRange accepts *)
  r_contains : (bytes -> bool) -> (bytes -> bytes -> comparison) -> bytes -> bytes -> option bool
      (* r_contains vok vcmp range version = Some (Contains) ; None if range or version is rejected *)
}.

Definition oracle_parse (vok : bytes -> bool) (s : bytes) : option bytes :=
  if vok s then Some s else None.

(* the ten "operator prefix + separator" range parsers are instances of Eco/RangeCore.v *)
Definition mk_simple_rops (cfg : range_cfg) : rops := {|
  r_show := fun vok s =>
    option_map RangeCore.show (RangeCore.parse_range bytes (oracle_parse vok) cfg s);
  r_contains := fun vok vcmp r v =>
    match RangeCore.parse_range bytes (oracle_parse vok) cfg r with
    | Some rg => if vok v then Some (RangeCore.contains bytes (oracle_parse vok) vcmp cfg rg v) else None
    | None => None
    end
|}.

Record eco := { e_name : bytes; e_v : vops; e_r : rops }.

Fixpoint find_eco (name : bytes) (l : list eco) : option eco :=
  match l with
  | [] => None
  | e :: r => if beq name (e_name e) then Some e else find_eco name r
  end.

(* the model's own version layer as the oracle (end-to-end use) *)
Definition self_vok (e : eco) (s : bytes) : bool :=
  match v_show (e_v e) s with Some _ => true | None => false end.
Definition self_vcmp (e : eco) (a b : bytes) : comparison :=
  match v_cmp (e_v e) a b with Some c => c | None => Eq end.
