From Verif.Base Require Import Bytes.
From Verif.Eco Require Import Iface.
From Verif.Eco.Mattermost Require Version Range.

Definition v : vops := mk_vops Mattermost.Version.parse_core Mattermost.Version.cmp_core Mattermost.Version.raw_orig.
Definition r : rops := mk_simple_rops Mattermost.Range.cfg.
Definition entry : eco := {| e_name := $"mattermost"; e_v := v; e_r := r |}.
