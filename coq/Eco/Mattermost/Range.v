(* Eco/Mattermost/Range.v — model of pkg/ecosystem/mattermost/range.go *)
From Verif.Base Require Import Bytes GoNum Ord.
From Verif.Gen Require Operators.
From Verif.Eco Require Import RangeCore.

(* constraintPattern ^(>=|<=|>|<|=)?(.+)$ : alternatives in source order *)
(* the list is generated from the Go source on every run (tools/gen -> Gen/Operators.v) *)
Definition mattermost_ops : list bytes :=
  Eval cbv delta [Verif.Gen.Operators.mattermost_ops] in Verif.Gen.Operators.mattermost_ops.

Definition cfg : range_cfg := {|
  rc_split := split_fields;
  rc_empty_ok := false;
  rc_ops := mattermost_ops;
  rc_style := RegexpOpt;
  rc_sem := sem5;
  rc_eager := true;
  rc_trimmed_orig := false
|}.
