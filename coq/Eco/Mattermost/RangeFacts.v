(* Eco/Mattermost/RangeFacts.v — C02 and C20 for the mattermost range model (an instance of
   Eco/RangeCore.v), stated on the string-level interface [Entry.r] for ARBITRARY oracles
   [vok] / [vcmp]. *)
From Verif.Base Require Import Bytes BytesFacts GoNum Ord.
From Verif.Eco.Apache Require Import FieldsFacts.
From Verif.Eco Require Import RangeCore RangeCoreFacts Iface.
From Verif.Eco.Apache Require Import FieldsRangeFacts.
From Verif.Eco.Mattermost Require Import Range Entry.

Lemma mattermost_ops_ok : ops_ok mattermost_ops = true.
Proof. reflexivity. Qed.

Lemma oracle_parse_ok vok a : vok a = true -> oracle_parse vok a = Some a.
Proof. intros H. unfold oracle_parse. rewrite H. reflexivity. Qed.

(* C02: ">=a", "<=a", ">a", "<a", "=a" contain v iff Compare(v, a) has the operator's sign *)
Theorem c02_op vok vcmp op a v :
  In op mattermost_ops -> bound_in_scope a -> vok a = true -> vok v = true ->
  r_contains r vok vcmp (op ++ a) v = Some (sat (sem5 op) (vcmp v a)).
Proof.
  intros Hin Hsc Ha Hv.
  destruct (fields_c02_single bytes (oracle_parse vok) vcmp cfg eq_refl mattermost_ops_ok op a a
              Hin Hsc (oracle_parse_ok vok a Ha)) as (rg & Hr & Hc).
  unfold r, mk_simple_rops, r_contains. rewrite Hr, Hv, Hc. reflexivity.
Qed.

(* C02: a bare version is an exact match *)
Theorem c02_bare vok vcmp a v :
  bound_in_scope a -> vok a = true -> vok v = true ->
  r_contains r vok vcmp a v = Some (sat CEq (vcmp v a)).
Proof.
  intros Hsc Ha Hv.
  destruct (fields_c02_bare bytes (oracle_parse vok) vcmp cfg eq_refl mattermost_ops_ok a a
              Hsc (oracle_parse_ok vok a Ha)) as (rg & Hr & Hc).
  unfold r, mk_simple_rops, r_contains. rewrite Hr, Hv, Hc. reflexivity.
Qed.

(* C02: space-separated comparators are a conjunction *)
Theorem c02_and vok vcmp (cs : list constraint) v :
  cs <> [] ->
  Forall (fun c => In (fst c) mattermost_ops /\ bound_in_scope (snd c) /\ vok (snd c) = true) cs ->
  vok v = true ->
  r_contains r vok vcmp (join $" " (map ctext cs)) v =   (* ctext c = fst c ++ snd c *)
  Some (forallb (fun c => sat (sem5 (fst c)) (vcmp v (snd c))) cs).
Proof.
  intros Hne HF Hv.
  destruct (fields_c02_and bytes (oracle_parse vok) vcmp cfg eq_refl mattermost_ops_ok cs Hne)
    as (rg & Hr & Hc).
  { rewrite Forall_forall in *. intros c Hc. destruct (HF c Hc) as (H1 & H2 & H3).
    repeat split; try apply H2; auto. exists (snd c). apply oracle_parse_ok. assumption. }
  unfold r, mk_simple_rops, r_contains. rewrite Hr, Hv, Hc. f_equal.
  clear Hr Hc Hne. induction cs as [|c cs IH]; [reflexivity|].
  inversion HF as [|? ? (_ & _ & H3) HF']; subst. cbn [forallb].
  rewrite (oracle_parse_ok vok _ H3), (IH HF'). reflexivity.
Qed.

(* the five spellings and their meaning *)
Lemma sem_table :
  map sem5 mattermost_ops = [CGe; CLe; CGt; CLt; CEq].
Proof. reflexivity. Qed.

(* C20: membership depends only on the position in the order, for any total-preorder oracle *)
Theorem c20_eq vok vcmp rg a b :
  TotalPreorder vcmp -> vok a = true -> vok b = true -> vcmp a b = Eq ->
  r_contains r vok vcmp rg a = r_contains r vok vcmp rg b.
Proof.
  intros TP Ha Hb E. unfold r, mk_simple_rops, r_contains.
  destruct (RangeCore.parse_range bytes (oracle_parse vok) cfg rg) as [x|]; [|reflexivity].
  rewrite Ha, Hb. f_equal. apply simple_range_c20_eq; assumption.
Qed.

(* C20: every mattermost range is convex (there is no != operator) *)
Lemma conj_only_all vok x rg :
  RangeCore.parse_range bytes (oracle_parse vok) cfg rg = Some x -> conj_only cfg x = true.
Proof.
  intros _. unfold conj_only. apply forallb_forall. intros c _.
  unfold cfg, rc_sem, sem5.
  repeat match goal with |- context [if ?b then _ else _] => destruct b; try reflexivity end.
Qed.

Theorem c20_convex vok vcmp rg a b c :
  TotalPreorder vcmp -> vok a = true -> vok b = true -> vok c = true ->
  le_c (vcmp a b) -> le_c (vcmp b c) ->
  r_contains r vok vcmp rg a = Some true -> r_contains r vok vcmp rg c = Some true ->
  r_contains r vok vcmp rg b = Some true.
Proof.
  intros TP Ha Hb Hc Hab Hbc. unfold r, mk_simple_rops, r_contains.
  destruct (RangeCore.parse_range bytes (oracle_parse vok) cfg rg) as [x|] eqn:E; [|discriminate].
  rewrite Ha, Hb, Hc. intros H1 H2. injection H1 as H1. injection H2 as H2. f_equal.
  apply (simple_range_c20_convex bytes (oracle_parse vok) vcmp cfg TP x a b c); auto.
  apply (conj_only_all vok x rg E).
Qed.

Print Assumptions c02_op.
Print Assumptions c02_bare.
Print Assumptions c02_and.
Print Assumptions c20_eq.
Print Assumptions c20_convex.
