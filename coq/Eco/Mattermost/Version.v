(* Eco/Mattermost/Version.v — model of pkg/ecosystem/mattermost/version.go (definitions only). *)
From Verif.Base Require Import Bytes GoNum.
From Verif.Gen Require Tables.
From Verif.Eco Require Import VLayer.
Local Open Scope N_scope.

Record core := {
  prefix : bytes;      (* "v" or "" ; not looked at by Compare *)
  major : Z;
  minor : Z;
  patch : Z;
  qualifier : bytes;   (* "rc", "esr" or [] = release *)
  number : Z
}.

(* strconv.Atoi on a run of digits *)
Definition atoi_digits (d : bytes) : option Z :=
  if nonempty_digits d && (digits_val d <? two63) then Some (Z.of_N (digits_val d)) else None.

(* a numeric component, 0 or [1-9][0-9]..., followed by a non-digit or the end: the maximal digit run must be "0" or
   start with a non-zero digit *)
Definition num_ok (d : bytes) : bool :=
  match d with
  | [] => false
  | c :: r => if ceqb c "0"%char then match r with [] => true | _ => false end else true
  end.

(* the tail (?:-(esr|rc)(\d* ))?$ ; case-sensitive *)
Definition parse_tail (rest : bytes) : option (bytes * bytes) :=
  match rest with
  | [] => Some ([], [])
  | _ =>
      match strip_prefix $"-esr" rest with
      | Some d => if all_digits d then Some ($"esr", d) else None
      | None =>
          match strip_prefix $"-rc" rest with
          | Some d => if all_digits d then Some ($"rc", d) else None
          | None => None
          end
      end
  end.

(* mattermostVersionPattern  ^(v)?N\.N\.N(?:-(esr|rc)(D))?$  with N = 0|[1-9][0-9]...  and D = [0-9]... *)
Definition parse_core (t : bytes) : option core :=
  let (pfx, t0) := match strip_prefix $"v" t with Some r => ($"v", r) | None => ([], t) end in
  let (d1, r1) := span is_digit t0 in
  match r1 with
  | c1 :: r1' =>
    if ceqb c1 "."%char then
      let (d2, r2) := span is_digit r1' in
      match r2 with
      | c2 :: r2' =>
        if ceqb c2 "."%char then
          let (d3, r3) := span is_digit r2' in
          if num_ok d1 && num_ok d2 && num_ok d3 then
            match parse_tail r3 with
            | Some (q, d) =>
                match atoi_digits d1, atoi_digits d2, atoi_digits d3 with
                | Some ma, Some mi, Some pa =>
                    match q, d with
                    | _ :: _, _ :: _ =>
                        match atoi_digits d with
                        | Some n => Some {| prefix := pfx; major := ma; minor := mi; patch := pa;
                                            qualifier := to_lower q; number := n |}
                        | None => None
                        end
                    | _, _ => Some {| prefix := pfx; major := ma; minor := mi; patch := pa;
                                      qualifier := to_lower q; number := 0 |}
                    end
                | _, _, _ => None
                end
            | None => None
            end
          else None
        else None
      | [] => None
      end
    else None
  | [] => None
  end.

(* the switch's default branch (Go: precedenceUnknown), generated from the Go source; the
   generator evaluates the named constants, so the table below holds the values of
   precedenceRC / precedenceESR *)
Definition precedenceUnknown : Z :=
  Eval cbv delta [Verif.Gen.Tables.mattermost_getQualifierPrecedence_default] in Verif.Gen.Tables.mattermost_getQualifierPrecedence_default.

(* getQualifierPrecedence *)
(* generated from the Go source on every run (tools/gen -> Gen/Tables.v) *)
Definition qualifier_precedence_table : list (bytes * Z) :=
  Eval cbv delta [Verif.Gen.Tables.mattermost_getQualifierPrecedence] in Verif.Gen.Tables.mattermost_getQualifierPrecedence.

Definition qualifier_precedence (q : bytes) : Z :=
  match lookup q qualifier_precedence_table with
  | Some p => p
  | None => precedenceUnknown
  end.

(* Go's named constants are what the switch returns for their clauses *)
Definition precedenceRC : Z := qualifier_precedence $"rc".
Definition precedenceESR : Z := qualifier_precedence $"esr".

(* compareQualifiers: no qualifier is greatest; otherwise (precedence, number) *)
Definition qkey (c : core) : option (Z * Z) :=
  match qualifier c with
  | [] => None
  | q => Some (qualifier_precedence q, number c)
  end.

Definition cmp_core : core -> core -> comparison :=
  lexc (cmp_on major Z.compare)
    (lexc (cmp_on minor Z.compare)
      (lexc (cmp_on patch Z.compare)
        (cmp_on qkey (opt_last (lex2 Z.compare Z.compare))))).

(* original: trimmed *)
Definition raw_orig := false.

Definition ver := VLayer.ver core.
Definition parse : bytes -> option ver := VLayer.parse parse_core raw_orig.
Definition cmp : ver -> ver -> comparison := VLayer.cmp cmp_core.
Definition show : ver -> bytes := VLayer.show.
