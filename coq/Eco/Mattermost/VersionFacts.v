(* Eco/Mattermost/VersionFacts.v — C01 (Compare is a total preorder) and C03 (numeric triples
   compare as integer triples; "-rc" and "-esr" are pre-release markers, rc < esr; the "v" prefix
   is ignored) for the mattermost model. *)
From Coq Require Import Lia.
From Verif.Base Require Import Bytes GoNum Ord BytesFacts.
From Verif.Eco.Apache Require Import DecFacts.
From Verif.Eco Require Import VLayer VLayerFacts.
From Verif.Eco.Mattermost Require Import Version.
Local Open Scope N_scope.

(* ---------- C01 ---------- *)

Lemma cmp_core_tp : TotalPreorder cmp_core.
Proof.
  unfold cmp_core.
  repeat (apply TP_lexc; [apply TP_on, TP_Z|]).
  apply TP_on, TP_opt_last, TP_lex2; apply TP_Z.
Qed.

Lemma cmp_tp : TotalPreorder cmp.
Proof. apply VLayerFacts.cmp_tp, cmp_core_tp. Qed.

(* ---------- C03: numeric part ---------- *)

Definition mk (pfx : bytes) (a b c : N) (q : bytes) (n : Z) : core :=
  {| prefix := pfx; major := Z.of_N a; minor := Z.of_N b; patch := Z.of_N c;
     qualifier := q; number := n |}.
Definition release (pfx : bytes) (a b c : N) : core := mk pfx a b c [] 0.

Definition num3 (a b c : N) : bytes := join $"." (map dec [a; b; c]).

Lemma num3_eq a b c : num3 a b c = dec a ++ "."%char :: dec b ++ "."%char :: dec c.
Proof. reflexivity. Qed.

Lemma atoi_digits_dec n : n < two63 -> atoi_digits (dec n) = Some (Z.of_N n).
Proof.
  intros H. unfold atoi_digits. rewrite nonempty_digits_dec, digits_val_dec.
  apply N.ltb_lt in H. rewrite H. reflexivity.
Qed.

(* fmt "%d" never prints a leading zero, so printed numbers pass 0|[1-9][0-9]... *)
Lemma num_ok_dec n : num_ok (dec n) = true.
Proof.
  destruct (N.eq_dec n 0) as [->|Hn]; [reflexivity|].
  destruct (dec_hd_nonzero n ltac:(lia)) as (c & t & E & Hc).
  rewrite E. unfold num_ok. rewrite Hc. reflexivity.
Qed.

Lemma digit_not_v x : is_digit x = true -> ceqb "v"%char x = false.
Proof.
  unfold is_digit, in_range, ceqb. rewrite andb_true_iff, !N.leb_le. intros [H1 H2].
  apply N.eqb_neq. change (code "v"%char) with 118. lia.
Qed.

Definition pfx_ok (p : bytes) : Prop := p = [] \/ p = $"v".

Lemma strip_v p s :
  pfx_ok p -> match s with [] => False | x :: _ => is_digit x = true end ->
  (match strip_prefix $"v" (p ++ s) with Some r => ($"v", r) | None => ([], p ++ s) end) = (p, s).
Proof.
  intros [->| ->] Hs.
  - destruct s as [|x s]; [contradiction|]. cbn [app]. unfold strip_prefix.
    change (list_ascii_of_string "v") with ["v"%char]. cbn [has_prefix].
    rewrite (digit_not_v x Hs). reflexivity.
  - reflexivity.
Qed.

Definition result (pfx : bytes) (a b c : N) (tl : option (bytes * bytes)) : option core :=
  match tl with
  | Some (q, d) =>
      match q, d with
      | _ :: _, _ :: _ =>
          match atoi_digits d with
          | Some n => Some (mk pfx a b c (to_lower q) n)
          | None => None
          end
      | _, _ => Some (mk pfx a b c (to_lower q) 0)
      end
  | None => None
  end.

Lemma parse_core_num3 p a b c rest :
  pfx_ok p -> a < two63 -> b < two63 -> c < two63 ->
  match rest with [] => True | x :: _ => is_digit x = false end ->
  parse_core (p ++ num3 a b c ++ rest) = result p a b c (parse_tail rest).
Proof.
  intros Hp Ha Hb Hc Hrest. unfold parse_core.
  rewrite strip_v; [|assumption|].
  2:{ rewrite num3_eq. destruct (dec_hd_digit a) as (x & t & E & Hx). rewrite E. exact Hx. }
  rewrite num3_eq. rewrite <- !app_assoc. cbn [app].
  rewrite (span_app_stop is_digit (dec a)) by (auto using dec_all_digits).
  change (ceqb "." ".") with true. cbv iota.
  rewrite <- app_assoc. cbn [app].
  rewrite (span_app_stop is_digit (dec b)) by (auto using dec_all_digits).
  change (ceqb "." ".") with true. cbv iota.
  assert (Hs : span is_digit (dec c ++ rest) = (dec c, rest)).
  { destruct rest as [|x rest].
    - rewrite app_nil_r. apply span_all, dec_all_digits.
    - apply span_app_stop; [apply dec_all_digits|assumption]. }
  rewrite Hs, !num_ok_dec. cbn [andb].
  unfold result. destruct (parse_tail rest) as [[q d]|]; [|reflexivity].
  rewrite !atoi_digits_dec by assumption. reflexivity.
Qed.

Lemma parse_core_release p a b c :
  pfx_ok p -> a < two63 -> b < two63 -> c < two63 ->
  parse_core (p ++ num3 a b c) = Some (release p a b c).
Proof.
  intros Hp Ha Hb Hc. rewrite <- (app_nil_r (num3 a b c)).
  rewrite parse_core_num3 by (auto; exact I). reflexivity.
Qed.

Lemma cmp_core_release p p' a b c a' b' c' :
  cmp_core (release p a b c) (release p' a' b' c') = lex_short N.compare [a; b; c] [a'; b'; c'].
Proof.
  unfold cmp_core, lexc, cmp_on, release, mk.
  cbn [major minor patch qualifier number qkey opt_last lex_short].
  rewrite !N2Z.inj_compare.
  destruct (a ?= a'), (b ?= b'), (c ?= c'); reflexivity.
Qed.

(* C03, numeric tuples: the parser accepts exactly arity 3 (with or without "v"); two dotted
   triples compare as integer triples, whatever the prefixes *)
Theorem c03_numeric p1 p2 t1 t2 :
  pfx_ok p1 -> pfx_ok p2 ->
  length t1 = 3%nat -> length t2 = 3%nat ->
  Forall (fun x => x < two63) t1 -> Forall (fun x => x < two63) t2 ->
  exists c1 c2,
    parse_core (p1 ++ join $"." (map dec t1)) = Some c1 /\
    parse_core (p2 ++ join $"." (map dec t2)) = Some c2 /\
    cmp_core c1 c2 = lex_short N.compare t1 t2.
Proof.
  intros P1 P2 L1 L2 F1 F2.
  destruct t1 as [|a [|b [|c [|]]]]; try discriminate.
  destruct t2 as [|a' [|b' [|c' [|]]]]; try discriminate.
  inversion F1 as [|? ? Ha F1']; subst. inversion F1' as [|? ? Hb F1'']; subst.
  inversion F1'' as [|? ? Hc _]; subst.
  inversion F2 as [|? ? Ha' F2']; subst. inversion F2' as [|? ? Hb' F2'']; subst.
  inversion F2'' as [|? ? Hc' _]; subst.
  exists (release p1 a b c), (release p2 a' b' c'). repeat split.
  - apply (parse_core_release p1 a b c); assumption.
  - apply (parse_core_release p2 a' b' c'); assumption.
  - apply cmp_core_release.
Qed.

(* the "v" prefix does not matter to Compare *)
Corollary v_prefix_ignored a b c :
  a < two63 -> b < two63 -> c < two63 ->
  exists c1 c2, parse_core ($"v" ++ num3 a b c) = Some c1 /\ parse_core (num3 a b c) = Some c2 /\
                cmp_core c1 c2 = Eq.
Proof.
  intros Ha Hb Hc. exists (release $"v" a b c), (release [] a b c). repeat split.
  - apply parse_core_release; auto. right. reflexivity.
  - apply (parse_core_release [] a b c); auto. left. reflexivity.
  - rewrite cmp_core_release. cbn [lex_short]. rewrite !N.compare_refl. reflexivity.
Qed.

(* ---------- C03: qualifiers are pre-release markers ---------- *)

Lemma qualified_lt_release c r :
  major c = major r -> minor c = minor r -> patch c = patch r ->
  qualifier c <> [] -> qualifier r = [] -> cmp_core c r = Lt.
Proof.
  intros H1 H2 H3 Hq Hr. unfold cmp_core, lexc, cmp_on, qkey.
  rewrite H1, H2, H3, !Z.compare_refl, Hr. cbn [thenc].
  destruct (qualifier c); [contradiction|reflexivity].
Qed.

Lemma qualified_order c1 c2 :
  major c1 = major c2 -> minor c1 = minor c2 -> patch c1 = patch c2 ->
  qualifier c1 <> [] -> qualifier c2 <> [] ->
  cmp_core c1 c2 =
  thenc (Z.compare (qualifier_precedence (qualifier c1)) (qualifier_precedence (qualifier c2)))
        (Z.compare (number c1) (number c2)).
Proof.
  intros H1 H2 H3 Hq1 Hq2. unfold cmp_core, lexc, cmp_on, qkey.
  rewrite H1, H2, H3, !Z.compare_refl. cbn [thenc].
  destruct (qualifier c1); [contradiction|]. destruct (qualifier c2); [contradiction|].
  reflexivity.
Qed.

Definition marker (q : bytes) : Prop := q = $"rc" \/ q = $"esr".

Lemma parse_tail_marker q d :
  marker q -> forallb is_digit d = true -> parse_tail ("-"%char :: q ++ d) = Some (q, d).
Proof.
  intros [-> | ->] Hd; unfold parse_tail, strip_prefix; cbn [list_ascii_of_string app has_prefix length skipn];
    repeat (match goal with |- context [ceqb ?x ?y] =>
              let v := eval vm_compute in (ceqb x y) in change (ceqb x y) with v end);
    cbn [andb]; unfold all_digits; rewrite Hd; reflexivity.
Qed.

(* C03, markers: "X.Y.Z-rc<digits>" and "X.Y.Z-esr<digits>" parse and are strictly below
   "X.Y.Z"; mattermost has no post-release markers (these are the only accepted suffixes). *)
Theorem c03_prerelease p a b c q d :
  pfx_ok p -> a < two63 -> b < two63 -> c < two63 ->
  marker q -> forallb is_digit d = true -> digits_val d < two63 ->
  exists k, parse_core (p ++ num3 a b c ++ "-"%char :: q ++ d) = Some k /\
            major k = Z.of_N a /\ minor k = Z.of_N b /\ patch k = Z.of_N c /\ qualifier k = q /\
            number k = match d with [] => 0%Z | _ => Z.of_N (digits_val d) end /\
            cmp_core k (release p a b c) = Lt /\ cmp_core (release p a b c) k = Gt.
Proof.
  intros Hp Ha Hb Hc Hq Hd Hv.
  rewrite parse_core_num3 by (auto; reflexivity).
  rewrite (parse_tail_marker q d Hq Hd).
  assert (Hlow : to_lower q = q) by (destruct Hq as [-> | ->]; reflexivity).
  assert (Hne : q <> []) by (destruct Hq as [-> | ->]; discriminate).
  assert (Hlt : forall n, cmp_core (mk p a b c q n) (release p a b c) = Lt /\
                          cmp_core (release p a b c) (mk p a b c q n) = Gt).
  { intros n.
    assert (E : cmp_core (mk p a b c q n) (release p a b c) = Lt).
    { apply qualified_lt_release; auto. }
    split; [exact E|]. rewrite (tp_anti cmp_core_tp (mk p a b c q n) (release p a b c)), E.
    reflexivity. }
  unfold result. rewrite Hlow.
  destruct q as [|x q]; [contradiction|].
  destruct d as [|y d].
  - eexists. split; [reflexivity|]. cbn [mk major minor patch qualifier number].
    repeat split; apply Hlt.
  - assert (Hat : atoi_digits (y :: d) = Some (Z.of_N (digits_val (y :: d)))).
    { unfold atoi_digits. unfold nonempty_digits. rewrite Hd.
      apply N.ltb_lt in Hv. rewrite Hv. reflexivity. }
    rewrite Hat. eexists. split; [reflexivity|]. cbn [mk major minor patch qualifier number].
    repeat split; apply Hlt.
Qed.

(* rc < esr at the same numbers, whatever the rc / esr numbers *)
Lemma rc_lt_esr p p' a b c n m :
  cmp_core (mk p a b c $"rc" n) (mk p' a b c $"esr" m) = Lt.
Proof.
  rewrite qualified_order; try reflexivity; discriminate.
Qed.

(* ---------- parser invariant: the qualifier is "", "rc" or "esr" ---------- *)

Lemma parse_tail_q r q d : parse_tail r = Some (q, d) -> q = [] \/ q = $"esr" \/ q = $"rc".
Proof.
  unfold parse_tail. destruct r as [|x r]; [intros H; injection H as <- <-; auto|].
  destruct (strip_prefix $"-esr" (x :: r)) as [d0|].
  - destruct (all_digits d0); [|discriminate]. intros H. injection H as <- <-. auto.
  - destruct (strip_prefix $"-rc" (x :: r)) as [d0|]; [|discriminate].
    destruct (all_digits d0); [|discriminate]. intros H. injection H as <- <-. auto.
Qed.

(* so getQualifierPrecedence's default branch (precedenceUnknown) is unreachable from parsed
   versions, and strings.ToLower on the qualifier is the identity *)
Lemma parse_core_qualifier t k :
  parse_core t = Some k -> qualifier k = [] \/ qualifier k = $"esr" \/ qualifier k = $"rc".
Proof.
  unfold parse_core.
  destruct (match strip_prefix $"v" t with Some r => ($"v", r) | None => ([], t) end) as [pfx t0].
  destruct (span is_digit t0) as [d1 r1]. destruct r1 as [|c1 r1]; [discriminate|].
  destruct (ceqb c1 "."); [|discriminate].
  destruct (span is_digit r1) as [d2 r2]. destruct r2 as [|c2 r2]; [discriminate|].
  destruct (ceqb c2 "."); [|discriminate].
  destruct (span is_digit r2) as [d3 r3].
  destruct (num_ok d1 && num_ok d2 && num_ok d3); [|discriminate].
  destruct (parse_tail r3) as [[q d]|] eqn:E; [|discriminate].
  apply parse_tail_q in E.
  destruct (atoi_digits d1); [|discriminate]. destruct (atoi_digits d2); [|discriminate].
  destruct (atoi_digits d3); [|discriminate].
  assert (Hl : to_lower q = q) by (destruct E as [->|[->| ->]]; reflexivity).
  destruct q as [|x q]; [intros H; injection H as <-; auto|].
  destruct d as [|y d].
  - intros H. injection H as <-. cbn [qualifier]. change (to_lower (x :: q) = [] \/ to_lower (x :: q) = $"esr" \/ to_lower (x :: q) = $"rc"). rewrite Hl. exact E.
  - destruct (atoi_digits (y :: d)); [|discriminate].
    intros H. injection H as <-. cbn [qualifier]. change (to_lower (x :: q) = [] \/ to_lower (x :: q) = $"esr" \/ to_lower (x :: q) = $"rc"). rewrite Hl. exact E.
Qed.

Lemma precedence_known t k :
  parse_core t = Some k -> qualifier k <> [] ->
  qualifier_precedence (qualifier k) <> precedenceUnknown.
Proof.
  intros H Hne. destruct (parse_core_qualifier t k H) as [E|[E|E]]; rewrite E in *;
    [contradiction|discriminate|discriminate].
Qed.

Print Assumptions cmp_core_tp.
Print Assumptions cmp_tp.
Print Assumptions c03_numeric.
Print Assumptions v_prefix_ignored.
Print Assumptions c03_prerelease.
Print Assumptions rc_lt_esr.
Print Assumptions parse_core_qualifier.
Print Assumptions precedence_known.
