(* Base/DecFacts.v — digits: case analysis on digit bytes, atoi on digit strings, and
   the round trip  digits_val (dec n) = n. *)
From Coq Require Import Lia.
From Verif.Base Require Import Bytes BytesFacts GoNum.
Local Open Scope N_scope.

Lemma digit_cases c :
  is_digit c = true ->
  In c [ "0"; "1"; "2"; "3"; "4"; "5"; "6"; "7"; "8"; "9" ]%char.
Proof.
  destruct c as [[] [] [] [] [] [] [] []]; intros H; try discriminate H; simpl; tauto.
Qed.

Lemma digit_not_letter c : is_digit c = true -> is_letter c = false.
Proof.
  intros H. apply digit_cases in H. simpl in H.
  repeat (destruct H as [H|H]; [subst c; reflexivity|]). contradiction.
Qed.

Lemma digit_not_upper c : is_digit c = true -> is_upper c = false.
Proof.
  intros H. apply digit_not_letter in H. unfold is_letter in H.
  apply orb_false_iff in H. tauto.
Qed.

Lemma digit_to_lower c : is_digit c = true -> to_lower_c c = c.
Proof. intros H. unfold to_lower_c. rewrite (digit_not_upper c H). reflexivity. Qed.

Lemma digits_to_lower d : forallb is_digit d = true -> to_lower d = d.
Proof.
  unfold to_lower. induction d as [|c d IH]; simpl; [reflexivity|].
  intros H. apply andb_true_iff in H. destruct H as [Hc Hd].
  rewrite (digit_to_lower c Hc), (IH Hd). reflexivity.
Qed.

Lemma nonempty_digits_spec d :
  nonempty_digits d = true <-> d <> [] /\ forallb is_digit d = true.
Proof.
  destruct d as [|c d]; simpl.
  - split; [discriminate|intros [H _]; contradiction].
  - split; [intros H; split; [discriminate|exact H]|intros [_ H]; exact H].
Qed.

(* strconv.Atoi on a non-empty digit string in int64 range *)
Lemma atoi_digits d :
  nonempty_digits d = true -> digits_val d < two63 -> atoi d = Some (Z.of_N (digits_val d)).
Proof.
  intros Hd Hv. destruct d as [|c r]; [discriminate|].
  unfold atoi.
  assert (Hc : is_digit c = true).
  { simpl in Hd. apply andb_true_iff in Hd. tauto. }
  assert (E1 : ceqb c "-"%char = false).
  { apply digit_cases in Hc. simpl in Hc.
    repeat (destruct Hc as [Hc|Hc]; [subst c; reflexivity|]). contradiction. }
  assert (E2 : ceqb c "+"%char = false).
  { apply digit_cases in Hc. simpl in Hc.
    repeat (destruct Hc as [Hc|Hc]; [subst c; reflexivity|]). contradiction. }
  rewrite E1, E2, Hd. apply N.ltb_lt in Hv. rewrite Hv. reflexivity.
Qed.

(* ---------- dec ---------- *)

Lemma chr_digit m : m < 10 -> is_digit (chr (48 + m)) = true /\ digit_val (chr (48 + m)) = m.
Proof.
  intros H.
  assert (C : m = 0 \/ m = 1 \/ m = 2 \/ m = 3 \/ m = 4 \/ m = 5 \/ m = 6 \/ m = 7 \/ m = 8 \/ m = 9) by lia.
  repeat (destruct C as [C|C]; [subst m; split; reflexivity|]). subst m. split; reflexivity.
Qed.

Definition dstep (acc : N) (c : ascii) : N := acc * 10 + digit_val c.

Lemma dec_fuel_val fuel : forall n acc,
  n < 10 ^ N.of_nat fuel ->
  fold_left dstep (dec_fuel fuel n acc) 0 = fold_left dstep acc n.
Proof.
  induction fuel as [|k IH]; intros n acc Hn.
  - simpl in *. assert (n = 0) by lia. subst. reflexivity.
  - cbn [dec_fuel]. destruct (n <? 10) eqn:E.
    + apply N.ltb_lt in E. cbn [fold_left]. unfold dstep at 2.
      destruct (chr_digit (n mod 10)) as [_ V]; [apply N.mod_lt; lia|].
      rewrite V. rewrite N.mod_small by assumption. reflexivity.
    + apply N.ltb_ge in E.
      rewrite IH.
      * cbn [fold_left]. unfold dstep at 2.
        destruct (chr_digit (n mod 10)) as [_ V]; [apply N.mod_lt; lia|].
        rewrite V. f_equal. pose proof (N.div_mod n 10). lia.
      * rewrite Nat2N.inj_succ, N.pow_succ_r' in Hn.
        apply N.div_lt_upper_bound; lia.
Qed.

Lemma dec_fuel_digits fuel : forall n acc,
  forallb is_digit acc = true -> forallb is_digit (dec_fuel fuel n acc) = true.
Proof.
  induction fuel as [|k IH]; intros n acc Ha; [exact Ha|].
  cbn [dec_fuel].
  assert (D : is_digit (chr (48 + n mod 10)) = true).
  { apply chr_digit. apply N.mod_lt. lia. }
  destruct (n <? 10).
  - cbn [forallb]. rewrite D. exact Ha.
  - apply IH. cbn [forallb]. rewrite D. exact Ha.
Qed.

Lemma dec_fuel_nonempty fuel n acc : dec_fuel (S fuel) n acc <> [].
Proof.
  revert n acc. induction fuel as [|k IH]; intros n acc.
  - cbn [dec_fuel]. destruct (n <? 10); discriminate.
  - cbn [dec_fuel]. destruct (n <? 10); [discriminate|].
    apply (IH (n / 10) (chr (48 + n mod 10) :: acc)).
Qed.

Lemma pos_size_nat_bound p : Npos p < 2 ^ N.of_nat (Pos.size_nat p).
Proof.
  induction p as [p IH|p IH|]; cbn [Pos.size_nat].
  - rewrite Nat2N.inj_succ, N.pow_succ_r'. lia.
  - rewrite Nat2N.inj_succ, N.pow_succ_r'. lia.
  - simpl. lia.
Qed.

Lemma size_nat_bound n : n < 10 ^ N.of_nat (S (N.size_nat n)).
Proof.
  rewrite Nat2N.inj_succ, N.pow_succ_r'.
  destruct n as [|p]; [simpl; lia|]. cbn [N.size_nat].
  pose proof (pos_size_nat_bound p) as H.
  assert (L : 2 ^ N.of_nat (Pos.size_nat p) <= 10 ^ N.of_nat (Pos.size_nat p)).
  { apply N.pow_le_mono_l. lia. }
  lia.
Qed.

Lemma dec_digits n : nonempty_digits (dec n) = true.
Proof.
  apply nonempty_digits_spec. split.
  - apply dec_fuel_nonempty.
  - apply dec_fuel_digits. reflexivity.
Qed.

Lemma dec_val n : digits_val (dec n) = n.
Proof.
  unfold digits_val, dec.
  change (fun acc c => acc * 10 + digit_val c) with dstep.
  rewrite dec_fuel_val; [reflexivity|apply size_nat_bound].
Qed.
