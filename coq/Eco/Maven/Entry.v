From Verif.Base Require Import Bytes.
From Verif.Eco Require Import Iface.
From Verif.Eco.Maven Require Version Range.

Definition v : vops := mk_vops Maven.Version.parse_core Maven.Version.cmp_core Maven.Version.raw_orig.
Definition r : rops := {|
  r_show := fun vok s => option_map Maven.Range.show (Maven.Range.parse_range vok s);
  r_contains := fun vok vcmp rg ver =>
    match Maven.Range.parse_range vok rg with
    | Some x => if vok ver then Some (Maven.Range.contains vcmp x ver) else None
    | None => None
    end
|}.
Definition entry : eco := {| e_name := $"maven"; e_v := v; e_r := r |}.
