(* Base/LexPadFacts.v — facts about [lex_pad] under hypotheses weaker than TotalPreorder:
   reflexivity / antisymmetry alone, pointwise agreement of two element comparisons on a
   class of elements, and restriction of a comparison-by-key to a class (TotalPreorderOn). *)
From Coq Require Import List Bool.
From Verif.Base Require Import Ord.
Import ListNotations.

Section LexPad.
  Variable A : Type.
  Variable pad : A.

  Lemma lex_pad_l_refl_gen (c : A -> A -> comparison) :
    (forall x, c x x = Eq) -> forall l, lex_pad pad c l l = Eq.
  Proof.
    intros R. induction l as [|x l IH]; simpl; [reflexivity|].
    rewrite R. exact IH.
  Qed.

  Lemma lex_pad_nil_r (c : A -> A -> comparison) l :
    lex_pad pad c l [] =
    match l with [] => Eq | x :: l' => thenc (c x pad) (lex_pad pad c l' []) end.
  Proof. destruct l; reflexivity. Qed.

  Lemma lex_pad_anti_gen (c : A -> A -> comparison) :
    (forall x y, c y x = CompOpp (c x y)) ->
    forall l1 l2, lex_pad pad c l2 l1 = CompOpp (lex_pad pad c l1 l2).
  Proof.
    intros An.
    assert (Hnil : forall l, lex_pad pad c l [] = CompOpp (lex_pad_l pad c l)).
    { induction l as [|x l IH]; simpl; [reflexivity|].
      rewrite (An pad x), IH. destruct (c pad x); reflexivity. }
    induction l1 as [|x l1 IH]; intros l2.
    - simpl. rewrite Hnil. destruct (lex_pad_l pad c l2); reflexivity.
    - destruct l2 as [|y l2].
      + change (lex_pad pad c [] (x :: l1)) with (lex_pad_l pad c (x :: l1)).
        rewrite Hnil. destruct (lex_pad_l pad c (x :: l1)); reflexivity.
      + simpl. rewrite (An x y), (IH l2). destruct (c x y); reflexivity.
  Qed.

  (* two element comparisons that agree on a class containing the pad agree under lex_pad *)
  Lemma lex_pad_ext (p : A -> bool) (c1 c2 : A -> A -> comparison) :
    p pad = true ->
    (forall x y, p x = true -> p y = true -> c1 x y = c2 x y) ->
    forall l1 l2, forallb p l1 = true -> forallb p l2 = true ->
      lex_pad pad c1 l1 l2 = lex_pad pad c2 l1 l2.
  Proof.
    intros Pp E.
    assert (Hl : forall l, forallb p l = true -> lex_pad_l pad c1 l = lex_pad_l pad c2 l).
    { induction l as [|x l IH]; simpl; [reflexivity|].
      intros H. apply andb_true_iff in H. destruct H as [Hx Hl].
      rewrite (E pad x Pp Hx), (IH Hl). reflexivity. }
    induction l1 as [|x l1 IH]; intros l2 H1 H2.
    - simpl. apply Hl. exact H2.
    - simpl in H1. apply andb_true_iff in H1. destruct H1 as [Hx H1].
      destruct l2 as [|y l2].
      + simpl. rewrite (E x pad Hx Pp). rewrite (IH [] H1 eq_refl). reflexivity.
      + simpl in H2. apply andb_true_iff in H2. destruct H2 as [Hy H2].
        simpl. rewrite (E x y Hx Hy), (IH l2 H1 H2). reflexivity.
  Qed.

  (* hence: total preorder on the lists over the class *)
  Lemma TPO_lex_pad (p : A -> bool) (c1 c2 : A -> A -> comparison) :
    p pad = true ->
    (forall x y, p x = true -> p y = true -> c1 x y = c2 x y) ->
    TotalPreorder c2 ->
    TotalPreorderOn (fun l => forallb p l = true) (lex_pad pad c1).
  Proof.
    intros Pp E T.
    apply (TPO_ext _ _ (lex_pad pad c1) (lex_pad pad c2)).
    - intros a b Ha Hb. apply (lex_pad_ext p); assumption.
    - apply TPO_of_TP. apply TP_lex_pad. exact T.
  Qed.
End LexPad.

(* comparison by key, restricted *)
Lemma TPO_on A B (f : A -> B) (P : B -> Prop) cmp :
  TotalPreorderOn P cmp -> TotalPreorderOn (fun a => P (f a)) (cmp_on f cmp).
Proof.
  intros T. unfold cmp_on. constructor.
  - intros a Pa. apply (tpo_refl T); assumption.
  - intros a b Pa Pb. apply (tpo_anti T); assumption.
  - intros a b c x Pa Pb Pc. apply (tpo_trans T); assumption.
  - intros a b c Pa Pb Pc. apply (tpo_eq_l T); assumption.
Qed.

(* ---------- padding and equal lengths ---------- *)

Section LexPadMore.
  Variable A : Type.
  Variable pad : A.
  Variable c : A -> A -> comparison.

  Lemma lex_pad_same_length l1 : forall l2,
    length l1 = length l2 -> lex_pad pad c l1 l2 = lex_short c l1 l2.
  Proof.
    induction l1 as [|x l1 IH]; intros [|y l2] H; simpl in *; try discriminate; [reflexivity|].
    rewrite IH by congruence. reflexivity.
  Qed.

  (* a trailing pad is invisible *)
  Lemma lex_pad_snoc_pad l1 : forall l2,
    c pad pad = Eq -> lex_pad pad c (l1 ++ [pad]) l2 = lex_pad pad c l1 l2.
  Proof.
    induction l1 as [|x l1 IH]; intros l2 R.
    - destruct l2 as [|y l2]; simpl; [rewrite R; reflexivity|reflexivity].
    - destruct l2 as [|y l2]; simpl; rewrite IH by assumption; reflexivity.
  Qed.

  (* common prefix *)
  Lemma lex_pad_app_l l r :
    (forall x, c x x = Eq) -> lex_pad pad c (l ++ r) l = lex_pad pad c r [].
  Proof.
    intros R. induction l as [|x l IH]; simpl.
    - destruct r; reflexivity.
    - rewrite R. exact IH.
  Qed.
End LexPadMore.
