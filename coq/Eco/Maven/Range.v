(* Eco/Maven/Range.v — model of pkg/ecosystem/maven/range.go (definitions only).
   Bracket intervals "[a,b]" "(a,b)" "[a,)" "(,b]" "[a]" and the bare version (exact match).
   Bounds are kept as texts; every validity test / comparison goes through the oracles. *)
From Verif.Base Require Import Bytes GoNum Ord.
From Verif.Eco Require Import RangeCore.

(* constraint{version, inclusive, isLower} as a comparison operator applied to (v ? bound) *)
Definition bound_op (isLower inclusive : bool) : cop :=
  match isLower, inclusive with
  | true, true => CGe
  | true, false => CGt
  | false, true => CLe
  | false, false => CLt
  end.

Definition constraint := (cop * bytes)%type.

Record range := { r_cs : list constraint; r_orig : bytes }.

Definition is_open (c : ascii) : bool := ceqb c "["%char || ceqb c "("%char.
Definition is_close (c : ascii) : bool := ceqb c "]"%char || ceqb c ")"%char.
(* the negated class of the pattern: any byte except comma and the two closing brackets *)
Definition inner_c (c : ascii) : bool := negb (ceqb c ","%char || is_close c).

(* what FindStringSubmatch of bracketRegex yields: OPEN (inner-star) (COMMA (inner-star))? CLOSE, anchored *)
Record bracket_match := {
  bm_open : ascii;           (* rangeStr[0] *)
  bm_close : ascii;          (* rangeStr[len-1] *)
  bm_g1 : bytes;             (* matches[1] *)
  bm_g3 : option bytes       (* None: group 2 did not take part (matches[2] == "") *)
}.

Definition match_bracket (t : bytes) : option bracket_match :=
  match t with
  | o :: rest =>
      if is_open o then
        let (g1, r1) := span inner_c rest in
        match r1 with
        | [] => None
        | c :: r2 =>
            if is_close c then
              match r2 with
              | [] => Some {| bm_open := o; bm_close := c; bm_g1 := g1; bm_g3 := None |}
              | _ => None
              end
            else (* c is the comma *)
              let (g3, r3) := span inner_c r2 in
              match r3 with
              | [c'] => if is_close c'
                        then Some {| bm_open := o; bm_close := c'; bm_g1 := g1; bm_g3 := Some g3 |}
                        else None
              | _ => None
              end
        end
      else None
  | [] => None
  end.

Definition exact (v : bytes) : list constraint := [ (CGe, v); (CLe, v) ].

Definition has_bracket (t : bytes) : bool := existsb (fun c => is_open c || is_close c) t.

Section Range.
  Variable vok : bytes -> bool.
  Variable vcmp : bytes -> bytes -> comparison.

  Definition parseVersionRange (t : bytes) : option (list constraint) :=
    match match_bracket t with
    | Some m =>
        let lowerInclusive := ceqb (bm_open m) "["%char in
        let upperInclusive := ceqb (bm_close m) "]"%char in
        let lower := trim_space (bm_g1 m) in
        match bm_g3 m with
        | None =>
            match lower with
            | [] => None                                   (* empty version in exact range *)
            | _ => if vok lower then Some (exact lower) else None
            end
        | Some g3 =>
            let upper := trim_space g3 in
            let lo_ok := match lower with [] => true | _ => vok lower end in
            let hi_ok := match upper with [] => true | _ => vok upper end in
            let cs := match lower with [] => [] | _ => [ (bound_op true lowerInclusive, lower) ] end
                   ++ match upper with [] => [] | _ => [ (bound_op false upperInclusive, upper) ] end in
            if lo_ok && hi_ok
            then match cs with [] => None | _ => Some cs end
            else None
        end
    | None =>
        if has_bracket t then None
        else if vok t then Some (exact t) else None
    end.

  Definition parse_range (s : bytes) : option range :=
    let t := trim_space s in
    match t with
    | [] => None
    | _ => match parseVersionRange t with
           | Some cs => Some {| r_cs := cs; r_orig := s |}
           | None => None
           end
    end.

  Definition sat_constraint (v : bytes) (c : constraint) : bool := sat (fst c) (vcmp v (snd c)).

  Definition contains (r : range) (v : bytes) : bool :=
    match r_cs r with
    | [] => false
    | cs => forallb (sat_constraint v) cs
    end.

  Definition show (r : range) : bytes := r_orig r.
End Range.
