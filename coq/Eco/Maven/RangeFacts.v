(* Eco/Maven/RangeFacts.v — what the maven range model means, for ARBITRARY oracles vok / vcmp.
   C02 (bare version = exact match), C05 (each bracket form = its documented interval),
   C20 (Compare-equal versions are contained alike). *)
From Coq Require Import Lia.
From Verif.Base Require Import Bytes BytesFacts GoNum Ord.
From Verif.Eco Require Import RangeCore RangeCoreFacts Iface.
From Verif.Eco.Maven Require Import Range Entry.

(* ---------- scanning ---------- *)

Lemma span_stop p (a : bytes) x rest :
  forallb p a = true -> p x = false -> span p (a ++ x :: rest) = (a, x :: rest).
Proof.
  intros Ha Hx. unfold span. induction a as [|y a IH]; simpl.
  - rewrite Hx. reflexivity.
  - simpl in Ha. apply andb_true_iff in Ha. destruct Ha as [Hy Ha]. rewrite Hy.
    specialize (IH Ha). injection IH as E1 E2. rewrite E1, E2. reflexivity.
Qed.

Lemma close_not_inner c : is_close c = true -> inner_c c = false.
Proof. intros H. unfold inner_c. rewrite H, orb_true_r. reflexivity. Qed.

Lemma comma_not_inner : inner_c ","%char = false.
Proof. reflexivity. Qed.

Lemma comma_not_close : is_close ","%char = false.
Proof. reflexivity. Qed.

Lemma space_inner c : is_space c = true -> inner_c c = true.
Proof.
  intros H. unfold inner_c, is_close.
  destruct (ceqb c ","%char) eqn:E1; [apply ceqb_eq in E1; subst; discriminate|].
  destruct (ceqb c "]"%char) eqn:E2; [apply ceqb_eq in E2; subst; discriminate|].
  destruct (ceqb c ")"%char) eqn:E3; [apply ceqb_eq in E3; subst; discriminate|].
  reflexivity.
Qed.

Lemma spaces_inner p : forallb is_space p = true -> forallb inner_c p = true.
Proof.
  induction p as [|c p IH]; simpl; [reflexivity|].
  intros H. apply andb_true_iff in H. destruct H as [Hc Hp].
  rewrite (space_inner c Hc), (IH Hp). reflexivity.
Qed.

Lemma open_not_space c : is_open c = true -> is_space c = false.
Proof.
  unfold is_open. intros H. apply orb_true_iff in H.
  destruct H as [H|H]; apply ceqb_eq in H; subst; reflexivity.
Qed.

Lemma close_not_space c : is_close c = true -> is_space c = false.
Proof.
  unfold is_close. intros H. apply orb_true_iff in H.
  destruct H as [H|H]; apply ceqb_eq in H; subst; reflexivity.
Qed.

(* a text that begins and ends with a bracket is its own trimmed text *)
Lemma trim_space_bracketed o m c :
  is_space o = false -> is_space c = false -> trim_space (o :: m ++ [c]) = o :: m ++ [c].
Proof.
  intros Ho Hc. unfold trim_space. rewrite (trim_left_of_nonspace o _ Ho).
  unfold trim_right.
  assert (H : rev (o :: m ++ [c]) = c :: rev (o :: m)).
  { change (o :: m ++ [c]) with ((o :: m) ++ [c]). apply rev_unit. }
  rewrite H. cbn [drop_while]. rewrite Hc. rewrite <- H. apply rev_involutive.
Qed.

Lemma trim_space_bracketed2 o m1 m2 c :
  is_space o = false -> is_space c = false ->
  trim_space (o :: m1 ++ m2 ++ [c]) = o :: m1 ++ m2 ++ [c].
Proof. intros Ho Hc. rewrite app_assoc. apply trim_space_bracketed; assumption. Qed.

Lemma match_bracket_single o c L :
  is_open o = true -> is_close c = true -> forallb inner_c L = true ->
  match_bracket (o :: L ++ [c]) =
    Some {| bm_open := o; bm_close := c; bm_g1 := L; bm_g3 := None |}.
Proof.
  intros Ho Hc HL. unfold match_bracket. rewrite Ho.
  rewrite (span_stop inner_c L c [] HL (close_not_inner c Hc)). rewrite Hc. reflexivity.
Qed.

Lemma match_bracket_pair o c L U :
  is_open o = true -> is_close c = true ->
  forallb inner_c L = true -> forallb inner_c U = true ->
  match_bracket (o :: L ++ ","%char :: U ++ [c]) =
    Some {| bm_open := o; bm_close := c; bm_g1 := L; bm_g3 := Some U |}.
Proof.
  intros Ho Hc HL HU. unfold match_bracket. rewrite Ho.
  rewrite (span_stop inner_c L ","%char (U ++ [c]) HL comma_not_inner).
  rewrite comma_not_close.
  rewrite (span_stop inner_c U c [] HU (close_not_inner c Hc)). rewrite Hc. reflexivity.
Qed.

Lemma match_bracket_bare t : has_bracket t = false -> match_bracket t = None.
Proof.
  destruct t as [|o t]; [reflexivity|]. unfold has_bracket. simpl.
  intros H. apply orb_false_iff in H. destruct H as [H _].
  apply orb_false_iff in H. destruct H as [H _]. rewrite H. reflexivity.
Qed.

Lemma sat_exact c : sat CGe c && sat CLe c = sat CEq c.
Proof. destruct c; reflexivity. Qed.

(* ---------- scope of bound texts ---------- *)

(* a bound text: non-empty, no comma, no closing bracket, no white space *)
Definition bound_scope (a : bytes) : bool :=
  match a with [] => false | _ => forallb inner_c a && no_space a end.

(* a bare version text: non-empty, no bracket of any kind, no white space *)
Definition bare_scope (a : bytes) : bool :=
  match a with [] => false | _ => negb (has_bracket a) && no_space a end.

Lemma bound_scope_spec a :
  bound_scope a = true -> a <> [] /\ forallb inner_c a = true /\ trim_space a = a.
Proof.
  destruct a as [|x a]; [discriminate|]. unfold bound_scope.
  intros H. apply andb_true_iff in H. destruct H as [H1 H2].
  repeat split; [discriminate|assumption|apply trim_space_no_space; assumption].
Qed.

Lemma padded_inner p a q :
  forallb is_space p = true -> forallb inner_c a = true -> forallb is_space q = true ->
  forallb inner_c (p ++ a ++ q) = true.
Proof.
  intros Hp Ha Hq. rewrite !forallb_app, Ha, (spaces_inner p Hp), (spaces_inner q Hq). reflexivity.
Qed.

Lemma padded_trim p a q :
  forallb is_space p = true -> forallb is_space q = true -> trim_space a = a ->
  trim_space (p ++ a ++ q) = a.
Proof. intros Hp Hq Ha. rewrite trim_space_pad by assumption. exact Ha. Qed.

Section Sem.
  Variable vok : bytes -> bool.
  Variable vcmp : bytes -> bytes -> comparison.

  Notation rcontains := (r_contains Entry.r vok vcmp).

  Definition blank (p : bytes) : Prop := forallb is_space p = true.

  (* ----- C02: the only "comparator" of this grammar is the bare version = exact match ----- *)
  Theorem c02_bare a v :
    bare_scope a = true -> vok a = true -> vok v = true ->
    rcontains a v = Some (sat CEq (vcmp v a)).
  Proof.
    intros Sa Va Vv. destruct a as [|x a]; [discriminate|].
    unfold bare_scope in Sa. apply andb_true_iff in Sa. destruct Sa as [Hb Hs].
    apply negb_true_iff in Hb.
    cbn [r_contains Entry.r]. unfold parse_range.
    rewrite (trim_space_no_space _ Hs).
    unfold parseVersionRange. rewrite (match_bracket_bare _ Hb), Hb, Va. cbn [r_cs].
    rewrite Vv. unfold contains, exact. cbn [r_cs forallb]. unfold sat_constraint. cbn [fst snd].
    rewrite andb_true_r, sat_exact. reflexivity.
  Qed.

  (* ----- C05: bracket forms (blanks allowed around each bound) ----- *)

  (* [a] (a) [a) (a] : exact match whatever the bracket kinds *)
  Theorem c05_exact o c p a q v :
    is_open o = true -> is_close c = true -> blank p -> blank q ->
    bound_scope a = true -> vok a = true -> vok v = true ->
    rcontains (o :: (p ++ a ++ q) ++ [c]) v = Some (sat CEq (vcmp v a)).
  Proof.
    intros Ho Hc Hp Hq Sa Va Vv.
    destruct (bound_scope_spec a Sa) as [Ne [Ia Ta]].
    cbn [r_contains Entry.r]. unfold parse_range.
    rewrite (trim_space_bracketed o _ c (open_not_space o Ho) (close_not_space c Hc)).
    unfold parseVersionRange.
    rewrite (match_bracket_single o c _ Ho Hc (padded_inner p a q Hp Ia Hq)).
    cbn [bm_g1 bm_g3]. rewrite (padded_trim p a q Hp Hq Ta).
    destruct a as [|x a]; [contradiction|]. rewrite Va. rewrite Vv.
    unfold contains, exact. cbn [r_cs forallb]. unfold sat_constraint. cbn [fst snd].
    rewrite andb_true_r, sat_exact. reflexivity.
  Qed.

  Definition lower_op (o : ascii) : cop := bound_op true (ceqb o "["%char).
  Definition upper_op (c : ascii) : cop := bound_op false (ceqb c "]"%char).

  (* o a , b c *)
  Theorem c05_interval o c p1 a q1 p2 b q2 v :
    is_open o = true -> is_close c = true -> blank p1 -> blank q1 -> blank p2 -> blank q2 ->
    bound_scope a = true -> bound_scope b = true ->
    vok a = true -> vok b = true -> vok v = true ->
    rcontains (o :: (p1 ++ a ++ q1) ++ ","%char :: (p2 ++ b ++ q2) ++ [c]) v =
      Some (sat (lower_op o) (vcmp v a) && sat (upper_op c) (vcmp v b)).
  Proof.
    intros Ho Hc Hp1 Hq1 Hp2 Hq2 Sa Sb Va Vb Vv.
    destruct (bound_scope_spec a Sa) as [Na [Ia Ta]].
    destruct (bound_scope_spec b Sb) as [Nb [Ib Tb]].
    cbn [r_contains Entry.r]. unfold parse_range.
    assert (T : trim_space (o :: (p1 ++ a ++ q1) ++ ","%char :: (p2 ++ b ++ q2) ++ [c]) = o :: (p1 ++ a ++ q1) ++ ","%char :: (p2 ++ b ++ q2) ++ [c]).
    { apply (trim_space_bracketed2 o (p1 ++ a ++ q1) (","%char :: (p2 ++ b ++ q2)) c);
        [apply open_not_space|apply close_not_space]; assumption. }
    rewrite T. clear T.
    unfold parseVersionRange.
    rewrite (match_bracket_pair o c _ _ Ho Hc (padded_inner p1 a q1 Hp1 Ia Hq1)
               (padded_inner p2 b q2 Hp2 Ib Hq2)).
    cbn [bm_g1 bm_g3 bm_open bm_close].
    rewrite (padded_trim p1 a q1 Hp1 Hq1 Ta), (padded_trim p2 b q2 Hp2 Hq2 Tb).
    destruct a as [|x a]; [contradiction|]. destruct b as [|y b]; [contradiction|].
    rewrite Va, Vb. cbn [andb app]. rewrite Vv.
    unfold contains. cbn [r_cs forallb]. unfold sat_constraint. cbn [fst snd].
    rewrite andb_true_r. reflexivity.
  Qed.

  (* o a , c : lower bound only *)
  Theorem c05_lower_only o c p1 a q1 p2 v :
    is_open o = true -> is_close c = true -> blank p1 -> blank q1 -> blank p2 ->
    bound_scope a = true -> vok a = true -> vok v = true ->
    rcontains (o :: (p1 ++ a ++ q1) ++ ","%char :: p2 ++ [c]) v =
      Some (sat (lower_op o) (vcmp v a)).
  Proof.
    intros Ho Hc Hp1 Hq1 Hp2 Sa Va Vv.
    destruct (bound_scope_spec a Sa) as [Na [Ia Ta]].
    cbn [r_contains Entry.r]. unfold parse_range.
    assert (T : trim_space (o :: (p1 ++ a ++ q1) ++ ","%char :: p2 ++ [c]) = o :: (p1 ++ a ++ q1) ++ ","%char :: p2 ++ [c]).
    { apply (trim_space_bracketed2 o (p1 ++ a ++ q1) (","%char :: p2) c);
        [apply open_not_space|apply close_not_space]; assumption. }
    rewrite T. clear T.
    unfold parseVersionRange.
    rewrite (match_bracket_pair o c _ _ Ho Hc (padded_inner p1 a q1 Hp1 Ia Hq1)
               (spaces_inner p2 Hp2)).
    cbn [bm_g1 bm_g3 bm_open bm_close].
    rewrite (padded_trim p1 a q1 Hp1 Hq1 Ta).
    assert (E : trim_space p2 = []).
    { rewrite <- (app_nil_r p2). change (p2 ++ []) with (p2 ++ [] ++ []).
      rewrite trim_space_pad; [reflexivity|assumption|reflexivity]. }
    rewrite E.
    destruct a as [|x a]; [contradiction|].
    rewrite Va. cbn [andb app]. rewrite Vv.
    unfold contains. cbn [r_cs forallb]. unfold sat_constraint. cbn [fst snd].
    rewrite andb_true_r. reflexivity.
  Qed.

  (* o , b c : upper bound only *)
  Theorem c05_upper_only o c p1 p2 b q2 v :
    is_open o = true -> is_close c = true -> blank p1 -> blank p2 -> blank q2 ->
    bound_scope b = true -> vok b = true -> vok v = true ->
    rcontains (o :: p1 ++ ","%char :: (p2 ++ b ++ q2) ++ [c]) v =
      Some (sat (upper_op c) (vcmp v b)).
  Proof.
    intros Ho Hc Hp1 Hp2 Hq2 Sb Vb Vv.
    destruct (bound_scope_spec b Sb) as [Nb [Ib Tb]].
    cbn [r_contains Entry.r]. unfold parse_range.
    assert (T : trim_space (o :: p1 ++ ","%char :: (p2 ++ b ++ q2) ++ [c]) = o :: p1 ++ ","%char :: (p2 ++ b ++ q2) ++ [c]).
    { apply (trim_space_bracketed2 o p1 (","%char :: (p2 ++ b ++ q2)) c);
        [apply open_not_space|apply close_not_space]; assumption. }
    rewrite T. clear T.
    unfold parseVersionRange.
    rewrite (match_bracket_pair o c _ _ Ho Hc (spaces_inner p1 Hp1)
               (padded_inner p2 b q2 Hp2 Ib Hq2)).
    cbn [bm_g1 bm_g3 bm_open bm_close].
    rewrite (padded_trim p2 b q2 Hp2 Hq2 Tb).
    assert (E : trim_space p1 = []).
    { rewrite <- (app_nil_r p1). change (p1 ++ []) with (p1 ++ [] ++ []).
      rewrite trim_space_pad; [reflexivity|assumption|reflexivity]. }
    rewrite E.
    destruct b as [|y b]; [contradiction|].
    rewrite Vb. cbn [andb app]. rewrite Vv.
    unfold contains. cbn [r_cs forallb]. unfold sat_constraint. cbn [fst snd].
    rewrite andb_true_r. reflexivity.
  Qed.

  (* the four documented interval spellings, without blanks *)
  Corollary c05_closed a b v :
    bound_scope a = true -> bound_scope b = true -> vok a = true -> vok b = true -> vok v = true ->
    rcontains ($"[" ++ a ++ $"," ++ b ++ $"]") v = Some (sat CGe (vcmp v a) && sat CLe (vcmp v b)).
  Proof.
    intros Sa Sb Va Vb Vv.
    pose proof (c05_interval "["%char "]"%char [] a [] [] b [] v eq_refl eq_refl eq_refl eq_refl
                  eq_refl eq_refl Sa Sb Va Vb Vv) as H.
    cbn [app] in H. rewrite !app_nil_r in H. exact H.
  Qed.

  Corollary c05_open a b v :
    bound_scope a = true -> bound_scope b = true -> vok a = true -> vok b = true -> vok v = true ->
    rcontains ($"(" ++ a ++ $"," ++ b ++ $")") v = Some (sat CGt (vcmp v a) && sat CLt (vcmp v b)).
  Proof.
    intros Sa Sb Va Vb Vv.
    pose proof (c05_interval "("%char ")"%char [] a [] [] b [] v eq_refl eq_refl eq_refl eq_refl
                  eq_refl eq_refl Sa Sb Va Vb Vv) as H.
    cbn [app] in H. rewrite !app_nil_r in H. exact H.
  Qed.

  Corollary c05_closed_open a b v :
    bound_scope a = true -> bound_scope b = true -> vok a = true -> vok b = true -> vok v = true ->
    rcontains ($"[" ++ a ++ $"," ++ b ++ $")") v = Some (sat CGe (vcmp v a) && sat CLt (vcmp v b)).
  Proof.
    intros Sa Sb Va Vb Vv.
    pose proof (c05_interval "["%char ")"%char [] a [] [] b [] v eq_refl eq_refl eq_refl eq_refl
                  eq_refl eq_refl Sa Sb Va Vb Vv) as H.
    cbn [app] in H. rewrite !app_nil_r in H. exact H.
  Qed.

  Corollary c05_open_closed a b v :
    bound_scope a = true -> bound_scope b = true -> vok a = true -> vok b = true -> vok v = true ->
    rcontains ($"(" ++ a ++ $"," ++ b ++ $"]") v = Some (sat CGt (vcmp v a) && sat CLe (vcmp v b)).
  Proof.
    intros Sa Sb Va Vb Vv.
    pose proof (c05_interval "("%char "]"%char [] a [] [] b [] v eq_refl eq_refl eq_refl eq_refl
                  eq_refl eq_refl Sa Sb Va Vb Vv) as H.
    cbn [app] in H. rewrite !app_nil_r in H. exact H.
  Qed.

  Corollary c05_at_least a v :
    bound_scope a = true -> vok a = true -> vok v = true ->
    rcontains ($"[" ++ a ++ $",)") v = Some (sat CGe (vcmp v a)).
  Proof.
    intros Sa Va Vv.
    pose proof (c05_lower_only "["%char ")"%char [] a [] [] v eq_refl eq_refl eq_refl eq_refl
                  eq_refl Sa Va Vv) as H.
    cbn [app] in H. rewrite !app_nil_r in H. exact H.
  Qed.

  Corollary c05_at_most b v :
    bound_scope b = true -> vok b = true -> vok v = true ->
    rcontains ($"(," ++ b ++ $"]") v = Some (sat CLe (vcmp v b)).
  Proof.
    intros Sb Vb Vv.
    pose proof (c05_upper_only "("%char "]"%char [] [] b [] v eq_refl eq_refl eq_refl eq_refl
                  eq_refl Sb Vb Vv) as H.
    cbn [app] in H. rewrite !app_nil_r in H. exact H.
  Qed.

  Corollary c05_pinned a v :
    bound_scope a = true -> vok a = true -> vok v = true ->
    rcontains ($"[" ++ a ++ $"]") v = Some (sat CEq (vcmp v a)).
  Proof.
    intros Sa Va Vv.
    pose proof (c05_exact "["%char "]"%char [] a [] v eq_refl eq_refl eq_refl eq_refl Sa Va Vv) as H.
    cbn [app] in H. rewrite !app_nil_r in H. exact H.
  Qed.

  (* ----- C20: Compare-equal versions are contained alike ----- *)

  (* only this consequence of the preorder laws is needed *)
  Hypothesis eq_l : forall a b c, vcmp a b = Eq -> vcmp a c = vcmp b c.

  Theorem c20_contains r a b : vcmp a b = Eq -> contains vcmp r a = contains vcmp r b.
  Proof.
    intros E. unfold contains. destruct (r_cs r) as [|k cs]; [reflexivity|].
    assert (H : forall l, forallb (sat_constraint vcmp a) l = forallb (sat_constraint vcmp b) l).
    { induction l as [|x l IH]; simpl; [reflexivity|].
      unfold sat_constraint at 1 3. rewrite (eq_l a b (snd x) E), IH. reflexivity. }
    apply H.
  Qed.

  Theorem c20 rg a b :
    vok a = true -> vok b = true -> vcmp a b = Eq -> rcontains rg a = rcontains rg b.
  Proof.
    intros Va Vb E. cbn [r_contains Entry.r].
    destruct (parse_range vok rg) as [r|]; [|reflexivity].
    rewrite Va, Vb, (c20_contains r a b E). reflexivity.
  Qed.
End Sem.

(* C20 for any total-preorder oracle *)
Corollary c20_tp vok vcmp rg a b :
  TotalPreorder vcmp -> vok a = true -> vok b = true -> vcmp a b = Eq ->
  r_contains Entry.r vok vcmp rg a = r_contains Entry.r vok vcmp rg b.
Proof. intros T. apply c20. apply (tp_eq_l T). Qed.

(* ---------- C20 when the oracle obeys the congruence law on accepted texts only ---------- *)

Section C20ok.
  Variable vok : bytes -> bool.
  Variable vcmp : bytes -> bytes -> comparison.
  Hypothesis eq_l_ok : forall a b c, vok a = true -> vok b = true -> vok c = true ->
    vcmp a b = Eq -> vcmp a c = vcmp b c.

  Lemma parseVersionRange_bounds_ok t cs :
    parseVersionRange vok t = Some cs -> forallb (fun c => vok (snd c)) cs = true.
  Proof.
    unfold parseVersionRange. destruct (match_bracket t) as [m|].
    - destruct (bm_g3 m) as [g3|].
      + destruct (trim_space (bm_g1 m)) as [|x lo]; destruct (trim_space g3) as [|y hi];
          cbn [app andb].
        * discriminate.
        * destruct (vok (y :: hi)) eqn:V; [|discriminate]. intros H. injection H as <-.
          cbn [forallb snd]. rewrite V. reflexivity.
        * destruct (vok (x :: lo)) eqn:V; [|discriminate]. intros H. injection H as <-.
          cbn [forallb snd]. rewrite V. reflexivity.
        * destruct (vok (x :: lo)) eqn:V1; [|discriminate].
          destruct (vok (y :: hi)) eqn:V2; [|discriminate]. intros H. injection H as <-.
          cbn [forallb snd]. rewrite V1, V2. reflexivity.
      + destruct (trim_space (bm_g1 m)) as [|x lo]; [discriminate|].
        destruct (vok (x :: lo)) eqn:V; [|discriminate]. intros H. injection H as <-.
        unfold exact. cbn [forallb snd]. rewrite V. reflexivity.
    - destruct (has_bracket t); [discriminate|].
      destruct (vok t) eqn:V; [|discriminate]. intros H. injection H as <-.
      unfold exact. cbn [forallb snd]. rewrite V. reflexivity.
  Qed.

  Lemma parse_range_bounds_ok rg r :
    parse_range vok rg = Some r -> forallb (fun c => vok (snd c)) (r_cs r) = true.
  Proof.
    unfold parse_range. destruct (trim_space rg) as [|x t]; [discriminate|].
    destruct (parseVersionRange vok (x :: t)) as [cs|] eqn:P; [|discriminate].
    intros H. injection H as <-. cbn [r_cs]. eapply parseVersionRange_bounds_ok. exact P.
  Qed.

  Theorem c20_ok rg a b :
    vok a = true -> vok b = true -> vcmp a b = Eq ->
    r_contains Entry.r vok vcmp rg a = r_contains Entry.r vok vcmp rg b.
  Proof.
    intros Va Vb E. cbn [r_contains Entry.r].
    destruct (parse_range vok rg) as [r|] eqn:P; [|reflexivity].
    rewrite Va, Vb. f_equal. apply parse_range_bounds_ok in P.
    unfold contains. destruct (r_cs r) as [|k cs] eqn:K; [reflexivity|]. rewrite <- K in *. clear K.
    induction (r_cs r) as [|x l IH]; [reflexivity|].
    cbn [forallb] in *. apply andb_true_iff in P. destruct P as [Px Pl].
    unfold sat_constraint at 1 3. rewrite (eq_l_ok a b (snd x) Va Vb Px E), (IH Pl). reflexivity.
  Qed.
End C20ok.

(* ---------- end to end: the maven model under its own version layer ---------- *)

From Verif.Eco Require Import VLayer.
From Verif.Eco.Maven Require Import Version VersionFacts.

Lemma self_vok_parse s : self_vok Entry.entry s = true -> exists v, Version.parse s = Some v.
Proof.
  unfold self_vok. cbn [e_v Entry.entry Entry.v mk_vops v_show].
  change (VLayer.parse parse_core raw_orig s) with (Version.parse s).
  destruct (Version.parse s) as [v|]; [eauto|discriminate].
Qed.

(* although Compare is not transitive, versions that compare equal lie in the same ranges *)
Theorem maven_c20 rg a b :
  self_vok Entry.entry a = true -> self_vok Entry.entry b = true ->
  self_vcmp Entry.entry a b = Eq ->
  r_contains Entry.r (self_vok Entry.entry) (self_vcmp Entry.entry) rg a =
  r_contains Entry.r (self_vok Entry.entry) (self_vcmp Entry.entry) rg b.
Proof.
  apply c20_ok. clear a b. intros a b c Va Vb Vc.
  destruct (self_vok_parse a Va) as [va Pa]. destruct (self_vok_parse b Vb) as [vb Pb].
  destruct (self_vok_parse c Vc) as [vc Pc].
  unfold self_vcmp. cbn [e_v Entry.entry Entry.v mk_vops v_cmp].
  change (VLayer.parse parse_core raw_orig) with Version.parse.
  rewrite Pa, Pb, Pc. change (VLayer.cmp cmp_core) with Version.cmp.
  apply (cmp_eq_l a b va vb vc Pa Pb).
Qed.

Print Assumptions c02_bare.
Print Assumptions c05_interval.
Print Assumptions c05_closed.
Print Assumptions c05_at_least.
Print Assumptions c05_at_most.
Print Assumptions c05_pinned.
Print Assumptions c20_tp.
Print Assumptions maven_c20.
