(* Eco/Maven/SpecFacts.v — go-univers' maven Compare model against the reference order
   (Spec/MavenCV.v, Maven 3.8 ComparableVersion), at string level.

   The implementation is KNOWN to deviate from ComparableVersion in general (refuted lemmas at
   the end, one per mechanism).  The equality is proved on the class [in_scope]:
       N(.N){0,3}  optionally followed by ONE group  sep W D
   where every N is a non-empty digit run of ANY length (the implementation parses numbers with
   math/big), sep is '.' or '-', and either W is one of alpha|beta|milestone|rc|cr|snapshot (any
   letter case) and D is a possibly empty run of glued digits, or W is one of a|b|m and D is a
   non-empty run of digits; when there is a group, the value of the last N is not 0. *)
From Coq Require Import Lia.
From Verif.Base Require Import Bytes BytesFacts GoNum Ord.
From Verif.Eco.Maven Require Import LexPadFacts DecFacts.
From Verif.Eco Require Import VLayer VLayerFacts Iface RangeCoreFacts.
From Verif.Eco.Maven Require Import Version VersionFacts Entry.
From Verif.Spec Require Import MavenCV MavenCVFacts.

(* ================= the class ================= *)

(* the leading N(.N){0,k}: the digit runs and what follows them *)
Fixpoint scan_nums (k : nat) (s : bytes) : list bytes * bytes :=
  let d := take_while is_digit s in
  let r := drop_while is_digit s in
  match k, r with
  | S k', c :: r' =>
      if ceqb c "."%char && match r' with x :: _ => is_digit x | [] => false end
      then let (ds, rest) := scan_nums k' r' in (d :: ds, rest)
      else ([d], r)
  | _, _ => ([d], r)
  end.

Definition num_ok (d : bytes) : bool := nonempty_digits d.

Definition pre_words : list bytes :=
  [ $"alpha"; $"beta"; $"milestone"; $"rc"; $"cr"; $"snapshot" ].
Definition alias_words : list bytes := [ $"a"; $"b"; $"m" ].

Definition nonnil {A} (l : list A) : bool := match l with [] => false | _ => true end.

(* lower-cased word, glued digits *)
Definition word_ok (lw dg : bytes) : bool :=
  mem lw pre_words || (mem lw alias_words && nonnil dg).

Definition group_ok (last_num rest : bytes) : bool :=
  match rest with
  | [] => true
  | sep :: r =>
      let w := take_while is_letter r in
      let dg := drop_while is_letter r in
      Version.is_sep sep && forallb is_digit dg
      && word_ok (to_lower w) dg && negb (digits_val last_num =? 0)%N
  end.

Definition in_scope (s : bytes) : bool :=
  let (ds, rest) := scan_nums 3 s in
  forallb num_ok ds && group_ok (last ds []) rest.

(* ---------- decomposition ---------- *)

Lemma take_drop_while p (s : bytes) : take_while p s ++ drop_while p s = s.
Proof.
  induction s as [|c s IH]; [reflexivity|]. simpl. destruct (p c); [|reflexivity].
  simpl. rewrite IH. reflexivity.
Qed.

Lemma take_while_all p (s : bytes) : forallb p (take_while p s) = true.
Proof.
  induction s as [|c s IH]; [reflexivity|]. simpl. destruct (p c) eqn:E; [|reflexivity].
  simpl. rewrite E. exact IH.
Qed.

Lemma scan_nums_spec k : forall s ds rest,
  scan_nums k s = (ds, rest) -> s = join $"." ds ++ rest /\ ds <> [].
Proof.
  induction k as [|k IH]; intros s ds rest H.
  - cbn [scan_nums] in H. injection H as <- <-. cbn [join].
    split; [symmetry; apply take_drop_while|discriminate].
  - cbn [scan_nums] in H.
    pose proof (take_drop_while is_digit s) as TD.
    destruct (drop_while is_digit s) as [|c r'] eqn:D.
    + injection H as <- <-. cbn [join]. split; [symmetry; exact TD|discriminate].
    + destruct (ceqb c "."%char && match r' with x :: _ => is_digit x | [] => false end) eqn:E.
      * destruct (scan_nums k r') as [ds' rest'] eqn:R. injection H as <- <-.
        destruct (IH r' ds' rest' R) as [E1 N1].
        apply andb_true_iff in E. destruct E as [Ec _]. apply ceqb_eq in Ec. subst c.
        split; [|discriminate].
        destruct ds' as [|d2 ds']; [contradiction|].
        change (join $"." (take_while is_digit s :: d2 :: ds'))
          with (take_while is_digit s ++ "."%char :: join $"." (d2 :: ds')).
        rewrite <- app_assoc. cbn [app]. rewrite <- E1. symmetry. exact TD.
      * injection H as <- <-. cbn [join]. split; [symmetry; exact TD|discriminate].
Qed.

(* an in-scope text, decomposed *)
Inductive group := NoGroup | Group (sep : ascii) (w dg : bytes).

Definition render (ds : list bytes) (g : group) : bytes :=
  join $"." ds ++ match g with NoGroup => [] | Group sep w dg => sep :: w ++ dg end.

Definition group_wf (ds : list bytes) (g : group) : Prop :=
  match g with
  | NoGroup => True
  | Group sep w dg =>
      Version.is_sep sep = true /\ forallb is_letter w = true /\ forallb is_digit dg = true
      /\ word_ok (to_lower w) dg = true
      /\ digits_val (last ds []) <> 0%N
  end.

Lemma in_scope_decomp s :
  in_scope s = true ->
  exists ds g, s = render ds g /\ ds <> [] /\ forallb num_ok ds = true /\ group_wf ds g.
Proof.
  unfold in_scope. destruct (scan_nums 3 s) as [ds rest] eqn:S.
  destruct (scan_nums_spec 3 s ds rest S) as [E Ne].
  intros H. apply andb_true_iff in H. destruct H as [Hn Hg].
  destruct rest as [|sep r].
  - exists ds, NoGroup. unfold render. repeat split; assumption.
  - cbn [group_ok] in Hg.
    repeat (apply andb_true_iff in Hg; destruct Hg as [Hg ?]).
    exists ds, (Group sep (take_while is_letter r) (drop_while is_letter r)).
    unfold render. rewrite take_drop_while. repeat split; try assumption.
    + apply take_while_all.
    + apply negb_true_iff in H. apply N.eqb_neq in H. exact H.
Qed.

(* ================= abstract shapes and their two denotations ================= *)

(* the five pre-release qualifiers after alias resolution *)
Definition pre5 : list bytes := [ $"alpha"; $"beta"; $"milestone"; $"rc"; $"snapshot" ].

(* tail of a version: nothing, or qualifier q with glued number n (0 = none) *)
Definition gtail := option (bytes * N).

Definition go_tail (t : gtail) : list elem :=
  match t with
  | None => []
  | Some (q, n) => Str q :: (if (n =? 0)%N then [] else [numN n])
  end.
Definition go_shape (u : list N) (t : gtail) : core := map numN u ++ go_tail t.

Definition cv_tail (t : gtail) : list item :=
  match t with
  | None => []
  | Some (q, n) => [IList (IStr q :: (if (n =? 0)%N then [] else [IList [IInt n]]))]
  end.
Definition cv_shape (u : list N) (t : gtail) : list item := map IInt u ++ cv_tail t.

Definition tail_ok (t : gtail) : Prop :=
  match t with None => True | Some (q, _) => In q pre5 end.

Lemma pre5_cases q : In q pre5 ->
  q = $"alpha" \/ q = $"beta" \/ q = $"milestone" \/ q = $"rc" \/ q = $"snapshot".
Proof. unfold pre5. simpl. intuition. Qed.

Lemma pre5_qual qa qb : In qa pre5 -> In qb pre5 ->
  compareElements (Str qa) (Str qb) = qual_cmp qa qb.
Proof.
  intros Ha Hb. apply pre5_cases in Ha. apply pre5_cases in Hb.
  repeat (destruct Ha as [Ha|Ha]); subst qa;
  repeat (destruct Hb as [Hb|Hb]); subst qb; vm_compute; reflexivity.
Qed.

Lemma pre5_vs_num q z : In q pre5 ->
  compareElements (Str q) (Num z) = Lt /\ compareElements (Num z) (Str q) = Gt.
Proof.
  intros H. apply pre5_cases in H.
  repeat (destruct H as [H|H]); subst q; split; reflexivity.
Qed.

Lemma pre5_null q : In q pre5 -> cmp_null (IStr q) = Lt.
Proof.
  intros H. apply pre5_cases in H.
  repeat (destruct H as [H|H]); subst q; vm_compute; reflexivity.
Qed.

Lemma numN_cmp x y : compareElements (numN x) (numN y) = (x ?= y)%N.
Proof. cbn [compareElements numN]. apply N2Z.inj_compare. Qed.

Lemma numN_null x : compareElements (numN x) null_elem = cmp_null (IInt x).
Proof.
  cbn [compareElements numN null_elem cmp_null]. destruct x; reflexivity.
Qed.

(* against the empty list *)
Lemma shape_vs_nil u t : tail_ok t ->
  cmp_core (go_shape u t) [] = cv_list (cv_shape u t) [].
Proof.
  intros Ht. unfold cmp_core, go_shape, cv_shape.
  induction u as [|x u IH].
  - destruct t as [[q n]|]; [|reflexivity].
    cbn [map app go_tail cv_tail lex_pad cv_list].
    destruct (pre5_vs_num q 0%Z Ht) as [E _]. unfold null_elem. rewrite E.
    rewrite cmp_null_IList. cbn [cmp_null_list]. rewrite (pre5_null q Ht). reflexivity.
  - cbn [map app lex_pad cv_list]. rewrite numN_null, IH. reflexivity.
Qed.

Lemma tails_cmp ta tb : tail_ok ta -> tail_ok tb ->
  cmp_core (go_tail ta) (go_tail tb) = cv_list (cv_tail ta) (cv_tail tb).
Proof.
  intros Ha Hb.
  destruct ta as [[qa na]|]; destruct tb as [[qb nb]|].
  - unfold cmp_core. cbn [go_tail cv_tail].
    rewrite cv_list_cons, cv_cmp_IList, cv_list_cons.
    cbn [lex_pad]. rewrite (pre5_qual qa qb Ha Hb). cbn [cv_cmp].
    destruct (qual_cmp qa qb); cbn [thenc]; try reflexivity.
    destruct (na =? 0)%N eqn:Ea; destruct (nb =? 0)%N eqn:Eb.
    + reflexivity.
    + cbn [lex_pad lex_pad_l cv_list cmp_null_list cmp_null]. rewrite Eb.
      apply N.eqb_neq in Eb. unfold null_elem, numN. cbn [compareElements].
      destruct nb; [contradiction|reflexivity].
    + cbn [lex_pad cv_list cmp_null]. rewrite Ea.
      apply N.eqb_neq in Ea. unfold null_elem, numN. cbn [compareElements].
      destruct na; [contradiction|reflexivity].
    + cbn [lex_pad]. rewrite cv_list_cons, cv_cmp_IList, cv_list_cons.
      rewrite numN_cmp. cbn [cv_cmp cv_list cmp_null_list]. cbn [lex_pad_l].
      destruct (na ?= nb)%N; reflexivity.
  - apply (shape_vs_nil [] (Some (qa, na)) Ha).
  - pose proof (shape_vs_nil [] (Some (qb, nb)) Hb) as H.
    change (go_shape [] (Some (qb, nb))) with (go_tail (Some (qb, nb))) in H.
    change (cv_shape [] (Some (qb, nb))) with (cv_tail (Some (qb, nb))) in H.
    change (go_tail None) with (@nil elem). change (cv_tail None) with (@nil item).
    rewrite cmp_core_anti, H. rewrite cv_list_nil_r, cv_list_nil_l. reflexivity.
  - reflexivity.
Qed.

(* (C) the flat comparison of the implementation and the nested one of ComparableVersion agree
   on all such shapes *)
Theorem shapes_cmp u : forall v ta tb, tail_ok ta -> tail_ok tb ->
  cmp_core (go_shape u ta) (go_shape v tb) = cv_list (cv_shape u ta) (cv_shape v tb).
Proof.
  induction u as [|x u IH]; intros v ta tb Ha Hb.
  - destruct v as [|y v].
    + apply tails_cmp; assumption.
    + destruct ta as [[qa na]|].
      * unfold cmp_core, go_shape, cv_shape. cbn [map app go_tail cv_tail lex_pad].
        rewrite cv_list_cons. destruct (pre5_vs_num qa (Z.of_N y) Ha) as [E _].
        unfold numN. rewrite E. reflexivity.
      * change (go_shape [] None) with (@nil elem). change (cv_shape [] None) with (@nil item).
        rewrite cmp_core_anti, (shape_vs_nil (y :: v) tb Hb).
        rewrite cv_list_nil_r, cv_list_nil_l. reflexivity.
  - destruct v as [|y v].
    + destruct tb as [[qb nb]|].
      * unfold cmp_core, go_shape, cv_shape. cbn [map app go_tail cv_tail lex_pad].
        rewrite cv_list_cons. destruct (pre5_vs_num qb (Z.of_N x) Hb) as [_ E].
        unfold numN. rewrite E. reflexivity.
      * change (go_shape [] None) with (@nil elem). change (cv_shape [] None) with (@nil item).
        apply shape_vs_nil. exact Ha.
    + unfold cmp_core, go_shape, cv_shape in *. cbn [map app lex_pad].
      rewrite cv_list_cons, numN_cmp, (IH v ta tb Ha Hb). reflexivity.
Qed.

(* ================= the implementation's parser on in-scope texts ================= *)

Lemma letter_not_digit c : is_letter c = true -> is_digit c = false.
Proof.
  intros H. destruct (is_digit c) eqn:E; [|reflexivity].
  rewrite (digit_not_letter c E) in H. discriminate.
Qed.

Lemma letter_not_sep c : is_letter c = true -> Version.is_sep c = false.
Proof.
  intros H. unfold Version.is_sep.
  destruct (ceqb c "."%char) eqn:E1; [apply ceqb_eq in E1; subst; discriminate|].
  destruct (ceqb c "-"%char) eqn:E2; [apply ceqb_eq in E2; subst; discriminate|].
  reflexivity.
Qed.

Lemma tok_after_letter c dg :
  is_letter c = true -> forallb is_digit dg = true ->
  tok (Some c) dg = ([], cons_ne dg []).
Proof.
  intros Hc Hd. destruct dg as [|x dg]; [reflexivity|].
  cbn [forallb] in Hd. apply andb_true_iff in Hd. destruct Hd as [Hx Hd].
  cbn [tok]. rewrite (tok_digits_end dg (Some x) Hd (digit_not_letter x Hx)).
  rewrite (digit_not_sep x Hx). cbn [transition]. rewrite Hc, Hx, andb_true_r.
  rewrite orb_true_r. reflexivity.
Qed.

Definition not_digit_prev (prev : option ascii) : Prop :=
  match prev with Some p => is_digit p = false | None => True end.

Lemma tok_letters_digits w : forall prev dg,
  w <> [] -> forallb is_letter w = true -> forallb is_digit dg = true -> not_digit_prev prev ->
  tok prev (w ++ dg) = (w, cons_ne dg []).
Proof.
  induction w as [|c w IH]; intros prev dg Ne Hw Hd Hp; [contradiction|].
  cbn [forallb] in Hw. apply andb_true_iff in Hw. destruct Hw as [Hc Hw].
  cbn [app tok].
  assert (T : transition prev c = false).
  { destruct prev as [p|]; [|reflexivity]. cbn [transition] in *. cbn in Hp.
    rewrite Hp, (letter_not_digit c Hc), andb_false_r. reflexivity. }
  rewrite (letter_not_sep c Hc), T.
  destruct w as [|c2 w].
  - cbn [app]. rewrite (tok_after_letter c dg Hc Hd). reflexivity.
  - rewrite (IH (Some c) dg); [reflexivity|discriminate|exact Hw|exact Hd|].
    cbn. apply letter_not_digit. exact Hc.
Qed.

(* ---------- numbers of any length are tokens ---------- *)

Lemma num_ok_token d : num_ok d = true -> digit_token d.
Proof. intros H. exact H. Qed.

Lemma nums_ok_tokens ds : forallb num_ok ds = true -> Forall digit_token ds.
Proof.
  induction ds as [|d ds IH]; [constructor|].
  cbn [forallb]. intros H. apply andb_true_iff in H. destruct H as [Hd Hs].
  constructor; [apply num_ok_token; exact Hd|apply IH; exact Hs].
Qed.

(* ---------- words ---------- *)

Definition canon_tbl : list (bytes * bytes) :=
  [ ($"alpha", $"alpha"); ($"beta", $"beta"); ($"milestone", $"milestone"); ($"rc", $"rc");
    ($"cr", $"rc"); ($"snapshot", $"snapshot"); ($"a", $"alpha"); ($"b", $"beta");
    ($"m", $"milestone") ].
Definition canon (lw : bytes) : bytes :=
  match lookup lw canon_tbl with Some q => q | None => lw end.

Lemma mem_In k l : mem k l = true -> In k l.
Proof.
  unfold mem. intros H. apply existsb_exists in H. destruct H as [x [Hx E]].
  apply beq_eq in E. subst. exact Hx.
Qed.

Lemma word_ok_cases lw dg : word_ok lw dg = true ->
  In lw pre_words \/ (In lw alias_words /\ dg <> []).
Proof.
  unfold word_ok. intros H. apply orb_true_iff in H. destruct H as [H|H].
  - left. apply mem_In. exact H.
  - right. apply andb_true_iff in H. destruct H as [H1 H2].
    split; [apply mem_In; exact H1|destruct dg; [discriminate|discriminate]].
Qed.

Lemma elem_of_lower w : elem_of w = elem_of (to_lower w).
Proof. unfold elem_of, normalizeQualifier. rewrite to_lower_idem. reflexivity. Qed.

Lemma word_elem w dg : word_ok (to_lower w) dg = true ->
  elem_of w = Str (canon (to_lower w)) /\ In (canon (to_lower w)) pre5.
Proof.
  intros H. rewrite elem_of_lower. apply word_ok_cases in H.
  destruct H as [H|[H _]]; simpl in H;
  repeat (destruct H as [H|H]; [rewrite <- H; split; [reflexivity|simpl; tauto]|]);
  contradiction.
Qed.

Lemma word_nonempty w dg : word_ok (to_lower w) dg = true -> w <> [].
Proof. intros H E. subst w. vm_compute in H. destruct dg; discriminate. Qed.

(* ---------- the parse ---------- *)

Definition vals (ds : list bytes) : list N := map digits_val ds.

Definition gtail_of (g : group) : gtail :=
  match g with
  | NoGroup => None
  | Group _ w dg => Some (canon (to_lower w), digits_val dg)
  end.

Lemma digits_val_zero_token dg :
  forallb is_digit dg = true -> dg <> [] ->
  elem_of dg = numN (digits_val dg).
Proof.
  intros Hd Ne. apply elem_of_digits. apply num_ok_token. unfold num_ok.
  apply nonempty_digits_spec. split; assumption.
Qed.

Theorem go_parse_grouped ds sep w dg :
  ds <> [] -> forallb num_ok ds = true -> group_wf ds (Group sep w dg) ->
  parse_core (render ds (Group sep w dg)) = Some (go_shape (vals ds) (gtail_of (Group sep w dg))).
Proof.
  intros Ne Hn [Hs [Hw [Hd [Wk Hz]]]].
  pose proof (nums_ok_tokens ds Hn) as HF.
  unfold render.
  rewrite (parse_core_valid _ (join_nonempty ds _ Ne HF) (valid_join ds _ Ne HF)).
  unfold parseVersionString.
  rewrite (tokenize_join ds (sep :: w ++ dg) Ne (Forall_digit_token_nonempty ds HF) Hs).
  cbn [sfx_tokens].
  assert (Hp : not_digit_prev (Some sep)).
  { cbn. destruct (is_digit sep) eqn:E; [|reflexivity].
    rewrite (digit_not_sep sep E) in Hs. discriminate. }
  rewrite (tok_letters_digits w (Some sep) dg (word_nonempty w dg Wk) Hw Hd Hp). cbn [fst snd].
  destruct (word_elem w dg Wk) as [Ew _].
  pose proof (word_nonempty w dg Wk) as Nw.
  destruct w as [|c0 w0]; [contradiction|]. cbn [cons_ne]. set (w := c0 :: w0) in *.
  rewrite map_app, (map_elem_of_digits ds HF). unfold go_shape, vals, gtail_of, go_tail.
  destruct dg as [|x dg'].
  - cbn [cons_ne map]. rewrite Ew. change (digits_val []) with 0%N. cbn [N.eqb].
    f_equal. change (map numN (map digits_val ds) ++ [Str (canon (to_lower w))])
      with (map numN (map digits_val ds) ++ [Str (canon (to_lower w))]).
    rewrite trim_snoc.
    destruct (word_elem w [] Wk) as [_ Hq]. apply pre5_cases in Hq.
    repeat (destruct Hq as [Hq|Hq]); rewrite Hq; reflexivity.
  - cbn [cons_ne map]. rewrite Ew.
    rewrite (digits_val_zero_token (x :: dg') Hd) by discriminate.
    f_equal. set (n := digits_val (x :: dg')).
    change (map numN (map digits_val ds) ++ [Str (canon (to_lower w)); numN n])
      with (map numN (map digits_val ds) ++ [Str (canon (to_lower w))] ++ [numN n]).
    rewrite app_assoc, trim_snoc.
    destruct (n =? 0)%N eqn:E.
    + apply N.eqb_eq in E. rewrite E. cbn [isNullElement numN Z.of_N Z.eqb].
      rewrite trim_snoc.
      destruct (word_elem w (x :: dg') Wk) as [_ Hq]. apply pre5_cases in Hq.
      repeat (destruct Hq as [Hq|Hq]); rewrite Hq; reflexivity.
    + apply N.eqb_neq in E. cbn [isNullElement numN].
      destruct n; [contradiction|]. cbn [Z.of_N Z.eqb]. rewrite <- app_assoc. reflexivity.
Qed.

Theorem go_parse_plain ds :
  ds <> [] -> forallb num_ok ds = true ->
  parse_core (render ds NoGroup) = Some (trimTrailingNulls (map numN (vals ds))).
Proof.
  intros Ne Hn. unfold render. rewrite app_nil_r.
  apply parse_numeric; [exact Ne|apply nums_ok_tokens; exact Hn].
Qed.

(* ================= ComparableVersion's parser on in-scope texts ================= *)

Definition mk (s : list (list item)) (c : list item) (b : bytes) (d : bool) : pstate :=
  {| p_stack := s; p_cur := c; p_buf := b; p_isdig := d |}.

Lemma digit_not_dot_dash x :
  is_digit x = true -> ceqb x "."%char = false /\ ceqb x "-"%char = false.
Proof.
  intros H. pose proof (digit_not_sep x H) as S. unfold Version.is_sep in S.
  apply orb_false_iff in S. exact S.
Qed.

Lemma step_digit_dig s c b x :
  is_digit x = true -> p_step (mk s c b true) x = mk s c (x :: b) true.
Proof.
  intros H. destruct (digit_not_dot_dash x H) as [E1 E2].
  unfold p_step, mk. cbn [p_stack p_cur p_buf p_isdig]. rewrite E1, E2, H. reflexivity.
Qed.

Lemma step_digit_first s c d0 x :
  is_digit x = true -> p_step (mk s c [] d0) x = mk s c [x] true.
Proof.
  intros H. destruct (digit_not_dot_dash x H) as [E1 E2].
  unfold p_step, mk. cbn [p_stack p_cur p_buf p_isdig]. rewrite E1, E2, H.
  cbn [is_nil negb]. rewrite andb_false_r. reflexivity.
Qed.

Lemma run_digits d : forall s c b,
  forallb is_digit d = true -> fold_left p_step d (mk s c b true) = mk s c (rev d ++ b) true.
Proof.
  induction d as [|x d IH]; intros s c b H; [reflexivity|].
  cbn [forallb] in H. apply andb_true_iff in H. destruct H as [Hx Hd].
  cbn [fold_left]. rewrite (step_digit_dig s c b x Hx), (IH s c (x :: b) Hd).
  cbn [rev]. rewrite <- app_assoc. reflexivity.
Qed.

Lemma run_digits_first d s c d0 :
  d <> [] -> forallb is_digit d = true -> fold_left p_step d (mk s c [] d0) = mk s c (rev d) true.
Proof.
  intros Ne H. destruct d as [|x d]; [contradiction|].
  cbn [forallb] in H. apply andb_true_iff in H. destruct H as [Hx Hd].
  cbn [fold_left]. rewrite (step_digit_first s c d0 x Hx), (run_digits d s c [x] Hd). reflexivity.
Qed.

Lemma rev_nonnil {A} (l : list A) : l <> [] -> is_nil (rev l) = false.
Proof.
  destruct l as [|x l]; [contradiction|]. intros _. cbn [rev].
  destruct (rev l); reflexivity.
Qed.

Lemma step_dot s c d :
  d <> [] -> p_step (mk s c (rev d) true) "."%char = mk s (IInt (digits_val d) :: c) [] true.
Proof.
  intros Ne. unfold p_step, mk. cbn [p_stack p_cur p_buf p_isdig].
  change (ceqb "."%char "."%char) with true. cbn iota.
  rewrite (rev_nonnil d Ne), rev_involutive. reflexivity.
Qed.

Lemma step_dash s c d :
  d <> [] ->
  p_step (mk s c (rev d) true) "-"%char = mk ((IInt (digits_val d) :: c) :: s) [] [] true.
Proof.
  intros Ne. unfold p_step, mk. cbn [p_stack p_cur p_buf p_isdig].
  change (ceqb "-"%char "."%char) with false. change (ceqb "-"%char "-"%char) with true. cbn iota.
  rewrite (rev_nonnil d Ne), rev_involutive. reflexivity.
Qed.

Lemma join_cons (sep d : bytes) X : X <> [] -> join sep (d :: X) = d ++ sep ++ join sep X.
Proof. destruct X; [contradiction|reflexivity]. Qed.

(* the numeric part: all components but the last become items, the last is pending *)
Lemma cv_nums init : forall dl s c d0,
  Forall (fun x => nonempty_digits x = true) (init ++ [dl]) ->
  fold_left p_step (join $"." (init ++ [dl])) (mk s c [] d0) =
    mk s (rev (map IInt (vals init)) ++ c) (rev dl) true.
Proof.
  induction init as [|d init IH]; intros dl s c d0 HF.
  - cbn [app join vals map rev]. inversion HF as [|? ? Hd _]; subst.
    apply nonempty_digits_spec in Hd. destruct Hd as [Ne Hd].
    apply run_digits_first; assumption.
  - cbn [app] in *. inversion HF as [|? ? Hd HF']; subst.
    apply nonempty_digits_spec in Hd. destruct Hd as [Ne Hd].
    rewrite join_cons by (destruct init; discriminate).
    rewrite fold_left_app, (run_digits_first d s c d0 Ne Hd).
    change ($"." ++ join $"." (init ++ [dl])) with ("."%char :: join $"." (init ++ [dl])).
    cbn [fold_left]. rewrite (step_dot s c d Ne).
    rewrite (IH dl s (IInt (digits_val d) :: c) true HF').
    cbn [vals map rev]. rewrite <- app_assoc. reflexivity.
Qed.

(* letters *)
Definition plain_letter (c : ascii) : bool :=
  negb (ceqb c "."%char) && negb (ceqb c "-"%char) && negb (is_digit c).

Lemma step_letter s c b d0 x :
  plain_letter x = true -> (b = [] \/ d0 = false) ->
  p_step (mk s c b d0) x = mk s c (x :: b) false.
Proof.
  unfold plain_letter. intros H Hb.
  apply andb_true_iff in H. destruct H as [H H3]. apply andb_true_iff in H. destruct H as [H1 H2].
  apply negb_true_iff in H1, H2, H3.
  unfold p_step, mk. cbn [p_stack p_cur p_buf p_isdig]. rewrite H1, H2, H3.
  destruct Hb as [-> | ->]; [cbn [is_nil negb]; rewrite andb_false_r|]; reflexivity.
Qed.

Lemma run_letters w : forall s c b d0,
  forallb plain_letter w = true -> (b = [] \/ d0 = false) -> w <> [] ->
  fold_left p_step w (mk s c b d0) = mk s c (rev w ++ b) false.
Proof.
  induction w as [|x w IH]; intros s c b d0 H Hb Ne; [contradiction|].
  cbn [forallb] in H. apply andb_true_iff in H. destruct H as [Hx Hw].
  cbn [fold_left]. rewrite (step_letter s c b d0 x Hx Hb).
  destruct w as [|y w]; [reflexivity|].
  rewrite (IH s c (x :: b) false Hw (or_intror eq_refl)) by discriminate.
  cbn [rev]. rewrite <- !app_assoc. reflexivity.
Qed.

(* the first digit after a word opens the sub-lists; both separators lead to the same state *)
Lemma step_digit_after_word_nil s w x :
  w <> [] -> is_digit x = true ->
  p_step (mk s [] (rev w) false) x = mk ([str_item w true] :: s) [] [x] true.
Proof.
  intros Ne H. destruct (digit_not_dot_dash x H) as [E1 E2].
  unfold p_step, mk. cbn [p_stack p_cur p_buf p_isdig]. rewrite E1, E2, H.
  rewrite (rev_nonnil w Ne), rev_involutive. reflexivity.
Qed.

Lemma step_digit_after_word_cons s i c w x :
  w <> [] -> is_digit x = true ->
  p_step (mk s (i :: c) (rev w) false) x = mk ([str_item w true] :: (i :: c) :: s) [] [x] true.
Proof.
  intros Ne H. destruct (digit_not_dot_dash x H) as [E1 E2].
  unfold p_step, mk. cbn [p_stack p_cur p_buf p_isdig]. rewrite E1, E2, H.
  rewrite (rev_nonnil w Ne), rev_involutive. reflexivity.
Qed.

(* ---------- lower-casing an in-scope text ---------- *)

Lemma to_lower_app a b : to_lower (a ++ b) = to_lower a ++ to_lower b.
Proof. apply map_app. Qed.

Lemma to_lower_join ds :
  Forall (fun x => nonempty_digits x = true) ds -> to_lower (join $"." ds) = join $"." ds.
Proof.
  induction 1 as [|d ds Hd HF IH]; [reflexivity|].
  apply nonempty_digits_spec in Hd. destruct Hd as [_ Hd].
  destruct ds as [|d2 ds]; [apply digits_to_lower; exact Hd|].
  rewrite join_cons by discriminate. rewrite !to_lower_app, IH, (digits_to_lower d Hd).
  reflexivity.
Qed.

Lemma to_lower_sep c : Version.is_sep c = true -> to_lower_c c = c.
Proof.
  unfold Version.is_sep. intros H. apply orb_true_iff in H.
  destruct H as [H|H]; apply ceqb_eq in H; subst; reflexivity.
Qed.

(* ---------- words, on the reference side ---------- *)

Lemma word_cv lw dg : word_ok lw dg = true ->
  forallb plain_letter lw = true /\ lw <> [] /\
  str_item lw true = IStr (canon lw) /\
  (dg = [] -> parse_item false lw = IStr (canon lw)) /\
  is_null (IStr (canon lw)) = false.
Proof.
  intros H. apply word_ok_cases in H.
  destruct H as [H|[H Hd]]; simpl in H;
  repeat (destruct H as [H|H];
          [subst lw; repeat split; try reflexivity; try discriminate;
           intros E; try contradiction; reflexivity|]);
  contradiction.
Qed.

(* closing the lists *)
Lemma norm_rev_int n r : norm_rev (IInt n :: r) = if (n =? 0)%N then norm_rev r else IInt n :: r.
Proof. reflexivity. Qed.
Lemma norm_rev_list_nil r : norm_rev (IList [] :: r) = norm_rev r.
Proof. reflexivity. Qed.
Lemma norm_rev_list_cons x l r : norm_rev (IList (x :: l) :: r) = IList (x :: l) :: norm_rev r.
Proof. reflexivity. Qed.
Lemma norm_rev_str q r : is_null (IStr q) = false -> norm_rev (IStr q :: r) = IStr q :: r.
Proof. intros H. cbn [norm_rev]. rewrite H. reflexivity. Qed.

Lemma close_group q n root :
  is_null (IStr q) = false ->
  p_close [IInt n] ([IStr q] :: root :: []) =
  p_close (IList (IStr q :: (if (n =? 0)%N then [] else [IList [IInt n]])) :: root) [].
Proof.
  intros Hq. cbn [p_close]. rewrite norm_rev_int.
  destruct (n =? 0)%N eqn:E.
  - change (norm_rev []) with (@nil item). change (rev (@nil item)) with (@nil item).
    rewrite norm_rev_list_nil, (norm_rev_str q [] Hq). reflexivity.
  - change (rev [IInt n]) with [IInt n].
    rewrite norm_rev_list_cons, (norm_rev_str q [] Hq). reflexivity.
Qed.

Lemma close_root L vl c :
  vl <> 0%N -> L <> [] ->
  rev (norm_rev (IList L :: IInt vl :: c)) = rev c ++ [IInt vl; IList L].
Proof.
  intros Hv HL. apply N.eqb_neq in Hv. destruct L as [|x L]; [contradiction|].
  rewrite norm_rev_list_cons, norm_rev_int, Hv.
  cbn [rev]. rewrite <- !app_assoc. reflexivity.
Qed.

(* ---------- trailing zeros, both sides ---------- *)

Fixpoint dropz (l : list N) : list N :=
  match l with
  | x :: r => if (x =? 0)%N then dropz r else l
  | [] => []
  end.
Definition strip0 (u : list N) : list N := rev (dropz (rev u)).

Lemma norm_rev_ints l : norm_rev (map IInt l) = map IInt (dropz l).
Proof.
  induction l as [|x l IH]; [reflexivity|].
  cbn [map dropz]. rewrite norm_rev_int, IH. destruct (x =? 0)%N; reflexivity.
Qed.

Lemma normalize_ints u : normalize (map IInt u) = map IInt (strip0 u).
Proof. unfold normalize, strip0. rewrite <- map_rev, norm_rev_ints, map_rev. reflexivity. Qed.

Lemma drop_nulls_nums l : drop_while_e isNullElement (map numN l) = map numN (dropz l).
Proof.
  induction l as [|x l IH]; [reflexivity|].
  cbn [map dropz drop_while_e]. rewrite IH.
  destruct x; reflexivity.
Qed.

Lemma trim_nums u : trimTrailingNulls (map numN u) = map numN (strip0 u).
Proof. unfold trimTrailingNulls, strip0. rewrite <- map_rev, drop_nulls_nums, map_rev. reflexivity. Qed.

(* ---------- the reference parse ---------- *)

Lemma split_last (ds : list bytes) : ds <> [] -> exists init dl, ds = init ++ [dl].
Proof. intros H. destruct (exists_last H) as [init [dl E]]. eauto. Qed.

Lemma vals_snoc init dl : vals (init ++ [dl]) = vals init ++ [digits_val dl].
Proof. unfold vals. rewrite map_app. reflexivity. Qed.

Lemma p_init_mk : p_init = mk [] [] [] false.
Proof. reflexivity. Qed.

Theorem cv_parse_plain ds :
  ds <> [] -> Forall (fun x => nonempty_digits x = true) ds ->
  parse_cv (render ds NoGroup) = IList (map IInt (strip0 (vals ds))).
Proof.
  intros Ne HF. destruct (split_last ds Ne) as [init [dl E]]. subst ds.
  unfold parse_cv, render. rewrite app_nil_r, (to_lower_join _ HF), p_init_mk.
  rewrite (cv_nums init dl [] [] false HF).
  assert (Nd : dl <> []).
  { apply Forall_app in HF. destruct HF as [_ H]. inversion H as [|? ? Hd _]; subst.
    destruct dl; [discriminate|discriminate]. }
  unfold p_flush, mk. cbn [p_stack p_cur p_buf p_isdig].
  rewrite (rev_nonnil dl Nd). cbn [negb andb]. unfold parse_item. rewrite rev_involutive.
  cbn [p_close]. rewrite app_nil_r.
  rewrite <- normalize_ints. unfold normalize. rewrite vals_snoc, map_app.
  change (map IInt [digits_val dl]) with [IInt (digits_val dl)]. rewrite rev_unit. reflexivity.
Qed.

Theorem cv_parse_grouped ds sep w dg :
  ds <> [] -> Forall (fun x => nonempty_digits x = true) ds -> group_wf ds (Group sep w dg) ->
  parse_cv (render ds (Group sep w dg)) = IList (cv_shape (vals ds) (gtail_of (Group sep w dg))).
Proof.
  intros Ne HF [Hs [Hw [Hd [Wk Hz]]]].
  destruct (split_last ds Ne) as [init [dl E]]. subst ds.
  rewrite last_last in Hz.
  assert (Nd : dl <> []).
  { apply Forall_app in HF. destruct HF as [_ H]. inversion H as [|? ? Hx _]; subst.
    destruct dl; [discriminate|discriminate]. }
  destruct (word_cv (to_lower w) dg Wk) as [Pl [Nw [Si [Pi Nq]]]].
  set (lw := to_lower w) in *. set (q := canon lw) in *.
  unfold parse_cv, render.
  rewrite to_lower_app, (to_lower_join _ HF).
  change (to_lower (sep :: w ++ dg)) with (to_lower_c sep :: to_lower (w ++ dg)).
  rewrite (to_lower_sep sep Hs), to_lower_app, (digits_to_lower dg Hd). fold lw.
  rewrite p_init_mk, fold_left_app, (cv_nums init dl [] [] false HF).
  rewrite app_nil_r. set (C0 := rev (map IInt (vals init))).
  set (vl := digits_val dl) in *.
  assert (RC : rev C0 = map IInt (vals init)) by (unfold C0; apply rev_involutive).
  (* the state after the separator, then after the word *)
  assert (S1 : exists s1 c1,
             p_step (mk [] C0 (rev dl) true) sep = mk s1 c1 [] true /\
             ((s1 = [] /\ c1 = IInt vl :: C0) \/ (s1 = [IInt vl :: C0] /\ c1 = []))).
  { unfold Version.is_sep in Hs. apply orb_true_iff in Hs. destruct Hs as [Hs|Hs];
      apply ceqb_eq in Hs; subst sep.
    - exists [], (IInt vl :: C0). split; [apply step_dot; exact Nd|left; split; reflexivity].
    - exists [IInt vl :: C0], []. split; [apply step_dash; exact Nd|right; split; reflexivity]. }
  destruct S1 as [s1 [c1 [St Cases]]].
  cbn [fold_left]. rewrite St, fold_left_app.
  rewrite (run_letters lw s1 c1 [] true Pl (or_introl eq_refl) Nw), app_nil_r.
  unfold cv_shape, gtail_of, cv_tail. fold lw. fold q. rewrite vals_snoc, map_app. fold vl.
  destruct dg as [|x dg'].
  - (* no glued number *)
    cbn [fold_left]. change (digits_val []) with 0%N. cbn [N.eqb].
    assert (F : p_flush (mk s1 c1 (rev lw) false) = ([IInt vl :: C0], [IStr q])).
    { unfold p_flush, mk. cbn [p_stack p_cur p_buf p_isdig].
      rewrite (rev_nonnil lw Nw), rev_involutive, (Pi eq_refl).
      destruct Cases as [[-> ->]|[-> ->]]; reflexivity. }
    rewrite F. cbn [p_close]. rewrite (norm_rev_str q [] Nq). cbn [rev app].
    rewrite close_root by (assumption || discriminate).
    rewrite RC, <- app_assoc. reflexivity || (cbn [map app]; reflexivity).
  - (* glued number *)
    cbn [forallb] in Hd. apply andb_true_iff in Hd. destruct Hd as [Hx Hd].
    cbn [fold_left].
    assert (F : p_step (mk s1 c1 (rev lw) false) x =
                mk ([str_item lw true] :: (IInt vl :: C0) :: []) [] [x] true).
    { destruct Cases as [[-> ->]|[-> ->]].
      - apply step_digit_after_word_cons; assumption.
      - apply step_digit_after_word_nil; assumption. }
    rewrite F, (run_digits dg' _ _ _ Hd).
    change (rev dg' ++ [x]) with (rev (x :: dg')).
    unfold p_flush, mk. cbn [p_stack p_cur p_buf p_isdig].
    rewrite (rev_nonnil (x :: dg')) by discriminate. cbn [negb andb].
    unfold parse_item. rewrite rev_involutive, Si.
    rewrite (close_group q _ _ Nq). cbn [p_close].
    rewrite close_root by (assumption || discriminate).
    rewrite RC, <- app_assoc. reflexivity || (cbn [map app]; reflexivity).
Qed.

(* ================= in-scope texts contain no white space ================= *)

Lemma digit_not_space c : is_digit c = true -> is_space c = false.
Proof.
  intros H. apply digit_cases in H. simpl in H.
  repeat (destruct H as [H|H]; [subst c; reflexivity|]). contradiction.
Qed.

Lemma letter_not_space c : is_letter c = true -> is_space c = false.
Proof. destruct c as [[] [] [] [] [] [] [] []]; intros H; try discriminate H; reflexivity. Qed.

Lemma sep_not_space c : Version.is_sep c = true -> is_space c = false.
Proof.
  unfold Version.is_sep. intros H. apply orb_true_iff in H.
  destruct H as [H|H]; apply ceqb_eq in H; subst; reflexivity.
Qed.

Lemma no_space_of p (s : bytes) :
  (forall c, p c = true -> is_space c = false) -> forallb p s = true -> no_space s = true.
Proof.
  intros P. unfold no_space. induction s as [|c s IH]; [reflexivity|].
  cbn [forallb]. intros H. apply andb_true_iff in H. destruct H as [Hc Hs].
  rewrite (P c Hc), (IH Hs). reflexivity.
Qed.

Lemma no_space_join ds :
  Forall (fun x => nonempty_digits x = true) ds -> no_space (join $"." ds) = true.
Proof.
  induction 1 as [|d ds Hd HF IH]; [reflexivity|].
  apply nonempty_digits_spec in Hd. destruct Hd as [_ Hd].
  pose proof (no_space_of is_digit d digit_not_space Hd) as Nd.
  destruct ds as [|d2 ds]; [exact Nd|].
  rewrite join_cons by discriminate. rewrite !no_space_app, Nd, IH. reflexivity.
Qed.

Lemma no_space_render ds g :
  Forall (fun x => nonempty_digits x = true) ds -> group_wf ds g -> no_space (render ds g) = true.
Proof.
  intros HF Hg. unfold render. rewrite no_space_app, (no_space_join ds HF).
  destruct g as [|sep w dg]; [reflexivity|].
  destruct Hg as [Hs [Hw [Hd _]]].
  change (sep :: w ++ dg) with ([sep] ++ w ++ dg). rewrite !no_space_app.
  rewrite (no_space_of is_letter w letter_not_space Hw), (no_space_of is_digit dg digit_not_space Hd).
  unfold no_space. cbn [forallb]. rewrite (sep_not_space sep Hs). reflexivity.
Qed.

(* ================= both parsers on an in-scope text ================= *)

Lemma in_scope_shapes s :
  in_scope s = true ->
  trim_space s = s /\
  exists u t, tail_ok t /\ parse_core s = Some (go_shape u t) /\ parse_cv s = IList (cv_shape u t).
Proof.
  intros H. destruct (in_scope_decomp s H) as [ds [g [E [Ne [Hn Hg]]]]]. subst s.
  pose proof (Forall_digit_token_nonempty ds (nums_ok_tokens ds Hn)) as HF.
  split; [apply trim_space_no_space, no_space_render; assumption|].
  destruct g as [|sep w dg].
  - exists (strip0 (vals ds)), None. split; [exact I|]. split.
    + rewrite (go_parse_plain ds Ne Hn), trim_nums. unfold go_shape. cbn [go_tail].
      rewrite app_nil_r. reflexivity.
    + rewrite (cv_parse_plain ds Ne HF). unfold cv_shape. cbn [cv_tail].
      rewrite app_nil_r. reflexivity.
  - exists (vals ds), (gtail_of (Group sep w dg)). split.
    + destruct Hg as [_ [_ [_ [Wk _]]]]. cbn [gtail_of tail_ok].
      apply (word_elem w dg Wk).
    + split; [apply go_parse_grouped|apply cv_parse_grouped]; assumption.
Qed.

(* ================= the theorems ================= *)

Theorem maven_cmp_is_spec a b :
  in_scope a = true -> in_scope b = true ->
  MavenCV.spec_valid a = true -> MavenCV.spec_valid b = true ->
  v_cmp Entry.v a b = MavenCV.spec_cmp a b.
Proof.
  intros Ia Ib Va Vb.
  destruct (in_scope_shapes a Ia) as [Ta [ua [ta [Oa [Ga Ca]]]]].
  destruct (in_scope_shapes b Ib) as [Tb [ub [tb [Ob [Gb Cb]]]]].
  unfold spec_cmp. rewrite Va, Vb. cbn [andb]. unfold mvn_cmp. rewrite Ca, Cb, cv_cmp_IList.
  cbn [v_cmp Entry.v mk_vops]. unfold VLayer.parse. rewrite Ta, Tb, Ga, Gb.
  unfold VLayer.cmp. cbn [v_core]. f_equal. apply shapes_cmp; assumption.
Qed.

Theorem maven_accepts_spec_valid s :
  in_scope s = true -> MavenCV.spec_valid s = true -> exists t, v_show Entry.v s = Some t.
Proof.
  intros Is _. destruct (in_scope_shapes s Is) as [Ts [u [t [_ [G _]]]]].
  exists s. cbn [v_show Entry.v mk_vops]. unfold VLayer.parse. rewrite Ts, G. reflexivity.
Qed.

(* the class is not empty of interest: examples of every form *)
Example in_scope_examples :
  forallb in_scope [ $"1"; $"1.0.0"; $"007.2.3.4"; $"1-rc"; $"1.RC2"; $"2.5-SNAPSHOT"; $"1.2-cr01";
                     $"3-a1"; $"3.1.B2"; $"1.0.1-m3"; $"1-alpha0"; $"123456789012345678.1-beta9";
                     $"1234567890123456789"; $"1.18446744073709551616"; $"9223372036854775808.0.1";
                     $"1.99999999999999999999-rc100000000000000000000"; $"1-a00000000000000000001";
                     $"123456789012345678901234567890.1-beta99999999999999999999" ]
  = true /\
  forallb (fun s => negb (in_scope s))
          [ $""; $"1."; $"1.2.3.4.5"; $"1.0-rc1"; $"1-a"; $"1-sp"; $"1-rc-1"; $"1-rc.1"; $"1-jre"; $"1-1";
            $"1-rc1x"; $"v1"; $"1 "; $"0-rc"; $"00000000000000000000-rc"; $"1.00000000000000000000.b2";
            $"18446744073709551616-sp"; $"1-rc18446744073709551616x" ] = true.
Proof. vm_compute. split; reflexivity. Qed.

Example in_scope_examples_conventional :
  forallb MavenCV.spec_valid
    [ $"1"; $"1.0.0"; $"007.2.3.4"; $"1-rc"; $"1.RC2"; $"2.5-SNAPSHOT"; $"1.2-cr01";
      $"3-a1"; $"3.1.B2"; $"1.0.1-m3"; $"1-alpha0"; $"123456789012345678.1-beta9";
      $"1234567890123456789"; $"1.18446744073709551616"; $"9223372036854775808.0.1";
      $"1.99999999999999999999-rc100000000000000000000"; $"1-a00000000000000000001";
      $"123456789012345678901234567890.1-beta99999999999999999999" ] = true.
Proof. vm_compute. reflexivity. Qed.

(* ================= outside the class: the implementation deviates ================= *)

Definition deviates (a b : bytes) : Prop :=
  MavenCV.spec_valid a = true /\ MavenCV.spec_valid b = true /\
  exists x y, v_cmp Entry.v a b = Some x /\ MavenCV.spec_cmp a b = Some y /\ x <> y.

Ltac refute := unfold deviates; split; [vm_compute; reflexivity|split; [vm_compute; reflexivity|]];
  eexists; eexists; split; [vm_compute; reflexivity|split; [vm_compute; reflexivity|discriminate]].

(* "sp" sorts above every number in the implementation, below in the reference *)
Lemma maven_cmp_is_spec_refuted_sp : deviates $"1-sp" $"1.0.1".
Proof. refute. Qed.
(* unknown qualifiers sort below the release in the implementation, above it in the reference *)
Lemma maven_cmp_is_spec_refuted_unknown_qualifier : deviates $"1.0-jre" $"1.0".
Proof. refute. Qed.
(* '.' and '-' are the same separator for the implementation *)
Lemma maven_cmp_is_spec_refuted_dash_number : deviates $"1.0.1" $"1.0-1".
Proof. refute. Qed.
(* zeros before a qualifier are kept by the implementation, dropped by the reference *)
Lemma maven_cmp_is_spec_refuted_zero_before_qualifier : deviates $"99-cr" $"99.0.cr".
Proof. refute. Qed.
(* a qualifier's number that is separated rather than glued *)
Lemma maven_cmp_is_spec_refuted_separated_number : deviates $"10.milestone-9" $"10-m9".
Proof. refute. Qed.
(* a release word in the middle *)
Lemma maven_cmp_is_spec_refuted_release_word : deviates $"0.0-ga.1" $"0.0.1".
Proof. refute. Qed.
(* the non-zero side condition of [in_scope] is needed *)
Lemma maven_cmp_is_spec_refuted_zero_condition : deviates $"1.0-rc1" $"1-rc1".
Proof. refute. Qed.

Print Assumptions maven_cmp_is_spec.
Print Assumptions maven_accepts_spec_valid.
Print Assumptions maven_cmp_is_spec_refuted_sp.
