(* Eco/Maven/Version.v — model of pkg/ecosystem/maven/version.go (definitions only). *)
From Verif.Base Require Import Bytes GoNum Ord.
From Verif.Gen Require Tables.
From Verif.Eco Require Import VLayer.
Local Open Scope N_scope.

(* type element struct { value interface{}; isNumber bool } *)
Inductive elem := Num (z : Z) | Str (s : bytes).

Definition core := list elem.

(* ---------- isValidMavenVersion ---------- *)

Definition knownQualifiers : list bytes :=
  [ $"alpha"; $"beta"; $"milestone"; $"rc"; $"snapshot"; $"ga"; $"final"; $"release"; $"sp" ].

Definition single_letter (t : bytes) : bool := beq t $"a" || beq t $"b" || beq t $"m".

Definition valid (t : bytes) : bool :=
  let lower := to_lower t in
  existsb is_digit t
  || existsb (fun q => contains_sub q lower) knownQualifiers
  || single_letter t.

(* ---------- tokenize ---------- *)

Definition is_sep (c : ascii) : bool := ceqb c "."%char || ceqb c "-"%char.

Definition transition (prev : option ascii) (c : ascii) : bool :=
  match prev with
  | Some p => (is_digit p && is_letter c) || (is_letter p && is_digit c)
  | None => false
  end.

Definition cons_ne (cur : bytes) (rest : list bytes) : list bytes :=
  match cur with [] => rest | _ => cur :: rest end.

(* [tok prev s] = (the bytes of s that continue the token open at its start, the later tokens) *)
Fixpoint tok (prev : option ascii) (s : bytes) : bytes * list bytes :=
  match s with
  | [] => ([], [])
  | c :: s' =>
      let (cur, rest) := tok (Some c) s' in
      if is_sep c then ([], cons_ne cur rest)
      else if transition prev c then ([], (c :: cur) :: rest)
      else (c :: cur, rest)
  end.

Definition tokenize (t : bytes) : list bytes :=
  let (cur, rest) := tok None t in cons_ne cur rest.

(* ---------- normalizeQualifier ---------- *)

Definition normalizeQualifier (s : bytes) : bytes :=
  let lower := to_lower s in
  if beq lower $"a" then $"alpha"
  else if beq lower $"b" then $"beta"
  else if beq lower $"m" then $"milestone"
  else if beq lower $"cr" then $"rc"
  else if beq lower $"ga" || beq lower $"final" || beq lower $"release" then []
  else lower.

(* new(big.Int).SetString(s, 10): optional sign, at least one digit, any length *)
Definition big_of (s : bytes) : option Z :=
  match s with
  | [] => None
  | c :: r =>
      if ceqb c "-"%char then
        if nonempty_digits r then Some (- Z.of_N (digits_val r))%Z else None
      else
        let d := if ceqb c "+"%char then r else s in
        if nonempty_digits d then Some (Z.of_N (digits_val d)) else None
  end.

Definition elem_of (part : bytes) : elem :=
  let n := normalizeQualifier part in
  match big_of n with
  | Some z => Num z
  | None => Str n
  end.

(* ---------- trimTrailingNulls ---------- *)

Definition isNullElement (e : elem) : bool :=
  match e with
  | Num z => (z =? 0)%Z
  | Str s => beq s [] || beq s $"final" || beq s $"ga" || beq s $"release"
  end.

Fixpoint drop_while_e (p : elem -> bool) (l : list elem) : list elem :=
  match l with
  | e :: l' => if p e then drop_while_e p l' else l
  | [] => []
  end.

Definition trimTrailingNulls (l : list elem) : list elem :=
  rev (drop_while_e isNullElement (rev l)).

Definition parseVersionString (t : bytes) : core :=
  trimTrailingNulls (map elem_of (tokenize t)).

Definition parse_core (t : bytes) : option core :=
  match t with
  | [] => None
  | _ => if valid t then Some (parseVersionString t) else None
  end.

(* ---------- Compare ---------- *)

(* generated from the Go source on every run (tools/gen -> Gen/Tables.v) *)
Definition qualifierOrder : list (bytes * Z) :=
  Eval cbv delta [Verif.Gen.Tables.maven_qualifierOrder] in Verif.Gen.Tables.maven_qualifierOrder.

(* number against string: the empty string (release) and "sp" are greater than any number *)
Definition above_numbers (s : bytes) : bool := beq s [] || beq s $"sp".

Definition compareElements (e1 e2 : elem) : comparison :=
  match e1, e2 with
  | Num n1, Num n2 => Z.compare n1 n2
  | Num _, Str s2 => if above_numbers s2 then Lt else Gt
  | Str s1, Num _ => if above_numbers s1 then Gt else Lt
  | Str s1, Str s2 =>
      match lookup s1 qualifierOrder, lookup s2 qualifierOrder with
      | None, None => bytes_cmp s1 s2
      | None, Some _ => Gt
      | Some _, None => Lt
      | Some o1, Some o2 => Z.compare o1 o2
      end
  end.

(* missing positions are the "null element" {0, isNumber} *)
Definition null_elem : elem := Num 0.

Definition cmp_core (a b : core) : comparison := lex_pad null_elem compareElements a b.

Definition raw_orig := true.

Definition ver := VLayer.ver core.
Definition parse : bytes -> option ver := VLayer.parse parse_core raw_orig.
Definition cmp : ver -> ver -> comparison := VLayer.cmp cmp_core.
Definition show : ver -> bytes := VLayer.show.
