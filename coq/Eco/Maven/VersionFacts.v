(* Eco/Maven/VersionFacts.v — order facts about the maven Compare model.
   FINDING: Compare is NOT transitive on parsed versions (cmp_not_transitive).  It is
   reflexive and antisymmetric everywhere, and a total preorder on each of two classes:
     A  [no_unknown]     : every string element is a qualifier of the rank table
     B  [no_release_sp]  : no element is the release marker "" or "sp"
   (a cycle needs a number, an unknown qualifier and one of ""/"sp" at the same position). *)
From Coq Require Import Lia.
From Verif.Base Require Import Bytes BytesFacts GoNum Ord.
From Verif.Eco.Maven Require Import LexPadFacts DecFacts.
From Verif.Eco Require Import VLayer VLayerFacts.
From Verif.Eco.Maven Require Import Version.

(* ---------- the counterexample ---------- *)

Lemma cmp_not_transitive :
  exists a b c va vb vc,
    a = $"1-foo" /\ b = $"1-5" /\ c = $"1-sp" /\
    parse a = Some va /\ parse b = Some vb /\ parse c = Some vc /\
    cmp va vb = Lt /\ cmp vb vc = Lt /\ cmp va vc = Gt.
Proof.
  do 3 eexists.
  eexists (Build_ver _ _ _), (Build_ver _ _ _), (Build_ver _ _ _).
  repeat split; vm_compute; reflexivity.
Qed.

Lemma cmp_core_not_tp : ~ TotalPreorder cmp_core.
Proof.
  intros T.
  pose proof (tp_trans T [Num 1; Str $"foo"] [Num 1; Num 5] [Num 1; Str $"sp"]
                (x := Lt) eq_refl eq_refl) as H.
  vm_compute in H. discriminate.
Qed.

Lemma cmp_not_tp : ~ TotalPreorder cmp.
Proof.
  intros T.
  pose proof (tp_trans T (Build_ver _ [Num 1; Str $"foo"] []) (Build_ver _ [Num 1; Num 5] [])
                (Build_ver _ [Num 1; Str $"sp"] []) (x := Lt) eq_refl eq_refl) as H.
  vm_compute in H. discriminate.
Qed.

(* ---------- what holds for all values: reflexivity, antisymmetry ---------- *)

Lemma compareElements_refl e : compareElements e e = Eq.
Proof.
  destruct e as [z|s]; cbn [compareElements].
  - apply Z.compare_refl.
  - destruct (lookup s qualifierOrder); [apply Z.compare_refl|apply (tp_refl TP_bytes_cmp)].
Qed.

Lemma compareElements_anti x y : compareElements y x = CompOpp (compareElements x y).
Proof.
  destruct x as [z1|s1]; destruct y as [z2|s2]; cbn [compareElements].
  - apply Z.compare_antisym.
  - destruct (above_numbers s2); reflexivity.
  - destruct (above_numbers s1); reflexivity.
  - destruct (lookup s1 qualifierOrder), (lookup s2 qualifierOrder); try reflexivity.
    + apply Z.compare_antisym.
    + apply (tp_anti TP_bytes_cmp).
Qed.

Lemma cmp_core_refl a : cmp_core a a = Eq.
Proof. apply lex_pad_l_refl_gen, compareElements_refl. Qed.

Lemma cmp_core_anti a b : cmp_core b a = CompOpp (cmp_core a b).
Proof. apply lex_pad_anti_gen, compareElements_anti. Qed.

Lemma cmp_refl v : cmp v v = Eq.
Proof. apply cmp_core_refl. Qed.

Lemma cmp_anti a b : cmp b a = CompOpp (cmp a b).
Proof. apply cmp_core_anti. Qed.

(* ---------- the rank table ---------- *)

Lemma lookup_In {A} s (t : list (bytes * A)) o : lookup s t = Some o -> In (s, o) t.
Proof.
  induction t as [|[k v] t IH]; cbn [lookup]; [discriminate|].
  destruct (beq s k) eqn:E.
  - apply beq_eq in E. subst k. intros H. injection H as <-. left. reflexivity.
  - intros H. right. apply IH. exact H.
Qed.

Lemma lookup_cases s o : lookup s qualifierOrder = Some o -> In (s, o) qualifierOrder.
Proof. apply lookup_In. Qed.

(* The table is generated from the Go source; nothing below depends on its literal numbers,
   only on their relative order (and equalities) and on which names are listed.  The least
   and the greatest rank are computed from the table. *)
Definition rank_lo : Z :=
  fold_right (fun p m => Z.min (snd p) m)
             (match qualifierOrder with p :: _ => snd p | [] => 0%Z end) qualifierOrder.
Definition rank_hi : Z :=
  fold_right (fun p m => Z.max (snd p) m)
             (match qualifierOrder with p :: _ => snd p | [] => 0%Z end) qualifierOrder.

Lemma ranks_within :
  forallb (fun p : bytes * Z => Z.leb rank_lo (snd p) && Z.leb (snd p) rank_hi) qualifierOrder = true.
Proof. vm_compute. reflexivity. Qed.

Lemma lookup_bound s o : lookup s qualifierOrder = Some o -> (rank_lo <= o <= rank_hi)%Z.
Proof.
  intros H. apply lookup_cases in H.
  pose proof ranks_within as W. rewrite forallb_forall in W. specialize (W _ H).
  cbn [snd] in W. apply andb_true_iff in W. destruct W as [W1 W2].
  apply Z.leb_le in W1. apply Z.leb_le in W2. split; assumption.
Qed.

(* The reference ranking of the listed names (Maven: alpha < beta < milestone < rc < snapshot <
   release < sp, with the aliases a, b, m, cr and ga/final/release).  [ranks_iso] says that
   the generated table lists exactly these names and that its numbers order them as the
   reference ranks do: equal reference ranks <-> equal numbers, smaller <-> smaller.  Any
   order-preserving renumbering of the Go map satisfies it; swapping two ranks does not. *)
Definition ref_ranks : list (bytes * N) :=
  [ ($"alpha", 1); ($"a", 1); ($"beta", 2); ($"b", 2); ($"milestone", 3); ($"m", 3);
    ($"rc", 4); ($"cr", 4); ($"snapshot", 5);
    ([], 6); ($"ga", 6); ($"final", 6); ($"release", 6); ($"sp", 7) ]%N.

Definition comparison_eqb (a b : comparison) : bool :=
  match a, b with Eq, Eq | Lt, Lt | Gt, Gt => true | _, _ => false end.

Lemma comparison_eqb_eq a b : comparison_eqb a b = true -> a = b.
Proof. destruct a; destruct b; simpl; congruence. Qed.

Definition ranks_iso (table : list (bytes * Z)) : bool :=
  forallb (fun p => mem (fst p) (map fst ref_ranks)) table &&
  forallb (fun r1 : bytes * N =>
    forallb (fun r2 : bytes * N =>
      match lookup (fst r1) table, lookup (fst r2) table with
      | Some o1, Some o2 => comparison_eqb (Z.compare o1 o2) (N.compare (snd r1) (snd r2))
      | _, _ => false
      end) ref_ranks) ref_ranks.

Lemma qualifierOrder_ranks_iso : ranks_iso qualifierOrder = true.
Proof. vm_compute. reflexivity. Qed.

Lemma ranks_iso_spec table s1 n1 s2 n2 :
  ranks_iso table = true -> In (s1, n1) ref_ranks -> In (s2, n2) ref_ranks ->
  exists o1 o2, lookup s1 table = Some o1 /\ lookup s2 table = Some o2 /\
                (o1 ?= o2)%Z = (n1 ?= n2)%N.
Proof.
  unfold ranks_iso. intros H I1 I2. apply andb_true_iff in H. destruct H as [_ H].
  rewrite forallb_forall in H. specialize (H _ I1). rewrite forallb_forall in H.
  specialize (H _ I2). cbn [fst snd] in H.
  destruct (lookup s1 table) as [o1|]; [|discriminate].
  destruct (lookup s2 table) as [o2|]; [|discriminate].
  exists o1, o2. repeat split. apply comparison_eqb_eq, H.
Qed.

(* a name has a rank in the table iff it is one of the reference names *)
Lemma ranks_iso_listed table s :
  ranks_iso table = true -> (lookup s table <> None <-> In s (map fst ref_ranks)).
Proof.
  unfold ranks_iso. intros H. apply andb_true_iff in H. destruct H as [M H]. split.
  - intros L. destruct (lookup s table) as [o|] eqn:E; [|contradiction].
    apply lookup_In in E. rewrite forallb_forall in M. specialize (M _ E). cbn [fst] in M.
    unfold mem in M. apply existsb_exists in M. destruct M as [k [Ik Ek]].
    apply beq_eq in Ek. subst k. exact Ik.
  - intros I. apply in_map_iff in I. destruct I as [[k n] [E I]]. cbn [fst] in E. subst k.
    rewrite forallb_forall in H. specialize (H _ I). rewrite forallb_forall in H.
    specialize (H _ I). cbn [fst] in H. destruct (lookup s table); [discriminate|discriminate H].
Qed.

(* ---------- class A: no unknown qualifier ---------- *)

(* the three aliases of the release marker never survive normalizeQualifier; as raw
   elements they would be Eq to "" and yet below the numbers *)
Definition release_alias (s : bytes) : bool := mem s [ $"ga"; $"final"; $"release" ].

Definition elem_known (e : elem) : bool :=
  match e with
  | Num _ => true
  | Str s => match lookup s qualifierOrder with
             | Some _ => negb (release_alias s)
             | None => false
             end
  end.

Definition no_unknown (c : core) : bool := forallb elem_known c.

(* alpha < beta < milestone < rc < snapshot < numbers < "" < sp.
   The key is (class, rank-or-number): class 0 = qualifiers below the numbers, 1 = numbers,
   2 = "" and sp (above the numbers), 3 = not in the table.  Within a class of qualifiers the
   table's own rank decides, so no literal rank number appears here. *)
Definition keyA (e : elem) : Z * Z :=
  match e with
  | Num z => (1, z)%Z
  | Str s => match lookup s qualifierOrder with
             | Some o => if above_numbers s then (2, o)%Z else (0, o)%Z
             | None => (3, 0)%Z
             end
  end.

Definition ecmpA : elem -> elem -> comparison := cmp_on keyA (lex2 Z.compare Z.compare).

Lemma ecmpA_tp : TotalPreorder ecmpA.
Proof. apply TP_on, TP_lex2; apply TP_Z. Qed.

Lemma known_cases s :
  elem_known (Str s) = true ->
  In s [ $"alpha"; $"a"; $"beta"; $"b"; $"milestone"; $"m"; $"rc"; $"cr"; $"snapshot"; []; $"sp" ].
Proof.
  unfold elem_known. destruct (lookup s qualifierOrder) as [o|] eqn:L; [|discriminate].
  apply lookup_cases in L. unfold qualifierOrder in L. simpl in L.
  intros R.
  repeat (destruct L as [L|L];
          [injection L as <- _; first [ simpl; tauto | vm_compute in R; discriminate ]|]).
  contradiction.
Qed.

Lemma compareElements_A x y :
  elem_known x = true -> elem_known y = true -> compareElements x y = ecmpA x y.
Proof.
  destruct x as [z1|s1]; destruct y as [z2|s2]; intros Hx Hy.
  - reflexivity.
  - apply known_cases in Hy. simpl in Hy.
    repeat (destruct Hy as [Hy|Hy]; [subst s2; reflexivity|]). contradiction.
  - apply known_cases in Hx. simpl in Hx.
    repeat (destruct Hx as [Hx|Hx]; [subst s1; vm_compute; destruct z2; reflexivity|]). contradiction.
  - apply known_cases in Hx. apply known_cases in Hy. simpl in Hx, Hy.
    repeat (destruct Hx as [Hx|Hx]; [subst s1|]); try contradiction;
    repeat (destruct Hy as [Hy|Hy]; [subst s2; vm_compute; reflexivity|]); contradiction.
Qed.

Theorem cmp_core_tpo : TotalPreorderOn (fun c => no_unknown c = true) cmp_core.
Proof.
  unfold cmp_core, no_unknown.
  apply (TPO_lex_pad _ null_elem elem_known compareElements ecmpA).
  - reflexivity.
  - apply compareElements_A.
  - apply ecmpA_tp.
Qed.

Theorem cmp_tpo : TotalPreorderOn (fun v => no_unknown (v_core v) = true) cmp.
Proof. apply (TPO_on _ _ (@v_core core) _ cmp_core cmp_core_tpo). Qed.

Local Arguments lookup : simpl never.

(* ---------- class B: neither the release marker nor "sp" ---------- *)

Definition elem_below (e : elem) : bool :=
  match e with
  | Num _ => true
  | Str s => negb (above_numbers s)
  end.

Definition no_release_sp (c : core) : bool := forallb elem_below c.

(* alpha < beta < milestone < rc < snapshot < unknown qualifiers (bytewise) < numbers.
   Key ((class, rank-or-number), name): class 0 = qualifiers of the table (ordered by the
   table's own rank), 1 = unknown qualifiers (ordered bytewise), 2 = numbers. *)
Definition keyB (e : elem) : (Z * Z) * bytes :=
  match e with
  | Num z => ((2, z)%Z, [])
  | Str s => match lookup s qualifierOrder with
             | Some o => ((0, o)%Z, [])
             | None => ((1, 0)%Z, s)
             end
  end.

Definition ecmpB : elem -> elem -> comparison :=
  cmp_on keyB (lex2 (lex2 Z.compare Z.compare) bytes_cmp).

Lemma ecmpB_tp : TotalPreorder ecmpB.
Proof. apply TP_on, TP_lex2; [apply TP_lex2; apply TP_Z|apply TP_bytes_cmp]. Qed.

Lemma compareElements_B x y :
  elem_below x = true -> elem_below y = true -> compareElements x y = ecmpB x y.
Proof.
  unfold ecmpB, cmp_on, lex2.
  destruct x as [z1|s1]; destruct y as [z2|s2];
    cbn [compareElements keyB elem_below]; intros Hx Hy.
  - cbn [fst snd]. change (2 ?= 2)%Z with Eq. cbn [thenc bytes_cmp].
    destruct (z1 ?= z2)%Z; reflexivity.
  - apply negb_true_iff in Hy. rewrite Hy.
    destruct (lookup s2 qualifierOrder) as [o|]; reflexivity.
  - apply negb_true_iff in Hx. rewrite Hx.
    destruct (lookup s1 qualifierOrder) as [o|]; reflexivity.
  - destruct (lookup s1 qualifierOrder) as [o1|];
    destruct (lookup s2 qualifierOrder) as [o2|]; cbn [fst snd]; try reflexivity.
    change (0 ?= 0)%Z with Eq. cbn [thenc bytes_cmp]. destruct (o1 ?= o2)%Z; reflexivity.
Qed.

Theorem cmp_core_tpo_B : TotalPreorderOn (fun c => no_release_sp c = true) cmp_core.
Proof.
  unfold cmp_core, no_release_sp.
  apply (TPO_lex_pad _ null_elem elem_below compareElements ecmpB).
  - reflexivity.
  - apply compareElements_B.
  - apply ecmpB_tp.
Qed.

Theorem cmp_tpo_B : TotalPreorderOn (fun v => no_release_sp (v_core v) = true) cmp.
Proof. apply (TPO_on _ _ (@v_core core) _ cmp_core cmp_core_tpo_B). Qed.

Print Assumptions cmp_not_transitive.
Print Assumptions cmp_core_tpo.
Print Assumptions cmp_tpo.
Print Assumptions cmp_core_tpo_B.
Print Assumptions cmp_tpo_B.
Print Assumptions cmp_core_anti.

(* ================= C03: numeric tuples and markers ================= *)


(* ---------- tokenizing dotted digit strings ---------- *)

Definition not_letter_prev (prev : option ascii) : Prop :=
  match prev with Some p => is_letter p = false | None => True end.

Lemma digit_not_sep c : is_digit c = true -> is_sep c = false.
Proof.
  intros H. apply digit_cases in H. simpl in H.
  repeat (destruct H as [H|H]; [subst c; reflexivity|]). contradiction.
Qed.

Lemma transition_digit prev c :
  not_letter_prev prev -> is_digit c = true -> transition prev c = false.
Proof.
  intros Hp Hc. destruct prev as [p|]; [|reflexivity]. simpl in *.
  rewrite Hp, (digit_not_letter c Hc), andb_false_r. reflexivity.
Qed.

(* a run of digits followed by the end or by a separator is one token *)
Lemma tok_digits_end d : forall prev,
  forallb is_digit d = true -> not_letter_prev prev -> tok prev d = (d, []).
Proof.
  induction d as [|c d IH]; intros prev Hd Hp; [reflexivity|].
  simpl in Hd. apply andb_true_iff in Hd. destruct Hd as [Hc Hd].
  cbn [tok]. rewrite (IH (Some c) Hd (digit_not_letter c Hc)).
  rewrite (digit_not_sep c Hc), (transition_digit prev c Hp Hc). reflexivity.
Qed.

Lemma tok_digits_sep d sep rest : forall prev,
  forallb is_digit d = true -> not_letter_prev prev -> is_sep sep = true ->
  tok prev (d ++ sep :: rest) =
    (d, cons_ne (fst (tok (Some sep) rest)) (snd (tok (Some sep) rest))).
Proof.
  induction d as [|c d IH]; intros prev Hd Hp Hs.
  - cbn [app tok]. destruct (tok (Some sep) rest) as [cur r]. rewrite Hs. reflexivity.
  - simpl in Hd. apply andb_true_iff in Hd. destruct Hd as [Hc Hd].
    cbn [app tok]. rewrite (IH (Some c) Hd (digit_not_letter c Hc) Hs).
    rewrite (digit_not_sep c Hc), (transition_digit prev c Hp Hc). reflexivity.
Qed.

(* the tokens of  d1.d2.....dn ++ sfx  where sfx is empty or starts with a separator *)
Definition sfx_tokens (sfx : bytes) : list bytes :=
  match sfx with
  | [] => []
  | sep :: rest => cons_ne (fst (tok (Some sep) rest)) (snd (tok (Some sep) rest))
  end.

Definition sfx_ok (sfx : bytes) : Prop :=
  match sfx with [] => True | sep :: _ => is_sep sep = true end.

Lemma tok_join d ds sfx : forall prev,
  Forall (fun x => nonempty_digits x = true) (d :: ds) -> not_letter_prev prev -> sfx_ok sfx ->
  tok prev (join $"." (d :: ds) ++ sfx) = (d, ds ++ sfx_tokens sfx).
Proof.
  revert d. induction ds as [|d2 ds IH]; intros d prev HF Hp Hs.
  - cbn [join]. inversion HF as [|? ? Hd _]; subst.
    apply nonempty_digits_spec in Hd. destruct Hd as [_ Hd].
    destruct sfx as [|sep rest].
    + rewrite app_nil_r. apply tok_digits_end; assumption.
    + apply tok_digits_sep; assumption.
  - inversion HF as [|? ? Hd HF']; subst.
    apply nonempty_digits_spec in Hd. destruct Hd as [_ Hd].
    change (join $"." (d :: d2 :: ds)) with (d ++ "."%char :: join $"." (d2 :: ds)).
    set (J := join $"." (d2 :: ds)) in *.
    replace ((d ++ "."%char :: J) ++ sfx) with (d ++ "."%char :: (J ++ sfx))
      by (rewrite <- app_assoc; reflexivity).
    rewrite (tok_digits_sep d "."%char _ prev Hd Hp eq_refl).
    subst J. rewrite (IH d2 (Some "."%char) HF' eq_refl Hs). cbn [fst snd].
    inversion HF' as [|? ? Hd2 _]; subst.
    destruct d2 as [|x d2]; [discriminate|]. reflexivity.
Qed.

Lemma tokenize_join ds sfx :
  ds <> [] -> Forall (fun x => nonempty_digits x = true) ds -> sfx_ok sfx ->
  tokenize (join $"." ds ++ sfx) = ds ++ sfx_tokens sfx.
Proof.
  intros Ne HF Hs. destruct ds as [|d ds]; [contradiction|].
  unfold tokenize. rewrite (tok_join d ds sfx None HF I Hs).
  inversion HF as [|? ? Hd _]; subst. destruct d; [discriminate|]. reflexivity.
Qed.

(* ---------- elements of digit tokens ---------- *)

Definition numN (n : N) : elem := Num (Z.of_N n).

Lemma normalize_digits d : nonempty_digits d = true -> normalizeQualifier d = d.
Proof.
  intros H. apply nonempty_digits_spec in H. destruct H as [Ne Hd].
  unfold normalizeQualifier. rewrite (digits_to_lower d Hd).
  destruct d as [|c r]; [contradiction|].
  simpl in Hd. apply andb_true_iff in Hd. destruct Hd as [Hc _].
  apply digit_cases in Hc. simpl in Hc.
  repeat (destruct Hc as [Hc|Hc]; [subst c; reflexivity|]). contradiction.
Qed.

(* big.Int.SetString on a non-empty digit string: its value, whatever its length *)
Lemma big_of_digits d :
  nonempty_digits d = true -> big_of d = Some (Z.of_N (digits_val d)).
Proof.
  intros Hd. destruct d as [|c r]; [discriminate|].
  unfold big_of.
  assert (Hc : is_digit c = true).
  { simpl in Hd. apply andb_true_iff in Hd. tauto. }
  assert (E1 : ceqb c "-"%char = false).
  { apply digit_cases in Hc. simpl in Hc.
    repeat (destruct Hc as [Hc|Hc]; [subst c; reflexivity|]). contradiction. }
  assert (E2 : ceqb c "+"%char = false).
  { apply digit_cases in Hc. simpl in Hc.
    repeat (destruct Hc as [Hc|Hc]; [subst c; reflexivity|]). contradiction. }
  rewrite E1, E2, Hd. reflexivity.
Qed.

(* a non-empty digit run, of any length (the numbers are parsed with math/big) *)
Definition digit_token (d : bytes) : Prop := nonempty_digits d = true.

Lemma elem_of_digits d : digit_token d -> elem_of d = numN (digits_val d).
Proof.
  intros Hd. unfold elem_of. rewrite (normalize_digits d Hd).
  rewrite (big_of_digits d Hd). reflexivity.
Qed.

Lemma map_elem_of_digits ds :
  Forall digit_token ds -> map elem_of ds = map numN (map digits_val ds).
Proof.
  induction 1 as [|d ds Hd _ IH]; [reflexivity|].
  cbn [map]. rewrite (elem_of_digits d Hd), IH. reflexivity.
Qed.

Lemma Forall_digit_token_nonempty ds :
  Forall digit_token ds -> Forall (fun x => nonempty_digits x = true) ds.
Proof. apply Forall_impl. intros d H. exact H. Qed.

Lemma valid_of_digit t : existsb is_digit t = true -> valid t = true.
Proof. intros H. unfold valid. rewrite H. reflexivity. Qed.

Lemma valid_join ds sfx :
  ds <> [] -> Forall digit_token ds -> valid (join $"." ds ++ sfx) = true.
Proof.
  intros Ne HF. destruct ds as [|d ds]; [contradiction|].
  inversion HF as [|? ? Hd _]; subst. red in Hd.
  destruct d as [|c r]; [discriminate|].
  simpl in Hd. apply andb_true_iff in Hd. destruct Hd as [Hc _].
  apply valid_of_digit.
  destruct ds; cbn [join app existsb]; rewrite Hc; reflexivity.
Qed.

Lemma join_nonempty ds sfx :
  ds <> [] -> Forall digit_token ds -> join $"." ds ++ sfx <> [].
Proof.
  intros Ne HF. destruct ds as [|d ds]; [contradiction|].
  inversion HF as [|? ? Hd _]; subst. red in Hd.
  destruct d as [|c r]; [discriminate|]. destruct ds; discriminate.
Qed.

Lemma parse_core_valid t :
  t <> [] -> valid t = true -> parse_core t = Some (parseVersionString t).
Proof.
  intros Ne V. destruct t as [|c t]; [contradiction|].
  unfold parse_core. rewrite V. reflexivity.
Qed.

(* C03 (a), parsing: a dotted tuple of digit strings is accepted at every arity >= 1 and
   its elements are the numbers, trailing zeros removed *)
Theorem parse_numeric ds :
  ds <> [] -> Forall digit_token ds ->
  parse_core (join $"." ds) = Some (trimTrailingNulls (map numN (map digits_val ds))).
Proof.
  intros Ne HF.
  pose proof (join_nonempty ds [] Ne HF) as NE. pose proof (valid_join ds [] Ne HF) as V.
  rewrite app_nil_r in NE, V.
  rewrite (parse_core_valid _ NE V).
  unfold parseVersionString.
  pose proof (tokenize_join ds [] Ne (Forall_digit_token_nonempty ds HF) I) as T.
  rewrite !app_nil_r in T. rewrite T, (map_elem_of_digits ds HF). reflexivity.
Qed.

(* ---------- comparing numeric element lists ---------- *)

Definition is_num (e : elem) : bool := match e with Num _ => true | Str _ => false end.

Lemma trim_snoc l x :
  trimTrailingNulls (l ++ [x]) = if isNullElement x then trimTrailingNulls l else l ++ [x].
Proof.
  unfold trimTrailingNulls. rewrite rev_unit. cbn [drop_while_e].
  destruct (isNullElement x); [reflexivity|].
  change (x :: rev l) with ([x] ++ rev l). rewrite rev_app_distr, rev_involutive. reflexivity.
Qed.

Lemma cmp_core_trim_l l : forall l2,
  forallb is_num l = true -> cmp_core (trimTrailingNulls l) l2 = cmp_core l l2.
Proof.
  induction l as [|x l IH] using rev_ind; intros l2 H; [reflexivity|].
  rewrite forallb_app in H. apply andb_true_iff in H. destruct H as [Hl Hx].
  rewrite trim_snoc. destruct (isNullElement x) eqn:E; [|reflexivity].
  destruct x as [z|s]; [|discriminate]. simpl in E. apply Z.eqb_eq in E. subst z.
  rewrite (IH l2 Hl). unfold cmp_core. symmetry.
  apply (lex_pad_snoc_pad _ null_elem compareElements). reflexivity.
Qed.

Lemma cmp_core_trim_r l1 l :
  forallb is_num l = true -> cmp_core l1 (trimTrailingNulls l) = cmp_core l1 l.
Proof.
  intros H. rewrite (cmp_core_anti (trimTrailingNulls l) l1), (cmp_core_trim_l l l1 H).
  symmetry. apply cmp_core_anti.
Qed.

Lemma all_num_map t : forallb is_num (map numN t) = true.
Proof. induction t; simpl; auto. Qed.

Lemma cmp_core_nums t1 : forall t2,
  cmp_core (map numN t1) (map numN t2) = lex_pad 0%N N.compare t1 t2.
Proof.
  unfold cmp_core.
  assert (L : forall t, lex_pad_l null_elem compareElements (map numN t) = lex_pad_l 0%N N.compare t).
  { induction t as [|y t IH]; [reflexivity|]. cbn [map lex_pad_l]. rewrite IH.
    cbn [compareElements null_elem numN]. change 0%Z with (Z.of_N 0).
    rewrite N2Z.inj_compare. reflexivity. }
  induction t1 as [|x t1 IH]; intros t2.
  - apply L.
  - destruct t2 as [|y t2]; cbn [map lex_pad].
    + pose proof (IH []) as H0. cbn [map] in H0. rewrite H0.
      cbn [lex_pad compareElements null_elem numN]. change 0%Z with (Z.of_N 0).
      rewrite N2Z.inj_compare. reflexivity.
    + rewrite (IH t2). cbn [compareElements numN]. rewrite N2Z.inj_compare. reflexivity.
Qed.

(* C03 (a), comparison: numeric tuples compare as integer tuples (the shorter one padded with
   zeros; componentwise when the arities agree) *)
Theorem cmp_numeric_pad t1 t2 :
  cmp_core (trimTrailingNulls (map numN t1)) (trimTrailingNulls (map numN t2)) =
  lex_pad 0%N N.compare t1 t2.
Proof.
  rewrite cmp_core_trim_l by apply all_num_map.
  rewrite cmp_core_trim_r by apply all_num_map.
  apply cmp_core_nums.
Qed.

Theorem cmp_numeric t1 t2 :
  length t1 = length t2 ->
  cmp_core (trimTrailingNulls (map numN t1)) (trimTrailingNulls (map numN t2)) =
  lex_short N.compare t1 t2.
Proof. intros H. rewrite cmp_numeric_pad. apply lex_pad_same_length. exact H. Qed.

Theorem c03_numeric ds1 ds2 c1 c2 :
  ds1 <> [] -> ds2 <> [] -> Forall digit_token ds1 -> Forall digit_token ds2 ->
  length ds1 = length ds2 ->
  parse_core (join $"." ds1) = Some c1 -> parse_core (join $"." ds2) = Some c2 ->
  cmp_core c1 c2 = lex_short N.compare (map digits_val ds1) (map digits_val ds2).
Proof.
  intros N1 N2 F1 F2 L P1 P2.
  rewrite (parse_numeric ds1 N1 F1) in P1. rewrite (parse_numeric ds2 N2 F2) in P2.
  injection P1 as <-. injection P2 as <-.
  apply cmp_numeric. rewrite !map_length. exact L.
Qed.

(* the same for tuples printed with %d *)
(* the bound is no longer needed (kept so that the statements that use it stay as they were) *)
Lemma dec_token n : (n < two63)%N -> digit_token (dec n).
Proof. intros _. apply dec_digits. Qed.

Lemma map_dec_val t : map digits_val (map dec t) = t.
Proof. induction t as [|n t IH]; simpl; [reflexivity|]. rewrite dec_val, IH. reflexivity. Qed.

Theorem c03_numeric_dec t1 t2 :
  t1 <> [] -> length t1 = length t2 ->
  Forall (fun n => (n < two63)%N) t1 -> Forall (fun n => (n < two63)%N) t2 ->
  exists c1 c2,
    parse_core (join $"." (map dec t1)) = Some c1 /\
    parse_core (join $"." (map dec t2)) = Some c2 /\
    cmp_core c1 c2 = lex_short N.compare t1 t2.
Proof.
  intros N1 L F1 F2.
  assert (N2 : t2 <> []) by (destruct t1, t2; simpl in *; congruence).
  assert (D : forall t, Forall (fun n => (n < two63)%N) t -> Forall digit_token (map dec t)).
  { induction 1; simpl; constructor; [apply dec_token|]; assumption. }
  assert (M : forall t : list N, t <> [] -> map dec t <> []) by (intros [|] ?; [contradiction|discriminate]).
  exists (trimTrailingNulls (map numN t1)), (trimTrailingNulls (map numN t2)).
  rewrite (parse_numeric _ (M t1 N1) (D t1 F1)), (parse_numeric _ (M t2 N2) (D t2 F2)).
  rewrite !map_dec_val. repeat split. apply cmp_numeric. exact L.
Qed.

(* ---------- C03 (b): markers ---------- *)

(* core level: one more string element after a numeric version *)
Lemma cmp_core_marker nums s :
  forallb is_num nums = true ->
  cmp_core (nums ++ [Str s]) (trimTrailingNulls nums) = if above_numbers s then Gt else Lt.
Proof.
  intros H. rewrite (cmp_core_trim_r _ nums H). unfold cmp_core.
  rewrite lex_pad_app_l by apply compareElements_refl.
  cbn [lex_pad compareElements null_elem]. destruct (above_numbers s); reflexivity.
Qed.

Definition pre_markers : list bytes :=
  [ $"alpha"; $"a"; $"beta"; $"b"; $"milestone"; $"m"; $"rc"; $"cr"; $"snapshot";
    $"SNAPSHOT"; $"RC"; $"Alpha" ].
Definition post_markers : list bytes := [ $"sp"; $"SP" ].
(* qualifiers outside the rank table: below the release in this implementation *)
Definition unknown_markers : list bytes := [ $"jre"; $"foo"; $"android"; $"redhat" ].

Lemma parse_marked ds q s :
  ds <> [] -> Forall digit_token ds ->
  sfx_tokens ("-"%char :: q) = [q] -> elem_of q = Str s -> isNullElement (Str s) = false ->
  parse_core (join $"." ds ++ "-"%char :: q) = Some (map numN (map digits_val ds) ++ [Str s]).
Proof.
  intros Ne HF T E Nn.
  rewrite (parse_core_valid _ (join_nonempty ds _ Ne HF) (valid_join ds _ Ne HF)).
  unfold parseVersionString.
  rewrite (tokenize_join ds ("-"%char :: q) Ne (Forall_digit_token_nonempty ds HF) eq_refl), T.
  rewrite map_app, (map_elem_of_digits ds HF). cbn [map]. rewrite E.
  rewrite trim_snoc, Nn. reflexivity.
Qed.

Lemma marker_cmp ds q s cq c :
  ds <> [] -> Forall digit_token ds ->
  sfx_tokens ("-"%char :: q) = [q] -> elem_of q = Str s -> isNullElement (Str s) = false ->
  parse_core (join $"." ds ++ $"-" ++ q) = Some cq -> parse_core (join $"." ds) = Some c ->
  cmp_core cq c = if above_numbers s then Gt else Lt.
Proof.
  intros Ne HF T E Nn Pq P.
  change ($"-" ++ q) with ("-"%char :: q) in Pq.
  rewrite (parse_marked ds q s Ne HF T E Nn) in Pq. rewrite (parse_numeric ds Ne HF) in P.
  injection Pq as <-. injection P as <-.
  apply cmp_core_marker. apply all_num_map.
Qed.

(* V-alpha, V-rc, V-SNAPSHOT, ... < V *)
Theorem c03_pre ds q cq c :
  ds <> [] -> Forall digit_token ds -> In q pre_markers ->
  parse_core (join $"." ds ++ $"-" ++ q) = Some cq -> parse_core (join $"." ds) = Some c ->
  cmp_core cq c = Lt.
Proof.
  intros Ne HF Hq Pq P. unfold pre_markers in Hq. simpl in Hq.
  repeat (destruct Hq as [Hq|Hq];
    [subst q;
     pose proof (fun s T E Nn => marker_cmp ds _ s cq c Ne HF T E Nn Pq P) as M;
     exact (M _ eq_refl eq_refl eq_refl)|]).
  contradiction.
Qed.

(* V-sp > V *)
Theorem c03_post ds q cq c :
  ds <> [] -> Forall digit_token ds -> In q post_markers ->
  parse_core (join $"." ds ++ $"-" ++ q) = Some cq -> parse_core (join $"." ds) = Some c ->
  cmp_core cq c = Gt.
Proof.
  intros Ne HF Hq Pq P. unfold post_markers in Hq. simpl in Hq.
  repeat (destruct Hq as [Hq|Hq];
    [subst q;
     pose proof (fun s T E Nn => marker_cmp ds _ s cq c Ne HF T E Nn Pq P) as M;
     exact (M _ eq_refl eq_refl eq_refl)|]).
  contradiction.
Qed.

(* FINDING: V-jre < V (Maven's ComparableVersion puts unknown qualifiers ABOVE the release) *)
Theorem unknown_marker_below_release ds q cq c :
  ds <> [] -> Forall digit_token ds -> In q unknown_markers ->
  parse_core (join $"." ds ++ $"-" ++ q) = Some cq -> parse_core (join $"." ds) = Some c ->
  cmp_core cq c = Lt.
Proof.
  intros Ne HF Hq Pq P. unfold unknown_markers in Hq. simpl in Hq.
  repeat (destruct Hq as [Hq|Hq];
    [subst q;
     pose proof (fun s T E Nn => marker_cmp ds _ s cq c Ne HF T E Nn Pq P) as M;
     exact (M _ eq_refl eq_refl eq_refl)|]).
  contradiction.
Qed.

(* V-ga, V-final, V-release = V *)
Theorem c03_release_alias ds q cq c :
  ds <> [] -> Forall digit_token ds -> In q [ $"ga"; $"final"; $"release"; $"GA"; $"Final"; $"RELEASE" ] ->
  parse_core (join $"." ds ++ $"-" ++ q) = Some cq -> parse_core (join $"." ds) = Some c ->
  cq = c.
Proof.
  intros Ne HF Hq Pq P.
  assert (G : forall q, sfx_tokens ("-"%char :: q) = [q] -> elem_of q = Str [] ->
              parse_core (join $"." ds ++ "-"%char :: q) = parse_core (join $"." ds)).
  { intros q0 T E.
    rewrite (parse_core_valid _ (join_nonempty ds _ Ne HF) (valid_join ds _ Ne HF)).
    rewrite (parse_numeric ds Ne HF).
    unfold parseVersionString.
    rewrite (tokenize_join ds ("-"%char :: q0) Ne (Forall_digit_token_nonempty ds HF) eq_refl), T.
    rewrite map_app, (map_elem_of_digits ds HF). cbn [map]. rewrite E.
    rewrite trim_snoc. reflexivity. }
  change ($"-" ++ q) with ("-"%char :: q) in Pq.
  specialize (G q). simpl in Hq.
  repeat (destruct Hq as [Hq|Hq];
    [subst q; rewrite (G eq_refl eq_refl) in Pq; congruence|]).
  contradiction.
Qed.

Print Assumptions c03_numeric.
Print Assumptions c03_numeric_dec.
Print Assumptions c03_pre.
Print Assumptions c03_post.
Print Assumptions unknown_marker_below_release.
Print Assumptions c03_release_alias.


(* ================= parser invariant; Compare = 0 only for identical element lists ========== *)

(* what normalizeQualifier never returns *)
Definition denormal : list bytes := [ $"a"; $"b"; $"m"; $"cr"; $"ga"; $"final"; $"release" ].

Definition wf_elem (e : elem) : bool :=
  match e with Num _ => true | Str s => negb (mem s denormal) end.

Fixpoint last_ok (c : core) : bool :=
  match c with
  | [] => true
  | e :: c' => match c' with [] => negb (isNullElement e) | _ => last_ok c' end
  end.

Definition wf (c : core) : bool := forallb wf_elem c && last_ok c.

Lemma normalize_wf t : mem (normalizeQualifier t) denormal = false.
Proof.
  unfold normalizeQualifier. set (l := to_lower t).
  destruct (beq l $"a") eqn:E1; [reflexivity|].
  destruct (beq l $"b") eqn:E2; [reflexivity|].
  destruct (beq l $"m") eqn:E3; [reflexivity|].
  destruct (beq l $"cr") eqn:E4; [reflexivity|].
  destruct (beq l $"ga") eqn:E5; [reflexivity|].
  destruct (beq l $"final") eqn:E6; [reflexivity|].
  destruct (beq l $"release") eqn:E7; [reflexivity|].
  cbn [orb]. unfold denormal, mem. cbn [existsb].
  rewrite E1, E2, E3, E4, E5, E6, E7. reflexivity.
Qed.

Lemma elem_of_wf t : wf_elem (elem_of t) = true.
Proof.
  unfold elem_of. destruct (big_of (normalizeQualifier t)); [reflexivity|].
  cbn [wf_elem]. rewrite normalize_wf. reflexivity.
Qed.

Lemma last_ok_snoc l x : last_ok (l ++ [x]) = negb (isNullElement x).
Proof.
  induction l as [|y l IH]; [reflexivity|].
  cbn [app last_ok]. destruct (l ++ [x]) eqn:E; [destruct l; discriminate|]. exact IH.
Qed.

Lemma trim_wf l : forallb wf_elem l = true -> wf (trimTrailingNulls l) = true.
Proof.
  induction l as [|x l IH] using rev_ind; intros H; [reflexivity|].
  rewrite forallb_app in H. apply andb_true_iff in H. destruct H as [Hl Hx].
  rewrite trim_snoc. destruct (isNullElement x) eqn:E; [apply IH; exact Hl|].
  unfold wf. rewrite forallb_app, Hl, Hx, last_ok_snoc, E. reflexivity.
Qed.

Theorem parse_core_wf t c : parse_core t = Some c -> wf c = true.
Proof.
  unfold parse_core. destruct t as [|x t]; [discriminate|].
  destruct (valid (x :: t)); [|discriminate]. intros H. injection H as <-.
  unfold parseVersionString. apply trim_wf.
  induction (tokenize (x :: t)) as [|k ks IH]; [reflexivity|].
  cbn [map forallb]. rewrite elem_of_wf. exact IH.
Qed.

Lemma compareElements_eq x y :
  wf_elem x = true -> wf_elem y = true -> compareElements x y = Eq -> x = y.
Proof.
  destruct x as [z1|s1]; destruct y as [z2|s2]; cbn [compareElements]; intros Wx Wy H.
  - apply Z.compare_eq in H. subst. reflexivity.
  - destruct (above_numbers s2); discriminate.
  - destruct (above_numbers s1); discriminate.
  - destruct (lookup s1 qualifierOrder) as [o1|] eqn:L1;
    destruct (lookup s2 qualifierOrder) as [o2|] eqn:L2; try discriminate.
    + apply Z.compare_eq in H. subst o2.
      apply lookup_cases in L1. apply lookup_cases in L2.
      unfold qualifierOrder in L1, L2. simpl in L1, L2.
      repeat (destruct L1 as [L1|L1]; [injection L1 as <- <-|]); try contradiction;
      repeat (destruct L2 as [L2|L2]; [try discriminate L2; injection L2 as <-|]);
      try contradiction; try reflexivity; try discriminate Wx; try discriminate Wy.
    + apply bytes_cmp_eq in H. subst. reflexivity.
Qed.

Lemma last_ok_tail x c : last_ok (x :: c) = true -> last_ok c = true.
Proof. destruct c; [reflexivity|]. cbn [last_ok]. auto. Qed.

(* a non-empty list that compares Eq to the empty one consists of pads, so it ends in a null *)
Lemma pad_l_eq_not_last_ok l :
  l <> [] -> forallb wf_elem l = true ->
  lex_pad_l null_elem compareElements l = Eq -> last_ok l = false.
Proof.
  induction l as [|y l IH]; intros Ne W H; [contradiction|].
  cbn [lex_pad_l] in H. cbn [forallb] in W. apply andb_true_iff in W. destruct W as [Wy Wl].
  destruct (compareElements null_elem y) eqn:E; try discriminate. cbn [thenc] in H.
  apply (compareElements_eq null_elem y eq_refl Wy) in E. subst y.
  destruct l as [|z l]; [reflexivity|].
  cbn [last_ok]. apply IH; [discriminate|exact Wl|exact H].
Qed.

Lemma cmp_core_nil_eq b : wf b = true -> cmp_core [] b = Eq -> b = [].
Proof.
  unfold wf. intros W H. apply andb_true_iff in W. destruct W as [W L].
  destruct b as [|y b]; [reflexivity|].
  rewrite (pad_l_eq_not_last_ok (y :: b)) in L; [discriminate|discriminate|exact W|exact H].
Qed.

Theorem cmp_core_eq_same a : forall b,
  wf a = true -> wf b = true -> cmp_core a b = Eq -> a = b.
Proof.
  induction a as [|x a IH]; intros b Wa Wb H.
  - symmetry. apply cmp_core_nil_eq; assumption.
  - destruct b as [|y b].
    + apply cmp_core_nil_eq; [exact Wa|]. rewrite cmp_core_anti, H. reflexivity.
    + unfold cmp_core in H. cbn [lex_pad] in H.
      unfold wf in Wa, Wb. cbn [forallb] in Wa, Wb.
      apply andb_true_iff in Wa. destruct Wa as [Wa La]. apply andb_true_iff in Wa. destruct Wa as [Wx Wa].
      apply andb_true_iff in Wb. destruct Wb as [Wb Lb]. apply andb_true_iff in Wb. destruct Wb as [Wy Wb].
      destruct (compareElements x y) eqn:E; try discriminate. cbn [thenc] in H.
      apply (compareElements_eq x y Wx Wy) in E. subst y. f_equal.
      apply IH; [| |exact H]; unfold wf; [rewrite Wa|rewrite Wb]; cbn [andb];
        eapply last_ok_tail; eassumption.
Qed.

(* Compare returns 0 only on versions with the same element list ... *)
Theorem cmp_eq_same_core a b va vb :
  parse a = Some va -> parse b = Some vb -> cmp va vb = Eq -> v_core va = v_core vb.
Proof.
  intros Pa Pb H.
  apply (parse_core_of _ parse_core raw_orig) in Pa, Pb.
  apply cmp_core_eq_same; [eapply parse_core_wf; eassumption|eapply parse_core_wf; eassumption|exact H].
Qed.

(* ... hence Compare-equal parsed versions are interchangeable in every comparison, although
   Compare is not transitive *)
Corollary cmp_eq_l a b va vb vc :
  parse a = Some va -> parse b = Some vb -> cmp va vb = Eq -> cmp va vc = cmp vb vc.
Proof.
  intros Pa Pb H. unfold cmp, VLayer.cmp. rewrite (cmp_eq_same_core a b va vb Pa Pb H). reflexivity.
Qed.

Print Assumptions cmp_eq_l.
