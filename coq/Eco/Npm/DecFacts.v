(* Base/DecFacts.v — facts about fmt "%d" ([dec], [dec_z]) and reading it back
   ([digits_val], [atoi]); scanning lemmas for [take_while]/[drop_while] on appended strings. *)
From Coq Require Import Lia.
From Verif.Base Require Import Bytes GoNum BytesFacts.
Local Open Scope N_scope.

Lemma size_nat_size n : N.of_nat (N.size_nat n) = N.size n.
Proof.
  destruct n as [|p]; [reflexivity|]. simpl.
  induction p as [p IH|p IH|]; simpl; try reflexivity;
    rewrite Pos.of_nat_succ in *; lia.
Qed.

Lemma lt_pow_size_nat n : n < 2 ^ N.of_nat (N.size_nat n).
Proof. rewrite size_nat_size. apply N.size_gt. Qed.

Lemma digits_val_fold acc s :
  fold_left (fun a c => a * 10 + digit_val c) s acc
  = acc * 10 ^ N.of_nat (length s) + digits_val s.
Proof.
  unfold digits_val. revert acc. induction s as [|c s IH]; intros acc.
  - simpl. lia.
  - cbn [fold_left length]. rewrite IH. rewrite (IH (0 * 10 + digit_val c)).
    rewrite Nat2N.inj_succ, N.pow_succ_r'. lia.
Qed.

Lemma digits_val_cons c s :
  digits_val (c :: s) = digit_val c * 10 ^ N.of_nat (length s) + digits_val s.
Proof. unfold digits_val at 1. cbn [fold_left]. rewrite digits_val_fold. lia. Qed.

Lemma digit_chr d : d < 10 -> is_digit (chr (48 + d)) = true /\ digit_val (chr (48 + d)) = d.
Proof.
  intros H.
  assert (E : d = 0 \/ d = 1 \/ d = 2 \/ d = 3 \/ d = 4 \/ d = 5 \/ d = 6 \/ d = 7 \/ d = 8 \/ d = 9) by lia.
  repeat (destruct E as [E|E]; [subst d; split; reflexivity|]). subst d; split; reflexivity.
Qed.

Lemma dec_fuel_spec fuel : forall n acc,
  n < 2 ^ N.of_nat fuel -> n <> 0 \/ fuel <> O ->
  exists ds, dec_fuel fuel n acc = ds ++ acc /\ ds <> [] /\ forallb is_digit ds = true
             /\ digits_val ds = n.
Proof.
  induction fuel as [|k IH]; intros n acc Hn Hnz.
  - simpl in Hn. destruct Hnz as [Hnz|Hnz]; [lia|congruence].
  - cbn [dec_fuel]. destruct (n <? 10) eqn:E.
    + apply N.ltb_lt in E. destruct (digit_chr (n mod 10)) as [D1 D2]; [apply N.mod_lt; lia|].
      exists [chr (48 + n mod 10)]. repeat split.
      * discriminate.
      * cbn [forallb]. rewrite D1. reflexivity.
      * unfold digits_val. cbn [fold_left]. rewrite D2. rewrite N.mod_small by lia. reflexivity.
    + apply N.ltb_ge in E.
      rewrite Nat2N.inj_succ, N.pow_succ_r' in Hn.
      destruct (IH (n / 10) (chr (48 + n mod 10) :: acc)) as (ds & E1 & E2 & E3 & E4).
      * apply N.div_lt_upper_bound; [lia|]. lia.
      * left. intros Z. apply N.div_small_iff in Z; lia.
      * destruct (digit_chr (n mod 10)) as [D1 D2]; [apply N.mod_lt; lia|].
        exists (ds ++ [chr (48 + n mod 10)]). repeat split.
        -- rewrite E1, <- app_assoc. reflexivity.
        -- destruct ds; discriminate.
        -- rewrite forallb_app, E3. cbn [forallb]. rewrite D1. reflexivity.
        -- unfold digits_val. rewrite fold_left_app. fold (digits_val ds). rewrite E4.
           cbn [fold_left]. rewrite D2. pose proof (N.div_mod n 10). lia.
Qed.

Lemma dec_spec n :
  dec n <> [] /\ forallb is_digit (dec n) = true /\ digits_val (dec n) = n.
Proof.
  unfold dec.
  destruct (dec_fuel_spec (S (N.size_nat n)) n []) as (ds & E1 & E2 & E3 & E4).
  - rewrite Nat2N.inj_succ, N.pow_succ_r'. pose proof (lt_pow_size_nat n). lia.
  - right. discriminate.
  - rewrite E1, app_nil_r. auto.
Qed.

Lemma dec_nonempty n : dec n <> [].
Proof. apply dec_spec. Qed.
Lemma dec_digits n : forallb is_digit (dec n) = true.
Proof. apply dec_spec. Qed.
Lemma dec_val n : digits_val (dec n) = n.
Proof. apply dec_spec. Qed.

Lemma dec_nonempty_digits n : nonempty_digits (dec n) = true.
Proof.
  unfold nonempty_digits. pose proof (dec_nonempty n). pose proof (dec_digits n).
  destruct (dec n); [contradiction|assumption].
Qed.

Lemma dec_z_of_N n : dec_z (Z.of_N n) = dec n.
Proof. destruct n; reflexivity. Qed.

(* ---------- scanning a run followed by a stopper ---------- *)

Lemma take_while_app_stop p (ds : bytes) c r :
  forallb p ds = true -> p c = false -> take_while p (ds ++ c :: r) = ds.
Proof.
  intros H Hc. induction ds as [|d ds IH]; simpl in *.
  - rewrite Hc. reflexivity.
  - apply andb_true_iff in H. destruct H as [Hd H]. rewrite Hd, (IH H). reflexivity.
Qed.

Lemma drop_while_app_stop p (ds : bytes) c r :
  forallb p ds = true -> p c = false -> drop_while p (ds ++ c :: r) = c :: r.
Proof.
  intros H Hc. induction ds as [|d ds IH]; simpl in *.
  - rewrite Hc. reflexivity.
  - apply andb_true_iff in H. destruct H as [Hd H]. rewrite Hd. apply IH, H.
Qed.

Lemma take_while_all p (ds : bytes) : forallb p ds = true -> take_while p ds = ds.
Proof.
  induction ds as [|d ds IH]; simpl; [reflexivity|]. intros H.
  apply andb_true_iff in H. destruct H as [Hd H]. rewrite Hd, (IH H). reflexivity.
Qed.

Lemma drop_while_all p (ds : bytes) : forallb p ds = true -> drop_while p ds = [].
Proof.
  induction ds as [|d ds IH]; simpl; [reflexivity|]. intros H.
  apply andb_true_iff in H. destruct H as [Hd H]. rewrite Hd. apply IH, H.
Qed.

(* ---------- characters of the fields of a split ---------- *)

Lemma split_c_chars (q : ascii -> bool) sep s :
  forallb (fun part => forallb q part) (split_c sep s) = true ->
  forallb (fun c => q c || ceqb sep c) s = true.
Proof.
  induction s as [|c s IH]; [reflexivity|].
  cbn [split_c forallb]. destruct (ceqb sep c) eqn:E.
  - cbn [forallb]. intros H. rewrite orb_true_r. apply IH, H.
  - destruct (split_c sep s) as [|f fs] eqn:S.
    + cbn [forallb]. intros H. rewrite !andb_true_r in H. rewrite H. apply IH. reflexivity.
    + cbn [forallb]. intros H. apply andb_true_iff in H. destruct H as [H1 H2].
      apply andb_true_iff in H1. destruct H1 as [Hc Hf]. rewrite Hc. apply IH.
      cbn [forallb]. rewrite Hf, H2. reflexivity.
Qed.

Lemma forallb_impl {A} (p q : A -> bool) l :
  (forall x, p x = true -> q x = true) -> forallb p l = true -> forallb q l = true.
Proof.
  intros I. induction l as [|x l IH]; [reflexivity|]. cbn [forallb].
  intros H. apply andb_true_iff in H. destruct H as [H1 H2]. rewrite (I x H1), (IH H2). reflexivity.
Qed.
