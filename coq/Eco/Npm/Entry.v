From Verif.Base Require Import Bytes.
From Verif.Eco Require Import Iface.
From Verif.Eco.Npm Require Version Range.

Definition v : vops := mk_vops Npm.Version.parse_core Npm.Version.cmp_core Npm.Version.raw_orig.
Definition r : rops := {|
  r_show := fun vok s => option_map Npm.Range.show (Npm.Range.parse_range vok s);
  r_contains := fun vok vcmp rg ver =>
    match Npm.Range.parse_range vok rg with
    | Some x => if vok ver then Some (Npm.Range.contains vok vcmp x ver) else None
    | None => None
    end
|}.
Definition entry : eco := {| e_name := $"npm"; e_v := v; e_r := r |}.
