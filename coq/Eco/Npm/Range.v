(* Eco/Npm/Range.v — model of pkg/ecosystem/npm/range.go (definitions only).

   A range is a list of groups (OR) of constraints (AND); a constraint is (operator text,
   version text).  Bounds are stored as text and re-parsed in Contains, exactly as the Go
   code does; only the hyphen form validates its bounds at parse time (through NewVersion,
   i.e. the oracle [vok]); caret and tilde read the FIELDS of the parsed base, for which the
   model calls its own Version.parse. *)
From Verif.Base Require Import Bytes GoNum Ord.
From Verif.Gen Require Operators.
From Verif.Eco Require Import RangeCore VLayer.
From Verif.Eco.Npm Require Import Version.

(* operators := []string{">=", "<=", "!=", ">", "<", "="} *)
(* the list is generated from the Go source on every run (tools/gen -> Gen/Operators.v) *)
Definition npm_ops : list bytes :=
  Eval cbv delta [Verif.Gen.Operators.npm_ops] in Verif.Gen.Operators.npm_ops.

Definition constraint := (bytes * bytes)%type.

(* strings.ContainsAny *)
Definition contains_any (chars s : bytes) : bool :=
  existsb (fun c => existsb (ceqb c) chars) s.

Definition succ64 (z : Z) : Z := wrap64 (z + 1).

(* fmt.Sprintf("%d.%d.%d-0", a, b, c) *)
Definition ver3_0 (a b c : Z) : bytes :=
  dec_z a ++ $"." ++ dec_z b ++ $"." ++ dec_z c ++ $"-0".

(* e.NewVersion(version) of the model itself (TrimSpace included) *)
Definition own_parse (s : bytes) : option core :=
  Version.parse_core (trim_space s).

(* padPartial: completes "1" / "1.2" with zeros and reports how many components were written;
   applied to the raw text after the "^" / "~" (before NewVersion's TrimSpace) *)
Definition pad_partial (s : bytes) : bytes * N :=
  if contains_any $"-+" s then (s, 3%N)
  else match count_c "."%char s with
       | O => (s ++ $".0.0", 1%N)
       | S O => (s ++ $".0", 2%N)
       | _ => (s, 3%N)
       end.

Definition parse_caret (s : bytes) : option (list constraint) :=
  let '(padded, written) := pad_partial s in
  match own_parse padded with
  | None => None
  | Some v =>
      let lo := ($">=", normalize v) in
      if (major v =? 0)%Z && (1 <? written)%N then
        if (minor v =? 0)%Z && (2 <? written)%N
        then Some [lo; ($"<", ver3_0 0 0 (succ64 (patch v)))]
        else Some [lo; ($"<", ver3_0 0 (succ64 (minor v)) 0)]
      else Some [lo; ($"<", ver3_0 (succ64 (major v)) 0 0)]
  end.

Definition parse_tilde (s : bytes) : option (list constraint) :=
  let '(padded, written) := pad_partial s in
  match own_parse padded with
  | None => None
  | Some v =>
      if (written =? 1)%N
      then Some [($">=", normalize v); ($"<", ver3_0 (succ64 (major v)) 0 0)]
      else Some [($">=", normalize v); ($"<", ver3_0 (major v) (succ64 (minor v)) 0)]
  end.

Definition is_x (p : bytes) : bool := beq p $"x" || beq p $"X".

Definition parse_xrange (s : bytes) : option (list constraint) :=
  match split_c "."%char s with
  | [p0; p1] =>
      match atoi p0 with
      | None => None
      | Some ma =>
          if is_x p1
          then Some [($">=", ver3_0 ma 0 0); ($"<", ver3_0 (succ64 ma) 0 0)]
          else None
      end
  | [p0; p1; p2] =>
      match atoi p0 with
      | None => None
      | Some ma =>
          if is_x p2 then
            match atoi p1 with
            | None => None
            | Some mi => Some [($">=", ver3_0 ma mi 0); ($"<", ver3_0 ma (succ64 mi) 0)]
            end
          else None
      end
  | _ => None   (* fewer than two parts, or four and more ("unsupported x-range format") *)
  end.

(* parseSingleConstraint after TrimSpace and the forbidden-character check; the x / X wildcard
   is looked for among the first three dot-separated components only (major, minor, patch): an x
   further on (1.0.0-alpha.x) is an ordinary pre-release or build identifier *)
Definition parse_single_core (c : bytes) : option (list constraint) :=
  if beq c $"*" then Some [($"*", $"*")]
  else if has_prefix $"^" c then parse_caret (skipn 1 c)
  else if has_prefix $"~" c then parse_tilde (skipn 1 c)
  else if existsb is_x (firstn 3 (split_c "."%char c)) then parse_xrange c
  else match first_prefix npm_ops c with
       | Some (op, rest) => Some [(op, trim_space rest)]
       | None => Some [($"=", c)]
       end.

Definition parse_single (c0 : bytes) : option (list constraint) :=
  let c := trim_space c0 in
  if contains_any $"@#$%&!" c then None else parse_single_core c.

Section Npm.
  Variable vok : bytes -> bool.
  Variable vcmp : bytes -> bytes -> comparison.

  Definition parse_hyphen (s : bytes) : option (list constraint) :=
    match split_sub $" - " s with
    | [a; b] =>
        let a := trim_space a in
        let b := trim_space b in
        match a, b with
        | _ :: _, _ :: _ =>
            if vok a && vok b then Some [($">=", a); ($"<=", b)] else None
        | _, _ => None
        end
    | _ => None
    end.

  Fixpoint parse_spaced (parts : list bytes) : option (list constraint) :=
    match parts with
    | [] => Some []
    | p :: r =>
        match parse_single p with
        | None => None
        | Some cs =>
            match parse_spaced r with
            | Some rest => Some (cs ++ rest)
            | None => None
            end
        end
    end.

  (* parseRange *)
  Definition parse_group (s0 : bytes) : option (list constraint) :=
    let s := trim_space s0 in
    let s := trim_prefix $"(" s in
    let s := trim_suffix $")" s in
    if contains_sub $" - " s || has_suffix $" -" s || has_prefix $"- " s
    then parse_hyphen s
    else if contains_c " "%char s && negb (has_prefix $"^" s) && negb (has_prefix $"~" s)
    then parse_spaced (fields s)
    else parse_single s.

  Fixpoint parse_groups (parts : list bytes) : option (list (list constraint)) :=
    match parts with
    | [] => Some []
    | p :: r =>
        match parse_group (trim_space p) with
        | None => None
        | Some g =>
            match parse_groups r with
            | Some gs => Some (g :: gs)
            | None => None
            end
        end
    end.

  Record range := { r_groups : list (list constraint); r_orig : bytes }.

  Definition parse_range (s : bytes) : option range :=
    let t := trim_space s in
    match t with
    | [] => None
    | _ =>
        let gs :=
          if contains_sub $"||" t then parse_groups (split_sub $"||" t)
          else match parse_group t with Some g => Some [g] | None => None end in
        match gs with
        | Some gs => Some {| r_groups := gs; r_orig := t |}
        | None => None
        end
    end.

  (* constraint.matches *)
  Definition matches (v : bytes) (c : constraint) : bool :=
    if beq (fst c) $"*" then true
    else if vok (snd c) then sat (sem6 (fst c)) (vcmp v (snd c))
    else false.

  Definition contains (r : range) (v : bytes) : bool :=
    existsb (fun g => forallb (matches v) g) (r_groups r).

  Definition show (r : range) : bytes := r_orig r.
End Npm.

