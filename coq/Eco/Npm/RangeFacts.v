(* Eco/Npm/RangeFacts.v — properties of the npm range model (Eco/Npm/Range.v), for ARBITRARY
   version oracles [vok] / [vcmp]:
     C02  comparator spellings mean what they say            (npm_c02, npm_c02_bare)
     C05  shorthands = their documented intervals            (star_all, caret_interval,
          tilde_interval, caret_major, caret_minor, tilde_major, tilde_minor
          (partial bases, padPartial), xrange_major, xrange_minor, hyphen_interval, or_union, and_inter)
     C20  membership depends only on the place in the order  (npm_c20_eq, group convexity)
     C18  String() re-parses to the same range               (range_reparse)
   and the finding that "!=" can never be written (ne_rejected). *)
From Coq Require Import Lia.
From Verif.Base Require Import Bytes GoNum Ord BytesFacts.
From Verif.Eco.Npm Require Import DecFacts StrFacts.
From Verif.Eco Require Import RangeCore RangeCoreFacts Iface.
From Verif.Eco.Npm Require Import Version Range VersionFacts.
From Verif.Eco.Npm Require Entry.

(* string literals are [list_ascii_of_string "..."]; normalise them to explicit lists *)
Ltac lits := cbn [list_ascii_of_string] in *.
Ltac rw H := let X := fresh "X" in pose proof H as X; cbn [list_ascii_of_string] in X; rewrite X; clear X.

(* ---------- "plain" texts: no whitespace, none of @#$%&! ( ) | ---------- *)

Definition plain_c (c : ascii) : bool :=
  negb (is_space c) && negb (existsb (ceqb c) $"@#$%&!()|").
Definition plain (s : bytes) : bool := forallb plain_c s.

Lemma plain_c_facts c : plain_c c = true ->
  is_space c = false /\ existsb (ceqb c) $"@#$%&!" = false /\
  ceqb "("%char c = false /\ ceqb ")"%char c = false /\ ceqb "|"%char c = false /\
  ceqb " "%char c = false.
Proof.
  destruct c as [[] [] [] [] [] [] [] []]; vm_compute; intros H; try discriminate; repeat split.
Qed.

Lemma plain_app a b : plain (a ++ b) = plain a && plain b.
Proof. apply forallb_app. Qed.

Lemma plain_no_sp s : plain s = true -> no_sp s = true.
Proof.
  apply forallb_impl. intros c H. apply plain_c_facts in H. destruct H as [H _]. rewrite H. reflexivity.
Qed.

Lemma plain_lacks x s : plain_c x = false -> plain s = true -> contains_c x s = false.
Proof.
  intros Hx. induction s as [|c s IH]; [reflexivity|]. cbn [plain forallb].
  intros H. apply andb_true_iff in H. destruct H as [H1 H2].
  rewrite contains_c_cons, (IH H2), orb_false_r.
  destruct (ceqb x c) eqn:E; [|reflexivity]. apply ceqb_eq in E. subst c. congruence.
Qed.

Lemma plain_contains_any s : plain s = true -> contains_any $"@#$%&!" s = false.
Proof.
  unfold contains_any. induction s as [|c s IH]; [reflexivity|]. cbn [plain forallb existsb].
  intros H. apply andb_true_iff in H. destruct H as [H1 H2].
  apply plain_c_facts in H1. destruct H1 as (_ & H1 & _). rewrite H1, (IH H2). reflexivity.
Qed.

Lemma digit_plain c : is_digit c = true -> plain_c c = true.
Proof. destruct c as [[] [] [] [] [] [] [] []]; vm_compute; auto. Qed.

Lemma digits_plain s : forallb is_digit s = true -> plain s = true.
Proof. apply forallb_impl, digit_plain. Qed.

(* ---------- a plain text is one group holding one constraint ---------- *)

Section Oracles.
  Variable vok : bytes -> bool.
  Variable vcmp : bytes -> bytes -> comparison.

  Notation parse_range := (parse_range vok).
  Notation parse_group := (parse_group vok).
  Notation contains := (contains vok vcmp).
  Notation matches := (matches vok vcmp).

  Lemma parse_single_plain s : plain s = true -> parse_single s = parse_single_core s.
  Proof.
    intros H. unfold parse_single.
    rewrite (trim_space_no_sp s (plain_no_sp s H)), (plain_contains_any s H). reflexivity.
  Qed.

  Lemma parse_group_plain s : plain s = true -> parse_group s = parse_single_core s.
  Proof.
    intros H. unfold Range.parse_group. lits.
    rewrite (trim_space_no_sp s (plain_no_sp s H)).
    rewrite (trim_prefix_lacks "("%char s) by (apply plain_lacks; auto).
    rewrite (trim_suffix_lacks ")"%char s) by (apply plain_lacks; auto).
    assert (S : contains_c " "%char s = false) by (apply plain_lacks; auto).
    rw (contains_sub_lacks " "%char $"- " s S).
    rw (has_suffix_lacks $" -" s " "%char eq_refl S).
    rw (has_prefix_lacks $"- " s " "%char eq_refl S).
    rewrite S. cbn [orb andb]. apply parse_single_plain, H.
  Qed.

  Lemma parse_range_plain s : plain s = true -> s <> [] ->
    parse_range s = match parse_single_core s with
                    | Some g => Some {| r_groups := [g]; r_orig := s |}
                    | None => None
                    end.
  Proof.
    intros H Hne. unfold Range.parse_range.
    rewrite (trim_space_no_sp s (plain_no_sp s H)).
    destruct s as [|c t] eqn:E; [contradiction|]. rewrite <- E in *.
    lits. rewrite (contains_sub_lacks "|"%char ["|"%char] s) by (apply plain_lacks; auto).
    rewrite (parse_group_plain s H). destruct (parse_single_core s); reflexivity.
  Qed.

  Lemma contains_single g o v : contains {| r_groups := [g]; r_orig := o |} v = forallb (matches v) g.
  Proof. unfold Range.contains. cbn [r_groups existsb]. apply orb_false_r. Qed.
End Oracles.

(* ---------- C02: comparators ---------- *)

Definition ops5 : list bytes := [$">="; $"<="; $">"; $"<"; $"="].

(* bound texts in scope: plain, not starting with an operator character, no x/X among the first
   three dot-separated components (major, minor, patch), not the wildcard *)
Definition bound_scope (a : bytes) : bool :=
  plain a
  && match a with [] => false | c :: _ => negb (opchar c) end
  && negb (existsb is_x (firstn 3 (split_c "."%char a)))
  && negb (beq a $"*").

Lemma bound_scope_facts a : bound_scope a = true ->
  plain a = true /\ a <> [] /\ match a with [] => True | c :: _ => opchar c = false end /\
  existsb is_x (firstn 3 (split_c "."%char a)) = false /\ beq a $"*" = false.
Proof.
  unfold bound_scope. rewrite !andb_true_iff, !negb_true_iff.
  intros [[[H1 H2] H3] H4]. repeat split; auto.
  - destruct a; [discriminate|discriminate].
  - destruct a; [exact I|]. apply negb_true_iff in H2. exact H2.
Qed.

Lemma ops_ok_npm : ops_ok npm_ops = true.
Proof. vm_compute. reflexivity. Qed.

Lemma ops5_in_npm op : In op ops5 -> In op npm_ops.
Proof. cbn. intuition. Qed.

Lemma parse_single_core_op op a :
  In op ops5 -> bound_scope a = true -> parse_single_core (op ++ a) = Some [(op, a)].
Proof.
  intros Hin Hs. apply bound_scope_facts in Hs. destruct Hs as (Hp & Hne & Hhd & Hx & Hstar).
  pose proof (first_prefix_hit npm_ops op a ops_ok_npm (ops5_in_npm op Hin) Hhd) as Hfp.
  assert (Hsplit : existsb is_x (firstn 3 (split_c "."%char (op ++ a))) = false).
  { assert (D : contains_c "."%char op = false).
    { cbn in Hin. repeat (destruct Hin as [<-|Hin]; [reflexivity|]). contradiction. }
    rewrite (split_c_prepend "."%char op a D).
    destruct (split_c "."%char a) as [|f fs].
    - cbn in Hin. repeat (destruct Hin as [<-|Hin]; [reflexivity|]). contradiction.
    - cbn [firstn existsb] in *. apply orb_false_iff in Hx. destruct Hx as [_ Hx]. rewrite Hx, orb_false_r.
      cbn in Hin. repeat (destruct Hin as [<-|Hin]; [reflexivity|]). contradiction. }
  unfold parse_single_core. rewrite Hsplit, Hfp.
  rewrite (trim_space_no_sp a (plain_no_sp a Hp)).
  cbn in Hin. repeat (destruct Hin as [<-|Hin]; [reflexivity|]). contradiction.
Qed.

Lemma parse_single_core_bare a :
  bound_scope a = true -> parse_single_core a = Some [($"=", a)].
Proof.
  intros Hs. apply bound_scope_facts in Hs. destruct Hs as (Hp & Hne & Hhd & Hx & Hstar).
  unfold parse_single_core. rewrite Hstar, Hx.
  assert (F : first_prefix npm_ops a = None).
  { apply first_prefix_none; [reflexivity|exact Hhd]. }
  rewrite F.
  destruct a as [|c t]; [contradiction|].
  assert (C1 : ceqb "^"%char c = false).
  { destruct (ceqb "^"%char c) eqn:E; [|reflexivity]. apply ceqb_eq in E. subst c. discriminate. }
  assert (C2 : ceqb "~"%char c = false).
  { destruct (ceqb "~"%char c) eqn:E; [|reflexivity]. apply ceqb_eq in E. subst c. discriminate. }
  lits. cbn [has_prefix]. rewrite C1, C2. reflexivity.
Qed.

Lemma ops5_plain op : In op ops5 -> plain op = true.
Proof. cbn. intros H. repeat (destruct H as [<-|H]; [reflexivity|]). contradiction. Qed.

Lemma ops5_not_star op : In op ops5 -> beq op $"*" = false.
Proof. cbn. intros H. repeat (destruct H as [<-|H]; [reflexivity|]). contradiction. Qed.

Section C02.
  Variable vok : bytes -> bool.
  Variable vcmp : bytes -> bytes -> comparison.

  Theorem npm_c02 op a v :
    In op ops5 -> bound_scope a = true -> vok a = true -> vok v = true ->
    r_contains Npm.Entry.r vok vcmp (op ++ a) v = Some (sat (sem6 op) (vcmp v a)).
  Proof.
    intros Hin Hs Ha Hv.
    pose proof (bound_scope_facts a Hs) as (Hp & Hne & _).
    cbn [r_contains Npm.Entry.r].
    rewrite parse_range_plain.
    - rewrite (parse_single_core_op op a Hin Hs), Hv. f_equal.
      rewrite contains_single. cbn [forallb]. unfold matches. cbn [fst snd].
      rewrite (ops5_not_star op Hin), Ha. apply andb_true_r.
    - rewrite plain_app, (ops5_plain op Hin), Hp. reflexivity.
    - destruct op; [|discriminate]. destruct a; [contradiction|discriminate].
  Qed.

  Theorem npm_c02_bare a v :
    bound_scope a = true -> vok a = true -> vok v = true ->
    r_contains Npm.Entry.r vok vcmp a v = Some (sat CEq (vcmp v a)).
  Proof.
    intros Hs Ha Hv.
    pose proof (bound_scope_facts a Hs) as (Hp & Hne & _).
    cbn [r_contains Npm.Entry.r].
    rewrite parse_range_plain by assumption.
    rewrite (parse_single_core_bare a Hs), Hv. f_equal.
    rewrite contains_single. cbn [forallb]. unfold matches. cbn [fst snd].
    change (beq $"=" $"*") with false. cbv iota. rewrite Ha. apply andb_true_r.
  Qed.
End C02.

(* ---------- C05: the shorthands ---------- *)

Definition ge_lt (vcmp : bytes -> bytes -> comparison) (v lo hi : bytes) : bool :=
  sat CGe (vcmp v lo) && sat CLt (vcmp v hi).

Lemma succ64_small z : (0 <= z < max_int64)%Z -> succ64 z = (z + 1)%Z.
Proof.
  intros H. unfold succ64, wrap64, max_int64 in *.
  change (Z.of_N two64) with 18446744073709551616%Z.
  change (Z.of_N two63) with 9223372036854775808%Z.
  rewrite Z.mod_small by lia.
  destruct (z + 1 <? 9223372036854775808)%Z eqn:E; [reflexivity|].
  apply Z.ltb_ge in E. lia.
Qed.

Lemma atoi_digits_bounds d z : atoi_digits d = Some z -> (0 <= z <= max_int64)%Z.
Proof.
  unfold atoi_digits. destruct (digits_val d <? two63)%N eqn:E; [|discriminate].
  intros H. injection H as <-. apply N.ltb_lt in E. unfold two63, max_int64 in *. lia.
Qed.

(* fields of a parsed version are non-negative int64 *)
Lemma parse_core_bounds t c : parse_core t = Some c ->
  (0 <= major c <= max_int64 /\ 0 <= minor c <= max_int64 /\ 0 <= patch c <= max_int64)%Z.
Proof.
  unfold parse_core.
  destruct (num_dot _) as [[ma r1]|]; [|discriminate].
  destruct (num_dot r1) as [[mi r2]|]; [|discriminate].
  destruct (take_while is_digit r2) as [|p0 pa]; [discriminate|].
  destruct (parse_tail _) as [[pre b]|]; [|discriminate].
  destruct (atoi_digits ma) eqn:E1; [|discriminate].
  destruct (atoi_digits mi) eqn:E2; [|discriminate].
  destruct (atoi_digits (p0 :: pa)) eqn:E3; [|discriminate].
  intros H. injection H as <-. cbn [major minor patch].
  apply atoi_digits_bounds in E1, E2, E3. auto.
Qed.

(* ---------- padPartial ---------- *)

Lemma count_c_app x a b : count_c x (a ++ b) = (count_c x a + count_c x b)%nat.
Proof. unfold count_c. rewrite filter_app, app_length. reflexivity. Qed.

Lemma take_drop (p : ascii -> bool) s : take_while p s ++ drop_while p s = s.
Proof. induction s as [|c s IH]; [reflexivity|]. cbn. destruct (p c); [cbn; rewrite IH|]; reflexivity. Qed.

Lemma take_while_forallb (p : ascii -> bool) s : forallb p (take_while p s) = true.
Proof. induction s as [|c s IH]; [reflexivity|]. cbn. destruct (p c) eqn:E; [cbn; rewrite E, IH|]; reflexivity. Qed.

Lemma count_digits_dot ds : forallb is_digit ds = true -> count_c "."%char ds = O.
Proof.
  induction ds as [|d ds IH]; [reflexivity|]. cbn [forallb]. intros H.
  apply andb_true_iff in H. destruct H as [H1 H2].
  unfold count_c in *. cbn [filter]. rewrite (digit_not "."%char d eq_refl H1). apply IH, H2.
Qed.

Lemma num_dot_count s d r : num_dot s = Some (d, r) -> count_c "."%char s = S (count_c "."%char r).
Proof.
  unfold num_dot. intros H.
  pose proof (take_drop is_digit s) as TD. pose proof (take_while_forallb is_digit s) as TF.
  destruct (take_while is_digit s) as [|d0 dr]; [discriminate|].
  destruct (drop_while is_digit s) as [|c r']; [discriminate|].
  destruct (ceqb c "."%char) eqn:E; [|discriminate]. apply ceqb_eq in E. subst c.
  injection H as <- <-. rewrite <- TD, count_c_app, (count_digits_dot _ TF). reflexivity.
Qed.

Lemma trim_prefix_count x s :
  ceqb "."%char x = false -> count_c "."%char (trim_prefix [x] s) = count_c "."%char s.
Proof.
  intros Hx. unfold trim_prefix. destruct (has_prefix [x] s) eqn:E; [|reflexivity].
  destruct s as [|y s']; [discriminate|]. cbn [has_prefix] in E. rewrite andb_true_r in E.
  apply ceqb_eq in E. subst y. cbn [length skipn]. unfold count_c. cbn [filter]. rewrite Hx. reflexivity.
Qed.

(* an accepted version text has at least two dots, so padPartial leaves it alone *)
Lemma parse_core_two_dots t c : parse_core t = Some c -> (2 <= count_c "."%char t)%nat.
Proof.
  unfold parse_core. lits.
  rewrite <- (trim_prefix_count "v"%char t eq_refl).
  rewrite <- (trim_prefix_count "="%char (trim_prefix ["v"%char] t) eq_refl).
  rewrite <- (trim_prefix_count "v"%char (trim_prefix ["="%char] (trim_prefix ["v"%char] t)) eq_refl).
  destruct (num_dot _) as [[ma r1]|] eqn:E1; [|discriminate].
  destruct (num_dot r1) as [[mi r2]|] eqn:E2; [|discriminate].
  intros _. rewrite (num_dot_count _ _ _ E1), (num_dot_count _ _ _ E2). lia.
Qed.

Lemma pad_partial_full b : (2 <= count_c "."%char b)%nat -> pad_partial b = (b, 3%N).
Proof.
  intros H. unfold pad_partial. destruct (contains_any _ b); [reflexivity|].
  destruct (count_c "."%char b) as [|[|n]]; try lia. reflexivity.
Qed.

Lemma pad_partial_plain b p w : pad_partial b = (p, w) -> plain b = true -> plain p = true.
Proof.
  unfold pad_partial. intros H Hb.
  destruct (contains_any _ b); [injection H as <- _; exact Hb|].
  destruct (count_c "."%char b) as [|[|n]]; injection H as <- _;
    try exact Hb; rewrite plain_app, Hb; reflexivity.
Qed.

Section C05.
  Variable vok : bytes -> bool.
  Variable vcmp : bytes -> bytes -> comparison.

  Notation rcontains := (r_contains Npm.Entry.r vok vcmp).

  (* "*" contains every version *)
  Theorem star_all v : vok v = true -> rcontains $"*" v = Some true.
  Proof. intros Hv. cbn [r_contains Npm.Entry.r]. vm_compute Range.parse_range. rewrite Hv. reflexivity. Qed.

  (* two-bound desugarings *)
  Lemma two_bounds g o v lo hi :
    vok lo = true -> vok hi = true ->
    g = [($">=", lo); ($"<", hi)] ->
    Range.contains vok vcmp {| r_groups := [g]; r_orig := o |} v = ge_lt vcmp v lo hi.
  Proof.
    intros Hlo Hhi ->. rewrite contains_single. cbn [forallb]. unfold matches. cbn [fst snd].
    change (beq $">=" $"*") with false. change (beq $"<" $"*") with false. cbv iota.
    rewrite Hlo, Hhi, andb_true_r. reflexivity.
  Qed.

  (* the documented upper bound of ^M[.m[.p]], [w] = number of components written *)
  Definition caret_upper_w (w : N) (c : core) : bytes :=
    if (major c =? 0)%Z && (1 <? w)%N then
      if (minor c =? 0)%Z && (2 <? w)%N then ver3_0 0 0 (succ64 (patch c))
      else ver3_0 0 (succ64 (minor c)) 0
    else ver3_0 (succ64 (major c)) 0 0.
  Definition caret_upper (c : core) : bytes := caret_upper_w 3 c.

  Theorem caret_interval_gen b p w c v :
    plain b = true -> pad_partial b = (p, w) -> parse_core p = Some c ->
    vok (normalize c) = true -> vok (caret_upper_w w c) = true -> vok v = true ->
    rcontains ("^"%char :: b) v = Some (ge_lt vcmp v (normalize c) (caret_upper_w w c)).
  Proof.
    intros Hp Hpad Hc Hlo Hhi Hv. cbn [r_contains Npm.Entry.r].
    pose proof (pad_partial_plain b p w Hpad Hp) as Pp.
    rewrite parse_range_plain; [| |discriminate].
    - unfold parse_single_core. change (beq ("^"%char :: b) $"*") with
        (ceqb "^"%char "*"%char && beq b []). change (ceqb "^"%char "*"%char) with false.
      cbn [andb]. lits. cbn [has_prefix]. change (ceqb "^"%char "^"%char) with true. cbn [andb skipn].
      unfold parse_caret, own_parse. rewrite Hpad, (trim_space_no_sp p (plain_no_sp p Pp)), Hc.
      unfold caret_upper_w in *.
      destruct ((major c =? 0)%Z && (1 <? w)%N); [destruct ((minor c =? 0)%Z && (2 <? w)%N)|];
        rewrite Hv; f_equal; apply two_bounds; auto.
    - cbn [plain forallb]. fold (plain b). rewrite Hp. reflexivity.
  Qed.

  (* full versions: ^M.m.p *)
  Theorem caret_interval b c v :
    plain b = true -> parse_core b = Some c ->
    vok (normalize c) = true -> vok (caret_upper c) = true -> vok v = true ->
    rcontains ("^"%char :: b) v = Some (ge_lt vcmp v (normalize c) (caret_upper c)).
  Proof.
    intros Hp Hc. apply (caret_interval_gen b b 3%N c v); auto.
    apply pad_partial_full, (parse_core_two_dots b c Hc).
  Qed.

  Definition tilde_upper_w (w : N) (c : core) : bytes :=
    if (w =? 1)%N then ver3_0 (succ64 (major c)) 0 0
    else ver3_0 (major c) (succ64 (minor c)) 0.
  Definition tilde_upper (c : core) : bytes := tilde_upper_w 3 c.

  Theorem tilde_interval_gen b p w c v :
    plain b = true -> pad_partial b = (p, w) -> parse_core p = Some c ->
    vok (normalize c) = true -> vok (tilde_upper_w w c) = true -> vok v = true ->
    rcontains ("~"%char :: b) v = Some (ge_lt vcmp v (normalize c) (tilde_upper_w w c)).
  Proof.
    intros Hp Hpad Hc Hlo Hhi Hv. cbn [r_contains Npm.Entry.r].
    pose proof (pad_partial_plain b p w Hpad Hp) as Pp.
    rewrite parse_range_plain; [| |discriminate].
    - unfold parse_single_core. change (beq ("~"%char :: b) $"*") with
        (ceqb "~"%char "*"%char && beq b []). change (ceqb "~"%char "*"%char) with false.
      cbn [andb]. lits. cbn [has_prefix]. change (ceqb "^"%char "~"%char) with false.
      change (ceqb "~"%char "~"%char) with true. cbn [andb skipn].
      unfold parse_tilde, own_parse. rewrite Hpad, (trim_space_no_sp p (plain_no_sp p Pp)), Hc.
      unfold tilde_upper_w in *.
      destruct (w =? 1)%N; rewrite Hv; f_equal; apply two_bounds; auto.
    - cbn [plain forallb]. fold (plain b). rewrite Hp. reflexivity.
  Qed.

  Theorem tilde_interval b c v :
    plain b = true -> parse_core b = Some c ->
    vok (normalize c) = true -> vok (tilde_upper c) = true -> vok v = true ->
    rcontains ("~"%char :: b) v = Some (ge_lt vcmp v (normalize c) (tilde_upper c)).
  Proof.
    intros Hp Hc. apply (tilde_interval_gen b b 3%N c v); auto.
    apply pad_partial_full, (parse_core_two_dots b c Hc).
  Qed.
End C05.

(* ---------- x-ranges ---------- *)

Lemma forallb_lacks (p : ascii -> bool) s x :
  forallb p s = true -> p x = false -> contains_c x s = false.
Proof.
  intros H Hx. induction s as [|c s IH]; [reflexivity|]. cbn [forallb] in H.
  apply andb_true_iff in H. destruct H as [H1 H2].
  rewrite contains_c_cons, (IH H2), orb_false_r.
  destruct (ceqb x c) eqn:E; [|reflexivity]. apply ceqb_eq in E. subst c. congruence.
Qed.

Lemma digit_char_facts d : is_digit d = true ->
  ceqb d "*"%char = false /\ ceqb "^"%char d = false /\ ceqb "~"%char d = false /\
  ceqb d "-"%char = false /\ ceqb d "+"%char = false /\ ceqb d "x"%char = false /\
  ceqb d "X"%char = false.
Proof. destruct d as [[] [] [] [] [] [] [] []]; vm_compute; intros H; try discriminate; repeat split. Qed.

Lemma atoi_digit_string ds :
  ds <> [] -> forallb is_digit ds = true -> (digits_val ds < two63)%N ->
  atoi ds = Some (Z.of_N (digits_val ds)).
Proof.
  intros Hne Hd Hlt. destruct ds as [|d r]; [contradiction|].
  assert (Hd' := Hd). cbn [forallb] in Hd'. apply andb_true_iff in Hd'. destruct Hd' as [Dd _].
  destruct (digit_char_facts d Dd) as (_ & _ & _ & Hm & Hpl & _).
  unfold atoi. rewrite Hm, Hpl. unfold nonempty_digits. rewrite Hd.
  apply N.ltb_lt in Hlt. rewrite Hlt. reflexivity.
Qed.

Lemma is_x_cases w : is_x w = true -> w = $"x" \/ w = $"X".
Proof.
  unfold is_x. intros H. apply orb_true_iff in H. destruct H as [H|H]; apply beq_eq in H; auto.
Qed.

Lemma digits_not_x ds : ds <> [] -> forallb is_digit ds = true -> is_x ds = false.
Proof.
  intros Hne Hd. destruct ds as [|d r]; [contradiction|].
  cbn [forallb] in Hd. apply andb_true_iff in Hd. destruct Hd as [Dd _].
  destruct (digit_char_facts d Dd) as (_ & _ & _ & _ & _ & Hx & HX).
  unfold is_x. lits. cbn [beq]. rewrite Hx, HX. reflexivity.
Qed.

(* head of a digit string: not "*", "^", "~" *)
Lemma single_core_digit_head ds rest :
  ds <> [] -> forallb is_digit ds = true ->
  parse_single_core (ds ++ rest) =
    if existsb is_x (firstn 3 (split_c "."%char (ds ++ rest))) then parse_xrange (ds ++ rest)
    else match first_prefix npm_ops (ds ++ rest) with
         | Some (op, r) => Some [(op, trim_space r)]
         | None => Some [($"=", ds ++ rest)]
         end.
Proof.
  intros Hne Hd. destruct ds as [|d r]; [contradiction|].
  cbn [forallb] in Hd. apply andb_true_iff in Hd. destruct Hd as [Dd _].
  destruct (digit_char_facts d Dd) as (H1 & H2 & H3 & _).
  unfold parse_single_core. lits. cbn [app beq has_prefix]. rewrite H1, H2, H3. reflexivity.
Qed.

Section XRange.
  Variable vok : bytes -> bool.
  Variable vcmp : bytes -> bytes -> comparison.
  Notation rcontains := (r_contains Npm.Entry.r vok vcmp).

  (* "M.x" / "M.X" = [M.0.0-0, (M+1).0.0-0) *)
  Theorem xrange_major ds w v :
    ds <> [] -> forallb is_digit ds = true -> (digits_val ds < two63)%N -> is_x w = true ->
    let m := Z.of_N (digits_val ds) in
    vok (ver3_0 m 0 0) = true -> vok (ver3_0 (succ64 m) 0 0) = true -> vok v = true ->
    rcontains (ds ++ "."%char :: w) v
    = Some (ge_lt vcmp v (ver3_0 m 0 0) (ver3_0 (succ64 m) 0 0)).
  Proof.
    intros Hne Hd Hlt Hw m Hlo Hhi Hv. cbn [r_contains Npm.Entry.r].
    assert (Pw : plain w = true /\ split_c "."%char w = [w]).
    { destruct (is_x_cases w Hw) as [->| ->]; split; reflexivity. }
    destruct Pw as [Pw Sw].
    assert (Sp : split_c "."%char (ds ++ "."%char :: w) = [ds; w]).
    { rewrite split_c_app, Sw; [reflexivity|]. apply (forallb_lacks is_digit); auto. }
    rewrite parse_range_plain.
    - rewrite (single_core_digit_head ds _ Hne Hd), Sp.
      cbn [firstn existsb]. rewrite Hw. cbn [orb]. rewrite orb_true_r.
      unfold parse_xrange. rewrite Sp, (atoi_digit_string ds Hne Hd Hlt), Hw, Hv.
      f_equal. apply two_bounds; auto.
    - rewrite plain_app, (digits_plain ds Hd). cbn [plain forallb andb]. exact Pw.
    - destruct ds; [contradiction|discriminate].
  Qed.

  (* "M.m.x" / "M.m.X" = [M.m.0-0, M.(m+1).0-0) *)
  Theorem xrange_minor ds1 ds2 w v :
    ds1 <> [] -> forallb is_digit ds1 = true -> (digits_val ds1 < two63)%N ->
    ds2 <> [] -> forallb is_digit ds2 = true -> (digits_val ds2 < two63)%N ->
    is_x w = true ->
    let m := Z.of_N (digits_val ds1) in
    let n := Z.of_N (digits_val ds2) in
    vok (ver3_0 m n 0) = true -> vok (ver3_0 m (succ64 n) 0) = true -> vok v = true ->
    rcontains (ds1 ++ "."%char :: ds2 ++ "."%char :: w) v
    = Some (ge_lt vcmp v (ver3_0 m n 0) (ver3_0 m (succ64 n) 0)).
  Proof.
    intros Hne1 Hd1 Hlt1 Hne2 Hd2 Hlt2 Hw m n Hlo Hhi Hv. cbn [r_contains Npm.Entry.r].
    assert (Pw : plain w = true /\ split_c "."%char w = [w]).
    { destruct (is_x_cases w Hw) as [->| ->]; split; reflexivity. }
    destruct Pw as [Pw Sw].
    assert (Sp : split_c "."%char (ds1 ++ "."%char :: ds2 ++ "."%char :: w) = [ds1; ds2; w]).
    { rewrite split_c_app by (apply (forallb_lacks is_digit); auto).
      rewrite split_c_app by (apply (forallb_lacks is_digit); auto).
      rewrite Sw. reflexivity. }
    rewrite parse_range_plain.
    - rewrite (single_core_digit_head ds1 _ Hne1 Hd1), Sp.
      cbn [firstn existsb]. rewrite Hw. cbn [orb]. rewrite !orb_true_r.
      unfold parse_xrange. rewrite Sp, (atoi_digit_string ds1 Hne1 Hd1 Hlt1), Hw,
        (atoi_digit_string ds2 Hne2 Hd2 Hlt2), Hv.
      f_equal. apply two_bounds; auto.
    - rewrite plain_app, (digits_plain ds1 Hd1). cbn [plain forallb andb].
      change (plain_c "."%char) with true. cbn [andb]. fold (plain (ds2 ++ "."%char :: w)).
      rewrite plain_app, (digits_plain ds2 Hd2). cbn [plain forallb andb]. exact Pw.
    - destruct ds1; [contradiction|discriminate].
  Qed.
End XRange.

(* ---------- caret / tilde on partial versions (padPartial) ---------- *)

Lemma contains_any_forallb chars s :
  forallb (fun c => negb (existsb (ceqb c) chars)) s = true -> contains_any chars s = false.
Proof.
  unfold contains_any. induction s as [|c s IH]; [reflexivity|]. cbn [forallb existsb].
  intros H. apply andb_true_iff in H. destruct H as [H1 H2].
  apply negb_true_iff in H1. rewrite H1, (IH H2). reflexivity.
Qed.

Lemma digit_no_dash_plus c :
  is_digit c = true -> negb (existsb (ceqb c) $"-+") = true.
Proof. destruct c as [[] [] [] [] [] [] [] []]; vm_compute; auto. Qed.

Lemma dec_0 : dec 0 = ["0"%char].
Proof. reflexivity. Qed.

Lemma normalize_triple x y z :
  normalize {| major := Z.of_N x; minor := Z.of_N y; patch := Z.of_N z;
               prerelease := []; build := [] |} = triple_text x y z.
Proof.
  unfold normalize. cbn [major minor patch prerelease build]. rewrite !dec_z_of_N, !app_nil_r.
  rewrite triple_text_eq. reflexivity.
Qed.

Lemma pad_partial_one x : pad_partial (dec x) = (triple_text x 0 0, 1%N).
Proof.
  unfold pad_partial.
  rewrite contains_any_forallb
    by (apply (forallb_impl is_digit); [apply digit_no_dash_plus|apply dec_digits]).
  rewrite (count_digits_dot _ (dec_digits x)). rewrite triple_text_eq, dec_0. reflexivity.
Qed.

Lemma pad_partial_two x y :
  pad_partial (dec x ++ "."%char :: dec y) = (triple_text x y 0, 2%N).
Proof.
  unfold pad_partial.
  rewrite contains_any_forallb.
  - rewrite count_c_app. unfold count_c at 2. cbn [filter].
    change (ceqb "."%char "."%char) with true. cbn [length]. fold (count_c "."%char (dec y)).
    rewrite !(count_digits_dot _ (dec_digits _)). cbn [Nat.add].
    rewrite triple_text_eq, dec_0. f_equal.
    rewrite <- (app_assoc (dec x) ("."%char :: dec y) _). reflexivity.
  - rewrite forallb_app. cbn [forallb].
    rewrite !(forallb_impl is_digit _ _ digit_no_dash_plus (dec_digits _)). reflexivity.
Qed.

Section Partial.
  Variable vok : bytes -> bool.
  Variable vcmp : bytes -> bytes -> comparison.
  Notation rcontains := (r_contains Npm.Entry.r vok vcmp).

  Let core3 (x y : N) : core :=
    {| major := Z.of_N x; minor := Z.of_N y; patch := Z.of_N 0; prerelease := []; build := [] |}.

  Lemma plain_dec x : plain (dec x) = true.
  Proof. apply digits_plain, dec_digits. Qed.

  Lemma plain_dec2 x y : plain (dec x ++ "."%char :: dec y) = true.
  Proof. rewrite plain_app. cbn [plain forallb]. fold (plain (dec y)). rewrite !plain_dec. reflexivity. Qed.

  (* ^X := >=X.0.0 <(X+1).0.0-0, also for X = 0 *)
  Theorem caret_major x v :
    (x < two63)%N ->
    vok (triple_text x 0 0) = true -> vok (ver3_0 (succ64 (Z.of_N x)) 0 0) = true -> vok v = true ->
    rcontains ("^"%char :: dec x) v
    = Some (ge_lt vcmp v (triple_text x 0 0) (ver3_0 (succ64 (Z.of_N x)) 0 0)).
  Proof.
    intros Hx Hlo Hhi Hv.
    assert (E2 : caret_upper_w 1 (core3 x 0) = ver3_0 (succ64 (Z.of_N x)) 0 0).
    { unfold caret_upper_w. change (1 <? 1)%N with false. rewrite andb_false_r. reflexivity. }
    rewrite <- (normalize_triple x 0 0) in *. fold (core3 x 0) in *. rewrite <- E2 in *.
    apply (caret_interval_gen vok vcmp (dec x) (triple_text x 0 0) 1%N); auto.
    - apply plain_dec.
    - apply pad_partial_one.
    - apply parse_core_triple; auto; reflexivity.
  Qed.

  (* ^X.Y := >=X.Y.0 <(X+1).0.0-0 for X > 0;  ^0.Y := >=0.Y.0 <0.(Y+1).0-0 (so ^0.0 := <0.1.0-0) *)
  Theorem caret_minor x y v :
    (x < two63)%N -> (y < two63)%N ->
    let hi := if (x =? 0)%N then ver3_0 0 (succ64 (Z.of_N y)) 0
              else ver3_0 (succ64 (Z.of_N x)) 0 0 in
    vok (triple_text x y 0) = true -> vok hi = true -> vok v = true ->
    rcontains ("^"%char :: dec x ++ "."%char :: dec y) v
    = Some (ge_lt vcmp v (triple_text x y 0) hi).
  Proof.
    intros Hx Hy hi Hlo Hhi Hv.
    assert (E2 : caret_upper_w 2 (core3 x y) = hi).
    { unfold caret_upper_w, hi. change (2 <? 2)%N with false. change (1 <? 2)%N with true.
      rewrite andb_false_r, andb_true_r. cbn [major core3]. destruct x; reflexivity. }
    rewrite <- (normalize_triple x y 0) in *. fold (core3 x y) in *. rewrite <- E2 in *.
    apply (caret_interval_gen vok vcmp (dec x ++ "."%char :: dec y) (triple_text x y 0) 2%N); auto.
    - apply plain_dec2.
    - apply pad_partial_two.
    - apply parse_core_triple; auto; reflexivity.
  Qed.

  (* ~X := >=X.0.0 <(X+1).0.0-0 *)
  Theorem tilde_major x v :
    (x < two63)%N ->
    vok (triple_text x 0 0) = true -> vok (ver3_0 (succ64 (Z.of_N x)) 0 0) = true -> vok v = true ->
    rcontains ("~"%char :: dec x) v
    = Some (ge_lt vcmp v (triple_text x 0 0) (ver3_0 (succ64 (Z.of_N x)) 0 0)).
  Proof.
    intros Hx Hlo Hhi Hv.
    assert (E2 : tilde_upper_w 1 (core3 x 0) = ver3_0 (succ64 (Z.of_N x)) 0 0) by reflexivity.
    rewrite <- (normalize_triple x 0 0) in *. fold (core3 x 0) in *. rewrite <- E2 in *.
    apply (tilde_interval_gen vok vcmp (dec x) (triple_text x 0 0) 1%N); auto.
    - apply plain_dec.
    - apply pad_partial_one.
    - apply parse_core_triple; auto; reflexivity.
  Qed.

  (* ~X.Y := >=X.Y.0 <X.(Y+1).0-0 *)
  Theorem tilde_minor x y v :
    (x < two63)%N -> (y < two63)%N ->
    vok (triple_text x y 0) = true -> vok (ver3_0 (Z.of_N x) (succ64 (Z.of_N y)) 0) = true ->
    vok v = true ->
    rcontains ("~"%char :: dec x ++ "."%char :: dec y) v
    = Some (ge_lt vcmp v (triple_text x y 0) (ver3_0 (Z.of_N x) (succ64 (Z.of_N y)) 0)).
  Proof.
    intros Hx Hy Hlo Hhi Hv.
    assert (E2 : tilde_upper_w 2 (core3 x y) = ver3_0 (Z.of_N x) (succ64 (Z.of_N y)) 0) by reflexivity.
    rewrite <- (normalize_triple x y 0) in *. fold (core3 x y) in *. rewrite <- E2 in *.
    apply (tilde_interval_gen vok vcmp (dec x ++ "."%char :: dec y) (triple_text x y 0) 2%N); auto.
    - apply plain_dec2.
    - apply pad_partial_two.
    - apply parse_core_triple; auto; reflexivity.
  Qed.
End Partial.

(* ---------- hyphen ranges ---------- *)

Section Hyphen.
  Variable vok : bytes -> bool.
  Variable vcmp : bytes -> bytes -> comparison.
  Notation rcontains := (r_contains Npm.Entry.r vok vcmp).

  Definition hy (a b : bytes) : bytes := a ++ [" "%char; "-"%char; " "%char] ++ b.

  (* "a - b" = [a, b] *)
  Theorem hyphen_interval a b v :
    plain a = true -> plain b = true -> a <> [] -> b <> [] ->
    vok a = true -> vok b = true -> vok v = true ->
    rcontains (hy a b) v = Some (sat CGe (vcmp v a) && sat CLe (vcmp v b)).
  Proof.
    intros Pa Pb Na Nb Ha Hb Hv. cbn [r_contains Npm.Entry.r].
    pose proof (plain_no_sp a Pa) as Sa. pose proof (plain_no_sp b Pb) as Sb.
    assert (T : trim_space (hy a b) = hy a b).
    { apply trim_space_ends.
      - apply hd_nonspace_app, no_sp_hd; auto.
      - unfold hy. rewrite app_assoc. apply last_nonspace_app, no_sp_last; auto. }
    assert (L : forall x, plain_c x = false -> x <> " "%char -> x <> "-"%char ->
                contains_c x (hy a b) = false).
    { intros x Hx H1 H2. unfold hy. rewrite !contains_c_app, (plain_lacks x a Hx Pa), (plain_lacks x b Hx Pb).
      cbn. apply ceqb_neq in H1, H2. rewrite H1, H2. reflexivity. }
    assert (C : cut $" - " (hy a b) = Some (a, b)).
    { apply (cut_app " "%char $"- " a b). apply plain_lacks; auto. }
    unfold Range.parse_range. rewrite T.
    destruct (hy a b) as [|h0 t0] eqn:E.
    { destruct a; [contradiction|discriminate]. }
    rewrite <- E in *.
    lits. rewrite (contains_sub_lacks "|"%char ["|"%char] (hy a b)) by (apply L; [reflexivity|discriminate|discriminate]).
    unfold Range.parse_group. rewrite T. lits.
    rewrite (trim_prefix_lacks "("%char) by (apply L; [reflexivity|discriminate|discriminate]).
    rewrite (trim_suffix_lacks ")"%char) by (apply L; [reflexivity|discriminate|discriminate]).
    unfold contains_sub at 1. rewrite C. cbn [orb].
    unfold parse_hyphen. lits. unfold hy.
    rw (split_sub_two " "%char $"- " a b (plain_lacks " "%char a eq_refl Pa) (plain_lacks " "%char b eq_refl Pb)).
    rewrite (trim_space_no_sp a Sa), (trim_space_no_sp b Sb).
    destruct a as [|a0 a']; [contradiction|]. destruct b as [|b0 b']; [contradiction|].
    rewrite Ha, Hb, Hv. cbn [andb]. f_equal.
    rewrite contains_single. cbn [forallb]. unfold matches. cbn [fst snd].
    change (beq [">"%char; "="%char] ["*"%char]) with false.
    change (beq ["<"%char; "="%char] ["*"%char]) with false. cbv iota.
    rewrite Ha, Hb, andb_true_r. reflexivity.
  Qed.
End Hyphen.

(* ---------- "||" is union, " " is intersection ---------- *)

Section Connectives.
  Variable vok : bytes -> bool.
  Variable vcmp : bytes -> bytes -> comparison.
  Notation parse_range := (Range.parse_range vok).
  Notation contains := (Range.contains vok vcmp).

  Definition orr (s1 s2 : bytes) : bytes := s1 ++ ["|"%char; "|"%char] ++ s2.

  Lemma parse_range_no_or s r :
    hd_nonspace s = true -> last_nonspace s = true -> contains_c "|"%char s = false ->
    parse_range s = Some r ->
    exists g, Range.parse_group vok s = Some g /\ r = {| r_groups := [g]; r_orig := s |}.
  Proof.
    intros H1 H2 Hb. unfold Range.parse_range. rewrite (trim_space_ends s H1 H2).
    destruct s as [|c t] eqn:E; [discriminate|]. rewrite <- E in *.
    lits. rewrite (contains_sub_lacks "|"%char ["|"%char] s Hb).
    destruct (Range.parse_group vok s) as [g|]; [|discriminate].
    intros H. injection H as <-. eauto.
  Qed.

  Theorem or_union s1 s2 r1 r2 :
    hd_nonspace s1 = true -> last_nonspace s1 = true ->
    hd_nonspace s2 = true -> last_nonspace s2 = true ->
    contains_c "|"%char s1 = false -> contains_c "|"%char s2 = false ->
    parse_range s1 = Some r1 -> parse_range s2 = Some r2 ->
    exists r, parse_range (orr s1 s2) = Some r /\
              forall v, contains r v = contains r1 v || contains r2 v.
  Proof.
    intros A1 B1 A2 B2 L1 L2 P1 P2.
    destruct (parse_range_no_or s1 r1 A1 B1 L1 P1) as (g1 & G1 & ->).
    destruct (parse_range_no_or s2 r2 A2 B2 L2 P2) as (g2 & G2 & ->).
    assert (T : trim_space (orr s1 s2) = orr s1 s2).
    { apply trim_space_ends.
      - apply hd_nonspace_app; auto.
      - unfold orr. rewrite app_assoc. apply last_nonspace_app; auto. }
    unfold Range.parse_range. rewrite T.
    destruct (orr s1 s2) as [|h0 t0] eqn:E.
    { destruct s1; [discriminate|discriminate]. }
    rewrite <- E. lits. unfold orr.
    unfold contains_sub. rw (cut_app "|"%char ["|"%char] s1 s2 L1).
    rw (split_sub_two "|"%char ["|"%char] s1 s2 L1 L2).
    cbn [parse_groups].
    rewrite (trim_space_ends s1 A1 B1), (trim_space_ends s2 A2 B2), G1, G2.
    eexists. split; [reflexivity|]. intros v. unfold Range.contains. cbn [r_groups existsb].
    rewrite !orb_false_r. reflexivity.
  Qed.

  (* head conditions for the space-separated form: a leading "^"/"~" swallows the whole group,
     and a lone "-" turns the group into a (malformed) hyphen range *)
  Definition hd_not (xs : bytes) (s : bytes) : bool :=
    match s with c :: _ => negb (existsb (ceqb c) xs) | [] => false end.

  Lemma cut_space_dash c1 c2 :
    contains_c " "%char c1 = false -> contains_c " "%char c2 = false ->
    cut [" "%char; "-"%char; " "%char] (c1 ++ " "%char :: c2) = None.
  Proof.
    intros H1 H2. induction c1 as [|c t IH].
    - cbn [app cut].
      change (has_prefix [" "%char; "-"%char; " "%char] (" "%char :: c2))
        with (ceqb " "%char " "%char && has_prefix ["-"%char; " "%char] c2).
      change (ceqb " "%char " "%char) with true. cbn [andb].
      rewrite (has_prefix_lacks ["-"%char; " "%char] c2 " "%char eq_refl H2).
      rewrite (cut_lacks " "%char ["-"%char; " "%char] c2 H2). reflexivity.
    - rewrite contains_c_cons in H1. apply orb_false_iff in H1. destruct H1 as [H1 H1'].
      cbn [app cut has_prefix]. rewrite H1. cbn [andb]. rewrite (IH H1'). reflexivity.
  Qed.

  Lemma no_dash_suffix c1 c2 :
    c2 <> [] -> contains_c " "%char c2 = false -> hd_not ["-"%char] c2 = true ->
    has_suffix [" "%char; "-"%char] (c1 ++ " "%char :: c2) = false.
  Proof.
    intros Hne H2 Hh. unfold has_suffix. rewrite rev_app_distr. cbn [rev app].
    rewrite <- (contains_c_rev " "%char c2) in H2.
    destruct (rev c2) as [|x [|y t]] eqn:E.
    - exfalso. apply Hne. rewrite <- (rev_involutive c2), E. reflexivity.
    - assert (C : c2 = [x]) by (rewrite <- (rev_involutive c2), E; reflexivity).
      subst c2. cbn in Hh. rewrite orb_false_r in Hh. apply negb_true_iff in Hh.
      cbn [app has_prefix]. 
      destruct (ceqb "-"%char x) eqn:D; [|reflexivity].
      apply ceqb_eq in D. subst x. discriminate.
    - rewrite !contains_c_cons in H2. apply orb_false_iff in H2. destruct H2 as [_ H2].
      apply orb_false_iff in H2. destruct H2 as [H2 _].
      cbn [app has_prefix]. rewrite H2. rewrite andb_false_r. reflexivity.
  Qed.

  Definition sp (c1 c2 : bytes) : bytes := c1 ++ " "%char :: c2.

  Theorem and_inter c1 c2 r1 r2 :
    plain c1 = true -> plain c2 = true ->
    hd_not $"^~-" c1 = true -> hd_not $"-" c2 = true ->
    parse_range c1 = Some r1 -> parse_range c2 = Some r2 ->
    exists r, parse_range (sp c1 c2) = Some r /\
              forall v, contains r v = contains r1 v && contains r2 v.
  Proof.
    intros P1 P2 H1 H2 R1 R2.
    assert (N1 : c1 <> []) by (destruct c1; [discriminate|discriminate]).
    assert (N2 : c2 <> []) by (destruct c2; [discriminate|discriminate]).
    rewrite parse_range_plain in R1, R2 by assumption.
    destruct (parse_single_core c1) as [g1|] eqn:G1; [|discriminate].
    destruct (parse_single_core c2) as [g2|] eqn:G2; [|discriminate].
    injection R1 as <-. injection R2 as <-.
    pose proof (plain_no_sp c1 P1) as S1. pose proof (plain_no_sp c2 P2) as S2.
    assert (T : trim_space (sp c1 c2) = sp c1 c2).
    { apply trim_space_ends.
      - apply hd_nonspace_app, no_sp_hd; auto.
      - unfold sp. change (c1 ++ " "%char :: c2) with (c1 ++ [" "%char] ++ c2).
        rewrite app_assoc. apply last_nonspace_app, no_sp_last; auto. }
    assert (NE : sp c1 c2 <> []) by (unfold sp; destruct c1; [contradiction|discriminate]).
    assert (L : forall x, plain_c x = false -> x <> " "%char -> contains_c x (sp c1 c2) = false).
    { intros x Hx Hn. unfold sp. rewrite contains_c_app, contains_c_cons,
        (plain_lacks x c1 Hx P1), (plain_lacks x c2 Hx P2).
      apply ceqb_neq in Hn. rewrite Hn. reflexivity. }
    assert (Sp1 : contains_c " "%char c1 = false) by (apply plain_lacks; auto).
    assert (Sp2 : contains_c " "%char c2 = false) by (apply plain_lacks; auto).
    pose proof (cut_space_dash c1 c2 Sp1 Sp2) as CUT. fold (sp c1 c2) in CUT.
    pose proof (no_dash_suffix c1 c2 N2 Sp2 H2) as SUF. fold (sp c1 c2) in SUF.
    assert (HP : has_prefix ["-"%char; " "%char] (sp c1 c2) = false
                 /\ has_prefix ["^"%char] (sp c1 c2) = false
                 /\ has_prefix ["~"%char] (sp c1 c2) = false).
    { unfold sp. destruct c1 as [|x t]; [contradiction|]. cbn in H1.
      rewrite orb_false_r in H1. apply negb_true_iff in H1.
      apply orb_false_iff in H1. destruct H1 as [Hc H1].
      apply orb_false_iff in H1. destruct H1 as [Ht Hd].
      cbn [app has_prefix].
      assert (Q : forall y, ceqb x y = false -> ceqb y x = false).
      { intros y Hy. apply ceqb_neq. apply ceqb_neq in Hy. congruence. }
      rewrite (Q _ Hc), (Q _ Ht), (Q _ Hd). auto. }
    destruct HP as (HP1 & HP2 & HP3).
    assert (CS : contains_c " "%char (sp c1 c2) = true).
    { unfold sp. rewrite contains_c_app, contains_c_cons. change (ceqb " "%char " "%char) with true.
      apply orb_true_r. }
    pose proof (fields_two c1 " "%char c2 N1 N2 S1 S2 eq_refl) as F. fold (sp c1 c2) in F.
    unfold Range.parse_range. rewrite T, match_nonempty by exact NE. lits.
    rewrite (contains_sub_lacks "|"%char ["|"%char] (sp c1 c2)) by (apply L; [reflexivity|discriminate]).
    unfold Range.parse_group. rewrite T. lits.
    rewrite (trim_prefix_lacks "("%char) by (apply L; [reflexivity|discriminate]).
    rewrite (trim_suffix_lacks ")"%char) by (apply L; [reflexivity|discriminate]).
    unfold contains_sub. rewrite CUT, SUF, HP1, HP2, HP3, CS, F. cbn [orb andb negb].
    cbn [parse_spaced]. rewrite !parse_single_plain by assumption. rewrite G1, G2.
    eexists. split; [reflexivity|]. intros v.
    rewrite !contains_single. rewrite app_nil_r. apply forallb_app.
  Qed.
End Connectives.

(* ---------- the operator "!=" can never be written ---------- *)

Definition no_ne (g : list constraint) : bool :=
  forallb (fun c => negb (beq (fst c) $"!=")) g.

Ltac crush :=
  repeat (match goal with
          | |- context [match ?x with _ => _ end] => destruct x eqn:?
          end);
  try discriminate;
  let H := fresh in intros H; injection H as <-; reflexivity.

Lemma parse_caret_no_ne s g : parse_caret s = Some g -> no_ne g = true.
Proof. unfold parse_caret. crush. Qed.

Lemma parse_tilde_no_ne s g : parse_tilde s = Some g -> no_ne g = true.
Proof. unfold parse_tilde. crush. Qed.

Lemma parse_xrange_no_ne s g : parse_xrange s = Some g -> no_ne g = true.
Proof. unfold parse_xrange. crush. Qed.

Lemma first_prefix_in ops s op rest :
  first_prefix ops s = Some (op, rest) -> In op ops /\ has_prefix op s = true.
Proof.
  induction ops as [|o ops IH]; [discriminate|]. cbn [first_prefix].
  destruct (has_prefix o s) eqn:E.
  - intros H. injection H as <- <-. split; [left; reflexivity|exact E].
  - intros H. destruct (IH H) as [H1 H2]. split; [right; exact H1|exact H2].
Qed.

Lemma parse_single_core_no_ne c g :
  contains_c "!"%char c = false -> parse_single_core c = Some g -> no_ne g = true.
Proof.
  intros Hb. unfold parse_single_core.
  destruct (beq c $"*"). { intros H. injection H as <-. reflexivity. }
  destruct (has_prefix $"^" c). { apply parse_caret_no_ne. }
  destruct (has_prefix $"~" c). { apply parse_tilde_no_ne. }
  destruct (existsb is_x (firstn 3 (split_c "."%char c))). { apply parse_xrange_no_ne. }
  destruct (first_prefix npm_ops c) as [[op rest]|] eqn:F.
  - apply first_prefix_in in F. destruct F as [Hin Hp].
    intros H. injection H as <-.
    cbn in Hin. repeat (destruct Hin as [<-|Hin]; [try reflexivity|]); [|contradiction].
    exfalso. rewrite (has_prefix_contains _ _ "!"%char Hp eq_refl) in Hb. discriminate.
  - intros H. injection H as <-. reflexivity.
Qed.

Lemma contains_any_bang s : contains_any $"@#$%&!" s = false -> contains_c "!"%char s = false.
Proof.
  unfold contains_any. lits. induction s as [|c s IH]; [reflexivity|].
  cbn [existsb]. intros H. rewrite !orb_false_iff in H.
  destruct H as [(_ & _ & _ & _ & _ & H & _) H2].
  rewrite contains_c_cons, (IH H2), orb_false_r.
  apply ceqb_neq. apply ceqb_neq in H. congruence.
Qed.

Lemma parse_single_no_ne c g : parse_single c = Some g -> no_ne g = true.
Proof.
  unfold parse_single. destruct (contains_any _ _) eqn:E; [discriminate|].
  apply parse_single_core_no_ne, contains_any_bang, E.
Qed.

Section NoNe.
  Variable vok : bytes -> bool.

  Lemma parse_spaced_no_ne parts g : parse_spaced parts = Some g -> no_ne g = true.
  Proof.
    revert g. induction parts as [|p r IH]; intros g; cbn [parse_spaced].
    - intros H. injection H as <-. reflexivity.
    - destruct (parse_single p) as [cs|] eqn:E; [|discriminate].
      destruct (parse_spaced r) as [rest|]; [|discriminate].
      intros H. injection H as <-.
      pose proof (parse_single_no_ne p cs E) as A. pose proof (IH rest eq_refl) as B.
      unfold no_ne in *. rewrite forallb_app. apply andb_true_iff. split; [exact A|exact B].
  Qed.

  Lemma parse_hyphen_no_ne s g : parse_hyphen vok s = Some g -> no_ne g = true.
  Proof. unfold parse_hyphen. crush. Qed.

  Lemma parse_group_no_ne s g : Range.parse_group vok s = Some g -> no_ne g = true.
  Proof.
    unfold Range.parse_group.
    destruct (_ || _ || _). { apply parse_hyphen_no_ne. }
    destruct (_ && _ && _). { apply parse_spaced_no_ne. }
    apply parse_single_no_ne.
  Qed.

  Lemma parse_groups_no_ne parts gs :
    parse_groups vok parts = Some gs -> forallb no_ne gs = true.
  Proof.
    revert gs. induction parts as [|p r IH]; intros gs; cbn [parse_groups].
    - intros H. injection H as <-. reflexivity.
    - destruct (Range.parse_group vok (trim_space p)) as [g|] eqn:E; [|discriminate].
      destruct (parse_groups vok r) as [gs'|]; [|discriminate].
      intros H. injection H as <-. cbn [forallb].
      rewrite (parse_group_no_ne _ g E), (IH gs' eq_refl). reflexivity.
  Qed.

  (* every accepted range consists of "*", "=", "<", "<=", ">", ">=" constraints only *)
  Theorem parsed_no_ne s r :
    Range.parse_range vok s = Some r -> forallb no_ne (r_groups r) = true.
  Proof.
    unfold Range.parse_range. destruct (trim_space s) as [|c t] eqn:E; [discriminate|].
    destruct (contains_sub _ _).
    - destruct (parse_groups vok _) as [gs|] eqn:G; [|discriminate].
      intros H. injection H as <-. cbn [r_groups]. apply (parse_groups_no_ne _ _ G).
    - destruct (Range.parse_group vok _) as [g|] eqn:G; [|discriminate].
      intros H. injection H as <-. cbn [r_groups forallb].
      rewrite (parse_group_no_ne _ g G). reflexivity.
  Qed.

  (* in particular "!=1.0.0" is rejected whatever the version oracle says *)
  Lemma ne_example : Range.parse_range vok $"!=1.0.0" = None.
  Proof. reflexivity. Qed.

  (* a leading caret swallows the rest of the group: "^1.2.3 <2.0.0" is rejected *)
  Lemma caret_then_comparator_rejected : Range.parse_range vok $"^1.2.3 <2.0.0" = None.
  Proof. vm_compute. reflexivity. Qed.

  (* ---------- C18: String() re-parses to the same range ---------- *)

  Lemma parse_range_trim s : Range.parse_range vok (trim_space s) = Range.parse_range vok s.
  Proof. unfold Range.parse_range. rewrite trim_space_idem. reflexivity. Qed.

  Lemma show_is_trim s r : Range.parse_range vok s = Some r -> show r = trim_space s.
  Proof.
    unfold Range.parse_range. destruct (trim_space s) as [|c t]; [discriminate|].
    destruct (if contains_sub _ _ then _ else _); [|discriminate].
    intros H. injection H as <-. reflexivity.
  Qed.

  Theorem range_reparse s r :
    Range.parse_range vok s = Some r -> Range.parse_range vok (show r) = Some r.
  Proof. intros H. rewrite (show_is_trim s r H), parse_range_trim. exact H. Qed.
End NoNe.

(* ---------- C20 ---------- *)

Section C20.
  Variable vok : bytes -> bool.
  Variable vcmp : bytes -> bytes -> comparison.
  Hypothesis TP : TotalPreorder vcmp.
  Notation contains := (Range.contains vok vcmp).
  Notation matches := (Range.matches vok vcmp).

  Lemma matches_eq a b c : vcmp a b = Eq -> matches a c = matches b c.
  Proof.
    intros E. unfold Range.matches. destruct (beq (fst c) $"*"); [reflexivity|].
    destruct (vok (snd c)); [|reflexivity]. rewrite (tp_eq_l TP a b (snd c) E). reflexivity.
  Qed.

  Theorem npm_c20_eq r a b : vcmp a b = Eq -> contains r a = contains r b.
  Proof.
    intros E. unfold Range.contains.
    induction (r_groups r) as [|g gs IH]; [reflexivity|]. cbn [existsb]. rewrite IH. f_equal.
    induction g as [|c g IHg]; [reflexivity|]. cbn [forallb].
    rewrite (matches_eq a b c E), IHg. reflexivity.
  Qed.

  Corollary npm_c20_eq_text s a b :
    vok a = true -> vok b = true -> vcmp a b = Eq ->
    r_contains Npm.Entry.r vok vcmp s a = r_contains Npm.Entry.r vok vcmp s b.
  Proof.
    intros Ha Hb E. cbn [r_contains Npm.Entry.r].
    destruct (Range.parse_range vok s) as [r|]; [|reflexivity].
    rewrite Ha, Hb, (npm_c20_eq r a b E). reflexivity.
  Qed.

  Lemma sem6_convex op : negb (beq op $"!=") = true -> convex_op (sem6 op) = true.
  Proof.
    intros H. apply negb_true_iff in H. unfold sem6. rewrite H.
    repeat match goal with |- context [if ?x then _ else _] => destruct x end; reflexivity.
  Qed.

  Lemma matches_convex k a b c :
    negb (beq (fst k) $"!=") = true ->
    le_c (vcmp a b) -> le_c (vcmp b c) ->
    matches a k = true -> matches c k = true -> matches b k = true.
  Proof.
    intros Hk Hab Hbc. unfold Range.matches.
    destruct (beq (fst k) $"*"); [reflexivity|].
    destruct (vok (snd k)); [|discriminate].
    apply (sat_convex bytes vcmp TP); auto. apply sem6_convex, Hk.
  Qed.

  Lemma group_convex g a b c :
    no_ne g = true -> le_c (vcmp a b) -> le_c (vcmp b c) ->
    forallb (matches a) g = true -> forallb (matches c) g = true -> forallb (matches b) g = true.
  Proof.
    intros Hg Hab Hbc. induction g as [|k g IH]; [reflexivity|].
    cbn [no_ne forallb] in *. apply andb_true_iff in Hg. destruct Hg as [Hk Hg].
    rewrite !andb_true_iff. intros [A1 A2] [C1 C2]. split.
    - apply (matches_convex k a b c); assumption.
    - apply IH; assumption.
  Qed.

  (* a range without "||" is an interval of the version order: between two members there are
     only members (recall that "!=" cannot occur) *)
  Theorem npm_c20_convex s r a b c :
    contains_sub $"||" (trim_space s) = false ->
    Range.parse_range vok s = Some r ->
    le_c (vcmp a b) -> le_c (vcmp b c) ->
    contains r a = true -> contains r c = true -> contains r b = true.
  Proof.
    intros Hor Hp Hab Hbc.
    pose proof (parsed_no_ne vok s r Hp) as Hn.
    unfold Range.parse_range in Hp. destruct (trim_space s) as [|h t]; [discriminate|].
    rewrite Hor in Hp. destruct (Range.parse_group vok (h :: t)) as [g|]; [|discriminate].
    injection Hp as <-. cbn [r_groups forallb] in Hn. rewrite andb_true_r in Hn.
    rewrite !contains_single. apply group_convex; assumption.
  Qed.
End C20.

(* ---------- the documented "+1" (no wrap-around below MaxInt64) ---------- *)

Lemma caret_upper_doc t c :
  parse_core t = Some c ->
  (major c < max_int64 -> minor c < max_int64 -> patch c < max_int64 ->
   caret_upper c =
     if major c =? 0 then
       if minor c =? 0 then ver3_0 0 0 (patch c + 1) else ver3_0 0 (minor c + 1) 0
     else ver3_0 (major c + 1) 0 0)%Z.
Proof.
  intros H H1 H2 H3. apply parse_core_bounds in H. destruct H as (B1 & B2 & B3).
  unfold caret_upper, caret_upper_w. change (1 <? 3)%N with true. change (2 <? 3)%N with true.
  rewrite !andb_true_r, !succ64_small by lia. reflexivity.
Qed.

Lemma tilde_upper_doc t c :
  parse_core t = Some c -> (minor c < max_int64)%Z ->
  tilde_upper c = ver3_0 (major c) (minor c + 1) 0.
Proof.
  intros H H2. apply parse_core_bounds in H. destruct H as (B1 & B2 & B3).
  unfold tilde_upper, tilde_upper_w. change (3 =? 1)%N with false. cbv iota.
  rewrite succ64_small by lia. reflexivity.
Qed.

(* ---------- end-to-end examples with the model's own version layer ---------- *)

Definition self_contains (r v : bytes) : option bool :=
  r_contains Npm.Entry.r (self_vok Npm.Entry.entry) (self_vcmp Npm.Entry.entry) r v.

Example ex_caret_in : self_contains $"^1.2.3" $"1.9.0" = Some true.
Proof. vm_compute. reflexivity. Qed.
Example ex_caret_next_major_pre : self_contains $"^1.2.3" $"2.0.0-0" = Some false.
Proof. vm_compute. reflexivity. Qed.
Example ex_caret_zero : self_contains $"^0.0.3" $"0.0.4" = Some false.
Proof. vm_compute. reflexivity. Qed.
Example ex_tilde : self_contains $"~1.2.3" $"1.2.99" = Some true.
Proof. vm_compute. reflexivity. Qed.
Example ex_x : self_contains $"1.x" $"1.0.0-0" = Some true.
Proof. vm_compute. reflexivity. Qed.
Example ex_hyphen : self_contains $"1.2.3 - 2.3.4" $"2.3.4" = Some true.
Proof. vm_compute. reflexivity. Qed.
Example ex_or : self_contains $"1.0.0 || 2.0.0" $"2.0.0" = Some true.
Proof. vm_compute. reflexivity. Qed.
(* ">= 1.0.0" (operator, space, version) is accepted and contains nothing: it is read as the two
   constraints ">=" (empty bound: never matches) and "=1.0.0" *)
Example ex_op_space : self_contains $">= 1.0.0" $"1.0.0" = Some false.
Proof. vm_compute. reflexivity. Qed.
(* bare partial versions are accepted and contain nothing; after caret / tilde they are padded *)
Example ex_partial : self_contains $"^1.2" $"1.2.0" = Some true /\ self_contains $"1.2" $"1.2.0" = Some false.
Proof. vm_compute. auto. Qed.
Example ex_caret_partial :
  self_contains $"^1" $"1.9.9" = Some true /\ self_contains $"^1" $"2.0.0-0" = Some false /\
  self_contains $"^0" $"0.9.9" = Some true /\ self_contains $"^0" $"1.0.0-0" = Some false /\
  self_contains $"^0.0" $"0.0.9" = Some true /\ self_contains $"^0.0" $"0.1.0-0" = Some false /\
  self_contains $"^0.2" $"0.2.9" = Some true /\ self_contains $"^0.2" $"0.3.0-0" = Some false /\
  self_contains $"^0.0.0" $"0.0.1-0" = Some false.
Proof. vm_compute. repeat split. Qed.
Example ex_tilde_partial :
  self_contains $"~1" $"1.9.9" = Some true /\ self_contains $"~1" $"2.0.0-0" = Some false /\
  self_contains $"~1.2" $"1.2.9" = Some true /\ self_contains $"~1.2" $"1.3.0-0" = Some false /\
  self_contains $"~0" $"0.9.0" = Some true.
Proof. vm_compute. repeat split. Qed.
(* a '-' or '+' disables the padding: "^1.2-beta" is rejected *)
Example ex_partial_pre : Range.parse_range (self_vok Npm.Entry.entry) $"^1.2-beta" = None.
Proof. vm_compute. reflexivity. Qed.
(* 64-bit wrap-around of the "+1": the upper bound is not a version and the range is empty *)
Example ex_overflow :
  self_contains $"^9223372036854775807.0.0" $"9223372036854775807.0.0" = Some false.
Proof. vm_compute. reflexivity. Qed.
(* "1.*" is an exact match against the invalid version "1.*": accepted, empty *)
Example ex_star_component : self_contains $"1.*" $"1.0.0" = Some false.
Proof. vm_compute. reflexivity. Qed.
(* an x among the pre-release identifiers is an identifier, not a wildcard: the bound is in scope *)
Example ex_x_identifier :
  bound_scope $"1.0.0-alpha.x" = true /\
  self_contains $">=1.0.0-alpha.x" $"1.5.0" = Some true /\
  self_contains $"<2.0.0-rc.X.1" $"1.2.5" = Some true /\
  self_contains $"=1.0.0-alpha.x" $"1.0.0-alpha.x" = Some true.
Proof. vm_compute. repeat split. Qed.
(* a signed major in an x-range is accepted by Atoi: "+1.x" = "1.x", "-1.x" is empty *)
Example ex_signed_x : self_contains $"+1.x" $"1.5.0" = Some true /\ self_contains $"-1.x" $"1.5.0" = Some false.
Proof. vm_compute. auto. Qed.

Print Assumptions npm_c02.
Print Assumptions npm_c02_bare.
Print Assumptions star_all.
Print Assumptions caret_interval.
Print Assumptions tilde_interval.
Print Assumptions caret_major.
Print Assumptions caret_minor.
Print Assumptions tilde_major.
Print Assumptions tilde_minor.
Print Assumptions xrange_major.
Print Assumptions xrange_minor.
Print Assumptions hyphen_interval.
Print Assumptions or_union.
Print Assumptions and_inter.
Print Assumptions parsed_no_ne.
Print Assumptions range_reparse.
Print Assumptions npm_c20_eq_text.
Print Assumptions npm_c20_convex.
