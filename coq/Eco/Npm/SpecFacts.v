(* Eco/Npm/SpecFacts.v — C08: the npm Compare model orders versions as SemVer 2.0.0 section 11
   (reference: Spec/SemVer.v, denotation [den_npm], precedence [prec]) on every pair of
   spec-valid texts whose numeric components and numeric pre-release identifiers fit int64.
   Outside that class the Go code deviates (witnesses below). *)
From Coq Require Import Lia.
From Verif.Base Require Import Bytes GoNum Ord BytesFacts.
From Verif.Eco.Npm Require Import DecFacts StrFacts.
From Verif.Spec Require Import SemVer SemVerFacts.
From Verif.Eco Require Import VLayer Iface.
From Verif.Eco.Npm Require Import Version VersionFacts.
From Verif.Eco.Npm Require Entry.
Local Open Scope N_scope.

Ltac lits := cbn [list_ascii_of_string] in *.

(* ---------- scope ---------- *)

Definition ident_small (i : ident) : bool :=
  match i with INum n => n <? two63 | IAlnum _ => true end.

Definition sv_small (v : sv) : bool :=
  forallb (fun n => n <? two63) (nums v) && forallb ident_small (SemVer.pre v).

(* what is NOT claimed: versions with a numeric component or an all-digit pre-release
   identifier >= 2^63 (in particular everything with at most 18 digits per number is in scope).
   Surrounding whitespace needs no exclusion: the reference does not trim, so a spec-valid text
   has none ([valid_no_space] below), and on such texts the model's TrimSpace is the identity. *)
Definition in_scope (s : bytes) : bool :=
  match den_npm s with Some v => sv_small v | None => true end.

(* ---------- string decomposition lemmas ---------- *)

Lemma cut1_spec c s :
  match cut [c] s with
  | Some (a, b) => s = a ++ c :: b /\ contains_c c a = false
  | None => contains_c c s = false
  end.
Proof.
  induction s as [|x s IH]; [reflexivity|].
  cbn [cut has_prefix]. rewrite andb_true_r. destruct (ceqb c x) eqn:E.
  - apply ceqb_eq in E. subst x. cbn. auto.
  - destruct (cut [c] s) as [[a b]|].
    + destruct IH as [-> H]. split; [reflexivity|]. rewrite contains_c_cons, E, H. reflexivity.
    + rewrite contains_c_cons, E, IH. reflexivity.
Qed.

Lemma split2_spec c s :
  match split2_c c s with
  | (a, Some b) => s = a ++ c :: b /\ contains_c c a = false
  | (a, None) => a = s /\ contains_c c s = false
  end.
Proof.
  unfold split2_c. pose proof (cut1_spec c s) as H.
  destruct (cut [c] s) as [[a b]|]; auto.
Qed.

Lemma split_c_nonempty sep s : split_c sep s <> [].
Proof.
  destruct s as [|x s]; cbn [split_c]; [discriminate|].
  destruct (ceqb sep x); [discriminate|]. destruct (split_c sep s); discriminate.
Qed.

Lemma join_split sep s : join [sep] (split_c sep s) = s.
Proof.
  induction s as [|x s IH]; [reflexivity|]. cbn [split_c].
  destruct (ceqb sep x) eqn:E.
  - apply ceqb_eq in E. subst x. pose proof (split_c_nonempty sep s) as N.
    destruct (split_c sep s) as [|f fs]; [contradiction|].
    change (join [sep] ([] :: f :: fs)) with ([] ++ [sep] ++ join [sep] (f :: fs)).
    rewrite IH. reflexivity.
  - destruct (split_c sep s) as [|f fs].
    + cbn in IH. subst s. reflexivity.
    + destruct fs as [|g gs].
      * cbn in IH. subst s. reflexivity.
      * change (join [sep] ((x :: f) :: g :: gs)) with (x :: (f ++ [sep] ++ join [sep] (g :: gs))).
        change (join [sep] (f :: g :: gs)) with (f ++ [sep] ++ join [sep] (g :: gs)) in IH.
        rewrite IH. reflexivity.
Qed.

Lemma split3_text s d1 d2 d3 :
  split_c "."%char s = [d1; d2; d3] -> s = d1 ++ "."%char :: d2 ++ "."%char :: d3.
Proof. intros H. rewrite <- (join_split "."%char s), H. reflexivity. Qed.

(* ---------- the reference's parsers, inverted ---------- *)

Lemma numeric_loose_inv s n :
  numeric false s = Some n -> nonempty_digits s = true /\ n = digits_val s.
Proof.
  unfold numeric. cbn [negb orb]. rewrite andb_true_r.
  destruct (nonempty_digits s); [|discriminate]. intros H. injection H as <-. auto.
Qed.

Lemma nonempty_digits_inv s : nonempty_digits s = true -> s <> [] /\ forallb is_digit s = true.
Proof. destruct s; [discriminate|]. intros H. split; [discriminate|exact H]. Qed.

Lemma parse_nums_inv core ns :
  parse_nums false 3 3 core = Some ns ->
  exists d1 d2 d3, split_c "."%char core = [d1; d2; d3] /\
    nonempty_digits d1 = true /\ nonempty_digits d2 = true /\ nonempty_digits d3 = true /\
    ns = [digits_val d1; digits_val d2; digits_val d3].
Proof.
  unfold parse_nums.
  destruct (split_c "."%char core) as [|d1 [|d2 [|d3 [|d4 r]]]]; cbn [map_opt].
  - discriminate.
  - destruct (numeric false d1); discriminate.
  - destruct (numeric false d1); [|discriminate]. destruct (numeric false d2); discriminate.
  - destruct (numeric false d1) eqn:E1; [|discriminate].
    destruct (numeric false d2) eqn:E2; [|discriminate].
    destruct (numeric false d3) eqn:E3; [|discriminate].
    cbn. intros H. injection H as <-.
    apply numeric_loose_inv in E1, E2, E3. destruct E1 as [? ->], E2 as [? ->], E3 as [? ->].
    exists d1, d2, d3. auto 10.
  - destruct (numeric false d1); [|discriminate]. destruct (numeric false d2); [|discriminate].
    destruct (numeric false d3); [|discriminate]. destruct (numeric false d4); [|discriminate].
    destruct (map_opt (numeric false) r) as [l|]; [|discriminate].
    cbn [length]. destruct (length l); discriminate.
Qed.

(* the reference's reading of one pre-release identifier *)
Definition ident_of (s : bytes) : ident :=
  if all_digits s then INum (digits_val s) else IAlnum s.

Definition part_shape (p : bytes) : bool :=
  match p with [] => false | _ => forallb is_ident_c p end.

Lemma digit_ident c : is_digit c = true -> is_ident_c c = true.
Proof. intros H. unfold is_ident_c, is_alnum. rewrite H. reflexivity. Qed.

Lemma pre_ident_inv s i :
  pre_ident false s = Some i -> part_shape s = true /\ i = ident_of s.
Proof.
  unfold pre_ident, ident_of, part_shape. destruct s as [|c r]; [discriminate|].
  destruct (all_digits (c :: r)) eqn:D.
  - unfold numeric. cbn [negb orb]. rewrite andb_true_r.
    unfold nonempty_digits. unfold all_digits in D. rewrite D. cbn [option_map].
    intros H. injection H as <-. split; [|reflexivity].
    revert D. apply forallb_impl, digit_ident.
  - change is_ident_char with is_ident_c.
    destruct (forallb is_ident_c (c :: r)); [|discriminate].
    intros H. injection H as <-. auto.
Qed.

Lemma map_pre_ident_inv parts ids :
  map_opt (pre_ident false) parts = Some ids ->
  forallb part_shape parts = true /\ ids = map ident_of parts.
Proof.
  revert ids. induction parts as [|p r IH]; intros ids; cbn [map_opt].
  - intros H. injection H as <-. auto.
  - destruct (pre_ident false p) as [i|] eqn:E; [|discriminate].
    destruct (map_opt (pre_ident false) r) as [l|]; [|discriminate].
    intros H. injection H as <-. apply pre_ident_inv in E. destruct E as [E1 ->].
    destruct (IH l eq_refl) as [H1 ->]. cbn [forallb map]. rewrite E1, H1. auto.
Qed.

Lemma parse_pre_inv p ids :
  parse_pre false p = Some ids ->
  ident_list_ok p = true /\ ids = map ident_of (split_c "."%char p).
Proof. unfold parse_pre. intros H. apply map_pre_ident_inv in H. exact H. Qed.

Lemma build_ok_ident_list b : build_ok b = true -> ident_list_ok b = true.
Proof. intros H. exact H. Qed.

Lemma ident_list_ok_nonempty p : ident_list_ok p = true -> p <> [].
Proof. intros H ->. discriminate. Qed.

(* ---------- the scanner of the model on a decomposed text ---------- *)

Definition scan (t : bytes) : option core :=
  match num_dot t with
  | Some (ma, r1) =>
      match num_dot r1 with
      | Some (mi, r2) =>
          match take_while is_digit r2 with
          | [] => None
          | pa =>
              match parse_tail (drop_while is_digit r2) with
              | Some (pre, b) =>
                  match atoi_digits ma, atoi_digits mi, atoi_digits pa with
                  | Some x, Some y, Some z =>
                      Some {| major := x; minor := y; patch := z; prerelease := pre; build := b |}
                  | _, _, _ => None
                  end
              | None => None
              end
          end
      | None => None
      end
  | None => None
  end.

Lemma parse_core_scan s : parse_core s = scan (strip_prefixes npm_prefixes s).
Proof. reflexivity. Qed.

Lemma atoi_digits_small d : digits_val d < two63 -> atoi_digits d = Some (Z.of_N (digits_val d)).
Proof. intros H. unfold atoi_digits. apply N.ltb_lt in H. rewrite H. reflexivity. Qed.

Lemma scan_digits_tail d1 d2 d3 tail pre bld :
  nonempty_digits d1 = true -> nonempty_digits d2 = true -> nonempty_digits d3 = true ->
  digits_val d1 < two63 -> digits_val d2 < two63 -> digits_val d3 < two63 ->
  parse_tail tail = Some (pre, bld) ->
  scan ((d1 ++ "."%char :: d2 ++ "."%char :: d3) ++ tail)
  = Some {| major := Z.of_N (digits_val d1); minor := Z.of_N (digits_val d2);
            patch := Z.of_N (digits_val d3); prerelease := pre; build := bld |}.
Proof.
  intros N1 N2 N3 H1 H2 H3 Ht.
  apply nonempty_digits_inv in N1, N2, N3.
  destruct N1 as [E1 D1], N2 as [E2 D2], N3 as [E3 D3].
  unfold scan. rewrite <- app_assoc. cbn [app].
  rewrite (num_dot_app d1 _ E1 D1). rewrite <- app_assoc. cbn [app].
  rewrite (num_dot_app d2 _ E2 D2).
  pose proof (parse_tail_hd tail _ Ht) as Hh.
  assert (T : take_while is_digit (d3 ++ tail) = d3 /\ drop_while is_digit (d3 ++ tail) = tail).
  { destruct tail as [|t tl].
    - rewrite app_nil_r. split; [apply take_while_all|apply drop_while_all]; assumption.
    - split; [apply take_while_app_stop|apply drop_while_app_stop]; assumption. }
  destruct T as [T1 T2]. rewrite T1, T2, Ht.
  pose proof (atoi_digits_small d3 H3) as A3.
  rewrite (atoi_digits_small d1 H1), (atoi_digits_small d2 H2).
  destruct d3; [contradiction|]. rewrite A3. reflexivity.
Qed.

(* ---------- correspondence between a parsed core and a denotation ---------- *)

Definition part_ok (s : bytes) : Prop :=
  s <> [] /\ (all_digits s = true -> digits_val s < two63).

Definition pre_corr (p : bytes) (ids : list ident) : Prop :=
  (p = [] /\ ids = []) \/
  (p <> [] /\ ids = map ident_of (split_c "."%char p) /\ Forall part_ok (split_c "."%char p)).

Definition corr (c : core) (v : sv) : Prop :=
  exists x y z, major c = Z.of_N x /\ minor c = Z.of_N y /\ patch c = Z.of_N z /\
                nums v = [x; y; z] /\ pre_corr (prerelease c) (SemVer.pre v).

Lemma parts_ok parts :
  forallb part_shape parts = true -> forallb ident_small (map ident_of parts) = true ->
  Forall part_ok parts.
Proof.
  induction parts as [|p r IH]; [constructor|]. cbn [forallb map].
  rewrite !andb_true_iff. intros [S1 S2] [I1 I2]. constructor; [|apply IH; assumption].
  split.
  - destruct p; [discriminate|discriminate].
  - intros D. unfold ident_of in I1. rewrite D in I1. apply N.ltb_lt. exact I1.
Qed.

Lemma pre_corr_of p ids :
  parse_pre false p = Some ids -> forallb ident_small ids = true ->
  ident_list_ok p = true /\ pre_corr p ids.
Proof.
  intros H Hs. apply parse_pre_inv in H. destruct H as [H1 ->]. split; [exact H1|].
  right. split; [apply ident_list_ok_nonempty, H1|]. split; [reflexivity|].
  apply parts_ok; assumption.
Qed.

Lemma pad3 a b c : pad_nums 3 [a; b; c] = [a; b; c].
Proof. reflexivity. Qed.

(* Lemma A: a spec-valid, small text is parsed by the model into a corresponding core *)
Lemma parse_corr s v :
  den_npm s = Some v -> sv_small v = true -> exists c, parse_core s = Some c /\ corr c v.
Proof.
  unfold den_npm, parse_loose. rewrite parse_core_scan.
  generalize (strip_prefixes npm_prefixes s). intros t. unfold parse_gen.
  pose proof (split2_spec "+"%char t) as SP.
  destruct (split2_c "+"%char t) as [main build].
  pose proof (split2_spec "-"%char main) as SM.
  destruct (split2_c "-"%char main) as [core prerel].
  destruct (match build with Some b => build_ok b | None => true end) eqn:BG; [|discriminate].
  destruct (parse_nums false 3 3 core) as [ns|] eqn:PN; [|discriminate].
  apply parse_nums_inv in PN. destruct PN as (d1 & d2 & d3 & Sp & N1 & N2 & N3 & ->).
  apply split3_text in Sp. rewrite pad3.
  assert (G : forall pre ids bld tail,
             parse_tail tail = Some (pre, bld) -> pre_corr pre ids ->
             t = core ++ tail ->
             sv_small {| nums := [digits_val d1; digits_val d2; digits_val d3]; SemVer.pre := ids |} = true ->
             exists c, scan t = Some c /\
               corr c {| nums := [digits_val d1; digits_val d2; digits_val d3]; SemVer.pre := ids |}).
  { intros pre ids bld tail Ht Hc -> Hs. subst core.
    unfold sv_small in Hs. cbn [nums forallb] in Hs. rewrite !andb_true_iff in Hs.
    destruct Hs as [(S1 & S2 & S3 & _) _]. apply N.ltb_lt in S1, S2, S3.
    eexists. split; [apply scan_digits_tail; eassumption|].
    exists (digits_val d1), (digits_val d2), (digits_val d3). cbn. auto 10. }
  destruct prerel as [p|].
  - destruct (parse_pre false p) as [ids|] eqn:PP; [|discriminate].
    intros H Hs. injection H as <-. destruct SM as [-> _].
    assert (Hi : forallb ident_small ids = true).
    { unfold sv_small in Hs. apply andb_true_iff in Hs. apply Hs. }
    destruct (pre_corr_of p ids PP Hi) as [IL PC].
    destruct build as [b|].
    + destruct SP as [-> _]. apply build_ok_ident_list in BG.
      apply (G p ids b ("-"%char :: p ++ "+"%char :: b)); auto.
      * apply parse_tail_pre_build; assumption.
      * rewrite <- app_assoc. reflexivity.
    + destruct SP as [<- _].
      apply (G p ids [] ("-"%char :: p)); auto. apply parse_tail_pre; assumption.
  - intros H Hs. injection H as <-. destruct SM as [-> _].
    destruct build as [b|].
    + destruct SP as [-> _]. apply build_ok_ident_list in BG.
      apply (G [] [] b ("+"%char :: b)); auto.
      * apply parse_tail_build; assumption.
      * left. auto.
    + destruct SP as [<- _].
      apply (G [] [] [] []); auto.
      * left. auto.
      * rewrite app_nil_r. reflexivity.
Qed.

(* ---------- Lemma B: on corresponding values Compare = precedence ---------- *)

Lemma thenc_eq_r c : thenc c Eq = c.
Proof. destruct c; reflexivity. Qed.

Lemma part_key_ok s : part_ok s ->
  part_key s = match ident_of s with
               | INum n => (1, (Z.of_N n, []))
               | IAlnum t => (2, (0%Z, t))
               end.
Proof.
  intros [Hne Hs]. unfold part_key, ident_of, parse_num, nonempty_digits, all_digits in *.
  destruct s as [|c r]; [contradiction|].
  destruct (forallb is_digit (c :: r)) eqn:D; [|reflexivity].
  rewrite (atoi_digits_small _ (Hs eq_refl)). reflexivity.
Qed.

Lemma part_cmp_ident a b : part_ok a -> part_ok b ->
  part_cmp a b = ident_cmp (ident_of a) (ident_of b).
Proof.
  intros Ha Hb. unfold part_cmp, cmp_on. rewrite (part_key_ok a Ha), (part_key_ok b Hb).
  destruct (ident_of a), (ident_of b); unfold lex2; cbn [fst snd ident_cmp].
  - change (1 ?= 1) with Eq. cbn [thenc]. rewrite N2Z.inj_compare.
    change (bytes_cmp [] []) with Eq. apply thenc_eq_r.
  - reflexivity.
  - reflexivity.
  - change (2 ?= 2) with Eq. cbn [thenc]. reflexivity.
Qed.

Lemma part_cmp_nil_r a : part_ok a -> part_cmp a [] = Gt.
Proof.
  intros Ha. unfold part_cmp, cmp_on. rewrite (part_key_ok a Ha).
  destruct (ident_of a); reflexivity.
Qed.

Lemma part_cmp_nil_l a : part_ok a -> part_cmp [] a = Lt.
Proof.
  intros Ha. unfold part_cmp, cmp_on. rewrite (part_key_ok a Ha).
  destruct (ident_of a); reflexivity.
Qed.

Lemma lex_pad_ident l1 l2 : Forall part_ok l1 -> Forall part_ok l2 ->
  lex_pad [] part_cmp l1 l2 = lex_short ident_cmp (map ident_of l1) (map ident_of l2).
Proof.
  intros F1. revert l2. induction F1 as [|a l1 Ha F1 IH]; intros l2 F2.
  - destruct F2 as [|b l2 Hb F2]; [reflexivity|].
    cbn [lex_pad lex_pad_l map lex_short]. rewrite (part_cmp_nil_l b Hb). reflexivity.
  - destruct F2 as [|b l2 Hb F2].
    + cbn [lex_pad map lex_short]. rewrite (part_cmp_nil_r a Ha). reflexivity.
    + cbn [lex_pad map lex_short]. rewrite (part_cmp_ident a b Ha Hb), (IH l2 F2). reflexivity.
Qed.

Lemma map_split_nonempty p : map ident_of (split_c "."%char p) <> [].
Proof. pose proof (split_c_nonempty "."%char p). destruct (split_c "."%char p); [contradiction|discriminate]. Qed.

Lemma pre_cmp_corr p1 i1 p2 i2 :
  pre_corr p1 i1 -> pre_corr p2 i2 -> Version.pre_cmp p1 p2 = SemVer.pre_cmp i1 i2.
Proof.
  intros H1 H2. unfold Version.pre_cmp, SemVer.pre_cmp, cmp_on.
  assert (K : forall p i, pre_corr p i ->
            (Version.pre_key p = None /\ SemVer.pre_key i = None) \/
            (exists l, Version.pre_key p = Some l /\ SemVer.pre_key i = Some (map ident_of l)
                       /\ Forall part_ok l)).
  { intros p i [[-> ->]|(Hne & -> & F)]; [left; auto|right].
    exists (split_c "."%char p). split; [|split; [|exact F]].
    - destruct p; [contradiction|reflexivity].
    - pose proof (map_split_nonempty p). unfold SemVer.pre_key.
      destruct (map ident_of (split_c "."%char p)); [contradiction|reflexivity]. }
  destruct (K p1 i1 H1) as [[-> ->]|(l1 & -> & -> & F1)];
    destruct (K p2 i2 H2) as [[-> ->]|(l2 & -> & -> & F2)]; cbn [opt_last]; try reflexivity.
  apply lex_pad_ident; assumption.
Qed.

Lemma cmp_core_prec c1 v1 c2 v2 : corr c1 v1 -> corr c2 v2 -> cmp_core c1 c2 = prec v1 v2.
Proof.
  intros (x1 & y1 & z1 & A1 & B1 & C1 & N1 & P1) (x2 & y2 & z2 & A2 & B2 & C2 & N2 & P2).
  unfold cmp_core, prec, lexc, cmp_on. rewrite A1, B1, C1, A2, B2, C2, N1, N2.
  rewrite !N2Z.inj_compare, nums_cmp_3, (pre_cmp_corr _ _ _ _ P1 P2).
  destruct (x1 ?= x2), (y1 ?= y2), (z1 ?= z2); reflexivity.
Qed.

(* ---------- a spec-valid text contains no whitespace ---------- *)

Definition okc (c : ascii) : bool := is_ident_c c || ceqb "."%char c || ceqb "+"%char c.

Lemma okc_no_space c : okc c = true -> negb (is_space c) = true.
Proof. destruct c as [[] [] [] [] [] [] [] []]; vm_compute; auto. Qed.

Lemma ident_list_okc p : ident_list_ok p = true -> forallb okc p = true.
Proof.
  intros H. unfold ident_list_ok in H.
  apply (forallb_impl (fun c => is_ident_c c || ceqb "."%char c)).
  - intros c Hc. unfold okc. rewrite Hc. reflexivity.
  - apply split_c_chars. revert H. apply forallb_impl. intros part. destruct part; [discriminate|auto].
Qed.

Lemma digits_okc d : nonempty_digits d = true -> forallb okc d = true.
Proof.
  intros H. apply nonempty_digits_inv in H. destruct H as [_ H]. revert H.
  apply forallb_impl. intros c Hc. unfold okc. rewrite (digit_ident c Hc). reflexivity.
Qed.

Lemma parse_gen_chars t v : parse_gen false 3 3 t = Some v -> forallb okc t = true.
Proof.
  unfold parse_gen.
  pose proof (split2_spec "+"%char t) as SP.
  destruct (split2_c "+"%char t) as [main build].
  pose proof (split2_spec "-"%char main) as SM.
  destruct (split2_c "-"%char main) as [core prerel].
  destruct (match build with Some b => build_ok b | None => true end) eqn:BG; [|discriminate].
  destruct (parse_nums false 3 3 core) as [ns|] eqn:PN; [|discriminate].
  apply parse_nums_inv in PN. destruct PN as (d1 & d2 & d3 & Sp & N1 & N2 & N3 & ->).
  apply split3_text in Sp.
  assert (Hcore : forallb okc core = true).
  { subst core. rewrite forallb_app. cbn [forallb]. rewrite forallb_app. cbn [forallb].
    rewrite (digits_okc d1 N1), (digits_okc d2 N2), (digits_okc d3 N3). reflexivity. }
  assert (Hmain : match prerel with Some p => parse_pre false p <> None | None => True end ->
                  forallb okc main = true).
  { destruct prerel as [p|]; intros Hp.
    - destruct SM as [-> _]. rewrite forallb_app, Hcore. cbn [forallb andb].
      destruct (parse_pre false p) as [ids|] eqn:PP; [|contradiction].
      apply parse_pre_inv in PP. destruct PP as [IL _]. rewrite (ident_list_okc p IL). reflexivity.
    - destruct SM as [-> _]. exact Hcore. }
  intros H.
  assert (Hm : forallb okc main = true).
  { apply Hmain. destruct prerel as [p|]; [|exact I].
    destruct (parse_pre false p); [discriminate|discriminate]. }
  destruct build as [b|].
  - destruct SP as [-> _]. rewrite forallb_app, Hm. cbn [forallb andb].
    apply ident_list_okc, BG.
  - destruct SP as [<- _]. exact Hm.
Qed.

Lemma no_sp_trim_prefix c s : is_space c = false -> no_sp (trim_prefix [c] s) = true -> no_sp s = true.
Proof.
  intros Hc. unfold trim_prefix. destruct (has_prefix [c] s) eqn:E; [|auto].
  destruct s as [|x r]; [discriminate|]. cbn [has_prefix] in E. rewrite andb_true_r in E.
  apply ceqb_eq in E. subst x. cbn [length skipn]. intros H. cbn [no_sp forallb].
  rewrite Hc. exact H.
Qed.

Theorem valid_no_space s v : den_npm s = Some v -> trim_space s = s.
Proof.
  unfold den_npm, parse_loose. intros H. apply parse_gen_chars in H.
  apply trim_space_no_sp.
  apply (no_sp_trim_prefix "v"%char); [reflexivity|].
  apply (no_sp_trim_prefix "="%char); [reflexivity|].
  apply (no_sp_trim_prefix "v"%char); [reflexivity|].
  revert H. apply forallb_impl, okc_no_space.
Qed.

(* ---------- "at most 18 digits" is inside the scope ---------- *)

Lemma digit_val_lt c : is_digit c = true -> digit_val c < 10.
Proof.
  unfold is_digit, in_range, digit_val. intros H. apply andb_true_iff in H.
  destruct H as [H1 H2]. apply N.leb_le in H1, H2. lia.
Qed.

Lemma digits_val_lt s : forallb is_digit s = true -> digits_val s < 10 ^ N.of_nat (length s).
Proof.
  induction s as [|c s IH]; [reflexivity|]. cbn [forallb]. intros H.
  apply andb_true_iff in H. destruct H as [H1 H2].
  rewrite digits_val_cons. cbn [length]. rewrite Nat2N.inj_succ, N.pow_succ_r'.
  pose proof (digit_val_lt c H1). pose proof (IH H2). nia.
Qed.

Lemma digits18_small s :
  forallb is_digit s = true -> (length s <= 18)%nat -> digits_val s < two63.
Proof.
  intros H L. pose proof (digits_val_lt s H) as B.
  assert (10 ^ N.of_nat (length s) <= 10 ^ 18) by (apply N.pow_le_mono_r; lia).
  unfold two63. change (10 ^ 18) with 1000000000000000000 in *. lia.
Qed.

(* ---------- the theorems ---------- *)

Definition sp_valid (s : bytes) : bool := isSome (den_npm s).

Lemma in_scope_inv s v : in_scope s = true -> den_npm s = Some v ->
  trim_space s = s /\ sv_small v = true.
Proof.
  unfold in_scope. intros H E. rewrite E in H. split; [apply (valid_no_space s v E)|exact H].
Qed.

Lemma vparse_scope s v : in_scope s = true -> den_npm s = Some v ->
  exists c, VLayer.parse parse_core raw_orig s = Some {| v_core := c; v_orig := s |} /\ corr c v.
Proof.
  intros Hs E. destruct (in_scope_inv s v Hs E) as [T S].
  destruct (parse_corr s v E S) as (c & Pc & Cc).
  exists c. split; [|exact Cc]. unfold VLayer.parse. rewrite T, Pc. reflexivity.
Qed.

Theorem npm_cmp_is_spec a b :
  in_scope a = true -> in_scope b = true -> sp_valid a = true -> sp_valid b = true ->
  v_cmp Npm.Entry.v a b = spec_cmp_with den_npm a b.
Proof.
  unfold sp_valid. intros Sa Sb Va Vb.
  destruct (den_npm a) as [va|] eqn:Ea; [|discriminate].
  destruct (den_npm b) as [vb|] eqn:Eb; [|discriminate].
  destruct (vparse_scope a va Sa Ea) as (ca & Pa & Ca).
  destruct (vparse_scope b vb Sb Eb) as (cb & Pb & Cb).
  unfold spec_cmp_with. rewrite Ea, Eb.
  cbn [v_cmp Npm.Entry.v mk_vops]. rewrite Pa, Pb. f_equal.
  unfold VLayer.cmp. cbn [v_core]. apply cmp_core_prec; assumption.
Qed.

Theorem npm_accepts_spec_valid s :
  in_scope s = true -> sp_valid s = true -> exists t, v_show Npm.Entry.v s = Some t.
Proof.
  unfold sp_valid. intros Ss Vs.
  destruct (den_npm s) as [v|] eqn:E; [|discriminate].
  destruct (vparse_scope s v Ss E) as (c & Pc & _).
  cbn [v_show Npm.Entry.v mk_vops]. rewrite Pc. cbn. eauto.
Qed.

(* ---------- outside the scope the Go code deviates ---------- *)

(* an all-digit identifier >= 2^63 is compared as text: 10^20 sorts below 99999999999999999999 *)
Lemma npm_cmp_is_spec_refuted :
  exists a b, sp_valid a = true /\ sp_valid b = true /\
    v_cmp Npm.Entry.v a b = Some Gt /\ spec_cmp_with den_npm a b = Some Lt.
Proof.
  exists $"1.0.0-99999999999999999999", $"1.0.0-100000000000000000000".
  vm_compute. auto 10.
Qed.

(* ... and sorts above every alphanumeric-free comparison it should lose: numeric < alphanumeric
   is also lost (it is ordered as text against "A") *)
Lemma npm_cmp_is_spec_refuted_rank :
  v_cmp Npm.Entry.v $"1.0.0-9223372036854775808" $"1.0.0-A" = Some Lt /\
  v_cmp Npm.Entry.v $"1.0.0-9223372036854775808" $"1.0.0-9223372036854775807" = Some Gt /\
  v_cmp Npm.Entry.v $"1.0.0-9223372036854775808" $"1.0.0-10000000000000000000" = Some Gt /\
  spec_cmp_with den_npm $"1.0.0-9223372036854775808" $"1.0.0-10000000000000000000" = Some Lt.
Proof. vm_compute. auto. Qed.

(* a numeric component >= 2^63 is spec-valid but rejected *)
Lemma npm_accepts_spec_valid_refuted :
  sp_valid $"9223372036854775808.0.0" = true /\ v_show Npm.Entry.v $"9223372036854775808.0.0" = None.
Proof. vm_compute. auto. Qed.

(* the reference does not trim: surrounding whitespace is outside its domain *)
Lemma spec_rejects_padding : sp_valid $" 1.2.3" = false /\ v_show Npm.Entry.v $" 1.2.3" = Some $"1.2.3".
Proof. vm_compute. auto. Qed.

Print Assumptions npm_cmp_is_spec.
Print Assumptions npm_accepts_spec_valid.
Print Assumptions npm_cmp_is_spec_refuted.
Print Assumptions npm_accepts_spec_valid_refuted.
