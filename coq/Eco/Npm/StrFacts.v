(* Base/StrFacts.v — facts about the string primitives of Base/Bytes.v used by the range-grammar
   proofs: absence of a byte ([contains_c x s = false]) versus [cut]/[has_prefix]/[has_suffix]/
   [split_sub]/[split_c]/[fields], and [trim_space] on strings with non-space ends. *)
From Coq Require Import Lia.
From Verif.Base Require Import Bytes BytesFacts.

Lemma contains_c_app x a b : contains_c x (a ++ b) = contains_c x a || contains_c x b.
Proof. unfold contains_c. apply existsb_app. Qed.

Lemma contains_c_rev x s : contains_c x (rev s) = contains_c x s.
Proof.
  unfold contains_c. induction s as [|c s IH]; [reflexivity|].
  cbn [rev existsb]. rewrite existsb_app, IH. cbn [existsb]. rewrite orb_false_r. apply orb_comm.
Qed.

Lemma contains_c_cons x c s : contains_c x (c :: s) = ceqb x c || contains_c x s.
Proof. reflexivity. Qed.

(* a string that lacks the first byte of the separator does not contain the separator *)
Lemma cut_lacks x sep s : contains_c x s = false -> cut (x :: sep) s = None.
Proof.
  induction s as [|c s IH]; intros H.
  - reflexivity.
  - rewrite contains_c_cons in H. apply orb_false_iff in H. destruct H as [H1 H2].
    cbn [cut has_prefix]. rewrite H1. cbn [andb]. rewrite (IH H2). reflexivity.
Qed.

Lemma contains_sub_lacks x sep s : contains_c x s = false -> contains_sub (x :: sep) s = false.
Proof. intros H. unfold contains_sub. rewrite (cut_lacks x sep s H). reflexivity. Qed.

Lemma has_prefix_contains p s x :
  has_prefix p s = true -> contains_c x p = true -> contains_c x s = true.
Proof.
  revert s. induction p as [|c p IH]; intros s H Hx; [discriminate|].
  destruct s as [|d s]; [discriminate|]. cbn [has_prefix] in H.
  apply andb_true_iff in H. destruct H as [H1 H2]. apply ceqb_eq in H1. subst d.
  rewrite contains_c_cons in *. apply orb_true_iff in Hx. destruct Hx as [Hx|Hx].
  - rewrite Hx. reflexivity.
  - rewrite (IH s H2 Hx). apply orb_true_r.
Qed.

Lemma has_prefix_lacks p s x :
  contains_c x p = true -> contains_c x s = false -> has_prefix p s = false.
Proof.
  intros Hp Hs. destruct (has_prefix p s) eqn:E; [|reflexivity].
  rewrite (has_prefix_contains p s x E Hp) in Hs. discriminate.
Qed.

Lemma has_suffix_lacks p s x :
  contains_c x p = true -> contains_c x s = false -> has_suffix p s = false.
Proof.
  intros Hp Hs. unfold has_suffix. apply (has_prefix_lacks _ _ x); rewrite contains_c_rev; assumption.
Qed.

Lemma trim_prefix_lacks x s : contains_c x s = false -> trim_prefix [x] s = s.
Proof.
  intros H. unfold trim_prefix. rewrite (has_prefix_lacks [x] s x); auto.
  unfold contains_c. cbn. rewrite ceqb_refl. reflexivity.
Qed.

Lemma trim_suffix_lacks x s : contains_c x s = false -> trim_suffix [x] s = s.
Proof.
  intros H. unfold trim_suffix. rewrite (has_suffix_lacks [x] s x); auto.
  unfold contains_c. cbn. rewrite ceqb_refl. reflexivity.
Qed.

Lemma has_prefix_self p s : has_prefix p (p ++ s) = true.
Proof. induction p as [|c p IH]; [reflexivity|]. cbn. rewrite ceqb_refl. exact IH. Qed.

Lemma skipn_self {A} (p s : list A) : skipn (length p) (p ++ s) = s.
Proof. induction p; simpl; auto. Qed.

(* the first occurrence of the separator is after a prefix lacking its first byte *)
Lemma cut_app x sep a b :
  contains_c x a = false -> cut (x :: sep) (a ++ (x :: sep) ++ b) = Some (a, b).
Proof.
  induction a as [|c a IH]; intros H.
  - pose proof (has_prefix_self (x :: sep) b) as P.
    pose proof (skipn_self (x :: sep) b) as Q.
    cbn [app] in *. cbn [cut]. rewrite P, Q. reflexivity.
  - rewrite contains_c_cons in H. apply orb_false_iff in H. destruct H as [H1 H2].
    cbn [app cut has_prefix]. rewrite H1. cbn [andb]. cbn [app] in IH. rewrite (IH H2). reflexivity.
Qed.

Lemma split_sub_two x sep a b :
  contains_c x a = false -> contains_c x b = false ->
  split_sub (x :: sep) (a ++ (x :: sep) ++ b) = [a; b].
Proof.
  intros Ha Hb. unfold split_sub.
  cbn [split_sub_fuel]. rewrite (cut_app x sep a b Ha).
  destruct (length (a ++ (x :: sep) ++ b)) eqn:L.
  - rewrite !app_length in L. cbn in L. lia.
  - cbn [split_sub_fuel]. rewrite (cut_lacks x sep b Hb). reflexivity.
Qed.

Lemma split_sub_none x sep s : contains_c x s = false -> split_sub (x :: sep) s = [s].
Proof. intros H. unfold split_sub. cbn [split_sub_fuel]. rewrite (cut_lacks x sep s H). reflexivity. Qed.

(* split_c on a first field lacking the separator *)
Lemma split_c_lacks sep s : contains_c sep s = false -> split_c sep s = [s].
Proof.
  induction s as [|c s IH]; intros H; [reflexivity|].
  rewrite contains_c_cons in H. apply orb_false_iff in H. destruct H as [H1 H2].
  cbn [split_c]. rewrite H1, (IH H2). reflexivity.
Qed.

Lemma split_c_app sep a r :
  contains_c sep a = false -> split_c sep (a ++ sep :: r) = a :: split_c sep r.
Proof.
  induction a as [|c a IH]; intros H.
  - cbn [app split_c]. rewrite ceqb_refl. reflexivity.
  - rewrite contains_c_cons in H. apply orb_false_iff in H. destruct H as [H1 H2].
    cbn [app split_c]. rewrite H1, (IH H2). reflexivity.
Qed.

(* first field of a split when a separator-free prefix is prepended *)
Lemma split_c_prepend sep p s :
  contains_c sep p = false ->
  split_c sep (p ++ s) = match split_c sep s with
                         | f :: fs => (p ++ f) :: fs
                         | [] => [p]
                         end.
Proof.
  induction p as [|c p IH]; intros H.
  - cbn [app]. destruct (split_c sep s) eqn:E; [|reflexivity].
    destruct s; cbn [split_c] in E; [discriminate|].
    destruct (ceqb sep a); [discriminate|]. destruct (split_c sep s); discriminate.
  - rewrite contains_c_cons in H. apply orb_false_iff in H. destruct H as [H1 H2].
    cbn [app split_c]. rewrite H1, (IH H2).
    destruct (split_c sep s); reflexivity.
Qed.

(* ---------- trim_space on strings whose ends are not spaces ---------- *)

Definition hd_nonspace (s : bytes) : bool :=
  match s with c :: _ => negb (is_space c) | [] => false end.
Definition last_nonspace (s : bytes) : bool := hd_nonspace (rev s).

Lemma trim_space_ends s : hd_nonspace s = true -> last_nonspace s = true -> trim_space s = s.
Proof.
  intros H1 H2. unfold trim_space.
  destruct s as [|c t]; [discriminate|]. cbn in H1. apply negb_true_iff in H1.
  rewrite (trim_left_of_nonspace c t H1).
  unfold trim_right. unfold last_nonspace in H2.
  destruct (rev (c :: t)) as [|l r] eqn:E; [discriminate|].
  cbn in H2. apply negb_true_iff in H2. cbn [drop_while]. rewrite H2.
  rewrite <- E. apply rev_involutive.
Qed.

Lemma hd_nonspace_app a b : hd_nonspace a = true -> hd_nonspace (a ++ b) = true.
Proof. destruct a; [discriminate|auto]. Qed.

Lemma last_nonspace_app a b : last_nonspace b = true -> last_nonspace (a ++ b) = true.
Proof. unfold last_nonspace. rewrite rev_app_distr. apply hd_nonspace_app. Qed.

Definition no_sp (s : bytes) : bool := forallb (fun c => negb (is_space c)) s.

Lemma no_sp_hd s : s <> [] -> no_sp s = true -> hd_nonspace s = true.
Proof.
  destruct s; [contradiction|]. intros _ H. cbn in *. apply andb_true_iff in H. tauto.
Qed.

Lemma no_sp_last s : s <> [] -> no_sp s = true -> last_nonspace s = true.
Proof.
  intros Hne H. unfold last_nonspace. apply no_sp_hd.
  - intros E. apply Hne. rewrite <- (rev_involutive s), E. reflexivity.
  - unfold no_sp. rewrite forallb_rev. exact H.
Qed.

Lemma no_sp_lacks s x : is_space x = true -> no_sp s = true -> contains_c x s = false.
Proof.
  intros Hx. induction s as [|c s IH]; [reflexivity|]. cbn [no_sp forallb].
  intros H. apply andb_true_iff in H. destruct H as [H1 H2].
  rewrite contains_c_cons, (IH H2), orb_false_r.
  destruct (ceqb x c) eqn:E; [|reflexivity]. apply ceqb_eq in E. subst c.
  rewrite Hx in H1. discriminate.
Qed.

Lemma trim_space_no_sp s : no_sp s = true -> trim_space s = s.
Proof.
  intros H. destruct s as [|c t] eqn:E; [reflexivity|]. rewrite <- E in *.
  apply trim_space_ends; [apply no_sp_hd|apply no_sp_last]; auto; subst; discriminate.
Qed.

(* ---------- fields ---------- *)

Lemma fields_aux_run cur w rest :
  no_sp w = true -> fields_aux cur (w ++ rest) = fields_aux (rev w ++ cur) rest.
Proof.
  revert cur. induction w as [|c w IH]; intros cur H; [reflexivity|].
  cbn [no_sp forallb] in H. apply andb_true_iff in H. destruct H as [H1 H2].
  apply negb_true_iff in H1. cbn [app fields_aux]. rewrite H1.
  rewrite (IH (c :: cur) H2). cbn [rev]. rewrite <- app_assoc. reflexivity.
Qed.

Lemma fields_word w : w <> [] -> no_sp w = true -> fields w = [w].
Proof.
  intros Hne H. unfold fields. rewrite <- (app_nil_r w) at 1.
  rewrite (fields_aux_run [] w [] H). rewrite app_nil_r. cbn [fields_aux].
  destruct (rev w) eqn:E.
  - exfalso. apply Hne. rewrite <- (rev_involutive w), E. reflexivity.
  - rewrite <- E, rev_involutive. reflexivity.
Qed.

Lemma fields_two a sp b :
  a <> [] -> b <> [] -> no_sp a = true -> no_sp b = true -> is_space sp = true ->
  fields (a ++ sp :: b) = [a; b].
Proof.
  intros Ha Hb Na Nb Hs. unfold fields.
  rewrite (fields_aux_run [] a (sp :: b) Na). rewrite app_nil_r. cbn [fields_aux]. rewrite Hs.
  destruct (rev a) eqn:E.
  - exfalso. apply Ha. rewrite <- (rev_involutive a), E. reflexivity.
  - rewrite <- E, rev_involutive. f_equal. apply (fields_word b Hb Nb).
Qed.
