(* Eco/Npm/Version.v — model of pkg/ecosystem/npm/version.go (definitions only). *)
From Verif.Base Require Import Bytes GoNum.
From Verif.Eco Require Import VLayer.
Local Open Scope N_scope.

Record core := {
  major : Z;
  minor : Z;
  patch : Z;
  prerelease : bytes;   (* "" = none (the regexp group cannot match the empty string) *)
  build : bytes
}.

(* [0-9A-Za-z-] *)
Definition is_ident_c (c : ascii) : bool := is_alnum c || ceqb c "-"%char.

(* [0-9A-Za-z-]+(?:\.[0-9A-Za-z-]+)*  against a whole string *)
Definition ident_list_ok (s : bytes) : bool :=
  forallb (fun p => match p with [] => false | _ => forallb is_ident_c p end)
          (split_c "."%char s).

(* (\d+)\.  — digits (greedy; the next byte must be the dot, so no backtracking matters) *)
Definition num_dot (s : bytes) : option (bytes * bytes) :=
  match take_while is_digit s, drop_while is_digit s with
  | (_ :: _) as d, c :: r => if ceqb c "."%char then Some (d, r) else None
  | _, _ => None
  end.

Definition not_plus (c : ascii) : bool := negb (ceqb c "+"%char).

(* (?:-(pre))?(?:\+(build))?$ : the pre-release cannot contain '+', so it extends from the
   first '-' to the first '+' (or the end); the build is everything after that '+' *)
Definition parse_tail (r : bytes) : option (bytes * bytes) :=
  let '(p, r') :=
    match r with
    | c :: r1 =>
        if ceqb c "-"%char then (Some (take_while not_plus r1), drop_while not_plus r1)
        else (None, r)
    | [] => (None, r)
    end in
  let pre_ok := match p with Some p => ident_list_ok p | None => true end in
  let pre := match p with Some p => p | None => [] end in
  if pre_ok then
    match r' with
    | [] => Some (pre, [])
    | c :: b => if ceqb c "+"%char && ident_list_ok b then Some (pre, b) else None
    end
  else None.

(* strconv.Atoi on a non-empty digit string: only the range error is possible *)
Definition atoi_digits (d : bytes) : option Z :=
  let n := digits_val d in if n <? two63 then Some (Z.of_N n) else None.

(* NewVersion after TrimSpace: TrimPrefix "v", TrimPrefix "=", then
   ^v?(\d+)\.(\d+)\.(\d+)(?:-pre)?(?:\+build)?$ and the three Atoi calls *)
Definition parse_core (t : bytes) : option core :=
  let t := trim_prefix $"v" t in
  let t := trim_prefix $"=" t in
  let t := trim_prefix $"v" t in
  match num_dot t with
  | Some (ma, r1) =>
      match num_dot r1 with
      | Some (mi, r2) =>
          match take_while is_digit r2 with
          | [] => None
          | pa =>
              match parse_tail (drop_while is_digit r2) with
              | Some (pre, b) =>
                  match atoi_digits ma, atoi_digits mi, atoi_digits pa with
                  | Some x, Some y, Some z =>
                      Some {| major := x; minor := y; patch := z; prerelease := pre; build := b |}
                  | _, _, _ => None
                  end
              | None => None
              end
          end
      | None => None
      end
  | None => None
  end.

(* parseNum: digits only (TrimLeft(s, "0123456789") == ""), and Atoi succeeds — so the empty
   string and digit strings >= 2^63 are NOT numeric *)
Definition parse_num (s : bytes) : option Z :=
  if nonempty_digits s then atoi_digits s else None.

(* key of one pre-release identifier: rank 0 = missing/empty, 1 = numeric, 2 = alphanumeric *)
Definition part_key (s : bytes) : N * (Z * bytes) :=
  match s with
  | [] => (0, (0%Z, []))
  | _ => match parse_num s with
         | Some n => (1, (n, []))
         | None => (2, (0%Z, s))
         end
  end.

Definition part_cmp : bytes -> bytes -> comparison :=
  cmp_on part_key (lex2 N.compare (lex2 Z.compare bytes_cmp)).

(* comparePrerelease: "" is greatest; otherwise identifier-wise, a missing identifier ("")
   being lowest *)
Definition pre_key (s : bytes) : option (list bytes) :=
  match s with [] => None | _ => Some (split_c "."%char s) end.

Definition pre_cmp : bytes -> bytes -> comparison :=
  cmp_on pre_key (opt_last (lex_pad [] part_cmp)).

Definition cmp_core : core -> core -> comparison :=
  lexc (cmp_on major Z.compare)
 (lexc (cmp_on minor Z.compare)
 (lexc (cmp_on patch Z.compare)
       (cmp_on prerelease pre_cmp))).

(* original: strings.TrimSpace(original) *)
Definition raw_orig := false.

Definition ver := VLayer.ver core.
Definition parse : bytes -> option ver := VLayer.parse parse_core raw_orig.
Definition cmp : ver -> ver -> comparison := VLayer.cmp cmp_core.
Definition show : ver -> bytes := VLayer.show.

(* normalize() *)
Definition normalize (c : core) : bytes :=
  dec_z (major c) ++ $"." ++ dec_z (minor c) ++ $"." ++ dec_z (patch c)
  ++ (match prerelease c with [] => [] | p => "-"%char :: p end)
  ++ (match build c with [] => [] | b => "+"%char :: b end).
