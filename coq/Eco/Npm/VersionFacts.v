(* Eco/Npm/VersionFacts.v — C01 for npm: Compare is a total preorder (on every core, not
   only parsed ones). *)
From Coq Require Import Lia.
From Verif.Base Require Import Bytes GoNum Ord BytesFacts.
From Verif.Eco.Npm Require Import DecFacts.
From Verif.Eco Require Import VLayer VLayerFacts.
From Verif.Eco.Npm Require Import Version.

Lemma part_cmp_tp : TotalPreorder part_cmp.
Proof.
  unfold part_cmp. apply TP_on, TP_lex2; [apply TP_N|].
  apply TP_lex2; [apply TP_Z|apply TP_bytes_cmp].
Qed.

Lemma pre_cmp_tp : TotalPreorder pre_cmp.
Proof. unfold pre_cmp. apply TP_on, TP_opt_last, TP_lex_pad, part_cmp_tp. Qed.

Lemma cmp_core_tp : TotalPreorder cmp_core.
Proof.
  unfold cmp_core.
  repeat (apply TP_lexc; [apply TP_on, TP_Z|]).
  apply TP_on, pre_cmp_tp.
Qed.

Lemma cmp_tp : TotalPreorder cmp.
Proof. apply VLayerFacts.cmp_tp, cmp_core_tp. Qed.


(* ---------- C03: numeric triples compare as integer triples ---------- *)

Local Open Scope N_scope.

Lemma digit_not c d : is_digit c = false -> is_digit d = true -> ceqb c d = false.
Proof.
  intros Hc Hd. destruct (ceqb c d) eqn:E; [|reflexivity].
  apply ceqb_eq in E. subst. congruence.
Qed.

Lemma trim_prefix_nondigit c d ds :
  is_digit c = false -> is_digit d = true -> trim_prefix [c] (d :: ds) = d :: ds.
Proof.
  intros Hc Hd. unfold trim_prefix. cbn [has_prefix]. rewrite (digit_not c d Hc Hd). reflexivity.
Qed.

Lemma num_dot_app ds r :
  ds <> [] -> forallb is_digit ds = true ->
  num_dot (ds ++ "."%char :: r) = Some (ds, r).
Proof.
  intros Hne Hd. unfold num_dot.
  rewrite (take_while_app_stop is_digit ds "."%char r Hd eq_refl).
  rewrite (drop_while_app_stop is_digit ds "."%char r Hd eq_refl).
  destruct ds; [contradiction|]. reflexivity.
Qed.

Lemma parse_tail_hd r x : parse_tail r = Some x ->
  match r with [] => True | c :: _ => is_digit c = false end.
Proof.
  destruct r as [|c r1]; [auto|]. unfold parse_tail.
  destruct (ceqb c "-"%char) eqn:E.
  - apply ceqb_eq in E. subst. reflexivity.
  - destruct (ceqb c "+"%char) eqn:E2.
    + apply ceqb_eq in E2. subst. reflexivity.
    + simpl. discriminate.
Qed.

Lemma atoi_digits_dec n : n < two63 -> atoi_digits (dec n) = Some (Z.of_N n).
Proof.
  intros H. unfold atoi_digits. rewrite dec_val.
  apply N.ltb_lt in H. rewrite H. reflexivity.
Qed.

(* "a.b.c" ++ tail *)
Definition triple_text (a b c : N) : bytes := join $"." (map dec [a; b; c]).

Lemma triple_text_eq a b c :
  triple_text a b c = dec a ++ "."%char :: dec b ++ "."%char :: dec c.
Proof. reflexivity. Qed.

Lemma parse_core_triple_tail a b c tail pre bld :
  a < two63 -> b < two63 -> c < two63 ->
  parse_tail tail = Some (pre, bld) ->
  parse_core (triple_text a b c ++ tail)
  = Some {| major := Z.of_N a; minor := Z.of_N b; patch := Z.of_N c;
            prerelease := pre; build := bld |}.
Proof.
  intros Ha Hb Hc Ht. rewrite triple_text_eq.
  pose proof (dec_nonempty a) as Na. pose proof (dec_digits a) as Da.
  pose proof (dec_nonempty b) as Nb. pose proof (dec_digits b) as Db.
  pose proof (dec_nonempty c) as Nc. pose proof (dec_digits c) as Dc.
  unfold parse_core.
  assert (P : forall x s, x = $"v" \/ x = $"=" ->
            trim_prefix x ((dec a ++ "."%char :: s)) = dec a ++ "."%char :: s).
  { intros x s Hx. destruct (dec a) as [|d ds] eqn:E; [contradiction|].
    cbn [forallb] in Da. apply andb_true_iff in Da. destruct Da as [Dd _].
    destruct Hx; subst x; apply trim_prefix_nondigit; auto. }
  rewrite <- !app_assoc. cbn [app].
  rewrite !P by auto.
  rewrite (num_dot_app (dec a) _ Na Da).
  rewrite <- app_assoc. cbn [app].
  rewrite (num_dot_app (dec b) _ Nb Db).
  pose proof (parse_tail_hd tail _ Ht) as Hh.
  assert (T : take_while is_digit (dec c ++ tail) = dec c /\
              drop_while is_digit (dec c ++ tail) = tail).
  { destruct tail as [|t tl].
    - rewrite app_nil_r. split; [apply take_while_all|apply drop_while_all]; assumption.
    - split; [apply take_while_app_stop|apply drop_while_app_stop]; assumption. }
  destruct T as [T1 T2]. rewrite T1, T2, Ht.
  pose proof (atoi_digits_dec c Hc) as A3.
  rewrite (atoi_digits_dec a Ha), (atoi_digits_dec b Hb).
  remember (dec c) as dc. destruct dc; [contradiction|]. rewrite A3. reflexivity.
Qed.

(* C03 (arity): the only arity npm accepts is three *)
Lemma parse_core_triple a b c :
  a < two63 -> b < two63 -> c < two63 ->
  parse_core (triple_text a b c)
  = Some {| major := Z.of_N a; minor := Z.of_N b; patch := Z.of_N c;
            prerelease := []; build := [] |}.
Proof.
  intros Ha Hb Hc.
  rewrite <- (app_nil_r (triple_text a b c)).
  apply parse_core_triple_tail; auto.
Qed.

Lemma cmp_core_triple a b c a' b' c' x y :
  a < two63 -> b < two63 -> c < two63 -> a' < two63 -> b' < two63 -> c' < two63 ->
  parse_core (triple_text a b c) = Some x ->
  parse_core (triple_text a' b' c') = Some y ->
  cmp_core x y = lex_short N.compare [a; b; c] [a'; b'; c'].
Proof.
  intros Ha Hb Hc Ha' Hb' Hc' Hx Hy.
  rewrite parse_core_triple in Hx, Hy by assumption.
  injection Hx as <-. injection Hy as <-.
  unfold cmp_core, lexc, cmp_on. cbn [major minor patch prerelease lex_short].
  rewrite !N2Z.inj_compare.
  unfold pre_cmp, cmp_on. cbn [pre_key opt_last].
  destruct (a ?= a'); destruct (b ?= b'); destruct (c ?= c'); reflexivity.
Qed.

(* C03 (markers): a pre-release is below its release; build metadata is ignored *)
Lemma prerelease_lt x y :
  major x = major y -> minor x = minor y -> patch x = patch y ->
  prerelease x <> [] -> prerelease y = [] -> cmp_core x y = Lt.
Proof.
  intros H1 H2 H3 Hx Hy. unfold cmp_core, lexc, cmp_on.
  rewrite H1, H2, H3, !Z.compare_refl. cbn [thenc].
  unfold pre_cmp, cmp_on, pre_key. rewrite Hy.
  destruct (prerelease x); [contradiction|reflexivity].
Qed.

Lemma build_ignored x y :
  major x = major y -> minor x = minor y -> patch x = patch y ->
  prerelease x = prerelease y -> cmp_core x y = Eq.
Proof.
  intros H1 H2 H3 H4. unfold cmp_core, lexc, cmp_on.
  rewrite H1, H2, H3, H4, !Z.compare_refl. cbn [thenc].
  apply (tp_refl pre_cmp_tp).
Qed.

(* string level: "a.b.c-pre" < "a.b.c" and "a.b.c+build" = "a.b.c" *)
Lemma ident_or_dot_not_plus c : is_ident_c c || ceqb "."%char c = true -> not_plus c = true.
Proof. destruct c as [[] [] [] [] [] [] [] []]; vm_compute; auto. Qed.

Lemma ident_list_no_plus p : ident_list_ok p = true -> forallb not_plus p = true.
Proof.
  intros H. unfold ident_list_ok in H.
  apply (forallb_impl _ _ _ ident_or_dot_not_plus).
  apply split_c_chars.
  revert H. apply forallb_impl. intros part. destruct part; [discriminate|auto].
Qed.

Lemma parse_tail_pre p : ident_list_ok p = true -> parse_tail ("-"%char :: p) = Some (p, []).
Proof.
  intros H. unfold parse_tail. change (ceqb "-"%char "-"%char) with true. cbv iota.
  pose proof (ident_list_no_plus p H) as NP.
  rewrite (take_while_all _ _ NP), (drop_while_all _ _ NP), H. reflexivity.
Qed.

Lemma parse_tail_pre_build p b :
  ident_list_ok p = true -> ident_list_ok b = true ->
  parse_tail ("-"%char :: p ++ "+"%char :: b) = Some (p, b).
Proof.
  intros H Hb. unfold parse_tail. change (ceqb "-"%char "-"%char) with true. cbv iota.
  pose proof (ident_list_no_plus p H) as NP.
  rewrite (take_while_app_stop not_plus p "+"%char b NP eq_refl),
          (drop_while_app_stop not_plus p "+"%char b NP eq_refl), H.
  change (ceqb "+"%char "+"%char) with true. rewrite Hb. reflexivity.
Qed.

Lemma parse_tail_build b : ident_list_ok b = true -> parse_tail ("+"%char :: b) = Some ([], b).
Proof.
  intros H. unfold parse_tail. change (ceqb "+"%char "-"%char) with false. cbv iota.
  change (ceqb "+"%char "+"%char) with true. rewrite H. reflexivity.
Qed.

(* "a.b.c-p" is accepted and is below "a.b.c"; "a.b.c+b" compares equal to "a.b.c" *)
Theorem prerelease_marker_lt a b c p :
  a < two63 -> b < two63 -> c < two63 -> ident_list_ok p = true ->
  exists x y, parse_core (triple_text a b c ++ "-"%char :: p) = Some x /\
              parse_core (triple_text a b c) = Some y /\ cmp_core x y = Lt.
Proof.
  intros Ha Hb Hc Hp.
  eexists; eexists. split; [|split].
  - apply parse_core_triple_tail; auto. apply parse_tail_pre, Hp.
  - apply parse_core_triple; auto.
  - apply prerelease_lt; try reflexivity. cbn [prerelease].
    destruct p; [discriminate|discriminate].
Qed.

Theorem build_marker_eq a b c bl :
  a < two63 -> b < two63 -> c < two63 -> ident_list_ok bl = true ->
  exists x y, parse_core (triple_text a b c ++ "+"%char :: bl) = Some x /\
              parse_core (triple_text a b c) = Some y /\ cmp_core x y = Eq.
Proof.
  intros Ha Hb Hc Hp.
  eexists; eexists. split; [|split].
  - apply parse_core_triple_tail; auto. apply parse_tail_build, Hp.
  - apply parse_core_triple; auto.
  - apply build_ignored; reflexivity.
Qed.

Print Assumptions cmp_tp.
Print Assumptions cmp_core_triple.
Print Assumptions prerelease_marker_lt.
Print Assumptions build_marker_eq.

(* ---------- observations (concrete, by computation) ---------- *)

Definition scmp (a b : bytes) : option comparison :=
  match parse a, parse b with Some x, Some y => Some (cmp x y) | _, _ => None end.

(* numeric identifiers that do not fit int64 are compared as text: 10^20 sorts BELOW 99999999999999999999 *)
Example big_numeric_identifier_as_text :
  scmp $"1.0.0-99999999999999999999" $"1.0.0-100000000000000000000" = Some Gt.
Proof. vm_compute. reflexivity. Qed.

(* leading zeros are accepted and ignored *)
Example leading_zeros : scmp $"01.2.3-01" $"1.2.3-1" = Some Eq.
Proof. vm_compute. reflexivity. Qed.

(* stacked prefixes *)
Example stacked_prefixes : scmp $"v=v1.2.3" $"1.2.3" = Some Eq /\ scmp $"vv1.2.3" $"=v1.2.3" = Some Eq.
Proof. vm_compute. auto. Qed.
