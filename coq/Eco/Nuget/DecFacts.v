(* Base/DecFacts.v — facts about fmt "%d" ([dec]) and reading it back
   ([digits_val], [atoi], [take_while is_digit]). *)
From Coq Require Import Lia.
From Verif.Base Require Import Bytes GoNum BytesFacts.
Local Open Scope N_scope.

Lemma pos_size_nat_bound p : N.pos p < 2 ^ N.of_nat (Pos.size_nat p).
Proof.
  induction p as [p IH|p IH|]; cbn [Pos.size_nat]; rewrite ?Nat2N.inj_succ, ?N.pow_succ_r'.
  - change (N.pos p~1) with (2 * N.pos p + 1). lia.
  - change (N.pos p~0) with (2 * N.pos p). lia.
  - reflexivity.
Qed.

Lemma size_nat_bound n : n < 2 ^ N.of_nat (S (N.size_nat n)).
Proof.
  rewrite Nat2N.inj_succ, N.pow_succ_r'.
  destruct n as [|p]; cbn [N.size_nat].
  - reflexivity.
  - pose proof (pos_size_nat_bound p). lia.
Qed.

Lemma code_chr n : n < 256 -> code (chr n) = n.
Proof. intros H. unfold code, chr. apply N_ascii_embedding. exact H. Qed.

Lemma digit_chr d : d < 10 -> is_digit (chr (48 + d)) = true /\ digit_val (chr (48 + d)) = d.
Proof.
  intros H. unfold is_digit, in_range, digit_val. rewrite code_chr by lia.
  split; [|lia]. apply andb_true_iff. split; apply N.leb_le; lia.
Qed.

Lemma digits_val_snoc s c : digits_val (s ++ [c]) = digits_val s * 10 + digit_val c.
Proof. unfold digits_val. rewrite fold_left_app. reflexivity. Qed.

(* the digits produced in front of the accumulator *)
Lemma dec_fuel_spec fuel : forall n acc,
  (0 < fuel)%nat -> n < 2 ^ N.of_nat fuel ->
  exists ds, dec_fuel fuel n acc = ds ++ acc /\ ds <> [] /\
             forallb is_digit ds = true /\ digits_val ds = n.
Proof.
  induction fuel as [|k IH]; intros n acc Hpos Hn; [lia|].
  cbn [dec_fuel].
  { assert (Hm : n mod 10 < 10) by (apply N.mod_lt; lia).
    destruct (digit_chr (n mod 10) Hm) as [Hd Hv].
    destruct (n <? 10) eqn:E.
    + apply N.ltb_lt in E. exists [chr (48 + n mod 10)]. repeat split.
      * discriminate.
      * cbn [forallb]. rewrite Hd. reflexivity.
      * unfold digits_val. cbn [fold_left]. rewrite Hv. rewrite N.mod_small by exact E. lia.
    + apply N.ltb_ge in E.
      assert (Hq : n / 10 < 2 ^ N.of_nat k).
      { rewrite Nat2N.inj_succ, N.pow_succ_r' in Hn.
        apply N.div_lt_upper_bound; lia. }
      assert (Hk : (0 < k)%nat).
      { destruct k; [|lia]. simpl in Hn. lia. }
      destruct (IH (n / 10) (chr (48 + n mod 10) :: acc) Hk Hq) as (ds & E1 & Hne & Hall & Hval).
      exists (ds ++ [chr (48 + n mod 10)]). repeat split.
      * rewrite E1, <- app_assoc. reflexivity.
      * destruct ds; discriminate.
      * rewrite forallb_app, Hall. cbn [forallb]. rewrite Hd. reflexivity.
      * rewrite digits_val_snoc, Hval, Hv.
        pose proof (N.div_mod n 10). lia. }
Qed.

Lemma dec_spec n :
  dec n <> [] /\ forallb is_digit (dec n) = true /\ digits_val (dec n) = n.
Proof.
  unfold dec.
  destruct (dec_fuel_spec (S (N.size_nat n)) n [] ltac:(lia) (size_nat_bound n))
    as (ds & E & Hne & Hall & Hval).
  rewrite E, app_nil_r. auto.
Qed.

Lemma dec_nonempty_digits n : nonempty_digits (dec n) = true.
Proof.
  destruct (dec_spec n) as (Hne & Hall & _). unfold nonempty_digits.
  destruct (dec n); [congruence|exact Hall].
Qed.

Lemma dec_hd n : exists c r, dec n = c :: r /\ is_digit c = true.
Proof.
  destruct (dec_spec n) as (Hne & Hall & _).
  destruct (dec n) as [|c r]; [congruence|]. simpl in Hall.
  apply andb_true_iff in Hall. destruct Hall as [Hc _]. eauto.
Qed.

Lemma digits_val_dec n : digits_val (dec n) = n.
Proof. apply dec_spec. Qed.

(* strconv.Atoi (fmt.Sprint n) = n below 2^63 *)
Lemma atoi_dec n : n < two63 -> atoi (dec n) = Some (Z.of_N n).
Proof.
  intros H. pose proof (dec_nonempty_digits n) as Hnd.
  destruct (dec_hd n) as (c & r & E & Hc).
  unfold atoi. rewrite E in *.
  assert (Hm : ceqb c "-"%char = false).
  { destruct (ceqb c "-"%char) eqn:X; [|reflexivity]. apply ceqb_eq in X. subst. discriminate. }
  assert (Hp : ceqb c "+"%char = false).
  { destruct (ceqb c "+"%char) eqn:X; [|reflexivity]. apply ceqb_eq in X. subst. discriminate. }
  rewrite Hm, Hp, Hnd, <- E, digits_val_dec.
  apply N.ltb_lt in H. rewrite H. reflexivity.
Qed.

Lemma take_while_app_all p (a b : bytes) :
  forallb p a = true -> take_while p (a ++ b) = a ++ take_while p b.
Proof.
  induction a as [|x a IH]; simpl; intros H; [reflexivity|].
  apply andb_true_iff in H. destruct H as [Hx H]. rewrite Hx, (IH H). reflexivity.
Qed.

Definition hd_not (p : ascii -> bool) (s : bytes) : Prop :=
  match s with [] => True | c :: _ => p c = false end.

Lemma take_while_hd_not p s : hd_not p s -> take_while p s = [].
Proof. destruct s; simpl; intros H; [reflexivity|rewrite H; reflexivity]. Qed.
Lemma drop_while_hd_not p s : hd_not p s -> drop_while p s = s.
Proof. destruct s; simpl; intros H; [reflexivity|rewrite H; reflexivity]. Qed.

(* reading a printed number back: the digit run is exactly [dec n] *)
Lemma take_digits_dec n rest :
  hd_not is_digit rest -> take_while is_digit (dec n ++ rest) = dec n.
Proof.
  intros H. destruct (dec_spec n) as (_ & Hall & _).
  rewrite (take_while_app_all _ _ _ Hall), (take_while_hd_not _ _ H). apply app_nil_r.
Qed.
Lemma drop_digits_dec n rest :
  hd_not is_digit rest -> drop_while is_digit (dec n ++ rest) = rest.
Proof.
  intros H. destruct (dec_spec n) as (_ & Hall & _).
  rewrite (drop_while_app_all _ _ _ Hall). apply drop_while_hd_not, H.
Qed.

Lemma take_while_all p (s : bytes) : forallb p s = true -> take_while p s = s.
Proof.
  intros H. rewrite <- (app_nil_r s) at 1. rewrite (take_while_app_all _ _ _ H). apply app_nil_r.
Qed.
Lemma drop_while_all p (s : bytes) : forallb p s = true -> drop_while p s = [].
Proof. apply drop_while_nil_iff. Qed.
