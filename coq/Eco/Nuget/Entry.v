From Verif.Base Require Import Bytes.
From Verif.Eco Require Import Iface.
From Verif.Eco.Nuget Require Version Range.

Definition v : vops := mk_vops Nuget.Version.parse_core Nuget.Version.cmp_core Nuget.Version.raw_orig.
Definition r : rops := {|
  r_show := fun vok s => option_map Nuget.Range.show (Nuget.Range.parse_range vok s);
  r_contains := fun vok vcmp rg ver =>
    match Nuget.Range.parse_range vok rg with
    | Some x => if vok ver then Some (Nuget.Range.contains vcmp x ver) else None
    | None => None
    end
|}.
Definition entry : eco := {| e_name := $"nuget"; e_v := v; e_r := r |}.
