(* Eco/Nuget/Range.v — model of pkg/ecosystem/nuget/range.go (definitions only).
   Bracket intervals, comma lists of comparator constraints, bare version = minimum. *)
From Verif.Base Require Import Bytes GoNum Ord.
From Verif.Gen Require Operators.
From Verif.Eco Require Import RangeCore.

(* operators := []string{">=", "<=", "!=", ">", "<", "="} in parseSingleConstraint *)
(* the list is generated from the Go source on every run (tools/gen -> Gen/Operators.v) *)
Definition nuget_ops : list bytes :=
  Eval cbv delta [Verif.Gen.Operators.nuget_ops] in Verif.Gen.Operators.nuget_ops.

Definition starts_c (c : ascii) (s : bytes) : bool :=
  match s with x :: _ => ceqb c x | [] => false end.
Definition ends_c (c : ascii) (s : bytes) : bool :=
  match last_c s with Some x => ceqb c x | None => false end.

(* rangeStr[1 : len(rangeStr)-1] *)
Definition inner (s : bytes) : bytes := removelast (tl s).

Definition is_nil (s : bytes) : bool := match s with [] => true | _ => false end.

Record range := { r_cs : list constraint; r_orig : bytes }.

Section Nuget.
  Variable vok : bytes -> bool.
  Variable vcmp : bytes -> bytes -> comparison.

  (* the common tail of parseInclusiveRange / parseExclusiveRange: both sides must parse *)
  Definition two_bounds (lo_op hi_op : bytes) (a b : bytes) : option (list constraint) :=
    if vok a then if vok b then Some [(lo_op, a); (hi_op, b)] else None else None.

  (* parseInclusiveRange: exactly two parts, both must parse *)
  Definition parse_incl (t : bytes) : option (list constraint) :=
    match split_c ","%char (inner t) with
    | [p0; p1] => two_bounds $">=" $"<=" (trim_space p0) (trim_space p1)
    | _ => None
    end.

  (* parseMixedRange, including the half-open forms *)
  Definition parse_mixed (t : bytes) : option (list constraint) :=
    let lo_op := if starts_c "["%char t then $">=" else $">" in
    let hi_op := if ends_c "]"%char t then $"<=" else $"<" in
    match split_c ","%char (inner t) with
    | [p0; p1] =>
        let a := trim_space p0 in
        let b := trim_space p1 in
        if is_nil a && negb (is_nil b) then
          if vok b then Some [(hi_op, b)] else None
        else if negb (is_nil a) && is_nil b then
          if vok a then Some [(lo_op, a)] else None
        else two_bounds lo_op hi_op a b
    | _ => None
    end.

  (* parseExclusiveRange: exactly one empty side is handed to parseMixedRange *)
  Definition parse_excl (t : bytes) : option (list constraint) :=
    match split_c ","%char (inner t) with
    | [p0; p1] =>
        let a := trim_space p0 in
        let b := trim_space p1 in
        if xorb (is_nil a) (is_nil b) then parse_mixed t
        else two_bounds $">" $"<" a b
    | _ => None
    end.

  (* parseSingleConstraint *)
  Definition parse_single (c : bytes) : option constraint :=
    let c := trim_space c in
    match first_prefix nuget_ops c with
    | Some (op, rest) =>
        let b := trim_space rest in
        if vok b then Some (op, b) else None
    | None => if vok c then Some ($">=", c) else None
    end.

  Fixpoint parse_parts (parts : list bytes) : option (list constraint) :=
    match parts with
    | [] => Some []
    | p :: r =>
        let p := trim_space p in
        match p with
        | [] => parse_parts r
        | _ =>
            match parse_single p with
            | None => None
            | Some c =>
                match parse_parts r with
                | Some cs => Some (c :: cs)
                | None => None
                end
            end
        end
    end.

  (* parseCommaSeparatedConstraints *)
  Definition parse_comma (t : bytes) : option (list constraint) :=
    if (starts_c "["%char t && negb (ends_c "]"%char t))
       || (starts_c "("%char t && negb (ends_c ")"%char t))
       || beq t $"[]" || beq t $"()"
    then None
    else
      match parse_parts (split_c ","%char t) with
      | Some [] => None
      | x => x
      end.

  (* what follows the bracket block of parseRange *)
  Definition parse_plain (t : bytes) : option (list constraint) :=
    if contains_c ","%char t then parse_comma t
    else if vok t then Some [($">=", t)] else None.

  (* parseRange on the trimmed, non-empty text *)
  Definition parse_cs (t : bytes) : option (list constraint) :=
    let lb := starts_c "["%char t in
    let lp := starts_c "("%char t in
    let rb := ends_c "]"%char t in
    let rp := ends_c ")"%char t in
    let comma := contains_c ","%char t in
    if (lb || lp) && (rb || rp) then
      if beq t $"[]" || beq t $"()" then None
      else if lb && rb && negb comma then
        let a := trim_space (inner t) in
        match a with
        | [] => None
        | _ => if vok a then Some [($"=", a)] else None
        end
      else if lb && rb && comma then parse_incl t
      else if lp && rp && comma then parse_excl t
      else if ((lb && rp) || (lp && rb)) && comma then parse_mixed t
      else parse_plain t
    else parse_plain t.

  Definition parse_range (s : bytes) : option range :=
    let t := trim_space s in
    match t with
    | [] => None
    | _ =>
        match parse_cs t with
        | Some cs => Some {| r_cs := cs; r_orig := t |}
        | None => None
        end
    end.

  (* constraint.matches *)
  Definition sat_constraint (v : bytes) (c : constraint) : bool :=
    sat (sem6 (fst c)) (vcmp v (snd c)).

  Definition contains (r : range) (v : bytes) : bool := forallb (sat_constraint v) (r_cs r).
  Definition show (r : range) : bytes := r_orig r.
End Nuget.
