(* Eco/Nuget/RangeFacts.v — facts about the nuget range model, for ARBITRARY oracles
   vok / vcmp (unless stated):
   C02 for the comma-list form, C05 for the bracket intervals, C20. *)
From Coq Require Import Lia.
From Verif.Base Require Import Bytes BytesFacts GoNum Ord.
From Verif.Eco Require Import RangeCore RangeCoreFacts Iface.
From Verif.Eco.Nuget Require Import Range.
From Verif.Eco.Nuget Require Entry.

(* ---------- characters and texts in scope ---------- *)

Definition bracket_c (c : ascii) : bool := existsb (ceqb c) $"[]()".
(* not whitespace, not a bracket *)
Definition nsb_c (c : ascii) : bool := negb (is_space c) && negb (bracket_c c).
(* additionally not the separator *)
Definition clean_c (c : ascii) : bool := nsb_c c && negb (ceqb ","%char c).
Definition nsb (s : bytes) : bool := forallb nsb_c s.
Definition clean (s : bytes) : bool := forallb clean_c s.

(* the scope clause of C02/C05 as a boolean: a non-empty bound text without whitespace,
   comma or bracket that does not begin with a comparator character *)
Definition bound_scope (a : bytes) : bool :=
  negb (is_nil a) && clean a && match a with [] => true | c :: _ => negb (opchar c) end.

Lemma clean_nsb s : clean s = true -> nsb s = true.
Proof.
  unfold clean, nsb. induction s as [|c s IH]; simpl; [reflexivity|].
  intros H. apply andb_true_iff in H. destruct H as [Hc H].
  unfold clean_c in Hc. apply andb_true_iff in Hc. destruct Hc as [Hc _].
  rewrite Hc. simpl. auto.
Qed.

Lemma nsb_no_space s : nsb s = true -> no_space s = true.
Proof.
  unfold nsb, no_space. induction s as [|c s IH]; simpl; [reflexivity|].
  intros H. apply andb_true_iff in H. destruct H as [Hc H].
  unfold nsb_c in Hc. apply andb_true_iff in Hc. destruct Hc as [Hc _].
  rewrite Hc. simpl. auto.
Qed.

Lemma clean_no_comma s : clean s = true -> contains_c ","%char s = false.
Proof.
  unfold clean, contains_c. induction s as [|c s IH]; simpl; [reflexivity|].
  intros H. apply andb_true_iff in H. destruct H as [Hc H].
  unfold clean_c in Hc. apply andb_true_iff in Hc. destruct Hc as [_ Hc].
  apply negb_true_iff in Hc. rewrite Hc. simpl. auto.
Qed.

Lemma clean_trim s : clean s = true -> trim_space s = s.
Proof. intros H. apply trim_space_no_space, nsb_no_space, clean_nsb, H. Qed.

Lemma nsb_app a b : nsb (a ++ b) = nsb a && nsb b.
Proof. unfold nsb. apply forallb_app. Qed.

Lemma ceqb_sym a b : ceqb a b = ceqb b a.
Proof. unfold ceqb. apply N.eqb_sym. Qed.

Lemma nsb_starts s c : nsb s = true -> bracket_c c = true -> starts_c c s = false.
Proof.
  destruct s as [|x s]; [reflexivity|]. simpl. intros H Hc.
  apply andb_true_iff in H. destruct H as [Hx _].
  unfold nsb_c in Hx. apply andb_true_iff in Hx. destruct Hx as [_ Hx].
  apply negb_true_iff in Hx.
  destruct (ceqb c x) eqn:E; [|reflexivity].
  apply ceqb_eq in E. subst. congruence.
Qed.

Lemma starts_false_beq c s r : starts_c c s = false -> beq s (c :: r) = false.
Proof.
  destruct s as [|x s]; [reflexivity|]. simpl. intros H.
  rewrite ceqb_sym, H. reflexivity.
Qed.

(* ---------- Split / Join ---------- *)

Lemma split_c_none s : contains_c ","%char s = false -> split_c ","%char s = [s].
Proof.
  unfold contains_c. induction s as [|c s IH]; simpl; [reflexivity|].
  intros H. apply orb_false_iff in H. destruct H as [Hc H].
  rewrite Hc, (IH H). reflexivity.
Qed.

Lemma split_c_app a r :
  contains_c ","%char a = false ->
  split_c ","%char (a ++ ","%char :: r) = a :: split_c ","%char r.
Proof.
  unfold contains_c. induction a as [|c a IH]; simpl; intros H.
  - reflexivity.
  - apply orb_false_iff in H. destruct H as [Hc H]. rewrite Hc, (IH H). reflexivity.
Qed.

Lemma split_join ps :
  ps <> [] -> Forall (fun p => contains_c ","%char p = false) ps ->
  split_c ","%char (join $"," ps) = ps.
Proof.
  induction ps as [|x ps IH]; [congruence|].
  intros _ H. inversion H as [|? ? Hx Hps]; subst.
  destruct ps as [|y ps].
  - simpl. apply split_c_none, Hx.
  - change (join $"," (x :: y :: ps)) with (x ++ ","%char :: join $"," (y :: ps)).
    rewrite (split_c_app x _ Hx), IH; [reflexivity|discriminate|assumption].
Qed.

Lemma contains_c_app c a b : contains_c c (a ++ b) = contains_c c a || contains_c c b.
Proof. unfold contains_c. apply existsb_app. Qed.

Lemma join_two_plus x y ps : join $"," (x :: y :: ps) = x ++ ","%char :: join $"," (y :: ps).
Proof. reflexivity. Qed.

Lemma nsb_join ps : Forall (fun p => nsb p = true) ps -> nsb (join $"," ps) = true.
Proof.
  induction ps as [|x ps IH]; intros H; [reflexivity|].
  inversion H as [|? ? Hx Hps]; subst.
  destruct ps as [|y ps]; [exact Hx|].
  rewrite join_two_plus, nsb_app, Hx. simpl. apply IH, Hps.
Qed.

(* ---------- the comma-list form (C02) ---------- *)

Lemma nuget_ops_ok : ops_ok nuget_ops = true.
Proof. reflexivity. Qed.

Lemma nuget_op_facts op : In op nuget_ops -> is_nil op = false /\ nsb op = true /\ clean op = true.
Proof.
  simpl. intros H. repeat destruct H as [<-|H]; try contradiction; repeat split; reflexivity.
Qed.

(* one element of a comma list: nothing (empty part), a bare bound, or operator + bound *)
Definition item := option constraint.
Definition itext (it : item) : bytes :=
  match it with None => [] | Some (op, a) => op ++ a end.
Definition inorm (it : item) : list constraint :=
  match it with
  | None => []
  | Some (op, a) => [(if is_nil op then $">=" else op, a)]
  end.

Section Facts.
  Variable vok : bytes -> bool.
  Variable vcmp : bytes -> bytes -> comparison.

  Definition item_ok (it : item) : Prop :=
    match it with
    | None => True
    | Some (op, a) => (op = [] \/ In op nuget_ops) /\ bound_scope a = true /\ vok a = true
    end.

  Lemma bound_scope_facts a :
    bound_scope a = true ->
    a <> [] /\ clean a = true /\ match a with [] => True | c :: _ => opchar c = false end.
  Proof.
    unfold bound_scope. intros H.
    apply andb_true_iff in H. destruct H as [H H3].
    apply andb_true_iff in H. destruct H as [H1 H2].
    repeat split; try assumption.
    - destruct a; [discriminate|discriminate].
    - destruct a; [exact I|]. apply negb_true_iff in H3. exact H3.
  Qed.

  Lemma item_nsb it : item_ok it -> nsb (itext it) = true.
  Proof.
    destruct it as [[op a]|]; simpl; [|reflexivity].
    intros (Hop & Hs & _). apply bound_scope_facts in Hs. destruct Hs as (_ & Hc & _).
    rewrite nsb_app, (clean_nsb a Hc), andb_true_r.
    destruct Hop as [->|Hin]; [reflexivity|]. apply (nuget_op_facts op Hin).
  Qed.

  Lemma item_no_comma it : item_ok it -> contains_c ","%char (itext it) = false.
  Proof.
    destruct it as [[op a]|]; simpl; [|reflexivity].
    intros (Hop & Hs & _). apply bound_scope_facts in Hs. destruct Hs as (_ & Hc & _).
    rewrite contains_c_app, (clean_no_comma a Hc), orb_false_r.
    destruct Hop as [->|Hin]; [reflexivity|].
    apply clean_no_comma, (nuget_op_facts op Hin).
  Qed.

  Lemma parse_single_item op a :
    (op = [] \/ In op nuget_ops) -> bound_scope a = true -> vok a = true ->
    parse_single vok (op ++ a) = Some (if is_nil op then $">=" else op, a).
  Proof.
    intros Hop Hs Hv.
    pose proof (item_nsb (Some (op, a)) (conj Hop (conj Hs Hv))) as Hn. simpl in Hn.
    apply bound_scope_facts in Hs. destruct Hs as (Hne & Hc & Hhd).
    unfold parse_single. rewrite (trim_space_no_space _ (nsb_no_space _ Hn)).
    destruct Hop as [->|Hin].
    - simpl app. rewrite first_prefix_none; [|reflexivity|exact Hhd].
      rewrite Hv. reflexivity.
    - rewrite (first_prefix_hit nuget_ops op a nuget_ops_ok Hin Hhd).
      rewrite (clean_trim a Hc), Hv.
      destruct (nuget_op_facts op Hin) as (-> & _). reflexivity.
  Qed.

  Lemma parse_parts_items its :
    Forall item_ok its -> parse_parts vok (map itext its) = Some (flat_map inorm its).
  Proof.
    induction its as [|it its IH]; intros H; [reflexivity|].
    inversion H as [|? ? Hit Hits]; subst. specialize (IH Hits).
    destruct it as [[op a]|].
    - pose proof (item_nsb _ Hit) as Hn. destruct Hit as (Hop & Hs & Hv).
      cbn [map itext parse_parts]. simpl in Hn.
      rewrite (trim_space_no_space _ (nsb_no_space _ Hn)).
      destruct (op ++ a) as [|c r] eqn:E.
      + apply app_eq_nil in E. destruct E as [_ ->]. discriminate.
      + rewrite <- E. rewrite (parse_single_item op a Hop Hs Hv), IH. reflexivity.
    - cbn [map itext parse_parts]. exact IH.
  Qed.

  Lemma join_two_nonempty x y ps : join $"," (x :: y :: ps) <> [].
  Proof. rewrite join_two_plus. destruct x; discriminate. Qed.

  Lemma join_two_comma x y ps : contains_c ","%char (join $"," (x :: y :: ps)) = true.
  Proof.
    rewrite join_two_plus, contains_c_app. simpl. rewrite orb_true_r. reflexivity.
  Qed.

  (* a text without whitespace whose first byte is not a bracket goes to the list / bare path *)
  Lemma parse_cs_plain t : nsb t = true -> parse_cs vok t = parse_plain vok t.
  Proof.
    intros H. unfold parse_cs.
    rewrite (nsb_starts t "["%char H eq_refl), (nsb_starts t "("%char H eq_refl). reflexivity.
  Qed.

  Lemma parse_comma_plain t :
    nsb t = true ->
    parse_comma vok t =
      match parse_parts vok (split_c ","%char t) with Some [] => None | x => x end.
  Proof.
    intros H. unfold parse_comma.
    pose proof (nsb_starts t "["%char H eq_refl) as H1.
    pose proof (nsb_starts t "("%char H eq_refl) as H2.
    assert (B1 : beq t $"[]" = false) by (apply (starts_false_beq "["%char t $"]"), H1).
    assert (B2 : beq t $"()" = false) by (apply (starts_false_beq "("%char t $")"), H2).
    rewrite H1, H2, B1, B2. reflexivity.
  Qed.

  (* C02, conjunction form: a comma list of in-scope constraints (empty parts allowed, at least
     one comma) parses to exactly those constraints; a bare bound means >= *)
  Theorem parse_range_items its :
    (2 <= length its)%nat -> Forall item_ok its -> flat_map inorm its <> [] ->
    parse_range vok (join $"," (map itext its))
    = Some {| r_cs := flat_map inorm its; r_orig := join $"," (map itext its) |}.
  Proof.
    intros Hlen Hok Hne.
    set (t := join $"," (map itext its)).
    assert (Hn : nsb t = true).
    { apply nsb_join. rewrite Forall_map. eapply Forall_impl; [|exact Hok]. apply item_nsb. }
    assert (Hsplit : split_c ","%char t = map itext its).
    { apply split_join.
      - destruct its; [simpl in Hlen; lia|discriminate].
      - rewrite Forall_map. eapply Forall_impl; [|exact Hok]. apply item_no_comma. }
    assert (Hshape : t <> [] /\ contains_c ","%char t = true).
    { unfold t. destruct its as [|i1 [|i2 its']]; simpl in Hlen; try lia.
      cbn [map]. split; [apply join_two_nonempty|apply join_two_comma]. }
    destruct Hshape as [Hnil Hcomma].
    unfold parse_range. rewrite (trim_space_no_space t (nsb_no_space t Hn)).
    destruct t as [|c t'] eqn:Et; [congruence|]. rewrite <- Et in *.
    rewrite (parse_cs_plain t Hn). unfold parse_plain. rewrite Hcomma.
    rewrite (parse_comma_plain t Hn), Hsplit, (parse_parts_items its Hok).
    destruct (flat_map inorm its); [congruence|reflexivity].
  Qed.

  Lemma contains_forallb cs o v :
    contains vcmp {| r_cs := cs; r_orig := o |} v
    = forallb (fun c => sat (sem6 (fst c)) (vcmp v (snd c))) cs.
  Proof. reflexivity. Qed.

  Notation rcontains := (r_contains Nuget.Entry.r vok vcmp).

  Theorem nuget_c02_and its v :
    (2 <= length its)%nat -> Forall item_ok its -> flat_map inorm its <> [] -> vok v = true ->
    rcontains (join $"," (map itext its)) v
    = Some (forallb (fun c => sat (sem6 (fst c)) (vcmp v (snd c))) (flat_map inorm its)).
  Proof.
    intros Hlen Hok Hne Hv. cbn [r_contains Nuget.Entry.r].
    rewrite (parse_range_items its Hlen Hok Hne), Hv. reflexivity.
  Qed.

  (* C02: a single comparator constraint in list form ("op a ,") *)
  Theorem nuget_c02 op a v :
    In op nuget_ops -> bound_scope a = true -> vok a = true -> vok v = true ->
    rcontains (op ++ a ++ $",") v = Some (sat (sem6 op) (vcmp v a)).
  Proof.
    intros Hin Hs Ha Hv.
    pose proof (nuget_c02_and [Some (op, a); None] v) as H.
    cbn [map itext join flat_map inorm app] in H.
    rewrite app_nil_r, <- app_assoc in H. rewrite H; clear H.
    - destruct (nuget_op_facts op Hin) as (-> & _). cbn [forallb fst snd].
      rewrite andb_true_r. reflexivity.
    - simpl. lia.
    - constructor; [simpl; auto|constructor; [exact I|constructor]].
    - discriminate.
    - exact Hv.
  Qed.

  (* a bare bound followed by a comma means >= *)
  Theorem nuget_c02_bare_comma a v :
    bound_scope a = true -> vok a = true -> vok v = true ->
    rcontains (a ++ $",") v = Some (sat CGe (vcmp v a)).
  Proof.
    intros Hs Ha Hv.
    pose proof (nuget_c02_and [Some ([], a); None] v) as H.
    cbn [map itext join flat_map inorm app is_nil] in H.
    rewrite app_nil_r in H. rewrite H; clear H.
    - cbn [forallb fst snd]. rewrite andb_true_r. reflexivity.
    - simpl. lia.
    - constructor; [simpl; auto|constructor; [exact I|constructor]].
    - discriminate.
    - exact Hv.
  Qed.

  (* the whole text is one version: minimum version *)
  Theorem parse_range_bare a :
    bound_scope a = true -> vok a = true ->
    parse_range vok a = Some {| r_cs := [($">=", a)]; r_orig := a |}.
  Proof.
    intros Hs Ha. apply bound_scope_facts in Hs. destruct Hs as (Hne & Hc & _).
    unfold parse_range. rewrite (clean_trim a Hc).
    destruct a as [|c r] eqn:E; [congruence|]. rewrite <- E in *.
    rewrite (parse_cs_plain a (clean_nsb a Hc)). unfold parse_plain.
    rewrite (clean_no_comma a Hc), Ha. reflexivity.
  Qed.

  Theorem nuget_c02_bare a v :
    bound_scope a = true -> vok a = true -> vok v = true ->
    rcontains a v = Some (sat CGe (vcmp v a)).
  Proof.
    intros Hs Ha Hv. cbn [r_contains Nuget.Entry.r].
    rewrite (parse_range_bare a Hs Ha), Hv. cbn. rewrite andb_true_r. reflexivity.
  Qed.

  (* FINDING: without a comma the operator is handed to NewVersion together with the bound, so
     "op a" alone is rejected whenever the version parser rejects texts that begin with a
     comparator character (the nuget one does) *)
  Theorem single_comparator_rejected op a :
    In op nuget_ops -> bound_scope a = true ->
    vok (op ++ a) = false ->
    parse_range vok (op ++ a) = None.
  Proof.
    intros Hin Hs Hrej.
    assert (Hn' : nsb (op ++ a) = true).
    { apply bound_scope_facts in Hs. destruct Hs as (_ & Hcl & _).
      rewrite nsb_app, (clean_nsb a Hcl), andb_true_r. apply (nuget_op_facts op Hin). }
    assert (Hc' : contains_c ","%char (op ++ a) = false).
    { apply bound_scope_facts in Hs. destruct Hs as (_ & Hcl & _).
      rewrite contains_c_app, (clean_no_comma a Hcl), orb_false_r.
      apply clean_no_comma, (nuget_op_facts op Hin). }
    unfold parse_range. rewrite (trim_space_no_space _ (nsb_no_space _ Hn')).
    destruct (op ++ a) as [|c r] eqn:E; [reflexivity|]. rewrite <- E in *.
    rewrite (parse_cs_plain _ Hn'). unfold parse_plain. rewrite Hc', Hrej. reflexivity.
  Qed.

  (* ---------- bracket intervals (C05) ---------- *)

  Definition brk (lo : ascii) (mid : bytes) (hi : ascii) : bytes := lo :: mid ++ [hi].
  Definition lo_c (incl : bool) : ascii := if incl then "["%char else "("%char.
  Definition hi_c (incl : bool) : ascii := if incl then "]"%char else ")"%char.
  Definition lo_op (incl : bool) : bytes := if incl then $">=" else $">".
  Definition hi_op (incl : bool) : bytes := if incl then $"<=" else $"<".
  Definition lo_cop (incl : bool) : cop := if incl then CGe else CGt.
  Definition hi_cop (incl : bool) : cop := if incl then CLe else CLt.

  Lemma last_c_snoc s c : last_c (s ++ [c]) = Some c.
  Proof. unfold last_c. rewrite rev_app_distr. reflexivity. Qed.

  Lemma ends_brk c lo mid hi : ends_c c (brk lo mid hi) = ceqb c hi.
  Proof.
    unfold ends_c, brk. change (lo :: mid ++ [hi]) with ((lo :: mid) ++ [hi]).
    rewrite last_c_snoc. reflexivity.
  Qed.

  Lemma starts_brk c lo mid hi : starts_c c (brk lo mid hi) = ceqb c lo.
  Proof. reflexivity. Qed.

  Lemma inner_brk lo mid hi : inner (brk lo mid hi) = mid.
  Proof. unfold inner, brk. simpl tl. apply removelast_last. Qed.

  Lemma beq_brk2 lo mid hi x y : mid <> [] -> beq (brk lo mid hi) [x; y] = false.
  Proof.
    intros H. destruct mid as [|m mid]; [congruence|].
    unfold brk. simpl. destruct mid; simpl; rewrite ?andb_false_r; reflexivity.
  Qed.

  Lemma beq_brk_sq lo mid hi : mid <> [] -> beq (brk lo mid hi) $"[]" = false.
  Proof. exact (beq_brk2 lo mid hi "["%char "]"%char). Qed.
  Lemma beq_brk_par lo mid hi : mid <> [] -> beq (brk lo mid hi) $"()" = false.
  Proof. exact (beq_brk2 lo mid hi "("%char ")"%char). Qed.

  Lemma contains_brk mid lo hi :
    ceqb ","%char lo = false -> ceqb ","%char hi = false ->
    contains_c ","%char (brk lo mid hi) = contains_c ","%char mid.
  Proof.
    intros H1 H2. unfold brk, contains_c. simpl. rewrite H1, existsb_app. simpl.
    rewrite H2. rewrite !orb_false_r. reflexivity.
  Qed.

  Lemma trim_brk li hi mid :
    no_space mid = true -> trim_space (brk (lo_c li) mid (hi_c hi)) = brk (lo_c li) mid (hi_c hi).
  Proof.
    intros H. apply trim_space_no_space. unfold brk.
    change (lo_c li :: mid ++ [hi_c hi]) with ([lo_c li] ++ mid ++ [hi_c hi]).
    rewrite !no_space_app, H. destruct li, hi; reflexivity.
  Qed.

  Lemma parse_range_of_cs t cs :
    t <> [] -> trim_space t = t -> parse_cs vok t = Some cs ->
    parse_range vok t = Some {| r_cs := cs; r_orig := t |}.
  Proof.
    intros Hne Htr Hcs. unfold parse_range. rewrite Htr.
    destruct t; [congruence|]. rewrite Hcs. reflexivity.
  Qed.

  Lemma parse_range_of_cs_none t :
    trim_space t = t -> parse_cs vok t = None -> parse_range vok t = None.
  Proof.
    intros Htr Hcs. unfold parse_range. rewrite Htr.
    destruct t; [reflexivity|]. rewrite Hcs. reflexivity.
  Qed.

  Lemma brk_ne lo mid hi : brk lo mid hi <> [].
  Proof. discriminate. Qed.

  (* which sub-parser a bracketed text with a comma reaches *)
  Lemma parse_cs_brk li hi mid :
    mid <> [] -> contains_c ","%char mid = true ->
    parse_cs vok (brk (lo_c li) mid (hi_c hi)) =
      if li && hi then parse_incl vok (brk (lo_c li) mid (hi_c hi))
      else if negb li && negb hi then parse_excl vok (brk (lo_c li) mid (hi_c hi))
      else parse_mixed vok (brk (lo_c li) mid (hi_c hi)).
  Proof.
    intros Hne Hcomma. unfold parse_cs.
    rewrite !starts_brk, !ends_brk, (beq_brk_sq _ _ _ Hne), (beq_brk_par _ _ _ Hne).
    rewrite contains_brk, Hcomma by (destruct li, hi; reflexivity).
    destruct li, hi; reflexivity.
  Qed.

  Lemma split_pair a b :
    contains_c ","%char a = false -> contains_c ","%char b = false ->
    split_c ","%char (a ++ ","%char :: b) = [a; b].
  Proof. intros Ha Hb. rewrite (split_c_app a b Ha), (split_c_none b Hb). reflexivity. Qed.

  (* parseMixedRange on lo mid hi, by the emptiness of the two (clean) sides *)
  Lemma parse_mixed_brk li hi a b :
    clean a = true -> clean b = true ->
    parse_mixed vok (brk (lo_c li) (a ++ ","%char :: b) (hi_c hi)) =
      if is_nil a && negb (is_nil b) then (if vok b then Some [(hi_op hi, b)] else None)
      else if negb (is_nil a) && is_nil b then (if vok a then Some [(lo_op li, a)] else None)
      else two_bounds vok (lo_op li) (hi_op hi) a b.
  Proof.
    intros Hac Hbc. unfold parse_mixed. rewrite inner_brk, starts_brk, ends_brk.
    rewrite (split_pair a b (clean_no_comma a Hac) (clean_no_comma b Hbc)).
    rewrite (clean_trim a Hac), (clean_trim b Hbc).
    destruct li, hi; reflexivity.
  Qed.

  Lemma parse_incl_brk li hi a b :
    clean a = true -> clean b = true ->
    parse_incl vok (brk (lo_c li) (a ++ ","%char :: b) (hi_c hi)) = two_bounds vok $">=" $"<=" a b.
  Proof.
    intros Hac Hbc. unfold parse_incl. rewrite inner_brk.
    rewrite (split_pair a b (clean_no_comma a Hac) (clean_no_comma b Hbc)).
    rewrite (clean_trim a Hac), (clean_trim b Hbc). reflexivity.
  Qed.

  Lemma parse_excl_brk li hi a b :
    clean a = true -> clean b = true ->
    parse_excl vok (brk (lo_c li) (a ++ ","%char :: b) (hi_c hi)) =
      if xorb (is_nil a) (is_nil b)
      then parse_mixed vok (brk (lo_c li) (a ++ ","%char :: b) (hi_c hi))
      else two_bounds vok $">" $"<" a b.
  Proof.
    intros Hac Hbc. unfold parse_excl. rewrite inner_brk.
    rewrite (split_pair a b (clean_no_comma a Hac) (clean_no_comma b Hbc)).
    rewrite (clean_trim a Hac), (clean_trim b Hbc). reflexivity.
  Qed.

  (* the constraint list of  lo a , b hi  for clean (possibly empty) sides *)
  Lemma parse_cs_sides li hi a b :
    clean a = true -> clean b = true ->
    parse_cs vok (brk (lo_c li) (a ++ ","%char :: b) (hi_c hi)) =
      if li && hi then two_bounds vok $">=" $"<=" a b
      else if is_nil a && negb (is_nil b) then (if vok b then Some [(hi_op hi, b)] else None)
      else if negb (is_nil a) && is_nil b then (if vok a then Some [(lo_op li, a)] else None)
      else two_bounds vok (lo_op li) (hi_op hi) a b.
  Proof.
    intros Hac Hbc.
    assert (Hmid_ne : a ++ ","%char :: b <> []) by (destruct a; discriminate).
    assert (Hmid_c : contains_c ","%char (a ++ ","%char :: b) = true).
    { rewrite contains_c_app. simpl. rewrite orb_true_r. reflexivity. }
    rewrite (parse_cs_brk li hi _ Hmid_ne Hmid_c).
    rewrite (parse_incl_brk li hi a b Hac Hbc), (parse_excl_brk li hi a b Hac Hbc),
            (parse_mixed_brk li hi a b Hac Hbc).
    destruct li, hi, a, b; reflexivity.
  Qed.

  Lemma sides_trim li hi a b :
    clean a = true -> clean b = true ->
    trim_space (brk (lo_c li) (a ++ ","%char :: b) (hi_c hi)) = brk (lo_c li) (a ++ ","%char :: b) (hi_c hi).
  Proof.
    intros Hac Hbc. apply trim_brk.
    change (a ++ ","%char :: b) with (a ++ [","%char] ++ b).
    rewrite !no_space_app, (nsb_no_space a (clean_nsb a Hac)), (nsb_no_space b (clean_nsb b Hbc)).
    reflexivity.
  Qed.

  (* [a,b] (a,b) [a,b) (a,b] *)
  Theorem parse_range_interval li hi a b :
    bound_scope a = true -> bound_scope b = true -> vok a = true -> vok b = true ->
    let t := brk (lo_c li) (a ++ ","%char :: b) (hi_c hi) in
    parse_range vok t = Some {| r_cs := [(lo_op li, a); (hi_op hi, b)]; r_orig := t |}.
  Proof.
    intros Hsa Hsb Ha Hb t.
    apply bound_scope_facts in Hsa. destruct Hsa as (Hane & Hac & _).
    apply bound_scope_facts in Hsb. destruct Hsb as (Hbne & Hbc & _).
    apply parse_range_of_cs; [apply brk_ne|apply sides_trim; assumption|].
    unfold t. rewrite (parse_cs_sides li hi a b Hac Hbc). unfold two_bounds. rewrite Ha, Hb.
    destruct a; [congruence|]. destruct b; [congruence|].
    destruct li, hi; reflexivity.
  Qed.

  Theorem nuget_c05_interval li hi a b v :
    bound_scope a = true -> bound_scope b = true -> vok a = true -> vok b = true -> vok v = true ->
    rcontains (brk (lo_c li) (a ++ ","%char :: b) (hi_c hi)) v
    = Some (sat (lo_cop li) (vcmp v a) && sat (hi_cop hi) (vcmp v b)).
  Proof.
    intros Hsa Hsb Ha Hb Hv. cbn [r_contains Nuget.Entry.r].
    rewrite (parse_range_interval li hi a b Hsa Hsb Ha Hb), Hv.
    destruct li, hi; cbn; rewrite andb_true_r; reflexivity.
  Qed.

  (* [a] : exact match *)
  Theorem parse_range_exact a :
    bound_scope a = true -> vok a = true ->
    let t := brk "["%char a "]"%char in
    parse_range vok t = Some {| r_cs := [($"=", a)]; r_orig := t |}.
  Proof.
    intros Hsa Ha t.
    apply bound_scope_facts in Hsa. destruct Hsa as (Hane & Hac & _).
    apply parse_range_of_cs;
      [apply brk_ne|apply (trim_brk true true a), nsb_no_space, clean_nsb, Hac|].
    unfold parse_cs, t.
    rewrite !starts_brk, !ends_brk, (beq_brk_sq _ _ _ Hane), (beq_brk_par _ _ _ Hane).
    rewrite contains_brk by reflexivity. rewrite (clean_no_comma a Hac), inner_brk.
    rewrite (clean_trim a Hac), Ha.
    destruct a; [congruence|]. reflexivity.
  Qed.

  Theorem nuget_c05_exact a v :
    bound_scope a = true -> vok a = true -> vok v = true ->
    rcontains (brk "["%char a "]"%char) v = Some (sat CEq (vcmp v a)).
  Proof.
    intros Hsa Ha Hv. cbn [r_contains Nuget.Entry.r].
    rewrite (parse_range_exact a Hsa Ha), Hv. cbn. rewrite andb_true_r. reflexivity.
  Qed.

  (* half-open forms: every bracket pair except [ ] handles an empty side
       [a,)  is  >= a     (a,)  is  > a     (a,]  is  > a
       (,b]  is  <= b     (,b)  is  < b     [,b)  is  < b *)
  Theorem parse_range_lower_only li hi a :
    li && hi = false -> bound_scope a = true -> vok a = true ->
    let t := brk (lo_c li) (a ++ $",") (hi_c hi) in
    parse_range vok t = Some {| r_cs := [(lo_op li, a)]; r_orig := t |}.
  Proof.
    intros Hk Hsa Ha t.
    apply bound_scope_facts in Hsa. destruct Hsa as (Hane & Hac & _).
    apply parse_range_of_cs; [apply brk_ne|apply (sides_trim li hi a [] Hac eq_refl)|].
    unfold t. change (a ++ $",") with (a ++ ","%char :: []).
    rewrite (parse_cs_sides li hi a [] Hac eq_refl), Hk, Ha.
    destruct a; [congruence|]. reflexivity.
  Qed.

  Theorem parse_range_upper_only li hi b :
    li && hi = false -> bound_scope b = true -> vok b = true ->
    let t := brk (lo_c li) (","%char :: b) (hi_c hi) in
    parse_range vok t = Some {| r_cs := [(hi_op hi, b)]; r_orig := t |}.
  Proof.
    intros Hk Hsb Hb t.
    apply bound_scope_facts in Hsb. destruct Hsb as (Hbne & Hbc & _).
    apply parse_range_of_cs; [apply brk_ne|apply (sides_trim li hi [] b eq_refl Hbc)|].
    unfold t. change (","%char :: b) with ([] ++ ","%char :: b).
    rewrite (parse_cs_sides li hi [] b eq_refl Hbc), Hk, Hb.
    destruct b; [congruence|]. reflexivity.
  Qed.

  Theorem nuget_c05_lower_only li hi a v :
    li && hi = false -> bound_scope a = true -> vok a = true -> vok v = true ->
    rcontains (brk (lo_c li) (a ++ $",") (hi_c hi)) v = Some (sat (lo_cop li) (vcmp v a)).
  Proof.
    intros Hk Hsa Ha Hv. cbn [r_contains Nuget.Entry.r].
    rewrite (parse_range_lower_only li hi a Hk Hsa Ha), Hv.
    destruct li; cbn; rewrite andb_true_r; reflexivity.
  Qed.

  Theorem nuget_c05_upper_only li hi b v :
    li && hi = false -> bound_scope b = true -> vok b = true -> vok v = true ->
    rcontains (brk (lo_c li) (","%char :: b) (hi_c hi)) v = Some (sat (hi_cop hi) (vcmp v b)).
  Proof.
    intros Hk Hsb Hb Hv. cbn [r_contains Nuget.Entry.r].
    rewrite (parse_range_upper_only li hi b Hk Hsb Hb), Hv.
    destruct hi; cbn; rewrite andb_true_r; reflexivity.
  Qed.

  (* the two forms added by the fix, spelled out: (a,) is "> a", (,b) is "< b" *)
  Corollary nuget_c05_exclusive_lower a v :
    bound_scope a = true -> vok a = true -> vok v = true ->
    rcontains ("("%char :: (a ++ $",") ++ $")") v = Some (sat CGt (vcmp v a)).
  Proof. exact (nuget_c05_lower_only false false a v eq_refl). Qed.

  Corollary nuget_c05_exclusive_upper b v :
    bound_scope b = true -> vok b = true -> vok v = true ->
    rcontains ("("%char :: (","%char :: b) ++ $")") v = Some (sat CLt (vcmp v b)).
  Proof. exact (nuget_c05_upper_only false false b v eq_refl). Qed.

  (* what is still rejected when the empty text is not a version: an empty side between
     [ ] (parseInclusiveRange has no unbounded case), and two empty sides in any brackets *)
  Theorem inclusive_half_open_rejected a :
    vok [] = false -> clean a = true ->
    parse_range vok (brk "["%char (a ++ $",") "]"%char) = None /\
    parse_range vok (brk "["%char (","%char :: a) "]"%char) = None.
  Proof.
    intros Hnil Hac. split.
    - change (brk "["%char (a ++ $",") "]"%char)
        with (brk (lo_c true) (a ++ ","%char :: []) (hi_c true)).
      apply parse_range_of_cs_none; [apply (sides_trim true true a [] Hac eq_refl)|].
      rewrite (parse_cs_sides true true a [] Hac eq_refl). unfold two_bounds.
      cbn [andb]. rewrite Hnil. destruct (vok a); reflexivity.
    - change (brk "["%char (","%char :: a) "]"%char)
        with (brk (lo_c true) ([] ++ ","%char :: a) (hi_c true)).
      apply parse_range_of_cs_none; [apply (sides_trim true true [] a eq_refl Hac)|].
      rewrite (parse_cs_sides true true [] a eq_refl Hac). unfold two_bounds.
      cbn [andb]. rewrite Hnil. reflexivity.
  Qed.

  Theorem empty_interval_rejected li hi :
    vok [] = false -> parse_range vok (brk (lo_c li) $"," (hi_c hi)) = None.
  Proof.
    intros Hnil.
    apply parse_range_of_cs_none; [apply (sides_trim li hi [] [] eq_refl eq_refl)|].
    change ($",") with ([] ++ ","%char :: @nil ascii).
    rewrite (parse_cs_sides li hi [] [] eq_refl eq_refl). unfold two_bounds.
    cbn [is_nil andb negb]. rewrite Hnil. destruct (li && hi); reflexivity.
  Qed.

  (* ---------- C20 ---------- *)

  Hypothesis TP : TotalPreorder vcmp.

  Theorem nuget_c20_eq r a b : vcmp a b = Eq -> contains vcmp r a = contains vcmp r b.
  Proof.
    intros E. unfold contains.
    induction (r_cs r) as [|c cs IH]; simpl; [reflexivity|].
    unfold sat_constraint at 1 3. rewrite (tp_eq_l TP a b (snd c) E), IH. reflexivity.
  Qed.

  (* ranges without != are convex *)
  Definition conj_only (r : range) : bool :=
    forallb (fun c => convex_op (sem6 (fst c))) (r_cs r).

  Theorem nuget_c20_convex r a b c :
    conj_only r = true ->
    le_c (vcmp a b) -> le_c (vcmp b c) ->
    contains vcmp r a = true -> contains vcmp r c = true -> contains vcmp r b = true.
  Proof.
    unfold conj_only, contains. intros Hcv Hab Hbc.
    induction (r_cs r) as [|k cs IH]; simpl in *; [reflexivity|].
    apply andb_true_iff in Hcv. destruct Hcv as [Hk Hcv].
    rewrite !andb_true_iff. intros [Ha1 Ha2] [Hc1 Hc2]. split; [|apply IH; assumption].
    unfold sat_constraint in *.
    apply (sat_convex bytes vcmp TP _ (snd k) a b c); assumption.
  Qed.
End Facts.

(* ---------- end to end: the model's own version layer as the oracle ---------- *)

Lemma parse_core_reject_hd c s :
  is_digit c = false -> ceqb "v"%char c = false -> Nuget.Version.parse_core (c :: s) = None.
Proof.
  intros Hd Hv. unfold Nuget.Version.parse_core, trim_prefix.
  cbn [has_prefix list_ascii_of_string]. rewrite Hv. cbn [andb].
  cbn [has_prefix]. rewrite Hv. cbn [andb].
  unfold span. cbn [take_while]. rewrite Hd. reflexivity.
Qed.

Lemma self_vok_nil : self_vok Nuget.Entry.entry [] = false.
Proof. reflexivity. Qed.

Lemma self_vok_op_rejected op a :
  In op nuget_ops -> bound_scope a = true -> self_vok Nuget.Entry.entry (op ++ a) = false.
Proof.
  intros Hin Hs.
  assert (Hn : nsb (op ++ a) = true).
  { apply bound_scope_facts in Hs. destruct Hs as (_ & Hcl & _).
    rewrite nsb_app, (clean_nsb a Hcl), andb_true_r. apply (nuget_op_facts op Hin). }
  unfold self_vok. cbn [e_v Nuget.Entry.entry Nuget.Entry.v v_show mk_vops].
  unfold VLayer.parse. rewrite (trim_space_no_space _ (nsb_no_space _ Hn)).
  simpl in Hin.
  repeat destruct Hin as [<-|Hin]; try contradiction;
    cbn [app list_ascii_of_string]; rewrite parse_core_reject_hd by reflexivity; reflexivity.
Qed.

(* FINDING (end to end): ">=1.0" alone is not a range, although ">=1.0," is *)
Theorem single_comparator_rejected_self op a :
  In op nuget_ops -> bound_scope a = true ->
  parse_range (self_vok Nuget.Entry.entry) (op ++ a) = None.
Proof.
  intros Hin Hs. apply single_comparator_rejected; auto. apply self_vok_op_rejected; auto.
Qed.

(* end to end: [a,] and [,b] are (still) rejected; (,) [,] [,) (,] too *)
Theorem inclusive_half_open_rejected_self a :
  clean a = true ->
  parse_range (self_vok Nuget.Entry.entry) ("["%char :: (a ++ $",") ++ $"]") = None /\
  parse_range (self_vok Nuget.Entry.entry) ("["%char :: (","%char :: a) ++ $"]") = None.
Proof. intros Hc. exact (inclusive_half_open_rejected _ a self_vok_nil Hc). Qed.

(* the interval forms never produce != , hence are convex: instance for [a,b] etc. is immediate
   from parse_range_interval and nuget_c20_convex. *)

Print Assumptions nuget_c02.
Print Assumptions nuget_c02_and.
Print Assumptions nuget_c05_interval.
Print Assumptions nuget_c05_exact.
Print Assumptions nuget_c05_lower_only.
Print Assumptions nuget_c05_upper_only.
Print Assumptions nuget_c05_exclusive_lower.
Print Assumptions nuget_c05_exclusive_upper.
Print Assumptions inclusive_half_open_rejected.
Print Assumptions empty_interval_rejected.
Print Assumptions single_comparator_rejected.
Print Assumptions single_comparator_rejected_self.
Print Assumptions inclusive_half_open_rejected_self.
Print Assumptions nuget_c20_eq.
Print Assumptions nuget_c20_convex.
