(* Eco/Nuget/SpecFacts.v — the nuget Compare model orders versions as the reference order
   (Spec/SemVer.v: SemVer 2.0.0 section 11 with NuGet's fourth component, denotation
   [den_nuget]) does — property C08, at string level. *)
From Coq Require Import Lia.
From Verif.Base Require Import Bytes GoNum Ord BytesFacts.
From Verif.Eco.Nuget Require Import DecFacts.
From Verif.Eco Require Import VLayer Iface RangeCoreFacts.
From Verif.Eco.Nuget Require Import Version VersionFacts.
From Verif.Eco.Nuget Require Entry.
From Verif.Spec Require Import SemVer SemVerFacts.
From Verif.Spec Require All.
Local Open Scope N_scope.

(* ---------- scope ---------- *)

(* What is not claimed: numbers of 2^63 or more.  The Go code reads numeric components with
   strconv.Atoi (and rejects the version when that fails) and falls back to TEXT comparison for
   a numeric pre-release identifier that does not fit an int64; the reference order has
   unbounded integers.  The predicate is stated on the reference's own reading of the text. *)
Definition small_n (n : N) : bool := n <? two63.
Definition small_id (i : ident) : bool :=
  match i with INum n => small_n n | IAlnum _ => true end.
Definition small_sv (v : sv) : bool := forallb small_n (nums v) && forallb small_id (pre v).

Definition in_scope (s : bytes) : bool :=
  match den_nuget s with
  | Some v => small_sv v
  | None => true
  end.

Definition sp_valid (s : bytes) : bool := isSome (den_nuget s).
Definition sp_cmp : bytes -> bytes -> option comparison := spec_cmp_with den_nuget.

(* ---------- Split / Cut / Join ---------- *)

Lemma cut1_some c s a b : cut [c] s = Some (a, b) -> s = a ++ c :: b.
Proof.
  revert a b. induction s as [|x s IH]; intros a b.
  - simpl. discriminate.
  - cbn [cut has_prefix length skipn]. destruct (ceqb c x) eqn:E.
    + cbn [andb]. intros H. injection H as <- <-. apply ceqb_eq in E. subst. reflexivity.
    + cbn [andb]. destruct (cut [c] s) as [[a' b']|] eqn:Ec; [|discriminate].
      intros H. injection H as <- <-. rewrite (IH a' b' eq_refl). reflexivity.
Qed.

Lemma split_c_nonnil c s : split_c c s <> [].
Proof.
  induction s as [|x s IH]; simpl; [discriminate|].
  destruct (ceqb c x); [discriminate|]. destruct (split_c c s); discriminate.
Qed.

Lemma join_split c s : join [c] (split_c c s) = s.
Proof.
  induction s as [|x s IH]; [reflexivity|].
  cbn [split_c]. destruct (ceqb c x) eqn:E.
  - apply ceqb_eq in E. subst x.
    pose proof (split_c_nonnil c s) as Hn.
    destruct (split_c c s) as [|f fs] eqn:Es; [congruence|].
    change (join [c] ([] :: f :: fs)) with (c :: join [c] (f :: fs)). rewrite IH. reflexivity.
  - destruct (split_c c s) as [|f fs] eqn:Es.
    + exfalso. apply (split_c_nonnil c s Es).
    + destruct fs as [|g gs].
      * simpl in IH. subst. reflexivity.
      * change (join [c] ((x :: f) :: g :: gs)) with (x :: (f ++ [c] ++ join [c] (g :: gs))).
        change (join [c] (f :: g :: gs)) with (f ++ [c] ++ join [c] (g :: gs)) in IH.
        rewrite IH. reflexivity.
Qed.

Lemma map_opt_spec {A B} (f : A -> option B) l r :
  map_opt f l = Some r -> Forall2 (fun x y => f x = Some y) l r.
Proof.
  revert r. induction l as [|x l IH]; intros r; simpl.
  - intros H. injection H as <-. constructor.
  - destruct (f x) as [y|] eqn:E; [|discriminate].
    destruct (map_opt f l) as [ys|]; [|discriminate].
    intros H. injection H as <-. constructor; auto.
Qed.

(* ---------- reading digit strings ---------- *)

Lemma nonempty_digits_all d : nonempty_digits d = true -> forallb is_digit d = true /\ d <> [].
Proof. unfold nonempty_digits. destruct d; [discriminate|]. intros H. split; [exact H|discriminate]. Qed.

Lemma atoi_digits d :
  nonempty_digits d = true -> digits_val d < two63 -> atoi d = Some (Z.of_N (digits_val d)).
Proof.
  intros Hd Hv. destruct (nonempty_digits_all d Hd) as [Hall Hne].
  destruct d as [|c r]; [congruence|]. unfold atoi.
  assert (Hc : is_digit c = true) by (simpl in Hall; apply andb_true_iff in Hall; tauto).
  assert (Hm : ceqb c "-"%char = false).
  { destruct (ceqb c "-"%char) eqn:X; [|reflexivity]. apply ceqb_eq in X. subst. discriminate. }
  assert (Hp : ceqb c "+"%char = false).
  { destruct (ceqb c "+"%char) eqn:X; [|reflexivity]. apply ceqb_eq in X. subst. discriminate. }
  rewrite Hm, Hp, Hd. apply N.ltb_lt in Hv. rewrite Hv. reflexivity.
Qed.

Definition good_part (d : bytes) : Prop := nonempty_digits d = true /\ digits_val d < two63.

(* ".d1.d2..." followed by tail *)
Fixpoint parts_text (ps : list bytes) (tail : bytes) : bytes :=
  match ps with
  | [] => tail
  | d :: r => "."%char :: d ++ parts_text r tail
  end.

Lemma join_parts_app d ps tail : join $"." (d :: ps) ++ tail = d ++ parts_text ps tail.
Proof.
  revert d. induction ps as [|e ps IH]; intros d.
  - reflexivity.
  - change (join $"." (d :: e :: ps)) with (d ++ "."%char :: join $"." (e :: ps)).
    rewrite <- app_assoc. cbn [app parts_text]. rewrite IH. reflexivity.
Qed.

Lemma parts_text_hd ps tail : hd_not is_digit tail -> hd_not is_digit (parts_text ps tail).
Proof. destruct ps; simpl; auto. Qed.

Lemma take_digits_part d rest :
  nonempty_digits d = true -> hd_not is_digit rest ->
  take_while is_digit (d ++ rest) = d /\ drop_while is_digit (d ++ rest) = rest.
Proof.
  intros Hd Hr. destruct (nonempty_digits_all d Hd) as [Hall _]. split.
  - rewrite (take_while_app_all _ _ _ Hall), (take_while_hd_not _ _ Hr). apply app_nil_r.
  - rewrite (drop_while_app_all _ _ _ Hall). apply drop_while_hd_not, Hr.
Qed.

Lemma num_groups_parts ps : forall k tail,
  (length ps <= k)%nat -> Forall good_part ps -> hd_not is_digit tail -> hd_not is_dot tail ->
  num_groups k (parts_text ps tail) = (ps, tail).
Proof.
  induction ps as [|d ps IH]; intros k tail Hk Hg Hd Hp.
  - apply num_groups_stop, Hp.
  - destruct k as [|k]; [simpl in Hk; lia|].
    inversion Hg as [|? ? [Hdd _] Hps]; subst.
    cbn [parts_text num_groups].
    change (ceqb "."%char "."%char) with true. cbv iota.
    destruct (take_digits_part d _ Hdd (parts_text_hd ps tail Hd)) as [-> ->].
    rewrite (IH k tail ltac:(simpl in Hk; lia) Hps Hd Hp).
    destruct (nonempty_digits_all d Hdd) as [_ Hne]. destruct d; [congruence|reflexivity].
Qed.

Lemma nth_num_parts ps : forall i,
  Forall good_part ps -> nth_num ps i = Some (Z.of_N (nth i (map digits_val ps) 0)).
Proof.
  induction ps as [|d ps IH]; intros i H.
  - destruct i; reflexivity.
  - inversion H as [|? ? [Hd Hv] Hps]; subst. destruct i as [|i].
    + unfold nth_num. simpl. apply atoi_digits; assumption.
    + unfold nth_num in *. simpl. apply IH, Hps.
Qed.

(* the model's scanner on  [v] d1.d2... tail *)
Lemma parse_core_parts (vp : bool) ps tail p b :
  (1 <= length ps <= 4)%nat -> Forall good_part ps ->
  parse_tail tail = Some (p, b) ->
  parse_core ((if vp then $"v" else []) ++ join $"." ps ++ tail)
  = Some (core_of (map digits_val ps) p b).
Proof.
  intros Hlen Hg Htail.
  destruct ps as [|d ps]; [simpl in Hlen; lia|].
  inversion Hg as [|? ? [Hdd Hdv] Hps]; subst.
  destruct (parse_tail_hd tail _ Htail) as [Hd Hp].
  rewrite join_parts_app.
  destruct (nonempty_digits_all d Hdd) as [Hall Hne].
  destruct d as [|c r] eqn:Ed; [congruence|]. rewrite <- Ed in *.
  assert (Hc : is_digit c = true).
  { rewrite Ed in Hall. simpl in Hall. apply andb_true_iff in Hall. tauto. }
  assert (Etp : forall s, trim_prefix $"v" (d ++ s) = d ++ s).
  { intros s. rewrite Ed. apply trim_prefix_v_digit, Hc. }
  assert (Ev : trim_prefix $"v" ((if vp then $"v" else []) ++ d ++ parts_text ps tail)
               = d ++ parts_text ps tail).
  { destruct vp; [reflexivity|apply Etp]. }
  unfold parse_core. rewrite Ev, Etp. unfold span.
  destruct (take_digits_part d _ Hdd (parts_text_hd ps tail Hd)) as [-> ->].
  rewrite (num_groups_parts ps 3 tail ltac:(simpl in Hlen; lia) Hps Hd Hp), Htail.
  unfold num_of. rewrite (atoi_digits d Hdd Hdv), !(nth_num_parts ps _ Hps).
  rewrite Ed at 1. reflexivity.
Qed.

(* ---------- the shape of a text the reference accepts ---------- *)

Lemma digit_is_idc c : is_digit c = true -> is_idc c = true.
Proof. intros H. unfold is_idc, is_alnum. rewrite H. reflexivity. Qed.

Lemma forallb_impl {A} (P Q : A -> bool) l :
  (forall x, P x = true -> Q x = true) -> forallb P l = true -> forallb Q l = true.
Proof.
  intros H. induction l as [|x l IH]; simpl; [auto|].
  intros E. apply andb_true_iff in E. destruct E as [E1 E2]. rewrite (H x E1). auto.
Qed.

Lemma pre_ident_ok x i : pre_ident false x = Some i -> ident_ok x = true.
Proof.
  unfold pre_ident, ident_ok. destruct x as [|c r]; [discriminate|].
  destruct (all_digits (c :: r)) eqn:E.
  - intros _. unfold all_digits in E. revert E. apply forallb_impl, digit_is_idc.
  - destruct (forallb is_ident_char (c :: r)) eqn:E2; [|discriminate]. intros _. exact E2.
Qed.

Lemma parse_pre_ok p ids : parse_pre false p = Some ids -> ident_list_ok p = true.
Proof.
  unfold parse_pre, ident_list_ok. intros H. apply map_opt_spec in H.
  induction H as [|x i l r Hx _ IH]; [reflexivity|].
  simpl. rewrite (pre_ident_ok x i Hx). exact IH.
Qed.

Lemma build_ok_ident_list b : build_ok b = true -> ident_list_ok b = true.
Proof. intros H. exact H. Qed.

Lemma parse_pre_nonnil p ids : parse_pre false p = Some ids -> p <> [] /\ ids <> [].
Proof.
  unfold parse_pre. destruct p as [|c r]; [discriminate|].
  intros H. split; [discriminate|]. apply map_opt_spec in H.
  pose proof (split_c_nonnil "."%char (c :: r)) as Hn.
  remember (split_c "."%char (c :: r)) as l eqn:El. clear El.
  destruct H; [congruence|discriminate].
Qed.

Lemma numeric_spec d n : numeric false d = Some n -> nonempty_digits d = true /\ n = digits_val d.
Proof.
  unfold numeric. destruct (nonempty_digits d); simpl; [|discriminate].
  intros H. injection H as <-. auto.
Qed.

Lemma parse_nums_shape core ns :
  parse_nums false 1 4 core = Some ns ->
  exists ps, core = join $"." ps /\ (1 <= length ps <= 4)%nat /\
             Forall (fun d => nonempty_digits d = true) ps /\ ns = map digits_val ps.
Proof.
  unfold parse_nums.
  destruct (map_opt (numeric false) (split_c "."%char core)) as [l|] eqn:E; [|discriminate].
  destruct (Nat.leb 1 (length l) && Nat.leb (length l) 4)%bool eqn:El; [|discriminate].
  intros H. injection H as <-.
  exists (split_c "."%char core). apply map_opt_spec in E.
  split; [symmetry; apply (join_split "."%char core)|].
  apply andb_true_iff in El. destruct El as [E1 E2].
  apply Nat.leb_le in E1. apply Nat.leb_le in E2.
  assert (Hlen : length (split_c "."%char core) = length l).
  { clear E1 E2. induction E; simpl; auto. }
  split; [lia|]. clear Hlen E1 E2.
  induction E as [|d n ps l' Hd _ IH]; [split; [constructor|reflexivity]|].
  destruct IH as [IH1 IH2]. destruct (numeric_spec d n Hd) as [Hnd ->].
  split; [constructor; assumption|]. simpl. rewrite IH2. reflexivity.
Qed.

Lemma trim_prefix_v_decomp s :
  exists vp : bool, s = (if vp then $"v" else []) ++ trim_prefix $"v" s.
Proof.
  unfold trim_prefix. destruct (has_prefix $"v" s) eqn:E.
  - exists true. destruct s as [|c r]; [discriminate|]. simpl in E.
    apply andb_true_iff in E. destruct E as [E _]. apply ceqb_eq in E. subst. reflexivity.
  - exists false. reflexivity.
Qed.

(* a text in the reference's domain is  [v] d1[.d2[.d3[.d4]]] [-pre] [+build]  *)
Lemma den_decomp s v :
  den_nuget s = Some v ->
  exists (vp : bool) ps tail p b ids,
    s = (if vp then $"v" else []) ++ join $"." ps ++ tail /\
    (1 <= length ps <= 4)%nat /\
    Forall (fun d => nonempty_digits d = true) ps /\
    parse_tail tail = Some (p, b) /\
    v = {| nums := pad_nums 3 (map digits_val ps); pre := ids |} /\
    ((p = [] /\ ids = []) \/ (p <> [] /\ ids <> [] /\ parse_pre false p = Some ids)).
Proof.
  unfold den_nuget, parse_loose, strip_prefixes. cbn [fold_left].
  destruct (trim_prefix_v_decomp s) as [vp Hs].
  set (t := trim_prefix $"v" s) in *. clearbody t.
  unfold parse_gen, split2_c.
  destruct (cut ["+"%char] t) as [[main bld]|] eqn:Ecb.
  - apply cut1_some in Ecb.
    destruct (build_ok bld) eqn:Eb; [|discriminate].
    destruct (cut ["-"%char] main) as [[core p]|] eqn:Ecp.
    + apply cut1_some in Ecp.
      destruct (parse_nums false 1 4 core) as [ns|] eqn:En; [|discriminate].
      destruct (parse_pre false p) as [ids|] eqn:Ep; [|discriminate].
      intros H. injection H as <-.
      destruct (parse_nums_shape core ns En) as (ps & -> & Hlen & Hps & ->).
      destruct (parse_pre_nonnil p ids Ep) as [Hp Hi].
      exists vp, ps, ("-"%char :: p ++ "+"%char :: bld), p, bld, ids.
      repeat split; try assumption; try lia.
      * rewrite Hs, Ecb, Ecp, <- !app_assoc. reflexivity.
      * apply parse_tail_pre_build; [apply (parse_pre_ok p ids Ep)|exact Eb].
      * right. auto.
    + destruct (parse_nums false 1 4 main) as [ns|] eqn:En; [|discriminate].
      intros H. injection H as <-.
      destruct (parse_nums_shape main ns En) as (ps & -> & Hlen & Hps & ->).
      exists vp, ps, ("+"%char :: bld), [], bld, [].
      repeat split; try assumption; try lia.
      * rewrite Hs, Ecb. reflexivity.
      * apply parse_tail_build. exact Eb.
      * left. auto.
  - destruct (cut ["-"%char] t) as [[core p]|] eqn:Ecp.
    + apply cut1_some in Ecp.
      destruct (parse_nums false 1 4 core) as [ns|] eqn:En; [|discriminate].
      destruct (parse_pre false p) as [ids|] eqn:Ep; [|discriminate].
      intros H. injection H as <-.
      destruct (parse_nums_shape core ns En) as (ps & -> & Hlen & Hps & ->).
      destruct (parse_pre_nonnil p ids Ep) as [Hp Hi].
      exists vp, ps, ("-"%char :: p), p, [], ids.
      repeat split; try assumption; try lia.
      * rewrite Hs, Ecp. reflexivity.
      * apply parse_tail_pre. apply (parse_pre_ok p ids Ep).
      * right. auto.
    + destruct (parse_nums false 1 4 t) as [ns|] eqn:En; [|discriminate].
      intros H. injection H as <-.
      destruct (parse_nums_shape t ns En) as (ps & -> & Hlen & Hps & ->).
      exists vp, ps, [], [], [], [].
      repeat split; try assumption; try lia.
      * rewrite Hs, app_nil_r. reflexivity.
      * left. auto.
Qed.

(* ---------- a text in the reference's domain has no whitespace ---------- *)

Lemma idc_dot_not_space c : is_idc_dot c = true -> is_space c = false.
Proof.
  destruct c as [b0 b1 b2 b3 b4 b5 b6 b7].
  destruct b0, b1, b2, b3, b4, b5, b6, b7; try reflexivity; intros H; discriminate H.
Qed.

Lemma digit_not_space c : is_digit c = true -> is_space c = false.
Proof.
  intros H. apply idc_dot_not_space. unfold is_idc_dot. rewrite (digit_is_idc c H). reflexivity.
Qed.

Lemma no_space_of p (s : bytes) :
  (forall c, p c = true -> is_space c = false) -> forallb p s = true -> no_space s = true.
Proof.
  intros Hp. unfold no_space. apply forallb_impl. intros c H. rewrite (Hp c H). reflexivity.
Qed.

Lemma no_space_join_digits ps :
  Forall (fun d => nonempty_digits d = true) ps -> no_space (join $"." ps) = true.
Proof.
  induction ps as [|d ps IH]; intros H; [reflexivity|].
  inversion H as [|? ? Hd Hps]; subst.
  assert (Hn : no_space d = true).
  { apply (no_space_of is_digit); [apply digit_not_space|]. apply (nonempty_digits_all d Hd). }
  destruct ps as [|e ps]; [exact Hn|].
  change (join $"." (d :: e :: ps)) with (d ++ [ "."%char ] ++ join $"." (e :: ps)).
  rewrite !no_space_app, Hn, (IH Hps). reflexivity.
Qed.

Lemma parse_tail_no_space tail pb : parse_tail tail = Some pb -> no_space tail = true.
Proof.
  unfold parse_tail. destruct tail as [|c r]; [reflexivity|].
  destruct (ceqb c "-"%char) eqn:E1.
  - apply ceqb_eq in E1. subst c. unfold span.
    destruct (ident_list_ok (take_while is_idc_dot r)) eqn:Ei; [|discriminate].
    assert (Htw : no_space (take_while is_idc_dot r) = true).
    { apply (no_space_of is_idc_dot); [apply idc_dot_not_space|].
      clear. induction r as [|x r IH]; simpl; [reflexivity|].
      destruct (is_idc_dot x) eqn:E; simpl; [rewrite E; exact IH|reflexivity]. }
    assert (Hsplit : r = take_while is_idc_dot r ++ drop_while is_idc_dot r).
    { clear. induction r as [|x r IH]; simpl; [reflexivity|].
      destruct (is_idc_dot x); simpl; [f_equal; exact IH|reflexivity]. }
    destruct (drop_while is_idc_dot r) as [|c2 b] eqn:Ed.
    + intros _. rewrite app_nil_r in Hsplit. rewrite Hsplit.
      change ("-"%char :: take_while is_idc_dot r) with ([ "-"%char ] ++ take_while is_idc_dot r).
      rewrite no_space_app, Htw. reflexivity.
    + destruct (ceqb c2 "+"%char) eqn:E2; [|discriminate].
      apply ceqb_eq in E2. subst c2.
      destruct (ident_list_ok b) eqn:Eb; [|discriminate]. intros _.
      rewrite Hsplit.
      change ("-"%char :: take_while is_idc_dot r ++ "+"%char :: b)
        with ([ "-"%char ] ++ take_while is_idc_dot r ++ [ "+"%char ] ++ b).
      rewrite !no_space_app, Htw.
      rewrite (no_space_of is_idc_dot b idc_dot_not_space (ident_list_ok_chars b Eb)). reflexivity.
  - destruct (ceqb c "+"%char) eqn:E2; [|discriminate].
    apply ceqb_eq in E2. subst c.
    destruct (ident_list_ok r) eqn:Eb; [|discriminate]. intros _.
    change ("+"%char :: r) with ([ "+"%char ] ++ r).
    rewrite no_space_app, (no_space_of is_idc_dot r idc_dot_not_space (ident_list_ok_chars r Eb)).
    reflexivity.
Qed.

Lemma den_no_space s v : den_nuget s = Some v -> trim_space s = s.
Proof.
  intros H. destruct (den_decomp s v H) as (vp & ps & tail & p & b & ids & -> & _ & Hps & Ht & _).
  apply trim_space_no_space. rewrite !no_space_app.
  rewrite (no_space_join_digits ps Hps), (parse_tail_no_space tail _ Ht).
  destruct vp; reflexivity.
Qed.

(* ---------- comparing the fields ---------- *)

Lemma nums_cmp_4 l1 l2 :
  (length l1 <= 4)%nat -> (length l2 <= 4)%nat ->
  nums_cmp l1 l2 =
    thenc (nth 0 l1 0 ?= nth 0 l2 0)
      (thenc (nth 1 l1 0 ?= nth 1 l2 0)
         (thenc (nth 2 l1 0 ?= nth 2 l2 0) (nth 3 l1 0 ?= nth 3 l2 0))).
Proof.
  intros H1 H2. unfold nums_cmp.
  destruct l1 as [|a1 [|a2 [|a3 [|a4 [|? ?]]]]]; simpl in H1; try lia;
  destruct l2 as [|c1 [|c2 [|c3 [|c4 [|? ?]]]]]; simpl in H2; try lia;
  cbn [lex_pad lex_pad_l nth]; change (0 ?= 0) with Eq; cbn [thenc]; try reflexivity;
  repeat match goal with
         | |- context [N.compare ?x ?y] => destruct (N.compare x y); cbn [thenc]; try reflexivity
         end.
Qed.

Lemma nums_cmp_pad3 l1 l2 : nums_cmp (pad_nums 3 l1) (pad_nums 3 l2) = nums_cmp l1 l2.
Proof.
  rewrite (tp_eq_l TP_nums_cmp _ _ _ (nums_cmp_pad_nums 3 l1)).
  apply (tp_eq_r TP_nums_cmp). apply nums_cmp_pad_nums.
Qed.

Lemma forallb_pad_nums P n l : forallb P (pad_nums n l) = true -> forallb P l = true.
Proof.
  revert l. induction n as [|n IH]; intros l; [auto|].
  destruct l as [|x l]; [reflexivity|]. simpl.
  intros H. apply andb_true_iff in H. destruct H as [-> H]. simpl. apply IH, H.
Qed.

(* one identifier *)
Lemma part_ident x y i j :
  pre_ident false x = Some i -> pre_ident false y = Some j ->
  small_id i = true -> small_id j = true ->
  part_cmp x y = ident_cmp i j.
Proof.
  assert (K : forall z k, pre_ident false z = Some k -> small_id k = true ->
            z <> [] /\
            ((all_digits z = true /\ k = INum (digits_val z) /\ parse_num z = Some (Z.of_N (digits_val z)))
             \/ (all_digits z = false /\ k = IAlnum z /\ parse_num z = None))).
  { intros z k Hz Hk. unfold pre_ident in Hz. destruct z as [|c r]; [discriminate|].
    split; [discriminate|]. unfold parse_num.
    destruct (all_digits (c :: r)) eqn:E.
    - left. unfold numeric in Hz.
      assert (Hnd : nonempty_digits (c :: r) = true) by exact E.
      rewrite Hnd in Hz. simpl in Hz. injection Hz as <-.
      repeat split. apply atoi_digits; [exact Hnd|]. apply N.ltb_lt. exact Hk.
    - right. destruct (forallb is_ident_char (c :: r)); [|discriminate].
      injection Hz as <-. auto. }
  intros Hx Hy Hi Hj.
  destruct (K x i Hx Hi) as [Hxn Hxc]. destruct (K y j Hy Hj) as [Hyn Hyc].
  unfold part_cmp. destruct x as [|cx rx]; [congruence|]. destruct y as [|cy ry]; [congruence|].
  destruct Hxc as [(_ & -> & ->)|(_ & -> & ->)]; destruct Hyc as [(_ & -> & ->)|(_ & -> & ->)];
    cbn [ident_cmp]; try reflexivity.
  apply N2Z.inj_compare.
Qed.

Lemma pre_ident_nonnil x i : pre_ident false x = Some i -> x <> [].
Proof. destruct x; [discriminate|discriminate]. Qed.

Lemma parts_cmp ps1 : forall ps2 ids1 ids2,
  map_opt (pre_ident false) ps1 = Some ids1 -> map_opt (pre_ident false) ps2 = Some ids2 ->
  forallb small_id ids1 = true -> forallb small_id ids2 = true ->
  lex_pad [] part_cmp ps1 ps2 = lex_short ident_cmp ids1 ids2.
Proof.
  induction ps1 as [|x ps1 IH]; intros ps2 ids1 ids2 H1 H2 S1 S2.
  - simpl in H1. injection H1 as <-.
    destruct ps2 as [|y ps2].
    + simpl in H2. injection H2 as <-. reflexivity.
    + simpl in H2. destruct (pre_ident false y) as [j|] eqn:Ey; [|discriminate].
      destruct (map_opt (pre_ident false) ps2); [|discriminate]. injection H2 as <-.
      cbn [lex_pad lex_pad_l lex_short]. pose proof (pre_ident_nonnil y j Ey).
      destruct y; [congruence|reflexivity].
  - simpl in H1. destruct (pre_ident false x) as [i|] eqn:Ex; [|discriminate].
    destruct (map_opt (pre_ident false) ps1) as [is1|] eqn:E1; [|discriminate]. injection H1 as <-.
    simpl in S1. apply andb_true_iff in S1. destruct S1 as [Si S1].
    pose proof (pre_ident_nonnil x i Ex) as Hx.
    destruct ps2 as [|y ps2].
    + simpl in H2. injection H2 as <-. cbn [lex_pad lex_short].
      destruct x; [congruence|reflexivity].
    + simpl in H2. destruct (pre_ident false y) as [j|] eqn:Ey; [|discriminate].
      destruct (map_opt (pre_ident false) ps2) as [is2|] eqn:E2; [|discriminate]. injection H2 as <-.
      simpl in S2. apply andb_true_iff in S2. destruct S2 as [Sj S2].
      cbn [lex_pad lex_short].
      rewrite (part_ident x y i j Ex Ey Si Sj), (IH ps2 is1 is2 eq_refl E2 S1 S2). reflexivity.
Qed.

(* the pre-release texts against the identifier lists *)
Definition pre_corr (p : bytes) (ids : list ident) : Prop :=
  (p = [] /\ ids = []) \/ (p <> [] /\ ids <> [] /\ parse_pre false p = Some ids).

Lemma compare_prerelease_spec p1 ids1 p2 ids2 :
  pre_corr p1 ids1 -> pre_corr p2 ids2 ->
  forallb small_id ids1 = true -> forallb small_id ids2 = true ->
  compare_prerelease p1 p2 = pre_cmp ids1 ids2.
Proof.
  intros [[-> ->]|(Hp1 & Hi1 & E1)] [[-> ->]|(Hp2 & Hi2 & E2)] S1 S2.
  - reflexivity.
  - destruct p2; [congruence|]. destruct ids2; [congruence|]. reflexivity.
  - destruct p1; [congruence|]. destruct ids1; [congruence|]. reflexivity.
  - unfold parse_pre in E1, E2.
    pose proof (parts_cmp _ _ _ _ E1 E2 S1 S2) as H.
    destruct p1 as [|c1 r1]; [congruence|]. destruct p2 as [|c2 r2]; [congruence|].
    destruct ids1 as [|i1 is1]; [congruence|]. destruct ids2 as [|i2 is2]; [congruence|].
    unfold compare_prerelease. rewrite H. reflexivity.
Qed.

(* the whole structure *)
Lemma cmp_core_spec ns1 p1 b1 ids1 ns2 p2 b2 ids2 :
  (length ns1 <= 4)%nat -> (length ns2 <= 4)%nat ->
  pre_corr p1 ids1 -> pre_corr p2 ids2 ->
  forallb small_id ids1 = true -> forallb small_id ids2 = true ->
  cmp_core (core_of ns1 p1 b1) (core_of ns2 p2 b2)
  = prec {| nums := pad_nums 3 ns1; pre := ids1 |} {| nums := pad_nums 3 ns2; pre := ids2 |}.
Proof.
  intros L1 L2 C1 C2 S1 S2.
  unfold prec, lexc, cmp_on. cbn [nums pre].
  rewrite nums_cmp_pad3, (nums_cmp_4 ns1 ns2 L1 L2).
  rewrite <- (compare_prerelease_spec p1 ids1 p2 ids2 C1 C2 S1 S2).
  unfold cmp_core, lexc, cmp_on, core_of, zn. cbn [major minor patch revision prerelease].
  rewrite !N2Z.inj_compare.
  repeat match goal with
         | |- context [N.compare ?x ?y] => destruct (N.compare x y); cbn [thenc]; try reflexivity
         end.
Qed.

(* ---------- string level ---------- *)

(* what the model computes on a text of the reference's domain, in scope *)
Lemma model_of_den s v :
  den_nuget s = Some v -> small_sv v = true ->
  exists ns p b,
    trim_space s = s /\
    parse_core s = Some (core_of ns p b) /\
    (length ns <= 4)%nat /\ nums v = pad_nums 3 ns /\ pre_corr p (pre v).
Proof.
  intros Hden Hsm. pose proof (den_no_space s v Hden) as Htrim.
  destruct (den_decomp s v Hden) as (vp & ps & tail & p & b & ids & Hs & Hlen & Hps & Ht & Hv & Hc).
  subst v. unfold small_sv in Hsm. cbn [nums pre] in Hsm.
  apply andb_true_iff in Hsm. destruct Hsm as [Hn _].
  apply forallb_pad_nums in Hn.
  assert (Hg : Forall good_part ps).
  { clear - Hps Hn. induction Hps as [|d ps Hd _ IH]; [constructor|].
    simpl in Hn. apply andb_true_iff in Hn. destruct Hn as [H1 H2].
    constructor; [|apply IH, H2]. split; [exact Hd|]. apply N.ltb_lt. exact H1. }
  exists (map digits_val ps), p, b. repeat split.
  - exact Htrim.
  - rewrite Hs. apply parse_core_parts; assumption.
  - rewrite map_length. lia.
  - exact Hc.
Qed.

Theorem nuget_accepts_spec_valid s :
  in_scope s = true -> sp_valid s = true -> exists t, v_show Nuget.Entry.v s = Some t.
Proof.
  unfold in_scope, sp_valid. destruct (den_nuget s) as [v|] eqn:E; [|discriminate].
  intros Hs _. destruct (model_of_den s v E Hs) as (ns & p & b & Htr & Hp & _).
  cbn [v_show Nuget.Entry.v mk_vops]. unfold VLayer.parse. rewrite Htr, Hp. simpl. eauto.
Qed.

Theorem nuget_cmp_is_spec a b :
  in_scope a = true -> in_scope b = true ->
  sp_valid a = true -> sp_valid b = true ->
  v_cmp Nuget.Entry.v a b = sp_cmp a b.
Proof.
  unfold in_scope, sp_valid, sp_cmp, spec_cmp_with.
  destruct (den_nuget a) as [va|] eqn:Ea; [|discriminate].
  destruct (den_nuget b) as [vb|] eqn:Eb; [|discriminate].
  intros Sa Sb _ _.
  destruct (model_of_den a va Ea Sa) as (ns1 & p1 & b1 & Htr1 & Hp1 & L1 & N1 & C1).
  destruct (model_of_den b vb Eb Sb) as (ns2 & p2 & b2 & Htr2 & Hp2 & L2 & N2 & C2).
  cbn [v_cmp Nuget.Entry.v mk_vops]. unfold VLayer.parse. rewrite Htr1, Htr2, Hp1, Hp2.
  unfold VLayer.cmp. cbn [v_core]. f_equal.
  unfold small_sv in Sa, Sb.
  apply andb_true_iff in Sa. destruct Sa as [_ Sa].
  apply andb_true_iff in Sb. destruct Sb as [_ Sb].
  rewrite (cmp_core_spec ns1 p1 b1 (pre va) ns2 p2 b2 (pre vb) L1 L2 C1 C2 Sa Sb).
  rewrite <- N1, <- N2. destruct va, vb. reflexivity.
Qed.

(* the reference's domain is inside the model's, up to the int64 bound; and every text the
   reference accepts is untouched by TrimSpace *)
Corollary spec_valid_no_whitespace s : sp_valid s = true -> trim_space s = s.
Proof.
  unfold sp_valid. destruct (den_nuget s) as [v|] eqn:E; [|discriminate].
  intros _. apply (den_no_space s v E).
Qed.

(* ---------- outside the scope the statements are false ---------- *)

(* a numeric pre-release identifier >= 2^63 is compared as text by the code *)
Lemma nuget_cmp_is_spec_refuted :
  let a := $"1.0-10000000000000000000" in
  let b := $"1.0-9223372036854775808" in
  sp_valid a = true /\ sp_valid b = true /\
  in_scope a = false /\ in_scope b = false /\
  v_cmp Nuget.Entry.v a b = Some Lt /\ sp_cmp a b = Some Gt.
Proof. vm_compute. repeat split. Qed.

(* ... and sorts above alphanumeric identifiers that begin with a byte below "9" *)
Lemma nuget_cmp_is_spec_refuted_2 :
  let a := $"1.0-9223372036854775808" in
  let b := $"1.0--" in
  sp_valid a = true /\ sp_valid b = true /\ in_scope a = false /\ in_scope b = true /\
  v_cmp Nuget.Entry.v a b = Some Gt /\ sp_cmp a b = Some Lt.
Proof. vm_compute. repeat split. Qed.

(* a numeric component >= 2^63 is rejected by the code *)
Lemma nuget_accepts_spec_valid_refuted :
  let s := $"1.9223372036854775808" in
  sp_valid s = true /\ in_scope s = false /\ v_show Nuget.Entry.v s = None.
Proof. vm_compute. repeat split. Qed.

(* the model accepts more than the reference: a second "v", surrounding whitespace *)
Lemma model_accepts_more :
  sp_valid $"vv1.0" = false /\ v_show Nuget.Entry.v $"vv1.0" = Some $"vv1.0" /\
  sp_valid $" 1.0 " = false /\ v_show Nuget.Entry.v $" 1.0 " = Some $"1.0".
Proof. vm_compute. repeat split. Qed.

(* a syntactic sufficient condition for the scope: the boundary values *)
Lemma in_scope_boundary :
  in_scope $"9223372036854775807.0-9223372036854775807" = true /\
  in_scope $"0009223372036854775807" = true /\
  in_scope $"1.0-a9223372036854775808" = true.
Proof. vm_compute. repeat split. Qed.

(* [sp_valid] / [sp_cmp] above are the entry registered under "nuget" in Spec/All.v *)
Lemma registry_agrees :
  match Verif.Spec.All.find_spec $"nuget" Verif.Spec.All.specs with
  | Some sp => (forall s, Verif.Spec.All.sp_valid sp s = sp_valid s) /\
               (forall a b, Verif.Spec.All.sp_cmp sp a b = sp_cmp a b)
  | None => False
  end.
Proof.
  change (Verif.Spec.All.find_spec $"nuget" Verif.Spec.All.specs)
    with (Some (Verif.Spec.All.semver_like $"nuget" den_nuget)).
  split; intros; reflexivity.
Qed.

Print Assumptions nuget_cmp_is_spec.
Print Assumptions nuget_accepts_spec_valid.
Print Assumptions spec_valid_no_whitespace.
Print Assumptions nuget_cmp_is_spec_refuted.
Print Assumptions nuget_cmp_is_spec_refuted_2.
Print Assumptions nuget_accepts_spec_valid_refuted.
