(* Eco/Nuget/Version.v — model of pkg/ecosystem/nuget/version.go (definitions only). *)
From Verif.Base Require Import Bytes GoNum.
From Verif.Eco Require Import VLayer.
Local Open Scope N_scope.

Record core := {
  major : Z;
  minor : Z;
  patch : Z;
  revision : Z;
  prerelease : bytes;
  build : bytes
}.

(* [0-9A-Za-z-] *)
Definition is_idc (c : ascii) : bool := is_alnum c || ceqb c "-"%char.
Definition is_idc_dot (c : ascii) : bool := is_idc c || ceqb c "."%char.

(* [0-9A-Za-z-]+(?:\.[0-9A-Za-z-]+)* matching the whole of s *)
Definition ident_ok (p : bytes) : bool :=
  match p with [] => false | _ => forallb is_idc p end.
Definition ident_list_ok (s : bytes) : bool := forallb ident_ok (split_c "."%char s).

(* up to n groups (?:\.(\d+))? ; returns the digit runs and the remaining text *)
Fixpoint num_groups (n : nat) (r : bytes) : list bytes * bytes :=
  match n with
  | O => ([], r)
  | S k =>
      match r with
      | c :: r' =>
          if ceqb c "."%char then
            match take_while is_digit r' with
            | [] => ([], r)
            | d => let (ds, rest) := num_groups k (drop_while is_digit r') in (d :: ds, rest)
            end
          else ([], r)
      | [] => ([], r)
      end
  end.

(* (?:-(pre))?(?:\+(build))?$ *)
Definition parse_tail (r : bytes) : option (bytes * bytes) :=
  match r with
  | [] => Some ([], [])
  | c :: r' =>
      if ceqb c "-"%char then
        let (pre, r'') := span is_idc_dot r' in
        if ident_list_ok pre then
          match r'' with
          | [] => Some (pre, [])
          | c2 :: b =>
              if ceqb c2 "+"%char then
                if ident_list_ok b then Some (pre, b) else None
              else None
          end
        else None
      else if ceqb c "+"%char then
        if ident_list_ok r' then Some ([], r') else None
      else None
  end.

(* strconv.Atoi on a non-empty digit run *)
Definition num_of (d : bytes) : option Z := atoi d.

Definition nth_num (ds : list bytes) (i : nat) : option Z :=
  match nth_error ds i with
  | Some d => num_of d
  | None => Some 0%Z
  end.

(* NewVersion after TrimSpace: TrimPrefix "v", then versionPattern (which allows one more "v") *)
Definition parse_core (t : bytes) : option core :=
  let t1 := trim_prefix $"v" t in
  let t2 := trim_prefix $"v" t1 in
  let (d1, r1) := span is_digit t2 in
  match d1 with
  | [] => None
  | _ =>
      let (ds, r2) := num_groups 3 r1 in
      match parse_tail r2 with
      | None => None
      | Some (pre, bld) =>
          match num_of d1, nth_num ds 0, nth_num ds 1, nth_num ds 2 with
          | Some a, Some b, Some c, Some d =>
              Some {| major := a; minor := b; patch := c; revision := d;
                      prerelease := pre; build := bld |}
          | _, _, _, _ => None
          end
      end
  end.

(* parseNum: digits only and Atoi succeeds *)
Definition parse_num (s : bytes) : option Z :=
  if all_digits s then atoi s else None.

(* one step of the loop in comparePrerelease *)
Definition part_cmp (a b : bytes) : comparison :=
  match a, b with
  | [], [] => Eq
  | [], _ :: _ => Lt
  | _ :: _, [] => Gt
  | _, _ =>
      match parse_num a, parse_num b with
      | Some x, Some y => Z.compare x y
      | Some _, None => Lt
      | None, Some _ => Gt
      | None, None => bytes_cmp a b
      end
  end.

Definition compare_prerelease (a b : bytes) : comparison :=
  match a, b with
  | [], [] => Eq
  | [], _ :: _ => Gt
  | _ :: _, [] => Lt
  | _, _ => lex_pad [] part_cmp (split_c "."%char a) (split_c "."%char b)
  end.

Definition cmp_core : core -> core -> comparison :=
  lexc (cmp_on major Z.compare)
    (lexc (cmp_on minor Z.compare)
       (lexc (cmp_on patch Z.compare)
          (lexc (cmp_on revision Z.compare)
             (cmp_on prerelease compare_prerelease)))).

(* String() returns strings.TrimSpace(original) *)
Definition raw_orig := false.

Definition ver := VLayer.ver core.
Definition parse : bytes -> option ver := VLayer.parse parse_core raw_orig.
Definition cmp : ver -> ver -> comparison := VLayer.cmp cmp_core.
Definition show : ver -> bytes := VLayer.show.
