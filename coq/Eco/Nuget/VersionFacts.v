(* Eco/Nuget/VersionFacts.v — Compare of nuget versions is a total preorder (C01); C03 facts. *)
From Coq Require Import Lia.
From Verif.Base Require Import Bytes GoNum Ord BytesFacts.
From Verif.Eco.Nuget Require Import DecFacts.
From Verif.Eco Require Import VLayer VLayerFacts.
From Verif.Eco.Nuget Require Import Version.

(* ---------- the prerelease identifier order as a key order ---------- *)

(* rank 0: empty (missing) part, 1: numeric identifier, 2: alphanumeric identifier *)
Definition part_rank (s : bytes) : N :=
  match s with
  | [] => 0%N
  | _ => match parse_num s with Some _ => 1%N | None => 2%N end
  end.
Definition part_num (s : bytes) : Z :=
  match s with
  | [] => 0%Z
  | _ => match parse_num s with Some n => n | None => 0%Z end
  end.
Definition part_str (s : bytes) : bytes :=
  match s with
  | [] => []
  | _ => match parse_num s with Some _ => [] | None => s end
  end.

Definition part_key_cmp : bytes -> bytes -> comparison :=
  lexc (cmp_on part_rank N.compare)
    (lexc (cmp_on part_num Z.compare) (cmp_on part_str bytes_cmp)).

Lemma part_cmp_as_key a b : part_cmp a b = part_key_cmp a b.
Proof.
  unfold part_cmp, part_key_cmp, lexc, cmp_on, part_rank, part_num, part_str.
  destruct a as [|x a]; destruct b as [|y b]; try reflexivity.
  - destruct (parse_num (y :: b)); reflexivity.
  - destruct (parse_num (x :: a)); reflexivity.
  - destruct (parse_num (x :: a)) as [n|]; destruct (parse_num (y :: b)) as [m|];
      try reflexivity.
    cbn [N.compare thenc]. destruct (Z.compare n m); reflexivity.
Qed.

Lemma part_cmp_tp : TotalPreorder part_cmp.
Proof.
  eapply TP_ext; [apply part_cmp_as_key|].
  unfold part_key_cmp.
  apply TP_lexc; [apply TP_on, TP_N|].
  apply TP_lexc; [apply TP_on, TP_Z|apply TP_on, TP_bytes_cmp].
Qed.

Definition pre_key (s : bytes) : option (list bytes) :=
  match s with [] => None | _ => Some (split_c "."%char s) end.

Lemma compare_prerelease_as_key a b :
  compare_prerelease a b = cmp_on pre_key (opt_last (lex_pad [] part_cmp)) a b.
Proof.
  unfold compare_prerelease, cmp_on, pre_key.
  destruct a; destruct b; reflexivity.
Qed.

Lemma compare_prerelease_tp : TotalPreorder compare_prerelease.
Proof.
  eapply TP_ext; [apply compare_prerelease_as_key|].
  apply TP_on, TP_opt_last, TP_lex_pad, part_cmp_tp.
Qed.

Lemma cmp_core_tp : TotalPreorder cmp_core.
Proof.
  unfold cmp_core.
  repeat (apply TP_lexc; [apply TP_on, TP_Z|]).
  apply TP_on, compare_prerelease_tp.
Qed.

Lemma cmp_tp : TotalPreorder cmp.
Proof. apply VLayerFacts.cmp_tp, cmp_core_tp. Qed.

(* ---------- C03: numeric tuples, pre-release markers, build metadata ---------- *)

Local Open Scope N_scope.

Definition dots (t : list N) : bytes := join $"." (map dec t).
Definition zn (t : list N) (i : nat) : Z := Z.of_N (nth i t 0).
Definition core_of (t : list N) (pre bld : bytes) : core :=
  {| major := zn t 0; minor := zn t 1; patch := zn t 2; revision := zn t 3;
     prerelease := pre; build := bld |}.

(* ".n1.n2..." followed by tail *)
Fixpoint nums_text (t : list N) (tail : bytes) : bytes :=
  match t with
  | [] => tail
  | n :: t' => "."%char :: dec n ++ nums_text t' tail
  end.

Definition is_dot (c : ascii) : bool := ceqb c "."%char.

Lemma dots_app a t tail : dots (a :: t) ++ tail = dec a ++ nums_text t tail.
Proof.
  revert a. induction t as [|b t IH]; intros a.
  - reflexivity.
  - change (dots (a :: b :: t)) with (dec a ++ "."%char :: dots (b :: t)).
    rewrite <- app_assoc. cbn [app nums_text]. rewrite IH. reflexivity.
Qed.

Lemma nums_text_hd t tail : hd_not is_digit tail -> hd_not is_digit (nums_text t tail).
Proof. destruct t; simpl; auto. Qed.

Lemma num_groups_stop k tail : hd_not is_dot tail -> num_groups k tail = ([], tail).
Proof.
  unfold is_dot. destruct k; [reflexivity|]. destruct tail as [|c r]; simpl; [reflexivity|].
  intros H. rewrite H. reflexivity.
Qed.

Lemma num_groups_nums t : forall k tail,
  (length t <= k)%nat -> hd_not is_digit tail -> hd_not is_dot tail ->
  num_groups k (nums_text t tail) = (map dec t, tail).
Proof.
  induction t as [|n t IH]; intros k tail Hk Hd Hp.
  - apply num_groups_stop, Hp.
  - destruct k as [|k]; [simpl in Hk; lia|].
    cbn [nums_text num_groups map].
    change (ceqb "."%char "."%char) with true. cbv iota.
    pose proof (nums_text_hd t tail Hd) as Hh.
    rewrite (take_digits_dec n _ Hh), (drop_digits_dec n _ Hh).
    rewrite (IH k tail ltac:(simpl in Hk; lia) Hd Hp).
    destruct (dec_hd n) as (c & r & E & _). rewrite E. reflexivity.
Qed.

Lemma nth_num_dec t : forall i,
  Forall (fun n => n < two63) t -> nth_num (map dec t) i = Some (Z.of_N (nth i t 0)).
Proof.
  induction t as [|n t IH]; intros i H.
  - destruct i; reflexivity.
  - inversion H as [|? ? Hn Ht]; subst. destruct i as [|i].
    + unfold nth_num. simpl. apply atoi_dec, Hn.
    + unfold nth_num in *. simpl. apply IH, Ht.
Qed.

Lemma parse_tail_hd tail pb :
  parse_tail tail = Some pb -> hd_not is_digit tail /\ hd_not is_dot tail.
Proof.
  unfold parse_tail, is_dot. destruct tail as [|c r]; [simpl; auto|].
  destruct (ceqb c "-"%char) eqn:E1.
  { apply ceqb_eq in E1. subst. simpl. auto. }
  destruct (ceqb c "+"%char) eqn:E2; [|discriminate].
  apply ceqb_eq in E2. subst. simpl. auto.
Qed.

Lemma trim_prefix_v_digit c s : is_digit c = true -> trim_prefix $"v" (c :: s) = c :: s.
Proof.
  intros H. unfold trim_prefix. simpl.
  destruct (ceqb "v"%char c) eqn:E; [|reflexivity].
  apply ceqb_eq in E. subst. discriminate.
Qed.

(* a dotted tuple of 1..4 numbers below 2^63, followed by any accepted tail, parses to the
   expected fields *)
Lemma parse_core_dots t tail pre bld :
  (1 <= length t <= 4)%nat -> Forall (fun n => n < two63) t ->
  parse_tail tail = Some (pre, bld) ->
  parse_core (dots t ++ tail) = Some (core_of t pre bld).
Proof.
  intros Hlen Hb Htail.
  destruct t as [|a t]; [simpl in Hlen; lia|].
  inversion Hb as [|? ? Ha Ht]; subst.
  destruct (parse_tail_hd tail _ Htail) as [Hd Hp].
  rewrite dots_app. unfold parse_core.
  destruct (dec_hd a) as (c & r & E & Hc).
  assert (Etp : forall s, trim_prefix $"v" (dec a ++ s) = dec a ++ s).
  { intros s. rewrite E. apply trim_prefix_v_digit, Hc. }
  rewrite !Etp. unfold span.
  pose proof (nums_text_hd t tail Hd) as Hh.
  rewrite (take_digits_dec a _ Hh), (drop_digits_dec a _ Hh).
  rewrite (num_groups_nums t 3 tail ltac:(simpl in Hlen; lia) Hd Hp), Htail.
  unfold num_of. rewrite (atoi_dec a Ha), !(nth_num_dec t _ Ht).
  rewrite E. reflexivity.
Qed.

Lemma parse_tail_nil : parse_tail [] = Some ([], []).
Proof. reflexivity. Qed.

Lemma idc_dot_of_split s :
  forallb (forallb is_idc) (split_c "."%char s) = true -> forallb is_idc_dot s = true.
Proof.
  induction s as [|c s IH]; [reflexivity|].
  cbn [split_c forallb]. unfold is_idc_dot at 1.
  destruct (ceqb "."%char c) eqn:E.
  - apply ceqb_eq in E. subst. cbn [forallb]. intros H. rewrite orb_true_r. apply IH, H.
  - destruct (split_c "."%char s) as [|f fs] eqn:Es.
    + cbn [forallb]. intros H. apply andb_true_iff in H. destruct H as [H _].
      apply andb_true_iff in H. destruct H as [H _]. rewrite H. apply IH. reflexivity.
    + cbn [forallb]. intros H. apply andb_true_iff in H. destruct H as [H H2].
      apply andb_true_iff in H. destruct H as [H H1]. rewrite H. apply IH.
      cbn [forallb]. rewrite H1, H2. reflexivity.
Qed.

Lemma ident_list_ok_chars s : ident_list_ok s = true -> forallb is_idc_dot s = true.
Proof.
  intros H. apply idc_dot_of_split. unfold ident_list_ok in H.
  rewrite forallb_forall in *. intros p Hp. specialize (H p Hp).
  unfold ident_ok in H. destruct p; [discriminate|exact H].
Qed.

Lemma parse_tail_pre pre : ident_list_ok pre = true -> parse_tail ("-"%char :: pre) = Some (pre, []).
Proof.
  intros H. unfold parse_tail. change (ceqb "-"%char "-"%char) with true. cbv iota.
  unfold span. pose proof (ident_list_ok_chars pre H) as Hc.
  rewrite (take_while_all _ _ Hc), (drop_while_all _ _ Hc), H. reflexivity.
Qed.

Lemma parse_tail_build b : ident_list_ok b = true -> parse_tail ("+"%char :: b) = Some ([], b).
Proof.
  intros H. unfold parse_tail.
  change (ceqb "+"%char "-"%char) with false. change (ceqb "+"%char "+"%char) with true.
  cbv iota. rewrite H. reflexivity.
Qed.

Lemma parse_tail_pre_build pre b :
  ident_list_ok pre = true -> ident_list_ok b = true ->
  parse_tail ("-"%char :: pre ++ "+"%char :: b) = Some (pre, b).
Proof.
  intros Hp Hb. unfold parse_tail. change (ceqb "-"%char "-"%char) with true. cbv iota.
  unfold span. pose proof (ident_list_ok_chars pre Hp) as Hc.
  rewrite (take_while_app_all _ _ _ Hc), (drop_while_app_all _ _ _ Hc).
  cbn [take_while drop_while]. change (is_idc_dot "+"%char) with false. cbv iota.
  rewrite app_nil_r, Hp. change (ceqb "+"%char "+"%char) with true. cbv iota.
  rewrite Hb. reflexivity.
Qed.

(* numeric tuples of the same arity compare as tuples of integers *)
Lemma cmp_core_of_tuples t1 t2 p b1 b2 :
  length t1 = length t2 -> (1 <= length t1 <= 4)%nat ->
  cmp_core (core_of t1 p b1) (core_of t2 p b2)
  = lex_short N.compare t1 t2.
Proof.
  intros Hl Hn.
  assert (R : compare_prerelease p p = Eq) by apply (tp_refl compare_prerelease_tp).
  destruct t1 as [|a1 [|a2 [|a3 [|a4 [|? ?]]]]]; simpl in Hn; try lia;
  destruct t2 as [|c1 [|c2 [|c3 [|c4 [|? ?]]]]]; simpl in Hl; try discriminate;
  unfold cmp_core, lexc, cmp_on, core_of, zn; cbn [major minor patch revision prerelease nth lex_short];
  rewrite ?N2Z.inj_compare, R; change (Z.of_N 0 ?= Z.of_N 0)%Z with Eq;
  repeat match goal with |- context [N.compare ?x ?y] => destruct (N.compare x y); cbn [thenc]; try reflexivity end.
Qed.

Theorem c03_numeric t1 t2 :
  length t1 = length t2 -> (1 <= length t1 <= 4)%nat ->
  Forall (fun n => n < two63) t1 -> Forall (fun n => n < two63) t2 ->
  exists c1 c2,
    parse_core (dots t1) = Some c1 /\ parse_core (dots t2) = Some c2 /\
    cmp_core c1 c2 = lex_short N.compare t1 t2.
Proof.
  intros Hl Hn H1 H2.
  exists (core_of t1 [] []), (core_of t2 [] []). repeat split.
  - rewrite <- (app_nil_r (dots t1)). apply parse_core_dots; auto.
  - rewrite <- (app_nil_r (dots t2)). apply parse_core_dots; auto. rewrite <- Hl. exact Hn.
  - apply cmp_core_of_tuples; assumption.
Qed.

(* a pre-release is older than its release, whatever the identifiers *)
Lemma cmp_core_pre_lt t pre b1 b2 :
  pre <> [] -> cmp_core (core_of t pre b1) (core_of t [] b2) = Lt.
Proof.
  intros H. unfold cmp_core, lexc, cmp_on, core_of.
  cbn [major minor patch revision prerelease]. rewrite !Z.compare_refl. cbn [thenc].
  destruct pre; [congruence|reflexivity].
Qed.

Theorem c03_prerelease t pre :
  (1 <= length t <= 4)%nat -> Forall (fun n => n < two63) t -> ident_list_ok pre = true ->
  exists c1 c2,
    parse_core (dots t ++ "-"%char :: pre) = Some c1 /\ parse_core (dots t) = Some c2 /\
    cmp_core c1 c2 = Lt /\ cmp_core c2 c1 = Gt.
Proof.
  intros Hn Hb Hp.
  exists (core_of t pre []), (core_of t [] []).
  assert (Hne : pre <> []) by (intros ->; discriminate).
  repeat split.
  - apply parse_core_dots; auto. apply parse_tail_pre, Hp.
  - rewrite <- (app_nil_r (dots t)). apply parse_core_dots; auto.
  - apply cmp_core_pre_lt, Hne.
  - rewrite (tp_anti cmp_core_tp), (cmp_core_pre_lt t pre [] [] Hne). reflexivity.
Qed.

(* build metadata is ignored, with or without a pre-release *)
Theorem c03_build t b :
  (1 <= length t <= 4)%nat -> Forall (fun n => n < two63) t -> ident_list_ok b = true ->
  exists c1 c2,
    parse_core (dots t ++ "+"%char :: b) = Some c1 /\ parse_core (dots t) = Some c2 /\
    cmp_core c1 c2 = Eq.
Proof.
  intros Hn Hb Hp.
  exists (core_of t [] b), (core_of t [] []). repeat split.
  - apply parse_core_dots; auto. apply parse_tail_build, Hp.
  - rewrite <- (app_nil_r (dots t)). apply parse_core_dots; auto.
  - rewrite cmp_core_of_tuples by auto. apply (tp_refl (TP_lex_short _ _ TP_N)).
Qed.

Theorem c03_pre_build t pre b :
  (1 <= length t <= 4)%nat -> Forall (fun n => n < two63) t ->
  ident_list_ok pre = true -> ident_list_ok b = true ->
  exists c1 c2,
    parse_core (dots t ++ "-"%char :: pre ++ "+"%char :: b) = Some c1 /\
    parse_core (dots t ++ "-"%char :: pre) = Some c2 /\
    cmp_core c1 c2 = Eq.
Proof.
  intros Hn Hb Hp Hbd.
  exists (core_of t pre b), (core_of t pre []). repeat split.
  - apply parse_core_dots; auto. apply parse_tail_pre_build; assumption.
  - apply parse_core_dots; auto. apply parse_tail_pre, Hp.
  - rewrite cmp_core_of_tuples by auto. apply (tp_refl (TP_lex_short _ _ TP_N)).
Qed.

(* ---------- witnesses of surprising behaviour (all by computation) ---------- *)

Definition scmp (a b : bytes) : option comparison :=
  match parse a, parse b with
  | Some x, Some y => Some (cmp x y)
  | _, _ => None
  end.

(* a numeric identifier that overflows int64 is compared as text:
   10^19 sorts below 2^63, and above the alphanumeric identifier "-" *)
Lemma overflow_identifier_is_text :
  scmp $"1.0-10000000000000000000" $"1.0-9223372036854775808" = Some Lt /\
  scmp $"1.0-9223372036854775808" $"1.0--" = Some Gt /\
  scmp $"1.0-9223372036854775807" $"1.0--" = Some Lt.
Proof. vm_compute. repeat split. Qed.

(* identifiers are compared case-sensitively (NuGet itself ignores case) *)
Lemma prerelease_case_sensitive :
  scmp $"1.0-alpha" $"1.0-ALPHA" = Some Gt /\ scmp $"1.0-alpha" $"1.0-Beta" = Some Gt.
Proof. vm_compute. repeat split. Qed.

(* two leading "v" are accepted (TrimPrefix, then v? in the pattern), three are not *)
Lemma double_v_accepted :
  scmp $"vv1.0" $"1" = Some Eq /\ parse $"vvv1.0" = None.
Proof. vm_compute. repeat split. Qed.

(* leading zeros are accepted everywhere and ignored *)
Lemma leading_zeros_ignored : scmp $"01.002-rc.01" $"1.2.0.0-rc.1" = Some Eq.
Proof. vm_compute. repeat split. Qed.

Print Assumptions cmp_core_tp.
Print Assumptions cmp_tp.
Print Assumptions c03_numeric.
Print Assumptions c03_prerelease.
Print Assumptions c03_build.
Print Assumptions c03_pre_build.
