(* Base/DecFacts.v — facts about fmt "%d" ([dec], [dec_z]) and reading it back
   ([digits_val], [nonempty_digits]); and about Split/Join over a single-byte separator. *)
From Coq Require Import Lia.
From Verif.Base Require Import Bytes BytesFacts GoNum Ord.
Local Open Scope N_scope.

Lemma pos_size_nat_gt p : Npos p < 2 ^ N.of_nat (Pos.size_nat p).
Proof.
  induction p as [p IH|p IH|]; cbn [Pos.size_nat].
  - rewrite Nat2N.inj_succ, N.pow_succ_r'. set (X := 2 ^ N.of_nat (Pos.size_nat p)) in *. lia.
  - rewrite Nat2N.inj_succ, N.pow_succ_r'. set (X := 2 ^ N.of_nat (Pos.size_nat p)) in *. lia.
  - vm_compute. reflexivity.
Qed.

Lemma size_nat_gt n : n < 2 ^ N.of_nat (N.size_nat n).
Proof. destruct n as [|p]; [vm_compute; reflexivity|apply pos_size_nat_gt]. Qed.

Lemma digit_chr d : d < 10 -> is_digit (chr (48 + d)) = true /\ digit_val (chr (48 + d)) = d.
Proof.
  intros H.
  assert (E : d = 0 \/ d = 1 \/ d = 2 \/ d = 3 \/ d = 4 \/ d = 5 \/ d = 6 \/ d = 7 \/ d = 8 \/ d = 9) by lia.
  repeat (destruct E as [E|E]; [subst d; vm_compute; split; reflexivity|]).
  subst d; vm_compute; split; reflexivity.
Qed.

Lemma digits_val_app a b :
  digits_val (a ++ b) = fold_left (fun acc c => acc * 10 + digit_val c) b (digits_val a).
Proof. unfold digits_val. apply fold_left_app. Qed.

Lemma digits_val_snoc a c : digits_val (a ++ [c]) = digits_val a * 10 + digit_val c.
Proof. rewrite digits_val_app. reflexivity. Qed.

Lemma dec_fuel_spec fuel : forall n acc,
  fuel <> O -> n < 2 ^ N.of_nat fuel ->
  exists ds, dec_fuel fuel n acc = ds ++ acc /\ ds <> [] /\ forallb is_digit ds = true /\ digits_val ds = n.
Proof.
  induction fuel as [|k IH]; intros n acc Hf Hn; [congruence|].
  cbn [dec_fuel]. clear Hf.
  {
    assert (Hd : n mod 10 < 10) by (apply N.mod_lt; discriminate).
    destruct (digit_chr _ Hd) as [Hd1 Hd2].
    destruct (n <? 10) eqn:E.
    + apply N.ltb_lt in E. exists [chr (48 + n mod 10)]. repeat split.
      * discriminate.
      * cbn [forallb]. rewrite Hd1. reflexivity.
      * unfold digits_val. cbn [fold_left]. rewrite Hd2. rewrite N.mul_0_l, N.add_0_l. apply N.mod_small. assumption.
    + apply N.ltb_ge in E.
      assert (Hk : n / 10 < 2 ^ N.of_nat k).
      { rewrite Nat2N.inj_succ, N.pow_succ_r' in Hn.
        apply N.div_lt_upper_bound; [discriminate|]. lia. }
      assert (Hk0 : k <> O).
      { intros ->. simpl in Hk. assert (1 <= n / 10) by (apply N.div_le_lower_bound; lia). lia. }
      destruct (IH (n / 10) (chr (48 + n mod 10) :: acc) Hk0 Hk) as (ds & E1 & E2 & E3 & E4).
      exists (ds ++ [chr (48 + n mod 10)]). repeat split.
      * rewrite E1, <- app_assoc. reflexivity.
      * destruct ds; discriminate.
      * rewrite forallb_app, E3. cbn [forallb]. rewrite Hd1. reflexivity.
      * rewrite digits_val_snoc, E4, Hd2.
        rewrite (N.div_mod n 10) at 3 by discriminate. lia.
  }
Qed.

Lemma dec_spec n : dec n <> [] /\ forallb is_digit (dec n) = true /\ digits_val (dec n) = n.
Proof.
  unfold dec.
  destruct (dec_fuel_spec (S (N.size_nat n)) n []) as (ds & E1 & E2 & E3 & E4).
  - discriminate.
  - rewrite Nat2N.inj_succ, N.pow_succ_r'. pose proof (size_nat_gt n). lia.
  - rewrite app_nil_r in E1. rewrite E1. auto.
Qed.

Lemma dec_nonempty n : dec n <> [].
Proof. apply dec_spec. Qed.
Lemma dec_digits n : forallb is_digit (dec n) = true.
Proof. apply dec_spec. Qed.
Lemma dec_val n : digits_val (dec n) = n.
Proof. apply dec_spec. Qed.
Lemma dec_nonempty_digits n : nonempty_digits (dec n) = true.
Proof.
  unfold nonempty_digits. pose proof (dec_nonempty n). pose proof (dec_digits n).
  destruct (dec n); [congruence|assumption].
Qed.

Lemma dec_z_nonneg z : (0 <= z)%Z -> dec_z z = dec (Z.to_N z).
Proof. destruct z; simpl; auto. lia. Qed.

Lemma dec_z_of_N n : dec_z (Z.of_N n) = dec n.
Proof. rewrite dec_z_nonneg by lia. rewrite N2Z.id. reflexivity. Qed.

(* ---------- take_while / drop_while over an append ---------- *)

Lemma take_while_app_all p (a b : bytes) :
  forallb p a = true -> take_while p (a ++ b) = a ++ take_while p b.
Proof.
  induction a as [|c a IH]; simpl; [reflexivity|].
  intros H. apply andb_true_iff in H. destruct H as [H1 H2]. rewrite H1, IH by assumption. reflexivity.
Qed.

Lemma take_while_all p (a : bytes) : forallb p a = true -> take_while p a = a.
Proof.
  intros H. rewrite <- (app_nil_r a) at 1. rewrite take_while_app_all by assumption.
  simpl. apply app_nil_r.
Qed.

Lemma drop_while_all p (a : bytes) : forallb p a = true -> drop_while p a = [].
Proof. intros H. apply drop_while_nil_iff. assumption. Qed.

(* ---------- Split(Join(l, sep), sep) = l ---------- *)

Lemma split_c_no_sep sep s : contains_c sep s = false -> split_c sep s = [s].
Proof.
  unfold contains_c. induction s as [|c s IH]; simpl; [reflexivity|].
  intros H. apply orb_false_iff in H. destruct H as [H1 H2].
  rewrite H1, (IH H2). reflexivity.
Qed.

Lemma split_c_app_sep sep a b :
  contains_c sep a = false -> split_c sep (a ++ sep :: b) = a :: split_c sep b.
Proof.
  unfold contains_c. induction a as [|c a IH]; simpl.
  - intros _. rewrite ceqb_refl. reflexivity.
  - intros H. apply orb_false_iff in H. destruct H as [H1 H2].
    rewrite H1, (IH H2). reflexivity.
Qed.

Lemma split_join sep l :
  l <> [] -> forallb (fun x => negb (contains_c sep x)) l = true ->
  split_c sep (join [sep] l) = l.
Proof.
  induction l as [|x l IH]; [congruence|]. intros _ H.
  simpl in H. apply andb_true_iff in H. destruct H as [Hx Hl].
  apply negb_true_iff in Hx.
  destruct l as [|y l].
  - simpl. apply split_c_no_sep. assumption.
  - change (join [sep] (x :: y :: l)) with (x ++ sep :: join [sep] (y :: l)).
    rewrite split_c_app_sep by assumption.
    rewrite IH; [reflexivity|discriminate|assumption].
Qed.

Lemma digits_no_c sep s :
  is_digit sep = false -> forallb is_digit s = true -> contains_c sep s = false.
Proof.
  intros Hs. unfold contains_c. induction s as [|c s IH]; simpl; [reflexivity|].
  intros H. apply andb_true_iff in H. destruct H as [H1 H2]. rewrite (IH H2), orb_false_r.
  destruct (ceqb sep c) eqn:E; [|reflexivity].
  apply ceqb_eq in E. subst. congruence.
Qed.
