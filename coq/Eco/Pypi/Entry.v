From Verif.Base Require Import Bytes.
From Verif.Eco Require Import Iface.
From Verif.Eco.Pypi Require Version Range.

Definition v : vops := mk_vops Pypi.Version.parse_core Pypi.Version.cmp_core Pypi.Version.raw_orig.
Definition r : rops := {|
  r_show := fun vok s => option_map Pypi.Range.show (Pypi.Range.parse_range vok s);
  r_contains := fun vok vcmp rg ver =>
    match Pypi.Range.parse_range vok rg with
    | Some x => if vok ver then Some (Pypi.Range.contains vok vcmp x ver) else None
    | None => None
    end
|}.
Definition entry : eco := {| e_name := $"pypi"; e_v := v; e_r := r |}.
