(* Eco/Pypi/Range.v — model of pkg/ecosystem/pypi/range.go (definitions only).

   A range is a list of (operator, bound text) constraints, all of which must hold.  The
   shorthands ~=V and ==V.* are desugared at parse time into two comparator constraints whose
   bounds are printed texts, !=V.* into one constraint "!=*" carrying both bounds; === compares the version's String() with the
   bound text.  Bounds are parsed lazily (in Contains), except inside the shorthands. *)
From Verif.Base Require Import Bytes GoNum Ord.
From Verif.Gen Require Operators.
From Verif.Eco Require Import RangeCore.
From Verif.Eco.Pypi Require Version.

(* operators := []string{"===", "~=", "==", "!=", "<=", ">=", "<", ">"} *)
(* generated from the Go source on every run (tools/gen -> Gen/Operators.v) *)
Definition pypi_ops : list bytes :=
  Eval cbv delta [Verif.Gen.Operators.pypi_ops] in Verif.Gen.Operators.pypi_ops.

(* constraint{operator, version, upper}; [upper] is used by the internal operator "!=*" only *)
Record constraint := mkc { c_op : bytes; c_ver : bytes; c_upper : bytes }.
Definition plain (op ver : bytes) : constraint := mkc op ver [].

Section Range.
  Variable vok : bytes -> bool.                       (* NewVersion succeeds *)
  Variable vcmp : bytes -> bytes -> comparison.       (* Compare of the parsed texts *)

  (* e.NewVersion(text), then reading v.epoch and v.release *)
  Definition fields_of (text : bytes) : option (Z * list Z) :=
    if vok text
    then match Version.parse_core (trim_space text) with
         | Some c => Some (Version.c_epoch c, Version.c_release c)
         | None => None
         end
    else None.

  Definition inc (z : Z) : Z := wrap64 (z + 1).

  (* epoch := "" ; if v.epoch != 0 { epoch = strconv.Itoa(v.epoch) + "!" } *)
  Definition epoch_prefix (ep : Z) : bytes :=
    if (ep =? 0)%Z then [] else dec_z ep ++ $"!".

  (* release[:len-1] printed, its last element incremented (len >= 2) *)
  Fixpoint bump_init (l : list Z) : list bytes :=
    match l with
    | [] => []
    | a :: r =>
        match r with
        | [] => []
        | [_] => [dec_z (inc a)]
        | _ => dec_z a :: bump_init r
        end
    end.

  (* release printed, its last element incremented *)
  Fixpoint bump_last (l : list Z) : list bytes :=
    match l with
    | [] => []
    | a :: r =>
        match r with
        | [] => [dec_z (inc a)]
        | _ => dec_z a :: bump_last r
        end
    end.

  (* parseCompatibleRelease *)
  Definition compatible_upper (ep : Z) (rel : list Z) : option bytes :=
    match rel with
    | [] => None
    | [a] => Some (epoch_prefix ep ++ dec_z (inc a) ++ $".0")
    | _ => Some (epoch_prefix ep ++ join $"." (bump_init rel) ++ $".0")
    end.

  Definition parse_compatible (version : bytes) : option (list constraint) :=
    match fields_of version with
    | None => None
    | Some (ep, rel) =>
        match compatible_upper ep rel with
        | Some up => Some [plain $">=" version; plain $"<" up]
        | None => Some [plain $">=" version]
        end
    end.

  (* parseWildcardConstraint: the prefix interval [epoch!release, epoch!release-with-last+1) *)
  Definition wildcard_lower (ep : Z) (rel : list Z) : bytes :=
    epoch_prefix ep ++ join $"." (map dec_z rel).
  Definition wildcard_upper (ep : Z) (rel : list Z) : bytes :=
    epoch_prefix ep ++ join $"." (bump_last rel).

  Definition parse_wildcard (op version : bytes) : option (list constraint) :=
    let base := trim_suffix $".*" version in
    match fields_of base with
    | None => None
    | Some (ep, rel) =>
        let lo := wildcard_lower ep rel in
        let up := wildcard_upper ep rel in
        if beq op $"==" then Some [plain $">=" lo; plain $"<" up]
        else if beq op $"!=" then Some [mkc $"!=*" lo up]
        else None
    end.

  (* parseSingleConstraint *)
  Definition parse_single (con : bytes) : option (list constraint) :=
    let con := trim_space con in
    match first_prefix pypi_ops con with
    | Some (op, rest) =>
        let version := trim_space rest in
        match version with
        | [] => None
        | _ =>
            if beq op $"~=" then parse_compatible version
            else if (beq op $"==" || beq op $"!=") && has_suffix $".*" version
            then parse_wildcard op version
            else Some [plain op version]
        end
    | None => Some [plain $"==" con]
    end.

  Fixpoint parse_parts (parts : list bytes) : option (list constraint) :=
    match parts with
    | [] => Some []
    | p :: r =>
        match parse_single p with
        | None => None
        | Some cs =>
            match parse_parts r with
            | Some cs' => Some (cs ++ cs')
            | None => None
            end
        end
    end.

  (* parseSpecifier: with a comma, Split and recurse on each trimmed part (which has no comma
     any more); without, the single constraint — which is the one-element Split as well *)
  Definition parse_specifier (t : bytes) : option (list constraint) :=
    parse_parts (split_c ","%char t).

  Record range := { r_cs : list constraint; r_orig : bytes }.

  Definition parse_range (s : bytes) : option range :=
    let t := trim_space s in
    match t with
    | [] => None
    | _ => match parse_specifier t with
           | Some cs => Some {| r_cs := cs; r_orig := t |}
           | None => None
           end
    end.

  (* the switch in constraint.matches *)
  Definition sem (op : bytes) : cop :=
    if beq op $"==" then CEq
    else if beq op $"!=" then CNe
    else if beq op $"<" then CLt
    else if beq op $"<=" then CLe
    else if beq op $">" then CGt
    else if beq op $">=" then CGe
    else CNever.

  (* [v] is the text the probed version was parsed from: version.String() is its trimmed
     form, and Compare is asked of the oracle on the text itself *)
  Definition matches (v : bytes) (c : constraint) : bool :=
    if beq (c_op c) $"===" then beq (trim_space v) (c_ver c)
    else if vok (c_ver c) then
      if beq (c_op c) $"!=*" then
        if vok (c_upper c)
        then sat CLt (vcmp v (c_ver c)) || sat CGe (vcmp v (c_upper c))
        else false
      else sat (sem (c_op c)) (vcmp v (c_ver c))
    else false.

  Definition contains (r : range) (v : bytes) : bool := forallb (matches v) (r_cs r).
  Definition show (r : range) : bytes := r_orig r.
End Range.
