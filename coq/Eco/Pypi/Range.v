(* Eco/Pypi/Range.v — model of pkg/ecosystem/pypi/range.go (definitions only).

   A range is a list of (operator, bound text) constraints, all of which must hold.  The
   shorthands ~=V, ==V.* and !=V.* are desugared at parse time into two comparator
   constraints whose bounds are printed texts; === compares the version's String() with the
   bound text.  Bounds are parsed lazily (in Contains), except inside the shorthands. *)
From Verif.Base Require Import Bytes GoNum Ord.
From Verif.Eco Require Import RangeCore.
From Verif.Eco.Pypi Require Version.

(* operators := []string{"===", "~=", "==", "!=", "<=", ">=", "<", ">"} *)
Definition pypi_ops : list bytes :=
  [$"==="; $"~="; $"=="; $"!="; $"<="; $">="; $"<"; $">"].

Definition constraint := (bytes * bytes)%type.

Section Range.
  Variable vok : bytes -> bool.                       (* NewVersion succeeds *)
  Variable vcmp : bytes -> bytes -> comparison.       (* Compare of the parsed texts *)

  (* e.NewVersion(text), then reading v.release *)
  Definition release_of (text : bytes) : option (list Z) :=
    if vok text
    then match Version.parse_core (trim_space text) with
         | Some c => Some (Version.c_release c)
         | None => None
         end
    else None.

  Definition inc (z : Z) : Z := wrap64 (z + 1).

  (* release[:len-1] printed, its last element incremented (len >= 2) *)
  Fixpoint bump_init (l : list Z) : list bytes :=
    match l with
    | [] => []
    | a :: r =>
        match r with
        | [] => []
        | [_] => [dec_z (inc a)]
        | _ => dec_z a :: bump_init r
        end
    end.

  (* parseCompatibleRelease *)
  Definition compatible_upper (rel : list Z) : option bytes :=
    match rel with
    | [] => None
    | [a] => Some (dec_z (inc a) ++ $".0")
    | _ => Some (join $"." (bump_init rel) ++ $".0")
    end.

  Definition parse_compatible (version : bytes) : option (list constraint) :=
    match release_of version with
    | None => None
    | Some rel =>
        match compatible_upper rel with
        | Some up => Some [($">=", version); ($"<", up)]
        | None => Some [($">=", version)]
        end
    end.

  (* fmt.Sprintf("%d.%d.0", a, b) *)
  Definition fmt3 (a b : bytes) : bytes := a ++ $"." ++ b ++ $".0".

  (* parseWildcardConstraint *)
  Definition parse_wildcard (op version : bytes) : option (list constraint) :=
    let base := trim_suffix $".*" version in
    match release_of (base ++ $".0") with
    | None => None
    | Some rel =>
        if beq op $"==" then
          match rel with
          | a :: b :: _ =>
              Some [($">=", fmt3 (dec_z a) (dec_z b)); ($"<", fmt3 (dec_z a) (dec_z (inc b)))]
          | [a] =>
              Some [($">=", fmt3 (dec_z a) $"0"); ($"<", fmt3 (dec_z (inc a)) $"0")]
          | [] => None
          end
        else if beq op $"!=" then
          match rel with
          | a :: b :: _ =>
              Some [($"<", fmt3 (dec_z a) (dec_z b)); ($">=", fmt3 (dec_z a) (dec_z (inc b)))]
          | _ => None
          end
        else None
    end.

  (* parseSingleConstraint *)
  Definition parse_single (con : bytes) : option (list constraint) :=
    let con := trim_space con in
    match first_prefix pypi_ops con with
    | Some (op, rest) =>
        let version := trim_space rest in
        match version with
        | [] => None
        | _ =>
            if beq op $"~=" then parse_compatible version
            else if (beq op $"==" || beq op $"!=") && has_suffix $".*" version
            then parse_wildcard op version
            else Some [(op, version)]
        end
    | None => Some [($"==", con)]
    end.

  Fixpoint parse_parts (parts : list bytes) : option (list constraint) :=
    match parts with
    | [] => Some []
    | p :: r =>
        match parse_single p with
        | None => None
        | Some cs =>
            match parse_parts r with
            | Some cs' => Some (cs ++ cs')
            | None => None
            end
        end
    end.

  (* parseSpecifier: with a comma, Split and recurse on each trimmed part (which has no comma
     any more); without, the single constraint — which is the one-element Split as well *)
  Definition parse_specifier (t : bytes) : option (list constraint) :=
    parse_parts (split_c ","%char t).

  Record range := { r_cs : list constraint; r_orig : bytes }.

  Definition parse_range (s : bytes) : option range :=
    let t := trim_space s in
    match t with
    | [] => None
    | _ => match parse_specifier t with
           | Some cs => Some {| r_cs := cs; r_orig := t |}
           | None => None
           end
    end.

  (* the switch in constraint.matches *)
  Definition sem (op : bytes) : cop :=
    if beq op $"==" then CEq
    else if beq op $"!=" then CNe
    else if beq op $"<" then CLt
    else if beq op $"<=" then CLe
    else if beq op $">" then CGt
    else if beq op $">=" then CGe
    else CNever.

  (* [v] is the text the probed version was parsed from: version.String() is its trimmed
     form, and Compare is asked of the oracle on the text itself *)
  Definition matches (v : bytes) (c : constraint) : bool :=
    if beq (fst c) $"===" then beq (trim_space v) (snd c)
    else if vok (snd c) then sat (sem (fst c)) (vcmp v (snd c))
    else false.

  Definition contains (r : range) (v : bytes) : bool := forallb (matches v) (r_cs r).
  Definition show (r : range) : bytes := r_orig r.
End Range.
