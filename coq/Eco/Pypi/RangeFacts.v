(* Eco/Pypi/RangeFacts.v — C02 (comparators), C05 (shorthands ~=, ==X.*, !=X.*, ===) and C20
   (membership respects Compare-equality) for the pypi range model, for ARBITRARY version
   oracles [vok] / [vcmp] unless a section says otherwise. *)
From Coq Require Import Lia.
From Verif.Base Require Import Bytes BytesFacts GoNum Ord.
From Verif.Eco.Pypi Require Import DecFacts.
From Verif.Eco Require Import RangeCore RangeCoreFacts Iface.
From Verif.Eco.Pypi Require Import Version VersionFacts Range Entry.

(* ---------- small text lemmas ---------- *)

Lemma has_suffix_app p s : has_suffix p (s ++ p) = true.
Proof. unfold has_suffix. rewrite rev_app_distr. apply has_prefix_app. Qed.

Lemma firstn_app_exact {A} (a b : list A) : firstn (length a) (a ++ b) = a.
Proof. induction a as [|x a IH]; simpl; [destruct b; reflexivity|]. rewrite IH. reflexivity. Qed.

Lemma trim_suffix_app p s : trim_suffix p (s ++ p) = s.
Proof.
  unfold trim_suffix. rewrite has_suffix_app, app_length.
  replace (length s + length p - length p)%nat with (length s) by lia.
  apply firstn_app_exact.
Qed.

Lemma contains_c_app c a b : contains_c c (a ++ b) = contains_c c a || contains_c c b.
Proof. unfold contains_c. apply existsb_app. Qed.

Lemma pypi_ops_ok : ops_ok pypi_ops = true.
Proof. vm_compute. reflexivity. Qed.

(* the scope clause: a non-empty text without whitespace and commas that does not begin with
   a comparator character *)
Definition in_scope (a : bytes) : bool :=
  match a with [] => false | c :: _ => negb (opchar c) end
  && no_space a && negb (contains_c ","%char a).

Lemma in_scope_elim a :
  in_scope a = true ->
  a <> [] /\ match a with [] => True | c :: _ => opchar c = false end
  /\ no_space a = true /\ contains_c ","%char a = false.
Proof.
  unfold in_scope. intros H. apply andb_true_iff in H. destruct H as [H H3].
  apply andb_true_iff in H. destruct H as [H1 H2]. apply negb_true_iff in H3.
  destruct a as [|c a]; [discriminate|]. apply negb_true_iff in H1. repeat split; auto. discriminate.
Qed.

Lemma op_text_facts op a :
  In op pypi_ops -> in_scope a = true ->
  op ++ a <> [] /\ no_space (op ++ a) = true /\ contains_c ","%char (op ++ a) = false.
Proof.
  intros Hin Hs. destruct (in_scope_elim a Hs) as (Hne & Hhd & Hns & Hc).
  pose proof (ops_ok_opchars _ pypi_ops_ok) as Hoc. rewrite forallb_forall in Hoc.
  pose proof (Hoc op Hin) as Hop.
  repeat split.
  - destruct op; destruct a; simpl; congruence.
  - rewrite no_space_app, (opchars_no_space op Hop), Hns. reflexivity.
  - rewrite contains_c_app, Hc, orb_false_r.
    simpl in Hin. repeat (destruct Hin as [<-|Hin]; [vm_compute; reflexivity|]). contradiction.
Qed.

Section Facts.
  Variable vok : bytes -> bool.
  Variable vcmp : bytes -> bytes -> comparison.

  Notation parse_single := (parse_single vok).
  Notation parse_range := (parse_range vok).
  Notation contains := (contains vok vcmp).
  Notation rcontains := (r_contains Entry.r vok vcmp).

  (* a text without commas and whitespace is one constraint *)
  Lemma parse_range_single t cs :
    t <> [] -> no_space t = true -> contains_c ","%char t = false ->
    parse_single t = Some cs ->
    parse_range t = Some {| r_cs := cs; r_orig := t |}.
  Proof.
    intros Hne Hns Hc Hp. unfold Range.parse_range.
    rewrite (trim_space_no_space t Hns). destruct t as [|x t]; [congruence|].
    unfold parse_specifier. rewrite (split_c_no_sep _ _ Hc). cbn [parse_parts].
    rewrite Hp, app_nil_r. reflexivity.
  Qed.

  Lemma parse_range_single_none t :
    t <> [] -> no_space t = true -> contains_c ","%char t = false ->
    parse_single t = None -> parse_range t = None.
  Proof.
    intros Hne Hns Hc Hp. unfold Range.parse_range.
    rewrite (trim_space_no_space t Hns). destruct t as [|x t]; [congruence|].
    unfold parse_specifier. rewrite (split_c_no_sep _ _ Hc). cbn [parse_parts].
    rewrite Hp. reflexivity.
  Qed.

  (* parseSingleConstraint on  <operator><bound>  *)
  Lemma parse_single_op op a :
    In op pypi_ops -> in_scope a = true ->
    parse_single (op ++ a) =
      if beq op $"~=" then parse_compatible vok a
      else if (beq op $"==" || beq op $"!=") && has_suffix $".*" a then parse_wildcard vok op a
      else Some [(op, a)].
  Proof.
    intros Hin Hs. destruct (op_text_facts op a Hin Hs) as (_ & Hns' & _).
    destruct (in_scope_elim a Hs) as (Hne & Hhd & Hns & _).
    unfold Range.parse_single. rewrite (trim_space_no_space _ Hns').
    rewrite (first_prefix_hit _ op a pypi_ops_ok Hin Hhd).
    rewrite (trim_space_no_space a Hns). destruct a; [congruence|reflexivity].
  Qed.

  Lemma parse_single_bare a :
    in_scope a = true -> parse_single a = Some [($"==", a)].
  Proof.
    intros Hs. destruct (in_scope_elim a Hs) as (Hne & Hhd & Hns & _).
    unfold Range.parse_single. rewrite (trim_space_no_space a Hns).
    pose proof pypi_ops_ok as Hok. unfold ops_ok in Hok. apply andb_true_iff in Hok.
    destruct Hok as [_ Hoc].
    rewrite (first_prefix_none _ a Hoc Hhd). reflexivity.
  Qed.

  Lemma rcontains_of R r v :
    parse_range R = Some r -> vok v = true -> rcontains R v = Some (contains r v).
  Proof. intros Hr Hv. simpl. rewrite Hr, Hv. reflexivity. Qed.

  Lemma rcontains_none R v : parse_range R = None -> rcontains R v = None.
  Proof. intros Hr. simpl. rewrite Hr. reflexivity. Qed.

  (* ---------- C02: the six comparators, the bare version ---------- *)

  Definition cmp_ops : list bytes := [$"=="; $"!="; $"<="; $">="; $"<"; $">"].

  Theorem c02_comparator op a v :
    In op cmp_ops -> in_scope a = true -> has_suffix $".*" a = false ->
    vok a = true -> vok v = true ->
    rcontains (op ++ a) v = Some (sat (sem op) (vcmp v a)).
  Proof.
    intros Hin Hs Hw Ha Hv.
    assert (Hin' : In op pypi_ops).
    { simpl in Hin. simpl. tauto. }
    destruct (op_text_facts op a Hin' Hs) as (Hne & Hns & Hc).
    assert (Hp : parse_single (op ++ a) = Some [(op, a)]).
    { rewrite (parse_single_op op a Hin' Hs), Hw, andb_false_r.
      simpl in Hin. repeat (destruct Hin as [<-|Hin]; [reflexivity|]). contradiction. }
    rewrite (rcontains_of _ _ v (parse_range_single _ _ Hne Hns Hc Hp) Hv).
    unfold Range.contains, matches. simpl. rewrite Ha, andb_true_r.
    simpl in Hin. repeat (destruct Hin as [<-|Hin]; [reflexivity|]). contradiction.
  Qed.

  Theorem c02_bare a v :
    in_scope a = true -> vok a = true -> vok v = true ->
    rcontains a v = Some (sat CEq (vcmp v a)).
  Proof.
    intros Hs Ha Hv. destruct (in_scope_elim a Hs) as (Hne & Hhd & Hns & Hc).
    rewrite (rcontains_of _ _ v (parse_range_single _ _ Hne Hns Hc (parse_single_bare a Hs)) Hv).
    unfold Range.contains, matches. simpl. rewrite Ha, andb_true_r. reflexivity.
  Qed.

  (* ---------- C05: === is textual identity with String() ---------- *)

  Theorem c05_arbitrary_eq a v :
    in_scope a = true -> vok v = true ->
    rcontains ($"===" ++ a) v = Some (beq (trim_space v) a).
  Proof.
    intros Hs Hv.
    assert (Hin : In $"===" pypi_ops) by (simpl; tauto).
    destruct (op_text_facts _ a Hin Hs) as (Hne & Hns & Hc).
    assert (Hp : parse_single ($"===" ++ a) = Some [($"===", a)]).
    { rewrite (parse_single_op _ a Hin Hs). reflexivity. }
    rewrite (rcontains_of _ _ v (parse_range_single _ _ Hne Hns Hc Hp) Hv).
    unfold Range.contains, matches. simpl. apply f_equal, andb_true_r.
  Qed.

  (* ---------- C05: ~=V is  >=V, <upper(V) ---------- *)

  Definition bounded (lo_op : bytes) (lo : bytes) (hi_op : bytes) (hi : bytes) (v : bytes) : bool :=
    (vok lo && sat (sem lo_op) (vcmp v lo)) && (vok hi && sat (sem hi_op) (vcmp v hi)).

  Lemma contains_two r o1 b1 o2 b2 v :
    r_cs r = [(o1, b1); (o2, b2)] ->
    beq o1 $"===" = false -> beq o2 $"===" = false ->
    contains r v = bounded o1 b1 o2 b2 v.
  Proof.
    intros E H1 H2. unfold Range.contains, matches, bounded. rewrite E. cbn [forallb fst snd].
    rewrite H1, H2, andb_true_r.
    destruct (vok b1); destruct (vok b2); reflexivity.
  Qed.

  Theorem c05_compatible a rel up v :
    in_scope a = true -> release_of vok a = Some rel -> compatible_upper rel = Some up ->
    vok v = true ->
    rcontains ($"~=" ++ a) v = Some (bounded $">=" a $"<" up v).
  Proof.
    intros Hs Hrel Hup Hv.
    assert (Hin : In $"~=" pypi_ops) by (simpl; tauto).
    destruct (op_text_facts _ a Hin Hs) as (Hne & Hns & Hc).
    assert (Hp : parse_single ($"~=" ++ a) = Some [($">=", a); ($"<", up)]).
    { rewrite (parse_single_op _ a Hin Hs). change (beq $"~=" $"~=") with true. cbv iota.
      unfold parse_compatible. rewrite Hrel, Hup. reflexivity. }
    rewrite (rcontains_of _ _ v (parse_range_single _ _ Hne Hns Hc Hp) Hv).
    apply f_equal. apply contains_two; reflexivity.
  Qed.

  (* an unparsable bound makes ~= an error *)
  Theorem c05_compatible_reject a v :
    in_scope a = true -> release_of vok a = None -> rcontains ($"~=" ++ a) v = None.
  Proof.
    intros Hs Hrel.
    assert (Hin : In $"~=" pypi_ops) by (simpl; tauto).
    destruct (op_text_facts _ a Hin Hs) as (Hne & Hns & Hc).
    assert (Hp : parse_single ($"~=" ++ a) = None).
    { rewrite (parse_single_op _ a Hin Hs). change (beq $"~=" $"~=") with true. cbv iota.
      unfold parse_compatible. rewrite Hrel. reflexivity. }
    apply rcontains_none. apply (parse_range_single_none _ Hne Hns Hc Hp).
  Qed.

  (* ---------- C05: ==B.* and !=B.* ---------- *)

  Lemma wildcard_text_facts op B :
    In op pypi_ops -> in_scope (B ++ $".*") = true ->
    has_suffix $".*" (B ++ $".*") = true /\ trim_suffix $".*" (B ++ $".*") = B.
  Proof. intros _ _. split; [apply has_suffix_app|apply trim_suffix_app]. Qed.

  Theorem c05_wildcard_eq B a b rest v :
    in_scope (B ++ $".*") = true ->
    release_of vok (B ++ $".0") = Some (a :: b :: rest) -> vok v = true ->
    rcontains ($"==" ++ B ++ $".*") v =
      Some (bounded $">=" (fmt3 (dec_z a) (dec_z b)) $"<" (fmt3 (dec_z a) (dec_z (inc b))) v).
  Proof.
    intros Hs Hrel Hv.
    assert (Hin : In $"==" pypi_ops) by (simpl; tauto).
    destruct (op_text_facts _ _ Hin Hs) as (Hne & Hns & Hc).
    assert (Hp : parse_single ($"==" ++ B ++ $".*") =
                 Some [($">=", fmt3 (dec_z a) (dec_z b)); ($"<", fmt3 (dec_z a) (dec_z (inc b)))]).
    { rewrite (parse_single_op _ _ Hin Hs). rewrite has_suffix_app.
      change (beq $"==" $"~=") with false. change (beq $"==" $"==") with true. cbv iota. simpl orb. cbv iota.
      unfold parse_wildcard. rewrite trim_suffix_app, Hrel. reflexivity. }
    rewrite (rcontains_of _ _ v (parse_range_single _ _ Hne Hns Hc Hp) Hv).
    apply f_equal. apply contains_two; reflexivity.
  Qed.

  (* release of length 1 (only reachable through a local label, e.g. "==1+a.*" ) *)
  Theorem c05_wildcard_eq_1 B a v :
    in_scope (B ++ $".*") = true ->
    release_of vok (B ++ $".0") = Some [a] -> vok v = true ->
    rcontains ($"==" ++ B ++ $".*") v =
      Some (bounded $">=" (fmt3 (dec_z a) $"0") $"<" (fmt3 (dec_z (inc a)) $"0") v).
  Proof.
    intros Hs Hrel Hv.
    assert (Hin : In $"==" pypi_ops) by (simpl; tauto).
    destruct (op_text_facts _ _ Hin Hs) as (Hne & Hns & Hc).
    assert (Hp : parse_single ($"==" ++ B ++ $".*") =
                 Some [($">=", fmt3 (dec_z a) $"0"); ($"<", fmt3 (dec_z (inc a)) $"0")]).
    { rewrite (parse_single_op _ _ Hin Hs). rewrite has_suffix_app.
      change (beq $"==" $"~=") with false. change (beq $"==" $"==") with true. cbv iota. simpl orb. cbv iota.
      unfold parse_wildcard. rewrite trim_suffix_app, Hrel. reflexivity. }
    rewrite (rcontains_of _ _ v (parse_range_single _ _ Hne Hns Hc Hp) Hv).
    apply f_equal. apply contains_two; reflexivity.
  Qed.

  (* !=B.* is the CONJUNCTION  <lower AND >=upper  *)
  Theorem c05_wildcard_ne B a b rest v :
    in_scope (B ++ $".*") = true ->
    release_of vok (B ++ $".0") = Some (a :: b :: rest) -> vok v = true ->
    rcontains ($"!=" ++ B ++ $".*") v =
      Some (bounded $"<" (fmt3 (dec_z a) (dec_z b)) $">=" (fmt3 (dec_z a) (dec_z (inc b))) v).
  Proof.
    intros Hs Hrel Hv.
    assert (Hin : In $"!=" pypi_ops) by (simpl; tauto).
    destruct (op_text_facts _ _ Hin Hs) as (Hne & Hns & Hc).
    assert (Hp : parse_single ($"!=" ++ B ++ $".*") =
                 Some [($"<", fmt3 (dec_z a) (dec_z b)); ($">=", fmt3 (dec_z a) (dec_z (inc b)))]).
    { rewrite (parse_single_op _ _ Hin Hs). rewrite has_suffix_app.
      change (beq $"!=" $"~=") with false. change (beq $"!=" $"==") with false.
      change (beq $"!=" $"!=") with true. cbv iota. simpl orb. cbv iota.
      unfold parse_wildcard. rewrite trim_suffix_app, Hrel.
      change (beq $"!=" $"==") with false. change (beq $"!=" $"!=") with true. reflexivity. }
    rewrite (rcontains_of _ _ v (parse_range_single _ _ Hne Hns Hc Hp) Hv).
    apply f_equal. apply contains_two; reflexivity.
  Qed.

  (* ... hence empty whenever lower < upper: !=1.2.* excludes everything (finding) *)
  Theorem wildcard_ne_empty lo hi v :
    TotalPreorder vcmp -> vcmp lo hi = Lt -> bounded $"<" lo $">=" hi v = false.
  Proof.
    intros TP Hlt. unfold bounded.
    destruct (vok lo); [|reflexivity]. destruct (vok hi); [|apply andb_false_r]. simpl.
    destruct (vcmp v lo) eqn:E1; simpl; try reflexivity.
    (* v < lo < hi, so v < hi *)
    rewrite (tp_trans TP v lo hi E1 Hlt). reflexivity.
  Qed.

  (* ---------- C20 ---------- *)

  Definition no_arbitrary_eq (cs : list constraint) : bool :=
    forallb (fun c => negb (beq (fst c) $"===")) cs.

  Theorem c20_eq r a b :
    TotalPreorder vcmp -> no_arbitrary_eq (r_cs r) = true ->
    vcmp a b = Eq -> contains r a = contains r b.
  Proof.
    intros TP Hn E. unfold Range.contains. unfold no_arbitrary_eq in Hn.
    induction (r_cs r) as [|c cs IH]; [reflexivity|].
    cbn [forallb] in Hn. apply andb_true_iff in Hn. destruct Hn as [Hc Hn]. apply negb_true_iff in Hc.
    cbn [forallb]. rewrite (IH Hn). f_equal.
    unfold matches. rewrite Hc. destruct (vok (snd c)); [|reflexivity].
    rewrite (tp_eq_l TP a b (snd c) E). reflexivity.
  Qed.

  (* with === constraints, Compare-equal versions must also print the same *)
  Theorem c20_eq_text r a b :
    TotalPreorder vcmp -> trim_space a = trim_space b ->
    vcmp a b = Eq -> contains r a = contains r b.
  Proof.
    intros TP Ht E. unfold Range.contains.
    induction (r_cs r) as [|c cs IH]; [reflexivity|].
    cbn [forallb]. rewrite IH. f_equal.
    unfold matches. rewrite Ht. destruct (beq (fst c) $"==="); [reflexivity|].
    destruct (vok (snd c)); [|reflexivity].
    rewrite (tp_eq_l TP a b (snd c) E). reflexivity.
  Qed.

  (* conjunctions without != and === are convex *)
  Definition convex_cs (cs : list constraint) : bool :=
    forallb (fun c => negb (beq (fst c) $"===") && convex_op (sem (fst c))) cs.

  Theorem c20_convex r a b c :
    TotalPreorder vcmp -> convex_cs (r_cs r) = true ->
    le_c (vcmp a b) -> le_c (vcmp b c) ->
    contains r a = true -> contains r c = true -> contains r b = true.
  Proof.
    intros TP Hcv Hab Hbc. unfold Range.contains, convex_cs in *.
    induction (r_cs r) as [|k cs IH]; cbn [forallb] in *; [reflexivity|].
    apply andb_true_iff in Hcv. destruct Hcv as [Hk Hcv].
    apply andb_true_iff in Hk. destruct Hk as [Hk1 Hk2]. apply negb_true_iff in Hk1.
    rewrite !andb_true_iff. intros [Ha1 Ha2] [Hc1 Hc2]. split; [|apply IH; assumption].
    unfold matches in *. rewrite Hk1 in *. destruct (vok (snd k)); [|discriminate].
    apply (sat_convex bytes vcmp TP _ (snd k) a b c); assumption.
  Qed.
End Facts.

(* ---------- the shapes of the desugared bounds ---------- *)

Lemma compatible_upper_1 a : compatible_upper [a] = Some (dec_z (inc a) ++ $".0").
Proof. reflexivity. Qed.

Lemma bump_init_snoc2 pre a b : bump_init (pre ++ [a; b]) = map dec_z pre ++ [dec_z (inc a)].
Proof.
  induction pre as [|x pre IH]; [reflexivity|].
  assert (exists y z l, pre ++ [a; b] = y :: z :: l) as (y & z & l & E).
  { destruct pre as [|y [|z pre]]; simpl; eauto. }
  cbn [app map]. rewrite E in *.
  change (bump_init (x :: y :: z :: l)) with (dec_z x :: bump_init (y :: z :: l)).
  rewrite IH. reflexivity.
Qed.

(* ~=p1...pk.a.b has the upper bound p1...pk.(a+1).0 : the last segment is dropped and the one
   before it incremented; epoch, pre-, post-, dev- and local parts of V do not appear in it *)
Lemma compatible_upper_n pre a b :
  compatible_upper (pre ++ [a; b]) = Some (join $"." (map dec_z pre ++ [dec_z (inc a)]) ++ $".0").
Proof.
  unfold compatible_upper. rewrite bump_init_snoc2.
  destruct pre as [|x pre]; [reflexivity|]. destruct pre; reflexivity.
Qed.

(* ---------- the shorthands on plain numeric tuples ---------- *)

Lemma join_snoc sep l x : l <> [] -> join sep (l ++ [x]) = join sep l ++ sep ++ x.
Proof.
  induction l as [|y l IH]; [congruence|]. intros _.
  destruct l as [|z l].
  - reflexivity.
  - change (join sep ((y :: z :: l) ++ [x])) with (y ++ sep ++ join sep ((z :: l) ++ [x])).
    rewrite IH by discriminate.
    change (join sep (y :: z :: l)) with (y ++ sep ++ join sep (z :: l)).
    rewrite <- !app_assoc. reflexivity.
Qed.

Lemma dotted_snoc t x : t <> [] -> dotted (t ++ [x]) = dotted t ++ $"." ++ dec x.
Proof.
  intros Ht. unfold dotted. rewrite map_app. cbn [map].
  apply join_snoc. destruct t; [congruence|discriminate].
Qed.

Lemma dotted_snoc0 t : t <> [] -> dotted t ++ $".0" = dotted (t ++ [0%N]).
Proof. intros Ht. rewrite dotted_snoc by assumption. reflexivity. Qed.

Lemma rel_char_plain c : is_rel_char c = true -> is_space c = false /\ ceqb ","%char c = false.
Proof.
  unfold is_rel_char. intros H. apply orb_true_iff in H. destruct H as [H|H].
  - split.
    + unfold is_digit, is_space, in_range in *. generalize dependent (code c). intros n Hn.
      destruct (N.leb_spec 48 n); [|discriminate].
      destruct (N.eqb_spec n 32); [lia|]. destruct (N.leb_spec 9 n); [|reflexivity].
      destruct (N.leb_spec n 13); [lia|reflexivity].
    + destruct (ceqb "," c) eqn:E; [|reflexivity]. apply ceqb_eq in E. subst. discriminate.
  - apply ceqb_eq in H. subst. split; reflexivity.
Qed.

Lemma rel_text_plain s :
  forallb is_rel_char s = true -> no_space s = true /\ contains_c ","%char s = false.
Proof.
  unfold no_space, contains_c. induction s as [|c s IH]; [split; reflexivity|].
  cbn [forallb existsb]. intros H. apply andb_true_iff in H. destruct H as [Hc Hs].
  destruct (rel_char_plain c Hc) as [H1 H2]. destruct (IH Hs) as [I1 I2].
  rewrite H1, H2, I1, I2. split; reflexivity.
Qed.

Lemma digit_not_opchar d : is_digit d = true -> opchar d = false.
Proof.
  intros H. unfold opchar. cbn [existsb list_ascii_of_string].
  repeat match goal with |- context [ceqb d ?x] =>
    let E := fresh in destruct (ceqb d x) eqn:E; [apply ceqb_eq in E; subst; discriminate|] end.
  reflexivity.
Qed.

Lemma in_scope_dotted t sfx :
  t <> [] -> no_space sfx = true -> contains_c ","%char sfx = false ->
  in_scope (dotted t ++ sfx) = true.
Proof.
  intros Ht H1 H2. unfold in_scope.
  destruct (rel_text_plain _ (dotted_rel t)) as [D1 D2].
  rewrite no_space_app, D1, H1, contains_c_app, D2, H2.
  destruct (dotted_first t Ht) as (d & r & E & Hd). rewrite E. cbn [app].
  rewrite (digit_not_opchar d Hd). reflexivity.
Qed.

Lemma wrap64_small z : (0 <= z < Z.of_N two63)%Z -> wrap64 z = z.
Proof.
  intros H. unfold wrap64.
  assert (E : Z.of_N two64 = (2 * Z.of_N two63)%Z) by reflexivity.
  rewrite Z.mod_small by lia.
  destruct (Z.ltb_spec z (Z.of_N two63)); [reflexivity|lia].
Qed.

Lemma inc_of_N a : (a + 1 < two63)%N -> inc (Z.of_N a) = Z.of_N (a + 1).
Proof. intros H. unfold inc. rewrite wrap64_small by lia. lia. Qed.

Section Dotted.
  Variable vok : bytes -> bool.
  Variable vcmp : bytes -> bytes -> comparison.
  Notation rcontains := (r_contains Entry.r vok vcmp).

  (* reading v.release of an accepted dotted tuple *)
  Lemma release_of_dotted t :
    nums_ok t -> vok (dotted t) = true -> release_of vok (dotted t) = Some (map Z.of_N t).
  Proof.
    intros Ht Hv. unfold release_of. rewrite Hv.
    destruct (rel_text_plain _ (dotted_rel t)) as [D1 _].
    rewrite (trim_space_no_space _ D1), (parse_core_release t Ht). reflexivity.
  Qed.

  Lemma nums_ok_snoc0 t : nums_ok t -> nums_ok (t ++ [0%N]).
  Proof.
    intros [H1 H2]. split; [destruct t; discriminate|].
    apply Forall_app. split; [assumption|]. constructor; [reflexivity|constructor].
  Qed.

  (* ==x.* is  >=x.0.0, <x.1.0  -- not the documented >=x.0.0, <(x+1).0.0 *)
  Theorem c05_wildcard_major x v :
    (x < two63)%N -> vok (dotted [x; 0%N]) = true -> vok v = true ->
    rcontains ($"==" ++ dec x ++ $".*") v =
      Some (bounded vok vcmp $">=" (dotted [x; 0; 0]%N) $"<" (dotted [x; 1; 0]%N) v).
  Proof.
    intros Hx Hok Hv.
    assert (Ht : nums_ok [x]) by (split; [discriminate|repeat constructor; assumption]).
    change (dec x) with (dotted [x]).
    rewrite (c05_wildcard_eq vok vcmp (dotted [x]) (Z.of_N x) 0%Z [] v); try assumption.
    - rewrite dec_z_of_N. reflexivity.
    - apply in_scope_dotted; [discriminate|reflexivity|reflexivity].
    - rewrite (dotted_snoc0 [x]) by discriminate.
      apply (release_of_dotted [x; 0%N]); [apply (nums_ok_snoc0 [x] Ht)|assumption].
  Qed.

  (* ==x.y.rest.* is  >=x.y.0, <x.(y+1).0 : components after the second are ignored *)
  Theorem c05_wildcard_minor x y rest v :
    nums_ok (x :: y :: rest) -> (y + 1 < two63)%N ->
    vok (dotted ((x :: y :: rest) ++ [0%N])) = true -> vok v = true ->
    rcontains ($"==" ++ dotted (x :: y :: rest) ++ $".*") v =
      Some (bounded vok vcmp $">=" (dotted [x; y; 0]%N) $"<" (dotted [x; y + 1; 0]%N) v).
  Proof.
    intros Ht Hy Hok Hv.
    rewrite (c05_wildcard_eq vok vcmp _ (Z.of_N x) (Z.of_N y) (map Z.of_N (rest ++ [0%N])) v);
      try assumption.
    - rewrite inc_of_N by assumption. rewrite !dec_z_of_N. reflexivity.
    - apply in_scope_dotted; [discriminate|reflexivity|reflexivity].
    - rewrite dotted_snoc0 by discriminate.
      rewrite release_of_dotted; [reflexivity|apply nums_ok_snoc0; assumption|assumption].
  Qed.

  (* ~=p.a.b is  >=p.a.b, <p.(a+1).0 *)
  Theorem c05_compatible_dotted pre a b v :
    nums_ok (pre ++ [a; b]) -> (a + 1 < two63)%N ->
    vok (dotted (pre ++ [a; b])) = true -> vok v = true ->
    rcontains ($"~=" ++ dotted (pre ++ [a; b])) v =
      Some (bounded vok vcmp $">=" (dotted (pre ++ [a; b])) $"<" (dotted (pre ++ [a + 1; 0]%N)) v).
  Proof.
    intros Ht Ha Hok Hv.
    rewrite (c05_compatible vok vcmp _ (map Z.of_N (pre ++ [a; b]))
               (dotted (pre ++ [a + 1; 0]%N)) v); try assumption; try reflexivity.
    - rewrite <- (app_nil_r (dotted _)). apply in_scope_dotted; [|reflexivity|reflexivity].
      destruct pre; discriminate.
    - apply release_of_dotted; assumption.
    - rewrite map_app. cbn [map]. rewrite compatible_upper_n. f_equal.
      rewrite inc_of_N by assumption.
      change [a + 1; 0]%N with ([a + 1] ++ [0])%N. rewrite app_assoc.
      rewrite <- dotted_snoc0 by (destruct pre; discriminate).
      f_equal. unfold dotted. rewrite map_app, map_map. cbn [map].
      rewrite dec_z_of_N. f_equal. f_equal. apply map_ext. intros n. apply dec_z_of_N.
  Qed.

  (* ~=a (a single segment, an error in PEP 440) is  >=a, <(a+1).0 *)
  Theorem c05_compatible_single a v :
    (a + 1 < two63)%N -> vok (dec a) = true -> vok v = true ->
    rcontains ($"~=" ++ dec a) v =
      Some (bounded vok vcmp $">=" (dec a) $"<" (dotted [a + 1; 0]%N) v).
  Proof.
    intros Ha Hok Hv.
    assert (Ht : nums_ok [a]) by (split; [discriminate|repeat constructor; lia]).
    change (dec a) with (dotted [a]).
    rewrite (c05_compatible vok vcmp _ [Z.of_N a] (dotted [a + 1; 0]%N) v); try assumption; try reflexivity.
    - rewrite <- (app_nil_r (dotted _)). apply in_scope_dotted; [discriminate|reflexivity|reflexivity].
    - apply (release_of_dotted [a]); assumption.
    - rewrite compatible_upper_1, inc_of_N, dec_z_of_N by assumption. reflexivity.
  Qed.
End Dotted.

(* ---------- findings, on the model's own version layer ---------- *)

Definition self_ok := self_vok Entry.entry.
Definition self_cmp := self_vcmp Entry.entry.
Definition self_contains (r v : bytes) := r_contains Entry.r self_ok self_cmp r v.

(* ==1.* is >=1.0.0,<1.1.0 (documented: >=1.0.0,<2.0.0) *)
Example wildcard_major_too_narrow : self_contains $"==1.*" $"1.5.0" = Some false.
Proof. vm_compute. reflexivity. Qed.
(* ==1.2.3.* is >=1.2.0,<1.3.0 (PEP 440: >=1.2.3.0,<1.2.4.0) *)
Example wildcard_deep_too_wide : self_contains $"==1.2.3.*" $"1.2.9" = Some true.
Proof. vm_compute. reflexivity. Qed.
(* !=1.2.* excludes everything *)
Example wildcard_ne_excludes_all :
  self_contains $"!=1.2.*" $"1.5.0" = Some false /\ self_contains $"!=1.2.*" $"1.0" = Some false.
Proof. vm_compute. split; reflexivity. Qed.
(* ~= drops the epoch from the upper bound: ~=1!2.3 is >=1!2.3,<3.0 — empty *)
Example compatible_epoch_dropped : self_contains $"~=1!2.3" $"1!2.4" = Some false.
Proof. vm_compute. reflexivity. Qed.
(* ~=1 (one segment; an error in PEP 440) is >=1,<2.0 *)
Example compatible_single_segment : self_contains $"~=1" $"1.5" = Some true.
Proof. vm_compute. reflexivity. Qed.
(* an empty list element is an always-false constraint, not an error *)
Example empty_element_never : self_contains $">=1.0," $"2.0" = Some false.
Proof. vm_compute. reflexivity. Qed.
(* C20 fails through ===: 1.0 and 1.0.0 are Compare-equal *)
Example c20_arbitrary_eq_counterexample :
  self_cmp $"1.0" $"1.0.0" = Eq /\
  self_contains $"===1.0" $"1.0" = Some true /\ self_contains $"===1.0" $"1.0.0" = Some false.
Proof. vm_compute. repeat split; reflexivity. Qed.

Print Assumptions c02_comparator.
Print Assumptions c02_bare.
Print Assumptions c05_arbitrary_eq.
Print Assumptions c05_compatible.
Print Assumptions c05_wildcard_eq.
Print Assumptions c05_wildcard_ne.
Print Assumptions wildcard_ne_empty.
Print Assumptions c20_eq.
Print Assumptions c20_convex.
Print Assumptions compatible_upper_n.
Print Assumptions c05_wildcard_major.
Print Assumptions c05_wildcard_minor.
Print Assumptions c05_compatible_dotted.
Print Assumptions c05_compatible_single.
