(* Eco/Pypi/RangeFacts.v — C02 (comparators), C05 (shorthands ~=, ==X.*, !=X.*, ===) and C20
   (membership respects Compare-equality) for the pypi range model, for ARBITRARY version
   oracles [vok] / [vcmp] unless a section says otherwise. *)
From Coq Require Import Lia.
From Verif.Base Require Import Bytes BytesFacts GoNum Ord.
From Verif.Eco.Pypi Require Import DecFacts.
From Verif.Eco Require Import RangeCore RangeCoreFacts Iface.
From Verif.Eco.Pypi Require Import Version VersionFacts Range Entry.

(* ---------- small text lemmas ---------- *)

Lemma has_suffix_app p s : has_suffix p (s ++ p) = true.
Proof. unfold has_suffix. rewrite rev_app_distr. apply has_prefix_app. Qed.

Lemma firstn_app_exact {A} (a b : list A) : firstn (length a) (a ++ b) = a.
Proof. induction a as [|x a IH]; simpl; [destruct b; reflexivity|]. rewrite IH. reflexivity. Qed.

Lemma trim_suffix_app p s : trim_suffix p (s ++ p) = s.
Proof.
  unfold trim_suffix. rewrite has_suffix_app, app_length.
  replace (length s + length p - length p)%nat with (length s) by lia.
  apply firstn_app_exact.
Qed.

Lemma contains_c_app c a b : contains_c c (a ++ b) = contains_c c a || contains_c c b.
Proof. unfold contains_c. apply existsb_app. Qed.

Lemma pypi_ops_ok : ops_ok pypi_ops = true.
Proof. vm_compute. reflexivity. Qed.

(* the scope clause: a non-empty text without whitespace and commas that does not begin with
   a comparator character *)
Definition in_scope (a : bytes) : bool :=
  match a with [] => false | c :: _ => negb (opchar c) end
  && no_space a && negb (contains_c ","%char a).

Lemma in_scope_elim a :
  in_scope a = true ->
  a <> [] /\ match a with [] => True | c :: _ => opchar c = false end
  /\ no_space a = true /\ contains_c ","%char a = false.
Proof.
  unfold in_scope. intros H. apply andb_true_iff in H. destruct H as [H H3].
  apply andb_true_iff in H. destruct H as [H1 H2]. apply negb_true_iff in H3.
  destruct a as [|c a]; [discriminate|]. apply negb_true_iff in H1. repeat split; auto. discriminate.
Qed.

Lemma op_text_facts op a :
  In op pypi_ops -> in_scope a = true ->
  op ++ a <> [] /\ no_space (op ++ a) = true /\ contains_c ","%char (op ++ a) = false.
Proof.
  intros Hin Hs. destruct (in_scope_elim a Hs) as (Hne & Hhd & Hns & Hc).
  pose proof (ops_ok_opchars _ pypi_ops_ok) as Hoc. rewrite forallb_forall in Hoc.
  pose proof (Hoc op Hin) as Hop.
  repeat split.
  - destruct op; destruct a; simpl; congruence.
  - rewrite no_space_app, (opchars_no_space op Hop), Hns. reflexivity.
  - rewrite contains_c_app, Hc, orb_false_r.
    simpl in Hin. repeat (destruct Hin as [<-|Hin]; [vm_compute; reflexivity|]). contradiction.
Qed.

Section Facts.
  Variable vok : bytes -> bool.
  Variable vcmp : bytes -> bytes -> comparison.

  Notation parse_single := (parse_single vok).
  Notation parse_range := (parse_range vok).
  Notation contains := (contains vok vcmp).
  Notation rcontains := (r_contains Entry.r vok vcmp).

  (* a text without commas and whitespace is one constraint *)
  Lemma parse_range_single t cs :
    t <> [] -> no_space t = true -> contains_c ","%char t = false ->
    parse_single t = Some cs ->
    parse_range t = Some {| r_cs := cs; r_orig := t |}.
  Proof.
    intros Hne Hns Hc Hp. unfold Range.parse_range.
    rewrite (trim_space_no_space t Hns). destruct t as [|x t]; [congruence|].
    unfold parse_specifier. rewrite (split_c_no_sep _ _ Hc). cbn [parse_parts].
    rewrite Hp, app_nil_r. reflexivity.
  Qed.

  Lemma parse_range_single_none t :
    t <> [] -> no_space t = true -> contains_c ","%char t = false ->
    parse_single t = None -> parse_range t = None.
  Proof.
    intros Hne Hns Hc Hp. unfold Range.parse_range.
    rewrite (trim_space_no_space t Hns). destruct t as [|x t]; [congruence|].
    unfold parse_specifier. rewrite (split_c_no_sep _ _ Hc). cbn [parse_parts].
    rewrite Hp. reflexivity.
  Qed.

  (* parseSingleConstraint on  <operator><bound>  *)
  Lemma parse_single_op op a :
    In op pypi_ops -> in_scope a = true ->
    parse_single (op ++ a) =
      if beq op $"~=" then parse_compatible vok a
      else if (beq op $"==" || beq op $"!=") && has_suffix $".*" a then parse_wildcard vok op a
      else Some [plain op a].
  Proof.
    intros Hin Hs. destruct (op_text_facts op a Hin Hs) as (_ & Hns' & _).
    destruct (in_scope_elim a Hs) as (Hne & Hhd & Hns & _).
    unfold Range.parse_single. rewrite (trim_space_no_space _ Hns').
    rewrite (first_prefix_hit _ op a pypi_ops_ok Hin Hhd).
    rewrite (trim_space_no_space a Hns). destruct a; [congruence|reflexivity].
  Qed.

  Lemma parse_single_bare a :
    in_scope a = true -> parse_single a = Some [plain $"==" a].
  Proof.
    intros Hs. destruct (in_scope_elim a Hs) as (Hne & Hhd & Hns & _).
    unfold Range.parse_single. rewrite (trim_space_no_space a Hns).
    pose proof pypi_ops_ok as Hok. unfold ops_ok in Hok. apply andb_true_iff in Hok.
    destruct Hok as [_ Hoc].
    rewrite (first_prefix_none _ a Hoc Hhd). reflexivity.
  Qed.

  Lemma rcontains_of R r v :
    parse_range R = Some r -> vok v = true -> rcontains R v = Some (contains r v).
  Proof. intros Hr Hv. simpl. rewrite Hr, Hv. reflexivity. Qed.

  Lemma rcontains_none R v : parse_range R = None -> rcontains R v = None.
  Proof. intros Hr. simpl. rewrite Hr. reflexivity. Qed.

  (* ---------- C02: the six comparators, the bare version ---------- *)

  Definition cmp_ops : list bytes := [$"=="; $"!="; $"<="; $">="; $"<"; $">"].

  Theorem c02_comparator op a v :
    In op cmp_ops -> in_scope a = true -> has_suffix $".*" a = false ->
    vok a = true -> vok v = true ->
    rcontains (op ++ a) v = Some (sat (sem op) (vcmp v a)).
  Proof.
    intros Hin Hs Hw Ha Hv.
    assert (Hin' : In op pypi_ops).
    { simpl in Hin. simpl. tauto. }
    destruct (op_text_facts op a Hin' Hs) as (Hne & Hns & Hc).
    assert (Hp : parse_single (op ++ a) = Some [plain op a]).
    { rewrite (parse_single_op op a Hin' Hs), Hw, andb_false_r.
      simpl in Hin. repeat (destruct Hin as [<-|Hin]; [reflexivity|]). contradiction. }
    rewrite (rcontains_of _ _ v (parse_range_single _ _ Hne Hns Hc Hp) Hv).
    unfold Range.contains, matches. simpl. rewrite Ha, andb_true_r.
    simpl in Hin. repeat (destruct Hin as [<-|Hin]; [reflexivity|]). contradiction.
  Qed.

  Theorem c02_bare a v :
    in_scope a = true -> vok a = true -> vok v = true ->
    rcontains a v = Some (sat CEq (vcmp v a)).
  Proof.
    intros Hs Ha Hv. destruct (in_scope_elim a Hs) as (Hne & Hhd & Hns & Hc).
    rewrite (rcontains_of _ _ v (parse_range_single _ _ Hne Hns Hc (parse_single_bare a Hs)) Hv).
    unfold Range.contains, matches. simpl. rewrite Ha, andb_true_r. reflexivity.
  Qed.

  (* ---------- C05: === is textual identity with String() ---------- *)

  Theorem c05_arbitrary_eq a v :
    in_scope a = true -> vok v = true ->
    rcontains ($"===" ++ a) v = Some (beq (trim_space v) a).
  Proof.
    intros Hs Hv.
    assert (Hin : In $"===" pypi_ops) by (simpl; tauto).
    destruct (op_text_facts _ a Hin Hs) as (Hne & Hns & Hc).
    assert (Hp : parse_single ($"===" ++ a) = Some [plain $"===" a]).
    { rewrite (parse_single_op _ a Hin Hs). reflexivity. }
    rewrite (rcontains_of _ _ v (parse_range_single _ _ Hne Hns Hc Hp) Hv).
    unfold Range.contains, matches. simpl. apply f_equal, andb_true_r.
  Qed.

  (* ---------- C05: ~=V is  >=V, <upper(V) ---------- *)

  Definition bounded (lo_op : bytes) (lo : bytes) (hi_op : bytes) (hi : bytes) (v : bytes) : bool :=
    (vok lo && sat (sem lo_op) (vcmp v lo)) && (vok hi && sat (sem hi_op) (vcmp v hi)).

  Lemma contains_two r o1 b1 o2 b2 v :
    r_cs r = [plain o1 b1; plain o2 b2] ->
    beq o1 $"===" = false -> beq o2 $"===" = false ->
    beq o1 $"!=*" = false -> beq o2 $"!=*" = false ->
    contains r v = bounded o1 b1 o2 b2 v.
  Proof.
    intros E H1 H2 H3 H4. unfold Range.contains, matches, bounded. rewrite E.
    cbn [forallb plain c_op c_ver c_upper].
    rewrite H1, H2, H3, H4, andb_true_r.
    destruct (vok b1); destruct (vok b2); reflexivity.
  Qed.

  Theorem c05_compatible a ep rel up v :
    in_scope a = true -> fields_of vok a = Some (ep, rel) -> compatible_upper ep rel = Some up ->
    vok v = true ->
    rcontains ($"~=" ++ a) v = Some (bounded $">=" a $"<" up v).
  Proof.
    intros Hs Hrel Hup Hv.
    assert (Hin : In $"~=" pypi_ops) by (simpl; tauto).
    destruct (op_text_facts _ a Hin Hs) as (Hne & Hns & Hc).
    assert (Hp : parse_single ($"~=" ++ a) = Some [plain $">=" a; plain $"<" up]).
    { rewrite (parse_single_op _ a Hin Hs). change (beq $"~=" $"~=") with true. cbv iota.
      unfold parse_compatible. rewrite Hrel, Hup. reflexivity. }
    rewrite (rcontains_of _ _ v (parse_range_single _ _ Hne Hns Hc Hp) Hv).
    apply f_equal. apply contains_two; reflexivity.
  Qed.

  (* an unparsable bound makes ~= an error *)
  Theorem c05_compatible_reject a v :
    in_scope a = true -> fields_of vok a = None -> rcontains ($"~=" ++ a) v = None.
  Proof.
    intros Hs Hrel.
    assert (Hin : In $"~=" pypi_ops) by (simpl; tauto).
    destruct (op_text_facts _ a Hin Hs) as (Hne & Hns & Hc).
    assert (Hp : parse_single ($"~=" ++ a) = None).
    { rewrite (parse_single_op _ a Hin Hs). change (beq $"~=" $"~=") with true. cbv iota.
      unfold parse_compatible. rewrite Hrel. reflexivity. }
    apply rcontains_none. apply (parse_range_single_none _ Hne Hns Hc Hp).
  Qed.

  (* ---------- C05: ==B.* is the prefix interval, !=B.* its complement ---------- *)

  Theorem c05_wildcard_eq B ep rel v :
    in_scope (B ++ $".*") = true ->
    fields_of vok B = Some (ep, rel) -> vok v = true ->
    rcontains ($"==" ++ B ++ $".*") v =
      Some (bounded $">=" (wildcard_lower ep rel) $"<" (wildcard_upper ep rel) v).
  Proof.
    intros Hs Hrel Hv.
    assert (Hin : In $"==" pypi_ops) by (simpl; tauto).
    destruct (op_text_facts _ _ Hin Hs) as (Hne & Hns & Hc).
    assert (Hp : parse_single ($"==" ++ B ++ $".*") =
                 Some [plain $">=" (wildcard_lower ep rel); plain $"<" (wildcard_upper ep rel)]).
    { rewrite (parse_single_op _ _ Hin Hs). rewrite has_suffix_app.
      change (beq $"==" $"~=") with false. change (beq $"==" $"==") with true. cbv iota. simpl orb. cbv iota.
      unfold parse_wildcard. rewrite trim_suffix_app, Hrel. reflexivity. }
    rewrite (rcontains_of _ _ v (parse_range_single _ _ Hne Hns Hc Hp) Hv).
    apply f_equal. apply contains_two; reflexivity.
  Qed.

  (* v < lower  OR  v >= upper  (one constraint, so that the comma-AND does not apply) *)
  Theorem c05_wildcard_ne B ep rel v :
    in_scope (B ++ $".*") = true ->
    fields_of vok B = Some (ep, rel) -> vok v = true ->
    rcontains ($"!=" ++ B ++ $".*") v =
      Some (vok (wildcard_lower ep rel) && vok (wildcard_upper ep rel)
            && (sat CLt (vcmp v (wildcard_lower ep rel)) || sat CGe (vcmp v (wildcard_upper ep rel)))).
  Proof.
    intros Hs Hrel Hv.
    assert (Hin : In $"!=" pypi_ops) by (simpl; tauto).
    destruct (op_text_facts _ _ Hin Hs) as (Hne & Hns & Hc).
    assert (Hp : parse_single ($"!=" ++ B ++ $".*") =
                 Some [mkc $"!=*" (wildcard_lower ep rel) (wildcard_upper ep rel)]).
    { rewrite (parse_single_op _ _ Hin Hs). rewrite has_suffix_app.
      change (beq $"!=" $"~=") with false. change (beq $"!=" $"==") with false.
      change (beq $"!=" $"!=") with true. cbv iota. simpl orb. cbv iota.
      unfold parse_wildcard. rewrite trim_suffix_app, Hrel.
      change (beq $"!=" $"==") with false. change (beq $"!=" $"!=") with true. reflexivity. }
    rewrite (rcontains_of _ _ v (parse_range_single _ _ Hne Hns Hc Hp) Hv).
    apply f_equal. unfold Range.contains, matches. cbn [r_cs forallb c_op c_ver c_upper].
    change (beq $"!=*" $"===") with false. change (beq $"!=*" $"!=*") with true. cbv iota.
    rewrite andb_true_r.
    destruct (vok (wildcard_lower ep rel)); destruct (vok (wildcard_upper ep rel)); reflexivity.
  Qed.

  (* the sign tests of the two forms are complementary *)
  Lemma sat_complement c1 c2 : sat CLt c1 || sat CGe c2 = negb (sat CGe c1 && sat CLt c2).
  Proof. destruct c1; destruct c2; reflexivity. Qed.

  (* !=B.* contains exactly what ==B.* does not, when both printed bounds parse *)
  Corollary c05_wildcard_complement B ep rel v :
    in_scope (B ++ $".*") = true ->
    fields_of vok B = Some (ep, rel) -> vok v = true ->
    vok (wildcard_lower ep rel) = true -> vok (wildcard_upper ep rel) = true ->
    rcontains ($"!=" ++ B ++ $".*") v = option_map negb (rcontains ($"==" ++ B ++ $".*") v).
  Proof.
    intros Hs Hrel Hv Hlo Hup.
    rewrite (c05_wildcard_ne B ep rel v Hs Hrel Hv), (c05_wildcard_eq B ep rel v Hs Hrel Hv).
    unfold bounded. rewrite Hlo, Hup. cbn [option_map andb]. rewrite sat_complement. reflexivity.
  Qed.

  (* an unparsable prefix makes both forms an error *)
  Theorem c05_wildcard_reject op B v :
    op = $"==" \/ op = $"!=" ->
    in_scope (B ++ $".*") = true -> fields_of vok B = None ->
    rcontains (op ++ B ++ $".*") v = None.
  Proof.
    intros Hop Hs Hrel.
    assert (Hin : In op pypi_ops) by (destruct Hop as [->| ->]; simpl; tauto).
    destruct (op_text_facts _ _ Hin Hs) as (Hne & Hns & Hc).
    assert (Hp : parse_single (op ++ B ++ $".*") = None).
    { rewrite (parse_single_op _ _ Hin Hs). rewrite has_suffix_app.
      unfold parse_wildcard. rewrite trim_suffix_app, Hrel.
      destruct Hop as [->| ->]; reflexivity. }
    apply rcontains_none. apply (parse_range_single_none _ Hne Hns Hc Hp).
  Qed.

  (* ---------- C20 ---------- *)

  Definition no_arbitrary_eq (cs : list constraint) : bool :=
    forallb (fun c => negb (beq (c_op c) $"===")) cs.

  Lemma matches_eq a b c :
    TotalPreorder vcmp -> vcmp a b = Eq ->
    beq (c_op c) $"===" = false \/ trim_space a = trim_space b ->
    matches vok vcmp a c = matches vok vcmp b c.
  Proof.
    intros TP E H. unfold matches.
    destruct (beq (c_op c) $"===") eqn:Eo.
    - destruct H as [H|H]; [discriminate|]. rewrite H. reflexivity.
    - destruct (vok (c_ver c)); [|reflexivity].
      rewrite (tp_eq_l TP a b (c_ver c) E), (tp_eq_l TP a b (c_upper c) E). reflexivity.
  Qed.

  Theorem c20_eq r a b :
    TotalPreorder vcmp -> no_arbitrary_eq (r_cs r) = true ->
    vcmp a b = Eq -> contains r a = contains r b.
  Proof.
    intros TP Hn E. unfold Range.contains. unfold no_arbitrary_eq in Hn.
    induction (r_cs r) as [|c cs IH]; [reflexivity|].
    cbn [forallb] in Hn. apply andb_true_iff in Hn. destruct Hn as [Hc Hn]. apply negb_true_iff in Hc.
    cbn [forallb]. rewrite (IH Hn). f_equal. apply matches_eq; auto.
  Qed.

  (* with === constraints, Compare-equal versions must also print the same *)
  Theorem c20_eq_text r a b :
    TotalPreorder vcmp -> trim_space a = trim_space b ->
    vcmp a b = Eq -> contains r a = contains r b.
  Proof.
    intros TP Ht E. unfold Range.contains.
    induction (r_cs r) as [|c cs IH]; [reflexivity|].
    cbn [forallb]. rewrite IH. f_equal. apply matches_eq; auto.
  Qed.

  (* conjunctions without !=, !=X.* and === are convex *)
  Definition convex_cs (cs : list constraint) : bool :=
    forallb (fun c => negb (beq (c_op c) $"===") && negb (beq (c_op c) $"!=*")
                      && convex_op (sem (c_op c))) cs.

  Theorem c20_convex r a b c :
    TotalPreorder vcmp -> convex_cs (r_cs r) = true ->
    le_c (vcmp a b) -> le_c (vcmp b c) ->
    contains r a = true -> contains r c = true -> contains r b = true.
  Proof.
    intros TP Hcv Hab Hbc. unfold Range.contains, convex_cs in *.
    induction (r_cs r) as [|k cs IH]; cbn [forallb] in *; [reflexivity|].
    apply andb_true_iff in Hcv. destruct Hcv as [Hk Hcv].
    apply andb_true_iff in Hk. destruct Hk as [Hk1 Hk3].
    apply andb_true_iff in Hk1. destruct Hk1 as [Hk1 Hk2].
    apply negb_true_iff in Hk1. apply negb_true_iff in Hk2.
    rewrite !andb_true_iff. intros [Ha1 Ha2] [Hc1 Hc2]. split; [|apply IH; assumption].
    unfold matches in *. rewrite Hk1, Hk2 in *. destruct (vok (c_ver k)); [|discriminate].
    apply (sat_convex bytes vcmp TP _ (c_ver k) a b c); assumption.
  Qed.
End Facts.

(* ---------- the shapes of the desugared bounds ---------- *)

Lemma bump_init_snoc2 pre a b : bump_init (pre ++ [a; b]) = map dec_z pre ++ [dec_z (inc a)].
Proof.
  induction pre as [|x pre IH]; [reflexivity|].
  assert (exists y z l, pre ++ [a; b] = y :: z :: l) as (y & z & l & E).
  { destruct pre as [|y [|z pre]]; simpl; eauto. }
  cbn [app map]. rewrite E in *.
  change (bump_init (x :: y :: z :: l)) with (dec_z x :: bump_init (y :: z :: l)).
  rewrite IH. reflexivity.
Qed.

Lemma bump_last_snoc pre a : bump_last (pre ++ [a]) = map dec_z pre ++ [dec_z (inc a)].
Proof.
  induction pre as [|x pre IH]; [reflexivity|].
  assert (exists y l, pre ++ [a] = y :: l) as (y & l & E).
  { destruct pre as [|y pre]; simpl; eauto. }
  cbn [app map]. rewrite E in *.
  change (bump_last (x :: y :: l)) with (dec_z x :: bump_last (y :: l)).
  rewrite IH. reflexivity.
Qed.

Lemma compatible_upper_1 ep a :
  compatible_upper ep [a] = Some (epoch_prefix ep ++ dec_z (inc a) ++ $".0").
Proof. reflexivity. Qed.

(* ~=p1...pk.a.b has the upper bound E!p1...pk.(a+1).0 : the last segment is dropped and the
   one before it incremented, in the epoch of the base *)
Lemma compatible_upper_n ep pre a b :
  compatible_upper ep (pre ++ [a; b]) =
  Some (epoch_prefix ep ++ join $"." (map dec_z pre ++ [dec_z (inc a)]) ++ $".0").
Proof.
  unfold compatible_upper. rewrite bump_init_snoc2.
  destruct pre as [|x pre]; [reflexivity|]. destruct pre; reflexivity.
Qed.

(* ---------- the shorthands on plain numeric tuples, with an optional epoch ---------- *)

Lemma join_snoc sep l x : l <> [] -> join sep (l ++ [x]) = join sep l ++ sep ++ x.
Proof.
  induction l as [|y l IH]; [congruence|]. intros _.
  destruct l as [|z l].
  - reflexivity.
  - change (join sep ((y :: z :: l) ++ [x])) with (y ++ sep ++ join sep ((z :: l) ++ [x])).
    rewrite IH by discriminate.
    change (join sep (y :: z :: l)) with (y ++ sep ++ join sep (z :: l)).
    rewrite <- !app_assoc. reflexivity.
Qed.

Lemma dotted_snoc t x : t <> [] -> dotted (t ++ [x]) = dotted t ++ $"." ++ dec x.
Proof.
  intros Ht. unfold dotted. rewrite map_app. cbn [map].
  apply join_snoc. destruct t; [congruence|discriminate].
Qed.

Lemma dotted_snoc0 t : t <> [] -> dotted t ++ $".0" = dotted (t ++ [0%N]).
Proof. intros Ht. rewrite dotted_snoc by assumption. reflexivity. Qed.

Lemma dotted_of_Z t : join $"." (map dec_z (map Z.of_N t)) = dotted t.
Proof.
  unfold dotted. rewrite map_map. f_equal. apply map_ext. intros n. apply dec_z_of_N.
Qed.

(* digits, dots and the epoch mark: the bytes of  E!a.b.c  *)
Definition is_ver_char (c : ascii) : bool := is_rel_char c || ceqb c "!"%char.

Lemma ver_char_plain c : is_ver_char c = true -> is_space c = false /\ ceqb ","%char c = false.
Proof.
  unfold is_ver_char, is_rel_char. intros H. apply orb_true_iff in H. destruct H as [H|H].
  - apply orb_true_iff in H. destruct H as [H|H].
    + split.
      * unfold is_digit, is_space, in_range in *. generalize dependent (code c). intros n Hn.
        destruct (N.leb_spec 48 n); [|discriminate].
        destruct (N.eqb_spec n 32); [lia|]. destruct (N.leb_spec 9 n); [|reflexivity].
        destruct (N.leb_spec n 13); [lia|reflexivity].
      * destruct (ceqb "," c) eqn:E; [|reflexivity]. apply ceqb_eq in E. subst. discriminate.
    + apply ceqb_eq in H. subst. split; reflexivity.
  - apply ceqb_eq in H. subst. split; reflexivity.
Qed.

Lemma ver_text_plain s :
  forallb is_ver_char s = true -> no_space s = true /\ contains_c ","%char s = false.
Proof.
  unfold no_space, contains_c. induction s as [|c s IH]; [split; reflexivity|].
  cbn [forallb existsb]. intros H. apply andb_true_iff in H. destruct H as [Hc Hs].
  destruct (ver_char_plain c Hc) as [H1 H2]. destruct (IH Hs) as [I1 I2].
  rewrite H1, H2, I1, I2. split; reflexivity.
Qed.

Lemma digit_not_opchar d : is_digit d = true -> opchar d = false.
Proof.
  intros H. unfold opchar. cbn [existsb list_ascii_of_string].
  repeat match goal with |- context [ceqb d ?x] =>
    let E := fresh in destruct (ceqb d x) eqn:E; [apply ceqb_eq in E; subst; discriminate|] end.
  reflexivity.
Qed.

(* the printed form of epoch e and release t: "e!" only when e is not 0 *)
Definition epfx (e : N) : bytes := if (e =? 0)%N then [] else dec e ++ $"!".
Definition etext (e : N) (t : list N) : bytes := epfx e ++ dotted t.

Lemma epoch_prefix_of_N e : epoch_prefix (Z.of_N e) = epfx e.
Proof.
  unfold epoch_prefix, epfx. destruct (N.eqb_spec e 0) as [->|H]; [reflexivity|].
  destruct (Z.eqb_spec (Z.of_N e) 0); [lia|]. rewrite dec_z_of_N. reflexivity.
Qed.

Lemma etext_chars e t : forallb is_ver_char (etext e t) = true.
Proof.
  unfold etext, epfx. rewrite forallb_app.
  assert (Hd : forallb is_ver_char (dotted t) = true).
  { apply (forallb_impl is_rel_char); [|apply dotted_rel].
    intros x Hx. unfold is_ver_char. rewrite Hx. reflexivity. }
  rewrite Hd, andb_true_r. destruct (e =? 0)%N; [reflexivity|].
  rewrite forallb_app. replace (forallb is_ver_char $"!") with true by reflexivity.
  rewrite andb_true_r.
  apply (forallb_impl is_digit); [|apply dec_digits].
  intros x Hx. unfold is_ver_char, is_rel_char. rewrite Hx. reflexivity.
Qed.

Lemma etext_first e t : t <> [] -> exists d r, etext e t = d :: r /\ is_digit d = true.
Proof.
  intros Ht. unfold etext, epfx. destruct (e =? 0)%N.
  - apply dotted_first. assumption.
  - pose proof (dec_nonempty e) as Hne. pose proof (dec_digits e) as Hd.
    destruct (dec e) as [|d r]; [congruence|]. cbn [forallb] in Hd. apply andb_true_iff in Hd.
    exists d. eexists. split; [reflexivity|tauto].
Qed.

Lemma in_scope_etext e t sfx :
  t <> [] -> no_space sfx = true -> contains_c ","%char sfx = false ->
  in_scope (etext e t ++ sfx) = true.
Proof.
  intros Ht H1 H2. unfold in_scope.
  destruct (ver_text_plain _ (etext_chars e t)) as [D1 D2].
  rewrite no_space_app, D1, H1, contains_c_app, D2, H2.
  destruct (etext_first e t Ht) as (d & r & E & Hd). rewrite E. cbn [app].
  rewrite (digit_not_opchar d Hd). reflexivity.
Qed.

Lemma wrap64_small z : (0 <= z < Z.of_N two63)%Z -> wrap64 z = z.
Proof.
  intros H. unfold wrap64.
  assert (E : Z.of_N two64 = (2 * Z.of_N two63)%Z) by reflexivity.
  rewrite Z.mod_small by lia.
  destruct (Z.ltb_spec z (Z.of_N two63)); [reflexivity|lia].
Qed.

Lemma inc_of_N a : (a + 1 < two63)%N -> inc (Z.of_N a) = Z.of_N (a + 1).
Proof. intros H. unfold inc. rewrite wrap64_small by lia. lia. Qed.

Lemma wildcard_lower_etext e t : wildcard_lower (Z.of_N e) (map Z.of_N t) = etext e t.
Proof. unfold wildcard_lower, etext. rewrite epoch_prefix_of_N, dotted_of_Z. reflexivity. Qed.

Lemma wildcard_upper_etext e pre a :
  (a + 1 < two63)%N ->
  wildcard_upper (Z.of_N e) (map Z.of_N (pre ++ [a])) = etext e (pre ++ [a + 1]%N).
Proof.
  intros Ha. unfold wildcard_upper, etext. rewrite epoch_prefix_of_N. f_equal.
  rewrite map_app. cbn [map]. rewrite bump_last_snoc, inc_of_N by assumption.
  rewrite <- (dotted_of_Z (pre ++ [a + 1]%N)), map_app, map_app. reflexivity.
Qed.

Section Dotted.
  Variable vok : bytes -> bool.
  Variable vcmp : bytes -> bytes -> comparison.
  Notation rcontains := (r_contains Entry.r vok vcmp).

  (* reading v.epoch and v.release of an accepted  e!a.b.c  *)
  Lemma fields_of_etext e t :
    (e < two63)%N -> nums_ok t -> vok (etext e t) = true ->
    fields_of vok (etext e t) = Some (Z.of_N e, map Z.of_N t).
  Proof.
    intros He Ht Hv. unfold fields_of. rewrite Hv.
    destruct (ver_text_plain _ (etext_chars e t)) as [D1 _].
    rewrite (trim_space_no_space _ D1). unfold etext, epfx.
    destruct (N.eqb_spec e 0) as [->|Hne].
    - cbn [app]. rewrite (parse_core_release t Ht). reflexivity.
    - rewrite <- app_assoc. rewrite (parse_core_epoch e t He Ht). reflexivity.
  Qed.

  (* ==E!p.a.*  is  >=E!p.a, <E!p.(a+1)  for any number of segments:
     ==1.* = [1, 2),  ==1.2.* = [1.2, 1.3),  ==1.2.3.* = [1.2.3, 1.2.4) *)
  Theorem c05_wildcard_prefix e pre a v :
    (e < two63)%N -> nums_ok (pre ++ [a]) -> (a + 1 < two63)%N ->
    vok (etext e (pre ++ [a])) = true -> vok v = true ->
    rcontains ($"==" ++ etext e (pre ++ [a]) ++ $".*") v =
      Some (bounded vok vcmp $">=" (etext e (pre ++ [a])) $"<" (etext e (pre ++ [a + 1]%N)) v).
  Proof.
    intros He Ht Ha Hok Hv.
    rewrite (c05_wildcard_eq vok vcmp _ (Z.of_N e) (map Z.of_N (pre ++ [a])) v); try assumption.
    - rewrite wildcard_lower_etext, wildcard_upper_etext by assumption. reflexivity.
    - apply in_scope_etext; [destruct pre; discriminate|reflexivity|reflexivity].
    - apply fields_of_etext; assumption.
  Qed.

  (* !=E!p.a.*  is  <E!p.a OR >=E!p.(a+1) : the complement of the prefix interval *)
  Theorem c05_wildcard_ne_prefix e pre a v :
    (e < two63)%N -> nums_ok (pre ++ [a]) -> (a + 1 < two63)%N ->
    vok (etext e (pre ++ [a])) = true -> vok (etext e (pre ++ [a + 1]%N)) = true -> vok v = true ->
    rcontains ($"!=" ++ etext e (pre ++ [a]) ++ $".*") v =
      Some (negb (bounded vok vcmp $">=" (etext e (pre ++ [a])) $"<" (etext e (pre ++ [a + 1]%N)) v)).
  Proof.
    intros He Ht Ha Hok Hok' Hv.
    assert (Hs : in_scope (etext e (pre ++ [a]) ++ $".*") = true).
    { apply in_scope_etext; [destruct pre; discriminate|reflexivity|reflexivity]. }
    pose proof (fields_of_etext e _ He Ht Hok) as Hf.
    rewrite (c05_wildcard_complement vok vcmp _ _ _ v Hs Hf Hv);
      rewrite ?wildcard_lower_etext, ?wildcard_upper_etext by assumption; try assumption.
    rewrite (c05_wildcard_prefix e pre a v He Ht Ha Hok Hv). reflexivity.
  Qed.

  (* ~=E!p.a.b  is  >=E!p.a.b, <E!p.(a+1).0 *)
  Theorem c05_compatible_dotted e pre a b v :
    (e < two63)%N -> nums_ok (pre ++ [a; b]) -> (a + 1 < two63)%N ->
    vok (etext e (pre ++ [a; b])) = true -> vok v = true ->
    rcontains ($"~=" ++ etext e (pre ++ [a; b])) v =
      Some (bounded vok vcmp $">=" (etext e (pre ++ [a; b])) $"<" (etext e (pre ++ [a + 1; 0]%N)) v).
  Proof.
    intros He Ht Ha Hok Hv.
    rewrite (c05_compatible vok vcmp _ (Z.of_N e) (map Z.of_N (pre ++ [a; b]))
               (etext e (pre ++ [a + 1; 0]%N)) v); try assumption; try reflexivity.
    - rewrite <- (app_nil_r (etext _ _)). apply in_scope_etext; [|reflexivity|reflexivity].
      destruct pre; discriminate.
    - apply fields_of_etext; assumption.
    - rewrite map_app. cbn [map]. rewrite compatible_upper_n, epoch_prefix_of_N. f_equal.
      unfold etext. f_equal.
      rewrite inc_of_N by assumption.
      change [a + 1; 0]%N with ([a + 1] ++ [0])%N. rewrite app_assoc.
      rewrite <- dotted_snoc0 by (destruct pre; discriminate).
      f_equal. rewrite <- (dotted_of_Z (pre ++ [a + 1]%N)), map_app, map_app. reflexivity.
  Qed.

  (* ~=E!a (a single segment, an error in PEP 440) is  >=E!a, <E!(a+1).0 *)
  Theorem c05_compatible_single e a v :
    (e < two63)%N -> (a + 1 < two63)%N -> vok (etext e [a]) = true -> vok v = true ->
    rcontains ($"~=" ++ etext e [a]) v =
      Some (bounded vok vcmp $">=" (etext e [a]) $"<" (etext e [a + 1; 0]%N) v).
  Proof.
    intros He Ha Hok Hv.
    assert (Ht : nums_ok [a]) by (split; [discriminate|repeat constructor; lia]).
    rewrite (c05_compatible vok vcmp _ (Z.of_N e) [Z.of_N a] (etext e [a + 1; 0]%N) v);
      try assumption; try reflexivity.
    - rewrite <- (app_nil_r (etext _ _)). apply in_scope_etext; [discriminate|reflexivity|reflexivity].
    - apply (fields_of_etext e [a]); assumption.
    - rewrite compatible_upper_1, epoch_prefix_of_N, inc_of_N, dec_z_of_N by assumption. reflexivity.
  Qed.
End Dotted.

(* ---------- examples and remaining findings, on the model's own version layer ---------- *)

Definition self_ok := self_vok Entry.entry.
Definition self_cmp := self_vcmp Entry.entry.
Definition self_contains (r v : bytes) := r_contains Entry.r self_ok self_cmp r v.

Example wildcard_major : self_contains $"==1.*" $"1.5.0" = Some true /\ self_contains $"==1.*" $"2.0" = Some false.
Proof. vm_compute. split; reflexivity. Qed.
Example wildcard_deep : self_contains $"==1.2.3.*" $"1.2.9" = Some false /\ self_contains $"==1.2.3.*" $"1.2.3.7" = Some true.
Proof. vm_compute. split; reflexivity. Qed.
Example wildcard_ne :
  self_contains $"!=1.2.*" $"1.5.0" = Some true /\ self_contains $"!=1.2.*" $"1.0" = Some true
  /\ self_contains $"!=1.2.*" $"1.2.7" = Some false.
Proof. vm_compute. repeat split; reflexivity. Qed.
Example compatible_epoch : self_contains $"~=1!2.3" $"1!2.4" = Some true /\ self_contains $"~=1!2.3" $"1!3.0" = Some false.
Proof. vm_compute. split; reflexivity. Qed.
Example wildcard_epoch : self_contains $"==1!1.*" $"1!1.5" = Some true /\ self_contains $"==1!1.*" $"1.5" = Some false.
Proof. vm_compute. split; reflexivity. Qed.
(* ~=1 (one segment; an error in PEP 440) is >=1,<2.0 *)
Example compatible_single_segment : self_contains $"~=1" $"1.5" = Some true.
Proof. vm_compute. reflexivity. Qed.
(* an empty list element is an always-false constraint, not an error *)
Example empty_element_never : self_contains $">=1.0," $"2.0" = Some false.
Proof. vm_compute. reflexivity. Qed.
(* the prefix of a wildcard may carry pre/post/dev/local parts, which are dropped: ==1.2a1.* is ==1.2.* *)
Example wildcard_marker_dropped : self_contains $"==1.2a1.*" $"1.2.5" = Some true.
Proof. vm_compute. reflexivity. Qed.
(* C20 fails through ===: 1.0 and 1.0.0 are Compare-equal *)
Example c20_arbitrary_eq_counterexample :
  self_cmp $"1.0" $"1.0.0" = Eq /\
  self_contains $"===1.0" $"1.0" = Some true /\ self_contains $"===1.0" $"1.0.0" = Some false.
Proof. vm_compute. repeat split; reflexivity. Qed.

Print Assumptions c02_comparator.
Print Assumptions c02_bare.
Print Assumptions c05_arbitrary_eq.
Print Assumptions c05_compatible.
Print Assumptions c05_wildcard_eq.
Print Assumptions c05_wildcard_ne.
Print Assumptions c05_wildcard_complement.
Print Assumptions c05_wildcard_reject.
Print Assumptions c20_eq.
Print Assumptions c20_eq_text.
Print Assumptions c20_convex.
Print Assumptions compatible_upper_n.
Print Assumptions c05_wildcard_prefix.
Print Assumptions c05_wildcard_ne_prefix.
Print Assumptions c05_compatible_dotted.
Print Assumptions c05_compatible_single.
