(* Eco/Pypi/SpecFacts.v — C09: the pypi Compare model orders versions as the PEP 440 reference
   (Spec/Pep440.v, the sort key of Python's [packaging]) does, on every reference-valid text
   whose numbers are below 2^63 and which carries no local label; local labels are ignored by
   the implementation (finding, [pypi_local_refuted]). *)
From Coq Require Import Lia ZifyBool.
From Verif.Base Require Import Bytes BytesFacts GoNum Ord.
From Verif.Eco.Pypi Require Import DecFacts.
From Verif.Eco Require Import VLayer Iface RangeCoreFacts.
From Verif.Eco.Pypi Require Import Version VersionFacts Entry.
From Verif.Spec Require Import Pep440 Pep440Facts.
Local Open Scope N_scope.

(* ---------- generic scanner facts ---------- *)

Lemma take_drop_while p (s : bytes) : take_while p s ++ drop_while p s = s.
Proof. induction s as [|c s IH]; simpl; [reflexivity|]. destruct (p c); simpl; [rewrite IH|]; reflexivity. Qed.

Lemma take_while_forall p (s : bytes) : forallb p (take_while p s) = true.
Proof. induction s as [|c s IH]; simpl; [reflexivity|]. destruct (p c) eqn:E; simpl; [rewrite E, IH|]; reflexivity. Qed.

Lemma drop_while_hd p (s : bytes) : hd_not p (drop_while p s).
Proof. induction s as [|c s IH]; simpl; [exact I|]. destruct (p c) eqn:E; [exact IH|simpl; exact E]. Qed.

Lemma no_space_of p (s : bytes) :
  (forall c, p c = true -> is_space c = false) -> forallb p s = true -> no_space s = true.
Proof.
  intros H. unfold no_space. induction s as [|c s IH]; simpl; [reflexivity|].
  intros E. apply andb_true_iff in E. destruct E as [E1 E2]. rewrite (H c E1), (IH E2). reflexivity.
Qed.

Lemma digit_not_space c : is_digit c = true -> is_space c = false.
Proof. unfold is_digit, is_space, in_range. generalize (code c). intros n. lia. Qed.
Lemma lower_not_space c : is_lower c = true -> is_space c = false.
Proof. unfold is_lower, is_space, in_range. generalize (code c). intros n. lia. Qed.
Lemma alnum_not_space c : is_alnum c = true -> is_space c = false.
Proof.
  unfold is_alnum, is_letter, is_lower, is_upper, is_digit, is_space, in_range.
  generalize (code c). intros n. lia.
Qed.
Lemma lower_is_letter c : is_lower c = true -> is_letter c = true.
Proof. unfold is_letter. intros ->. reflexivity. Qed.

Lemma ns_digits d : forallb is_digit d = true -> no_space d = true.
Proof. apply no_space_of, digit_not_space. Qed.
Lemma ns_lower d : forallb is_lower d = true -> no_space d = true.
Proof. apply no_space_of, lower_not_space. Qed.

Lemma ns_rel d : forallb is_rel_char d = true -> no_space d = true.
Proof.
  apply no_space_of. intros c H. unfold is_rel_char in H. apply orb_true_iff in H.
  destruct H as [H|H]; [apply digit_not_space; assumption|apply ceqb_eq in H; subst; reflexivity].
Qed.

(* ---------- [0-9]+ ---------- *)

Lemma scan_num_some s n r :
  scan_num s = Some (n, r) ->
  exists d, s = d ++ r /\ d <> [] /\ forallb is_digit d = true /\ n = digits_val d
            /\ hd_not is_digit r.
Proof.
  unfold scan_num. destruct (take_while is_digit s) as [|a l] eqn:E; [discriminate|].
  intros H. injection H as <- <-. exists (a :: l). rewrite <- E. repeat split.
  - symmetry. apply take_drop_while.
  - rewrite E. discriminate.
  - apply take_while_forall.
  - apply drop_while_hd.
Qed.

Lemma nonempty_digits_iff d : nonempty_digits d = true <-> d <> [] /\ forallb is_digit d = true.
Proof.
  unfold nonempty_digits. destruct d as [|c d].
  - split; [discriminate|intros [H _]; congruence].
  - split; [intros H; split; [discriminate|exact H]|intros [_ H]; exact H].
Qed.

(* ---------- release: N(.N)* over arbitrary digit strings ---------- *)

Definition jd (parts : list bytes) : bytes := join $"." parts.
Definition parts_ok (parts : list bytes) : Prop :=
  parts <> [] /\ forallb nonempty_digits parts = true.

Lemma jd_cons d ps : ps <> [] -> jd (d :: ps) = d ++ "."%char :: jd ps.
Proof. destruct ps; [congruence|reflexivity]. Qed.

Lemma jd_rel parts : forallb nonempty_digits parts = true -> forallb is_rel_char (jd parts) = true.
Proof.
  induction parts as [|d ps IH]; [reflexivity|]. cbn [forallb]. intros H.
  apply andb_true_iff in H. destruct H as [Hd Hps]. apply nonempty_digits_iff in Hd.
  assert (Hdr : forallb is_rel_char d = true).
  { apply (forallb_impl is_digit); [apply digit_is_rel|tauto]. }
  destruct ps as [|d' ps]; [exact Hdr|].
  rewrite jd_cons by discriminate. rewrite forallb_app, Hdr. cbn [forallb andb].
  rewrite (IH Hps). reflexivity.
Qed.

Lemma jd_last parts : parts_ok parts -> exists c r, rev (jd parts) = c :: r /\ is_digit c = true.
Proof.
  intros [Hne H]. induction parts as [|d ps IH]; [congruence|]. clear Hne.
  cbn [forallb] in H. apply andb_true_iff in H. destruct H as [Hd Hps].
  apply nonempty_digits_iff in Hd. destruct Hd as [Hd1 Hd2].
  destruct ps as [|d' ps].
  - unfold jd. simpl. rewrite <- forallb_rev in Hd2.
    destruct (rev d) as [|c r] eqn:E.
    + apply (f_equal (@rev ascii)) in E. rewrite rev_involutive in E. simpl in E. congruence.
    + simpl in Hd2. apply andb_true_iff in Hd2. exists c, r. tauto.
  - rewrite jd_cons by discriminate.
    destruct IH as (c & r & E & Hc); [discriminate|assumption|].
    rewrite rev_app_distr. cbn [rev]. rewrite E. simpl.
    exists c. eexists. split; [reflexivity|assumption].
Qed.

Lemma split_jd parts : parts_ok parts -> split_c "."%char (jd parts) = parts.
Proof.
  intros [Hne H]. unfold jd. apply split_join; [assumption|].
  rewrite forallb_forall in *. intros x Hx. specialize (H x Hx). apply nonempty_digits_iff in H.
  rewrite (digits_no_c "."%char x); [reflexivity|reflexivity|tauto].
Qed.

Definition not_dot_digit (r : bytes) : Prop :=
  match r with
  | dot :: c :: _ => ceqb dot "."%char && is_digit c = false
  | _ => True
  end.

Lemma spec_release_shape fuel : forall s rel r1,
  Pep440.scan_release fuel s = Some (rel, r1) ->
  exists parts, parts_ok parts /\ map digits_val parts = rel /\ s = jd parts ++ r1
                /\ hd_not is_digit r1 /\ not_dot_digit r1.
Proof.
  induction fuel as [|k IH]; intros s rel r1 H; [discriminate|].
  cbn [Pep440.scan_release] in H.
  destruct (scan_num s) as [[n r]|] eqn:En; [|discriminate].
  apply scan_num_some in En. destruct En as (d & -> & Hd1 & Hd2 & -> & Hr).
  assert (Hd : nonempty_digits d = true) by (apply nonempty_digits_iff; tauto).
  assert (Single : Some ([digits_val d], r) = Some (rel, r1) -> not_dot_digit r ->
          exists parts, parts_ok parts /\ map digits_val parts = rel /\ d ++ r = jd parts ++ r1
                /\ hd_not is_digit r1 /\ not_dot_digit r1).
  { intros E Hnd. injection E as <- <-. exists [d]. repeat split; try assumption.
    - discriminate.
    - cbn [forallb]. rewrite Hd. reflexivity. }
  destruct r as [|dot [|c r']]; try (apply Single; [assumption|exact I]).
  destruct (ceqb dot "."%char && is_digit c) eqn:B; [|apply Single; [assumption|exact B]].
  destruct (Pep440.scan_release k (c :: r')) as [[l r'']|] eqn:Er; [|discriminate].
  injection H as <- <-.
  apply andb_true_iff in B. destruct B as [B1 B2]. apply ceqb_eq in B1. subst dot.
  destruct (IH _ _ _ Er) as (parts & [P1 P2] & P3 & P4 & P5 & P6).
  exists (d :: parts). repeat split; try assumption.
  - discriminate.
  - cbn [forallb]. rewrite Hd, P2. reflexivity.
  - cbn [map]. rewrite P3. reflexivity.
  - rewrite jd_cons by assumption. rewrite P4, <- app_assoc. reflexivity.
Qed.

(* what may follow the release in an accepted text *)
Definition r1_ok (r1 : bytes) : Prop :=
  hd_not is_rel_char r1 \/ exists r', r1 = "."%char :: r' /\ hd_not is_rel_char r'.

Lemma m_scan_release_jd parts r1 :
  parts_ok parts -> r1_ok r1 -> Version.scan_release (jd parts ++ r1) = (jd parts, r1).
Proof.
  intros Hp Hr. pose proof (jd_rel parts (proj2 Hp)) as Hrel.
  destruct (jd_last parts Hp) as (d & r & E & Hd).
  unfold Version.scan_release.
  rewrite take_while_app_all, drop_while_app_all by assumption.
  destruct Hr as [Hr|(r' & -> & Hr)].
  - rewrite take_while_hd_not, drop_while_hd_not by assumption. rewrite app_nil_r, E.
    assert (ceqb d "."%char = false) as ->.
    { destruct (ceqb d ".") eqn:C; [|reflexivity]. apply ceqb_eq in C. subst. discriminate. }
    reflexivity.
  - cbn [take_while drop_while]. change (is_rel_char "."%char) with true. cbv iota.
    rewrite take_while_hd_not, drop_while_hd_not by assumption.
    rewrite rev_app_distr. cbn [rev app]. rewrite ceqb_refl, rev_involutive. reflexivity.
Qed.

(* ---------- marker groups ---------- *)

Definition lower_ne (m : bytes) : bool :=
  match m with [] => false | _ => forallb is_lower m end.

Lemma lower_ne_letters m : lower_ne m = true -> letters_ne m = true.
Proof.
  unfold lower_ne, letters_ne. destruct m; [auto|]. apply forallb_impl, lower_is_letter.
Qed.

Lemma has_prefix_lower m w X :
  forallb is_lower m = true -> hd_not is_lower X -> has_prefix m (w ++ X) = has_prefix m w.
Proof.
  revert w. induction m as [|x m IH]; intros w Hm HX; [reflexivity|].
  cbn [forallb] in Hm. apply andb_true_iff in Hm. destruct Hm as [Hx Hm].
  destruct w as [|y w]; simpl.
  - destruct X as [|c X]; [reflexivity|]. simpl in HX.
    destruct (ceqb x c) eqn:E; [|reflexivity]. apply ceqb_eq in E. subst. congruence.
  - rewrite IH by assumption. reflexivity.
Qed.

(* a lower-case word that is not directly followed by a digit starts no marker group *)
Lemma first_marker_none ms w X :
  forallb lower_ne ms = true -> forallb is_lower w = true ->
  hd_not is_lower X -> (w <> [] -> hd_not is_digit X) ->
  first_marker ms (w ++ X) = None.
Proof.
  intros Hms Hw HX HXd. induction ms as [|m ms IH]; [reflexivity|].
  cbn [forallb] in Hms. apply andb_true_iff in Hms. destruct Hms as [Hm Hms].
  assert (Hml : forallb is_lower m = true) by (destruct m; [discriminate|exact Hm]).
  cbn [first_marker]. rewrite (has_prefix_lower m w X Hml HX).
  destruct (has_prefix m w) eqn:E; [|apply IH; assumption].
  apply has_prefix_spec in E. destruct E as [rem Erem].
  assert (skipn (length m) (w ++ X) = rem ++ X) as ->
    by (rewrite Erem, <- app_assoc; apply skipn_app_exact).
  assert (take_while is_digit (rem ++ X) = []) as ->.
  { destruct rem as [|c rem].
    - simpl. apply take_while_hd_not. apply HXd. rewrite Erem. destruct m; [discriminate|discriminate].
    - rewrite Erem, forallb_app in Hw. apply andb_true_iff in Hw. destruct Hw as [_ Hc].
      cbn [forallb] in Hc. apply andb_true_iff in Hc. destruct Hc as [Hc _].
      simpl. rewrite (letter_not_digit c (lower_is_letter c Hc)). reflexivity. }
  apply IH. assumption.
Qed.

Lemma skip_dot_shape r : exists sep, is_sep sep /\ r = sep ++ skip_dot r.
Proof.
  destruct r as [|c r]; [exists []; split; [left|]; reflexivity|].
  simpl. destruct (ceqb c ".") eqn:E.
  - apply ceqb_eq in E. subst. exists ["."%char]. split; [right|]; reflexivity.
  - exists []. split; [left|]; reflexivity.
Qed.

Lemma scan_marker_some r w n rest :
  scan_marker r = Some (w, n, rest) ->
  exists sep ds, is_sep sep /\ r = sep ++ w ++ ds ++ rest /\ lower_ne w = true
    /\ ds <> [] /\ forallb is_digit ds = true /\ n = digits_val ds /\ hd_not is_digit rest.
Proof.
  unfold scan_marker. destruct (skip_dot_shape r) as (sep & Hsep & Er).
  set (s1 := skip_dot r) in *.
  destruct (take_while is_lower s1) as [|a l] eqn:T; [discriminate|].
  destruct (scan_num (drop_while is_lower s1)) as [[n' r']|] eqn:En; [|discriminate].
  intros H. injection H as <- <- <-.
  apply scan_num_some in En. destruct En as (ds & E1 & E2 & E3 & E4 & E5).
  exists sep, ds. repeat split; try assumption.
  - rewrite Er at 1. f_equal. rewrite <- (take_drop_while is_lower s1), T, E1. reflexivity.
  - unfold lower_ne. rewrite <- T. apply take_while_forall.
Qed.

Lemma scan_marker_none ms r :
  forallb lower_ne ms = true -> scan_marker r = None -> opt_group ms r = (None, r).
Proof.
  intros Hms. unfold scan_marker.
  assert (Hog : first_marker ms (skip_dot r) = None -> opt_group ms r = (None, r)).
  { intros H. unfold opt_group. change (match r with
        | [] => r | c :: r0 => if ceqb c "." then r0 else r end) with (skip_dot r).
    rewrite H. reflexivity. }
  set (s1 := skip_dot r) in *. intros H. apply Hog.
  rewrite <- (take_drop_while is_lower s1).
  apply first_marker_none; try assumption.
  - apply take_while_forall.
  - apply drop_while_hd.
  - intros Hw. destruct (take_while is_lower s1) as [|a l]; [congruence|].
    unfold scan_num in H.
    destruct (take_while is_digit (drop_while is_lower s1)) eqn:T; [|discriminate].
    destruct (drop_while is_lower s1) as [|c x]; [exact I|]. simpl in T. simpl.
    destruct (is_digit c); [discriminate|reflexivity].
Qed.

Definition isSome {A} (o : option A) : bool := match o with Some _ => true | None => false end.

(* a spec group and a model group describe the same marker and number *)
Definition grp_rel {A} (tbl : list (bytes * A)) (o : option (A * N)) (g : group) : Prop :=
  match o, g with
  | None, None => True
  | Some (a, n), Some (w, ds) => lookup w tbl = Some a /\ n = digits_val ds
  | _, _ => False
  end.

Lemma group_corr {A} (tbl : list (bytes * A)) ms r :
  forallb lower_ne ms = true ->
  (forall w, isSome (lookup w tbl) = mem w ms) ->
  exists g cons,
    opt_group ms r = (g, snd (opt_marker tbl r)) /\ grp_rel tbl (fst (opt_marker tbl r)) g
    /\ r = cons ++ snd (opt_marker tbl r) /\ no_space cons = true
    /\ (cons = [] \/ exists c x, cons = c :: x /\ (is_lower c = true \/ (c = "."%char /\ hd_not is_rel_char x /\ x <> []))).
Proof.
  intros Hms Hag. unfold opt_marker.
  destruct (scan_marker r) as [[[w n] rest]|] eqn:E.
  - destruct (scan_marker_some _ _ _ _ E) as (sep & ds & Hsep & -> & Hw & Hd1 & Hd2 & -> & Hrest).
    assert (Hml : forallb letters_ne ms = true).
    { apply (forallb_impl lower_ne); [apply lower_ne_letters|assumption]. }
    pose proof (opt_group_letters ms sep w ds rest Hml Hsep (lower_ne_letters w Hw) Hd1 Hd2 Hrest) as Hg.
    specialize (Hag w).
    destruct (lookup w tbl) as [a|] eqn:L; simpl in Hag; rewrite <- Hag in Hg.
    + exists (Some (w, ds)), (sep ++ w ++ ds). cbn [fst snd]. repeat split; try assumption.
      * rewrite <- !app_assoc. reflexivity.
      * assert (Hwl : forallb is_lower w = true) by (destruct w; [discriminate|exact Hw]).
        rewrite !no_space_app, (ns_lower w Hwl), (ns_digits ds Hd2).
        destruct Hsep as [->| ->]; reflexivity.
      * right. destruct w as [|c w]; [discriminate|]. simpl in Hw. apply andb_true_iff in Hw.
        destruct Hw as [Hc _].
        destruct Hsep as [->| ->].
        -- exists c. eexists. split; [reflexivity|]. left. assumption.
        -- exists "."%char. eexists. split; [reflexivity|]. right. repeat split; [|discriminate].
           simpl. unfold is_rel_char. rewrite (letter_not_digit c (lower_is_letter c Hc)).
           destruct (ceqb c ".") eqn:C; [apply ceqb_eq in C; subst; discriminate|reflexivity].
    + exists None, []. cbn [fst snd]. repeat split; auto.
  - exists None, []. cbn [fst snd]. repeat split; auto.
    apply scan_marker_none; assumption.
Qed.

Lemma pre_tables_agree w : isSome (lookup w pre_names) = mem w pre_markers.
Proof.
  unfold pre_names, pre_markers, mem. cbn [lookup existsb].
  destruct (beq w $"a"), (beq w $"alpha"), (beq w $"b"), (beq w $"beta"), (beq w $"rc"), (beq w $"c"); reflexivity.
Qed.
Lemma post_tables_agree w : isSome (lookup w post_names) = mem w post_markers.
Proof.
  unfold post_names, post_markers, mem. cbn [lookup existsb].
  destruct (beq w $"post"), (beq w $"rev"), (beq w $"r"); reflexivity.
Qed.
Lemma dev_tables_agree w : isSome (lookup w dev_names) = mem w dev_markers.
Proof.
  unfold dev_names, dev_markers, mem. cbn [lookup existsb].
  destruct (beq w $"dev"); reflexivity.
Qed.
Lemma pre_markers_lower : forallb lower_ne pre_markers = true.
Proof. vm_compute. reflexivity. Qed.
Lemma post_markers_lower : forallb lower_ne post_markers = true.
Proof. vm_compute. reflexivity. Qed.
Lemma dev_markers_lower : forallb lower_ne dev_markers = true.
Proof. vm_compute. reflexivity. Qed.

(* ---------- local labels ---------- *)

Definition norm_local (l : bytes) : bytes :=
  replace_c "-"%char "."%char (replace_c "_"%char "."%char l).

Lemma norm_local_cons c l :
  norm_local (c :: l) = (if is_local_sep c then "."%char else c) :: norm_local l.
Proof.
  unfold norm_local, replace_c, is_local_sep. cbn [map]. f_equal.
  destruct (ceqb "_" c) eqn:E1.
  - apply ceqb_eq in E1. subst. reflexivity.
  - destruct (ceqb "-" c) eqn:E2.
    + apply ceqb_eq in E2. subst. reflexivity.
    + assert (ceqb c "-" = false) as ->.
      { destruct (ceqb c "-") eqn:X; [apply ceqb_eq in X; subst; discriminate|reflexivity]. }
      assert (ceqb c "_" = false) as ->.
      { destruct (ceqb c "_") eqn:X; [apply ceqb_eq in X; subst; discriminate|reflexivity]. }
      cbn [orb]. destruct (ceqb c ".") eqn:E3; [apply ceqb_eq in E3; subst|]; reflexivity.
Qed.

Lemma split_c_ne sep s : split_c sep s <> [].
Proof.
  induction s as [|a s IH]; simpl; [discriminate|].
  destruct (ceqb sep a); [discriminate|]. destruct (split_c sep s); discriminate.
Qed.

Definition nonempty (p : bytes) : bool := match p with [] => false | _ => true end.

Lemma local_ok_of_segments l : forall prev,
  match split_c "."%char (norm_local l) with
  | h :: t => forallb is_alnum h && (prev || nonempty h) && forallb seg_ok t
  | [] => false
  end = true ->
  local_ok_aux prev l = true /\ no_space l = true.
Proof.
  induction l as [|c l IH]; intros prev H.
  - simpl in H. rewrite orb_false_r, andb_true_r in H. simpl. auto.
  - rewrite norm_local_cons in H. cbn [local_ok_aux no_space forallb].
    destruct (is_local_sep c) eqn:S.
    + cbn [split_c] in H. rewrite ceqb_refl in H. cbn [forallb andb nonempty] in H.
      rewrite orb_false_r in H. apply andb_true_iff in H. destruct H as [Hp Ht].
      assert (Hna : is_alnum c = false).
      { unfold is_local_sep in S. apply orb_true_iff in S. destruct S as [S|S];
          [apply orb_true_iff in S; destruct S as [S|S]|]; apply ceqb_eq in S; subst; reflexivity. }
      assert (Hns : is_space c = false).
      { unfold is_local_sep in S. apply orb_true_iff in S. destruct S as [S|S];
          [apply orb_true_iff in S; destruct S as [S|S]|]; apply ceqb_eq in S; subst; reflexivity. }
      rewrite Hna, Hp, Hns. cbn [andb negb].
      apply (IH false).
      pose proof (split_c_ne "."%char (norm_local l)) as Hne.
      destruct (split_c "." (norm_local l)) as [|h t]; [congruence|].
      cbn [forallb] in Ht. apply andb_true_iff in Ht. destruct Ht as [Hh Ht].
      unfold seg_ok in Hh. destruct h as [|x h]; [discriminate|].
      rewrite Hh, Ht. reflexivity.
    + cbn [split_c] in H.
      assert (Hc : ceqb "." c = false).
      { destruct (ceqb "." c) eqn:X; [|reflexivity]. apply ceqb_eq in X. subst. discriminate. }
      rewrite Hc in H.
      destruct (split_c "." (norm_local l)) as [|h t] eqn:Es.
      * exfalso. apply (split_c_ne _ _ Es).
      * cbn [forallb] in H. apply andb_true_iff in H. destruct H as [H Ht].
        apply andb_true_iff in H. destruct H as [Ha _].
        apply andb_true_iff in Ha. destruct Ha as [Ha Hh].
        rewrite Ha, (alnum_not_space c Ha). cbn [negb andb].
        apply (IH true). rewrite Hh, Ht. reflexivity.
Qed.

Lemma parse_local_ok l segs :
  parse_local l = Some segs -> local_ok l = true /\ no_space l = true.
Proof.
  unfold parse_local, local_segments. fold (norm_local l).
  destruct (forallb seg_ok (split_c "." (norm_local l))) eqn:E; [|discriminate]. intros _.
  apply (local_ok_of_segments l false).
  pose proof (split_c_ne "."%char (norm_local l)) as Hne.
  destruct (split_c "." (norm_local l)) as [|h t]; [congruence|].
  cbn [forallb] in E. apply andb_true_iff in E. destruct E as [Hh Ht].
  unfold seg_ok in Hh. destruct h as [|x h]; [discriminate|]. rewrite Hh, Ht. reflexivity.
Qed.

(* ---------- scope ---------- *)

Definition small (n : N) : bool := n <? two63.
Definition opt_small (o : option N) : bool := match o with Some n => small n | None => true end.

(* every number of the version is below 2^63 (Go's int) *)
Definition ast_small (x : ast) : bool :=
  small (epoch x) && forallb small (release x)
  && opt_small (option_map snd (pre x)) && opt_small (post x) && opt_small (dev x).

Definition no_local (x : ast) : bool := match local x with [] => true | _ => false end.

(* numbers below 2^63 (only claimed about reference-valid texts) *)
Definition nums_in_scope (s : bytes) : bool :=
  match Pep440.parse s with Some x => ast_small x | None => true end.

(* ... and no local version label *)
Definition in_scope (s : bytes) : bool :=
  match Pep440.parse s with Some x => ast_small x && no_local x | None => true end.

(* ---------- the parsers agree ---------- *)

Definition pre_corr (o : option (kind * N)) (p : option (bytes * Z)) : Prop :=
  match o, p with
  | None, None => True
  | Some (k, n), Some (w, z) => lookup w pre_names = Some k /\ z = Z.of_N n
  | _, _ => False
  end.

Definition corr (x : ast) (c : core) : Prop :=
  c_epoch c = Z.of_N (epoch x) /\ c_release c = map Z.of_N (release x)
  /\ pre_corr (pre x) (c_pre c)
  /\ c_post c = option_map Z.of_N (post x) /\ c_dev c = option_map Z.of_N (dev x).

Lemma epoch_corr s n0 r0 :
  scan_num s = Some (n0, r0) ->
  forall ep s1,
  match r0 with
  | c :: r => if ceqb c "!"%char then (n0, r) else (0, s)
  | [] => (0, s)
  end = (ep, s1) ->
  exists epo pfx, scan_epoch s = (epo, s1) /\ s = pfx ++ s1 /\ no_space pfx = true
    /\ match epo with Some d => digits_val d = ep | None => ep = 0 end.
Proof.
  unfold scan_num, scan_epoch.
  destruct (take_while is_digit s) as [|a l] eqn:T; [discriminate|].
  intros H. injection H as <- <-. intros ep s1.
  destruct (drop_while is_digit s) as [|c r] eqn:D.
  - intros E. injection E as <- <-. exists None, []. auto.
  - destruct (ceqb c "!") eqn:C.
    + intros E. injection E as <- <-. apply ceqb_eq in C. subst c.
      exists (Some (a :: l)), ((a :: l) ++ ["!"%char]). repeat split.
      * rewrite <- app_assoc. change (["!"%char] ++ r) with ("!"%char :: r).
        rewrite <- T, <- D. symmetry. apply take_drop_while.
      * rewrite no_space_app. rewrite <- T, (ns_digits _ (take_while_forall is_digit s)). reflexivity.
    + intros E. injection E as <- <-. exists None, []. auto.
Qed.

Lemma opt_marker_dotdot {A} (tbl : list (bytes * A)) r :
  opt_marker tbl ("."%char :: "."%char :: r) = (None, "."%char :: "."%char :: r).
Proof. reflexivity. Qed.

Lemma grp_num_ok {A} (tbl : list (bytes * A)) o g :
  grp_rel tbl o g -> opt_small (option_map snd o) = true -> opt_num_ok g = true.
Proof.
  destruct o as [[a n]|]; destruct g as [[w ds]|]; simpl; try tauto.
  intros [_ ->] H. exact H.
Qed.

Lemma grp_num {A} (tbl : list (bytes * A)) o g :
  grp_rel tbl o g -> group_num g = option_map Z.of_N (option_map snd o).
Proof.
  destruct o as [[a n]|]; destruct g as [[w ds]|]; simpl; try tauto.
  intros [_ ->]. reflexivity.
Qed.

Lemma forallb_map {A B} (f : A -> B) p l : forallb p (map f l) = forallb (fun x => p (f x)) l.
Proof. induction l as [|x l IH]; simpl; [reflexivity|]. rewrite IH. reflexivity. Qed.

Theorem parse_corr s x :
  Pep440.parse s = Some x -> ast_small x = true ->
  no_space s = true /\ exists c, parse_core s = Some c /\ corr x c.
Proof.
  intros H Hsm. unfold Pep440.parse in H.
  destruct (scan_num s) as [[n0 r0]|] eqn:E0; [|discriminate].
  pose proof (epoch_corr s n0 r0 E0) as Hep.
  destruct (match r0 with
            | [] => (0, s)
            | c :: r => if ceqb c "!" then (n0, r) else (0, s)
            end) as [ep s1].
  destruct (Hep ep s1 eq_refl) as (epo & pfx & Hse & Hs & Hpfx & Hepv). clear Hep.
  destruct (Pep440.scan_release (S (length s1)) s1) as [[rel r1]|] eqn:ER; [|discriminate].
  destruct (spec_release_shape _ _ _ _ ER) as (parts & Hparts & Hrel & Hs1 & Hr1d & Hr1n).
  (* what follows the release *)
  assert (Hr1 : r1_ok r1).
  { destruct r1 as [|c1 r1']; [left; exact I|].
    simpl in Hr1d.
    destruct (ceqb c1 ".") eqn:C1.
    - apply ceqb_eq in C1. subst c1. right. exists r1'. split; [reflexivity|].
      destruct r1' as [|c2 r1'']; [exact I|].
      simpl in Hr1n. simpl. unfold is_rel_char. rewrite Hr1n. simpl.
      destruct (ceqb c2 ".") eqn:C2; [|reflexivity].
      apply ceqb_eq in C2. subst c2. exfalso.
      rewrite !opt_marker_dotdot in H. cbv beta iota in H. simpl in H. discriminate.
    - left. simpl. unfold is_rel_char. rewrite Hr1d, C1. reflexivity. }
  destruct (group_corr pre_names pre_markers r1 pre_markers_lower pre_tables_agree)
    as (g1 & k1 & G1 & R1 & C1 & N1 & _).
  destruct (opt_marker pre_names r1) as [pr r2]. cbn [fst snd] in *.
  destruct (group_corr post_names post_markers r2 post_markers_lower post_tables_agree)
    as (g2 & k2 & G2 & R2 & C2 & N2 & _).
  destruct (opt_marker post_names r2) as [po r3]. cbn [fst snd] in *.
  destruct (group_corr dev_names dev_markers r3 dev_markers_lower dev_tables_agree)
    as (g3 & k3 & G3 & R3 & C3 & N3 & _).
  destruct (opt_marker dev_names r3) as [dv r4]. cbn [fst snd] in *.
  (* the model up to the local label *)
  assert (Hmodel : parse_core s =
     match (match r4 with
            | [] => Some (g1, g2, g3, [])
            | c :: l => if ceqb c "+"%char && local_ok l then Some (g1, g2, g3, l) else None
            end) with
     | None => None
     | Some (pre, post, dev, l) =>
         if forallb nonempty_digits parts
            && match epo with Some d => num_ok d | None => true end
            && forallb num_ok parts
            && opt_num_ok pre && opt_num_ok post && opt_num_ok dev
         then Some {| c_epoch := match epo with Some d => num d | None => 0%Z end;
                      c_release := map num parts;
                      c_pre := match pre with Some (m, d) => Some (m, num d) | None => None end;
                      c_post := group_num post; c_dev := group_num dev; c_local := l |}
         else None
     end).
  { unfold parse_core. rewrite Hse, Hs1, (m_scan_release_jd parts r1 Hparts Hr1).
    unfold parse_tail. rewrite (split_jd parts Hparts). unfold scan_suffix.
    rewrite G1, G2, G3. reflexivity. }
  assert (Hsmall : forall l, ast_small (mk_ast ep rel pr (option_map snd po) (option_map snd dv) l) = true ->
     forallb nonempty_digits parts
            && match epo with Some d => num_ok d | None => true end
            && forallb num_ok parts
            && opt_num_ok g1 && opt_num_ok g2 && opt_num_ok g3 = true).
  { intros l Hl. unfold ast_small in Hl. cbn [epoch release pre post dev] in Hl.
    destruct (andb_prop _ _ Hl) as [Hl1 Hdv]. destruct (andb_prop _ _ Hl1) as [Hl2 Hpo].
    destruct (andb_prop _ _ Hl2) as [Hl3 Hpr]. destruct (andb_prop _ _ Hl3) as [Hepo Hrl].
    rewrite (proj2 Hparts).
    rewrite (grp_num_ok _ _ _ R1 Hpr), (grp_num_ok _ _ _ R2 Hpo), (grp_num_ok _ _ _ R3 Hdv).
    assert (forallb num_ok parts = true) as ->.
    { rewrite <- Hrel, forallb_map in Hrl. exact Hrl. }
    destruct epo as [d|]; [unfold num_ok; rewrite Hepv; unfold small in Hepo; rewrite Hepo|]; reflexivity. }
  assert (Hcorr : forall l l', corr (mk_ast ep rel pr (option_map snd po) (option_map snd dv) l)
     {| c_epoch := match epo with Some d => num d | None => 0%Z end;
        c_release := map num parts;
        c_pre := match g1 with Some (m, d) => Some (m, num d) | None => None end;
        c_post := group_num g2; c_dev := group_num g3; c_local := l' |}).
  { intros l l'. unfold corr. cbn [epoch release pre post dev c_epoch c_release c_pre c_post c_dev].
    repeat split.
    - destruct epo as [d|]; [unfold num; rewrite Hepv; reflexivity|subst ep; reflexivity].
    - rewrite <- Hrel, map_map. reflexivity.
    - destruct pr as [[k n]|]; destruct g1 as [[w ds]|]; simpl in *; try tauto.
      destruct R1 as [R11 ->]. auto.
    - apply (grp_num _ _ _ R2).
    - apply (grp_num _ _ _ R3). }
  assert (Hns : forall t, r4 = t -> no_space t = true -> no_space s = true).
  { intros t <- Ht. rewrite Hs, Hs1, C1, C2, C3.
    rewrite !no_space_app, Hpfx, N1, N2, N3, Ht.
    rewrite (ns_rel _ (jd_rel parts (proj2 Hparts))). reflexivity. }
  destruct r4 as [|c l].
  - injection H as <-. split; [apply (Hns []); reflexivity|].
    rewrite Hmodel, (Hsmall _ Hsm). eexists. split; [reflexivity|apply Hcorr].
  - destruct (ceqb c "+") eqn:Cp; [|discriminate].
    destruct (parse_local l) as [segs|] eqn:PL; [|discriminate].
    injection H as <-. destruct (parse_local_ok l segs PL) as [Hlok Hlns].
    apply ceqb_eq in Cp. subst c. split.
    + apply (Hns ("+"%char :: l)); [reflexivity|]. cbn [no_space forallb]. exact Hlns.
    + rewrite Hmodel. rewrite Hlok. cbn [andb]. rewrite (Hsmall _ Hsm).
      eexists. split; [reflexivity|apply Hcorr].
Qed.

(* ---------- the comparisons agree ---------- *)

(* the reference order with the local labels of both sides erased *)
Definition erase_local (x : ast) : ast :=
  mk_ast (epoch x) (release x) (pre x) (post x) (dev x) [].

(* The numbers returned by normalizePrereleaseType are only compared with each other
   (comparePrereleases: a < b < rc), so the correspondence with the reference is stated on their
   ORDER: every spelling of a kind gets the rank of the kind, and the ranks of the three kinds are
   ordered as the reference's kind_rank.  Nothing depends on the literal values (1, 2, 3) nor on
   the default (no marker accepted by the pattern reaches it). *)
Definition kind_type (k : kind) : Z :=
  pre_type (match k with Ka => $"a" | Kb => $"b" | Krc => $"rc" end).

Lemma kind_type_order k k' :
  Z.compare (kind_type k) (kind_type k') = N.compare (kind_rank k) (kind_rank k').
Proof. destruct k; destruct k'; vm_compute; reflexivity. Qed.

Lemma pre_type_rank w k : lookup w pre_names = Some k -> pre_type w = kind_type k.
Proof.
  unfold pre_names. cbn [lookup].
  repeat match goal with |- context [beq w ?m] =>
    let E := fresh in destruct (beq w m) eqn:E;
      [apply beq_eq in E; subst w; intros X; injection X as <-; reflexivity|] end.
  discriminate.
Qed.

Lemma opt_first_of_N a b :
  opt_first Z.compare (option_map Z.of_N a) (option_map Z.of_N b) = opt_first N.compare a b.
Proof. destruct a; destruct b; simpl; try reflexivity. apply N2Z.inj_compare. Qed.
Lemma opt_last_of_N a b :
  opt_last Z.compare (option_map Z.of_N a) (option_map Z.of_N b) = opt_last N.compare a b.
Proof. destruct a; destruct b; simpl; try reflexivity. apply N2Z.inj_compare. Qed.

Lemma pre_pair_cmp w k n w' k' n' :
  lookup w pre_names = Some k -> lookup w' pre_names = Some k' ->
  lex2 (cmp_on pre_type Z.compare) Z.compare (w, Z.of_N n) (w', Z.of_N n') =
  lex2 N.compare N.compare (kind_rank k, n) (kind_rank k', n').
Proof.
  intros L L'. unfold lex2, cmp_on. cbn [fst snd].
  rewrite (pre_type_rank w k L), (pre_type_rank w' k' L'), kind_type_order, !N2Z.inj_compare.
  reflexivity.
Qed.

(* dev-only flag + pre-release comparison of the model = the reference's pre key *)
Lemma pre_key_agree x c y c' :
  corr x c -> corr y c' ->
  thenc (bool_cmp (not_dev_only c) (not_dev_only c')) (pre_cmp (c_pre c) (c_pre c')) =
  pre_key_cmp (pre_key (erase_local x)) (pre_key (erase_local y)).
Proof.
  intros (_ & _ & P1 & Q1 & D1) (_ & _ & P2 & Q2 & D2).
  unfold not_dev_only, dev_only, pre_key, erase_local. cbn [Pep440.pre Pep440.post Pep440.dev].
  rewrite Q1, D1, Q2, D2.
  destruct (Pep440.pre x) as [[k n]|]; destruct (c_pre c) as [[w z]|]; simpl in P1; try contradiction;
  destruct (Pep440.pre y) as [[k' n']|]; destruct (c_pre c') as [[w' z']|]; simpl in P2; try contradiction;
  try (destruct P1 as [L1 ->]); try (destruct P2 as [L2 ->]);
  destruct (Pep440.post x); destruct (Pep440.dev x); destruct (Pep440.post y); destruct (Pep440.dev y);
  cbn; try reflexivity; apply pre_pair_cmp; assumption.
Qed.

Lemma thenc_assoc a b c : thenc (thenc a b) c = thenc a (thenc b c).
Proof. destruct a; reflexivity. Qed.

Theorem cmp_core_is_pep440 x c y c' :
  corr x c -> corr y c' ->
  cmp_core c c' = pep440_cmp (erase_local x) (erase_local y).
Proof.
  intros Hx Hy. pose proof (pre_key_agree x c y c' Hx Hy) as Hk.
  destruct Hx as (E1 & R1 & _ & Q1 & D1). destruct Hy as (E2 & R2 & _ & Q2 & D2).
  unfold cmp_core, pep440_cmp, lexc, cmp_on.
  rewrite <- Hk, E1, E2, R1, R2, Q1, Q2, D1, D2.
  rewrite N2Z.inj_compare, lex_pad_of_N, opt_first_of_N, opt_last_of_N.
  unfold erase_local. cbn [epoch release Pep440.post Pep440.dev Pep440.local lex_short].
  rewrite thenc_Eq_r, thenc_assoc. reflexivity.
Qed.

Lemma erase_no_local x : no_local x = true -> erase_local x = x.
Proof. destruct x as [e r p po d l]. unfold no_local, erase_local. simpl. destruct l; [reflexivity|discriminate]. Qed.

(* ---------- string level ---------- *)

Lemma vparse_of s x :
  Pep440.parse s = Some x -> ast_small x = true ->
  exists c, VLayer.parse parse_core raw_orig s = Some {| v_core := c; v_orig := s |} /\ corr x c.
Proof.
  intros H Hs. destruct (parse_corr s x H Hs) as (Hns & c & Hc & Hcorr).
  exists c. split; [|assumption]. unfold VLayer.parse.
  rewrite (trim_space_no_space s Hns), Hc. reflexivity.
Qed.

(* Compare = the reference order after erasing the local labels, whatever the labels are *)
Theorem pypi_cmp_erases_local a b x y :
  Pep440.parse a = Some x -> Pep440.parse b = Some y ->
  ast_small x = true -> ast_small y = true ->
  v_cmp Entry.v a b = Some (pep440_cmp (erase_local x) (erase_local y)).
Proof.
  intros Ha Hb Sa Sb.
  destruct (vparse_of a x Ha Sa) as (c & Pa & Ca). destruct (vparse_of b y Hb Sb) as (c' & Pb & Cb).
  unfold Entry.v, mk_vops, v_cmp. rewrite Pa, Pb. unfold VLayer.cmp. cbn [v_core].
  rewrite (cmp_core_is_pep440 x c y c' Ca Cb). reflexivity.
Qed.

(* C09 *)
Theorem pypi_cmp_is_spec a b :
  in_scope a = true -> in_scope b = true ->
  Pep440.spec_valid a = true -> Pep440.spec_valid b = true ->
  v_cmp Entry.v a b = Pep440.spec_cmp a b.
Proof.
  unfold in_scope, spec_valid, spec_cmp.
  destruct (Pep440.parse a) as [x|] eqn:Ha; [|discriminate].
  destruct (Pep440.parse b) as [y|] eqn:Hb; [|discriminate].
  intros Sa Sb _ _. apply andb_true_iff in Sa, Sb. destruct Sa as [Sa La]. destruct Sb as [Sb Lb].
  rewrite (pypi_cmp_erases_local a b x y Ha Hb Sa Sb).
  rewrite (erase_no_local x La), (erase_no_local y Lb). reflexivity.
Qed.

(* every reference-valid text with numbers below 2^63 is accepted (local label or not), and
   String() returns it *)
Theorem pypi_accepts_spec_valid_nums s :
  nums_in_scope s = true -> Pep440.spec_valid s = true -> v_show Entry.v s = Some s.
Proof.
  unfold nums_in_scope, spec_valid.
  destruct (Pep440.parse s) as [x|] eqn:Hs; [|discriminate]. intros Sx _.
  destruct (vparse_of s x Hs Sx) as (c & P & _).
  unfold Entry.v, mk_vops, v_show. rewrite P. reflexivity.
Qed.

Theorem pypi_accepts_spec_valid s :
  in_scope s = true -> Pep440.spec_valid s = true -> exists t, v_show Entry.v s = Some t.
Proof.
  intros Hi Hv. exists s. apply pypi_accepts_spec_valid_nums; [|assumption].
  unfold in_scope, nums_in_scope in *. destruct (Pep440.parse s); [|reflexivity].
  apply andb_true_iff in Hi. tauto.
Qed.

(* ---------- the excluded classes are really excluded ---------- *)

(* local labels: the reference orders 1.0 < 1.0+abc, Compare says equal *)
Theorem pypi_local_refuted :
  Pep440.spec_valid $"1.0+abc" = true /\ Pep440.spec_valid $"1.0" = true /\
  v_cmp Entry.v $"1.0+abc" $"1.0" = Some Eq /\ Pep440.spec_cmp $"1.0+abc" $"1.0" = Some Gt.
Proof. vm_compute. repeat split; reflexivity. Qed.

(* two different labels: reference Lt, Compare equal *)
Example pypi_local_refuted_2 :
  v_cmp Entry.v $"1.0+abc" $"1.0+abd" = Some Eq /\ Pep440.spec_cmp $"1.0+abc" $"1.0+abd" = Some Lt.
Proof. vm_compute. split; reflexivity. Qed.

(* in general: with a label on either side the two agree iff the reference does not need the
   labels to decide, i.e. iff erasing them does not change the reference's answer *)
Corollary pypi_local_class a b x y :
  Pep440.parse a = Some x -> Pep440.parse b = Some y ->
  ast_small x = true -> ast_small y = true ->
  (v_cmp Entry.v a b = Pep440.spec_cmp a b <->
   pep440_cmp (erase_local x) (erase_local y) = pep440_cmp x y).
Proof.
  intros Ha Hb Sa Sb. rewrite (pypi_cmp_erases_local a b x y Ha Hb Sa Sb).
  unfold spec_cmp. rewrite Ha, Hb. split; [intros H; injection H as H; exact H|intros ->; reflexivity].
Qed.

(* numbers from 2^63 on: reference-valid, rejected by the implementation (strconv.Atoi) *)
Theorem pypi_big_number_refuted :
  Pep440.spec_valid $"9223372036854775808" = true /\ v_show Entry.v $"9223372036854775808" = None.
Proof. vm_compute. split; reflexivity. Qed.

Print Assumptions parse_corr.
Print Assumptions cmp_core_is_pep440.
Print Assumptions pypi_cmp_erases_local.
Print Assumptions pypi_cmp_is_spec.
Print Assumptions pypi_accepts_spec_valid_nums.
Print Assumptions pypi_accepts_spec_valid.
Print Assumptions pypi_local_refuted.
Print Assumptions pypi_local_class.
Print Assumptions pypi_big_number_refuted.
