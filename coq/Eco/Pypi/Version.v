(* Eco/Pypi/Version.v — model of pkg/ecosystem/pypi/version.go (definitions only). *)
From Verif.Base Require Import Bytes GoNum.
From Verif.Gen Require Tables.
From Verif.Eco Require Import VLayer.
Local Open Scope N_scope.

(* Version struct: epoch, release, prerelease+preNumber, postrelease (-1 = none),
   dev (-1 = none), local.  The sentinels are modelled by [option]. *)
Record core := {
  c_epoch : Z;
  c_release : list Z;
  c_pre : option (bytes * Z);
  c_post : option Z;
  c_dev : option Z;
  c_local : bytes
}.

(* the alternations of versionPattern, in source order *)
Definition pre_markers : list bytes := [$"a"; $"b"; $"rc"; $"alpha"; $"beta"; $"c"].
Definition post_markers : list bytes := [$"post"; $"rev"; $"r"].
Definition dev_markers : list bytes := [$"dev"].

(* (m1|m2|...)([0-9]+) at the head of [s]: the first alternative that is directly followed
   by a digit; the digit run is maximal because nothing that may follow starts with a digit *)
Fixpoint first_marker (ms : list bytes) (s : bytes) : option (bytes * bytes * bytes) :=
  match ms with
  | [] => None
  | m :: r =>
      if has_prefix m s
      then let rest := skipn (length m) s in
           match take_while is_digit rest with
           | [] => first_marker r s
           | ds => Some (m, ds, drop_while is_digit rest)
           end
      else first_marker r s
  end.

(* (?:\.?(markers)([0-9]+))? *)
Definition opt_group (ms : list bytes) (s : bytes) : option (bytes * bytes) * bytes :=
  let s' := match s with
            | c :: r => if ceqb c "."%char then r else s
            | [] => s
            end in
  match first_marker ms s' with
  | Some (m, ds, rest) => (Some (m, ds), rest)
  | None => (None, s)
  end.

(* [a-zA-Z0-9]+(?:[-_.][a-zA-Z0-9]+)* up to the end of the text *)
Definition is_local_sep (c : ascii) : bool :=
  ceqb c "-"%char || ceqb c "_"%char || ceqb c "."%char.
Fixpoint local_ok_aux (prev_alnum : bool) (s : bytes) : bool :=
  match s with
  | [] => prev_alnum
  | c :: r =>
      if is_alnum c then local_ok_aux true r
      else if is_local_sep c then prev_alnum && local_ok_aux false r
      else false
  end.
Definition local_ok (s : bytes) : bool := local_ok_aux false s.

(* (?:([0-9]+)!)? *)
Definition scan_epoch (t : bytes) : option bytes * bytes :=
  match take_while is_digit t, drop_while is_digit t with
  | (_ :: _) as d, c :: r => if ceqb c "!"%char then (Some d, r) else (None, t)
  | _, _ => (None, t)
  end.

(* ([0-9]+(?:\.[0-9]+)*?) : a dot followed by a digit can only continue the release, so the
   release is the maximal run of digits and dots, less one trailing dot (which is then left
   for the \.? of the next group) *)
Definition is_rel_char (c : ascii) : bool := is_digit c || ceqb c "."%char.
Definition scan_release (s : bytes) : bytes * bytes :=
  let run := take_while is_rel_char s in
  let rest := drop_while is_rel_char s in
  match rev run with
  | c :: r => if ceqb c "."%char then (rev r, c :: rest) else (run, rest)
  | [] => (run, rest)
  end.

(* strconv.Atoi on a digit string: only the int64 range can fail *)
Definition num_ok (d : bytes) : bool := digits_val d <? two63.
Definition num (d : bytes) : Z := Z.of_N (digits_val d).
Definition opt_num_ok (o : option (bytes * bytes)) : bool :=
  match o with Some (_, d) => num_ok d | None => true end.

Definition group := option (bytes * bytes).   (* marker, digits *)

(* everything after the release: the three optional groups, then +local or the end *)
Definition scan_suffix (s2 : bytes) : option (group * group * group * bytes) :=
  let '(pre, s3) := opt_group pre_markers s2 in
  let '(post, s4) := opt_group post_markers s3 in
  let '(dev, s5) := opt_group dev_markers s4 in
  match s5 with
  | [] => Some (pre, post, dev, [])
  | c :: l => if ceqb c "+"%char && local_ok l then Some (pre, post, dev, l) else None
  end.

Definition group_num (g : group) : option Z :=
  match g with Some (_, d) => Some (num d) | None => None end.

(* the strconv.Atoi calls on the captured groups *)
Definition parse_tail (ep : option bytes) (rel : bytes) (s2 : bytes) : option core :=
  let parts := split_c "."%char rel in
  match scan_suffix s2 with
  | None => None
  | Some (pre, post, dev, l) =>
      if forallb nonempty_digits parts
         && match ep with Some d => num_ok d | None => true end
         && forallb num_ok parts
         && opt_num_ok pre && opt_num_ok post && opt_num_ok dev
      then Some {|
        c_epoch := match ep with Some d => num d | None => 0%Z end;
        c_release := map num parts;
        c_pre := match pre with Some (m, d) => Some (m, num d) | None => None end;
        c_post := group_num post;
        c_dev := group_num dev;
        c_local := l |}
      else None
  end.

Definition parse_core (t : bytes) : option core :=
  let '(ep, s1) := scan_epoch t in
  let '(rel, s2) := scan_release s1 in
  parse_tail ep rel s2.

(* normalizePrereleaseType: the switch on strings.ToLower(preType) *)
(* generated from the Go source on every run (tools/gen -> Gen/Tables.v) *)
Definition normalizePrereleaseType_table : list (bytes * Z) :=
  Eval cbv delta [Verif.Gen.Tables.pypi_normalizePrereleaseType] in Verif.Gen.Tables.pypi_normalizePrereleaseType.
(* the switch's default branch, also generated *)
Definition pre_type_default : Z :=
  Eval cbv delta [Verif.Gen.Tables.pypi_normalizePrereleaseType_default] in Verif.Gen.Tables.pypi_normalizePrereleaseType_default.
Definition pre_type (m : bytes) : Z :=
  match lookup (to_lower m) normalizePrereleaseType_table with
  | Some k => k
  | None => pre_type_default
  end.

(* vDevOnly := prerelease == "" && postrelease == -1 && dev != -1 ; a dev-only version sorts first *)
Definition dev_only (c : core) : bool :=
  match c_pre c, c_post c, c_dev c with
  | None, None, Some _ => true
  | _, _, _ => false
  end.
Definition not_dev_only (c : core) : bool := negb (dev_only c).

(* comparePrereleases: none is greatest; type, then number *)
Definition pre_cmp : option (bytes * Z) -> option (bytes * Z) -> comparison :=
  opt_last (lex2 (cmp_on pre_type Z.compare) Z.compare).

(* Compare: epoch; release padded with zeros; dev-only first; pre-release (none greatest);
   post-release (none smallest); dev (none greatest).  The local label is not looked at. *)
Definition cmp_core : core -> core -> comparison :=
  lexc (cmp_on c_epoch Z.compare)
  (lexc (cmp_on c_release (lex_pad 0%Z Z.compare))
  (lexc (cmp_on not_dev_only bool_cmp)
  (lexc (cmp_on c_pre pre_cmp)
  (lexc (cmp_on c_post (opt_first Z.compare))
        (cmp_on c_dev (opt_last Z.compare)))))).

Definition raw_orig := false.

Definition ver := VLayer.ver core.
Definition parse : bytes -> option ver := VLayer.parse parse_core raw_orig.
Definition cmp : ver -> ver -> comparison := VLayer.cmp cmp_core.
Definition show : ver -> bytes := VLayer.show.
