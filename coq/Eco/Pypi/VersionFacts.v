(* Eco/Pypi/VersionFacts.v — C01 (Compare is a total preorder) and C03 (numeric tuples,
   pre-/post-/dev markers) for the pypi model. *)
From Coq Require Import Lia ZifyBool.
From Verif.Base Require Import Bytes BytesFacts GoNum Ord.
From Verif.Eco.Pypi Require Import DecFacts.
From Verif.Eco Require Import VLayer VLayerFacts RangeCoreFacts.
From Verif.Eco.Pypi Require Import Version.
Local Open Scope N_scope.

(* ---------- C01 ---------- *)

Lemma pre_cmp_tp : TotalPreorder pre_cmp.
Proof. apply TP_opt_last, TP_lex2; [apply TP_on|]; apply TP_Z. Qed.

Lemma cmp_core_tp : TotalPreorder cmp_core.
Proof.
  unfold cmp_core.
  repeat apply TP_lexc; apply TP_on.
  - apply TP_Z.
  - apply TP_lex_pad, TP_Z.
  - apply TP_bool.
  - apply pre_cmp_tp.
  - apply TP_opt_first, TP_Z.
  - apply TP_opt_last, TP_Z.
Qed.

Lemma cmp_tp : TotalPreorder cmp.
Proof. apply VLayerFacts.cmp_tp, cmp_core_tp. Qed.

(* ---------- scanners on texts of a known shape ---------- *)

(* "the next byte, if any, does not satisfy p" *)
Definition hd_not (p : ascii -> bool) (s : bytes) : Prop :=
  match s with [] => True | c :: _ => p c = false end.

Lemma take_while_hd_not p s : hd_not p s -> take_while p s = [].
Proof. destruct s as [|c s]; simpl; [reflexivity|]. intros ->. reflexivity. Qed.
Lemma drop_while_hd_not p s : hd_not p s -> drop_while p s = s.
Proof. destruct s as [|c s]; simpl; [reflexivity|]. intros ->. reflexivity. Qed.

Lemma take_digits D rest :
  forallb is_digit D = true -> hd_not is_digit rest -> take_while is_digit (D ++ rest) = D.
Proof.
  intros HD Hr. rewrite take_while_app_all by assumption.
  rewrite take_while_hd_not by assumption. apply app_nil_r.
Qed.
Lemma drop_digits D rest :
  forallb is_digit D = true -> hd_not is_digit rest -> drop_while is_digit (D ++ rest) = rest.
Proof.
  intros HD Hr. rewrite drop_while_app_all by assumption. apply drop_while_hd_not. assumption.
Qed.

Lemma letter_not_digit c : is_letter c = true -> is_digit c = false.
Proof.
  unfold is_letter, is_lower, is_upper, is_digit, in_range.
  generalize (code c). intros n. lia.
Qed.

Lemma letter_neq_digit x d : is_letter x = true -> is_digit d = true -> ceqb x d = false.
Proof.
  intros Hx Hd. destruct (ceqb x d) eqn:E; [|reflexivity].
  apply ceqb_eq in E. subst. rewrite (letter_not_digit _ Hx) in Hd. discriminate.
Qed.

(* a letters-only marker is a prefix of m ++ (digit ...) only if it is a prefix of m *)
Lemma has_prefix_letters m' m X :
  forallb is_letter m' = true ->
  match X with [] => True | d :: _ => is_digit d = true end ->
  has_prefix m' (m ++ X) = has_prefix m' m.
Proof.
  revert m. induction m' as [|x m' IH]; intros m Hm' HX; [reflexivity|].
  simpl in Hm'. apply andb_true_iff in Hm'. destruct Hm' as [Hx Hm'].
  destruct m as [|y m]; simpl.
  - destruct X as [|d X]; [reflexivity|]. rewrite (letter_neq_digit x d Hx HX). reflexivity.
  - rewrite IH by assumption. reflexivity.
Qed.

Definition letters_ne (m : bytes) : bool :=
  match m with [] => false | _ => forallb is_letter m end.

(* (m1|m2|...)([0-9]+) on  m D rest  with m letters, D digits: hit iff m is one of the
   alternatives *)
Lemma first_marker_letters ms m D rest :
  forallb letters_ne ms = true ->
  forallb is_letter m = true ->
  D <> [] -> forallb is_digit D = true -> hd_not is_digit rest ->
  first_marker ms (m ++ D ++ rest) = if mem m ms then Some (m, D, rest) else None.
Proof.
  intros Hms Hm HD HDd Hr.
  assert (HX : match D ++ rest with [] => True | d :: _ => is_digit d = true end).
  { destruct D as [|d D]; [congruence|]. simpl in *. apply andb_true_iff in HDd. tauto. }
  remember (D ++ rest) as X eqn:EX.
  induction ms as [|m' ms IH]; [reflexivity|].
  simpl in Hms. apply andb_true_iff in Hms. destruct Hms as [Hm' Hms].
  assert (Hm'l : forallb is_letter m' = true).
  { unfold letters_ne in Hm'. destruct m'; [discriminate|assumption]. }
  cbn [first_marker mem existsb].
  rewrite (has_prefix_letters m' m X Hm'l HX).
  destruct (has_prefix m' m) eqn:E.
  - apply has_prefix_spec in E. destruct E as [rem Erem].
    assert (skipn (length m') (m ++ X) = rem ++ X) as ->
      by (rewrite Erem, <- app_assoc; apply skipn_app_exact).
    destruct rem as [|c rem].
    + rewrite app_nil_r in Erem. subst m'. rewrite beq_refl. simpl app. subst X.
      rewrite take_digits, drop_digits by assumption.
      simpl. destruct D; [congruence|reflexivity].
    + assert (Hc : is_letter c = true).
      { rewrite Erem, forallb_app in Hm. apply andb_true_iff in Hm. destruct Hm as [_ Hc].
        simpl in Hc. apply andb_true_iff in Hc. tauto. }
      simpl app. cbn [take_while]. rewrite (letter_not_digit c Hc).
      assert (Hne : beq m m' = false).
      { destruct (beq m m') eqn:B; [|reflexivity].
        apply beq_eq in B. rewrite B in Erem. apply (f_equal (@length ascii)) in Erem.
        rewrite app_length in Erem. simpl in Erem. lia. }
      rewrite Hne. simpl orb. apply IH. assumption.
  - assert (Hne : beq m m' = false).
    { destruct (beq m m') eqn:B; [|reflexivity]. apply beq_eq in B. subst.
      assert (has_prefix m' m' = true) by (apply has_prefix_spec; exists []; symmetry; apply app_nil_r).
      congruence. }
    rewrite Hne. simpl orb. apply IH. assumption.
Qed.

Lemma pre_markers_ok : forallb letters_ne pre_markers = true.
Proof. vm_compute. reflexivity. Qed.
Lemma post_markers_ok : forallb letters_ne post_markers = true.
Proof. vm_compute. reflexivity. Qed.
Lemma dev_markers_ok : forallb letters_ne dev_markers = true.
Proof. vm_compute. reflexivity. Qed.

(* the separator the groups allow before a marker: nothing or one dot *)
Definition is_sep (sep : bytes) : Prop := sep = [] \/ sep = ["."%char].

Lemma opt_group_letters ms sep m D rest :
  forallb letters_ne ms = true -> is_sep sep ->
  letters_ne m = true ->
  D <> [] -> forallb is_digit D = true -> hd_not is_digit rest ->
  opt_group ms (sep ++ m ++ D ++ rest) =
  if mem m ms then (Some (m, D), rest) else (None, sep ++ m ++ D ++ rest).
Proof.
  intros Hms Hsep Hm HD HDd Hr.
  assert (Hml : forallb is_letter m = true) by (destruct m; [discriminate|assumption]).
  unfold opt_group. destruct Hsep as [->| ->].
  - simpl app. destruct m as [|c m]; [discriminate|].
    assert (Hc : ceqb c "."%char = false).
    { simpl in Hml. apply andb_true_iff in Hml. destruct Hml as [Hc _].
      destruct (ceqb c ".") eqn:E; [|reflexivity]. apply ceqb_eq in E. subst. discriminate. }
    change ((c :: m) ++ D ++ rest) with (c :: (m ++ D ++ rest)). cbv iota. rewrite Hc.
    change (c :: (m ++ D ++ rest)) with ((c :: m) ++ D ++ rest).
    rewrite first_marker_letters by assumption.
    destruct (mem (c :: m) ms); reflexivity.
  - change (["."%char] ++ m ++ D ++ rest) with ("."%char :: (m ++ D ++ rest)). cbv iota.
    rewrite ceqb_refl.
    rewrite first_marker_letters by assumption.
    destruct (mem m ms); reflexivity.
Qed.

Lemma opt_group_nil ms : opt_group ms [] = (None, []).
Proof. unfold opt_group. induction ms as [|m ms IH]; simpl; [reflexivity|].
  destruct m; simpl; assumption. Qed.

(* ---------- dotted numeric tuples ---------- *)

Definition dotted (t : list N) : bytes := join $"." (map dec t).

Definition nums_ok (t : list N) : Prop := t <> [] /\ Forall (fun n => n < two63) t.

Definition release_core (t : list N) : core := {|
  c_epoch := 0%Z; c_release := map Z.of_N t;
  c_pre := None; c_post := None; c_dev := None; c_local := [] |}.

Lemma digit_is_rel c : is_digit c = true -> is_rel_char c = true.
Proof. unfold is_rel_char. intros ->. reflexivity. Qed.

Lemma forallb_impl {A} (p q : A -> bool) l :
  (forall x, p x = true -> q x = true) -> forallb p l = true -> forallb q l = true.
Proof.
  intros H. induction l as [|x l IH]; simpl; [reflexivity|].
  intros E. apply andb_true_iff in E. destruct E as [E1 E2]. rewrite (H x E1), (IH E2). reflexivity.
Qed.

Lemma dotted_rel t : forallb is_rel_char (dotted t) = true.
Proof.
  unfold dotted. induction t as [|n t IH]; [reflexivity|].
  destruct t as [|n' t].
  - simpl. apply (forallb_impl is_digit); [apply digit_is_rel|apply dec_digits].
  - change (join $"." (map dec (n :: n' :: t))) with (dec n ++ "."%char :: join $"." (map dec (n' :: t))).
    rewrite forallb_app. rewrite (forallb_impl is_digit is_rel_char _ digit_is_rel (dec_digits n)).
    cbn [forallb andb]. rewrite IH. reflexivity.
Qed.

(* the last byte of a dotted tuple is a digit *)
Lemma dotted_last t : t <> [] -> exists d r, rev (dotted t) = d :: r /\ is_digit d = true.
Proof.
  unfold dotted. induction t as [|n t IH]; [congruence|]. intros _.
  destruct t as [|n' t].
  - simpl. pose proof (dec_nonempty n) as Hne. pose proof (dec_digits n) as Hd.
    rewrite <- forallb_rev in Hd.
    destruct (rev (dec n)) as [|d r] eqn:E.
    + apply (f_equal (@rev ascii)) in E. rewrite rev_involutive in E. simpl in E. congruence.
    + simpl in Hd. apply andb_true_iff in Hd. exists d, r. tauto.
  - change (join $"." (map dec (n :: n' :: t))) with (dec n ++ "."%char :: join $"." (map dec (n' :: t))).
    destruct IH as (d & r & E & Hd); [discriminate|].
    rewrite rev_app_distr. cbn [rev]. rewrite E. simpl.
    exists d. eexists. split; [reflexivity|assumption].
Qed.

Lemma dotted_first t : t <> [] -> exists d r, dotted t = d :: r /\ is_digit d = true.
Proof.
  unfold dotted. destruct t as [|n t]; [congruence|]. intros _.
  pose proof (dec_nonempty n) as Hne. pose proof (dec_digits n) as Hd.
  destruct (dec n) as [|d r] eqn:E; [congruence|].
  simpl in Hd. apply andb_true_iff in Hd.
  destruct t as [|n' t].
  - simpl. rewrite E. exists d, r. tauto.
  - change (join $"." (map dec (n :: n' :: t))) with (dec n ++ "."%char :: join $"." (map dec (n' :: t))).
    rewrite E. simpl. exists d. eexists. split; [reflexivity|tauto].
Qed.

(* no epoch: the leading digit run of a dotted tuple is not followed by '!' *)
Lemma scan_epoch_dotted t sfx :
  t <> [] -> hd_not (fun c => is_digit c || ceqb c "!"%char) sfx ->
  scan_epoch (dotted t ++ sfx) = (None, dotted t ++ sfx).
Proof.
  intros Ht Hs. unfold scan_epoch.
  destruct t as [|n t]; [congruence|].
  assert (Hsd : hd_not is_digit sfx).
  { destruct sfx; simpl in *; [trivial|]. apply orb_false_iff in Hs. tauto. }
  assert (Hsb : match sfx with [] => True | c :: _ => ceqb c "!"%char = false end).
  { destruct sfx; simpl in *; [trivial|]. apply orb_false_iff in Hs. tauto. }
  destruct t as [|n' t].
  - unfold dotted. simpl map. simpl join.
    rewrite take_digits, drop_digits by (try apply dec_digits; assumption).
    destruct (dec n); [reflexivity|]. destruct sfx as [|c sfx]; [reflexivity|]. rewrite Hsb. reflexivity.
  - unfold dotted.
    change (join $"." (map dec (n :: n' :: t))) with (dec n ++ "."%char :: join $"." (map dec (n' :: t))).
    rewrite <- app_assoc.
    rewrite take_digits, drop_digits by (try apply dec_digits; simpl; reflexivity).
    destruct (dec n); reflexivity.
Qed.

Lemma scan_release_dotted t sfx :
  t <> [] -> hd_not is_rel_char sfx ->
  scan_release (dotted t ++ sfx) = (dotted t, sfx).
Proof.
  intros Ht Hs. unfold scan_release.
  rewrite take_while_app_all, drop_while_app_all by apply dotted_rel.
  rewrite take_while_hd_not, drop_while_hd_not by assumption. rewrite app_nil_r.
  destruct (dotted_last t Ht) as (d & r & E & Hd). rewrite E.
  assert (ceqb d "."%char = false) as ->.
  { destruct (ceqb d ".") eqn:C; [|reflexivity]. apply ceqb_eq in C. subst. discriminate. }
  reflexivity.
Qed.

Lemma scan_release_dotted_dot t sfx :
  t <> [] -> hd_not is_rel_char sfx ->
  scan_release (dotted t ++ "."%char :: sfx) = (dotted t, "."%char :: sfx).
Proof.
  intros Ht Hs. unfold scan_release.
  rewrite take_while_app_all, drop_while_app_all by apply dotted_rel.
  cbn [take_while drop_while]. change (is_rel_char "."%char) with true. cbv iota.
  rewrite take_while_hd_not, drop_while_hd_not by assumption.
  rewrite rev_app_distr. cbn [rev app]. rewrite ceqb_refl.
  rewrite rev_involutive. reflexivity.
Qed.

Lemma split_dotted t : t <> [] -> split_c "."%char (dotted t) = map dec t.
Proof.
  intros Ht. unfold dotted. apply split_join.
  - destruct t; [congruence|discriminate].
  - rewrite forallb_forall. intros x Hx. apply in_map_iff in Hx. destruct Hx as (n & <- & _).
    rewrite (digits_no_c "."%char (dec n)); [reflexivity|reflexivity|apply dec_digits].
Qed.

Lemma parts_ok t :
  Forall (fun n => n < two63) t ->
  forallb nonempty_digits (map dec t) = true /\ forallb num_ok (map dec t) = true
  /\ map num (map dec t) = map Z.of_N t.
Proof.
  induction 1 as [|n t Hn _ IH]; [repeat split|].
  destruct IH as (I1 & I2 & I3). simpl.
  rewrite dec_nonempty_digits, I1, I2, I3. unfold num_ok, num. rewrite dec_val.
  apply N.ltb_lt in Hn. rewrite Hn. repeat split.
Qed.

(* what parse_core does on  <dotted tuple><suffix> , the suffix being empty, or starting with
   a byte that is neither a digit, a dot nor '!', or a dot followed by such a suffix *)
Definition sfx_ok (sfx : bytes) : Prop :=
  hd_not (fun c => is_rel_char c || ceqb c "!"%char) sfx.

Lemma sfx_ok_rel sfx : sfx_ok sfx -> hd_not is_rel_char sfx.
Proof. destruct sfx; simpl; [trivial|]. intros H. apply orb_false_iff in H. tauto. Qed.

Lemma sfx_ok_epoch sfx : sfx_ok sfx -> hd_not (fun c => is_digit c || ceqb c "!"%char) sfx.
Proof.
  destruct sfx; simpl; [trivial|]. unfold is_rel_char. intros H.
  repeat (apply orb_false_iff in H; destruct H as [H ?]). rewrite H. assumption.
Qed.

Lemma parse_core_dotted t sfx :
  nums_ok t -> sfx_ok sfx ->
  parse_core (dotted t ++ sfx) = parse_tail None (dotted t) sfx.
Proof.
  intros [Ht _] Hs. unfold parse_core.
  rewrite scan_epoch_dotted by (try assumption; apply sfx_ok_epoch; assumption).
  rewrite scan_release_dotted by (try assumption; apply sfx_ok_rel; assumption).
  reflexivity.
Qed.

Lemma parse_core_dotted_dot t sfx :
  nums_ok t -> sfx_ok sfx ->
  parse_core (dotted t ++ "."%char :: sfx) = parse_tail None (dotted t) ("."%char :: sfx).
Proof.
  intros [Ht _] Hs. unfold parse_core.
  rewrite scan_epoch_dotted by (try assumption; simpl; reflexivity).
  rewrite scan_release_dotted_dot by (try assumption; apply sfx_ok_rel; assumption).
  reflexivity.
Qed.

Lemma parse_tail_dotted t s2 pre post dev l :
  nums_ok t -> scan_suffix s2 = Some (pre, post, dev, l) ->
  opt_num_ok pre = true -> opt_num_ok post = true -> opt_num_ok dev = true ->
  parse_tail None (dotted t) s2 = Some {|
    c_epoch := 0%Z; c_release := map Z.of_N t;
    c_pre := match pre with Some (m, d) => Some (m, num d) | None => None end;
    c_post := group_num post; c_dev := group_num dev; c_local := l |}.
Proof.
  intros [Ht Hn] Hs H1 H2 H3. unfold parse_tail. rewrite Hs, (split_dotted t Ht).
  destruct (parts_ok t Hn) as (P1 & P2 & P3). rewrite P1, P2, P3, H1, H2, H3. reflexivity.
Qed.

(* C03, first half: a dotted tuple of numbers below 2^63 is accepted, whatever its arity
   (>= 1), and denotes that tuple *)
Theorem parse_core_release t : nums_ok t -> parse_core (dotted t) = Some (release_core t).
Proof.
  intros Ht. rewrite <- (app_nil_r (dotted t)).
  rewrite parse_core_dotted by (try assumption; exact I).
  apply (parse_tail_dotted t [] None None None []); auto.
Qed.

Lemma cmp0_of_N_l y : (0 ?= Z.of_N y)%Z = (0 ?= y).
Proof. apply (N2Z.inj_compare 0 y). Qed.
Lemma cmp0_of_N_r y : (Z.of_N y ?= 0)%Z = (y ?= 0).
Proof. apply (N2Z.inj_compare y 0). Qed.

Lemma lex_pad_l_of_N t : lex_pad_l 0%Z Z.compare (map Z.of_N t) = lex_pad_l 0 N.compare t.
Proof.
  induction t as [|y t IH]; cbn [map lex_pad_l]; [reflexivity|].
  rewrite IH, cmp0_of_N_l. reflexivity.
Qed.

Lemma lex_pad_of_N t1 t2 :
  lex_pad 0%Z Z.compare (map Z.of_N t1) (map Z.of_N t2) = lex_pad 0 N.compare t1 t2.
Proof.
  revert t2. induction t1 as [|x t1 IH]; intros t2.
  - cbn [map lex_pad]. apply lex_pad_l_of_N.
  - destruct t2 as [|y t2]; cbn [map lex_pad].
    + specialize (IH []). cbn [map] in IH. rewrite IH, cmp0_of_N_r. reflexivity.
    + rewrite IH, N2Z.inj_compare. reflexivity.
Qed.

Lemma lex_pad_same_length {A} (pad : A) c (l1 l2 : list A) :
  length l1 = length l2 -> lex_pad pad c l1 l2 = lex_short c l1 l2.
Proof.
  revert l2. induction l1 as [|x l1 IH]; intros [|y l2] H; simpl in *; try discriminate; auto.
  rewrite IH by congruence. reflexivity.
Qed.

Lemma thenc_Eq_r c : thenc c Eq = c.
Proof. destruct c; reflexivity. Qed.

(* C03: numeric tuples compare as integer tuples, the shorter one padded with zeros ... *)
Theorem cmp_release t1 t2 :
  cmp_core (release_core t1) (release_core t2) = lex_pad 0 N.compare t1 t2.
Proof.
  unfold cmp_core, lexc, cmp_on, release_core. simpl.
  rewrite lex_pad_of_N. apply thenc_Eq_r.
Qed.

(* ... in particular lexicographically when the arities agree *)
Corollary cmp_release_same_arity t1 t2 :
  length t1 = length t2 ->
  cmp_core (release_core t1) (release_core t2) = lex_short N.compare t1 t2.
Proof. intros H. rewrite cmp_release. apply lex_pad_same_length. assumption. Qed.

Corollary cmp_dotted t1 t2 c1 c2 :
  nums_ok t1 -> nums_ok t2 -> length t1 = length t2 ->
  parse_core (dotted t1) = Some c1 -> parse_core (dotted t2) = Some c2 ->
  cmp_core c1 c2 = lex_short N.compare t1 t2.
Proof.
  intros H1 H2 L P1 P2. rewrite parse_core_release in P1, P2 by assumption.
  injection P1 as <-. injection P2 as <-. apply cmp_release_same_arity. assumption.
Qed.

Lemma num_ok_dec n : n < two63 -> num_ok (dec n) = true.
Proof. intros H. unfold num_ok. rewrite dec_val. apply N.ltb_lt. assumption. Qed.
Lemma num_dec n : num (dec n) = Z.of_N n.
Proof. unfold num. rewrite dec_val. reflexivity. Qed.

(* ---------- an explicit epoch ---------- *)

Definition epoch_core (e : N) (t : list N) : core := {|
  c_epoch := Z.of_N e; c_release := map Z.of_N t;
  c_pre := None; c_post := None; c_dev := None; c_local := [] |}.

Lemma scan_epoch_hit e s : scan_epoch (dec e ++ "!"%char :: s) = (Some (dec e), s).
Proof.
  unfold scan_epoch.
  rewrite take_digits, drop_digits by (try apply dec_digits; reflexivity).
  pose proof (dec_nonempty e). destruct (dec e); [congruence|]. reflexivity.
Qed.

(* N!<tuple> is accepted and denotes epoch N, release <tuple> *)
Theorem parse_core_epoch e t :
  (e < two63) -> nums_ok t ->
  parse_core (dec e ++ $"!" ++ dotted t) = Some (epoch_core e t).
Proof.
  intros He [Ht Hn]. unfold parse_core.
  change (dec e ++ $"!" ++ dotted t) with (dec e ++ "!"%char :: dotted t).
  rewrite scan_epoch_hit.
  rewrite <- (app_nil_r (dotted t)) at 1. rewrite scan_release_dotted by (try assumption; exact I).
  unfold parse_tail. rewrite (split_dotted t Ht).
  destruct (parts_ok t Hn) as (P1 & P2 & P3).
  change (scan_suffix []) with (Some (@None (bytes * bytes), @None (bytes * bytes), @None (bytes * bytes), @nil ascii)).
  cbv iota beta. rewrite P1, P2, P3, (num_ok_dec e He), num_dec. reflexivity.
Qed.

(* the epoch dominates the release *)
Theorem cmp_epoch e1 t1 e2 t2 :
  e1 <> e2 -> cmp_core (epoch_core e1 t1) (epoch_core e2 t2) = (e1 ?= e2).
Proof.
  intros H. unfold cmp_core, lexc, cmp_on, epoch_core. cbn [c_epoch].
  rewrite N2Z.inj_compare. destruct (N.compare_spec e1 e2); [congruence|reflexivity|reflexivity].
Qed.

(* ---------- markers ---------- *)

(* the version  <tuple><sep><marker><number>  *)
Definition marked (t : list N) (sep m : bytes) (n : N) : bytes := dotted t ++ sep ++ m ++ dec n.

Lemma marker_sfx_ok m rest : letters_ne m = true -> sfx_ok (m ++ rest).
Proof.
  destruct m as [|c m]; [discriminate|]. simpl. intros H. apply andb_true_iff in H.
  destruct H as [H _]. unfold is_rel_char. rewrite (letter_not_digit c H). simpl.
  destruct (ceqb c ".") eqn:E1; [apply ceqb_eq in E1; subst; discriminate|].
  destruct (ceqb c "!") eqn:E2; [apply ceqb_eq in E2; subst; discriminate|]. reflexivity.
Qed.

Lemma parse_marked t sep m n :
  nums_ok t -> is_sep sep -> letters_ne m = true ->
  parse_core (marked t sep m n) = parse_tail None (dotted t) (sep ++ m ++ dec n ++ []).
Proof.
  intros Ht [->| ->] Hm; unfold marked; rewrite app_nil_r.
  - simpl app. apply parse_core_dotted; [assumption|apply marker_sfx_ok; assumption].
  - change (["."%char] ++ m ++ dec n) with ("."%char :: (m ++ dec n)).
    apply parse_core_dotted_dot; [assumption|apply marker_sfx_ok; assumption].
Qed.

Ltac group_step :=
  rewrite opt_group_letters by
    (first [apply pre_markers_ok | apply post_markers_ok | apply dev_markers_ok
           | apply dec_nonempty | apply dec_digits | assumption | exact I | reflexivity]).

Definition with_pre (t : list N) (m : bytes) (n : N) : core := {|
  c_epoch := 0%Z; c_release := map Z.of_N t;
  c_pre := Some (m, Z.of_N n); c_post := None; c_dev := None; c_local := [] |}.
Definition with_post (t : list N) (n : N) : core := {|
  c_epoch := 0%Z; c_release := map Z.of_N t;
  c_pre := None; c_post := Some (Z.of_N n); c_dev := None; c_local := [] |}.
Definition with_dev (t : list N) (n : N) : core := {|
  c_epoch := 0%Z; c_release := map Z.of_N t;
  c_pre := None; c_post := None; c_dev := Some (Z.of_N n); c_local := [] |}.

Lemma letters_of_mem m ms : forallb letters_ne ms = true -> mem m ms = true -> letters_ne m = true.
Proof.
  intros Hms Hm. unfold mem in Hm. apply existsb_exists in Hm. destruct Hm as (x & Hx & E).
  apply beq_eq in E. subst x. rewrite forallb_forall in Hms. auto.
Qed.

Theorem parse_pre t sep m n :
  nums_ok t -> is_sep sep -> mem m pre_markers = true -> n < two63 ->
  parse_core (marked t sep m n) = Some (with_pre t m n).
Proof.
  intros Ht Hsep Hm Hn.
  pose proof (letters_of_mem m _ pre_markers_ok Hm) as Hl.
  rewrite parse_marked by assumption.
  rewrite (parse_tail_dotted t _ (Some (m, dec n)) None None []); try assumption; try reflexivity.
  - unfold with_pre. rewrite num_dec. reflexivity.
  - unfold scan_suffix. group_step. rewrite Hm. rewrite !opt_group_nil. reflexivity.
  - simpl. apply num_ok_dec. assumption.
Qed.

Theorem parse_post t sep m n :
  nums_ok t -> is_sep sep -> mem m post_markers = true -> n < two63 ->
  parse_core (marked t sep m n) = Some (with_post t n).
Proof.
  intros Ht Hsep Hm Hn.
  pose proof (letters_of_mem m _ post_markers_ok Hm) as Hl.
  assert (Hpre : mem m pre_markers = false).
  { unfold mem in Hm. apply existsb_exists in Hm. destruct Hm as (x & Hx & E).
    apply beq_eq in E. subst x. simpl in Hx.
    repeat (destruct Hx as [<-|Hx]; [vm_compute; reflexivity|]). contradiction. }
  rewrite parse_marked by assumption.
  rewrite (parse_tail_dotted t _ None (Some (m, dec n)) None []); try assumption; try reflexivity.
  - unfold with_post. simpl. rewrite num_dec. reflexivity.
  - unfold scan_suffix. group_step. rewrite Hpre. group_step. rewrite Hm.
    rewrite !opt_group_nil. reflexivity.
  - simpl. apply num_ok_dec. assumption.
Qed.

Theorem parse_dev t sep n :
  nums_ok t -> is_sep sep -> n < two63 ->
  parse_core (marked t sep $"dev" n) = Some (with_dev t n).
Proof.
  intros Ht Hsep Hn.
  rewrite parse_marked by (try assumption; reflexivity).
  rewrite (parse_tail_dotted t _ None None (Some ($"dev", dec n)) []); try assumption; try reflexivity.
  - unfold with_dev. simpl. rewrite num_dec. reflexivity.
  - unfold scan_suffix. group_step. change (mem $"dev" pre_markers) with false. cbv iota.
    group_step. change (mem $"dev" post_markers) with false. cbv iota.
    group_step. change (mem $"dev" dev_markers) with true. cbv iota. reflexivity.
  - simpl. apply num_ok_dec. assumption.
Qed.

Lemma release_refl t : lex_pad 0%Z Z.compare (map Z.of_N t) (map Z.of_N t) = Eq.
Proof. apply (tp_refl (TP_lex_pad _ _ TP_Z 0%Z)). Qed.

(* C03, markers: a pre-release (a b c rc alpha beta) and a dev release sort before the
   unmarked release, a post-release (post rev r) after it *)
Theorem pre_lt_release t m n : cmp_core (with_pre t m n) (release_core t) = Lt.
Proof. unfold cmp_core, lexc, cmp_on. simpl. rewrite release_refl. reflexivity. Qed.

Theorem post_gt_release t n : cmp_core (with_post t n) (release_core t) = Gt.
Proof. unfold cmp_core, lexc, cmp_on. simpl. rewrite release_refl. reflexivity. Qed.

Theorem dev_lt_release t n : cmp_core (with_dev t n) (release_core t) = Lt.
Proof. unfold cmp_core, lexc, cmp_on. simpl. rewrite release_refl. reflexivity. Qed.

(* a dev release of the bare release sorts before every pre-release of it *)
Theorem dev_lt_pre t n m k : cmp_core (with_dev t n) (with_pre t m k) = Lt.
Proof. unfold cmp_core, lexc, cmp_on. simpl. rewrite release_refl. reflexivity. Qed.

(* the local label is never looked at (PEP 440 orders 1.0 < 1.0+abc) *)
Theorem local_ignored c l :
  cmp_core {| c_epoch := c_epoch c; c_release := c_release c; c_pre := c_pre c;
              c_post := c_post c; c_dev := c_dev c; c_local := l |} c = Eq.
Proof. apply (tp_refl cmp_core_tp c). Qed.

Example local_ignored_ex :
  option_map (fun a => option_map (cmp a) (parse $"1.0")) (parse $"1.0+abc") = Some (Some Eq).
Proof. vm_compute. reflexivity. Qed.

Print Assumptions cmp_tp.
Print Assumptions parse_core_release.
Print Assumptions cmp_dotted.
Print Assumptions parse_pre.
Print Assumptions parse_post.
Print Assumptions parse_dev.
Print Assumptions pre_lt_release.
Print Assumptions parse_core_epoch.
Print Assumptions cmp_epoch.
