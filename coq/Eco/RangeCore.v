(* Eco/RangeCore.v — the shared shape of the "operator prefix + separator" range
   parsers (alpine, alpm, apache, cran, debian, gentoo, github, golang, mattermost, rpm;
   and the comparator parts of the others).  Definitions only.

   A range is kept as a list of (operator text, bound text).  The Go code stores either the
   bound's text and re-parses it in Contains (alpine, golang, ...) or the parsed bound; since
   NewVersion is a function of its argument the two are the same function of the range
   text, and the model always keeps the text.  [eager] says whether an unparsable bound is
   rejected at range-parse time. *)
From Verif.Base Require Import Bytes GoNum Ord.

Inductive cop := CEq | CNe | CLt | CLe | CGt | CGe | CNever.

Definition sat (o : cop) (c : comparison) : bool :=
  match o, c with
  | CEq, Eq => true
  | CNe, Lt | CNe, Gt => true
  | CLt, Lt => true
  | CLe, Lt | CLe, Eq => true
  | CGt, Gt => true
  | CGe, Gt | CGe, Eq => true
  | _, _ => false
  end.

(* "for _, op := range operators { if strings.HasPrefix(s, op) {...} }" *)
Fixpoint first_prefix (ops : list bytes) (s : bytes) : option (bytes * bytes) :=
  match ops with
  | [] => None
  | op :: r =>
      if has_prefix op s then Some (op, skipn (length op) s) else first_prefix r s
  end.

(* regexp ^(op1|op2|...)?(.+)$ : first alternative whose remainder is non-empty *)
Fixpoint first_prefix_ne (ops : list bytes) (s : bytes) : option (bytes * bytes) :=
  match ops with
  | [] => None
  | op :: r =>
      if has_prefix op s
      then match skipn (length op) s with
           | [] => first_prefix_ne r s
           | rest => Some (op, rest)
           end
      else first_prefix_ne r s
  end.

Inductive prefix_style :=
| HasPrefixErr     (* HasPrefix loop; empty remainder is an error *)
| HasPrefixAny     (* HasPrefix loop; empty remainder kept (golang) *)
| RegexpOpt.       (* ^(ops)?(.+)$ *)

Record range_cfg := {
  rc_split : bytes -> list bytes;   (* trimmed range text -> constraint texts *)
  rc_empty_ok : bool;               (* is an empty constraint list accepted? *)
  rc_ops : list bytes;              (* operator spellings in source order *)
  rc_style : prefix_style;
  rc_sem : bytes -> cop;            (* the switch in satisfiesConstraint / matches *)
  rc_eager : bool;                  (* bound parsed (and rejected) in NewVersionRange *)
  rc_trimmed_orig : bool            (* String() returns the trimmed text *)
}.

Definition constraint := (bytes * bytes)%type.

Section Simple.
  Variable V : Type.
  Variable vparse : bytes -> option V.
  Variable vcmp : V -> V -> comparison.
  Variable cfg : range_cfg.

  Definition parse_constraint (part : bytes) : option constraint :=
    let part := trim_space part in
    match rc_style cfg with
    | HasPrefixErr =>
        match first_prefix (rc_ops cfg) part with
        | Some (op, rest) =>
            let b := trim_space rest in
            match b with [] => None | _ => Some (op, b) end
        | None => Some ($"=", part)
        end
    | HasPrefixAny =>
        match first_prefix (rc_ops cfg) part with
        | Some (op, rest) => Some (op, trim_space rest)
        | None => Some ($"=", part)
        end
    | RegexpOpt =>
        match part with
        | [] => None
        | _ => match first_prefix_ne (rc_ops cfg) part with
               | Some (op, rest) => Some (op, trim_space rest)
               | None => Some ($"=", trim_space part)
               end
        end
    end.

  Definition bound_ok (c : constraint) : bool :=
    if rc_eager cfg then match vparse (snd c) with Some _ => true | None => false end
    else true.

  Fixpoint parse_constraints (parts : list bytes) : option (list constraint) :=
    match parts with
    | [] => Some []
    | p :: r =>
        match parse_constraint p with
        | None => None
        | Some c =>
            if bound_ok c
            then match parse_constraints r with
                 | Some cs => Some (c :: cs)
                 | None => None
                 end
            else None
        end
    end.

  Record range := { r_cs : list constraint; r_orig : bytes }.

  Definition parse_range (s : bytes) : option range :=
    let t := trim_space s in
    match t with
    | [] => None
    | _ =>
        match parse_constraints (rc_split cfg t) with
        | Some cs =>
            match cs with
            | [] => if rc_empty_ok cfg
                    then Some {| r_cs := []; r_orig := if rc_trimmed_orig cfg then t else s |}
                    else None
            | _ => Some {| r_cs := cs; r_orig := if rc_trimmed_orig cfg then t else s |}
            end
        | None => None
        end
    end.

  Definition sat_constraint (v : V) (c : constraint) : bool :=
    match vparse (snd c) with
    | Some b => sat (rc_sem cfg (fst c)) (vcmp v b)
    | None => false
    end.

  Definition contains (r : range) (v : V) : bool := forallb (sat_constraint v) (r_cs r).
  Definition show (r : range) : bytes := r_orig r.
End Simple.


(* the usual operator table *)
Definition sem6 (op : bytes) : cop :=
  if beq op $"=" then CEq
  else if beq op $"!=" then CNe
  else if beq op $">" then CGt
  else if beq op $">=" then CGe
  else if beq op $"<" then CLt
  else if beq op $"<=" then CLe
  else CNever.

(* without != (alpm, apache, github, mattermost, hex) *)
Definition sem5 (op : bytes) : cop :=
  if beq op $"=" then CEq
  else if beq op $">" then CGt
  else if beq op $">=" then CGe
  else if beq op $"<" then CLt
  else if beq op $"<=" then CLe
  else CNever.

(* common splitters *)
Definition split_comma_trim (t : bytes) : list bytes :=
  filter (fun p => match p with [] => false | _ => true end)
         (map trim_space (split_c ","%char t)).

Definition split_fields (t : bytes) : list bytes := fields t.

Definition split_fields_no_and (t : bytes) : list bytes :=
  filter (fun p => negb (beq (to_lower p) $"and")) (fields t).

(* gentoo, rpm: commas are spaces; a single field means "the whole text is one constraint" *)
Definition split_comma_space (t : bytes) : list bytes :=
  let parts := fields (replace_c ","%char " "%char t) in
  if (length parts <=? 1)%nat then [t] else parts.

(* golang: fields only when the text contains a literal space *)
Definition split_golang (t : bytes) : list bytes :=
  if contains_c " "%char t then fields t else [t].
