(* Eco/RangeCoreFacts.v — what holds for every range parser that is an instance of
   Eco/RangeCore.v, for ANY version layer (no assumption on vparse / vcmp unless stated):
   C02 (a comparator range contains exactly what Compare says; AND = intersection),
   C20 (membership respects Compare-equality; conjunction ranges are convex),
   C18 (String() keeps the text; outer whitespace changes nothing). *)
From Coq Require Import Lia.
From Verif.Base Require Import Bytes BytesFacts GoNum Ord.
From Verif.Eco Require Import RangeCore.

(* ---------- operator lists ---------- *)

Definition opchar (c : ascii) : bool :=
  existsb (ceqb c) $"<>=!~^".

(* no operator is preceded in the list by one of its own prefixes *)
Fixpoint no_earlier_prefix (seen : list bytes) (ops : list bytes) : bool :=
  match ops with
  | [] => true
  | op :: r => negb (existsb (fun p => has_prefix p op) seen) && no_earlier_prefix (seen ++ [op]) r
  end.

Definition ops_ok (ops : list bytes) : bool :=
  no_earlier_prefix [] ops
  && forallb (fun op => match op with [] => false | _ => forallb opchar op end) ops.

Lemma has_prefix_app p s : has_prefix p (p ++ s) = true.
Proof. induction p as [|c p IH]; simpl; [reflexivity|]. rewrite ceqb_refl. exact IH. Qed.

Lemma has_prefix_spec p s : has_prefix p s = true <-> exists t, s = p ++ t.
Proof.
  revert s. induction p as [|c p IH]; intros s; simpl.
  - split; [eauto|reflexivity].
  - destruct s as [|d s]; [split; [discriminate|intros [t H]; discriminate]|].
    rewrite andb_true_iff, ceqb_eq, IH. split.
    + intros [-> [t ->]]. eauto.
    + intros [t H]. injection H as -> ->. eauto.
Qed.

Lemma skipn_app_exact {A} (p s : list A) : skipn (length p) (p ++ s) = s.
Proof. induction p; simpl; auto. Qed.

(* a prefix of [op ++ a] made of operator characters only is a prefix of [op],
   when [a] does not start with an operator character *)
Lemma opprefix_of_app p op a :
  forallb opchar p = true ->
  match a with [] => True | c :: _ => opchar c = false end ->
  has_prefix p (op ++ a) = true -> has_prefix p op = true.
Proof.
  revert op. induction p as [|x p IH]; intros op Hp Ha H; [reflexivity|].
  simpl in Hp. apply andb_true_iff in Hp. destruct Hp as [Hx Hp].
  destruct op as [|y op]; simpl in *.
  - destruct a as [|c a]; [discriminate|].
    apply andb_true_iff in H. destruct H as [H _]. apply ceqb_eq in H. subst. congruence.
  - apply andb_true_iff in H. destruct H as [H1 H2]. rewrite H1. simpl.
    apply IH; assumption.
Qed.

Lemma no_earlier_prefix_later o op ops seen' :
  has_prefix o op = true -> In op ops -> In o seen' -> no_earlier_prefix seen' ops = true -> False.
Proof.
  intros Hpo. revert seen'. induction ops as [|q ops IHo]; intros seen' Hin Ho Hn'; [contradiction|].
  simpl in Hn'. apply andb_true_iff in Hn'. destruct Hn' as [H1 H2].
  destruct Hin as [->|Hin].
  - apply negb_true_iff in H1.
    assert (existsb (fun p => has_prefix p op) seen' = true).
    { apply existsb_exists. eauto. }
    congruence.
  - apply (IHo (seen' ++ [q])); [assumption|apply in_or_app; auto|assumption].
Qed.

Lemma first_prefix_hit_gen seen ops op a :
  no_earlier_prefix seen ops = true ->
  forallb (fun o => forallb opchar o) (seen ++ ops) = true ->
  (forall p, In p seen -> has_prefix p (op ++ a) = false) ->
  In op ops ->
  match a with [] => True | c :: _ => opchar c = false end ->
  first_prefix ops (op ++ a) = Some (op, a).
Proof.
  revert seen. induction ops as [|o ops IH]; intros seen Hn Hc Hs Hin Ha; [contradiction|].
  simpl in Hn. apply andb_true_iff in Hn. destruct Hn as [Hno Hn].
  simpl. destruct (has_prefix o (op ++ a)) eqn:E.
  - (* o is a prefix of op ++ a, hence of op; op is in o :: ops *)
    assert (Hoc : forallb opchar o = true).
    { rewrite forallb_app in Hc. apply andb_true_iff in Hc. destruct Hc as [_ Hc].
      simpl in Hc. apply andb_true_iff in Hc. tauto. }
    pose proof (opprefix_of_app o op a Hoc Ha E) as Hpo.
    destruct Hin as [->|Hin].
    + rewrite skipn_app_exact. reflexivity.
    + (* op occurs later but o is a prefix of op: excluded by no_earlier_prefix *)
      exfalso.
      apply (no_earlier_prefix_later o op ops (seen ++ [o])); auto.
      apply in_or_app; simpl; auto.
  - destruct Hin as [->|Hin]; [rewrite has_prefix_app in E; discriminate|].
    apply (IH (seen ++ [o])); try assumption.
    + rewrite <- app_assoc. exact Hc.
    + intros p Hp. apply in_app_or in Hp. destruct Hp as [Hp|[<-|[]]]; auto.
Qed.

Lemma ops_ok_opchars ops : ops_ok ops = true -> forallb (fun o => forallb opchar o) ops = true.
Proof.
  unfold ops_ok. intros H. apply andb_true_iff in H. destruct H as [_ H].
  rewrite forallb_forall in *. intros o Ho. specialize (H o Ho). destruct o; [discriminate|assumption].
Qed.

Lemma first_prefix_hit ops op a :
  ops_ok ops = true -> In op ops ->
  match a with [] => True | c :: _ => opchar c = false end ->
  first_prefix ops (op ++ a) = Some (op, a).
Proof.
  intros Hok Hin Ha. pose proof (ops_ok_opchars ops Hok) as Hc.
  unfold ops_ok in Hok. apply andb_true_iff in Hok. destruct Hok as [Hn _].
  apply (first_prefix_hit_gen [] ops op a); auto. intros p [].
Qed.

Lemma first_prefix_ne_eq ops s op rest :
  first_prefix ops s = Some (op, rest) -> rest <> [] ->
  first_prefix_ne ops s = Some (op, rest).
Proof.
  induction ops as [|o ops IH]; simpl; [discriminate|].
  destruct (has_prefix o s); [|exact IH].
  intros H Hr. injection H as <- <-. destruct (skipn (length o) s); [contradiction|reflexivity].
Qed.

(* no operator at the front: a bare version *)
Lemma first_prefix_none ops s :
  forallb (fun o => match o with [] => false | _ => forallb opchar o end) ops = true ->
  match s with [] => True | c :: _ => opchar c = false end ->
  first_prefix ops s = None.
Proof.
  induction ops as [|o ops IH]; simpl; intros Hc Hs; [reflexivity|].
  apply andb_true_iff in Hc. destruct Hc as [Ho Hc].
  destruct o as [|x o]; [discriminate|].
  destruct s as [|c s]; simpl.
  - apply IH; auto.
  - destruct (ceqb x c) eqn:E.
    + apply ceqb_eq in E. subst. simpl in Ho. apply andb_true_iff in Ho. destruct Ho. congruence.
    + simpl. apply IH; auto.
Qed.

Lemma first_prefix_ne_none ops s :
  first_prefix ops s = None -> first_prefix_ne ops s = None.
Proof.
  induction ops as [|o ops IH]; simpl; [reflexivity|].
  destruct (has_prefix o s); [discriminate|exact IH].
Qed.

(* ---------- texts without separators ---------- *)

Definition no_space (s : bytes) : bool := forallb (fun c => negb (is_space c)) s.

Lemma trim_space_no_space s : no_space s = true -> trim_space s = s.
Proof.
  intros H. unfold trim_space.
  assert (L : trim_left s = s).
  { unfold trim_left. destruct s as [|c s]; [reflexivity|]. simpl in *.
    apply andb_true_iff in H. destruct H as [Hc _]. apply negb_true_iff in Hc. rewrite Hc. reflexivity. }
  rewrite L. unfold trim_right.
  assert (R : drop_while is_space (rev s) = rev s).
  { unfold no_space in H. rewrite <- forallb_rev in H.
    destruct (rev s) as [|c t]; [reflexivity|]. simpl in *.
    apply andb_true_iff in H. destruct H as [Hc _]. apply negb_true_iff in Hc. rewrite Hc. reflexivity. }
  rewrite R. apply rev_involutive.
Qed.

Lemma no_space_app a b : no_space (a ++ b) = no_space a && no_space b.
Proof. unfold no_space. apply forallb_app. Qed.

Lemma opchar_not_space c : opchar c = true -> is_space c = false.
Proof.
  unfold opchar. simpl. rewrite !orb_true_iff.
  intros H. repeat destruct H as [H|H]; try discriminate; apply ceqb_eq in H; subst; reflexivity.
Qed.

Lemma opchars_no_space op : forallb opchar op = true -> no_space op = true.
Proof.
  unfold no_space. induction op as [|c op IH]; simpl; [reflexivity|].
  intros H. apply andb_true_iff in H. destruct H as [Hc H].
  rewrite (opchar_not_space c Hc). simpl. auto.
Qed.

Lemma match_nonempty {A} (s : bytes) (X : option A) :
  s <> [] -> match s with [] => None | _ :: _ => X end = X.
Proof. destruct s; [contradiction|reflexivity]. Qed.

(* ---------- C02, generic ---------- *)

Section C02.
  Variable V : Type.
  Variable vparse : bytes -> option V.
  Variable vcmp : V -> V -> comparison.
  Variable cfg : range_cfg.

  Notation parse_constraint := (parse_constraint cfg).
  Notation parse_range := (parse_range V vparse cfg).
  Notation contains := (contains V vparse vcmp cfg).

  (* the scope clause of C02: the bound is a non-empty text without whitespace that does not
     begin with a comparator character *)
  Definition bound_in_scope (a : bytes) : Prop :=
    a <> [] /\ no_space a = true /\ match a with [] => True | c :: _ => opchar c = false end.

  Lemma parse_constraint_op op a :
    ops_ok (rc_ops cfg) = true -> In op (rc_ops cfg) -> bound_in_scope a ->
    parse_constraint (op ++ a) = Some (op, a).
  Proof.
    intros Hok Hin (Hne & Hns & Hhd).
    pose proof (ops_ok_opchars _ Hok) as Hoc.
    assert (Hop : forallb opchar op = true).
    { rewrite forallb_forall in Hoc. apply Hoc. assumption. }
    assert (Htrim : trim_space (op ++ a) = op ++ a).
    { apply trim_space_no_space. rewrite no_space_app, (opchars_no_space op Hop), Hns. reflexivity. }
    pose proof (first_prefix_hit _ op a Hok Hin Hhd) as Hfp.
    unfold RangeCore.parse_constraint. rewrite Htrim.
    destruct (rc_style cfg).
    - rewrite Hfp. rewrite (trim_space_no_space a Hns). destruct a; [contradiction|reflexivity].
    - rewrite Hfp. rewrite (trim_space_no_space a Hns). reflexivity.
    - rewrite match_nonempty.
      + rewrite (first_prefix_ne_eq _ _ _ _ Hfp Hne).
        rewrite (trim_space_no_space a Hns). reflexivity.
      + destruct op; destruct a; simpl; try discriminate; contradiction.
  Qed.

  Lemma parse_constraint_bare a :
    ops_ok (rc_ops cfg) = true -> bound_in_scope a ->
    parse_constraint a = Some ($"=", a).
  Proof.
    intros Hok (Hne & Hns & Hhd).
    unfold ops_ok in Hok. apply andb_true_iff in Hok. destruct Hok as [_ Hoc].
    pose proof (first_prefix_none _ a Hoc Hhd) as Hfp.
    unfold RangeCore.parse_constraint. rewrite (trim_space_no_space a Hns).
    destruct (rc_style cfg).
    - rewrite Hfp. reflexivity.
    - rewrite Hfp. reflexivity.
    - destruct a; [contradiction|]. rewrite (first_prefix_ne_none _ _ Hfp).
      rewrite (trim_space_no_space _ Hns). reflexivity.
  Qed.

  (* one constraint text [op ++ a] (or bare [a]) per element of [cs] *)
  Definition ctext (c : constraint) : bytes := fst c ++ snd c.

  Definition cons_in_scope (c : constraint) : Prop :=
    In (fst c) (rc_ops cfg) /\ bound_in_scope (snd c) /\ exists b, vparse (snd c) = Some b.

  Lemma parse_constraints_ok cs :
    ops_ok (rc_ops cfg) = true -> Forall cons_in_scope cs ->
    parse_constraints V vparse cfg (map ctext cs) = Some cs.
  Proof.
    intros Hok. induction cs as [|[op a] cs IH]; intros HF; [reflexivity|].
    inversion HF as [|x l (Hin & Hsc & b & Hb) HF']; subst. simpl in *.
    unfold ctext at 1. simpl.
    rewrite (parse_constraint_op op a Hok Hin Hsc).
    unfold bound_ok. simpl. rewrite Hb. destruct (rc_eager cfg); rewrite (IH HF'); reflexivity.
  Qed.

  (* C02: the range text [t] whose constraint texts are [map ctext cs] parses, and contains
     exactly the versions satisfying every comparator *)
  Theorem simple_range_c02 t cs :
    ops_ok (rc_ops cfg) = true ->
    cs <> [] -> Forall cons_in_scope cs ->
    trim_space t <> [] ->
    rc_split cfg (trim_space t) = map ctext cs ->
    exists r, parse_range t = Some r /\
      forall v, contains r v =
        forallb (fun c => match vparse (snd c) with
                          | Some b => sat (rc_sem cfg (fst c)) (vcmp v b)
                          | None => false end) cs.
  Proof.
    intros Hok Hne HF Ht Hsplit.
    unfold RangeCore.parse_range. destruct (trim_space t) eqn:E; [contradiction|].
    rewrite Hsplit, (parse_constraints_ok cs Hok HF).
    destruct cs as [|c cs]; [contradiction|].
    eexists. split; [reflexivity|]. intros v. reflexivity.
  Qed.

  (* the single-comparator case of the property *)
  Corollary simple_range_c02_single op a b :
    ops_ok (rc_ops cfg) = true -> In op (rc_ops cfg) -> bound_in_scope a -> vparse a = Some b ->
    rc_split cfg (op ++ a) = [op ++ a] ->
    exists r, parse_range (op ++ a) = Some r /\
      forall v, contains r v = sat (rc_sem cfg op) (vcmp v b).
  Proof.
    intros Hok Hin Hsc Hb Hsplit.
    pose proof (ops_ok_opchars _ Hok) as Hoc.
    assert (Hop : forallb opchar op = true) by (rewrite forallb_forall in Hoc; auto).
    destruct Hsc as (Hne & Hns & Hhd).
    assert (Htrim : trim_space (op ++ a) = op ++ a).
    { apply trim_space_no_space. rewrite no_space_app, (opchars_no_space op Hop), Hns. reflexivity. }
    destruct (simple_range_c02 (op ++ a) [(op, a)]) as (r & Hr & Hc); auto.
    - discriminate.
    - constructor; [|constructor]. repeat split; auto. eauto.
    - rewrite Htrim. destruct op; destruct a; simpl; try discriminate; contradiction.
    - rewrite Htrim. exact Hsplit.
    - exists r. split; [exact Hr|]. intros v. rewrite Hc. simpl. rewrite Hb. apply andb_true_r.
  Qed.
End C02.

(* ---------- C20, generic: membership depends only on the place in the order ---------- *)

Section C20.
  Variable V : Type.
  Variable vparse : bytes -> option V.
  Variable vcmp : V -> V -> comparison.
  Variable cfg : range_cfg.
  Hypothesis TP : TotalPreorder vcmp.

  Notation contains := (contains V vparse vcmp cfg).

  Lemma sat_constraint_eq a b c :
    vcmp a b = Eq -> sat_constraint V vparse vcmp cfg a c = sat_constraint V vparse vcmp cfg b c.
  Proof.
    intros E. unfold sat_constraint. destruct (vparse (snd c)) as [x|]; [|reflexivity].
    rewrite (tp_eq_l TP a b x E). reflexivity.
  Qed.

  Theorem simple_range_c20_eq r a b : vcmp a b = Eq -> contains r a = contains r b.
  Proof.
    intros E. unfold RangeCore.contains.
    induction (r_cs r) as [|c cs IH]; simpl; [reflexivity|].
    rewrite (sat_constraint_eq a b c E), IH. reflexivity.
  Qed.

  (* operators other than != and the "never" default are convex predicates of the sign *)
  Definition convex_op (o : cop) : bool :=
    match o with CNe => false | _ => true end.

  Lemma sat_convex o x a b c :
    convex_op o = true ->
    le_c (vcmp a b) -> le_c (vcmp b c) ->
    sat o (vcmp a x) = true -> sat o (vcmp c x) = true -> sat o (vcmp b x) = true.
  Proof.
    intros Ho Hab Hbc Ha Hc.
    (* compare b with x, and use transitivity against a and c *)
    destruct (vcmp b x) eqn:Ebx.
    - rewrite <- (tp_eq_r TP b x a Ebx) in Ha. rewrite <- (tp_eq_r TP b x c Ebx) in Hc.
      rewrite (tp_anti TP b c) in Hc. unfold le_c in *.
      destruct o; simpl in *; try discriminate; try reflexivity.
      + (* CLt: c < b contradicts b <= c *)
        destruct (vcmp b c); simpl in Hc; try discriminate. congruence.
      + (* CGt: a > b contradicts a <= b *)
        destruct (vcmp a b); simpl in Ha; try discriminate. congruence.
    - (* b < x : then a < x *)
      assert (Hax : vcmp a x = Lt).
      { apply (tp_lt_trans TP a b x); [assumption|unfold le_c; congruence|right; exact Ebx]. }
      rewrite Hax in Ha. destruct o; simpl in *; try discriminate; reflexivity.
    - (* b > x : then c > x *)
      assert (Hxc : vcmp x c = Lt).
      { apply (tp_lt_trans TP x b c); [unfold le_c; rewrite (tp_anti TP b x), Ebx; discriminate|assumption|].
        left. unfold lt_c. rewrite (tp_anti TP b x), Ebx. reflexivity. }
      assert (Hcx : vcmp c x = Gt) by (rewrite (tp_anti TP x c), Hxc; reflexivity).
      rewrite Hcx in Hc. destruct o; simpl in *; try discriminate; reflexivity.
  Qed.

  Definition conj_only (r : range) : bool :=
    forallb (fun c => convex_op (rc_sem cfg (fst c))) (r_cs r).

  Theorem simple_range_c20_convex r a b c :
    conj_only r = true ->
    le_c (vcmp a b) -> le_c (vcmp b c) ->
    contains r a = true -> contains r c = true -> contains r b = true.
  Proof.
    unfold conj_only, RangeCore.contains. intros Hcv Hab Hbc.
    induction (r_cs r) as [|k cs IH]; simpl in *; [reflexivity|].
    apply andb_true_iff in Hcv. destruct Hcv as [Hk Hcv].
    rewrite !andb_true_iff. intros [Ha1 Ha2] [Hc1 Hc2]. split; [|apply IH; assumption].
    unfold sat_constraint in *. destruct (vparse (snd k)) as [x|]; [|discriminate].
    apply (sat_convex _ x a b c); assumption.
  Qed.
End C20.

(* ---------- C18, generic ---------- *)

Section C18.
  Variable V : Type.
  Variable vparse : bytes -> option V.
  Variable vcmp : V -> V -> comparison.
  Variable cfg : range_cfg.

  Notation parse_range := (parse_range V vparse cfg).

  Lemma range_show_trim s r : parse_range s = Some r -> trim_space (show r) = trim_space s.
  Proof.
    unfold RangeCore.parse_range, show. destruct (trim_space s) eqn:E; [discriminate|].
    destruct (parse_constraints V vparse cfg (rc_split cfg (a :: b))) as [cs|]; [|discriminate].
    assert (G : trim_space (if rc_trimmed_orig cfg then a :: b else s) = a :: b).
    { destruct (rc_trimmed_orig cfg); [rewrite <- E; apply trim_space_idem|exact E]. }
    destruct cs; [destruct (rc_empty_ok cfg); [|discriminate]|]; intros H; injection H as <-; exact G.
  Qed.

  (* the constraints depend on the trimmed text only *)
  Lemma range_same_trim s s' :
    trim_space s = trim_space s' ->
    match parse_range s, parse_range s' with
    | Some r, Some r' => r_cs r = r_cs r'
    | None, None => True
    | _, _ => False
    end.
  Proof.
    intros E. unfold RangeCore.parse_range. rewrite E.
    destruct (trim_space s'); [exact I|].
    destruct (parse_constraints V vparse cfg (rc_split cfg (a :: b))) as [cs|]; [|exact I].
    destruct cs; [destruct (rc_empty_ok cfg); [reflexivity|exact I]|reflexivity].
  Qed.

  Theorem range_reparse s r :
    parse_range s = Some r ->
    exists r', parse_range (show r) = Some r' /\
      forall v, contains V vparse vcmp cfg r' v = contains V vparse vcmp cfg r v.
  Proof.
    intros H. pose proof (range_same_trim (show r) s (range_show_trim s r H)) as P.
    rewrite H in P. destruct (parse_range (show r)) as [r'|]; [|contradiction].
    exists r'. split; [reflexivity|]. intros v. unfold contains. rewrite P. reflexivity.
  Qed.

  Theorem range_pad_invariant p q s :
    forallb is_space p = true -> forallb is_space q = true ->
    match parse_range s, parse_range (p ++ s ++ q) with
    | Some r, Some r' => r_cs r = r_cs r'
    | None, None => True
    | _, _ => False
    end.
  Proof.
    intros Hp Hq. apply range_same_trim. symmetry. apply trim_space_pad; assumption.
  Qed.
End C18.
