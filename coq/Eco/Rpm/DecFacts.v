(* Base/DecFacts.v — facts about decimal numerals: [dec] prints digits whose value is the
   number, and [digits_cmp] on digit strings is the comparison of their values. *)
From Coq Require Import Lia.
From Verif.Base Require Import Bytes GoNum BytesFacts.
Local Open Scope N_scope.

Lemma code_chr n : n < 256 -> code (chr n) = n.
Proof. unfold code, chr. apply N_ascii_embedding. Qed.

Lemma is_digit_spec c : is_digit c = true <-> 48 <= code c <= 57.
Proof.
  unfold is_digit, in_range. rewrite andb_true_iff, !N.leb_le. reflexivity.
Qed.

Lemma is_digit_chr d : d < 10 -> is_digit (chr (48 + d)) = true.
Proof. intros H. apply is_digit_spec. rewrite code_chr by lia. lia. Qed.

Lemma digit_val_chr d : d < 10 -> digit_val (chr (48 + d)) = d.
Proof. intros H. unfold digit_val. rewrite code_chr by lia. lia. Qed.

Lemma digit_val_lt c : is_digit c = true -> digit_val c < 10.
Proof. intros H. apply is_digit_spec in H. unfold digit_val. lia. Qed.

Lemma digit_code c : is_digit c = true -> code c = 48 + digit_val c.
Proof. intros H. apply is_digit_spec in H. unfold digit_val. lia. Qed.

(* ---------- value of a digit string ---------- *)

Definition dstep (acc : N) (c : ascii) : N := acc * 10 + digit_val c.

Lemma digits_val_fold s : digits_val s = fold_left dstep s 0.
Proof. reflexivity. Qed.

Lemma fold_dstep s : forall acc,
  fold_left dstep s acc = acc * 10 ^ N.of_nat (length s) + fold_left dstep s 0.
Proof.
  induction s as [|c s IH]; intros acc.
  - simpl. lia.
  - cbn [fold_left length]. rewrite (IH (dstep acc c)), (IH (dstep 0 c)).
    rewrite Nat2N.inj_succ, N.pow_succ_r'. unfold dstep. lia.
Qed.

Lemma digits_val_nil : digits_val [] = 0.
Proof. reflexivity. Qed.

Lemma digits_val_cons c r :
  digits_val (c :: r) = digit_val c * 10 ^ N.of_nat (length r) + digits_val r.
Proof.
  rewrite !digits_val_fold. cbn [fold_left]. rewrite fold_dstep. unfold dstep. lia.
Qed.

Lemma digits_val_single c : digits_val [c] = digit_val c.
Proof. unfold digits_val. cbn [fold_left]. lia. Qed.

Lemma digits_val_snoc s c : digits_val (s ++ [c]) = digits_val s * 10 + digit_val c.
Proof. rewrite !digits_val_fold, fold_left_app. reflexivity. Qed.

Lemma digits_val_bound s : all_digits s = true -> digits_val s < 10 ^ N.of_nat (length s).
Proof.
  unfold all_digits. induction s as [|c s IH]; intros H.
  - reflexivity.
  - cbn [forallb] in H. apply andb_true_iff in H. destruct H as [Hc Hs].
    rewrite digits_val_cons. cbn [length]. rewrite Nat2N.inj_succ, N.pow_succ_r'.
    pose proof (digit_val_lt c Hc). specialize (IH Hs).
    set (P := 10 ^ N.of_nat (length s)) in *.
    assert (digit_val c * P <= 9 * P) by (apply N.mul_le_mono_r; lia). lia.
Qed.

Lemma digits_val_strip s : digits_val (strip_zeros s) = digits_val s.
Proof.
  unfold strip_zeros. induction s as [|c s IH]; [reflexivity|].
  cbn [drop_while]. destruct (ceqb "0"%char c) eqn:E; [|reflexivity].
  apply ceqb_eq in E. subst c. rewrite IH, digits_val_cons. reflexivity.
Qed.

Lemma all_digits_strip s : all_digits s = true -> all_digits (strip_zeros s) = true.
Proof.
  unfold all_digits, strip_zeros. induction s as [|c s IH]; intros H; [reflexivity|].
  cbn [drop_while]. cbn [forallb] in H. apply andb_true_iff in H. destruct H as [Hc Hs].
  destruct (ceqb "0"%char c); [auto|]. cbn [forallb]. rewrite Hc, Hs. reflexivity.
Qed.

Lemma strip_zeros_hd s c r : strip_zeros s = c :: r -> c <> "0"%char.
Proof.
  unfold strip_zeros. induction s as [|x s IH]; [discriminate|].
  cbn [drop_while]. destruct (ceqb "0"%char x) eqn:E; [exact IH|].
  intros H. injection H as -> _. apply ceqb_neq in E. congruence.
Qed.

Lemma digit_val_pos c : is_digit c = true -> c <> "0"%char -> 1 <= digit_val c.
Proof.
  intros H Hn. pose proof (digit_code c H) as Hc.
  destruct (N.eq_dec (digit_val c) 0) as [Z|Z]; [|lia].
  exfalso. apply Hn. apply code_inj. rewrite Hc, Z. reflexivity.
Qed.

(* a numeral without leading zero is at least 10^(length-1) *)
Lemma digits_val_lower c r :
  is_digit c = true -> c <> "0"%char -> 10 ^ N.of_nat (length r) <= digits_val (c :: r).
Proof.
  intros H Hn. rewrite digits_val_cons. pose proof (digit_val_pos c H Hn).
  set (P := 10 ^ N.of_nat (length r)).
  assert (1 * P <= digit_val c * P) by (apply N.mul_le_mono_r; lia). lia.
Qed.

(* same length: bytewise order is numeric order *)
Lemma bytes_cmp_digits x : forall y,
  length x = length y -> all_digits x = true -> all_digits y = true ->
  bytes_cmp x y = (digits_val x ?= digits_val y).
Proof.
  unfold all_digits. induction x as [|c x IH]; intros [|d y] L Hx Hy; try discriminate.
  - reflexivity.
  - cbn [forallb] in Hx, Hy. apply andb_true_iff in Hx, Hy.
    destruct Hx as [Hc Hx], Hy as [Hd Hy]. injection L as L.
    cbn [bytes_cmp]. rewrite !digits_val_cons, <- L, (IH y L Hx Hy).
    rewrite (digit_code c Hc), (digit_code d Hd).
    pose proof (digits_val_bound x Hx) as Bx. pose proof (digits_val_bound y Hy) as By.
    rewrite <- L in By.
    set (P := 10 ^ N.of_nat (length x)) in *.
    set (vx := digits_val x) in *. set (vy := digits_val y) in *.
    set (a := digit_val c). set (b := digit_val d).
    destruct (N.compare_spec (48 + a) (48 + b)) as [E|E|E]; cbn [thenc].
    + assert (Hab : a = b) by lia. rewrite Hab.
      destruct (N.compare_spec vx vy) as [F|F|F]; symmetry;
        [apply N.compare_eq_iff|apply N.compare_lt_iff|apply N.compare_gt_iff]; lia.
    + symmetry. apply N.compare_lt_iff.
      assert ((a + 1) * P <= b * P) by (apply N.mul_le_mono_r; lia). lia.
    + symmetry. apply N.compare_gt_iff.
      assert ((b + 1) * P <= a * P) by (apply N.mul_le_mono_r; lia). lia.
Qed.

Theorem digits_cmp_val x y :
  all_digits x = true -> all_digits y = true ->
  digits_cmp x y = (digits_val x ?= digits_val y).
Proof.
  intros Hx Hy. unfold digits_cmp.
  rewrite <- (digits_val_strip x), <- (digits_val_strip y).
  pose proof (all_digits_strip x Hx) as Ax. pose proof (all_digits_strip y Hy) as Ay.
  pose proof (strip_zeros_hd x) as Zx. pose proof (strip_zeros_hd y) as Zy.
  set (x' := strip_zeros x) in *. set (y' := strip_zeros y) in *.
  pose proof (digits_val_bound x' Ax) as Bx. pose proof (digits_val_bound y' Ay) as By.
  destruct (Nat.compare_spec (length x') (length y')) as [E|E|E]; cbn [thenc].
  - apply bytes_cmp_digits; assumption.
  - symmetry. apply N.compare_lt_iff.
    destruct y' as [|d r]; [simpl in E; lia|].
    unfold all_digits in Ay. cbn [forallb] in Ay. apply andb_true_iff in Ay. destruct Ay as [Hd _].
    pose proof (digits_val_lower d r Hd (Zy d r eq_refl)) as Lo.
    cbn [length] in E.
    assert (10 ^ N.of_nat (length x') <= 10 ^ N.of_nat (length r)) by (apply N.pow_le_mono_r; lia).
    lia.
  - symmetry. apply N.compare_gt_iff.
    destruct x' as [|d r]; [simpl in E; lia|].
    unfold all_digits in Ax. cbn [forallb] in Ax. apply andb_true_iff in Ax. destruct Ax as [Hd _].
    pose proof (digits_val_lower d r Hd (Zx d r eq_refl)) as Lo.
    cbn [length] in E.
    assert (10 ^ N.of_nat (length y') <= 10 ^ N.of_nat (length r)) by (apply N.pow_le_mono_r; lia).
    lia.
Qed.

(* ---------- dec ---------- *)

Lemma dec_fuel_spec k : forall n acc,
  n < 10 ^ N.of_nat (S k) ->
  exists ds, dec_fuel (S k) n acc = ds ++ acc /\ ds <> [] /\ all_digits ds = true /\ digits_val ds = n.
Proof.
  induction k as [|k IH]; intros n acc H.
  - change (10 ^ N.of_nat 1) with 10 in H.
    cbn [dec_fuel]. apply N.ltb_lt in H. rewrite H. apply N.ltb_lt in H.
    exists [chr (48 + n mod 10)]. rewrite N.mod_small by assumption.
    split; [reflexivity|]. split; [discriminate|]. split.
    + unfold all_digits. cbn [forallb]. rewrite is_digit_chr by assumption. reflexivity.
    + rewrite digits_val_single, digit_val_chr by assumption. reflexivity.
  - remember (S k) as k1. cbn [dec_fuel].
    assert (Hm : n mod 10 < 10) by (apply N.mod_lt; lia).
    destruct (n <? 10) eqn:E.
    + apply N.ltb_lt in E.
      exists [chr (48 + n mod 10)]. rewrite N.mod_small by assumption.
      split; [reflexivity|]. split; [discriminate|]. split.
      * unfold all_digits. cbn [forallb]. rewrite is_digit_chr by assumption. reflexivity.
      * rewrite digits_val_single, digit_val_chr by assumption. reflexivity.
    + apply N.ltb_ge in E. subst k1.
      assert (Hq : n / 10 < 10 ^ N.of_nat (S k)).
      { rewrite (Nat2N.inj_succ (S k)), N.pow_succ_r' in H.
        apply N.div_lt_upper_bound; lia. }
      destruct (IH (n / 10) (chr (48 + n mod 10) :: acc) Hq) as (ds & E1 & Hne & Hd & Hv).
      exists (ds ++ [chr (48 + n mod 10)]).
      split; [rewrite E1, <- app_assoc; reflexivity|].
      split; [destruct ds; discriminate|]. split.
      * unfold all_digits in *. rewrite forallb_app, Hd. cbn [forallb].
        rewrite is_digit_chr by assumption. reflexivity.
      * rewrite digits_val_snoc, Hv, digit_val_chr by assumption.
        pose proof (N.div_mod n 10). lia.
Qed.

Lemma size_nat_bound n : n < 2 ^ N.of_nat (N.size_nat n).
Proof.
  destruct n as [|p]; [simpl; lia|].
  cbn [N.size_nat]. induction p as [p IH|p IH|].
  - cbn [Pos.size_nat]. rewrite Nat2N.inj_succ, N.pow_succ_r'. lia.
  - cbn [Pos.size_nat]. rewrite Nat2N.inj_succ, N.pow_succ_r'. lia.
  - simpl. lia.
Qed.

Lemma dec_fuel_enough n : n < 10 ^ N.of_nat (S (N.size_nat n)).
Proof.
  pose proof (size_nat_bound n) as H.
  rewrite Nat2N.inj_succ, N.pow_succ_r'.
  assert (2 ^ N.of_nat (N.size_nat n) <= 10 ^ N.of_nat (N.size_nat n)).
  { apply N.pow_le_mono_l. lia. }
  assert (0 < 10 ^ N.of_nat (N.size_nat n)) by lia.
  lia.
Qed.

Theorem dec_spec n :
  dec n <> [] /\ all_digits (dec n) = true /\ digits_val (dec n) = n.
Proof.
  unfold dec. destruct (dec_fuel_spec (N.size_nat n) n [] (dec_fuel_enough n))
    as (ds & E & Hne & Hd & Hv).
  rewrite E, app_nil_r. auto.
Qed.

Lemma dec_nonempty n : dec n <> [].
Proof. apply dec_spec. Qed.
Lemma dec_digits n : all_digits (dec n) = true.
Proof. apply dec_spec. Qed.
Lemma dec_val n : digits_val (dec n) = n.
Proof. apply dec_spec. Qed.

Lemma dec_cons n : exists c r, dec n = c :: r /\ is_digit c = true /\ all_digits r = true.
Proof.
  pose proof (dec_nonempty n) as Hne. pose proof (dec_digits n) as Hd.
  destruct (dec n) as [|c r]; [contradiction|].
  unfold all_digits in *. cbn [forallb] in Hd. apply andb_true_iff in Hd.
  exists c, r. tauto.
Qed.

Theorem digits_cmp_dec a b : digits_cmp (dec a) (dec b) = (a ?= b).
Proof. rewrite digits_cmp_val by apply dec_digits. rewrite !dec_val. reflexivity. Qed.
