From Verif.Base Require Import Bytes.
From Verif.Eco Require Import Iface.
From Verif.Eco.Rpm Require Version Range.

Definition v : vops := mk_vops Rpm.Version.parse_core Rpm.Version.cmp_core Rpm.Version.raw_orig.
Definition r : rops := mk_simple_rops Rpm.Range.cfg.
Definition entry : eco := {| e_name := $"rpm"; e_v := v; e_r := r |}.
