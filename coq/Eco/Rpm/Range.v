(* Eco/Rpm/Range.v — model of pkg/ecosystem/rpm/range.go *)
From Verif.Base Require Import Bytes GoNum Ord.
From Verif.Gen Require Operators.
From Verif.Eco Require Import RangeCore.

(* operators in parseRPMConstraint, source order *)
(* generated from the Go source on every run (tools/gen -> Gen/Operators.v) *)
Definition rpm_ops : list bytes :=
  Eval cbv delta [Verif.Gen.Operators.rpm_ops] in Verif.Gen.Operators.rpm_ops.

(* strings.Fields(strings.ReplaceAll(rangeStr, ",", " ")) *)
Definition split_rpm (t : bytes) : list bytes :=
  fields (replace_c ","%char " "%char t).

Definition cfg : range_cfg := {|
  rc_split := split_rpm;
  rc_empty_ok := false;
  rc_ops := rpm_ops;
  rc_style := HasPrefixErr;
  rc_sem := sem6;
  rc_eager := true;
  rc_trimmed_orig := false
|}.
