(* Eco/Rpm/RangeFacts.v — the rpm range parser is an instance of RangeCore: instantiation of the
   generic C02 / C20 / C18 theorems, plus the facts about its splitter they need. *)
From Coq Require Import Lia.
From Verif.Base Require Import Bytes GoNum Ord BytesFacts.
From Verif.Eco Require Import RangeCore RangeCoreFacts Iface.
From Verif.Eco.Rpm Require Import Range.
From Verif.Eco.Rpm Require Entry.

Lemma rpm_ops_ok : ops_ok rpm_ops = true.
Proof. reflexivity. Qed.

(* ---------- strings.Fields on space-free words ---------- *)

Lemma fields_aux_nospace s : forall cur,
  no_space s = true -> (cur <> [] \/ s <> []) -> fields_aux cur s = [rev cur ++ s].
Proof.
  unfold no_space. induction s as [|c s IH]; intros cur H Hne.
  - destruct Hne as [Hne|Hne]; [|contradiction].
    destruct cur; [contradiction|]. cbn [fields_aux]. rewrite app_nil_r. reflexivity.
  - cbn [forallb] in H. apply andb_true_iff in H. destruct H as [Hc Hs].
    apply negb_true_iff in Hc. cbn [fields_aux]. rewrite Hc.
    rewrite (IH (c :: cur) Hs) by (left; discriminate).
    cbn [rev]. rewrite <- app_assoc. reflexivity.
Qed.

Lemma fields_aux_word p : forall cur rest,
  no_space p = true -> (cur <> [] \/ p <> []) ->
  fields_aux cur (p ++ " "%char :: rest) = (rev cur ++ p) :: fields_aux [] rest.
Proof.
  unfold no_space. induction p as [|c p IH]; intros cur rest H Hne.
  - destruct Hne as [Hne|Hne]; [|contradiction].
    destruct cur; [contradiction|]. cbn [app fields_aux]. rewrite app_nil_r. reflexivity.
  - cbn [forallb] in H. apply andb_true_iff in H. destruct H as [Hc Hs].
    apply negb_true_iff in Hc. cbn [app fields_aux]. rewrite Hc.
    rewrite (IH (c :: cur) rest Hs) by (left; discriminate).
    cbn [rev]. rewrite <- app_assoc. reflexivity.
Qed.

Definition word (p : bytes) : Prop := p <> [] /\ no_space p = true.

Lemma fields_join parts : Forall word parts -> fields (join $" " parts) = parts.
Proof.
  unfold fields. induction parts as [|p parts IH]; intros HF; [reflexivity|].
  inversion HF as [|x l [Hne Hns] HF']; subst.
  destruct parts as [|q parts].
  - cbn [join]. rewrite fields_aux_nospace; auto.
  - change (join $" " (p :: q :: parts)) with (p ++ " "%char :: join $" " (q :: parts)).
    rewrite fields_aux_word; auto. rewrite (IH HF'). reflexivity.
Qed.

Definition no_comma (s : bytes) : bool := negb (contains_c ","%char s).

Lemma replace_no_comma s : no_comma s = true -> replace_c ","%char " "%char s = s.
Proof.
  unfold no_comma, contains_c, replace_c. induction s as [|c s IH]; intros H; [reflexivity|].
  cbn [existsb] in H. apply negb_true_iff, orb_false_iff in H. destruct H as [Hc Hs].
  cbn [map]. rewrite Hc, IH; [reflexivity|]. apply negb_true_iff. assumption.
Qed.

Lemma replace_c_app a b x y : replace_c a b (x ++ y) = replace_c a b x ++ replace_c a b y.
Proof. unfold replace_c. apply map_app. Qed.

Lemma replace_join parts :
  Forall (fun p => no_comma p = true) parts ->
  replace_c ","%char " "%char (join $"," parts) = join $" " parts.
Proof.
  induction parts as [|p parts IH]; intros HF; [reflexivity|].
  inversion HF as [|x l Hp HF']; subst.
  destruct parts as [|q parts].
  - cbn [join]. apply replace_no_comma; assumption.
  - change (join $"," (p :: q :: parts)) with (p ++ ","%char :: join $"," (q :: parts)).
    change (join $" " (p :: q :: parts)) with (p ++ " "%char :: join $" " (q :: parts)).
    rewrite replace_c_app, (replace_no_comma p Hp).
    change (replace_c ","%char " "%char (","%char :: join $"," (q :: parts)))
      with (" "%char :: replace_c ","%char " "%char (join $"," (q :: parts))).
    rewrite (IH HF'). reflexivity.
Qed.

(* comma-separated space-free words are exactly the constraint texts *)
Lemma split_rpm_join parts :
  Forall word parts -> Forall (fun p => no_comma p = true) parts ->
  split_rpm (join $"," parts) = parts.
Proof. intros W C. unfold split_rpm. rewrite (replace_join parts C). apply fields_join, W. Qed.

Lemma split_rpm_single s : word s -> no_comma s = true -> split_rpm s = [s].
Proof.
  intros W C. apply (split_rpm_join [s]); constructor; auto.
Qed.

Lemma no_space_join_comma parts :
  Forall word parts -> no_space (join $"," parts) = true.
Proof.
  induction parts as [|p parts IH]; intros HF; [reflexivity|].
  inversion HF as [|x l [Hne Hns] HF']; subst.
  destruct parts as [|q parts]; [exact Hns|].
  change (join $"," (p :: q :: parts)) with (p ++ ","%char :: join $"," (q :: parts)).
  rewrite no_space_app, Hns. unfold no_space in *. cbn [forallb]. rewrite (IH HF'). reflexivity.
Qed.

Lemma opchar_not_comma c : opchar c = true -> ceqb ","%char c = false.
Proof.
  intros H. destruct (ceqb ","%char c) eqn:E; [|reflexivity].
  apply ceqb_eq in E. subst c. discriminate.
Qed.

Lemma no_comma_app a b : no_comma (a ++ b) = no_comma a && no_comma b.
Proof. unfold no_comma, contains_c. rewrite existsb_app, negb_orb. reflexivity. Qed.

Lemma opchars_no_comma op : forallb opchar op = true -> no_comma op = true.
Proof.
  unfold no_comma, contains_c. induction op as [|c op IH]; intros H; [reflexivity|].
  cbn [forallb] in H. apply andb_true_iff in H. destruct H as [Hc Ho].
  cbn [existsb]. rewrite (opchar_not_comma c Hc). apply IH, Ho.
Qed.

(* ---------- C02 for rpm ---------- *)

Section C02.
  Variable V : Type.
  Variable vparse : bytes -> option V.
  Variable vcmp : V -> V -> comparison.

  Notation parse_range := (parse_range V vparse cfg).
  Notation contains := (contains V vparse vcmp cfg).

  (* scope: comparator from the list, bound without whitespace / comma, not starting with a
     comparator character, and accepted by NewVersion *)
  Definition rpm_in_scope (c : constraint) : Prop :=
    cons_in_scope V vparse cfg c /\ no_comma (snd c) = true.

  Lemma ctext_word c : rpm_in_scope c -> word (ctext c) /\ no_comma (ctext c) = true.
  Proof.
    intros [(Hin & (Hne & Hns & Hhd) & _) Hc]. unfold ctext.
    pose proof (ops_ok_opchars _ rpm_ops_ok) as Hoc. rewrite forallb_forall in Hoc.
    specialize (Hoc _ Hin). split; [split|].
    - destruct (fst c); destruct (snd c); try discriminate. contradiction.
    - rewrite no_space_app, (opchars_no_space _ Hoc), Hns. reflexivity.
    - rewrite no_comma_app, (opchars_no_comma _ Hoc), Hc. reflexivity.
  Qed.

  (* "op1 a1,op2 a2,..." (no blanks) parses, and contains v iff every comparator holds *)
  Theorem rpm_range_c02 cs :
    cs <> [] -> Forall rpm_in_scope cs ->
    exists r, parse_range (join $"," (map (@ctext) cs)) = Some r /\
      forall v, contains r v =
        forallb (fun c => match vparse (snd c) with
                          | Some b => sat (sem6 (fst c)) (vcmp v b)
                          | None => false end) cs.
  Proof.
    intros Hne HF.
    assert (W : Forall word (map (@ctext) cs)).
    { rewrite Forall_forall in *. intros x Hx. apply in_map_iff in Hx.
      destruct Hx as (c & <- & Hc). apply ctext_word, HF, Hc. }
    assert (C : Forall (fun p => no_comma p = true) (map (@ctext) cs)).
    { rewrite Forall_forall in *. intros x Hx. apply in_map_iff in Hx.
      destruct Hx as (c & <- & Hc). apply ctext_word, HF, Hc. }
    assert (T : trim_space (join $"," (map (@ctext) cs)) = join $"," (map (@ctext) cs)).
    { apply trim_space_no_space, no_space_join_comma, W. }
    apply (simple_range_c02 V vparse vcmp cfg _ cs rpm_ops_ok Hne).
    - rewrite Forall_forall in *. intros c Hc. apply HF, Hc.
    - rewrite T. destruct cs as [|c cs]; [contradiction|].
      inversion W as [|x l [Hx _] _]; subst.
      cbn [map]. cbn [map] in Hx.
      destruct (map (@ctext) cs); cbn [join]; [assumption|].
      destruct (ctext c); [contradiction|discriminate].
    - rewrite T. apply (split_rpm_join _ W C).
  Qed.

  Corollary rpm_range_c02_single op a b :
    In op rpm_ops -> bound_in_scope a -> no_comma a = true -> vparse a = Some b ->
    exists r, parse_range (op ++ a) = Some r /\
      forall v, contains r v = sat (sem6 op) (vcmp v b).
  Proof.
    intros Hin Hsc Hc Hb.
    apply (simple_range_c02_single V vparse vcmp cfg op a b rpm_ops_ok Hin Hsc Hb).
    assert (S : rpm_in_scope (op, a)).
    { split; [|exact Hc]. split; [exact Hin|]. split; [exact Hsc|]. exists b. exact Hb. }
    destruct (ctext_word _ S) as [W C]. apply (split_rpm_single _ W C).
  Qed.
End C02.

(* the same at the interface level (oracles on version texts), for every comparator spelling *)
Theorem rpm_r_contains_c02 vok vcmp op a v :
  In op rpm_ops -> bound_in_scope a -> no_comma a = true ->
  vok a = true -> vok v = true ->
  r_contains Rpm.Entry.r vok vcmp (op ++ a) v = Some (sat (sem6 op) (vcmp v a)).
Proof.
  intros Hin Hsc Hc Ha Hv.
  destruct (rpm_range_c02_single bytes (oracle_parse vok) vcmp op a a Hin Hsc Hc) as (r & Hr & Hcont).
  { unfold oracle_parse. rewrite Ha. reflexivity. }
  unfold Rpm.Entry.r, mk_simple_rops. cbn [r_contains]. rewrite Hr, Hv, Hcont. reflexivity.
Qed.

(* a bare version is an equality constraint *)
Theorem rpm_r_contains_bare vok vcmp a v :
  bound_in_scope a -> no_comma a = true -> vok a = true -> vok v = true ->
  r_contains Rpm.Entry.r vok vcmp a v = Some (sat CEq (vcmp v a)).
Proof.
  intros Hsc Hc Ha Hv.
  pose proof Hsc as (Hne & Hns & Hhd).
  unfold Rpm.Entry.r, mk_simple_rops. cbn [r_contains].
  unfold RangeCore.parse_range. rewrite (trim_space_no_space a Hns).
  destruct a as [|c a'] eqn:Ea; [contradiction|]. rewrite <- Ea in *.
  cbn [rc_split cfg]. rewrite (split_rpm_single a (conj Hne Hns) Hc).
  cbn [parse_constraints].
  rewrite (parse_constraint_bare cfg a rpm_ops_ok Hsc).
  unfold bound_ok, oracle_parse. cbn [rc_eager cfg snd]. rewrite Ha, Hv.
  unfold RangeCore.contains, sat_constraint. cbn [r_cs forallb snd fst rc_sem cfg].
  rewrite Ha. rewrite andb_true_r. reflexivity.
Qed.

(* ---------- C20 for rpm: membership depends only on the place in the order ---------- *)

Theorem rpm_range_c20_eq V vparse (vcmp : V -> V -> comparison) r a b :
  TotalPreorder vcmp -> vcmp a b = Eq ->
  contains V vparse vcmp cfg r a = contains V vparse vcmp cfg r b.
Proof. intros TP. apply simple_range_c20_eq, TP. Qed.

Theorem rpm_range_c20_convex V vparse (vcmp : V -> V -> comparison) r a b c :
  TotalPreorder vcmp -> conj_only cfg r = true ->
  le_c (vcmp a b) -> le_c (vcmp b c) ->
  contains V vparse vcmp cfg r a = true -> contains V vparse vcmp cfg r c = true ->
  contains V vparse vcmp cfg r b = true.
Proof. intros TP. apply simple_range_c20_convex, TP. Qed.

Print Assumptions rpm_range_c02.
Print Assumptions rpm_r_contains_c02.
Print Assumptions rpm_r_contains_bare.
Print Assumptions rpm_range_c20_eq.
Print Assumptions rpm_range_c20_convex.
