(* Eco/Rpm/SpecFacts.v — the rpm Compare model against the reference order Spec/Rpm.v
   (rpmvercmp with the epoch:version-release split).

   go-univers' comparison is a different algorithm ((non-digit run, digit run) pairs, padded)
   and deviates from rpmvercmp in several mechanisms (see the [rpm_cmp_is_spec_refuted_*]
   lemmas at the end).  On the sub-grammar
        [epoch:] NUMS [~ WORD [D]] [- D [. WORD [D]]]
   (D a digit run, NUMS = D { . D }, WORD a non-empty run of letters)
   recognised by [in_scope], both algorithms reduce to the same comparison of token lists,
   and the model's Compare IS the reference order ([rpm_cmp_is_spec]). *)
From Coq Require Import Lia.
From Verif.Base Require Import Bytes GoNum Ord BytesFacts.
From Verif.Eco.Rpm Require Import DecFacts.
From Verif.Eco Require Import VLayer Iface RangeCoreFacts.
From Verif.Spec Require Rpm.
From Verif.Spec Require Import RpmFacts.
From Verif.Eco.Rpm Require Import Version VersionFacts.
From Verif.Eco.Rpm Require Entry.
Local Open Scope N_scope.

(* ====================================================================================== *)
(* The scope                                                                               *)
(* ====================================================================================== *)

Definition is_nil (s : bytes) : bool := match s with [] => true | _ => false end.

(* WORD [D] *)
Definition grp_ok (g : bytes) : bool :=
  let (w, d) := span is_letter g in negb (is_nil w) && all_digits d.

(* NUMS [~ WORD [D]] *)
Definition vfield_ok (v : bytes) : bool :=
  match split2_c "~"%char v with
  | (nums, None) => forallb nonempty_digits (split_c "."%char nums)
  | (nums, Some g) => forallb nonempty_digits (split_c "."%char nums) && grp_ok g
  end.

(* D [. WORD [D]] *)
Definition rfield_ok (r : bytes) : bool :=
  match split2_c "."%char r with
  | (d, None) => nonempty_digits d
  | (d, Some g) => nonempty_digits d && grp_ok g
  end.

Definition vr_ok (vr : bytes) : bool :=
  match split2_c "-"%char vr with
  | (v, None) => vfield_ok v
  | (v, Some r) => vfield_ok v && rfield_ok r
  end.

(* the whole text: optional epoch (digits, value below 2^63, then a colon), version field,
   optional hyphen and release field *)
Definition in_scope (s : bytes) : bool :=
  match split2_c ":"%char s with
  | (e, Some rest) => nonempty_digits e && (digits_val e <? two63) && vr_ok rest
  | (_, None) => vr_ok s
  end.

(* ====================================================================================== *)
(* Lists, cuts, joins                                                                      *)
(* ====================================================================================== *)

Definition stops (p : ascii -> bool) (R : bytes) : Prop :=
  match R with [] => True | c :: _ => p c = false end.

Lemma span_app p xs R :
  forallb p xs = true -> stops p R ->
  take_while p (xs ++ R) = xs /\ drop_while p (xs ++ R) = R.
Proof.
  induction xs as [|c xs IH]; intros H HR.
  - destruct R as [|c R]; [split; reflexivity|]. simpl in *. rewrite HR. split; reflexivity.
  - cbn [forallb] in H. apply andb_true_iff in H. destruct H as [Hc Hs].
    destruct (IH Hs HR) as [I1 I2]. cbn [app take_while drop_while]. rewrite Hc, I1, I2.
    split; reflexivity.
Qed.

Lemma span_all p xs : forallb p xs = true -> take_while p xs = xs /\ drop_while p xs = [].
Proof.
  intros H. pose proof (span_app p xs [] H I) as S. rewrite app_nil_r in S. exact S.
Qed.

Lemma take_drop p (s : bytes) : take_while p s ++ drop_while p s = s.
Proof.
  induction s as [|c s IH]; [reflexivity|]. cbn [take_while drop_while].
  destruct (p c); [cbn [app]; rewrite IH|]; reflexivity.
Qed.

Lemma take_while_all p (s : bytes) : forallb p (take_while p s) = true.
Proof.
  induction s as [|c s IH]; [reflexivity|]. cbn [take_while].
  destruct (p c) eqn:E; [cbn [forallb]; rewrite E, IH|]; reflexivity.
Qed.

Lemma forallb_imp {A} (p q : A -> bool) l :
  (forall x, p x = true -> q x = true) -> forallb p l = true -> forallb q l = true.
Proof.
  intros Hi H. rewrite forallb_forall in *. intros x Hx. apply Hi, H, Hx.
Qed.

Lemma cut_single_some c s : forall a b,
  cut [c] s = Some (a, b) -> s = a ++ c :: b /\ contains_c c a = false.
Proof.
  induction s as [|x s IH]; intros a b H; [discriminate|].
  cbn [cut has_prefix] in H. destruct (ceqb c x) eqn:E; cbn [andb] in H.
  - simpl in H. injection H as <- <-. apply ceqb_eq in E. subst x. split; reflexivity.
  - destruct (cut [c] s) as [[a' b']|] eqn:C; [|discriminate].
    injection H as <- <-. destruct (IH a' b' eq_refl) as [-> Hn]. split; [reflexivity|].
    unfold contains_c in *. cbn [existsb]. rewrite E, Hn. reflexivity.
Qed.

Lemma cut_single_none_inv c s : cut [c] s = None -> contains_c c s = false.
Proof.
  unfold contains_c. induction s as [|x s IH]; intros H; [reflexivity|].
  cbn [cut has_prefix] in H. destruct (ceqb c x) eqn:E; cbn [andb] in H; [discriminate|].
  destruct (cut [c] s) as [[a' b']|]; [discriminate|].
  cbn [existsb]. rewrite E, IH; reflexivity.
Qed.

Lemma split2_spec c s :
  match split2_c c s with
  | (a, Some b) => s = a ++ c :: b /\ contains_c c a = false
  | (a, None) => a = s /\ contains_c c s = false
  end.
Proof.
  unfold split2_c. destruct (cut [c] s) as [[a b]|] eqn:C.
  - apply cut_single_some, C.
  - split; [reflexivity|apply cut_single_none_inv, C].
Qed.

Lemma split_c_nonempty c s : split_c c s <> [].
Proof.
  destruct s as [|x s]; [discriminate|]. cbn [split_c].
  destruct (ceqb c x); [discriminate|]. destruct (split_c c s); discriminate.
Qed.

Lemma join_split_c c s : join [c] (split_c c s) = s.
Proof.
  induction s as [|x s IH]; [reflexivity|]. cbn [split_c].
  pose proof (split_c_nonempty c s) as Hne.
  destruct (ceqb c x) eqn:E.
  - apply ceqb_eq in E. subst x.
    destruct (split_c c s) as [|f fs]; [contradiction|].
    change (join [c] ([] :: f :: fs)) with ([] ++ [c] ++ join [c] (f :: fs)).
    rewrite IH. reflexivity.
  - destruct (split_c c s) as [|f fs]; [contradiction|].
    destruct fs as [|f' fs].
    + cbn [join] in *. rewrite IH. reflexivity.
    + change (join [c] ((x :: f) :: f' :: fs)) with (x :: (f ++ [c] ++ join [c] (f' :: fs))).
      change (join [c] (f :: f' :: fs)) with (f ++ [c] ++ join [c] (f' :: fs)) in IH.
      rewrite IH. reflexivity.
Qed.

Lemma forallb_join p sep l :
  forallb p sep = true -> forallb (forallb p) l = true -> forallb p (join sep l) = true.
Proof.
  intros Hs. induction l as [|x l IH]; intros H; [reflexivity|].
  cbn [forallb] in H. apply andb_true_iff in H. destruct H as [Hx Hl].
  destruct l as [|y l]; [exact Hx|].
  change (join sep (x :: y :: l)) with (x ++ sep ++ join sep (y :: l)).
  rewrite !forallb_app, Hx, Hs, (IH Hl). reflexivity.
Qed.

Lemma nonempty_digits_cons d :
  nonempty_digits d = true -> exists c r, d = c :: r /\ is_digit c = true /\ all_digits r = true.
Proof.
  destruct d as [|c r]; [discriminate|]. cbn [nonempty_digits forallb]. intros H.
  apply andb_true_iff in H. exists c, r. unfold all_digits. tauto.
Qed.

Lemma nonempty_digits_all d : nonempty_digits d = true -> all_digits d = true.
Proof. destruct d; [discriminate|]. intros H. exact H. Qed.

Lemma thenc_assoc a b c : thenc (thenc a b) c = thenc a (thenc b c).
Proof. destruct a; reflexivity. Qed.

(* ====================================================================================== *)
(* Model side: the segments of in-scope fields                                             *)
(* ====================================================================================== *)

Definition dseg (d : bytes) : seg := ([], d).

Lemma nodigit_hd_stops R : nodigit_hd R <-> stops is_digit R.
Proof. destruct R; simpl; tauto. Qed.

Lemma seg_step_d pre d R :
  forallb is_sep pre = true -> nonempty_digits d = true -> nodigit_hd R ->
  segments (pre ++ d ++ R) = dseg d :: segments R.
Proof.
  intros Hp Hd HR.
  destruct (nonempty_digits_cons d Hd) as (c & r & E & Hc & Hr).
  destruct (span_digits_app d R (nonempty_digits_all d Hd) HR) as [T D].
  rewrite segments_S by (rewrite E; destruct pre; discriminate).
  unfold seg_head, seg_rest. rewrite (drop_while_app_all is_sep pre _ Hp).
  replace (drop_while is_sep (d ++ R)) with (d ++ R)
    by (rewrite E; cbn [app drop_while]; rewrite (digit_not_sep c Hc); reflexivity).
  replace (drop_while is_nd (d ++ R)) with (d ++ R)
    by (rewrite E; cbn [app drop_while]; rewrite (digit_not_nd c Hc); reflexivity).
  replace (take_while is_nd (d ++ R)) with (@nil ascii)
    by (rewrite E; cbn [app take_while]; rewrite (digit_not_nd c Hc); reflexivity).
  rewrite T, D. reflexivity.
Qed.

Lemma segments_join ds : forall pre R,
  forallb is_sep pre = true -> ds <> [] -> forallb nonempty_digits ds = true -> nodigit_hd R ->
  segments (pre ++ join $"." ds ++ R) = map dseg ds ++ segments R.
Proof.
  induction ds as [|d ds IH]; intros pre R Hp Hne Hds HR; [contradiction|].
  cbn [forallb] in Hds. apply andb_true_iff in Hds. destruct Hds as [Hd Hds].
  destruct ds as [|d' ds].
  - cbn [join map app]. apply seg_step_d; assumption.
  - change (join $"." (d :: d' :: ds)) with (d ++ "."%char :: join $"." (d' :: ds)).
    rewrite <- app_assoc.
    change (("."%char :: join $"." (d' :: ds)) ++ R)
      with (["."%char] ++ join $"." (d' :: ds) ++ R).
    rewrite seg_step_d; [|assumption|assumption|reflexivity].
    rewrite (IH ["."%char] R); [reflexivity|reflexivity|discriminate|assumption|assumption].
Qed.

Lemma letter_nd c : is_letter c = true -> is_nd c = true.
Proof.
  intros H. unfold is_nd.
  rewrite (VersionFacts.letter_not_digit c H), (letter_not_sep c H). reflexivity.
Qed.

Lemma digits_stop_nd d : all_digits d = true -> stops is_nd d.
Proof.
  destruct d as [|c d]; [exact (fun _ => I)|]. unfold all_digits. cbn [forallb stops]. intros H.
  apply andb_true_iff in H. apply digit_not_nd, H.
Qed.

(* the part after the numbers: ~WORD[D] *)
Lemma segments_tilde_grp w d :
  forallb is_letter w = true -> all_digits d = true ->
  segments ("~"%char :: w ++ d) = [("~"%char :: w, d)].
Proof.
  intros Hw Hd.
  assert (Hnd : forallb is_nd w = true) by (apply (forallb_imp is_letter); [apply letter_nd|exact Hw]).
  destruct (span_app is_nd w d Hnd (digits_stop_nd d Hd)) as [T D].
  destruct (span_all is_digit d Hd) as [T' D'].
  rewrite segments_S by discriminate. unfold seg_head, seg_rest.
  change (drop_while is_sep ("~"%char :: w ++ d)) with ("~"%char :: w ++ d).
  change (take_while is_nd ("~"%char :: w ++ d)) with ("~"%char :: take_while is_nd (w ++ d)).
  change (drop_while is_nd ("~"%char :: w ++ d)) with (drop_while is_nd (w ++ d)).
  rewrite T, D, T', D'. reflexivity.
Qed.

(* .WORD[D] *)
Lemma segments_dot_grp w d :
  w <> [] -> forallb is_letter w = true -> all_digits d = true ->
  segments ("."%char :: w ++ d) = [(w, d)].
Proof.
  intros Hne Hw Hd.
  assert (Hnd : forallb is_nd w = true) by (apply (forallb_imp is_letter); [apply letter_nd|exact Hw]).
  destruct (span_app is_nd w d Hnd (digits_stop_nd d Hd)) as [T D].
  destruct (span_all is_digit d Hd) as [T' D'].
  rewrite segments_S by discriminate. unfold seg_head, seg_rest.
  change (drop_while is_sep ("."%char :: w ++ d)) with (drop_while is_sep (w ++ d)).
  replace (drop_while is_sep (w ++ d)) with (w ++ d).
  2:{ destruct w as [|c w]; [contradiction|]. cbn [forallb] in Hw. apply andb_true_iff in Hw.
      cbn [app drop_while]. rewrite (letter_not_sep c (proj1 Hw)). reflexivity. }
  rewrite T, D, T', D'. reflexivity.
Qed.

(* ====================================================================================== *)
(* Reference side: the tokens of in-scope fields                                           *)
(* ====================================================================================== *)

Lemma toks_unfold s :
  toks s =
  match Rpm.skip_sep s with
  | [] => [TEnd]
  | x :: s' =>
      if Rpm.is_tilde x then TTilde :: toks s'
      else if Rpm.is_caret x then TCaret :: toks s'
      else if is_digit x
           then TNum (take_while is_digit (x :: s')) :: toks (drop_while is_digit (x :: s'))
           else TAlpha (take_while is_letter (x :: s')) :: toks (drop_while is_letter (x :: s'))
  end.
Proof.
  unfold toks at 1. cbn [toks_fuel].
  pose proof (skip_sep_length s) as L.
  destruct (Rpm.skip_sep s) as [|x s'] eqn:E; [reflexivity|].
  pose proof (skip_sep_hd _ _ _ E) as Sx. cbn [length] in L.
  destruct (Rpm.is_tilde x) eqn:Tx; [f_equal; apply toks_fuel_toks; lia|].
  destruct (Rpm.is_caret x) eqn:Cx; [f_equal; apply toks_fuel_toks; lia|].
  destruct (is_digit x) eqn:Dx.
  - f_equal. cbn [drop_while]. rewrite Dx.
    pose proof (length_drop_while is_digit s'). apply toks_fuel_toks; lia.
  - f_equal. cbn [drop_while]. rewrite (stop_char_letter x Sx Tx Cx Dx).
    pose proof (length_drop_while is_letter s'). apply toks_fuel_toks; lia.
Qed.

Lemma alnum_not_rsep c : is_alnum c = true -> Rpm.is_sep c = false.
Proof. unfold Rpm.is_sep. intros ->. reflexivity. Qed.

Lemma digit_alnum c : is_digit c = true -> is_alnum c = true.
Proof. unfold is_alnum. intros ->. reflexivity. Qed.

Lemma letter_alnum c : is_letter c = true -> is_alnum c = true.
Proof. unfold is_alnum. intros ->. apply orb_true_r. Qed.

Lemma alnum_not_tilde c : is_alnum c = true -> Rpm.is_tilde c = false.
Proof.
  intros H. unfold Rpm.is_tilde. destruct (ceqb c "~"%char) eqn:E; [|reflexivity].
  apply ceqb_eq in E. subst c. discriminate.
Qed.

Lemma alnum_not_caret c : is_alnum c = true -> Rpm.is_caret c = false.
Proof.
  intros H. unfold Rpm.is_caret. destruct (ceqb c "^"%char) eqn:E; [|reflexivity].
  apply ceqb_eq in E. subst c. discriminate.
Qed.

Lemma toks_num_step pre d R :
  forallb Rpm.is_sep pre = true -> nonempty_digits d = true -> nodigit_hd R ->
  toks (pre ++ d ++ R) = TNum d :: toks R.
Proof.
  intros Hp Hd HR.
  destruct (nonempty_digits_cons d Hd) as (c & r & E & Hc & Hr).
  destruct (span_digits_app d R (nonempty_digits_all d Hd) HR) as [T D].
  rewrite toks_unfold. unfold Rpm.skip_sep. rewrite (drop_while_app_all Rpm.is_sep pre _ Hp).
  pose proof (digit_alnum c Hc) as Ha.
  replace (drop_while Rpm.is_sep (d ++ R)) with (d ++ R)
    by (rewrite E; cbn [app drop_while]; rewrite (alnum_not_rsep c Ha); reflexivity).
  rewrite E. cbn [app].
  rewrite (alnum_not_tilde c Ha), (alnum_not_caret c Ha), Hc.
  change (c :: r ++ R) with ((c :: r) ++ R). rewrite <- E, T, D. reflexivity.
Qed.

Lemma toks_join ds : forall pre R,
  forallb Rpm.is_sep pre = true -> ds <> [] -> forallb nonempty_digits ds = true -> nodigit_hd R ->
  toks (pre ++ join $"." ds ++ R) = map TNum ds ++ toks R.
Proof.
  induction ds as [|d ds IH]; intros pre R Hp Hne Hds HR; [contradiction|].
  cbn [forallb] in Hds. apply andb_true_iff in Hds. destruct Hds as [Hd Hds].
  destruct ds as [|d' ds].
  - cbn [join map app]. apply toks_num_step; assumption.
  - change (join $"." (d :: d' :: ds)) with (d ++ "."%char :: join $"." (d' :: ds)).
    rewrite <- app_assoc.
    change (("."%char :: join $"." (d' :: ds)) ++ R)
      with (["."%char] ++ join $"." (d' :: ds) ++ R).
    rewrite toks_num_step; [|assumption|assumption|reflexivity].
    rewrite (IH ["."%char] R); [reflexivity|reflexivity|discriminate|assumption|assumption].
Qed.

(* the tokens of an optional trailing digit run *)
Definition dt (d : bytes) : list tok :=
  match d with [] => [TEnd] | _ => [TNum d; TEnd] end.

Lemma toks_dt d : all_digits d = true -> toks d = dt d.
Proof.
  intros Hd. destruct d as [|c r]; [reflexivity|].
  assert (Hn : nonempty_digits (c :: r) = true) by exact Hd.
  pose proof (toks_num_step [] (c :: r) [] eq_refl Hn I) as H.
  cbn [app] in H. rewrite app_nil_r in H. exact H.
Qed.

Lemma digits_stop_letter d : all_digits d = true -> stops is_letter d.
Proof.
  destruct d as [|c d]; [exact (fun _ => I)|]. unfold all_digits. cbn [forallb stops]. intros H.
  apply andb_true_iff in H. apply digit_not_letter, H.
Qed.

Lemma toks_alpha w d :
  w <> [] -> forallb is_letter w = true -> all_digits d = true ->
  toks (w ++ d) = TAlpha w :: dt d.
Proof.
  intros Hne Hw Hd.
  destruct (span_app is_letter w d Hw (digits_stop_letter d Hd)) as [T D].
  rewrite toks_unfold. unfold Rpm.skip_sep.
  destruct w as [|c w]; [contradiction|].
  pose proof Hw as Hw'. cbn [forallb] in Hw'. apply andb_true_iff in Hw'. destruct Hw' as [Hc _].
  pose proof (letter_alnum c Hc) as Ha.
  replace (drop_while Rpm.is_sep ((c :: w) ++ d)) with ((c :: w) ++ d)
    by (cbn [app drop_while]; rewrite (alnum_not_rsep c Ha); reflexivity).
  cbn [app].
  rewrite (alnum_not_tilde c Ha), (alnum_not_caret c Ha), (VersionFacts.letter_not_digit c Hc).
  change (c :: w ++ d) with ((c :: w) ++ d). rewrite T, D, (toks_dt d Hd). reflexivity.
Qed.

Lemma toks_tilde_grp w d :
  w <> [] -> forallb is_letter w = true -> all_digits d = true ->
  toks ("~"%char :: w ++ d) = TTilde :: TAlpha w :: dt d.
Proof.
  intros Hne Hw Hd. rewrite toks_unfold.
  change (Rpm.skip_sep ("~"%char :: w ++ d)) with ("~"%char :: w ++ d).
  change (Rpm.is_tilde "~"%char) with true. cbv iota.
  rewrite (toks_alpha w d Hne Hw Hd). reflexivity.
Qed.

Lemma toks_dot_grp w d :
  w <> [] -> forallb is_letter w = true -> all_digits d = true ->
  toks ("."%char :: w ++ d) = TAlpha w :: dt d.
Proof.
  intros Hne Hw Hd. rewrite <- (toks_alpha w d Hne Hw Hd).
  rewrite (toks_unfold ("."%char :: w ++ d)), (toks_unfold (w ++ d)). reflexivity.
Qed.

(* ====================================================================================== *)
(* The two comparisons on the shapes of the scope                                          *)
(* ====================================================================================== *)

Definition grp := option (bytes * bytes).    (* WORD, trailing digits *)

Definition grp_wf (g : grp) : Prop :=
  match g with
  | None => True
  | Some (w, d) => w <> [] /\ forallb is_letter w = true /\ all_digits d = true
  end.

(* version field: numbers, optional ~WORD[D] *)
Definition vsegs (ds : list bytes) (g : grp) : list seg :=
  map dseg ds ++ match g with None => [] | Some (w, d) => [("~"%char :: w, d)] end.
Definition vtoks (ds : list bytes) (g : grp) : list tok :=
  map TNum ds ++ match g with None => [TEnd] | Some (w, d) => TTilde :: TAlpha w :: dt d end.

(* release field: one number, optional .WORD[D] *)
Definition rsegs (d0 : bytes) (g : grp) : list seg :=
  dseg d0 :: match g with None => [] | Some (w, d) => [(w, d)] end.
Definition rtoks (d0 : bytes) (g : grp) : list tok :=
  TNum d0 :: match g with None => [TEnd] | Some (w, d) => TAlpha w :: dt d end.

Lemma grp_tail_cmp w1 d1 w2 d2 :
  thenc (bytes_cmp w1 w2) (digit_cmp d1 d2) =
  lex_short tok_cmp (TAlpha w1 :: dt d1) (TAlpha w2 :: dt d2).
Proof.
  cbn [lex_short tok_cmp]. f_equal.
  destruct d1 as [|c1 r1], d2 as [|c2 r2]; try reflexivity.
  unfold digit_cmp, cmp_on, digit_key, dt. cbn [opt_first lex_short tok_cmp].
  destruct (digits_cmp (c1 :: r1) (c2 :: r2)); reflexivity.
Qed.

Lemma seg_cmp_tilde (w1 d1 w2 d2 : bytes) :
  seg_cmp ("~"%char :: w1, d1) ("~"%char :: w2, d2) = thenc (bytes_cmp w1 w2) (digit_cmp d1 d2).
Proof. reflexivity. Qed.

Lemma seg_cmp_word (w1 d1 w2 d2 : bytes) :
  w1 <> [] -> forallb is_letter w1 = true -> w2 <> [] -> forallb is_letter w2 = true ->
  seg_cmp (w1, d1) (w2, d2) = thenc (bytes_cmp w1 w2) (digit_cmp d1 d2).
Proof.
  intros N1 L1 N2 L2.
  destruct w1 as [|c1 w1]; [contradiction|]. destruct w2 as [|c2 w2]; [contradiction|].
  cbn [forallb] in L1, L2. apply andb_true_iff in L1, L2.
  unfold seg_cmp, lex2, nondigit_cmp, lexc, cmp_on, has_tilde. cbn [fst snd has_prefix list_ascii_of_string].
  rewrite (letter_not_tilde c1 (proj1 L1)), (letter_not_tilde c2 (proj1 L2)). reflexivity.
Qed.

Lemma seg_cmp_word_pad (w d : bytes) :
  w <> [] -> forallb is_letter w = true -> seg_cmp (w, d) seg_pad = Gt.
Proof.
  intros N1 L1. destruct w as [|c w]; [contradiction|].
  cbn [forallb] in L1. apply andb_true_iff in L1.
  unfold seg_cmp, lex2, seg_pad, nondigit_cmp, lexc, cmp_on, has_tilde.
  cbn [fst snd has_prefix list_ascii_of_string].
  rewrite (letter_not_tilde c (proj1 L1)). reflexivity.
Qed.

Lemma seg_cmp_pad_word (w d : bytes) :
  w <> [] -> forallb is_letter w = true -> seg_cmp seg_pad (w, d) = Lt.
Proof.
  intros N1 L1. destruct w as [|c w]; [contradiction|].
  cbn [forallb] in L1. apply andb_true_iff in L1.
  unfold seg_cmp, lex2, seg_pad, nondigit_cmp, lexc, cmp_on, has_tilde.
  cbn [fst snd has_prefix list_ascii_of_string].
  rewrite (letter_not_tilde c (proj1 L1)). reflexivity.
Qed.

Lemma seg_cmp_dseg d1 d2 :
  nonempty_digits d1 = true -> nonempty_digits d2 = true ->
  seg_cmp (dseg d1) (dseg d2) = digits_cmp d1 d2.
Proof.
  intros H1 H2. destruct d1; [discriminate|]. destruct d2; [discriminate|]. reflexivity.
Qed.

Lemma seg_cmp_dseg_pad d : nonempty_digits d = true -> seg_cmp (dseg d) seg_pad = Gt.
Proof. intros H. destruct d; [discriminate|]. reflexivity. Qed.

Lemma seg_cmp_pad_dseg d : nonempty_digits d = true -> seg_cmp seg_pad (dseg d) = Lt.
Proof. intros H. destruct d; [discriminate|]. reflexivity. Qed.

(* version fields *)
Lemma vfield_cmp ds1 : forall ds2 g1 g2,
  forallb nonempty_digits ds1 = true -> forallb nonempty_digits ds2 = true ->
  lex_pad seg_pad seg_cmp (vsegs ds1 g1) (vsegs ds2 g2) =
  lex_short tok_cmp (vtoks ds1 g1) (vtoks ds2 g2).
Proof.
  unfold vsegs, vtoks.
  induction ds1 as [|d1 ds1 IH]; intros [|d2 ds2] g1 g2 H1 H2.
  - destruct g1 as [[w1 e1]|], g2 as [[w2 e2]|]; cbn [map app]; try reflexivity.
    cbn [lex_pad lex_pad_l]. rewrite seg_cmp_tilde, thenc_eq_r, grp_tail_cmp. reflexivity.
  - cbn [forallb] in H2. apply andb_true_iff in H2. destruct H2 as [Hd2 _].
    destruct g1 as [[w1 e1]|]; cbn [map app lex_pad lex_pad_l lex_short].
    + reflexivity.
    + rewrite (seg_cmp_pad_dseg d2 Hd2). reflexivity.
  - cbn [forallb] in H1. apply andb_true_iff in H1. destruct H1 as [Hd1 _].
    destruct g2 as [[w2 e2]|]; cbn [map app lex_pad lex_pad_l lex_short].
    + destruct d1; [discriminate|]. reflexivity.
    + rewrite (seg_cmp_dseg_pad d1 Hd1). reflexivity.
  - cbn [forallb] in H1, H2. apply andb_true_iff in H1, H2.
    destruct H1 as [Hd1 H1], H2 as [Hd2 H2].
    cbn [map app lex_pad lex_short tok_cmp].
    rewrite (seg_cmp_dseg d1 d2 Hd1 Hd2), (IH ds2 g1 g2 H1 H2). reflexivity.
Qed.

(* release fields *)
Lemma rfield_cmp d1 d2 g1 g2 :
  nonempty_digits d1 = true -> nonempty_digits d2 = true -> grp_wf g1 -> grp_wf g2 ->
  lex_pad seg_pad seg_cmp (rsegs d1 g1) (rsegs d2 g2) =
  lex_short tok_cmp (rtoks d1 g1) (rtoks d2 g2).
Proof.
  intros H1 H2 W1 W2. unfold rsegs, rtoks.
  cbn [lex_pad lex_short tok_cmp]. rewrite (seg_cmp_dseg d1 d2 H1 H2). f_equal.
  destruct g1 as [[w1 e1]|], g2 as [[w2 e2]|]; cbn [grp_wf] in W1, W2.
  - destruct W1 as (N1 & L1 & _), W2 as (N2 & L2 & _).
    cbn [lex_pad lex_pad_l]. rewrite (seg_cmp_word w1 e1 w2 e2 N1 L1 N2 L2), thenc_eq_r.
    apply grp_tail_cmp.
  - destruct W1 as (N1 & L1 & _). cbn [lex_pad lex_pad_l lex_short tok_cmp].
    rewrite (seg_cmp_word_pad w1 e1 N1 L1). reflexivity.
  - destruct W2 as (N2 & L2 & _). cbn [lex_pad lex_pad_l lex_short tok_cmp].
    rewrite (seg_cmp_pad_word w2 e2 N2 L2). reflexivity.
  - reflexivity.
Qed.

(* ====================================================================================== *)
(* From the boolean recognisers to the shapes                                              *)
(* ====================================================================================== *)

Definition vgstr (g : grp) : bytes :=
  match g with None => [] | Some (w, d) => "~"%char :: w ++ d end.
Definition rgstr (g : grp) : bytes :=
  match g with None => [] | Some (w, d) => "."%char :: w ++ d end.

Lemma grp_ok_spec g : grp_ok g = true -> exists w d, g = w ++ d /\ grp_wf (Some (w, d)).
Proof.
  unfold grp_ok, span. intros H. apply andb_true_iff in H. destruct H as [Hw Hd].
  exists (take_while is_letter g), (drop_while is_letter g).
  split; [symmetry; apply take_drop|]. cbn [grp_wf]. split; [|split].
  - destruct (take_while is_letter g); [discriminate|discriminate].
  - apply take_while_all.
  - exact Hd.
Qed.

Lemma vfield_ok_spec v :
  vfield_ok v = true ->
  exists ds g, ds <> [] /\ forallb nonempty_digits ds = true /\ grp_wf g /\
               v = join $"." ds ++ vgstr g.
Proof.
  unfold vfield_ok. pose proof (split2_spec "~"%char v) as S.
  destruct (split2_c "~"%char v) as [nums [g|]]; intros H.
  - destruct S as [-> _]. apply andb_true_iff in H. destruct H as [Hds Hg].
    destruct (grp_ok_spec g Hg) as (w & d & -> & W).
    exists (split_c "."%char nums), (Some (w, d)).
    split; [apply split_c_nonempty|]. split; [exact Hds|]. split; [exact W|].
    cbn [vgstr]. change $"." with ["."%char]. rewrite join_split_c. reflexivity.
  - destruct S as [-> _].
    exists (split_c "."%char v), None.
    split; [apply split_c_nonempty|]. split; [exact H|]. split; [exact I|].
    cbn [vgstr]. change $"." with ["."%char]. rewrite join_split_c, app_nil_r. reflexivity.
Qed.

Lemma rfield_ok_spec r :
  rfield_ok r = true ->
  exists d0 g, nonempty_digits d0 = true /\ grp_wf g /\ r = d0 ++ rgstr g.
Proof.
  unfold rfield_ok. pose proof (split2_spec "."%char r) as S.
  destruct (split2_c "."%char r) as [d0 [g|]]; intros H.
  - destruct S as [-> _]. apply andb_true_iff in H. destruct H as [Hd Hg].
    destruct (grp_ok_spec g Hg) as (w & d & -> & W).
    exists d0, (Some (w, d)). split; [exact Hd|]. split; [exact W|]. reflexivity.
  - destruct S as [-> _]. exists r, None. split; [exact H|]. split; [exact I|].
    cbn [rgstr]. rewrite app_nil_r. reflexivity.
Qed.

(* ---------- segments / tokens of the fields ---------- *)

Lemma vfield_segments ds g :
  ds <> [] -> forallb nonempty_digits ds = true -> grp_wf g ->
  segments (join $"." ds ++ vgstr g) = vsegs ds g.
Proof.
  intros Hne Hds W.
  pose proof (segments_join ds [] (vgstr g) eq_refl Hne Hds) as S. cbn [app] in S.
  rewrite S by (destruct g as [[w d]|]; [reflexivity|exact I]).
  unfold vsegs. f_equal. destruct g as [[w d]|]; [|reflexivity].
  destruct W as (_ & Hw & Hd). apply segments_tilde_grp; assumption.
Qed.

Lemma vfield_toks ds g :
  ds <> [] -> forallb nonempty_digits ds = true -> grp_wf g ->
  toks (join $"." ds ++ vgstr g) = vtoks ds g.
Proof.
  intros Hne Hds W.
  pose proof (toks_join ds [] (vgstr g) eq_refl Hne Hds) as S. cbn [app] in S.
  rewrite S by (destruct g as [[w d]|]; [reflexivity|exact I]).
  unfold vtoks. f_equal. destruct g as [[w d]|]; [|reflexivity].
  destruct W as (Hn & Hw & Hd). apply toks_tilde_grp; assumption.
Qed.

Lemma rfield_segments d0 g :
  nonempty_digits d0 = true -> grp_wf g -> segments (d0 ++ rgstr g) = rsegs d0 g.
Proof.
  intros Hd W.
  pose proof (seg_step_d [] d0 (rgstr g) eq_refl Hd) as S. cbn [app] in S.
  rewrite S by (destruct g as [[w d]|]; [reflexivity|exact I]).
  unfold rsegs. f_equal. destruct g as [[w d]|]; [|reflexivity].
  destruct W as (Hn & Hw & Hdd). apply segments_dot_grp; assumption.
Qed.

Lemma rfield_toks d0 g :
  nonempty_digits d0 = true -> grp_wf g -> toks (d0 ++ rgstr g) = rtoks d0 g.
Proof.
  intros Hd W.
  pose proof (toks_num_step [] d0 (rgstr g) eq_refl Hd) as S. cbn [app] in S.
  rewrite S by (destruct g as [[w d]|]; [reflexivity|exact I]).
  unfold rtoks. f_equal. destruct g as [[w d]|]; [|reflexivity].
  destruct W as (Hn & Hw & Hdd). apply toks_dot_grp; assumption.
Qed.

(* on version fields of the scope, go-univers' compareRPMVersionString IS rpmvercmp *)
Theorem vfield_str_cmp v1 v2 :
  vfield_ok v1 = true -> vfield_ok v2 = true -> str_cmp v1 v2 = Rpm.rpmvercmp v1 v2.
Proof.
  intros H1 H2.
  destruct (vfield_ok_spec v1 H1) as (ds1 & g1 & N1 & D1 & W1 & ->).
  destruct (vfield_ok_spec v2 H2) as (ds2 & g2 & N2 & D2 & W2 & ->).
  rewrite rpmvercmp_as_tokens. unfold str_cmp, cmp_on, toks_cmp.
  rewrite !vfield_segments, !vfield_toks by assumption.
  apply vfield_cmp; assumption.
Qed.

(* the same on release fields of the scope *)
Theorem rfield_str_cmp r1 r2 :
  rfield_ok r1 = true -> rfield_ok r2 = true -> str_cmp r1 r2 = Rpm.rpmvercmp r1 r2.
Proof.
  intros H1 H2.
  destruct (rfield_ok_spec r1 H1) as (d1 & g1 & D1 & W1 & ->).
  destruct (rfield_ok_spec r2 H2) as (d2 & g2 & D2 & W2 & ->).
  rewrite rpmvercmp_as_tokens. unfold str_cmp, cmp_on, toks_cmp.
  rewrite !rfield_segments, !rfield_toks by assumption.
  apply rfield_cmp; assumption.
Qed.

(* a release of the scope against no release *)
Lemma rfield_vs_empty r : rfield_ok r = true -> str_cmp r [] = Gt /\ str_cmp [] r = Lt.
Proof.
  intros H. destruct (rfield_ok_spec r H) as (d0 & g & D0 & W & ->).
  unfold str_cmp, cmp_on. rewrite (rfield_segments d0 g D0 W), segments_nil.
  unfold rsegs. cbn [lex_pad lex_pad_l].
  rewrite (seg_cmp_dseg_pad d0 D0), (seg_cmp_pad_dseg d0 D0). split; reflexivity.
Qed.

(* ====================================================================================== *)
(* Characters of in-scope fields                                                           *)
(* ====================================================================================== *)

Definition fchar (c : ascii) : bool :=
  is_digit c || is_letter c || ceqb c "."%char || ceqb c "~"%char.

Lemma fchar_cases c :
  fchar c = true -> is_digit c = true \/ is_letter c = true \/ c = "."%char \/ c = "~"%char.
Proof.
  unfold fchar. rewrite !orb_true_iff. intros [[[H|H]|H]|H]; auto;
    apply ceqb_eq in H; auto.
Qed.

Lemma fchar_valid c : fchar c = true -> valid_char c = true.
Proof.
  intros H. destruct (fchar_cases c H) as [D|[L|[->| ->]]]; try reflexivity.
  - apply alnum_valid, digit_alnum, D.
  - apply alnum_valid, letter_alnum, L.
Qed.

Lemma fchar_field c : fchar c = true -> Rpm.is_field_char c = true.
Proof.
  intros H. destruct (fchar_cases c H) as [D|[L|[->| ->]]]; try reflexivity.
  - unfold Rpm.is_field_char. rewrite (digit_alnum c D). reflexivity.
  - unfold Rpm.is_field_char. rewrite (letter_alnum c L). reflexivity.
Qed.

Lemma fchar_not x c : fchar x = false -> fchar c = true -> ceqb x c = false.
Proof.
  intros Hx H. destruct (ceqb x c) eqn:E; [|reflexivity].
  apply ceqb_eq in E. subst c. congruence.
Qed.

Lemma fchar_not_space c : fchar c = true -> is_space c = false.
Proof.
  intros H. destruct (fchar_cases c H) as [D|[L|[->| ->]]]; try reflexivity.
  - apply is_digit_spec in D. unfold is_space.
    destruct (code c =? 32) eqn:E1; [apply N.eqb_eq in E1; lia|].
    destruct (9 <=? code c) eqn:E2; [|reflexivity].
    destruct (code c <=? 13) eqn:E3; [apply N.leb_le in E3; lia|reflexivity].
  - pose proof (letter_not_sep c L) as _.
    unfold is_letter, is_lower, is_upper, in_range in L.
    rewrite orb_true_iff, !andb_true_iff, !N.leb_le in L. unfold is_space.
    destruct (code c =? 32) eqn:E1; [apply N.eqb_eq in E1; lia|].
    destruct (9 <=? code c) eqn:E2; [|reflexivity].
    destruct (code c <=? 13) eqn:E3; [apply N.leb_le in E3; lia|reflexivity].
Qed.

Lemma fchars_contains x s : fchar x = false -> forallb fchar s = true -> contains_c x s = false.
Proof.
  intros Hx H. unfold contains_c. induction s as [|c s IH]; [reflexivity|].
  cbn [forallb] in H. apply andb_true_iff in H. destruct H as [Hc Hs].
  cbn [existsb]. rewrite (fchar_not x c Hx Hc), (IH Hs). reflexivity.
Qed.

Lemma fchars_valid s : forallb fchar s = true -> valid_str s = true.
Proof. apply forallb_imp, fchar_valid. Qed.

Lemma fchars_field s : forallb fchar s = true -> forallb Rpm.is_field_char s = true.
Proof. apply forallb_imp, fchar_field. Qed.

Lemma fchars_no_space s : forallb fchar s = true -> no_space s = true.
Proof.
  unfold no_space. apply forallb_imp. intros c H. rewrite (fchar_not_space c H). reflexivity.
Qed.

Lemma digits_fchars d : all_digits d = true -> forallb fchar d = true.
Proof. apply forallb_imp. intros c H. unfold fchar. rewrite H. reflexivity. Qed.

Lemma letters_fchars w : forallb is_letter w = true -> forallb fchar w = true.
Proof. apply forallb_imp. intros c H. unfold fchar. rewrite H. rewrite orb_true_r. reflexivity. Qed.

Lemma grp_fchars w d : grp_wf (Some (w, d)) -> forallb fchar (w ++ d) = true.
Proof.
  intros (_ & Hw & Hd). rewrite forallb_app, (letters_fchars w Hw), (digits_fchars d Hd). reflexivity.
Qed.

Lemma vfield_fchars v : vfield_ok v = true -> v <> [] /\ forallb fchar v = true.
Proof.
  intros H. destruct (vfield_ok_spec v H) as (ds & g & Hne & Hds & W & ->). split.
  - destruct ds as [|d ds]; [contradiction|].
    cbn [forallb] in Hds. apply andb_true_iff in Hds. destruct Hds as [Hd _].
    destruct d as [|c d]; [discriminate|]. destruct ds; discriminate.
  - rewrite forallb_app. apply andb_true_iff. split.
    + apply forallb_join; [reflexivity|].
      apply (forallb_imp nonempty_digits); [|exact Hds].
      intros d Hd. apply digits_fchars, nonempty_digits_all, Hd.
    + destruct g as [[w d]|]; [|reflexivity]. cbn [vgstr forallb].
      rewrite (grp_fchars w d W). reflexivity.
Qed.

Lemma rfield_fchars r : rfield_ok r = true -> r <> [] /\ forallb fchar r = true.
Proof.
  intros H. destruct (rfield_ok_spec r H) as (d0 & g & Hd & W & ->). split.
  - destruct d0; [discriminate|discriminate].
  - rewrite forallb_app, (digits_fchars d0 (nonempty_digits_all d0 Hd)).
    destruct g as [[w d]|]; [|reflexivity]. cbn [rgstr forallb andb].
    rewrite (grp_fchars w d W). reflexivity.
Qed.

(* ====================================================================================== *)
(* Both parsers on in-scope texts                                                          *)
(* ====================================================================================== *)

Definition estr (eo : option bytes) : bytes :=
  match eo with None => [] | Some e => e ++ [":"%char] end.
Definition rstr (ro : option bytes) : bytes :=
  match ro with None => [] | Some r => "-"%char :: r end.
Definition eval_e (eo : option bytes) : N :=
  match eo with None => 0 | Some e => digits_val e end.
Definition eo_ok (eo : option bytes) : Prop :=
  match eo with None => True | Some e => nonempty_digits e = true /\ digits_val e < two63 end.
Definition ro_chars (ro : option bytes) : Prop :=
  match ro with None => True | Some r => forallb fchar r = true end.
Definition rel_of (ro : option bytes) : bytes :=
  match ro with None => [] | Some r => r end.

Lemma model_split_epoch_some e x :
  nonempty_digits e = true -> x <> [] -> Version.split_epoch (e ++ ":"%char :: x) = (e, x).
Proof.
  intros He Hx. unfold Version.split_epoch, span.
  destruct (span_digits_app e (":"%char :: x) (nonempty_digits_all e He) eq_refl) as [T D].
  rewrite T, D. destruct e; [discriminate|]. destruct x; [contradiction|reflexivity].
Qed.

Lemma spec_split_epoch_some e x :
  nonempty_digits e = true -> Rpm.split_epoch (e ++ ":"%char :: x) = (digits_val e, x).
Proof.
  intros He. unfold Rpm.split_epoch.
  destruct (span_digits_app e (":"%char :: x) (nonempty_digits_all e He) eq_refl) as [T D].
  rewrite T, D. destruct e; [discriminate|reflexivity].
Qed.

Lemma spec_split_epoch_none x : contains_c ":"%char x = false -> Rpm.split_epoch x = (0, x).
Proof.
  intros H. unfold Rpm.split_epoch.
  destruct (take_while is_digit x) as [|d ds]; [reflexivity|].
  destruct (drop_while is_digit x) as [|c rest] eqn:D; [reflexivity|].
  destruct (ceqb c ":"%char) eqn:E; [|reflexivity].
  apply ceqb_eq in E. exfalso.
  apply (contains_c_false _ _ c H); [|assumption]. eapply drop_while_in; eassumption.
Qed.

Lemma atoi_digits e :
  nonempty_digits e = true -> digits_val e < two63 -> atoi e = Some (Z.of_N (digits_val e)).
Proof.
  intros He Hv. unfold atoi.
  destruct (nonempty_digits_cons e He) as (c & r & E & Hc & Hr). rewrite E in *.
  assert (N1 : ceqb c "-"%char = false).
  { destruct (ceqb c "-"%char) eqn:X; [|reflexivity]. apply ceqb_eq in X. subst c. discriminate. }
  assert (N2 : ceqb c "+"%char = false).
  { destruct (ceqb c "+"%char) eqn:X; [|reflexivity]. apply ceqb_eq in X. subst c. discriminate. }
  rewrite N1, N2, He. apply N.ltb_lt in Hv. rewrite Hv. reflexivity.
Qed.

Lemma cut_last_vr v ro :
  forallb fchar v = true -> ro_chars ro ->
  cut_last_c "-"%char (v ++ rstr ro) =
  match ro with None => None | Some r => Some (v, r) end.
Proof.
  intros Hv Hr. destruct ro as [r|]; cbn [rstr].
  - apply cut_last_hit. apply fchars_contains; [reflexivity|exact Hr].
  - rewrite app_nil_r. apply cut_last_none. apply fchars_contains; [reflexivity|exact Hv].
Qed.

Lemma vr_no_colon v ro :
  forallb fchar v = true -> ro_chars ro -> contains_c ":"%char (v ++ rstr ro) = false.
Proof.
  intros Hv Hr. unfold contains_c. rewrite existsb_app.
  fold (contains_c ":"%char v). rewrite (fchars_contains ":"%char v eq_refl Hv).
  destruct ro as [r|]; [|reflexivity]. cbn [rstr existsb orb].
  change (ceqb ":"%char "-"%char) with false. cbn [orb].
  apply (fchars_contains ":"%char r eq_refl Hr).
Qed.

Definition core_of (eo : option bytes) (v : bytes) (ro : option bytes) : core :=
  {| epoch := Z.of_N (eval_e eo); version := v; release := rel_of ro |}.

Lemma model_parse eo v ro :
  eo_ok eo -> v <> [] -> forallb fchar v = true -> ro_chars ro ->
  parse_core (estr eo ++ v ++ rstr ro) = Some (core_of eo v ro).
Proof.
  intros He Hne Hv Hr.
  pose proof (cut_last_vr v ro Hv Hr) as Hcut.
  pose proof (vr_no_colon v ro Hv Hr) as Hnc.
  assert (Hvr : v ++ rstr ro <> []) by (destruct v; [contradiction|discriminate]).
  assert (Hrv : valid_str (rel_of ro) = true).
  { destruct ro as [r|]; [apply fchars_valid, Hr|reflexivity]. }
  pose proof (fchars_valid v Hv) as Hvv.
  assert (Tail : forall z : Z,
    (let (vpart, rpart) :=
       match match ro with None => None | Some r => Some (v, r) end with
       | Some (a, b) => (a, b)
       | None => (v ++ rstr ro, [])
       end in
     match vpart with
     | [] => None
     | _ => if valid_str vpart && valid_str rpart
            then Some {| epoch := z; version := vpart; release := rpart |} else None
     end) = Some {| epoch := z; version := v; release := rel_of ro |}).
  { intros z. destruct ro as [r|]; cbn [rel_of rstr] in *.
    - destruct v; [contradiction|]. rewrite Hvv, Hrv. reflexivity.
    - rewrite app_nil_r. destruct v; [contradiction|]. rewrite Hvv. reflexivity. }
  unfold parse_core, core_of.
  destruct eo as [e|]; cbn [estr eval_e].
  - destruct He as [He1 He2].
    rewrite <- app_assoc. change ([":"%char] ++ v ++ rstr ro) with (":"%char :: v ++ rstr ro).
    rewrite (model_split_epoch_some e _ He1 Hvr), Hcut.
    pose proof (atoi_digits e He1 He2) as Ha.
    destruct e as [|c e]; [discriminate|]. cbn [app]. rewrite Ha.
    replace (Z.of_N (digits_val (c :: e)) <? 0)%Z with false by (symmetry; apply Z.ltb_ge; lia).
    specialize (Tail (Z.of_N (digits_val (c :: e)))).
    exact Tail.
  - cbn [app]. rewrite (split_epoch_nocolon _ Hnc), Hcut.
    specialize (Tail 0%Z).
    destruct v as [|c' v']; [contradiction|]. exact Tail.
Qed.

Lemma spec_split eo v ro :
  eo_ok eo -> forallb fchar v = true -> ro_chars ro ->
  Rpm.split_evr (estr eo ++ v ++ rstr ro) = (eval_e eo, v, ro).
Proof.
  intros He Hv Hr.
  pose proof (cut_last_vr v ro Hv Hr) as Hcut.
  pose proof (vr_no_colon v ro Hv Hr) as Hnc.
  unfold Rpm.split_evr.
  destruct eo as [e|]; cbn [estr eval_e].
  - destruct He as [He1 He2].
    rewrite <- app_assoc. change ([":"%char] ++ v ++ rstr ro) with (":"%char :: v ++ rstr ro).
    rewrite (spec_split_epoch_some e _ He1), Hcut.
    destruct ro; [reflexivity|]. cbn [rstr]. rewrite app_nil_r. reflexivity.
  - cbn [app]. rewrite (spec_split_epoch_none _ Hnc), Hcut.
    destruct ro; [reflexivity|]. cbn [rstr]. rewrite app_nil_r. reflexivity.
Qed.

(* ---------- the decomposition of an in-scope text ---------- *)

Definition ro_ok (ro : option bytes) : Prop :=
  match ro with None => True | Some r => rfield_ok r = true end.

Lemma vr_ok_spec vr :
  vr_ok vr = true -> exists v ro, vr = v ++ rstr ro /\ vfield_ok v = true /\ ro_ok ro.
Proof.
  unfold vr_ok. pose proof (split2_spec "-"%char vr) as S.
  destruct (split2_c "-"%char vr) as [v [r|]]; intros H.
  - destruct S as [-> _]. apply andb_true_iff in H. destruct H as [Hv Hr].
    exists v, (Some r). split; [reflexivity|]. split; [exact Hv|exact Hr].
  - destruct S as [-> _]. exists vr, None. cbn [rstr]. rewrite app_nil_r.
    split; [reflexivity|]. split; [exact H|exact I].
Qed.

Lemma in_scope_spec s :
  in_scope s = true ->
  exists eo v ro, s = estr eo ++ v ++ rstr ro /\ eo_ok eo /\ vfield_ok v = true /\ ro_ok ro.
Proof.
  unfold in_scope. pose proof (split2_spec ":"%char s) as S.
  destruct (split2_c ":"%char s) as [e [rest|]]; intros H.
  - destruct S as [-> _]. apply andb_true_iff in H. destruct H as [H Hvr].
    apply andb_true_iff in H. destruct H as [He Hlt]. apply N.ltb_lt in Hlt.
    destruct (vr_ok_spec rest Hvr) as (v & ro & -> & Hv & Hr).
    exists (Some e), v, ro. cbn [estr eo_ok]. rewrite <- app_assoc.
    split; [reflexivity|]. split; [split; assumption|]. split; assumption.
  - destruct (vr_ok_spec s H) as (v & ro & -> & Hv & Hr).
    exists None, v, ro. cbn [estr eo_ok app].
    split; [reflexivity|]. split; [exact I|]. split; assumption.
Qed.

Lemma ro_ok_chars ro : ro_ok ro -> ro_chars ro.
Proof. destruct ro as [r|]; [|auto]. intros H. apply (rfield_fchars r H). Qed.

Lemma scope_no_space eo v ro :
  eo_ok eo -> forallb fchar v = true -> ro_chars ro ->
  trim_space (estr eo ++ v ++ rstr ro) = estr eo ++ v ++ rstr ro.
Proof.
  intros He Hv Hr. apply trim_space_no_space. rewrite !no_space_app.
  rewrite (fchars_no_space v Hv).
  assert (E : no_space (estr eo) = true).
  { destruct eo as [e|]; [|reflexivity]. destruct He as [He _]. cbn [estr].
    rewrite no_space_app, (fchars_no_space e (digits_fchars e (nonempty_digits_all e He))).
    reflexivity. }
  assert (R : no_space (rstr ro) = true).
  { destruct ro as [r|]; [|reflexivity]. cbn [rstr]. unfold no_space in *. cbn [forallb].
    apply (fchars_no_space r Hr). }
  rewrite E, R. reflexivity.
Qed.

(* ====================================================================================== *)
(* The theorems                                                                            *)
(* ====================================================================================== *)

(* every in-scope text is valid for the reference (so the [spec_valid] hypotheses below are
   redundant; they are kept to match the intended reading) *)
Theorem in_scope_spec_valid s : in_scope s = true -> Rpm.spec_valid s = true.
Proof.
  intros H. destruct (in_scope_spec s H) as (eo & v & ro & -> & He & Hv & Hr).
  destruct (vfield_fchars v Hv) as [Hne Hvc]. pose proof (ro_ok_chars ro Hr) as Hrc.
  unfold Rpm.spec_valid. rewrite (spec_split eo v ro He Hvc Hrc).
  assert (V : Rpm.valid_field v = true).
  { unfold Rpm.valid_field. destruct v; [contradiction|]. apply fchars_field, Hvc. }
  rewrite V. destruct ro as [r|]; [|reflexivity].
  destruct (rfield_fchars r Hr) as [Hrn Hrc']. unfold Rpm.valid_field.
  destruct r; [contradiction|]. apply fchars_field, Hrc'.
Qed.

Lemma scope_v_parse eo v ro :
  eo_ok eo -> vfield_ok v = true -> ro_ok ro ->
  VLayer.parse parse_core raw_orig (estr eo ++ v ++ rstr ro) =
  Some {| v_core := core_of eo v ro; v_orig := estr eo ++ v ++ rstr ro |}.
Proof.
  intros He Hv Hr.
  destruct (vfield_fchars v Hv) as [Hne Hvc]. pose proof (ro_ok_chars ro Hr) as Hrc.
  unfold VLayer.parse. rewrite (scope_no_space eo v ro He Hvc Hrc).
  rewrite (model_parse eo v ro He Hne Hvc Hrc). reflexivity.
Qed.

Theorem rpm_accepts_spec_valid s :
  in_scope s = true -> Rpm.spec_valid s = true -> exists t, v_show Rpm.Entry.v s = Some t.
Proof.
  intros H _. destruct (in_scope_spec s H) as (eo & v & ro & -> & He & Hv & Hr).
  unfold Rpm.Entry.v, mk_vops. cbn [v_show].
  rewrite (scope_v_parse eo v ro He Hv Hr). eexists. reflexivity.
Qed.

Lemma core_cmp_is_evr eo1 v1 ro1 eo2 v2 ro2 :
  vfield_ok v1 = true -> vfield_ok v2 = true -> ro_ok ro1 -> ro_ok ro2 ->
  cmp_core (core_of eo1 v1 ro1) (core_of eo2 v2 ro2) =
  Rpm.evr_cmp (eval_e eo1, v1, ro1) (eval_e eo2, v2, ro2).
Proof.
  intros Hv1 Hv2 Hr1 Hr2.
  unfold cmp_core, lexc, cmp_on, core_of, Rpm.evr_cmp, lex2.
  cbn [epoch version release fst snd].
  rewrite <- N2Z.inj_compare, thenc_assoc, (vfield_str_cmp v1 v2 Hv1 Hv2).
  f_equal. f_equal.
  destruct ro1 as [r1|], ro2 as [r2|]; cbn [rel_of opt_first ro_ok] in *.
  - apply rfield_str_cmp; assumption.
  - apply (rfield_vs_empty r1 Hr1).
  - apply (rfield_vs_empty r2 Hr2).
  - reflexivity.
Qed.

(* MAIN THEOREM: on the scope, Compare of the model is the reference order of rpm *)
Theorem rpm_cmp_is_spec a b :
  in_scope a = true -> in_scope b = true ->
  Rpm.spec_valid a = true -> Rpm.spec_valid b = true ->
  v_cmp Rpm.Entry.v a b = Rpm.spec_cmp a b.
Proof.
  intros Ha Hb Sa Sb. rewrite (spec_cmp_some a b Sa Sb).
  destruct (in_scope_spec a Ha) as (eo1 & v1 & ro1 & -> & He1 & Hv1 & Hr1).
  destruct (in_scope_spec b Hb) as (eo2 & v2 & ro2 & -> & He2 & Hv2 & Hr2).
  unfold Rpm.Entry.v, mk_vops. cbn [v_cmp].
  rewrite (scope_v_parse eo1 v1 ro1 He1 Hv1 Hr1), (scope_v_parse eo2 v2 ro2 He2 Hv2 Hr2).
  unfold VLayer.cmp. cbn [v_core]. f_equal.
  unfold Rpm.rpm_cmp.
  rewrite (spec_split eo1 v1 ro1 He1 (proj2 (vfield_fchars v1 Hv1)) (ro_ok_chars ro1 Hr1)).
  rewrite (spec_split eo2 v2 ro2 He2 (proj2 (vfield_fchars v2 Hv2)) (ro_ok_chars ro2 Hr2)).
  apply core_cmp_is_evr; assumption.
Qed.

(* the same without the redundant hypotheses *)
Corollary rpm_cmp_is_spec' a b :
  in_scope a = true -> in_scope b = true -> v_cmp Rpm.Entry.v a b = Rpm.spec_cmp a b.
Proof.
  intros Ha Hb. apply rpm_cmp_is_spec; auto using in_scope_spec_valid.
Qed.

(* ====================================================================================== *)
(* Outside the scope the model (= the Go code) is NOT rpmvercmp: one witness per mechanism *)
(* ====================================================================================== *)

Definition deviates (a b : bytes) : Prop :=
  Rpm.spec_valid a = true /\ Rpm.spec_valid b = true /\
  v_cmp Rpm.Entry.v a b <> Rpm.spec_cmp a b.

(* a letter run glued to a number is a segment of its own for rpm ("1.0a" = 1,0,a), and
   an alphabetic segment is older than a numeric one; the model says Gt, rpm says Lt *)
Lemma rpm_cmp_is_spec_refuted_alpha_vs_num : deviates $"1.0a" $"1.0.1".
Proof. repeat split; vm_compute; congruence. Qed.

(* caret: older than any further segment for rpm; a plain separator for the model *)
Lemma rpm_cmp_is_spec_refuted_caret : deviates $"1.0^git1" $"1.0.1".
Proof. repeat split; vm_compute; congruence. Qed.

(* underscore: a separator for rpm (Eq); part of a non-digit run for the model (Gt) *)
Lemma rpm_cmp_is_spec_refuted_underscore : deviates $"1_0" $"1.0".
Proof. repeat split; vm_compute; congruence. Qed.

(* a tilde inside a non-digit run is an ordinary byte for the model (Gt); rpm: Lt *)
Lemma rpm_cmp_is_spec_refuted_inner_tilde : deviates $"1.0a~rc1" $"1.0a".
Proof. repeat split; vm_compute; congruence. Qed.

(* number against word at the same position: the model puts the word above (Lt), rpm the number (Gt) *)
Lemma rpm_cmp_is_spec_refuted_num_vs_word : deviates $"1.0~1" $"1.0~a".
Proof. repeat split; vm_compute; congruence. Qed.

Lemma rpm_cmp_is_spec_refuted_num_vs_word_release : deviates $"1-1" $"1-a".
Proof. repeat split; vm_compute; congruence. Qed.

(* the witnesses are indeed outside the scope *)
Lemma refuted_out_of_scope :
  in_scope $"1.0a" = false /\ in_scope $"1.0^git1" = false /\ in_scope $"1_0" = false /\
  in_scope $"1.0a~rc1" = false /\ in_scope $"1.0~1" = false /\ in_scope $"1-a" = false.
Proof. repeat split; reflexivity. Qed.

Print Assumptions rpm_cmp_is_spec.
Print Assumptions rpm_cmp_is_spec'.
Print Assumptions rpm_accepts_spec_valid.
Print Assumptions in_scope_spec_valid.
Print Assumptions vfield_str_cmp.
Print Assumptions rfield_str_cmp.
Print Assumptions rpm_cmp_is_spec_refuted_alpha_vs_num.
Print Assumptions rpm_cmp_is_spec_refuted_caret.
Print Assumptions rpm_cmp_is_spec_refuted_underscore.
Print Assumptions rpm_cmp_is_spec_refuted_inner_tilde.
Print Assumptions rpm_cmp_is_spec_refuted_num_vs_word.
Print Assumptions rpm_cmp_is_spec_refuted_num_vs_word_release.
