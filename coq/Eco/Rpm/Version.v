(* Eco/Rpm/Version.v — model of pkg/ecosystem/rpm/version.go (definitions only). *)
From Verif.Base Require Import Bytes GoNum.
From Verif.Eco Require Import VLayer.
Local Open Scope N_scope.

(* Version{epoch, version, release} *)
Record core := { epoch : Z; version : bytes; release : bytes }.

(* isValidRPMVersionChar (ASCII): letters, digits and . + - ~ ^ _ *)
Definition valid_char (c : ascii) : bool :=
  is_letter c || is_digit c || existsb (ceqb c) $".+-~^_".

(* validateRPMVersionString *)
Definition valid_str (s : bytes) : bool := forallb valid_char s.

(* versionPattern ^(?:(\d+):)?(.+)$ on the non-empty trimmed text: (epochStr, versionReleasePart).
   The optional group is tried first; it is given up when nothing is left for (.+).
   (A text containing "\n" does not match at all; such a text is rejected by the character
   validation below anyway, so the two cases are not distinguished.) *)
Definition split_epoch (t : bytes) : bytes * bytes :=
  let (ds, rest) := span is_digit t in
  match ds, rest with
  | _ :: _, c :: ((_ :: _) as vr) => if ceqb c ":"%char then (ds, vr) else ([], t)
  | _, _ => ([], t)
  end.

(* NewVersion on the trimmed text *)
Definition parse_core (t : bytes) : option core :=
  match t with
  | [] => None
  | _ =>
      let (epoch_str, vr) := split_epoch t in
      let (vpart, rpart) :=
        match cut_last_c "-"%char vr with
        | Some (a, b) => (a, b)
        | None => (vr, [])
        end in
      let ep :=
        match epoch_str with
        | [] => Some 0%Z
        | _ => atoi epoch_str
        end in
      match ep with
      | None => None
      | Some e =>
          if (e <? 0)%Z then None
          else match vpart with
               | [] => None
               | _ =>
                   if valid_str vpart && valid_str rpart
                   then Some {| epoch := e; version := vpart; release := rpart |}
                   else None
               end
      end
  end.

(* isSeparator: . + - ^ *)
Definition is_sep (c : ascii) : bool := existsb (ceqb c) $".+-^".
(* the characters of a "non-digit segment": neither digit nor separator *)
Definition is_nd (c : ascii) : bool := negb (is_digit c) && negb (is_sep c).

(* One turn of the loop of compareRPMVersionString consumes, from each string independently of the
   other one: separators, a (possibly empty) non-digit segment, a (possibly empty) digit segment.
   [segments s] is the list of (non-digit, digit) pairs the loop sees for s until s is used up;
   afterwards the loop sees ("","") for it.  fuel = length s (every turn on a non-empty rest
   consumes at least one byte). *)
Definition seg := (bytes * bytes)%type.

Fixpoint segments_fuel (fuel : nat) (s : bytes) : list seg :=
  match fuel with
  | O => []
  | S k =>
      match s with
      | [] => []
      | _ =>
          let s1 := drop_while is_sep s in
          let (nd, s2) := span is_nd s1 in
          let (d, s3) := span is_digit s2 in
          (nd, d) :: segments_fuel k s3
      end
  end.
Definition segments (s : bytes) : list seg := segments_fuel (length s) s.

(* compareRPMNonDigits: a leading tilde sorts first, then strings.Compare *)
Definition has_tilde (s : bytes) : bool := has_prefix $"~" s.
Definition nondigit_cmp : bytes -> bytes -> comparison :=
  lexc (cmp_on (fun s => negb (has_tilde s)) bool_cmp) bytes_cmp.

(* compareRPMDigits: "" below everything, otherwise as integers of any size *)
Definition digit_key (s : bytes) : option bytes :=
  match s with [] => None | _ => Some s end.
Definition digit_cmp : bytes -> bytes -> comparison :=
  cmp_on digit_key (opt_first digits_cmp).

Definition seg_cmp : seg -> seg -> comparison := lex2 nondigit_cmp digit_cmp.
Definition seg_pad : seg := ([], []).

(* compareRPMVersionString *)
Definition str_cmp : bytes -> bytes -> comparison :=
  cmp_on segments (lex_pad seg_pad seg_cmp).

(* Compare: epoch, version, release *)
Definition cmp_core : core -> core -> comparison :=
  lexc (cmp_on epoch Z.compare)
       (lexc (cmp_on version str_cmp) (cmp_on release str_cmp)).

Definition raw_orig := true.

Definition ver := VLayer.ver core.
Definition parse : bytes -> option ver := VLayer.parse parse_core raw_orig.
Definition cmp : ver -> ver -> comparison := VLayer.cmp cmp_core.
Definition show : ver -> bytes := VLayer.show.
