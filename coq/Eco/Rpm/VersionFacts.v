From Coq Require Import Lia.
From Verif.Base Require Import Bytes GoNum Ord BytesFacts.
From Verif.Eco.Rpm Require Import DecFacts.
From Verif.Eco Require Import VLayer VLayerFacts.
From Verif.Eco.Rpm Require Import Version.

Lemma nondigit_cmp_tp : TotalPreorder nondigit_cmp.
Proof. apply TP_lexc; [apply TP_on, TP_bool | apply TP_bytes_cmp]. Qed.

Lemma digit_cmp_tp : TotalPreorder digit_cmp.
Proof. apply TP_on, TP_opt_first, TP_digits_cmp. Qed.

Lemma seg_cmp_tp : TotalPreorder seg_cmp.
Proof. apply TP_lex2; [apply nondigit_cmp_tp | apply digit_cmp_tp]. Qed.

Lemma str_cmp_tp : TotalPreorder str_cmp.
Proof. apply TP_on, TP_lex_pad, seg_cmp_tp. Qed.

Lemma cmp_core_tp : TotalPreorder cmp_core.
Proof.
  apply TP_lexc; [apply TP_on, TP_Z|].
  apply TP_lexc; apply TP_on, str_cmp_tp.
Qed.

Lemma cmp_tp : TotalPreorder cmp.
Proof. apply VLayerFacts.cmp_tp, cmp_core_tp. Qed.


(* ====================================================================================== *)
(* The segment scanner: unfolding without fuel                                             *)
(* ====================================================================================== *)

Lemma drop_while_len p (s : bytes) : (length (drop_while p s) <= length s)%nat.
Proof. induction s as [|a s IH]; simpl; [lia|]. destruct (p a); simpl; lia. Qed.

(* what one turn of the loop reads from s, and what it leaves *)
Definition seg_head (s : bytes) : seg :=
  (take_while is_nd (drop_while is_sep s),
   take_while is_digit (drop_while is_nd (drop_while is_sep s))).
Definition seg_rest (s : bytes) : bytes :=
  drop_while is_digit (drop_while is_nd (drop_while is_sep s)).

Lemma segments_fuel_S k s :
  s <> [] -> segments_fuel (S k) s = seg_head s :: segments_fuel k (seg_rest s).
Proof. destruct s; [contradiction|]. intros _. reflexivity. Qed.

Lemma sep_nd_digit c : is_sep c = false -> is_nd c = false -> is_digit c = true.
Proof. unfold is_nd. intros -> H. destruct (is_digit c); [reflexivity|discriminate]. Qed.

(* every turn on a non-empty rest consumes at least one byte *)
Lemma seg_rest_lt c s : (length (seg_rest (c :: s)) <= length s)%nat.
Proof.
  unfold seg_rest.
  pose proof (drop_while_len is_digit) as L1.
  pose proof (drop_while_len is_nd) as L2.
  pose proof (drop_while_len is_sep) as L3.
  destruct (is_sep c) eqn:Es.
  - cbn [drop_while]. rewrite Es.
    specialize (L3 s). specialize (L2 (drop_while is_sep s)).
    specialize (L1 (drop_while is_nd (drop_while is_sep s))). lia.
  - replace (drop_while is_sep (c :: s)) with (c :: s) by (cbn [drop_while]; rewrite Es; reflexivity).
    destruct (is_nd c) eqn:En.
    + cbn [drop_while]. rewrite En.
      specialize (L2 s). specialize (L1 (drop_while is_nd s)). lia.
    + replace (drop_while is_nd (c :: s)) with (c :: s) by (cbn [drop_while]; rewrite En; reflexivity).
      cbn [drop_while]. rewrite (sep_nd_digit c Es En). apply L1.
Qed.

Lemma segments_fuel_indep f1 : forall f2 s,
  (length s <= f1)%nat -> (length s <= f2)%nat -> segments_fuel f1 s = segments_fuel f2 s.
Proof.
  induction f1 as [|f1 IH]; intros f2 s H1 H2.
  - destruct s; [|simpl in H1; lia]. destruct f2; reflexivity.
  - destruct s as [|c s]; [destruct f2; reflexivity|].
    destruct f2 as [|f2]; [simpl in H2; lia|].
    rewrite !segments_fuel_S by discriminate. f_equal.
    pose proof (seg_rest_lt c s). simpl in H1, H2. apply IH; lia.
Qed.

Lemma segments_nil : segments [] = [].
Proof. reflexivity. Qed.

Lemma segments_S s : s <> [] -> segments s = seg_head s :: segments (seg_rest s).
Proof.
  intros H. unfold segments. destruct s as [|c s]; [contradiction|].
  cbn [length]. rewrite segments_fuel_S by discriminate. f_equal.
  pose proof (seg_rest_lt c s). apply segments_fuel_indep; lia.
Qed.

(* ====================================================================================== *)
(* C03 (a): dotted numeric tuples compare as tuples of integers                            *)
(* ====================================================================================== *)

Definition nodigit_hd (R : bytes) : Prop :=
  match R with [] => True | c :: _ => is_digit c = false end.

Lemma span_digits_app ds R :
  all_digits ds = true -> nodigit_hd R ->
  take_while is_digit (ds ++ R) = ds /\ drop_while is_digit (ds ++ R) = R.
Proof.
  unfold all_digits. induction ds as [|c ds IH]; intros H HR.
  - destruct R as [|c R]; [split; reflexivity|]. simpl in *. rewrite HR. split; reflexivity.
  - cbn [forallb] in H. apply andb_true_iff in H. destruct H as [Hc Hs].
    destruct (IH Hs HR) as [I1 I2]. cbn [app take_while drop_while]. rewrite Hc, I1, I2.
    split; reflexivity.
Qed.

Lemma digit_not_sep c : is_digit c = true -> is_sep c = false.
Proof.
  intros H. destruct (is_sep c) eqn:E; [|reflexivity].
  unfold is_sep in E. simpl in E. rewrite !orb_true_iff in E.
  repeat destruct E as [E|E]; try discriminate; apply ceqb_eq in E; subst c; discriminate.
Qed.

Lemma digit_not_nd c : is_digit c = true -> is_nd c = false.
Proof. intros H. unfold is_nd. rewrite H. reflexivity. Qed.

Definition f_seg (n : N) : seg := ([], dec n).

(* separators, then a number, then something that does not go on with a digit *)
Lemma seg_step pre m R :
  forallb is_sep pre = true -> nodigit_hd R ->
  segments (pre ++ dec m ++ R) = f_seg m :: segments R.
Proof.
  intros Hp HR.
  destruct (dec_cons m) as (c & r & E & Hc & Hr).
  assert (Hd : all_digits (c :: r) = true).
  { unfold all_digits in *. cbn [forallb]. rewrite Hc, Hr. reflexivity. }
  destruct (span_digits_app (c :: r) R Hd HR) as [T D].
  rewrite segments_S by (rewrite E; destruct pre; discriminate).
  unfold seg_head, seg_rest. rewrite (drop_while_app_all is_sep pre _ Hp), E.
  replace (drop_while is_sep ((c :: r) ++ R)) with ((c :: r) ++ R)
    by (cbn [app drop_while]; rewrite (digit_not_sep c Hc); reflexivity).
  replace (drop_while is_nd ((c :: r) ++ R)) with ((c :: r) ++ R)
    by (cbn [app drop_while]; rewrite (digit_not_nd c Hc); reflexivity).
  replace (take_while is_nd ((c :: r) ++ R)) with (@nil ascii)
    by (cbn [app take_while]; rewrite (digit_not_nd c Hc); reflexivity).
  rewrite T, D. unfold f_seg. rewrite E. reflexivity.
Qed.

Definition numstr (t : list N) : bytes := join $"." (map dec t).
Definition tailstr (t : list N) : bytes := concat (map (fun m => "."%char :: dec m) t).

Lemma numstr_cons n t : numstr (n :: t) = dec n ++ tailstr t.
Proof.
  unfold numstr. revert n. induction t as [|m t IH]; intros n.
  - simpl. rewrite app_nil_r. reflexivity.
  - change (join $"." (map dec (n :: m :: t)))
      with (dec n ++ $"." ++ join $"." (map dec (m :: t))).
    rewrite IH. reflexivity.
Qed.

Lemma nodigit_hd_tail t R : nodigit_hd R -> nodigit_hd (tailstr t ++ R).
Proof. destruct t; simpl; [auto|reflexivity]. Qed.

Lemma segments_tail t : forall R,
  nodigit_hd R -> segments (tailstr t ++ R) = map f_seg t ++ segments R.
Proof.
  induction t as [|m t IH]; intros R HR; [reflexivity|].
  change (tailstr (m :: t)) with (("."%char :: dec m) ++ tailstr t).
  rewrite <- app_assoc.
  change (("."%char :: dec m) ++ tailstr t ++ R) with (["."%char] ++ dec m ++ (tailstr t ++ R)).
  rewrite seg_step; [|reflexivity|apply nodigit_hd_tail; assumption].
  rewrite (IH R HR). reflexivity.
Qed.

Lemma segments_numstr_app t R :
  t <> [] -> nodigit_hd R -> segments (numstr t ++ R) = map f_seg t ++ segments R.
Proof.
  destruct t as [|n t]; [contradiction|]. intros _ HR.
  rewrite numstr_cons, <- app_assoc.
  change (dec n ++ tailstr t ++ R) with ([] ++ dec n ++ (tailstr t ++ R)).
  rewrite seg_step; [|reflexivity|apply nodigit_hd_tail; assumption].
  rewrite (segments_tail t R HR). reflexivity.
Qed.

Lemma segments_numstr t : t <> [] -> segments (numstr t) = map f_seg t.
Proof.
  intros H. rewrite <- (app_nil_r (numstr t)), (segments_numstr_app t [] H I).
  rewrite segments_nil, app_nil_r. reflexivity.
Qed.

Lemma thenc_eq_r c : thenc c Eq = c.
Proof. destruct c; reflexivity. Qed.

Lemma digit_cmp_dec a b : digit_cmp (dec a) (dec b) = (a ?= b)%N.
Proof.
  unfold digit_cmp, cmp_on, digit_key.
  pose proof (digits_cmp_dec a b) as H.
  destruct (dec_cons a) as (c & r & E & _). destruct (dec_cons b) as (c' & r' & E' & _).
  rewrite E, E' in *. exact H.
Qed.

Lemma seg_cmp_num a b : seg_cmp (f_seg a) (f_seg b) = (a ?= b)%N.
Proof. unfold seg_cmp, lex2, f_seg. cbn [fst snd]. apply digit_cmp_dec. Qed.

Lemma seg_cmp_pad_num b : seg_cmp seg_pad (f_seg b) = Lt.
Proof.
  unfold seg_cmp, lex2, f_seg, seg_pad, digit_cmp, cmp_on, digit_key. cbn [fst snd].
  destruct (dec_cons b) as (c & r & E & _). rewrite E. reflexivity.
Qed.

Lemma seg_cmp_num_pad a : seg_cmp (f_seg a) seg_pad = Gt.
Proof.
  unfold seg_cmp, lex2, f_seg, seg_pad, digit_cmp, cmp_on, digit_key. cbn [fst snd].
  destruct (dec_cons a) as (c & r & E & _). rewrite E. reflexivity.
Qed.

Lemma lex_pad_num t1 : forall t2,
  lex_pad seg_pad seg_cmp (map f_seg t1) (map f_seg t2) = lex_short N.compare t1 t2.
Proof.
  induction t1 as [|a t1 IH]; intros [|b t2]; cbn [map lex_pad lex_pad_l lex_short].
  - reflexivity.
  - rewrite seg_cmp_pad_num. reflexivity.
  - rewrite seg_cmp_num_pad. reflexivity.
  - rewrite seg_cmp_num, IH. reflexivity.
Qed.

(* compareRPMVersionString on dotted numerals of ANY two arities and ANY component sizes:
   integer tuples, a proper prefix being smaller *)
Theorem str_cmp_numstr t1 t2 :
  t1 <> [] -> t2 <> [] -> str_cmp (numstr t1) (numstr t2) = lex_short N.compare t1 t2.
Proof.
  intros H1 H2. unfold str_cmp, cmp_on.
  rewrite (segments_numstr t1 H1), (segments_numstr t2 H2). apply lex_pad_num.
Qed.

(* ---------- parsing texts without epoch and release ---------- *)

Definition plain (s : bytes) : Prop :=
  s <> [] /\ valid_str s = true /\ contains_c "-"%char s = false.

Lemma drop_while_in p (s : bytes) c r : drop_while p s = c :: r -> In c s.
Proof.
  induction s as [|x s IH]; [discriminate|]. cbn [drop_while].
  destruct (p x); intros H; [right; auto|injection H as -> _; left; reflexivity].
Qed.

Lemma contains_c_false c s x : contains_c c s = false -> In x s -> x <> c.
Proof.
  unfold contains_c. intros H Hin E. subst x.
  assert (existsb (ceqb c) s = true) by (apply existsb_exists; exists c; split; [assumption|apply ceqb_refl]).
  congruence.
Qed.

Lemma split_epoch_nocolon s : contains_c ":"%char s = false -> split_epoch s = ([], s).
Proof.
  intros H. unfold split_epoch, span.
  destruct (take_while is_digit s) as [|d ds]; [reflexivity|].
  destruct (drop_while is_digit s) as [|c [|c' r]] eqn:D; try reflexivity.
  destruct (ceqb c ":"%char) eqn:E; [|reflexivity].
  apply ceqb_eq in E. exfalso.
  apply (contains_c_false _ _ c H); [|assumption]. eapply drop_while_in; eassumption.
Qed.

Lemma cut_single_none c s : contains_c c s = false -> cut [c] s = None.
Proof.
  unfold contains_c. induction s as [|x s IH]; intros H; [reflexivity|].
  cbn [existsb] in H. apply orb_false_iff in H. destruct H as [Hx Hs].
  cbn [cut has_prefix]. rewrite Hx. cbn [andb]. rewrite (IH Hs). reflexivity.
Qed.

Lemma existsb_rev {A} (f : A -> bool) l : existsb f (rev l) = existsb f l.
Proof.
  induction l as [|x l IH]; [reflexivity|].
  cbn [rev existsb]. rewrite existsb_app, IH. cbn [existsb]. rewrite orb_false_r. apply orb_comm.
Qed.

Lemma cut_last_none c s : contains_c c s = false -> cut_last_c c s = None.
Proof.
  intros H. unfold cut_last_c. rewrite cut_single_none; [reflexivity|].
  unfold contains_c in *. rewrite existsb_rev. assumption.
Qed.

Lemma valid_str_nocolon s : valid_str s = true -> contains_c ":"%char s = false.
Proof.
  unfold valid_str, contains_c. induction s as [|x s IH]; intros H; [reflexivity|].
  cbn [forallb] in H. apply andb_true_iff in H. destruct H as [Hx Hs].
  cbn [existsb]. rewrite (IH Hs), orb_false_r.
  destruct (ceqb ":"%char x) eqn:E; [|reflexivity].
  apply ceqb_eq in E. subst x. discriminate.
Qed.

Lemma parse_plain s :
  plain s -> parse_core s = Some {| epoch := 0; version := s; release := [] |}.
Proof.
  intros (Hne & Hv & Hh). unfold parse_core.
  rewrite (split_epoch_nocolon s (valid_str_nocolon s Hv)), (cut_last_none _ s Hh).
  destruct s as [|c s]; [contradiction|].
  cbn [Z.ltb Z.compare]. rewrite Hv. reflexivity.
Qed.

Lemma cmp_core_plain a b :
  cmp_core {| epoch := 0; version := a; release := [] |}
           {| epoch := 0; version := b; release := [] |} = str_cmp a b.
Proof.
  unfold cmp_core, lexc, cmp_on. cbn [epoch version release Z.compare thenc].
  change (str_cmp [] []) with Eq. apply thenc_eq_r.
Qed.

Definition numdot (c : ascii) : bool := is_digit c || ceqb c "."%char.

Lemma numstr_numdot t : forallb numdot (numstr t) = true.
Proof.
  assert (D : forall n, forallb numdot (dec n) = true).
  { intros n. pose proof (dec_digits n) as H. unfold all_digits in H.
    rewrite forallb_forall in *. intros x Hx. unfold numdot. rewrite (H x Hx). reflexivity. }
  destruct t as [|n t]; [reflexivity|].
  rewrite numstr_cons, forallb_app, D. cbn [andb].
  induction t as [|m t IH]; [reflexivity|].
  change (tailstr (m :: t)) with (("."%char :: dec m) ++ tailstr t).
  rewrite forallb_app, IH. cbn [forallb]. rewrite D. reflexivity.
Qed.

Lemma numdot_valid c : numdot c = true -> valid_char c = true.
Proof.
  unfold numdot, valid_char. intros H. apply orb_true_iff in H. destruct H as [H|H].
  - rewrite H. rewrite orb_true_r. reflexivity.
  - apply ceqb_eq in H. subst c. reflexivity.
Qed.

Lemma numdot_nohyphen c : numdot c = true -> ceqb "-"%char c = false.
Proof.
  intros H. destruct (ceqb "-"%char c) eqn:E; [|reflexivity].
  apply ceqb_eq in E. subst c. discriminate.
Qed.

Lemma numstr_nonempty t : t <> [] -> numstr t <> [].
Proof.
  destruct t as [|n t]; [contradiction|]. intros _. rewrite numstr_cons.
  destruct (dec_cons n) as (c & r & E & _). rewrite E. discriminate.
Qed.

Lemma numstr_valid t : valid_str (numstr t) = true.
Proof.
  pose proof (numstr_numdot t) as H. unfold valid_str. rewrite forallb_forall in *.
  intros x Hx. apply numdot_valid, H, Hx.
Qed.

Lemma numstr_nohyphen t : contains_c "-"%char (numstr t) = false.
Proof.
  pose proof (numstr_numdot t) as H. unfold contains_c. rewrite forallb_forall in H.
  destruct (existsb (ceqb "-"%char) (numstr t)) eqn:E; [|reflexivity].
  apply existsb_exists in E. destruct E as (x & Hx & Ex).
  rewrite (numdot_nohyphen x (H x Hx)) in Ex. discriminate.
Qed.

Lemma numstr_plain t : t <> [] -> plain (numstr t).
Proof.
  intros H. split; [apply numstr_nonempty; assumption|].
  split; [apply numstr_valid|apply numstr_nohyphen].
Qed.

(* C03, numeric part.  Every arity n >= 1 is accepted; two dotted numerals (any arities, any
   component sizes — no 2^31 bound is needed, digit runs are compared as unbounded integers)
   compare as the integer tuples, a proper prefix being smaller. *)
Theorem c03_numeric t1 t2 :
  t1 <> [] -> t2 <> [] ->
  exists c1 c2,
    parse_core (numstr t1) = Some c1 /\ parse_core (numstr t2) = Some c2 /\
    cmp_core c1 c2 = lex_short N.compare t1 t2.
Proof.
  intros H1 H2. eexists. eexists.
  split; [apply parse_plain, numstr_plain, H1|].
  split; [apply parse_plain, numstr_plain, H2|].
  rewrite cmp_core_plain. apply str_cmp_numstr; assumption.
Qed.


(* ====================================================================================== *)
(* C03 (b): markers after a dotted numeral                                                 *)
(* ====================================================================================== *)

Lemma seg_cmp_refl x : seg_cmp x x = Eq.
Proof. apply (tp_refl seg_cmp_tp). Qed.

(* l followed by more segments, against l alone: decided by the extra segments against padding *)
Lemma lex_pad_app_l l s rest :
  lex_pad seg_pad seg_cmp (l ++ s :: rest) l =
  thenc (seg_cmp s seg_pad) (lex_pad seg_pad seg_cmp rest []).
Proof.
  induction l as [|a l IH]; [reflexivity|].
  cbn [app lex_pad]. rewrite seg_cmp_refl, IH. reflexivity.
Qed.

Lemma plain_app a b : plain a -> valid_str b = true -> contains_c "-"%char b = false -> plain (a ++ b).
Proof.
  intros (Hne & Hv & Hh) Hvb Hhb. split; [destruct a; [contradiction|discriminate]|].
  unfold valid_str, contains_c in *. rewrite forallb_app, existsb_app, Hv, Hvb, Hh, Hhb. auto.
Qed.

(* what follows the numeral decides, when its first segment differs from padding *)
Lemma str_cmp_numstr_suffix t R x :
  t <> [] -> R <> [] -> nodigit_hd R ->
  seg_cmp (seg_head R) seg_pad = x -> x <> Eq ->
  str_cmp (numstr t ++ R) (numstr t) = x.
Proof.
  intros Ht HR Hd Hx Hne. unfold str_cmp, cmp_on.
  rewrite (segments_numstr_app t R Ht Hd), (segments_numstr t Ht), (segments_S R HR).
  rewrite lex_pad_app_l, Hx. destruct x; [contradiction|reflexivity|reflexivity].
Qed.

(* pre-release marker: numeral~anything  <  numeral   (1.0~rc1 < 1.0) *)
Theorem c03_tilde_pre t x :
  t <> [] -> valid_str x = true -> contains_c "-"%char x = false ->
  exists c c',
    parse_core (numstr t) = Some c /\ parse_core (numstr t ++ "~"%char :: x) = Some c' /\
    cmp_core c' c = Lt.
Proof.
  intros Ht Hv Hh. eexists. eexists.
  split; [apply parse_plain, numstr_plain, Ht|].
  split.
  - apply parse_plain, plain_app; [apply numstr_plain, Ht| |].
    + unfold valid_str in *. cbn [forallb]. rewrite Hv. reflexivity.
    + unfold contains_c in *. cbn [existsb]. rewrite Hh. reflexivity.
  - rewrite cmp_core_plain.
    apply str_cmp_numstr_suffix; [assumption|discriminate|reflexivity| |discriminate].
    reflexivity.
Qed.

Lemma letter_not_digit c : is_letter c = true -> is_digit c = false.
Proof.
  unfold is_letter, is_lower, is_upper, is_digit, in_range. intros H.
  destruct ((48 <=? code c)%N && (code c <=? 57)%N) eqn:E; [|reflexivity].
  rewrite andb_true_iff, !N.leb_le in E.
  rewrite orb_true_iff, !andb_true_iff, !N.leb_le in H. lia.
Qed.

Lemma letter_not_sep c : is_letter c = true -> is_sep c = false.
Proof.
  intros H. destruct (is_sep c) eqn:E; [|reflexivity].
  unfold is_sep in E. simpl in E. rewrite !orb_true_iff in E.
  repeat destruct E as [E|E]; try discriminate; apply ceqb_eq in E; subst c; discriminate.
Qed.

Lemma letter_not_tilde c : is_letter c = true -> ceqb "~"%char c = false.
Proof.
  intros H. destruct (ceqb "~"%char c) eqn:E; [|reflexivity].
  apply ceqb_eq in E. subst c. discriminate.
Qed.

(* a text starting with a letter or digit: its first segment is above padding *)
Lemma seg_head_alnum_gt c x : is_alnum c = true -> seg_cmp (seg_head (c :: x)) seg_pad = Gt.
Proof.
  unfold is_alnum. intros H. apply orb_true_iff in H. destruct H as [H|H].
  - unfold seg_head. cbn [drop_while]. rewrite (digit_not_sep c H).
    cbn [drop_while take_while]. rewrite (digit_not_nd c H).
    cbn [take_while]. rewrite H. reflexivity.
  - unfold seg_head. cbn [drop_while]. rewrite (letter_not_sep c H).
    assert (Hnd : is_nd c = true).
    { unfold is_nd. rewrite (letter_not_digit c H), (letter_not_sep c H). reflexivity. }
    cbn [drop_while take_while]. rewrite Hnd.
    unfold seg_cmp, lex2, seg_pad. cbn [fst snd].
    unfold nondigit_cmp, lexc, cmp_on, has_tilde. cbn [has_prefix list_ascii_of_string].
    rewrite (letter_not_tilde c H). reflexivity.
Qed.

Lemma seg_head_seps pre R : forallb is_sep pre = true -> seg_head (pre ++ R) = seg_head R.
Proof. intros H. unfold seg_head. rewrite (drop_while_app_all is_sep pre R H). reflexivity. Qed.

Lemma sep_valid c : is_sep c = true -> valid_char c = true.
Proof.
  unfold is_sep. simpl. rewrite !orb_true_iff. intros E.
  repeat destruct E as [E|E]; try discriminate; apply ceqb_eq in E; subst c; reflexivity.
Qed.

Lemma alnum_valid c : is_alnum c = true -> valid_char c = true.
Proof.
  unfold is_alnum, valid_char. intros H. apply orb_true_iff in H.
  destruct H as [H|H]; rewrite H; [rewrite orb_true_r|]; reflexivity.
Qed.

Lemma alnum_nohyphen c : is_alnum c = true -> ceqb "-"%char c = false.
Proof.
  intros H. destruct (ceqb "-"%char c) eqn:E; [|reflexivity].
  apply ceqb_eq in E. subst c. discriminate.
Qed.

(* separators other than the hyphen: . + ^ *)
Definition is_sep_nh (c : ascii) : bool := is_sep c && negb (ceqb "-"%char c).

(* post-release markers: numeral, optional separators (. + ^), then a letter or — after at least
   one separator — a digit, then anything  >  numeral   (1.0a, 1.0^git1, 1.0+b1, 1.0.1 > 1.0) *)
Theorem c03_post t pre c x :
  t <> [] -> forallb is_sep_nh pre = true -> is_alnum c = true ->
  (pre <> [] \/ is_letter c = true) ->
  valid_str x = true -> contains_c "-"%char x = false ->
  exists v v',
    parse_core (numstr t) = Some v /\ parse_core (numstr t ++ pre ++ c :: x) = Some v' /\
    cmp_core v' v = Gt.
Proof.
  intros Ht Hp Hc Hor Hv Hh.
  assert (Hsep : forallb is_sep pre = true).
  { rewrite forallb_forall in *. intros y Hy. specialize (Hp y Hy).
    unfold is_sep_nh in Hp. apply andb_true_iff in Hp. tauto. }
  eexists. eexists.
  split; [apply parse_plain, numstr_plain, Ht|].
  split.
  - apply parse_plain, plain_app; [apply numstr_plain, Ht| |].
    + unfold valid_str in *. rewrite forallb_app. cbn [forallb].
      rewrite Hv, (alnum_valid c Hc). rewrite andb_true_r.
      rewrite forallb_forall in *. intros y Hy. apply sep_valid, Hsep, Hy.
    + unfold contains_c in *. rewrite existsb_app. cbn [existsb].
      rewrite Hh, (alnum_nohyphen c Hc). cbn [orb]. rewrite orb_false_r.
      destruct (existsb (ceqb "-"%char) pre) eqn:E; [|reflexivity].
      apply existsb_exists in E. destruct E as (y & Hy & Ey).
      rewrite forallb_forall in Hp. specialize (Hp y Hy). unfold is_sep_nh in Hp.
      rewrite Ey in Hp. rewrite andb_false_r in Hp. discriminate.
  - rewrite cmp_core_plain.
    apply str_cmp_numstr_suffix; [assumption|destruct pre; discriminate| | |discriminate].
    + destruct pre as [|p pre].
      * destruct Hor as [Hor|Hor]; [contradiction|]. simpl. apply letter_not_digit, Hor.
      * simpl. cbn [forallb] in Hsep. apply andb_true_iff in Hsep. destruct Hsep as [Hs _].
        destruct (is_digit p) eqn:E; [|reflexivity].
        rewrite (digit_not_sep p E) in Hs. discriminate.
    + rewrite (seg_head_seps pre _ Hsep). apply seg_head_alnum_gt, Hc.
Qed.

(* ---------- release ---------- *)

Lemma cut_single_hit c x y : contains_c c x = false -> cut [c] (x ++ c :: y) = Some (x, y).
Proof.
  unfold contains_c. induction x as [|a x IH]; intros H.
  - cbn [app cut has_prefix]. rewrite ceqb_refl. reflexivity.
  - cbn [existsb] in H. apply orb_false_iff in H. destruct H as [Ha Hx].
    cbn [app cut has_prefix]. rewrite Ha. cbn [andb]. rewrite (IH Hx). reflexivity.
Qed.

Lemma cut_last_hit c a b : contains_c c b = false -> cut_last_c c (a ++ c :: b) = Some (a, b).
Proof.
  intros H. unfold cut_last_c.
  rewrite rev_app_distr. cbn [rev]. rewrite <- app_assoc. cbn [app].
  rewrite cut_single_hit by (unfold contains_c in *; rewrite existsb_rev; assumption).
  rewrite !rev_involutive. reflexivity.
Qed.

(* version-release texts without epoch *)
Lemma parse_vr a b :
  a <> [] -> valid_str a = true -> valid_str b = true -> contains_c "-"%char b = false ->
  parse_core (a ++ "-"%char :: b) = Some {| epoch := 0; version := a; release := b |}.
Proof.
  intros Hne Ha Hb Hh. unfold parse_core.
  assert (Hv : valid_str (a ++ "-"%char :: b) = true).
  { unfold valid_str in *. rewrite forallb_app. cbn [forallb]. rewrite Ha, Hb. reflexivity. }
  rewrite (split_epoch_nocolon _ (valid_str_nocolon _ Hv)), (cut_last_hit _ a b Hh).
  destruct a as [|c a]; [contradiction|].
  cbn [app Z.ltb Z.compare]. rewrite Ha, Hb. reflexivity.
Qed.

Lemma str_cmp_refl a : str_cmp a a = Eq.
Proof. apply (tp_refl str_cmp_tp). Qed.

(* a release starting with a letter or digit makes the version greater (1.0-1 > 1.0) *)
Theorem c03_release t c x :
  t <> [] -> is_alnum c = true -> valid_str x = true -> contains_c "-"%char x = false ->
  exists v v',
    parse_core (numstr t) = Some v /\ parse_core (numstr t ++ "-"%char :: c :: x) = Some v' /\
    cmp_core v' v = Gt.
Proof.
  intros Ht Hc Hv Hh. eexists. eexists.
  split; [apply parse_plain, numstr_plain, Ht|].
  split.
  - apply parse_vr; [apply numstr_nonempty, Ht|apply numstr_valid| |].
    + unfold valid_str in *. cbn [forallb]. rewrite Hv, (alnum_valid c Hc). reflexivity.
    + unfold contains_c in *. cbn [existsb]. rewrite Hh, (alnum_nohyphen c Hc). reflexivity.
  - unfold cmp_core, lexc, cmp_on. cbn [epoch version release Z.compare thenc].
    rewrite str_cmp_refl. cbn [thenc].
    unfold str_cmp, cmp_on. rewrite (segments_S (c :: x)) by discriminate.
    rewrite segments_nil. cbn [lex_pad]. rewrite (seg_head_alnum_gt c x Hc). reflexivity.
Qed.

(* ---------- epoch ---------- *)

Lemma atoi_dec e : (e < two63)%N -> atoi (dec e) = Some (Z.of_N e).
Proof.
  intros H. unfold atoi.
  destruct (dec_cons e) as (c & r & E & Hc & Hr).
  pose proof (dec_val e) as Hval. pose proof (dec_digits e) as Hd. rewrite E in *.
  assert (N1 : ceqb c "-"%char = false).
  { destruct (ceqb c "-"%char) eqn:X; [|reflexivity]. apply ceqb_eq in X. subst c. discriminate. }
  assert (N2 : ceqb c "+"%char = false).
  { destruct (ceqb c "+"%char) eqn:X; [|reflexivity]. apply ceqb_eq in X. subst c. discriminate. }
  rewrite N1, N2.
  replace (nonempty_digits (c :: r)) with true by (symmetry; exact Hd).
  rewrite Hval. apply N.ltb_lt in H. rewrite H. reflexivity.
Qed.

Lemma split_epoch_dec e s :
  s <> [] -> split_epoch (dec e ++ ":"%char :: s) = (dec e, s).
Proof.
  intros Hs. unfold split_epoch, span.
  destruct (span_digits_app (dec e) (":"%char :: s) (dec_digits e) eq_refl) as [T D].
  rewrite T, D. destruct (dec_cons e) as (c & r & E & _). rewrite E.
  destruct s; [contradiction|reflexivity].
Qed.

Lemma parse_epoch_plain e s :
  (e < two63)%N -> plain s ->
  parse_core (dec e ++ ":"%char :: s) = Some {| epoch := Z.of_N e; version := s; release := [] |}.
Proof.
  intros He (Hne & Hv & Hh). unfold parse_core.
  rewrite (split_epoch_dec e s Hne), (cut_last_none _ s Hh), (atoi_dec e He).
  destruct (dec_cons e) as (c & r & E & _). rewrite E.
  destruct s as [|c' s]; [contradiction|].
  cbn [app]. replace (Z.of_N e <? 0)%Z with false by (symmetry; apply Z.ltb_ge; lia).
  rewrite Hv. reflexivity.
Qed.

(* the epoch dominates, a missing epoch is epoch 0 *)
Theorem c03_epoch e1 e2 s1 s2 :
  (e1 < two63)%N -> (e2 < two63)%N -> plain s1 -> plain s2 -> e1 <> e2 ->
  exists v1 v2,
    parse_core (dec e1 ++ ":"%char :: s1) = Some v1 /\
    parse_core (dec e2 ++ ":"%char :: s2) = Some v2 /\
    cmp_core v1 v2 = (e1 ?= e2)%N.
Proof.
  intros H1 H2 P1 P2 Hne. eexists. eexists.
  split; [apply parse_epoch_plain; assumption|].
  split; [apply parse_epoch_plain; assumption|].
  unfold cmp_core, lexc, cmp_on. cbn [epoch version release].
  rewrite N2Z.inj_compare.
  destruct (N.compare_spec e1 e2) as [E|E|E]; [contradiction|reflexivity|reflexivity].
Qed.

Theorem c03_epoch_default s :
  plain s ->
  exists v1 v2,
    parse_core s = Some v1 /\ parse_core ($"0:" ++ s) = Some v2 /\
    cmp_core v1 v2 = Eq /\ cmp_core v2 v1 = Eq.
Proof.
  intros P. eexists. eexists.
  split; [apply parse_plain; assumption|].
  split; [apply (parse_epoch_plain 0 s); [reflexivity|assumption]|].
  unfold cmp_core, lexc, cmp_on. cbn [epoch version release Z.of_N Z.compare thenc].
  rewrite str_cmp_refl. split; reflexivity.
Qed.

Print Assumptions cmp_core_tp.
Print Assumptions cmp_tp.
Print Assumptions c03_numeric.
Print Assumptions c03_tilde_pre.
Print Assumptions c03_post.
Print Assumptions c03_release.
Print Assumptions c03_epoch.
Print Assumptions c03_epoch_default.
