(* Base/DecFacts.v — facts about decimal printing ([dec]) and reading ([digits_val]), and about
   splitting at a byte that does not occur.  General-purpose lemmas (new file; the existing
   Base files are unchanged). *)
From Coq Require Import Lia.
From Verif.Base Require Import Bytes GoNum Ord BytesFacts.
Local Open Scope N_scope.

(* ---------- bytes that do not occur ---------- *)

Definition no_c (c : ascii) (s : bytes) : bool := forallb (fun x => negb (ceqb c x)) s.

Lemma no_c_app c a b : no_c c (a ++ b) = no_c c a && no_c c b.
Proof. apply forallb_app. Qed.

Lemma cut_cons c d s :
  cut [c] (d :: s) =
  if ceqb c d then Some ([], s)
  else match cut [c] s with Some (a, b) => Some (d :: a, b) | None => None end.
Proof. simpl. rewrite andb_true_r. reflexivity. Qed.

Lemma cut_none c s : no_c c s = true -> cut [c] s = None.
Proof.
  induction s as [|d s IH]; intros H.
  - reflexivity.
  - simpl in H. apply andb_true_iff in H. destruct H as [H1 H2].
    apply negb_true_iff in H1.
    rewrite cut_cons, H1, (IH H2). reflexivity.
Qed.

Lemma cut_first c a b : no_c c a = true -> cut [c] (a ++ c :: b) = Some (a, b).
Proof.
  induction a as [|d a IH]; intros H.
  - simpl app. rewrite cut_cons, ceqb_refl. reflexivity.
  - simpl in H. apply andb_true_iff in H. destruct H as [H1 H2].
    apply negb_true_iff in H1.
    simpl app. rewrite cut_cons, H1, (IH H2). reflexivity.
Qed.

Lemma split2_c_none c s : no_c c s = true -> split2_c c s = (s, None).
Proof. intros H. unfold split2_c. rewrite (cut_none c s H). reflexivity. Qed.

Lemma split2_c_first c a b : no_c c a = true -> split2_c c (a ++ c :: b) = (a, Some b).
Proof. intros H. unfold split2_c. rewrite (cut_first c a b H). reflexivity. Qed.

(* the converse direction: what [split2_c] returns *)
Lemma cut_spec c s a b : cut [c] s = Some (a, b) -> s = a ++ c :: b /\ no_c c a = true.
Proof.
  revert a. induction s as [|d s IH]; intros a.
  - simpl. discriminate.
  - rewrite cut_cons. destruct (ceqb c d) eqn:E.
    + apply ceqb_eq in E. subst d. intros H. injection H as <- <-. split; reflexivity.
    + destruct (cut [c] s) as [[a0 b0]|] eqn:C; [|discriminate].
      intros H. injection H as <- <-. destruct (IH a0 eq_refl) as [-> Hn].
      split; [reflexivity|]. simpl. rewrite E. exact Hn.
Qed.

Lemma cut_none_spec c s : cut [c] s = None -> no_c c s = true.
Proof.
  induction s as [|d s IH].
  - reflexivity.
  - rewrite cut_cons. destruct (ceqb c d) eqn:E; [discriminate|].
    destruct (cut [c] s) as [[a0 b0]|]; [discriminate|].
    intros _. simpl. rewrite E. apply IH. reflexivity.
Qed.

Lemma split2_c_spec c s a o :
  split2_c c s = (a, o) ->
  no_c c a = true /\ match o with Some b => s = a ++ c :: b | None => s = a end.
Proof.
  unfold split2_c. destruct (cut [c] s) as [[a0 b0]|] eqn:C; intros H; injection H as <- <-.
  - destruct (cut_spec c s a0 b0 C) as [-> Hn]. auto.
  - split; [apply cut_none_spec; exact C|reflexivity].
Qed.

Lemma split_c_nonnil sep s : split_c sep s <> [].
Proof.
  destruct s as [|c s]; simpl; [discriminate|].
  destruct (ceqb sep c); [discriminate|]. destruct (split_c sep s); discriminate.
Qed.

Lemma split_c_none sep s : no_c sep s = true -> split_c sep s = [s].
Proof.
  induction s as [|c s IH]; intros H; [reflexivity|].
  simpl in H. apply andb_true_iff in H. destruct H as [H1 H2]. apply negb_true_iff in H1.
  simpl. rewrite H1, (IH H2). reflexivity.
Qed.

Lemma split_c_first sep a b :
  no_c sep a = true -> split_c sep (a ++ sep :: b) = a :: split_c sep b.
Proof.
  induction a as [|c a IH]; intros H.
  - simpl. rewrite ceqb_refl. reflexivity.
  - simpl in H. apply andb_true_iff in H. destruct H as [H1 H2]. apply negb_true_iff in H1.
    simpl. rewrite H1, (IH H2). reflexivity.
Qed.

(* every byte of [s] is the separator or belongs to a field *)
Lemma split_c_chars (P : ascii -> bool) sep s :
  forallb (forallb P) (split_c sep s) = true ->
  forallb (fun c => P c || ceqb sep c) s = true.
Proof.
  induction s as [|c s IH]; intros H; [reflexivity|].
  simpl in H. simpl. destruct (ceqb sep c) eqn:E.
  - rewrite orb_true_r. simpl. apply IH. simpl in H. exact H.
  - pose proof (split_c_nonnil sep s) as Hn.
    destruct (split_c sep s) as [|f fs] eqn:S; [congruence|].
    simpl in H. rewrite !andb_true_iff in H. destruct H as [[Hc Hf] Hfs].
    rewrite Hc. simpl. apply IH. simpl. rewrite Hf, Hfs. reflexivity.
Qed.

Lemma forallb_impl {A} (P Q : A -> bool) l :
  (forall x, P x = true -> Q x = true) -> forallb P l = true -> forallb Q l = true.
Proof.
  intros I. induction l as [|x l IH]; simpl; [auto|].
  rewrite !andb_true_iff. intros [H1 H2]. auto.
Qed.

(* ---------- digits ---------- *)

Lemma code_chr n : n < 256 -> code (chr n) = n.
Proof. intros H. unfold code, chr. apply N_ascii_embedding. exact H. Qed.

Lemma small_cases (P : N -> Prop) n :
  n < 10 -> P 0 -> P 1 -> P 2 -> P 3 -> P 4 -> P 5 -> P 6 -> P 7 -> P 8 -> P 9 -> P n.
Proof.
  intros H.
  assert (C : n = 0 \/ n = 1 \/ n = 2 \/ n = 3 \/ n = 4 \/ n = 5 \/ n = 6 \/ n = 7 \/ n = 8 \/ n = 9) by lia.
  intros; repeat (destruct C as [->|C]; [assumption|]); subst; assumption.
Qed.

Lemma is_digit_chr m : m < 10 -> is_digit (chr (48 + m)) = true.
Proof. intros H. apply (small_cases (fun m => is_digit (chr (48 + m)) = true) m H); reflexivity. Qed.

Lemma digit_val_chr m : m < 10 -> digit_val (chr (48 + m)) = m.
Proof. intros H. unfold digit_val. rewrite code_chr by lia. lia. Qed.

Lemma chr_zero m : m < 10 -> ceqb (chr (48 + m)) "0"%char = (m =? 0).
Proof.
  intros H. apply (small_cases (fun m => ceqb (chr (48 + m)) "0"%char = (m =? 0)) m H); reflexivity.
Qed.

Lemma is_digit_not c d : is_digit c = true -> is_digit d = false -> ceqb d c = false.
Proof.
  intros Hc Hd. apply ceqb_neq. intros ->. congruence.
Qed.

Lemma all_digits_no_c d s : is_digit d = false -> forallb is_digit s = true -> no_c d s = true.
Proof.
  intros Hd. unfold no_c. apply forallb_impl. intros x Hx.
  rewrite (is_digit_not x d Hx Hd). reflexivity.
Qed.

Lemma digits_val_app s c : digits_val (s ++ [c]) = digits_val s * 10 + digit_val c.
Proof. unfold digits_val. rewrite fold_left_app. reflexivity. Qed.

(* ---------- dec ---------- *)

Lemma dec_fuel_acc fuel n acc : dec_fuel fuel n acc = dec_fuel fuel n [] ++ acc.
Proof.
  revert n acc. induction fuel as [|k IH]; intros n acc; [reflexivity|].
  cbn [dec_fuel]. destruct (n <? 10); [reflexivity|].
  rewrite (IH (n / 10) (_ :: acc)), (IH (n / 10) [_]), <- app_assoc. reflexivity.
Qed.

Lemma dec_fuel_digits fuel n acc :
  forallb is_digit acc = true -> forallb is_digit (dec_fuel fuel n acc) = true.
Proof.
  revert n acc. induction fuel as [|k IH]; intros n acc H; [exact H|].
  assert (D : is_digit (chr (48 + n mod 10)) = true).
  { apply is_digit_chr. apply N.mod_lt. discriminate. }
  cbn [dec_fuel]. destruct (n <? 10).
  - cbn [forallb]. rewrite D, H. reflexivity.
  - apply IH. cbn [forallb]. rewrite D, H. reflexivity.
Qed.

Lemma pow2_size p : Npos p < 2 ^ N.of_nat (Pos.size_nat p).
Proof.
  induction p as [p IH|p IH|]; cbn [Pos.size_nat]; rewrite ?Nat2N.inj_succ, ?N.pow_succ_r'; try lia.
Qed.

Lemma size_nat_bound n : n < 2 ^ N.of_nat (S (N.size_nat n)).
Proof.
  rewrite Nat2N.inj_succ, N.pow_succ_r'. destruct n as [|p]; simpl N.size_nat.
  - simpl. lia.
  - pose proof (pow2_size p). lia.
Qed.

Lemma div10_bound n k : n < 2 ^ N.of_nat (S k) -> 10 <= n -> n / 10 < 2 ^ N.of_nat k.
Proof.
  rewrite Nat2N.inj_succ, N.pow_succ_r'. intros H1 H2.
  apply N.div_lt_upper_bound; [discriminate|]. lia.
Qed.

Lemma dec_fuel_val fuel n : n < 2 ^ N.of_nat fuel -> digits_val (dec_fuel fuel n []) = n.
Proof.
  revert n. induction fuel as [|k IH]; intros n H.
  - simpl in H. assert (n = 0) by lia. subst. reflexivity.
  - cbn [dec_fuel]. destruct (n <? 10) eqn:E.
    + apply N.ltb_lt in E. unfold digits_val. cbn [fold_left].
      rewrite N.mod_small by exact E. rewrite digit_val_chr by exact E. reflexivity.
    + apply N.ltb_ge in E. rewrite dec_fuel_acc, digits_val_app.
      rewrite IH by (apply div10_bound; assumption).
      rewrite digit_val_chr by (apply N.mod_lt; discriminate).
      rewrite N.mul_comm. symmetry. apply N.div_mod. discriminate.
Qed.

(* the most significant digit of a positive number is not 0; a number below 10 has one digit *)
Lemma dec_fuel_head fuel n acc :
  0 < n -> n < 2 ^ N.of_nat fuel ->
  exists c r, dec_fuel fuel n acc = c :: r /\ ceqb c "0"%char = false.
Proof.
  revert n acc. induction fuel as [|k IH]; intros n acc H0 H.
  - simpl in H. lia.
  - cbn [dec_fuel]. destruct (n <? 10) eqn:E.
    + apply N.ltb_lt in E. exists (chr (48 + n mod 10)), acc. split; [reflexivity|].
      rewrite N.mod_small by exact E. rewrite chr_zero by exact E. apply N.eqb_neq. lia.
    + apply N.ltb_ge in E. apply IH.
      * apply N.div_str_pos. lia.
      * apply div10_bound; assumption.
Qed.

Lemma dec_all_digits n : forallb is_digit (dec n) = true.
Proof. apply dec_fuel_digits. reflexivity. Qed.

Lemma dec_val n : digits_val (dec n) = n.
Proof. apply dec_fuel_val, size_nat_bound. Qed.

Lemma dec_nonnil n : dec n <> [].
Proof.
  unfold dec. cbn [dec_fuel]. destruct (n <? 10); [discriminate|].
  rewrite dec_fuel_acc. destruct (dec_fuel _ _ []); discriminate.
Qed.

Lemma dec_nonempty_digits n : nonempty_digits (dec n) = true.
Proof.
  unfold nonempty_digits. pose proof (dec_nonnil n) as H. pose proof (dec_all_digits n) as D.
  destruct (dec n); [congruence|exact D].
Qed.

(* no leading zero: either the single digit 0, or the first byte is not '0' *)
Lemma dec_head n :
  dec n = [ "0"%char ] \/ exists c r, dec n = c :: r /\ ceqb c "0"%char = false.
Proof.
  destruct (N.eq_dec n 0) as [->|H].
  - left. reflexivity.
  - right. apply dec_fuel_head; [lia|apply size_nat_bound].
Qed.

Lemma dec_no_c d n : is_digit d = false -> no_c d (dec n) = true.
Proof. intros H. apply all_digits_no_c; [exact H|apply dec_all_digits]. Qed.

(* a digit string of k bytes is below 10^k *)
Lemma digit_val_lt c : is_digit c = true -> digit_val c < 10.
Proof.
  unfold is_digit, in_range, digit_val. intros H. apply andb_true_iff in H.
  destruct H as [H1 H2]. apply N.leb_le in H1, H2. lia.
Qed.

Lemma digits_val_bound s :
  forallb is_digit s = true -> digits_val s < 10 ^ N.of_nat (length s).
Proof.
  induction s as [|c s IH] using rev_ind; intros H.
  - simpl. unfold digits_val. simpl. lia.
  - rewrite forallb_app in H. apply andb_true_iff in H. destruct H as [H1 H2].
    simpl in H2. rewrite andb_true_r in H2.
    rewrite digits_val_app, app_length. simpl length. rewrite Nat.add_1_r, Nat2N.inj_succ, N.pow_succ_r'.
    pose proof (IH H1). pose proof (digit_val_lt c H2). lia.
Qed.

Print Assumptions dec_val.
Print Assumptions dec_head.
Print Assumptions digits_val_bound.
