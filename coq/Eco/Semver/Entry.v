From Verif.Base Require Import Bytes.
From Verif.Eco Require Import Iface.
From Verif.Eco.Semver Require Version Range.

Definition v : vops := mk_vops Semver.Version.parse_core Semver.Version.cmp_core Semver.Version.raw_orig.

Definition r : rops := {|
  r_show := fun vok s => option_map Semver.Range.show (Semver.Range.parse_range vok s);
  r_contains := fun vok vcmp rg ver =>
    match Semver.Range.parse_range vok rg with
    | Some x => if vok ver then Some (Semver.Range.contains vcmp x ver) else None
    | None => None
    end
|}.

Definition entry : eco := {| e_name := $"semver"; e_v := v; e_r := r |}.
