(* Eco/Semver/Range.v — model of pkg/ecosystem/semver/range.go (definitions only).

   The parser is of the "split, strip operator prefix, compare" kind, with two additions that
   keep it from being a [range_cfg]: the splitter is chosen by the presence of "," / " " in the
   trimmed text, and a constraint that is exactly "*" is a wildcard. *)
From Verif.Base Require Import Bytes GoNum Ord.
From Verif.Gen Require Operators.
From Verif.Eco Require Import RangeCore.

(* operators := []string{">=", "<=", "!=", ">", "<", "="} in parseSingleConstraint *)
(* the list is generated from the Go source on every run (tools/gen -> Gen/Operators.v) *)
Definition semver_ops : list bytes :=
  Eval cbv delta [Verif.Gen.Operators.semver_ops] in Verif.Gen.Operators.semver_ops.

Inductive constr :=
| Wild                          (* {operator: "*", version: nil} *)
| Cmp (op : bytes) (bound : bytes).   (* the bound is kept as the text given to NewVersion *)

Record range := { r_cs : list constr; r_orig : bytes }.

Section Range.
  Variable vok : bytes -> bool.                     (* NewVersion(s) succeeds *)
  Variable vcmp : bytes -> bytes -> comparison.     (* NewVersion(a).Compare(NewVersion(b)) *)

  (* parseSingleConstraint *)
  Definition parse_single (c : bytes) : option constr :=
    let c := trim_space c in
    if beq c $"*" then Some Wild
    else
      match first_prefix semver_ops c with
      | Some (op, rest) =>
          let b := trim_space rest in
          match b with
          | [] => None
          | _ :: _ => if vok b then Some (Cmp op b) else None
          end
      | None => if vok c then Some (Cmp $"=" c) else None
      end.

  Fixpoint parse_all (parts : list bytes) : option (list constr) :=
    match parts with
    | [] => Some []
    | p :: r =>
        match parse_single p with
        | None => None
        | Some c =>
            match parse_all r with
            | Some cs => Some (c :: cs)
            | None => None
            end
        end
    end.

  (* parseRange: the parts handed to parseSingleConstraint *)
  Definition split_range (t : bytes) : list bytes :=
    if contains_c ","%char t then split_comma_trim t      (* empty parts skipped *)
    else if contains_c " "%char t then fields t
    else [t].

  Definition parse_range (s : bytes) : option range :=
    let t := trim_space s in
    match t with
    | [] => None
    | _ :: _ =>
        match parse_all (split_range t) with
        | Some [] => None                                  (* "no valid constraints found" *)
        | Some cs => Some {| r_cs := cs; r_orig := t |}
        | None => None
        end
    end.

  (* constraint.matches *)
  Definition matches (v : bytes) (c : constr) : bool :=
    match c with
    | Wild => true
    | Cmp op b => sat (sem6 op) (vcmp v b)
    end.

  Definition contains (r : range) (v : bytes) : bool := forallb (matches v) (r_cs r).
  Definition show (r : range) : bytes := r_orig r.
End Range.
