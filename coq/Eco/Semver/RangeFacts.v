(* Eco/Semver/RangeFacts.v — facts about the semver range model: C02 (every comparator spelling
   means its comparison, for arbitrary version oracles), C05 (the only shorthand, "*", contains
   everything), C20 (membership depends only on the place in the order). *)
From Coq Require Import Lia.
From Verif.Base Require Import Bytes GoNum Ord BytesFacts.
From Verif.Eco.Semver Require Import DecFacts.
From Verif.Eco Require Import RangeCore RangeCoreFacts Iface.
From Verif.Eco.Semver Require Import Range.
From Verif.Eco.Semver Require Entry.

Lemma semver_ops_ok : ops_ok semver_ops = true.
Proof. reflexivity. Qed.

(* ---------- helpers ---------- *)

Lemma contains_c_no_c c s : contains_c c s = negb (no_c c s).
Proof.
  unfold contains_c, no_c. induction s as [|x s IH]; simpl; [reflexivity|].
  rewrite IH. destruct (ceqb c x); reflexivity.
Qed.

Lemma no_space_no_sp s : no_space s = true -> no_c " "%char s = true.
Proof.
  unfold no_space, no_c. apply forallb_impl. intros x Hx.
  destruct (ceqb " "%char x) eqn:E; [|reflexivity].
  apply ceqb_eq in E. subst x. discriminate.
Qed.

(* ---------- the scope of C02 ---------- *)

(* a bound text in scope: non-empty, no whitespace, no comma, not starting with a comparator
   character, and not the wildcard *)
Definition bound_scope (a : bytes) : bool :=
  match a with [] => false | c :: _ => negb (opchar c) end
  && no_space a && no_c ","%char a && negb (beq a $"*").

(* comparator spellings: the six operators and the bare version (= exact match) *)
Definition spelling (sp : bytes) : Prop := In sp semver_ops \/ sp = [].
Definition op_of (sp : bytes) : bytes := match sp with [] => $"=" | _ => sp end.

Lemma bound_scope_parts a :
  bound_scope a = true ->
  a <> [] /\ match a with [] => True | c :: _ => opchar c = false end /\
  no_space a = true /\ no_c ","%char a = true /\ beq a $"*" = false.
Proof.
  unfold bound_scope. rewrite !andb_true_iff, !negb_true_iff. intros [[[H1 H2] H3] H4].
  destruct a as [|c a]; [discriminate|]. apply negb_true_iff in H1.
  repeat split; auto. discriminate.
Qed.

Lemma spelling_opchars sp : spelling sp -> forallb opchar sp = true.
Proof.
  intros [H| ->]; [|reflexivity].
  pose proof (ops_ok_opchars _ semver_ops_ok) as Hc. rewrite forallb_forall in Hc. auto.
Qed.

Section Facts.
  Variable vok : bytes -> bool.
  Variable vcmp : bytes -> bytes -> comparison.

  (* ---------- one constraint ---------- *)

  Lemma ctext_clean sp a :
    spelling sp -> bound_scope a = true ->
    sp ++ a <> [] /\ no_space (sp ++ a) = true /\ no_c ","%char (sp ++ a) = true /\
    beq (sp ++ a) $"*" = false.
  Proof.
    intros Hsp Ha. destruct (bound_scope_parts a Ha) as (Hne & Hhd & Hns & Hnc & Hw).
    pose proof (spelling_opchars sp Hsp) as Hop.
    repeat split.
    - destruct sp; destruct a; simpl; congruence.
    - rewrite no_space_app, (opchars_no_space sp Hop), Hns. reflexivity.
    - rewrite no_c_app, Hnc, andb_true_r.
      revert Hop. unfold no_c. apply forallb_impl. intros x Hx.
      destruct (ceqb ","%char x) eqn:E; [|reflexivity]. apply ceqb_eq in E. subst x. discriminate.
    - destruct sp as [|c sp]; [exact Hw|].
      simpl in Hop. apply andb_true_iff in Hop. destruct Hop as [Hc _].
      simpl. destruct (ceqb c "*"%char) eqn:E; [|reflexivity].
      apply ceqb_eq in E. subst c. discriminate.
  Qed.

  Lemma parse_single_spelling sp a :
    spelling sp -> bound_scope a = true -> vok a = true ->
    parse_single vok (sp ++ a) = Some (Cmp (op_of sp) a).
  Proof.
    intros Hsp Ha Hv.
    destruct (ctext_clean sp a Hsp Ha) as (_ & Hns & _ & Hw).
    destruct (bound_scope_parts a Ha) as (Hne & Hhd & Hnsa & _ & _).
    unfold parse_single. rewrite (trim_space_no_space _ Hns), Hw.
    destruct Hsp as [Hin| ->].
    - rewrite (first_prefix_hit semver_ops sp a semver_ops_ok Hin Hhd).
      rewrite (trim_space_no_space a Hnsa). destruct a as [|c a]; [congruence|].
      rewrite Hv. destruct sp; [destruct Hin as [H|[H|[H|[H|[H|[H|[]]]]]]]; discriminate|reflexivity].
    - simpl app. rewrite first_prefix_none; [rewrite Hv; reflexivity| reflexivity | exact Hhd].
  Qed.

  (* ---------- lists of constraints joined by "," or " " ---------- *)

  Definition item := (bytes * bytes)%type.     (* spelling, bound *)
  Definition ctext (i : item) : bytes := fst i ++ snd i.
  Definition item_scope (i : item) : Prop :=
    spelling (fst i) /\ bound_scope (snd i) = true /\ vok (snd i) = true.
  Definition item_constr (i : item) : constr := Cmp (op_of (fst i)) (snd i).

  Lemma parse_all_items cs :
    Forall item_scope cs -> parse_all vok (map ctext cs) = Some (map item_constr cs).
  Proof.
    induction cs as [|[sp a] cs IH]; intros HF; [reflexivity|].
    inversion HF as [|x l (Hsp & Ha & Hv) HF']; subst. simpl in *.
    unfold ctext at 1. simpl. rewrite (parse_single_spelling sp a Hsp Ha Hv), (IH HF'). reflexivity.
  Qed.

  (* texts that survive the splitters unchanged *)
  Definition clean (x : bytes) : Prop :=
    x <> [] /\ no_space x = true /\ no_c ","%char x = true.

  Lemma ctext_clean' i : item_scope i -> clean (ctext i).
  Proof.
    intros (Hsp & Ha & _). destruct (ctext_clean _ _ Hsp Ha) as (H1 & H2 & H3 & _).
    unfold clean, ctext. auto.
  Qed.

  Lemma split_c_join sep l :
    l <> [] -> Forall (fun x => no_c sep x = true) l -> split_c sep (join [sep] l) = l.
  Proof.
    induction l as [|x l IH]; intros Hne HF; [congruence|].
    inversion HF as [|? ? Hx HF']; subst.
    destruct l as [|y l].
    - simpl. apply split_c_none. exact Hx.
    - change (join [sep] (x :: y :: l)) with (x ++ sep :: join [sep] (y :: l)).
      rewrite split_c_first by exact Hx. rewrite IH; [reflexivity|discriminate|exact HF'].
  Qed.

  Lemma no_c_join c sep l :
    no_c c sep = true -> Forall (fun x => no_c c x = true) l -> no_c c (join sep l) = true.
  Proof.
    intros Hs. induction l as [|x l IH]; intros HF; [reflexivity|].
    inversion HF as [|? ? Hx HF']; subst. destruct l as [|y l]; [exact Hx|].
    change (join sep (x :: y :: l)) with (x ++ sep ++ join sep (y :: l)).
    rewrite !no_c_app, Hx, Hs, (IH HF'). reflexivity.
  Qed.

  Lemma no_space_join sep l :
    no_space sep = true -> Forall (fun x => no_space x = true) l -> no_space (join sep l) = true.
  Proof.
    intros Hs. induction l as [|x l IH]; intros HF; [reflexivity|].
    inversion HF as [|? ? Hx HF']; subst. destruct l as [|y l]; [exact Hx|].
    change (join sep (x :: y :: l)) with (x ++ sep ++ join sep (y :: l)).
    rewrite !no_space_app, Hx, Hs, (IH HF'). reflexivity.
  Qed.

  Lemma Forall_clean_parts l :
    Forall clean l ->
    Forall (fun x => x <> []) l /\ Forall (fun x => no_space x = true) l /\
    Forall (fun x => no_c ","%char x = true) l.
  Proof.
    induction 1 as [|x l (H1 & H2 & H3) _ (I1 & I2 & I3)]; repeat split; constructor; auto.
  Qed.

  Lemma join_nonnil sep l : l <> [] -> Forall (fun x : bytes => x <> []) l -> join sep l <> [].
  Proof.
    intros Hne HF. destruct l as [|x l]; [congruence|]. inversion HF; subst.
    destruct l; simpl; [assumption|]. destruct x; [congruence|discriminate].
  Qed.

  Lemma map_id_on {A} (f : A -> A) l : Forall (fun x => f x = x) l -> map f l = l.
  Proof. induction 1; simpl; congruence. Qed.

  Lemma filter_all {A} (p : A -> bool) l : Forall (fun x => p x = true) l -> filter p l = l.
  Proof. induction 1 as [|x l Hx _ IH]; simpl; [reflexivity|]. rewrite Hx, IH. reflexivity. Qed.

  (* the "," form *)
  Lemma split_range_comma l :
    l <> [] -> Forall clean l -> split_range (join [","%char] l) = l.
  Proof.
    intros Hne HF. destruct (Forall_clean_parts l HF) as (F1 & F2 & F3).
    unfold split_range.
    destruct (contains_c ","%char (join [","%char] l)) eqn:E.
    - unfold split_comma_trim. rewrite (split_c_join _ l Hne F3).
      rewrite map_id_on.
      + apply filter_all. revert F1. apply Forall_impl. intros x Hx. destruct x; congruence.
      + revert F2. apply Forall_impl. intros x Hx. apply trim_space_no_space. exact Hx.
    - (* no comma at all: a single item *)
      destruct l as [|x [|y l]]; [congruence| |].
      + simpl. inversion F2; subst.
        rewrite contains_c_no_c, (no_space_no_sp x) by assumption. reflexivity.
      + exfalso. change (join [","%char] (x :: y :: l)) with (x ++ ","%char :: join [","%char] (y :: l)) in E.
        rewrite contains_c_no_c, no_c_app in E. simpl in E. rewrite andb_false_r in E. discriminate.
  Qed.

  (* strings.Fields of clean texts joined by single spaces *)
  Lemma fields_aux_run cur x rest :
    no_space x = true -> fields_aux cur (x ++ rest) = fields_aux (rev x ++ cur) rest.
  Proof.
    revert cur. induction x as [|c x IH]; intros cur H; [reflexivity|].
    simpl in H. apply andb_true_iff in H. destruct H as [Hc Hx]. apply negb_true_iff in Hc.
    simpl. rewrite Hc, (IH _ Hx), <- app_assoc. reflexivity.
  Qed.

  Lemma fields_join l :
    Forall (fun x : bytes => x <> []) l -> Forall (fun x => no_space x = true) l ->
    fields (join [" "%char] l) = l.
  Proof.
    unfold fields. induction l as [|x l IH]; intros F1 F2; [reflexivity|].
    inversion F1 as [|? ? Hx F1']; inversion F2 as [|? ? Hs F2']; subst.
    destruct l as [|y l].
    - simpl join. rewrite <- (app_nil_r x) at 1. rewrite (fields_aux_run [] x [] Hs).
      simpl. rewrite app_nil_r. destruct (rev x) eqn:E.
      + apply (f_equal (@rev ascii)) in E. rewrite rev_involutive in E. simpl in E. congruence.
      + rewrite <- E, rev_involutive. reflexivity.
    - change (join [" "%char] (x :: y :: l)) with (x ++ " "%char :: join [" "%char] (y :: l)).
      rewrite (fields_aux_run [] x _ Hs). rewrite app_nil_r.
      cbn [fields_aux]. change (is_space " "%char) with true. cbn iota.
      destruct (rev x) eqn:E.
      + apply (f_equal (@rev ascii)) in E. rewrite rev_involutive in E. simpl in E. congruence.
      + rewrite <- E, rev_involutive, (IH F1' F2'). reflexivity.
  Qed.

  Lemma split_range_space l :
    l <> [] -> Forall clean l -> split_range (join [" "%char] l) = l.
  Proof.
    intros Hne HF. destruct (Forall_clean_parts l HF) as (F1 & F2 & F3).
    unfold split_range.
    rewrite (contains_c_no_c ","%char), (no_c_join ","%char [" "%char] l eq_refl F3). cbn [negb].
    destruct (contains_c " "%char (join [" "%char] l)) eqn:E.
    - apply fields_join; assumption.
    - destruct l as [|x [|y l]]; [congruence|reflexivity|].
      exfalso. change (join [" "%char] (x :: y :: l)) with (x ++ " "%char :: join [" "%char] (y :: l)) in E.
      rewrite contains_c_no_c, no_c_app in E. simpl in E. rewrite andb_false_r in E. discriminate.
  Qed.

  (* the joined text starts and ends with a non-space byte, so TrimSpace leaves it alone *)
  Lemma trim_right_last s c : is_space c = false -> trim_right (s ++ [c]) = s ++ [c].
  Proof.
    intros H. unfold trim_right. rewrite rev_app_distr. simpl. rewrite H.
    change (c :: rev s) with (rev [c] ++ rev s). rewrite <- rev_app_distr, rev_involutive. reflexivity.
  Qed.

  Lemma clean_last x : clean x -> exists s c, x = s ++ [c] /\ is_space c = false.
  Proof.
    intros (Hne & Hns & _). destruct (exists_last Hne) as (s & c & ->). exists s, c. split; [reflexivity|].
    rewrite no_space_app in Hns. apply andb_true_iff in Hns. destruct Hns as [_ H].
    simpl in H. rewrite andb_true_r in H. apply negb_true_iff in H. exact H.
  Qed.

  Lemma join_last sep l :
    l <> [] -> Forall clean l -> exists s c, join sep l = s ++ [c] /\ is_space c = false.
  Proof.
    induction l as [|x l IH]; intros Hne HF; [congruence|].
    inversion HF as [|? ? Hx HF']; subst. destruct l as [|y l].
    - simpl. apply clean_last. exact Hx.
    - destruct IH as (s & c & E & Hc); [discriminate|exact HF'|].
      change (join sep (x :: y :: l)) with (x ++ sep ++ join sep (y :: l)). rewrite E.
      exists (x ++ sep ++ s), c. split; [|exact Hc]. rewrite <- !app_assoc. reflexivity.
  Qed.

  Lemma trim_space_join sep l :
    l <> [] -> Forall clean l -> trim_space (join sep l) = join sep l.
  Proof.
    intros Hne HF. destruct (join_last sep l Hne HF) as (s & c & E & Hc).
    unfold trim_space.
    assert (L : trim_left (join sep l) = join sep l).
    { destruct l as [|x l]; [congruence|]. inversion HF as [|? ? (Hx & Hs & _) _]; subst.
      destruct x as [|d x]; [congruence|]. simpl in Hs. apply andb_true_iff in Hs.
      destruct Hs as [Hd _]. apply negb_true_iff in Hd.
      destruct l; simpl; apply trim_left_of_nonspace; exact Hd. }
    rewrite L, E. apply trim_right_last. exact Hc.
  Qed.

  (* C02: a list of comparators, written with any of the seven spellings and joined by "," or by
     " ", parses, and contains exactly the versions satisfying every comparator *)
  Theorem c02_list sep cs v :
    sep = ","%char \/ sep = " "%char ->
    cs <> [] -> Forall item_scope cs ->
    exists r, parse_range vok (join [sep] (map ctext cs)) = Some r /\
      r_cs r = map item_constr cs /\
      contains vcmp r v = forallb (fun i => sat (sem6 (op_of (fst i))) (vcmp v (snd i))) cs.
  Proof.
    intros Hsep Hne HF.
    assert (Hne' : map ctext cs <> []) by (destruct cs; [congruence|discriminate]).
    assert (HC : Forall clean (map ctext cs)).
    { apply Forall_forall. intros x Hx. apply in_map_iff in Hx. destruct Hx as (i & <- & Hi).
      apply ctext_clean'. rewrite Forall_forall in HF. auto. }
    assert (Hsplit : split_range (join [sep] (map ctext cs)) = map ctext cs).
    { destruct Hsep as [-> | ->]; [apply split_range_comma|apply split_range_space]; assumption. }
    unfold parse_range. rewrite (trim_space_join [sep] _ Hne' HC).
    assert (EJ : join [sep] (map ctext cs) <> []).
    { apply join_nonnil; [exact Hne'|].
      destruct (Forall_clean_parts _ HC) as (F1 & _). exact F1. }
    rewrite (match_nonempty _ _ EJ), Hsplit, (parse_all_items cs HF).
    destruct cs as [|i cs]; [congruence|]. cbn [map].
    eexists. split; [reflexivity|]. split; [reflexivity|].
    unfold contains. cbn [r_cs]. change (item_constr i :: map item_constr cs) with (map item_constr (i :: cs)).
    generalize (i :: cs). intros l. induction l as [|j l IH]; [reflexivity|].
    simpl. rewrite IH. reflexivity.
  Qed.

  (* C02, the single-comparator statement at the interface level *)
  Theorem c02_single sp a v :
    spelling sp -> bound_scope a = true -> vok a = true -> vok v = true ->
    r_contains Entry.r vok vcmp (sp ++ a) v = Some (sat (sem6 (op_of sp)) (vcmp v a)).
  Proof.
    intros Hsp Ha Hva Hv.
    destruct (c02_list ","%char [(sp, a)] v) as (r & Hr & _ & Hc); auto; [discriminate| |].
    { constructor; [|constructor]. repeat split; assumption. }
    simpl in Hr. unfold ctext in Hr. simpl in Hr.
    unfold Entry.r. cbn [r_contains]. rewrite Hr, Hv, Hc. simpl. rewrite andb_true_r. reflexivity.
  Qed.

  (* the six operators and the bare version, spelled out *)
  Corollary c02_table a v :
    bound_scope a = true -> vok a = true -> vok v = true ->
    r_contains Entry.r vok vcmp ($">=" ++ a) v = Some (sat CGe (vcmp v a)) /\
    r_contains Entry.r vok vcmp ($"<=" ++ a) v = Some (sat CLe (vcmp v a)) /\
    r_contains Entry.r vok vcmp ($"!=" ++ a) v = Some (sat CNe (vcmp v a)) /\
    r_contains Entry.r vok vcmp ($">" ++ a) v = Some (sat CGt (vcmp v a)) /\
    r_contains Entry.r vok vcmp ($"<" ++ a) v = Some (sat CLt (vcmp v a)) /\
    r_contains Entry.r vok vcmp ($"=" ++ a) v = Some (sat CEq (vcmp v a)) /\
    r_contains Entry.r vok vcmp a v = Some (sat CEq (vcmp v a)).
  Proof.
    intros Ha Hva Hv.
    repeat split;
      [apply (c02_single $">=") | apply (c02_single $"<=") | apply (c02_single $"!=")
      | apply (c02_single $">") | apply (c02_single $"<") | apply (c02_single $"=")
      | apply (c02_single []) ]; auto; unfold spelling, semver_ops; simpl; tauto.
  Qed.

  (* ---------- C05: the wildcard ---------- *)

  Theorem c05_wildcard v : vok v = true -> r_contains Entry.r vok vcmp $"*" v = Some true.
  Proof. intros Hv. unfold Entry.r. cbn [r_contains]. simpl. rewrite Hv. reflexivity. Qed.

  (* a "*" among other constraints changes nothing *)
  Lemma matches_wild v : matches vcmp v Wild = true.
  Proof. reflexivity. Qed.

  Lemma contains_wild_cons cs o v :
    contains vcmp {| r_cs := Wild :: cs; r_orig := o |} v = contains vcmp {| r_cs := cs; r_orig := o |} v.
  Proof. reflexivity. Qed.

  (* ---------- C20 ---------- *)

  Hypothesis TP : TotalPreorder vcmp.

  Theorem c20_eq r a b : vcmp a b = Eq -> contains vcmp r a = contains vcmp r b.
  Proof.
    intros E. unfold contains. induction (r_cs r) as [|c cs IH]; [reflexivity|].
    simpl. rewrite IH. f_equal. destruct c as [|op bd]; [reflexivity|].
    simpl. rewrite (tp_eq_l TP a b bd E). reflexivity.
  Qed.

  (* without "!=" a range is an interval: it contains everything between two members *)
  Definition no_ne (r : range) : bool :=
    forallb (fun c => match c with Wild => true | Cmp op _ => convex_op (sem6 op) end) (r_cs r).

  Theorem c20_convex r a b c :
    no_ne r = true -> le_c (vcmp a b) -> le_c (vcmp b c) ->
    contains vcmp r a = true -> contains vcmp r c = true -> contains vcmp r b = true.
  Proof.
    unfold no_ne, contains. intros Hcv Hab Hbc.
    induction (r_cs r) as [|k cs IH]; simpl in *; [reflexivity|].
    apply andb_true_iff in Hcv. destruct Hcv as [Hk Hcv].
    rewrite !andb_true_iff. intros [Ha1 Ha2] [Hc1 Hc2]. split; [|apply IH; assumption].
    destruct k as [|op bd]; [reflexivity|]. simpl in *.
    apply (sat_convex bytes vcmp TP _ bd a b c); assumption.
  Qed.
End Facts.

(* String() of a range is the trimmed input, and re-parsing it gives the same constraints *)
Lemma range_show vok s r : parse_range vok s = Some r -> show r = trim_space s.
Proof.
  unfold parse_range. destruct (trim_space s) as [|x t] eqn:E; [discriminate|].
  destruct (parse_all vok (split_range (x :: t))) as [[|c cs]|]; try discriminate;
    intros H; injection H as <-; reflexivity.
Qed.

Lemma range_reparse vok s r :
  parse_range vok s = Some r -> parse_range vok (show r) = Some r.
Proof.
  intros H. pose proof (range_show vok s r H) as E. rewrite E.
  unfold parse_range in *. rewrite trim_space_idem. exact H.
Qed.

Print Assumptions c02_list.
Print Assumptions c02_single.
Print Assumptions c02_table.
Print Assumptions c05_wildcard.
Print Assumptions c20_eq.
Print Assumptions c20_convex.
Print Assumptions range_reparse.
