(* Eco/Semver/SpecFacts.v — the semver model measured against the independent reference
   Spec/SemVer.v (SemVer 2.0.0 grammar and section 11 precedence):
     * the parser accepts exactly the valid SemVer strings whose major, minor and patch fit in an
       int64 ([accept_iff]); larger components are valid SemVer but rejected ([reject_big]);
     * on accepted strings whose numeric pre-release identifiers fit in an int64 (in particular
       those of at most 18 digits) Compare is the reference precedence ([cmp_spec],
       [cmp_spec_18]); beyond that Compare saturates and differs ([cmp_saturates]). *)
From Coq Require Import Lia.
From Verif.Base Require Import Bytes GoNum Ord BytesFacts.
From Verif.Eco.Semver Require Import DecFacts.
From Verif.Spec Require SemVer SemVerFacts.
From Verif.Eco.Semver Require Import Version VersionFacts.
Module SV := Verif.Spec.SemVer.
Local Open Scope N_scope.

(* ---------- the recognisers agree ---------- *)

Lemma forallb_ext' {A} (f g : A -> bool) l : (forall x, f x = g x) -> forallb f l = forallb g l.
Proof. intros E. induction l as [|x l IH]; simpl; [reflexivity|]. rewrite E, IH. reflexivity. Qed.

Lemma valid_chars_build s : valid_chars s = SV.build_ident_ok s.
Proof. destruct s; reflexivity. Qed.

Lemma build_valid_spec b : build_valid b = SV.build_ok b.
Proof.
  unfold build_valid, dotted_idents, validate_build, SV.build_ok.
  rewrite (forallb_ext' _ _ _ valid_chars_build). apply andb_diag.
Qed.

Lemma leading_zero_spec s : leading_zero s = negb (SV.no_leading_zero s).
Proof. destruct s as [|c [|d r]]; simpl; try reflexivity; rewrite negb_involutive; reflexivity. Qed.

Lemma digits_ident s : forallb is_digit s = true -> forallb is_ident_char s = true.
Proof.
  apply forallb_impl. intros x H. unfold is_ident_char, is_alnum. rewrite H. reflexivity.
Qed.

Lemma is_numeric_cons c r : is_numeric (c :: r) = all_digits (c :: r).
Proof. reflexivity. Qed.

Lemma pre_part_ok_spec x : pre_part_ok x = SV.isSome (SV.pre_ident true x).
Proof.
  destruct x as [|c r]; [reflexivity|].
  unfold pre_part_ok, SV.pre_ident, SV.numeric. rewrite is_numeric_cons.
  change (nonempty_digits (c :: r)) with (all_digits (c :: r)).
  change (valid_chars (c :: r)) with (forallb is_ident_char (c :: r)).
  change SV.is_ident_char with is_ident_char.
  destruct (all_digits (c :: r)) eqn:D.
  - rewrite (digits_ident _ D), leading_zero_spec. cbn [andb negb orb].
    destruct (SV.no_leading_zero (c :: r)); reflexivity.
  - cbn [andb negb]. rewrite andb_true_r. destruct (forallb is_ident_char (c :: r)); reflexivity.
Qed.

Lemma forallb_map_opt {A B} (f : A -> bool) (g : A -> option B) l :
  (forall x, f x = SV.isSome (g x)) -> forallb f l = SV.isSome (SV.map_opt g l).
Proof.
  intros E. induction l as [|x l IH]; [reflexivity|].
  simpl. rewrite E, IH. destruct (g x); [|reflexivity]. destruct (SV.map_opt g l); reflexivity.
Qed.

Lemma validate_prerelease_spec p : validate_prerelease p = SV.isSome (SV.parse_pre true p).
Proof. unfold validate_prerelease, SV.parse_pre. apply forallb_map_opt, pre_part_ok_spec. Qed.

Lemma validate_prerelease_dotted p : validate_prerelease p = true -> dotted_idents p = true.
Proof.
  unfold validate_prerelease, dotted_idents. apply forallb_impl. intros x H.
  unfold pre_part_ok in H. apply andb_true_iff in H. tauto.
Qed.

Lemma pre_valid_spec p : pre_valid p = SV.isSome (SV.parse_pre true p).
Proof.
  unfold pre_valid. rewrite <- validate_prerelease_spec.
  destruct (validate_prerelease p) eqn:E; [|apply andb_false_r].
  rewrite (validate_prerelease_dotted p E). reflexivity.
Qed.

(* numbers *)
Lemma parse_num_fwd a z :
  parse_num a = Some z ->
  SV.numeric true a = Some (digits_val a) /\ z = Z.of_N (digits_val a) /\ digits_val a < two63.
Proof.
  unfold parse_num, SV.numeric. rewrite leading_zero_spec, negb_involutive.
  destruct (nonempty_digits a); [|discriminate]. destruct (digits_val a <? two63) eqn:E; [|discriminate].
  destruct (SV.no_leading_zero a); [|discriminate]. cbn. intros H. injection H as <-.
  apply N.ltb_lt in E. auto.
Qed.

Lemma parse_num_bwd a n :
  SV.numeric true a = Some n -> n < two63 -> n = digits_val a /\ parse_num a = Some (Z.of_N n).
Proof.
  unfold parse_num, SV.numeric. rewrite leading_zero_spec, negb_involutive.
  destruct (nonempty_digits a); [|discriminate]. cbn [andb negb orb].
  destruct (SV.no_leading_zero a); [|discriminate]. intros H. injection H as <-. intros Hn.
  apply N.ltb_lt in Hn. rewrite Hn. auto.
Qed.

(* ---------- both parsers, unfolded along the same two cuts ---------- *)

Lemma parse_strict_unfold t main bld nums pre :
  split2_c "+"%char t = (main, bld) -> split2_c "-"%char main = (nums, pre) ->
  SV.parse_strict t =
  if opt_valid SV.build_ok bld then
    match SV.parse_nums true 3 3 nums with
    | None => None
    | Some ns =>
        match pre with
        | None => Some {| SV.nums := SV.pad_nums 3 ns; SV.pre := [] |}
        | Some p =>
            match SV.parse_pre true p with
            | Some ids => Some {| SV.nums := SV.pad_nums 3 ns; SV.pre := ids |}
            | None => None
            end
        end
    end
  else None.
Proof.
  intros H1 H2. unfold SV.parse_strict, SV.parse_gen. rewrite H1, H2.
  destruct bld; reflexivity.
Qed.

Lemma map_opt_length {A B} (f : A -> option B) l r :
  SV.map_opt f l = Some r -> length r = length l.
Proof.
  revert r. induction l as [|x l IH]; simpl; intros r H.
  - injection H as <-. reflexivity.
  - destruct (f x); [|discriminate]. destruct (SV.map_opt f l) as [ys|]; [|discriminate].
    injection H as <-. simpl. rewrite (IH ys eq_refl). reflexivity.
Qed.

Lemma map_opt_cons_inv {A B} (f : A -> option B) x l r :
  SV.map_opt f (x :: l) = Some r ->
  exists y ys, f x = Some y /\ SV.map_opt f l = Some ys /\ r = y :: ys.
Proof.
  simpl. destruct (f x) as [y|]; [|discriminate]. destruct (SV.map_opt f l) as [ys|]; [|discriminate].
  intros H. injection H as <-. eauto.
Qed.

(* how the pre-release text of the model relates to the identifier list of the reference *)
Definition pre_rel (p : bytes) (ids : list SV.ident) : Prop :=
  match p with
  | [] => ids = []
  | _ :: _ => SV.parse_pre true p = Some ids /\ ids <> []
  end.

Lemma parse_pre_nonnil p ids : SV.parse_pre true p = Some ids -> ids <> [].
Proof.
  unfold SV.parse_pre. intros H. apply map_opt_length in H.
  pose proof (split_c_nonnil "."%char p). destruct ids; [|discriminate].
  destruct (split_c "."%char p); [congruence|discriminate].
Qed.

(* ---------- acceptance, and the denotation of an accepted string ---------- *)

Theorem parse_core_spec t c :
  parse_core t = Some c ->
  exists x y z ids,
    SV.parse_strict t = Some {| SV.nums := [x; y; z]; SV.pre := ids |} /\
    major c = Z.of_N x /\ minor c = Z.of_N y /\ patch c = Z.of_N z /\
    x < two63 /\ y < two63 /\ z < two63 /\
    pre_rel (prerelease c) ids.
Proof.
  destruct (split2_c "+"%char t) as [main bld] eqn:S1.
  destruct (split2_c "-"%char main) as [nums pre] eqn:S2.
  rewrite (parse_core_unfold _ _ _ _ _ S1 S2), (parse_strict_unfold _ _ _ _ _ S1 S2).
  destruct (split_c "."%char nums) as [|a [|b [|d [|e r]]]] eqn:SP; try discriminate.
  destruct (parse_num a) as [x|] eqn:Pa; [|discriminate].
  destruct (parse_num b) as [y|] eqn:Pb; [|discriminate].
  destruct (parse_num d) as [z|] eqn:Pd; [|discriminate].
  destruct (parse_num_fwd _ _ Pa) as (Na & -> & La).
  destruct (parse_num_fwd _ _ Pb) as (Nb & -> & Lb).
  destruct (parse_num_fwd _ _ Pd) as (Nd & -> & Ld).
  fold (build_valid) in *.
  change (match bld with Some b0 => dotted_idents b0 && validate_build b0 | None => true end)
    with (opt_valid build_valid bld).
  change (match pre with Some p => dotted_idents p && validate_prerelease p | None => true end)
    with (opt_valid pre_valid pre).
  destruct (opt_valid build_valid bld) eqn:VB; [|discriminate].
  destruct (opt_valid pre_valid pre) eqn:VP; [|discriminate].
  cbn [andb]. intros H. injection H as <-. cbn [major minor patch prerelease].
  assert (VB' : opt_valid SV.build_ok bld = true).
  { destruct bld; [|reflexivity]. simpl in *. rewrite <- build_valid_spec. exact VB. }
  rewrite VB'.
  assert (PN : SV.parse_nums true 3 3 nums = Some [digits_val a; digits_val b; digits_val d]).
  { unfold SV.parse_nums. rewrite SP. cbn [SV.map_opt]. rewrite Na, Nb, Nd. reflexivity. }
  rewrite PN. cbn [SV.pad_nums].
  exists (digits_val a), (digits_val b), (digits_val d).
  destruct pre as [p|].
  - simpl in VP. rewrite pre_valid_spec in VP.
    destruct (SV.parse_pre true p) as [ids|] eqn:PP; [|discriminate].
    exists ids. repeat split; auto.
    assert (Hp : p <> []).
    { intros ->. vm_compute in PP. discriminate. }
    unfold pre_rel. destruct p; [congruence|]. split; [exact PP|apply (parse_pre_nonnil _ _ PP)].
  - exists []. repeat split; auto.
Qed.

Theorem parse_core_complete t v :
  SV.parse_strict t = Some v -> Forall (fun n => n < two63) (SV.nums v) ->
  exists c, parse_core t = Some c.
Proof.
  destruct (split2_c "+"%char t) as [main bld] eqn:S1.
  destruct (split2_c "-"%char main) as [nums pre] eqn:S2.
  rewrite (parse_core_unfold _ _ _ _ _ S1 S2), (parse_strict_unfold _ _ _ _ _ S1 S2).
  destruct (opt_valid SV.build_ok bld) eqn:VB; [|discriminate].
  destruct (SV.parse_nums true 3 3 nums) as [ns|] eqn:PN; [|discriminate].
  assert (VB' : match bld with Some b0 => dotted_idents b0 && validate_build b0 | None => true end = true).
  { destruct bld as [b|]; [|reflexivity]. simpl in VB. rewrite <- build_valid_spec in VB. exact VB. }
  rewrite VB'.
  intros H F.
  assert (NV : SV.nums v = ns /\
               match pre with Some p => dotted_idents p && validate_prerelease p | None => true end = true).
  { pose proof (SemVerFacts.parse_nums_length _ _ _ _ _ PN) as L.
    assert (P3 : SV.pad_nums 3 ns = ns) by (apply SemVerFacts.pad_nums_id; lia).
    rewrite P3 in H. destruct pre as [p|].
    - destruct (SV.parse_pre true p) as [ids|] eqn:PP; [|discriminate].
      injection H as <-. split; [reflexivity|].
      change (pre_valid p = true). rewrite pre_valid_spec, PP. reflexivity.
    - injection H as <-. auto. }
  destruct NV as [NV VP]. rewrite NV in F. rewrite VP.
  unfold SV.parse_nums in PN.
  destruct (SV.map_opt (SV.numeric true) (split_c "."%char nums)) as [l|] eqn:MO; [|discriminate].
  destruct (Nat.leb 3 (length l) && Nat.leb (length l) 3)%bool eqn:LL; [|discriminate].
  injection PN as ->.
  apply andb_true_iff in LL. destruct LL as [L1 L2]. apply Nat.leb_le in L1, L2.
  pose proof (map_opt_length _ _ _ MO) as ML.
  destruct (split_c "."%char nums) as [|a [|b [|d [|e r]]]]; simpl in ML; try lia.
  apply map_opt_cons_inv in MO. destruct MO as (x & l1 & Na & MO & ->).
  apply map_opt_cons_inv in MO. destruct MO as (y & l2 & Nb & MO & ->).
  apply map_opt_cons_inv in MO. destruct MO as (z & l3 & Nd & MO & ->).
  simpl in MO. injection MO as <-.
  inversion F as [|? ? Fx F1]; subst. inversion F1 as [|? ? Fy F2]; subst.
  inversion F2 as [|? ? Fz F3]; subst.
  destruct (parse_num_bwd _ _ Na Fx) as [_ ->].
  destruct (parse_num_bwd _ _ Nb Fy) as [_ ->].
  destruct (parse_num_bwd _ _ Nd Fz) as [_ ->].
  cbn [andb]. eauto.
Qed.

(* NewVersion accepts exactly the valid SemVer 2.0.0 strings whose three numbers fit in an int64 *)
Theorem accept_iff t :
  (exists c, parse_core t = Some c) <->
  (exists v, SV.parse_strict t = Some v /\ Forall (fun n => n < two63) (SV.nums v)).
Proof.
  split.
  - intros [c H]. destruct (parse_core_spec t c H) as (x & y & z & ids & P & _ & _ & _ & Lx & Ly & Lz & _).
    eexists. split; [exact P|]. cbn. repeat constructor; assumption.
  - intros (v & P & F). apply (parse_core_complete t v P F).
Qed.

Corollary accept_valid t c : parse_core t = Some c -> SV.spec_valid t = true.
Proof.
  intros H. destruct (parse_core_spec t c H) as (x & y & z & ids & P & _).
  unfold SV.spec_valid, SV.semver_bnf. rewrite P. reflexivity.
Qed.

(* valid SemVer, rejected by NewVersion (strconv.Atoi range error) *)
Lemma reject_big :
  SV.spec_valid $"9223372036854775808.0.0" = true /\ parse_core $"9223372036854775808.0.0" = None.
Proof. vm_compute. split; reflexivity. Qed.

(* ---------- Compare against section 11 ---------- *)

(* a pre-release identifier is "small" when it is not numeric or its value fits in an int64 *)
Definition small_part (p : bytes) : bool := negb (is_numeric p) || (digits_val p <? two63).
Definition pre_small (c : core) : bool := forallb small_part (split_c "."%char (prerelease c)).

Lemma atoi_sat_digits s :
  nonempty_digits s = true -> digits_val s < two63 -> atoi_sat s = Z.of_N (digits_val s).
Proof.
  intros H L. destruct s as [|c r]; [discriminate|].
  assert (Hc : is_digit c = true) by (simpl in H; apply andb_true_iff in H; tauto).
  assert (Hm : ceqb c "-"%char = false) by (apply ceqb_neq; intros ->; discriminate).
  assert (Hp : ceqb c "+"%char = false) by (apply ceqb_neq; intros ->; discriminate).
  unfold atoi_sat. rewrite Hm, Hp, H.
  apply N.ltb_lt in L. rewrite L. reflexivity.
Qed.

Lemma pre_ident_cases x i :
  SV.pre_ident true x = Some i ->
  (is_numeric x = true /\ i = SV.INum (digits_val x)) \/
  (is_numeric x = false /\ x <> [] /\ i = SV.IAlnum x).
Proof.
  destruct x as [|c r]; [discriminate|]. unfold SV.pre_ident, SV.numeric.
  change (nonempty_digits (c :: r)) with (all_digits (c :: r)).
  destruct (all_digits (c :: r)) eqn:D.
  - cbn [andb negb orb]. destruct (SV.no_leading_zero (c :: r)); [|discriminate].
    intros H. injection H as <-. left. split; [exact D|reflexivity].
  - destruct (forallb SV.is_ident_char (c :: r)); [|discriminate].
    intros H. injection H as <-. right. split; [exact D|]. split; [discriminate|reflexivity].
Qed.

Lemma part_key_num x : is_numeric x = true -> part_key x = ((1, atoi_sat x), []).
Proof. destruct x; [discriminate|]. intros H. unfold part_key. rewrite H. reflexivity. Qed.

Lemma part_key_alnum x : x <> [] -> is_numeric x = false -> part_key x = ((2, 0%Z), x).
Proof. destruct x; [congruence|]. intros _ H. unfold part_key. rewrite H. reflexivity. Qed.

Lemma part_cmp_ident x y ix iy :
  SV.pre_ident true x = Some ix -> SV.pre_ident true y = Some iy ->
  small_part x = true -> small_part y = true ->
  part_cmp x y = SV.ident_cmp ix iy.
Proof.
  intros Hx Hy Sx Sy. unfold part_cmp, cmp_on, lex2, small_part in *.
  destruct (pre_ident_cases _ _ Hx) as [[Nx ->]|(Nx & Ex & ->)];
  destruct (pre_ident_cases _ _ Hy) as [[Ny ->]|(Ny & Ey & ->)];
    rewrite ?Nx, ?Ny in *; cbn [negb orb] in *;
    rewrite ?(part_key_num _ Nx), ?(part_key_num _ Ny),
            ?(part_key_alnum _ Ex Nx), ?(part_key_alnum _ Ey Ny); cbn [fst snd SV.ident_cmp].
  - apply N.ltb_lt in Sx, Sy.
    rewrite (atoi_sat_digits x Nx Sx), (atoi_sat_digits y Ny Sy), N2Z.inj_compare.
    change (1 ?= 1) with Eq. cbn [thenc bytes_cmp]. apply thenc_eq_r.
  - reflexivity.
  - reflexivity.
  - change (2 ?= 2) with Eq. cbn [thenc]. reflexivity.
Qed.

Lemma pre_ident_nonnil x i : SV.pre_ident true x = Some i -> x <> [].
Proof. destruct x; [discriminate|discriminate]. Qed.

Lemma part_cmp_nil_l y : y <> [] -> part_cmp [] y = Lt.
Proof.
  destruct y as [|c r]; [congruence|]. intros _. unfold part_cmp, cmp_on, part_key.
  destruct (is_numeric (c :: r)); reflexivity.
Qed.

Lemma part_cmp_nil_r x : x <> [] -> part_cmp x [] = Gt.
Proof.
  destruct x as [|c r]; [congruence|]. intros _. unfold part_cmp, cmp_on, part_key.
  destruct (is_numeric (c :: r)); reflexivity.
Qed.

(* identifier lists: the padded comparison of the Go loop is the plain "shorter first"
   lexicographic order, because no identifier is empty *)
Lemma pres_cmp la : forall lb ia ib,
  SV.map_opt (SV.pre_ident true) la = Some ia -> SV.map_opt (SV.pre_ident true) lb = Some ib ->
  forallb small_part la = true -> forallb small_part lb = true ->
  lex_pad [] part_cmp la lb = lex_short SV.ident_cmp ia ib.
Proof.
  induction la as [|x la IH]; intros lb ia ib Ha Hb Sa Sb.
  - simpl in Ha. injection Ha as <-. destruct lb as [|y lb].
    + simpl in Hb. injection Hb as <-. reflexivity.
    + apply map_opt_cons_inv in Hb. destruct Hb as (iy & ib' & Hy & _ & ->).
      cbn [lex_pad lex_pad_l lex_short]. rewrite (part_cmp_nil_l y (pre_ident_nonnil _ _ Hy)). reflexivity.
  - apply map_opt_cons_inv in Ha. destruct Ha as (ix & ia' & Hx & Ha & ->).
    cbn [forallb] in Sa. apply andb_true_iff in Sa. destruct Sa as [Sx Sa].
    destruct lb as [|y lb].
    + simpl in Hb. injection Hb as <-.
      cbn [lex_pad lex_short]. rewrite (part_cmp_nil_r x (pre_ident_nonnil _ _ Hx)). reflexivity.
    + apply map_opt_cons_inv in Hb. destruct Hb as (iy & ib' & Hy & Hb & ->).
      cbn [forallb] in Sb. apply andb_true_iff in Sb. destruct Sb as [Sy Sb].
      cbn [lex_pad lex_short]. rewrite (part_cmp_ident x y ix iy Hx Hy Sx Sy).
      rewrite (IH lb ia' ib' Ha Hb Sa Sb). reflexivity.
Qed.

Lemma compare_prerelease_spec p q ip iq :
  pre_rel p ip -> pre_rel q iq ->
  forallb small_part (split_c "."%char p) = true -> forallb small_part (split_c "."%char q) = true ->
  compare_prerelease p q = SV.pre_cmp ip iq.
Proof.
  intros Hp Hq Sp Sq. unfold compare_prerelease, SV.pre_cmp, cmp_on.
  destruct p as [|c p]; destruct q as [|d q]; unfold pre_rel in Hp, Hq.
  - subst. reflexivity.
  - destruct Hq as [_ Hq]. subst ip. destruct iq; [congruence|reflexivity].
  - destruct Hp as [_ Hp]. subst iq. destruct ip; [congruence|reflexivity].
  - destruct Hp as [Pp Np]. destruct Hq as [Pq Nq].
    cbn [pre_key]. destruct ip as [|i ip]; [congruence|]. destruct iq as [|j iq]; [congruence|].
    cbn [SV.pre_key opt_last]. apply pres_cmp; assumption.
Qed.

(* Compare is the section 11 precedence on accepted strings whose numeric pre-release
   identifiers fit in an int64 *)
Theorem cmp_spec a b ca cb :
  parse_core a = Some ca -> parse_core b = Some cb ->
  pre_small ca = true -> pre_small cb = true ->
  SV.spec_cmp a b = Some (cmp_core ca cb).
Proof.
  intros Ha Hb Sa Sb.
  destruct (parse_core_spec a ca Ha) as (x1 & y1 & z1 & i1 & P1 & Ex1 & Ey1 & Ez1 & _ & _ & _ & R1).
  destruct (parse_core_spec b cb Hb) as (x2 & y2 & z2 & i2 & P2 & Ex2 & Ey2 & Ez2 & _ & _ & _ & R2).
  unfold SV.spec_cmp, SV.spec_cmp_with. rewrite P1, P2. f_equal.
  unfold SV.prec, cmp_core, lexc, cmp_on. cbn [SV.nums SV.pre].
  rewrite SemVerFacts.nums_cmp_3.
  rewrite Ex1, Ey1, Ez1, Ex2, Ey2, Ez2, !N2Z.inj_compare.
  rewrite (compare_prerelease_spec _ _ _ _ R1 R2 Sa Sb).
  destruct (x1 ?= x2), (y1 ?= y2), (z1 ?= z2); reflexivity.
Qed.

(* in particular when every numeric pre-release identifier has at most 18 digits *)
Definition short_part (p : bytes) : bool := negb (is_numeric p) || (length p <=? 18)%nat.
Definition pre_short (c : core) : bool := forallb short_part (split_c "."%char (prerelease c)).

Lemma short_small p : short_part p = true -> small_part p = true.
Proof.
  unfold short_part, small_part. destruct (is_numeric p) eqn:E; [|reflexivity].
  cbn [negb orb]. intros H. apply Nat.leb_le in H. apply N.ltb_lt.
  assert (D : forallb is_digit p = true) by (destruct p; [discriminate|exact E]).
  pose proof (digits_val_bound p D) as B.
  assert (P : 10 ^ N.of_nat (length p) <= 10 ^ 18).
  { apply N.pow_le_mono_r; [discriminate|]. lia. }
  unfold two63. change (10 ^ 18) with 1000000000000000000 in P. lia.
Qed.

Corollary cmp_spec_18 a b ca cb :
  parse_core a = Some ca -> parse_core b = Some cb ->
  pre_short ca = true -> pre_short cb = true ->
  SV.spec_cmp a b = Some (cmp_core ca cb).
Proof.
  intros Ha Hb Sa Sb. apply cmp_spec; auto.
  - revert Sa. unfold pre_short, pre_small. apply forallb_impl. exact short_small.
  - revert Sb. unfold pre_short, pre_small. apply forallb_impl. exact short_small.
Qed.

(* at the string level, with the VLayer: Compare of two parsed versions *)
Corollary cmp_spec_strings s1 s2 v1 v2 :
  parse s1 = Some v1 -> parse s2 = Some v2 ->
  pre_short (VLayer.v_core v1) = true -> pre_short (VLayer.v_core v2) = true ->
  SV.spec_cmp (trim_space s1) (trim_space s2) = Some (cmp v1 v2).
Proof.
  intros H1 H2 S1 S2.
  apply (VLayerFacts.parse_core_of _ parse_core raw_orig) in H1.
  apply (VLayerFacts.parse_core_of _ parse_core raw_orig) in H2.
  apply cmp_spec_18; assumption.
Qed.

(* beyond int64 the Go comparison saturates: the reference orders these two, Compare says equal *)
Lemma cmp_saturates :
  SV.spec_cmp $"1.0.0-9223372036854775807" $"1.0.0-9223372036854775808" = Some Lt /\
  (exists ca cb, parse_core $"1.0.0-9223372036854775807" = Some ca /\
                 parse_core $"1.0.0-9223372036854775808" = Some cb /\ cmp_core ca cb = Eq).
Proof.
  split; [vm_compute; reflexivity|].
  eexists. eexists. split; [vm_compute; reflexivity|]. split; [vm_compute; reflexivity|].
  vm_compute. reflexivity.
Qed.

Print Assumptions accept_iff.
Print Assumptions cmp_spec.
Print Assumptions cmp_spec_18.
Print Assumptions cmp_spec_strings.
Print Assumptions reject_big.
Print Assumptions cmp_saturates.
