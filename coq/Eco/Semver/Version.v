(* Eco/Semver/Version.v — model of pkg/ecosystem/semver/version.go (definitions only). *)
From Verif.Base Require Import Bytes GoNum.
From Verif.Eco Require Import VLayer.
Local Open Scope N_scope.

(* type Version struct { major, minor, patch int; prerelease, build string; original string } *)
Record core := {
  major : Z;
  minor : Z;
  patch : Z;
  prerelease : bytes;    (* "" = none *)
  build : bytes          (* "" = none *)
}.

(* [0-9A-Za-z\-] *)
Definition is_ident_char (c : ascii) : bool := is_alnum c || ceqb c "-"%char.

(* validCharsPattern ^[0-9A-Za-z\-]+$ *)
Definition valid_chars (s : bytes) : bool :=
  match s with [] => false | _ :: _ => forallb is_ident_char s end.

(* numericPattern ^[0-9]+$ *)
Definition is_numeric (s : bytes) : bool := nonempty_digits s.

(* the dotted identifier pattern  [0-9A-Za-z\-]+(?:\.[0-9A-Za-z\-]+)*  against a whole text *)
Definition dotted_idents (s : bytes) : bool := forallb valid_chars (split_c "."%char s).

(* len(m) > 1 && m[0] == '0' *)
Definition leading_zero (s : bytes) : bool :=
  match s with
  | c :: _ :: _ => ceqb c "0"%char
  | _ => false
  end.

(* a (\d+) group, then strconv.Atoi (range error for values >= 2^63), then the leading-zero test *)
Definition parse_num (s : bytes) : option Z :=
  if nonempty_digits s && (digits_val s <? two63) && negb (leading_zero s)
  then Some (Z.of_N (digits_val s))
  else None.

(* validatePrerelease: every identifier non-empty, valid characters, numeric ones without
   leading zeros *)
Definition pre_part_ok (p : bytes) : bool :=
  valid_chars p && negb (is_numeric p && leading_zero p).
Definition validate_prerelease (s : bytes) : bool :=
  forallb pre_part_ok (split_c "."%char s).

(* validateBuildMetadata *)
Definition validate_build (s : bytes) : bool :=
  forallb valid_chars (split_c "."%char s).

(* versionPattern is  ^(\d+)\.(\d+)\.(\d+)(?:-(IDS))?(?:\+(IDS))?$  where IDS is the dotted
   identifier pattern above.  The plus sign occurs in no character class, so group 5 is what
   follows the first plus sign; the three numbers contain no hyphen, so group 4 is what follows
   the first hyphen of the rest.  A group that is present is non-empty, so the empty string
   stands for an absent group as in the Go code. *)
Definition parse_core (t : bytes) : option core :=
  let '(main, bld) := split2_c "+"%char t in
  let '(nums, pre) := split2_c "-"%char main in
  let bld_ok := match bld with None => true | Some b => dotted_idents b && validate_build b end in
  let pre_ok := match pre with None => true | Some p => dotted_idents p && validate_prerelease p end in
  match split_c "."%char nums with
  | [a; b; c] =>
      match parse_num a, parse_num b, parse_num c with
      | Some x, Some y, Some z =>
          if bld_ok && pre_ok
          then Some {| major := x; minor := y; patch := z;
                       prerelease := match pre with Some p => p | None => [] end;
                       build := match bld with Some b => b | None => [] end |}
          else None
      | _, _, _ => None
      end
  | _ => None
  end.

(* one dot-separated identifier as comparePrerelease sees it: the empty string (also standing
   for "past the end") is below everything, numeric identifiers are below the others and
   compare by strconv.Atoi with the error ignored (saturating), the others as byte strings *)
Definition part_key (p : bytes) : (N * Z) * bytes :=
  match p with
  | [] => ((0, 0%Z), [])
  | _ :: _ => if is_numeric p then ((1, atoi_sat p), []) else ((2, 0%Z), p)
  end.

Definition part_cmp : bytes -> bytes -> comparison :=
  cmp_on part_key (lex2 (lex2 N.compare Z.compare) bytes_cmp).

(* comparePrerelease *)
Definition pre_key (s : bytes) : option (list bytes) :=
  match s with
  | [] => None
  | _ :: _ => Some (split_c "."%char s)
  end.

Definition compare_prerelease : bytes -> bytes -> comparison :=
  cmp_on pre_key (opt_last (lex_pad [] part_cmp)).

(* Compare *)
Definition cmp_core : core -> core -> comparison :=
  lexc (cmp_on major Z.compare)
    (lexc (cmp_on minor Z.compare)
       (lexc (cmp_on patch Z.compare)
          (cmp_on prerelease compare_prerelease))).

Definition raw_orig := true.

Definition ver := VLayer.ver core.
Definition parse : bytes -> option ver := VLayer.parse parse_core raw_orig.
Definition cmp : ver -> ver -> comparison := VLayer.cmp cmp_core.
Definition show : ver -> bytes := VLayer.show.
