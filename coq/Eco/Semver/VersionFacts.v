(* Eco/Semver/VersionFacts.v — order laws of the semver Compare model (C01). *)
From Coq Require Import Lia.
From Verif.Base Require Import Bytes GoNum Ord BytesFacts.
From Verif.Eco.Semver Require Import DecFacts.
From Verif.Eco Require Import VLayer VLayerFacts.
From Verif.Eco.Semver Require Import Version.

Lemma part_cmp_tp : TotalPreorder part_cmp.
Proof.
  unfold part_cmp. apply TP_on. apply TP_lex2; [apply TP_lex2; [apply TP_N|apply TP_Z]|apply TP_bytes_cmp].
Qed.

Lemma compare_prerelease_tp : TotalPreorder compare_prerelease.
Proof. unfold compare_prerelease. apply TP_on, TP_opt_last, TP_lex_pad, part_cmp_tp. Qed.

Lemma cmp_core_tp : TotalPreorder cmp_core.
Proof.
  unfold cmp_core.
  repeat (apply TP_lexc; [apply TP_on, TP_Z|]).
  apply TP_on, compare_prerelease_tp.
Qed.

Lemma cmp_tp : TotalPreorder cmp.
Proof. apply VLayerFacts.cmp_tp, cmp_core_tp. Qed.

(* ------------------------------------------------------------------ *)
(* C03: numeric tuples compare as integer tuples; pre-release is below  *)
(* the release; build metadata is ignored                               *)
(* ------------------------------------------------------------------ *)

Local Open Scope N_scope.

Lemma leading_zero_dec n : leading_zero (dec n) = false.
Proof.
  destruct (dec_head n) as [E|(c & r & E & H)]; rewrite E; [reflexivity|].
  simpl. destruct r; [reflexivity|exact H].
Qed.

Lemma parse_num_dec n : n < two63 -> parse_num (dec n) = Some (Z.of_N n).
Proof.
  intros H. unfold parse_num.
  rewrite dec_nonempty_digits, dec_val, leading_zero_dec.
  apply N.ltb_lt in H. rewrite H. reflexivity.
Qed.

(* the text "a.b.c" *)
Definition triple (a b c : N) : bytes := dec a ++ "."%char :: dec b ++ "."%char :: dec c.

Lemma triple_join a b c : join $"." (map dec [a; b; c]) = triple a b c.
Proof. reflexivity. Qed.

Lemma triple_no_c d a b c :
  is_digit d = false -> ceqb d "."%char = false -> no_c d (triple a b c) = true.
Proof.
  intros Hd Hp. unfold triple.
  rewrite no_c_app. cbn [no_c forallb]. fold (no_c d (dec b ++ "."%char :: dec c)).
  rewrite no_c_app. cbn [no_c forallb]. fold (no_c d (dec c)).
  rewrite !dec_no_c by exact Hd. rewrite Hp. reflexivity.
Qed.

Lemma split_triple a b c : split_c "."%char (triple a b c) = [dec a; dec b; dec c].
Proof.
  unfold triple.
  rewrite split_c_first by (apply dec_no_c; reflexivity).
  rewrite split_c_first by (apply dec_no_c; reflexivity).
  rewrite split_c_none by (apply dec_no_c; reflexivity). reflexivity.
Qed.

Lemma parse_core_unfold t main bld nums pre :
  split2_c "+"%char t = (main, bld) -> split2_c "-"%char main = (nums, pre) ->
  parse_core t =
  match split_c "."%char nums with
  | [a; b; c] =>
      match parse_num a, parse_num b, parse_num c with
      | Some x, Some y, Some z =>
          if (match bld with None => true | Some b => dotted_idents b && validate_build b end)
             && (match pre with None => true | Some p => dotted_idents p && validate_prerelease p end)
          then Some {| major := x; minor := y; patch := z;
                       prerelease := match pre with Some p => p | None => [] end;
                       build := match bld with Some b => b | None => [] end |}
          else None
      | _, _, _ => None
      end
  | _ => None
  end.
Proof. intros H1 H2. unfold parse_core. rewrite H1, H2. reflexivity. Qed.

(* identifiers contain neither "+" nor (for the record) anything but identifier bytes and dots *)
Lemma dotted_idents_chars p :
  dotted_idents p = true -> forallb (fun c => is_ident_char c || ceqb "."%char c) p = true.
Proof.
  unfold dotted_idents. intros H. apply split_c_chars.
  revert H. apply forallb_impl. intros x. unfold valid_chars. destruct x; [discriminate|auto].
Qed.

Lemma dotted_idents_no_plus p : dotted_idents p = true -> no_c "+"%char p = true.
Proof.
  intros H. apply dotted_idents_chars in H. revert H. unfold no_c. apply forallb_impl.
  intros x Hx. destruct (ceqb "+"%char x) eqn:E; [|reflexivity].
  apply ceqb_eq in E. subst x. discriminate.
Qed.

Lemma dotted_idents_nonnil p : dotted_idents p = true -> p <> [].
Proof. intros H ->. discriminate. Qed.

Definition pre_valid (p : bytes) : bool := dotted_idents p && validate_prerelease p.
Definition build_valid (b : bytes) : bool := dotted_idents b && validate_build b.

Definition opt_valid (f : bytes -> bool) (o : option bytes) : bool :=
  match o with None => true | Some x => f x end.
Definition opt_text (m : ascii) (o : option bytes) : bytes :=
  match o with None => [] | Some x => m :: x end.
Definition opt_str (o : option bytes) : bytes := match o with None => [] | Some x => x end.

(* printing a version and parsing it again: NewVersion accepts "a.b.c[-pre][+build]" for all
   components below 2^63 and valid pre-release / build texts, with the expected fields *)
Theorem parse_core_print a b c pre bld :
  a < two63 -> b < two63 -> c < two63 ->
  opt_valid pre_valid pre = true -> opt_valid build_valid bld = true ->
  parse_core (triple a b c ++ opt_text "-"%char pre ++ opt_text "+"%char bld) =
  Some {| major := Z.of_N a; minor := Z.of_N b; patch := Z.of_N c;
          prerelease := opt_str pre; build := opt_str bld |}.
Proof.
  intros Ha Hb Hc Hp Hbd.
  assert (Np : no_c "+"%char (triple a b c ++ opt_text "-"%char pre) = true).
  { rewrite no_c_app, triple_no_c by reflexivity. destruct pre as [p|]; [|reflexivity].
    simpl in Hp. unfold pre_valid in Hp. apply andb_true_iff in Hp. destruct Hp as [Hp _].
    cbn [opt_text no_c forallb]. fold (no_c "+"%char p). rewrite (dotted_idents_no_plus p Hp). reflexivity. }
  assert (S1 : split2_c "+"%char (triple a b c ++ opt_text "-"%char pre ++ opt_text "+"%char bld)
               = (triple a b c ++ opt_text "-"%char pre, bld)).
  { destruct bld as [bd|]; cbn [opt_text].
    - rewrite app_assoc. apply split2_c_first. exact Np.
    - rewrite app_nil_r. apply split2_c_none. exact Np. }
  assert (S2 : split2_c "-"%char (triple a b c ++ opt_text "-"%char pre) = (triple a b c, pre)).
  { destruct pre as [p|]; cbn [opt_text].
    - apply split2_c_first. apply triple_no_c; reflexivity.
    - rewrite app_nil_r. apply split2_c_none. apply triple_no_c; reflexivity. }
  rewrite (parse_core_unfold _ _ _ _ _ S1 S2), split_triple.
  rewrite !parse_num_dec by assumption.
  replace (match bld with Some b0 => dotted_idents b0 && validate_build b0 | None => true end)
    with true by (destruct bld; [symmetry; exact Hbd|reflexivity]).
  replace (match pre with Some p => dotted_idents p && validate_prerelease p | None => true end)
    with true by (destruct pre; [symmetry; exact Hp|reflexivity]).
  reflexivity.
Qed.

Lemma thenc_eq_r c : thenc c Eq = c.
Proof. destruct c; reflexivity. Qed.

Lemma compare_prerelease_nil : compare_prerelease [] [] = Eq.
Proof. reflexivity. Qed.

Lemma compare_prerelease_lt_release p : p <> [] -> compare_prerelease p [] = Lt.
Proof. destruct p; [congruence|reflexivity]. Qed.

Lemma compare_prerelease_refl p : compare_prerelease p p = Eq.
Proof. apply (tp_refl compare_prerelease_tp). Qed.

(* Compare of versions with the same pre-release text is the comparison of the number triples *)
Lemma cmp_core_nums x y :
  prerelease x = prerelease y ->
  cmp_core x y = lex_short Z.compare [major x; minor x; patch x] [major y; minor y; patch y].
Proof.
  intros E. unfold cmp_core, lexc, cmp_on. rewrite E, compare_prerelease_refl.
  cbn [lex_short]. reflexivity.
Qed.

(* C03 (numeric part): "a.b.c" parses for components below 2^63 (in particular below 2^31) and
   two such versions compare as the integer triples *)
Theorem c03_numeric t1 t2 :
  length t1 = 3%nat -> length t2 = 3%nat ->
  Forall (fun n => n < two63) t1 -> Forall (fun n => n < two63) t2 ->
  exists c1 c2,
    parse_core (join $"." (map dec t1)) = Some c1 /\
    parse_core (join $"." (map dec t2)) = Some c2 /\
    cmp_core c1 c2 = lex_short N.compare t1 t2.
Proof.
  intros L1 L2 F1 F2.
  destruct t1 as [|a1 [|b1 [|c1 [|? ?]]]]; try discriminate.
  destruct t2 as [|a2 [|b2 [|c2 [|? ?]]]]; try discriminate.
  repeat match goal with H : Forall _ (_ :: _) |- _ => inversion H; clear H; subst end.
  rewrite !triple_join.
  pose proof (parse_core_print a1 b1 c1 None None) as P1.
  pose proof (parse_core_print a2 b2 c2 None None) as P2.
  cbn [opt_text opt_str opt_valid] in P1, P2. rewrite !app_nil_r in P1, P2.
  eexists. eexists. split; [apply P1; auto|]. split; [apply P2; auto|].
  rewrite cmp_core_nums by reflexivity. cbn [major minor patch lex_short].
  rewrite !N2Z.inj_compare. reflexivity.
Qed.

Corollary c03_numeric_31 t1 t2 :
  length t1 = 3%nat -> length t2 = 3%nat ->
  Forall (fun n => n < 2 ^ 31) t1 -> Forall (fun n => n < 2 ^ 31) t2 ->
  exists c1 c2,
    parse_core (join $"." (map dec t1)) = Some c1 /\
    parse_core (join $"." (map dec t2)) = Some c2 /\
    cmp_core c1 c2 = lex_short N.compare t1 t2.
Proof.
  intros L1 L2 F1 F2. apply c03_numeric; auto.
  - revert F1. apply Forall_impl. intros n H. unfold two63. change (2 ^ 31) with 2147483648 in H. lia.
  - revert F2. apply Forall_impl. intros n H. unfold two63. change (2 ^ 31) with 2147483648 in H. lia.
Qed.

(* C03 (pre-release marker): "a.b.c-pre" is below "a.b.c", whatever the build metadata *)
Theorem c03_prerelease_lt a b c p bld1 bld2 :
  a < two63 -> b < two63 -> c < two63 ->
  pre_valid p = true -> opt_valid build_valid bld1 = true -> opt_valid build_valid bld2 = true ->
  exists x y,
    parse_core (triple a b c ++ "-"%char :: p ++ opt_text "+"%char bld1) = Some x /\
    parse_core (triple a b c ++ opt_text "+"%char bld2) = Some y /\
    cmp_core x y = Lt /\ cmp_core y x = Gt.
Proof.
  intros Ha Hb Hc Hp H1 H2.
  pose proof (parse_core_print a b c (Some p) bld1 Ha Hb Hc Hp H1) as P1.
  pose proof (parse_core_print a b c None bld2 Ha Hb Hc eq_refl H2) as P2.
  cbn [opt_text opt_str app] in P1, P2.
  eexists. eexists. split; [exact P1|]. split; [exact P2|].
  assert (Hne : p <> []).
  { unfold pre_valid in Hp. apply andb_true_iff in Hp. destruct Hp as [Hp _].
    apply dotted_idents_nonnil. exact Hp. }
  assert (L : cmp_core
    {| major := Z.of_N a; minor := Z.of_N b; patch := Z.of_N c; prerelease := p; build := opt_str bld1 |}
    {| major := Z.of_N a; minor := Z.of_N b; patch := Z.of_N c; prerelease := []; build := opt_str bld2 |} = Lt).
  { unfold cmp_core, lexc, cmp_on. cbn [major minor patch prerelease].
    rewrite !Z.compare_refl. cbn [thenc]. apply compare_prerelease_lt_release. exact Hne. }
  split; [exact L|]. rewrite (tp_anti cmp_core_tp), L. reflexivity.
Qed.

(* build metadata does not take part in Compare *)
Theorem c03_build_ignored a b c pre bld1 bld2 :
  a < two63 -> b < two63 -> c < two63 ->
  opt_valid pre_valid pre = true ->
  opt_valid build_valid bld1 = true -> opt_valid build_valid bld2 = true ->
  exists x y,
    parse_core (triple a b c ++ opt_text "-"%char pre ++ opt_text "+"%char bld1) = Some x /\
    parse_core (triple a b c ++ opt_text "-"%char pre ++ opt_text "+"%char bld2) = Some y /\
    cmp_core x y = Eq.
Proof.
  intros Ha Hb Hc Hp H1 H2.
  eexists. eexists.
  split; [apply parse_core_print; assumption|]. split; [apply parse_core_print; assumption|].
  rewrite cmp_core_nums by reflexivity. apply (tp_refl (TP_lex_short _ _ TP_Z)).
Qed.

Print Assumptions cmp_core_tp.
Print Assumptions cmp_tp.
Print Assumptions parse_core_print.
Print Assumptions c03_numeric.
Print Assumptions c03_prerelease_lt.
Print Assumptions c03_build_ignored.
