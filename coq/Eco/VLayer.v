(* Eco/VLayer.v — the common shape of every NewVersion / Compare / String triple:
   the input is trimmed, a structure ("core") is computed from the trimmed text alone, and the
   value remembers either the raw or the trimmed text for String().  Compare looks at the core
   only.  An ecosystem model supplies [parse_core], [cmp_core] and [raw_orig]; this file turns
   them into the version layer.  That this shape is what the Go code does is checked by the
   correspondence run (String() and padded inputs are compared). *)
From Verif.Base Require Import Bytes.

Section VLayer.
  Variable C : Type.
  Variable parse_core : bytes -> option C.     (* applied to the trimmed text *)
  Variable cmp_core : C -> C -> comparison.
  Variable raw_orig : bool.                    (* String() returns the untrimmed input *)

  Record ver := { v_core : C; v_orig : bytes }.

  Definition parse (s : bytes) : option ver :=
    let t := trim_space s in
    match parse_core t with
    | Some c => Some {| v_core := c; v_orig := if raw_orig then s else t |}
    | None => None
    end.

  Definition cmp (a b : ver) : comparison := cmp_core (v_core a) (v_core b).
  Definition show (v : ver) : bytes := v_orig v.
End VLayer.

Arguments v_core {C}.
Arguments v_orig {C}.
Arguments parse {C}.
Arguments cmp {C}.
Arguments show {C}.
