(* Eco/VLayerFacts.v — what holds for every ecosystem of the VLayer shape (C01 lifting, C18). *)
From Verif.Base Require Import Bytes BytesFacts Ord.
From Verif.Eco Require Import VLayer.

Section Facts.
  Variable C : Type.
  Variable parse_core : bytes -> option C.
  Variable cmp_core : C -> C -> comparison.
  Variable raw_orig : bool.

  Notation parse := (parse parse_core raw_orig).
  Notation cmp := (cmp cmp_core).

  Lemma cmp_tp : TotalPreorder cmp_core -> TotalPreorder cmp.
  Proof. intros T. apply (TP_on _ _ (@v_core C) cmp_core T). Qed.

  (* String() returns the input up to surrounding whitespace *)
  Lemma show_trim s v : parse s = Some v -> trim_space (show v) = trim_space s.
  Proof.
    unfold VLayer.parse, show. destruct (parse_core (trim_space s)); [|discriminate].
    intros H. injection H as <-. simpl. destruct raw_orig; [reflexivity|apply trim_space_idem].
  Qed.

  (* the core depends on the trimmed text only *)
  Lemma parse_core_of s v : parse s = Some v -> parse_core (trim_space s) = Some (v_core v).
  Proof.
    unfold VLayer.parse. destruct (parse_core (trim_space s)); [|discriminate].
    intros H. injection H as <-. reflexivity.
  Qed.

  Lemma parse_same_trim s s' :
    trim_space s = trim_space s' ->
    match parse s, parse s' with
    | Some v, Some v' => v_core v = v_core v'
    | None, None => True
    | _, _ => False
    end.
  Proof.
    intros E. unfold VLayer.parse. rewrite E.
    destruct (parse_core (trim_space s')); simpl; auto.
  Qed.

  (* parsing the printed text again succeeds and gives a Compare-equal value *)
  Lemma reparse s v :
    (forall c, cmp_core c c = Eq) ->
    parse s = Some v -> exists v', parse (show v) = Some v' /\ cmp v v' = Eq /\ cmp v' v = Eq.
  Proof.
    intros R H.
    pose proof (show_trim s v H) as E.
    pose proof (parse_same_trim (show v) s E) as P.
    rewrite H in P. destruct (parse (show v)) as [v'|]; [|contradiction].
    exists v'. unfold VLayer.cmp. rewrite P. auto.
  Qed.

  (* leading/trailing ASCII whitespace changes neither acceptance nor the core *)
  Lemma pad_invariant p q s :
    forallb is_space p = true -> forallb is_space q = true ->
    match parse s, parse (p ++ s ++ q) with
    | Some v, Some v' => v_core v = v_core v'
    | None, None => True
    | _, _ => False
    end.
  Proof.
    intros Hp Hq. apply parse_same_trim. symmetry. apply trim_space_pad; assumption.
  Qed.
End Facts.
