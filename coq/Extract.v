(* Extract.v — extraction of the executable model.  ExtrOcamlBasic only. *)
From Coq Require Import Extraction ExtrOcamlBasic.
From Verif.Base Require Import Bytes GoNum Ord.
From Verif.Eco Require Import RangeCore Iface All.
Extraction Language OCaml.
Extraction "model.ml" ecosystems find_eco self_vok self_vcmp r_show r_contains v_show v_cmp.
