(* Extract.v — extraction of the executable model.  ExtrOcamlBasic only. *)
From Coq Require Import Extraction ExtrOcamlBasic.
From Verif.Base Require Import Bytes GoNum Ord.
From Verif.Eco Require Import RangeCore Iface All.
From Verif.Vers Require Import Model.
From Verif.Cli Require Import Model.
From Verif.Spec Require All.
From Verif Require Import Top.
Extraction Language OCaml.
Extraction "model.ml"
  ecosystems find_eco self_vok self_vcmp r_show r_contains v_show v_cmp
  Spec.All.specs Spec.All.find_spec
  model_vers model_cli oracle_vers oracle_cli exit_code.
