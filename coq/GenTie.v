(* GenTie.v — the remaining ties between constants written in the models and the values
   generated from the Go source (tools/gen -> Gen/Tables.v): default ranks of the string
   switches and the named integer constants.  Operator lists and rank tables are not tied here:
   the models take them from Gen directly (bin/rewire-gen). *)
From Coq Require Import ZArith.
From Verif.Base Require Import Bytes.
From Verif.Gen Require Tables.
From Verif.Eco.Apache Require Version.
From Verif.Eco.Github Require Version.
From Verif.Eco.Mattermost Require Version.
From Verif.Eco.Pypi Require Version.
From Verif.Eco.Composer Require Version.

Lemma tie_apache_default : Apache.Version.qualifier_precedence $"no-such-qualifier" = Tables.apache_getQualifierPrecedence_default.
Proof. vm_compute. reflexivity. Qed.
Lemma tie_github_default : Github.Version.qual_prec $"no-such-qualifier" = Tables.github_getQualifierPrecedence_default.
Proof. vm_compute. reflexivity. Qed.
Lemma tie_mattermost_default : Mattermost.Version.qualifier_precedence $"no-such-qualifier" = Tables.mattermost_getQualifierPrecedence_default.
Proof. vm_compute. reflexivity. Qed.
Lemma tie_pypi_default : Pypi.Version.pre_type $"no-such-marker" = Tables.pypi_normalizePrereleaseType_default.
Proof. vm_compute. reflexivity. Qed.

(* composer: the five named stability levels are taken from Gen/Tables.v by the model itself
   (Eval cbv delta), so these ties hold by construction; kept as a guard against a model that
   goes back to writing the numbers. *)
Lemma tie_composer_stabilityDev : Composer.Version.stabilityDev = Tables.composer_stabilityDev.
Proof. reflexivity. Qed.
Lemma tie_composer_stabilityAlpha : Composer.Version.stabilityAlpha = Tables.composer_stabilityAlpha.
Proof. reflexivity. Qed.
Lemma tie_composer_stabilityBeta : Composer.Version.stabilityBeta = Tables.composer_stabilityBeta.
Proof. reflexivity. Qed.
Lemma tie_composer_stabilityRC : Composer.Version.stabilityRC = Tables.composer_stabilityRC.
Proof. reflexivity. Qed.
Lemma tie_composer_stabilityStable : Composer.Version.stabilityStable = Tables.composer_stabilityStable.
Proof. reflexivity. Qed.
Lemma tie_composer_stabilityMap : Composer.Version.stabilityMap = Tables.composer_stabilityMap.
Proof. reflexivity. Qed.
(* a dev branch carries stabilityDev (version.go: v.stability = stabilityDev) *)
Lemma tie_composer_dev_branch b : Composer.Version.c_stab (Composer.Version.CDev b) = Tables.composer_stabilityDev.
Proof. reflexivity. Qed.
