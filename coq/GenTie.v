(* GenTie.v — the remaining ties between constants written in the models and the values
   generated from the Go source (tools/gen -> Gen/Tables.v): default ranks of the string
   switches and the named integer constants.  Operator lists and rank tables are not tied here:
   the models take them from Gen directly (bin/rewire-gen). *)
From Coq Require Import ZArith.
From Verif.Base Require Import Bytes.
From Verif.Gen Require Tables.
From Verif.Eco.Apache Require Version.
From Verif.Eco.Github Require Version.
From Verif.Eco.Mattermost Require Version.
From Verif.Eco.Pypi Require Version.
From Verif.Eco.Composer Require Version.

Lemma tie_apache_default : Apache.Version.qualifier_precedence $"no-such-qualifier" = Tables.apache_getQualifierPrecedence_default.
Proof. vm_compute. reflexivity. Qed.
Lemma tie_github_default : Github.Version.qual_prec $"no-such-qualifier" = Tables.github_getQualifierPrecedence_default.
Proof. vm_compute. reflexivity. Qed.
Lemma tie_mattermost_default : Mattermost.Version.qualifier_precedence $"no-such-qualifier" = Tables.mattermost_getQualifierPrecedence_default.
Proof. vm_compute. reflexivity. Qed.
Lemma tie_pypi_default : Pypi.Version.pre_type $"no-such-marker" = Tables.pypi_normalizePrereleaseType_default.
Proof. vm_compute. reflexivity. Qed.
