(* C01 — Version comparison is a total preorder in every ecosystem.
   Statements only; proofs live in Eco/<E>/VersionFacts.v. *)
From Verif.Base Require Import Bytes Ord.
From Verif.Eco.Cran Require Version VersionFacts.

(* [preorder_laws cmp a b c] is the property's wording: reflexive, swapping negates,
   a<=b -> b<=c -> a<=c, strictly if either step is strict, and equal versions compare alike
   against any third.  The codomain [comparison] is exactly {-1, 0, 1}. *)

Theorem C01_cran : forall a b c : Cran.Version.ver, preorder_laws Cran.Version.cmp a b c.
Proof. exact (TP_laws _ _ Cran.VersionFacts.cmp_tp). Qed.
Print Assumptions C01_cran.
