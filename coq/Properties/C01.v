(* C01 — Version comparison is a total preorder in every ecosystem.
   Statements only; the proofs live in Eco/<E>/VersionFacts.v.

   [preorder_laws cmp a b c] (Base/Ord.v) is the property's wording: cmp a a = Eq; swapping the
   operands negates the result; a<=b -> b<=c -> a<=c, strictly if either step is strict; and
   Compare-equal versions compare alike against any third.  The codomain [comparison] is
   exactly {-1, 0, 1}.  [cmp] is the model of the Compare method on parsed values, [parse] the
   model of NewVersion; both are tied to the Go code by the V-layer correspondence streams.

   Sixteen ecosystems: the laws hold on the WHOLE value type (a superset of the parser's
   image).  alpine, gentoo: they hold for all parsed values (the parser's invariant is needed).
   alpm: within each class of equal pkgrel presence (the property's sole exclusion).
   maven: NOT transitive on parsed values (C01_maven_refuted, finding F-maven-order-cycle);
   the laws hold on the two classes whose union is the complement of the finding's class. *)
From Verif Require GenTie.  (* ties of model constants to the generated tables *)
From Verif.Base Require Import Bytes Ord.
From Verif.Eco Require Import VLayer.
From Verif.Eco.Alpine Require OrdMore.
From Verif.Eco.Alpine Require Version VersionFacts.
From Verif.Eco.Alpm Require Version VersionFacts.
From Verif.Eco.Apache Require Version VersionFacts.
From Verif.Eco.Cargo Require Version VersionFacts.
From Verif.Eco.Composer Require Version VersionFacts.
From Verif.Eco.Conan Require Version VersionFacts.
From Verif.Eco.Cran Require Version VersionFacts.
From Verif.Eco.Debian Require Version VersionFacts.
From Verif.Eco.Gem Require Version VersionFacts.
From Verif.Eco.Gentoo Require Version VersionFacts.
From Verif.Eco.Github Require Version VersionFacts.
From Verif.Eco.Golang Require Version VersionFacts.
From Verif.Eco.Hex Require Version VersionFacts.
From Verif.Eco.Mattermost Require Version VersionFacts.
From Verif.Eco.Maven Require Version VersionFacts.
From Verif.Eco.Npm Require Version VersionFacts.
From Verif.Eco.Nuget Require Version VersionFacts.
From Verif.Eco.Pypi Require Version VersionFacts.
From Verif.Eco.Rpm Require Version VersionFacts.
From Verif.Eco.Semver Require Version VersionFacts.

Theorem C01_apache : forall a b c : Apache.Version.ver, preorder_laws Apache.Version.cmp a b c.
Proof. exact (TP_laws _ _ Apache.VersionFacts.cmp_tp). Qed.
Print Assumptions C01_apache.

Theorem C01_cargo : forall a b c : Cargo.Version.ver, preorder_laws Cargo.Version.cmp a b c.
Proof. exact (TP_laws _ _ Cargo.VersionFacts.cmp_tp). Qed.
Print Assumptions C01_cargo.

Theorem C01_composer : forall a b c : Composer.Version.ver, preorder_laws Composer.Version.cmp a b c.
Proof. exact (TP_laws _ _ Composer.VersionFacts.cmp_tp). Qed.
Print Assumptions C01_composer.

Theorem C01_conan : forall a b c : Conan.Version.ver, preorder_laws Conan.Version.cmp a b c.
Proof. exact (TP_laws _ _ Conan.VersionFacts.cmp_tp). Qed.
Print Assumptions C01_conan.

Theorem C01_cran : forall a b c : Cran.Version.ver, preorder_laws Cran.Version.cmp a b c.
Proof. exact (TP_laws _ _ Cran.VersionFacts.cmp_tp). Qed.
Print Assumptions C01_cran.

Theorem C01_debian : forall a b c : Debian.Version.ver, preorder_laws Debian.Version.cmp a b c.
Proof. exact (TP_laws _ _ Debian.VersionFacts.cmp_tp). Qed.
Print Assumptions C01_debian.

Theorem C01_gem : forall a b c : Gem.Version.ver, preorder_laws Gem.Version.cmp a b c.
Proof. exact (TP_laws _ _ Gem.VersionFacts.cmp_tp). Qed.
Print Assumptions C01_gem.

Theorem C01_github : forall a b c : Github.Version.ver, preorder_laws Github.Version.cmp a b c.
Proof. exact (TP_laws _ _ Github.VersionFacts.cmp_tp). Qed.
Print Assumptions C01_github.

Theorem C01_golang : forall a b c : Golang.Version.ver, preorder_laws Golang.Version.cmp a b c.
Proof. exact (TP_laws _ _ Golang.VersionFacts.cmp_tp). Qed.
Print Assumptions C01_golang.

Theorem C01_hex : forall a b c : Hex.Version.ver, preorder_laws Hex.Version.cmp a b c.
Proof. exact (TP_laws _ _ Hex.VersionFacts.cmp_tp). Qed.
Print Assumptions C01_hex.

Theorem C01_mattermost : forall a b c : Mattermost.Version.ver, preorder_laws Mattermost.Version.cmp a b c.
Proof. exact (TP_laws _ _ Mattermost.VersionFacts.cmp_tp). Qed.
Print Assumptions C01_mattermost.

Theorem C01_npm : forall a b c : Npm.Version.ver, preorder_laws Npm.Version.cmp a b c.
Proof. exact (TP_laws _ _ Npm.VersionFacts.cmp_tp). Qed.
Print Assumptions C01_npm.

Theorem C01_nuget : forall a b c : Nuget.Version.ver, preorder_laws Nuget.Version.cmp a b c.
Proof. exact (TP_laws _ _ Nuget.VersionFacts.cmp_tp). Qed.
Print Assumptions C01_nuget.

Theorem C01_pypi : forall a b c : Pypi.Version.ver, preorder_laws Pypi.Version.cmp a b c.
Proof. exact (TP_laws _ _ Pypi.VersionFacts.cmp_tp). Qed.
Print Assumptions C01_pypi.

Theorem C01_rpm : forall a b c : Rpm.Version.ver, preorder_laws Rpm.Version.cmp a b c.
Proof. exact (TP_laws _ _ Rpm.VersionFacts.cmp_tp). Qed.
Print Assumptions C01_rpm.

Theorem C01_semver : forall a b c : Semver.Version.ver, preorder_laws Semver.Version.cmp a b c.
Proof. exact (TP_laws _ _ Semver.VersionFacts.cmp_tp). Qed.
Print Assumptions C01_semver.

(* alpine, gentoo: every triple of ACCEPTED strings *)
Theorem C01_alpine : forall s1 s2 s3 v1 v2 v3,
  Alpine.Version.parse s1 = Some v1 -> Alpine.Version.parse s2 = Some v2 -> Alpine.Version.parse s3 = Some v3 ->
  preorder_laws Alpine.Version.cmp v1 v2 v3.
Proof. exact Alpine.VersionFacts.cmp_laws. Qed.
Print Assumptions C01_alpine.

Theorem C01_gentoo : forall sa sb sc a b c,
  Gentoo.Version.parse sa = Some a -> Gentoo.Version.parse sb = Some b -> Gentoo.Version.parse sc = Some c ->
  preorder_laws Gentoo.Version.cmp a b c.
Proof. exact Gentoo.VersionFacts.gentoo_c01. Qed.
Print Assumptions C01_gentoo.

(* alpm: triples that agree on the presence of a pkgrel *)
Theorem C01_alpm : forall (has_pkgrel : bool) (a b c : Alpm.Version.ver),
  Alpm.Version.c_has_pkgrel (v_core a) = has_pkgrel ->
  Alpm.Version.c_has_pkgrel (v_core b) = has_pkgrel ->
  Alpm.Version.c_has_pkgrel (v_core c) = has_pkgrel ->
  preorder_laws Alpm.Version.cmp a b c.
Proof.
  intros h a b c Ha Hb Hc.
  exact (OrdMore.TPO_laws _ _ _ (Alpm.VersionFacts.cmp_tp h) a b c Ha Hb Hc).
Qed.
Print Assumptions C01_alpm.

(* maven: refuted in general; proved on the two classes outside the finding *)
Theorem C01_maven_refuted :
  exists a b c va vb vc,
    a = $"1-foo" /\ b = $"1-5" /\ c = $"1-sp" /\
    Maven.Version.parse a = Some va /\ Maven.Version.parse b = Some vb /\ Maven.Version.parse c = Some vc /\
    Maven.Version.cmp va vb = Lt /\ Maven.Version.cmp vb vc = Lt /\ Maven.Version.cmp va vc = Gt.
Proof. exact Maven.VersionFacts.cmp_not_transitive. Qed.
Print Assumptions C01_maven_refuted.

Theorem C01_maven_no_unknown_qualifier : forall a b c : Maven.Version.ver,
  Maven.VersionFacts.no_unknown (v_core a) = true ->
  Maven.VersionFacts.no_unknown (v_core b) = true ->
  Maven.VersionFacts.no_unknown (v_core c) = true ->
  preorder_laws Maven.Version.cmp a b c.
Proof. intros a b c; exact (OrdMore.TPO_laws _ _ _ Maven.VersionFacts.cmp_tpo a b c). Qed.
Print Assumptions C01_maven_no_unknown_qualifier.

Theorem C01_maven_no_release_word_or_sp : forall a b c : Maven.Version.ver,
  Maven.VersionFacts.no_release_sp (v_core a) = true ->
  Maven.VersionFacts.no_release_sp (v_core b) = true ->
  Maven.VersionFacts.no_release_sp (v_core c) = true ->
  preorder_laws Maven.Version.cmp a b c.
Proof. intros a b c; exact (OrdMore.TPO_laws _ _ _ Maven.VersionFacts.cmp_tpo_B a b c). Qed.
Print Assumptions C01_maven_no_release_word_or_sp.

(* reflexivity and antisymmetry of maven hold everywhere *)
Theorem C01_maven_refl_anti : forall a b : Maven.Version.ver,
  Maven.Version.cmp a a = Eq /\ Maven.Version.cmp b a = CompOpp (Maven.Version.cmp a b).
Proof. intros a b; split; [apply Maven.VersionFacts.cmp_refl|apply Maven.VersionFacts.cmp_anti]. Qed.
Print Assumptions C01_maven_refl_anti.

(* ====== ties to the source: BEGIN (written by bin/mkties) ====== *)
(* The Go functions named here are translated into Gallina from /repo's source on every run
   (tools/gen -> Gen/Code/<Eco>.v for loop-free functions, Gen/Loops/<Eco>.v for functions with
   loops and index expressions, where a panic is Panic and a loop takes fuel); Tie/<Eco>.v,
   Tie/<Eco>Range.v and Tie/Loops/<Eco>.v prove each translation equal to the model the theorems
   above speak about (and, for the loop functions: no panic, termination within a linear bound).
   If the code changes so that a tie no longer holds, this file no longer checks. *)
Require Verif.Tie.Alpine.
Require Verif.Tie.Alpm.
Require Verif.Tie.Apache.
Require Verif.Tie.Cargo.
Require Verif.Tie.Composer.
Require Verif.Tie.Conan.
Require Verif.Tie.Cran.
Require Verif.Tie.Debian.
Require Verif.Tie.Gem.
Require Verif.Tie.Gentoo.
Require Verif.Tie.Github.
Require Verif.Tie.Golang.
Require Verif.Tie.Hex.
Require Verif.Tie.Mattermost.
Require Verif.Tie.Npm.
Require Verif.Tie.Nuget.
Require Verif.Tie.Pypi.
Require Verif.Tie.Rpm.
Require Verif.Tie.Semver.
Definition C01_tie_alpine_compareInt := @Verif.Tie.Alpine.tie_alpine_compareInt.
Definition C01_tie_alpine_compareLetters := @Verif.Tie.Alpine.tie_alpine_compareLetters.
Definition C01_tie_alpm_compare := @Verif.Tie.Alpm.tie_alpm_compare.
Definition C01_tie_apache_compareInt := @Verif.Tie.Apache.tie_apache_compareInt.
Definition C01_tie_apache_getQualifierPrecedence := @Verif.Tie.Apache.tie_apache_getQualifierPrecedence.
Definition C01_tie_apache_compare := @Verif.Tie.Apache.tie_apache_compare.
Definition C01_tie_cargo_compareInt := @Verif.Tie.Cargo.tie_cargo_compareInt.
Definition C01_tie_cargo_compare := @Verif.Tie.Cargo.tie_cargo_compare.
Definition C01_tie_composer_compareInt := @Verif.Tie.Composer.tie_composer_compareInt.
Definition C01_tie_composer_compare := @Verif.Tie.Composer.tie_composer_compare.
Definition C01_tie_conan_compareInt := @Verif.Tie.Conan.tie_conan_compareInt.
Definition C01_tie_conan_Version_Compare := @Verif.Tie.Conan.tie_conan_Version_Compare.
Definition C01_tie_cran_compareInt := @Verif.Tie.Cran.tie_cran_compareInt.
Definition C01_tie_debian_compare := @Verif.Tie.Debian.tie_debian_compare.
Definition C01_tie_gem_compareInt := @Verif.Tie.Gem.tie_gem_compareInt.
Definition C01_tie_gem_compareSegments := @Verif.Tie.Gem.tie_gem_compareSegments.
Definition C01_tie_gentoo_compareInt := @Verif.Tie.Gentoo.tie_gentoo_compareInt.
Definition C01_tie_github_compareInt := @Verif.Tie.Github.tie_github_compareInt.
Definition C01_tie_github_getQualifierPrecedence := @Verif.Tie.Github.tie_github_getQualifierPrecedence.
Definition C01_tie_github_compareQualifiers := @Verif.Tie.Github.tie_github_compareQualifiers.
Definition C01_tie_github_compare := @Verif.Tie.Github.tie_github_compare.
Definition C01_tie_golang_compareInt := @Verif.Tie.Golang.tie_golang_compareInt.
Definition C01_tie_golang_Version_Compare := @Verif.Tie.Golang.tie_golang_Version_Compare.
Definition C01_tie_hex_compareInt := @Verif.Tie.Hex.tie_hex_compareInt.
Definition C01_tie_hex_compare := @Verif.Tie.Hex.tie_hex_compare.
Definition C01_tie_mattermost_compareInt := @Verif.Tie.Mattermost.tie_mattermost_compareInt.
Definition C01_tie_mattermost_getQualifierPrecedence := @Verif.Tie.Mattermost.tie_mattermost_getQualifierPrecedence.
Definition C01_tie_mattermost_compare := @Verif.Tie.Mattermost.tie_mattermost_compare.
Definition C01_tie_npm_compareInt := @Verif.Tie.Npm.tie_npm_compareInt.
Definition C01_tie_npm_compare := @Verif.Tie.Npm.tie_npm_compare.
Definition C01_tie_nuget_compareInt := @Verif.Tie.Nuget.tie_nuget_compareInt.
Definition C01_tie_nuget_compare := @Verif.Tie.Nuget.tie_nuget_compare.
Definition C01_tie_pypi_compareInt := @Verif.Tie.Pypi.tie_pypi_compareInt.
Definition C01_tie_pypi_normalizePrereleaseType := @Verif.Tie.Pypi.tie_pypi_normalizePrereleaseType.
Definition C01_tie_pypi_comparePrereleases := @Verif.Tie.Pypi.tie_pypi_comparePrereleases.
Definition C01_tie_pypi_comparePostReleases := @Verif.Tie.Pypi.tie_pypi_comparePostReleases.
Definition C01_tie_pypi_compareDevReleases := @Verif.Tie.Pypi.tie_pypi_compareDevReleases.
Definition C01_tie_pypi_Version_Compare := @Verif.Tie.Pypi.tie_pypi_Version_Compare.
Definition C01_tie_rpm_compare := @Verif.Tie.Rpm.tie_rpm_compare.
Definition C01_tie_semver_compareInt := @Verif.Tie.Semver.tie_semver_compareInt.
Definition C01_tie_semver_compare := @Verif.Tie.Semver.tie_semver_compare.
Definition C01_ties_all := (C01_tie_alpine_compareInt, (C01_tie_alpine_compareLetters, (C01_tie_alpm_compare, (C01_tie_apache_compare, (C01_tie_apache_compareInt, (C01_tie_apache_getQualifierPrecedence, (C01_tie_cargo_compare, (C01_tie_cargo_compareInt, (C01_tie_composer_compare, (C01_tie_composer_compareInt, (C01_tie_conan_Version_Compare, (C01_tie_conan_compareInt, (C01_tie_cran_compareInt, (C01_tie_debian_compare, (C01_tie_gem_compareInt, (C01_tie_gem_compareSegments, (C01_tie_gentoo_compareInt, (C01_tie_github_compare, (C01_tie_github_compareInt, (C01_tie_github_compareQualifiers, (C01_tie_github_getQualifierPrecedence, (C01_tie_golang_Version_Compare, (C01_tie_golang_compareInt, (C01_tie_hex_compare, (C01_tie_hex_compareInt, (C01_tie_mattermost_compare, (C01_tie_mattermost_compareInt, (C01_tie_mattermost_getQualifierPrecedence, (C01_tie_npm_compare, (C01_tie_npm_compareInt, (C01_tie_nuget_compare, (C01_tie_nuget_compareInt, (C01_tie_pypi_Version_Compare, (C01_tie_pypi_compareDevReleases, (C01_tie_pypi_compareInt, (C01_tie_pypi_comparePostReleases, (C01_tie_pypi_comparePrereleases, (C01_tie_pypi_normalizePrereleaseType, (C01_tie_rpm_compare, (C01_tie_semver_compare, C01_tie_semver_compareInt)))))))))))))))))))))))))))))))))))))))).
Print Assumptions C01_ties_all.
(* ====== ties to the source: END ====== *)
