(* C02 — Comparator ranges contain exactly what Compare says.
   Statements only; the proofs live in Eco/<E>/RangeFacts.v, or are instances of the generic
   theorem [simple_range_c02] of Eco/RangeCoreFacts.v through Properties/Support/SimpleRops.v and
   Properties/Support/C02Lists.v.

   [r_contains R vok vcmp rg v] is the model of NewVersionRange(rg).Contains(v) on texts:
   [Some b] = the range is accepted, v is accepted, and Contains = b.  The version layer is an
   ARBITRARY oracle (vok = NewVersion accepts, vcmp v a = sign of v.Compare(a)) - no law of vcmp
   is assumed, so the theorems hold for the real Compare whatever it does.  [sat o c] says that
   the sign c satisfies the comparator o (CEq CNe CLt CLe CGt CGe); the ecosystem's operator
   table ([sem6], [sem5] = sem6 without "!=", debian_sem, golang_sem, ...) maps spellings to
   comparators.
     C02_<eco>        for every spelling op of the ecosystem's operator list, every bound a in
                      scope that the version layer accepts and every accepted probe v:
                      r_contains (op ++ a) v = Some (sat (sem op) (vcmp v a));
     C02_<eco>_bare   a bound without operator is "=" (nuget: ">=");
     C02_<eco>_and    comparators joined by the AND separator contain the intersection;
     C02_<eco>_or     (npm, composer, conan) groups joined by "||" contain the union.
   Scope clause (the property's "bounds whose text begins with a comparator character or
   contains the ecosystem's separator characters are out of scope"): [bound_in_scope a] = a is
   non-empty, has no whitespace and does not start with one of < > = ! ~ ^; ecosystems with more
   separators use their own boolean predicate, visible in each statement (debian, rpm, cran, gem:
   no comma; gentoo: no comma; cargo [bound_ok]; composer [in_scope]: also no "|", "@", wildcard
   part; conan [bound_scope]: also lower case, no "|"; hex [scope_b]: not the word "and"; npm
   [bound_scope]: no x-range part, none of @#$%&!()|; nuget [bound_scope]: no brackets; pypi
   [in_scope], and no trailing ".*" (that is the prefix match of C05); semver [bound_scope]).
   Operator lists: six spellings >= <= != > < = for alpine, cargo, conan, cran, gem, gentoo, golang,
   nuget, rpm, semver; debian adds >> and <<; composer adds == and <>; pypi has == != <= >= < >
   (and ~= ===, see C05); five spellings (no "!=") for alpm, apache, github, mattermost, hex and npm (npm's
   comparator set is node-semver's).
   Restrictions:
     nuget     a single comparator is accepted only inside the comma-separated list form (as in
               the property): C02_nuget is stated for "op a ," and C02_nuget_single_rejected
               shows that "op a" alone is rejected whenever op ++ a is not itself a version.
     composer  the probe must be a version whose fields the range code can read
               (parse_core (trim_space v) = Some vc - true for every accepted version of the
               model's own version layer).
     maven     has no comparator syntax (brackets only, see C05.v); only the bare version
               (exact match) is stated here.
     gem       an unparsable bound does not make the range invalid: it is accepted and contains
               nothing (C02_gem_invalid_bound_accepted), as for alpine (C02_alpine_bad_bound).
     rpm       C02_rpm_and_parsed is the typed form (any version type V) written with the model;
               C02_rpm_and the string-level form.
   AND / OR coverage: AND for every ecosystem with a comparator syntax; OR ("||") for npm, composer
   and conan, the three ecosystems that have it.  The AND statements are either for comparator
   lists of any length (apache, alpine, alpm, github, mattermost, golang, cran, debian, gem,
   rpm, gentoo, semver, nuget, conan groups) or compositional for two accepted parts (cargo, npm,
   pypi, hex, composer, conan): the joined text contains exactly what both parts contain.
   No pair is left unproved; all 20 ecosystems are covered. *)

From Verif.Base Require Import Bytes BytesFacts GoNum Ord.
From Verif.Eco Require Import RangeCore RangeCoreFacts Iface VLayer VLayerFacts.
From Verif.Eco.Alpine Require Version VersionFacts Range RangeFacts Entry OrdMore.
From Verif.Eco.Alpm Require Version VersionFacts Range RangeFacts Entry C03Facts.
From Verif.Eco.Apache Require Version VersionFacts Range RangeFacts Entry.
From Verif.Eco.Cargo Require Version VersionFacts Range RangeFacts Entry.
From Verif.Eco.Composer Require Version VersionFacts Range RangeFacts Entry.
From Verif.Eco.Conan Require Version VersionFacts Range RangeFacts Entry.
From Verif.Eco.Cran Require Version VersionFacts Range Entry.
From Verif.Eco.Debian Require Version VersionFacts Range RangeFacts Entry.
From Verif.Eco.Gem Require Version VersionFacts Range RangeFacts Entry.
From Verif.Eco.Gentoo Require Version VersionFacts Range RangeFacts Entry.
From Verif.Eco.Github Require Version VersionFacts Range RangeFacts Entry.
From Verif.Eco.Golang Require Version VersionFacts Range RangeFacts Entry.
From Verif.Eco.Hex Require Version VersionFacts Range RangeFacts Entry.
From Verif.Eco.Mattermost Require Version VersionFacts Range RangeFacts Entry.
From Verif.Eco.Maven Require Version VersionFacts Range RangeFacts Entry.
From Verif.Eco.Npm Require Version VersionFacts Range RangeFacts Entry.
From Verif.Eco.Nuget Require Version VersionFacts Range RangeFacts Entry.
From Verif.Eco.Pypi Require Version VersionFacts Range RangeFacts Entry.
From Verif.Eco.Rpm Require Version VersionFacts Range RangeFacts Entry.
From Verif.Eco.Semver Require Version VersionFacts Range RangeFacts Entry.
From Verif.Properties.Support Require SimpleRops C02Lists ComposerLists GemSupport.
From Verif.Gen Require Operators.
From Verif.Eco.Cargo Require NumFacts.


(* alpine (AND: whitespace) *)

Theorem C02_alpine :
  forall (vok : bytes -> bool) (vcmp : bytes -> bytes -> comparison) (op a v : bytes),
  In op Alpine.Range.alpine_ops ->
  bound_in_scope a ->
  vok a = true ->
  vok v = true ->
  r_contains Alpine.Entry.r vok vcmp (op ++ a) v = Some (sat (sem6 op) (vcmp v a)).
Proof. exact Alpine.RangeFacts.alpine_c02. Qed.
Print Assumptions C02_alpine.

Theorem C02_alpine_bare :
  forall (vok : bytes -> bool) (vcmp : bytes -> bytes -> comparison) (a v : bytes),
  bound_in_scope a ->
  vok a = true ->
  vok v = true -> r_contains Alpine.Entry.r vok vcmp a v = Some (sat CEq (vcmp v a)).
Proof. exact Alpine.RangeFacts.alpine_c02_bare. Qed.
Print Assumptions C02_alpine_bare.

Theorem C02_alpine_and :
  forall (vok : bytes -> bool) (vcmp : bytes -> bytes -> comparison) (cs : list constraint) (v : bytes),
  cs <> [] ->
  Forall (fun c : bytes * bytes =>
     (In (fst c) Alpine.Range.alpine_ops /\ bound_in_scope (snd c) /\ vok (snd c) = true)) cs ->
  vok v = true ->
  r_contains Alpine.Entry.r vok vcmp (join $" " (map ctext cs)) v =   (* ctext c = fst c ++ snd c *)
  Some (forallb (fun c : bytes * bytes => sat (sem6 (fst c)) (vcmp v (snd c))) cs).
Proof. exact C02Lists.alpine_c02_and. Qed.
Print Assumptions C02_alpine_and.

Theorem C02_alpine_bad_bound :
  forall (vok : bytes -> bool) (vcmp : bytes -> bytes -> comparison) (op a v : bytes),
  In op Alpine.Range.alpine_ops ->
  bound_in_scope a ->
  vok a = false -> vok v = true -> r_contains Alpine.Entry.r vok vcmp (op ++ a) v = Some false.
Proof. exact Alpine.RangeFacts.alpine_bad_bound. Qed.
Print Assumptions C02_alpine_bad_bound.

(* alpm (AND: whitespace; the word "and" is skipped) *)

Theorem C02_alpm :
  forall (vok : bytes -> bool) (vcmp : bytes -> bytes -> comparison) (op a v : bytes),
  In op Alpm.Range.alpm_ops ->
  bound_in_scope a ->
  vok a = true ->
  vok v = true ->
  r_contains Alpm.Entry.r vok vcmp (op ++ a) v = Some (sat (sem5 op) (vcmp v a)).
Proof. exact Alpm.RangeFacts.alpm_c02. Qed.
Print Assumptions C02_alpm.

Theorem C02_alpm_bare :
  forall (vok : bytes -> bool) (vcmp : bytes -> bytes -> comparison) (a v : bytes),
  bound_in_scope a ->
  Alpm.RangeFacts.is_and a = false ->
  vok a = true ->
  vok v = true -> r_contains Alpm.Entry.r vok vcmp a v = Some (sat CEq (vcmp v a)).
Proof. exact Alpm.RangeFacts.alpm_c02_bare. Qed.
Print Assumptions C02_alpm_bare.

Theorem C02_alpm_and :
  forall (vok : bytes -> bool) (vcmp : bytes -> bytes -> comparison) (cs : list constraint) (v : bytes),
  cs <> [] ->
  Forall (fun c : bytes * bytes =>
     (In (fst c) Alpm.Range.alpm_ops /\ bound_in_scope (snd c) /\ vok (snd c) = true)) cs ->
  vok v = true ->
  r_contains Alpm.Entry.r vok vcmp (join $" " (map ctext cs)) v =   (* ctext c = fst c ++ snd c *)
  Some (forallb (fun c : bytes * bytes => sat (sem5 (fst c)) (vcmp v (snd c))) cs).
Proof. exact C02Lists.alpm_c02_and. Qed.
Print Assumptions C02_alpm_and.

(* apache (AND: whitespace) *)

Theorem C02_apache :
  forall (vok : bytes -> bool) (vcmp : bytes -> bytes -> comparison) (op a v : bytes),
  In op Apache.Range.apache_ops ->
  bound_in_scope a ->
  vok a = true ->
  vok v = true ->
  r_contains Apache.Entry.r vok vcmp (op ++ a) v = Some (sat (sem5 op) (vcmp v a)).
Proof. exact Apache.RangeFacts.c02_op. Qed.
Print Assumptions C02_apache.

Theorem C02_apache_bare :
  forall (vok : bytes -> bool) (vcmp : bytes -> bytes -> comparison) (a v : bytes),
  bound_in_scope a ->
  vok a = true ->
  vok v = true -> r_contains Apache.Entry.r vok vcmp a v = Some (sat CEq (vcmp v a)).
Proof. exact Apache.RangeFacts.c02_bare. Qed.
Print Assumptions C02_apache_bare.

Theorem C02_apache_and :
  forall (vok : bytes -> bool) (vcmp : bytes -> bytes -> comparison)
    (cs : list constraint) (v : bytes),
  cs <> [] ->
  Forall
    (fun c : bytes * bytes =>
     In (fst c) Apache.Range.apache_ops /\ bound_in_scope (snd c) /\ vok (snd c) = true) cs ->
  vok v = true ->
  r_contains Apache.Entry.r vok vcmp (join $" " (map ctext cs)) v =
  Some (forallb (fun c : bytes * bytes => sat (sem5 (fst c)) (vcmp v (snd c))) cs).
Proof. exact Apache.RangeFacts.c02_and. Qed.
Print Assumptions C02_apache_and.

(* cargo (AND: comma) *)

Theorem C02_cargo :
  forall (vok : bytes -> bool) (vcmp : bytes -> bytes -> comparison) (op a v : bytes),
  In op Cargo.Range.cargo_ops ->
  vok a = true ->
  Cargo.RangeFacts.bound_ok a = true ->
  vok v = true ->
  Cargo.Range.r_contains vok vcmp (op ++ a) v = Some (sat (sem6 op) (vcmp v a)).
Proof. exact Cargo.RangeFacts.C02_comparator. Qed.
Print Assumptions C02_cargo.

Theorem C02_cargo_bare :
  forall (vok : bytes -> bool) (vcmp : bytes -> bytes -> comparison) (a v : bytes),
  vok a = true ->
  Cargo.RangeFacts.bound_ok a = true ->
  contains_c "*" a = false ->
  vok v = true -> Cargo.Range.r_contains vok vcmp a v = Some (sat CEq (vcmp v a)).
Proof. exact Cargo.RangeFacts.C02_bare. Qed.
Print Assumptions C02_cargo_bare.

Theorem C02_cargo_and :
  forall (vok : bytes -> bool) (vcmp : bytes -> bytes -> comparison)
    (a b : bytes) (ra rb : Cargo.Range.range),
  Cargo.NumFacts.trimmed_b a = true ->
  Cargo.NumFacts.trimmed_b b = true ->
  Cargo.Range.parse_range vok a = Some ra ->
  Cargo.Range.parse_range vok b = Some rb ->
  exists r : Cargo.Range.range,
    Cargo.Range.parse_range vok (a ++ $"," ++ b) = Some r /\
    (forall v : bytes,
     Cargo.Range.contains vcmp r v =
     Cargo.Range.contains vcmp ra v && Cargo.Range.contains vcmp rb v).
Proof. exact Cargo.RangeFacts.C02_and. Qed.
Print Assumptions C02_cargo_and.

(* composer (AND: space or comma; OR: ||) *)

Theorem C02_composer :
  forall (vok : bytes -> bool) (vcmp : bytes -> bytes -> comparison)
    (op a v : bytes) (vc : Composer.Version.core),
  In op Composer.Range.composer_ops ->
  Composer.RangeFacts.in_scope a = true ->
  vok a = true ->
  vok v = true ->
  Composer.Version.parse_core (trim_space v) = Some vc ->
  r_contains Composer.Entry.r vok vcmp (op ++ a) v = Some (sat (Composer.Range.sem_op op) (vcmp v a)).
Proof. exact Composer.RangeFacts.c02_comparators. Qed.
Print Assumptions C02_composer.

Theorem C02_composer_bare :
  forall (vok : bytes -> bool) (vcmp : bytes -> bytes -> comparison)
    (a v : bytes) (vc : Composer.Version.core),
  Composer.RangeFacts.in_scope a = true ->
  vok a = true ->
  vok v = true ->
  Composer.Version.parse_core (trim_space v) = Some vc ->
  r_contains Composer.Entry.r vok vcmp a v = Some (sat CEq (vcmp v a)).
Proof. exact Composer.RangeFacts.c02_bare. Qed.
Print Assumptions C02_composer_bare.

Theorem C02_composer_sem_table :
  map Composer.Range.sem_op Composer.Range.composer_ops = [CGe; CLe; CNe; CNe; CEq; CGt; CLt; CEq].
Proof. exact Composer.RangeFacts.sem_op_table. Qed.
Print Assumptions C02_composer_sem_table.

Theorem C02_composer_and :
  forall (vok : bytes -> bool) (vcmp : bytes -> bytes -> comparison)
    (op1 a1 : bytes) (sep : ascii) (op2 a2 v : bytes) (vc : Composer.Version.core),
  In op1 Composer.Range.composer_ops ->
  Composer.RangeFacts.in_scope a1 = true ->
  vok a1 = true ->
  In op2 Composer.Range.composer_ops ->
  Composer.RangeFacts.in_scope a2 = true ->
  vok a2 = true ->
  sep = " "%char \/ sep = ","%char ->
  vok v = true ->
  Composer.Version.parse_core (trim_space v) = Some vc ->
  r_contains Composer.Entry.r vok vcmp ((op1 ++ a1) ++ sep :: op2 ++ a2) v =
  Some (sat (Composer.Range.sem_op op1) (vcmp v a1) && sat (Composer.Range.sem_op op2) (vcmp v a2)).
Proof. exact ComposerLists.composer_c02_and. Qed.
Print Assumptions C02_composer_and.

Theorem C02_composer_or :
  forall (vok : bytes -> bool) (vcmp : bytes -> bytes -> comparison)
    (op1 a1 op2 a2 v : bytes) (vc : Composer.Version.core),
  In op1 Composer.Range.composer_ops ->
  Composer.RangeFacts.in_scope a1 = true ->
  vok a1 = true ->
  In op2 Composer.Range.composer_ops ->
  Composer.RangeFacts.in_scope a2 = true ->
  vok a2 = true ->
  vok v = true ->
  Composer.Version.parse_core (trim_space v) = Some vc ->
  r_contains Composer.Entry.r vok vcmp ((op1 ++ a1) ++ $"||" ++ op2 ++ a2)
    v = Some (sat (Composer.Range.sem_op op1) (vcmp v a1) || sat (Composer.Range.sem_op op2) (vcmp v a2)).
Proof. exact ComposerLists.composer_c02_or. Qed.
Print Assumptions C02_composer_or.

(* composer, general form: two single constraints a, b (texts without whitespace, comma, bar) that parse to the constraint lists ca, cb *)

Theorem C02_composer_and_general :
  forall (vok : bytes -> bool) (vcmp : bytes -> bytes -> comparison)
    (a : bytes) (sep : ascii) (b : bytes) (ca cb : list Composer.Range.con) 
    (v : bytes) (vc : Composer.Version.core),
  Composer.RangeFacts.simple a = true ->
  Composer.RangeFacts.simple b = true ->
  sep = " "%char \/ sep = ","%char ->
  Composer.Range.parse_single vok a = Some ca ->
  Composer.Range.parse_single vok b = Some cb ->
  vok v = true ->
  Composer.Version.parse_core (trim_space v) = Some vc ->
  r_contains Composer.Entry.r vok vcmp (a ++ sep :: b) v =
  Some
    (forallb (Composer.Range.matches vcmp v vc) ca &&
     forallb (Composer.Range.matches vcmp v vc) cb).
Proof. exact ComposerLists.composer_and. Qed.
Print Assumptions C02_composer_and_general.

Theorem C02_composer_or_general :
  forall (vok : bytes -> bool) (vcmp : bytes -> bytes -> comparison)
    (a b : bytes) (ca cb : list Composer.Range.con) (v : bytes) (vc : Composer.Version.core),
  Composer.RangeFacts.simple a = true ->
  Composer.RangeFacts.simple b = true ->
  Composer.Range.parse_single vok a = Some ca ->
  Composer.Range.parse_single vok b = Some cb ->
  vok v = true ->
  Composer.Version.parse_core (trim_space v) = Some vc ->
  r_contains Composer.Entry.r vok vcmp (a ++ $"||" ++ b) v =
  Some
    (forallb (Composer.Range.matches vcmp v vc) ca
     || forallb (Composer.Range.matches vcmp v vc) cb).
Proof. exact ComposerLists.composer_or. Qed.
Print Assumptions C02_composer_or_general.

(* conan (AND: comma or space; OR: ||) *)

Theorem C02_conan :
  forall (vok : bytes -> bool) (vcmp : bytes -> bytes -> comparison)
    (op : list ascii) (a v : bytes),
  In op
    [$">="; $">"; $"<=";
     $"<"; $"!="; $"="] ->
  Conan.RangeFacts.bound_scope a = true ->
  vok a = true ->
  vok v = true ->
  r_contains Conan.Entry.r vok vcmp (op ++ a) v = Some (sat (sem6 op) (vcmp v a)).
Proof. exact Conan.RangeFacts.conan_c02. Qed.
Print Assumptions C02_conan.

Theorem C02_conan_bare :
  forall (vok : bytes -> bool) (vcmp : bytes -> bytes -> comparison) (a v : bytes),
  Conan.RangeFacts.bound_scope a = true ->
  vok a = true ->
  vok v = true -> r_contains Conan.Entry.r vok vcmp a v = Some (sat CEq (vcmp v a)).
Proof. exact Conan.RangeFacts.conan_c02_bare. Qed.
Print Assumptions C02_conan_bare.

Theorem C02_conan_and :
  forall (vok : bytes -> bool) (vcmp : bytes -> bytes -> comparison)
    (sep : list ascii) (c1 c2 : Conan.Range.constraint) (v : bytes),
  sep = $"," \/ sep = $" " ->
  Conan.RangeFacts.cons_ok vok c1 ->
  Conan.RangeFacts.cons_ok vok c2 ->
  vok v = true ->
  r_contains Conan.Entry.r vok vcmp
    (Conan.RangeFacts.ctext c1 ++ sep ++ Conan.RangeFacts.ctext c2) v =
  Some (Conan.Range.sat_constraint vcmp v c1 && Conan.Range.sat_constraint vcmp v c2).
Proof. exact Conan.RangeFacts.conan_c02_and. Qed.
Print Assumptions C02_conan_and.

Theorem C02_conan_or :
  forall (vok : bytes -> bool) (vcmp : bytes -> bytes -> comparison)
    (c1 c2 : Conan.Range.constraint) (v : bytes),
  Conan.RangeFacts.cons_ok vok c1 ->
  Conan.RangeFacts.cons_ok vok c2 ->
  vok v = true ->
  r_contains Conan.Entry.r vok vcmp
    (Conan.RangeFacts.ctext c1 ++ $"||" ++ Conan.RangeFacts.ctext c2) v =
  Some (Conan.Range.sat_constraint vcmp v c1 || Conan.Range.sat_constraint vcmp v c2).
Proof. exact Conan.RangeFacts.conan_c02_or. Qed.
Print Assumptions C02_conan_or.

Theorem C02_conan_groups :
  forall (vok : bytes -> bool) (vcmp : bytes -> bytes -> comparison)
    (ts : list bytes) (gs : list (list Conan.Range.constraint)) (v : bytes),
  ts <> [] ->
  Forall2 (Conan.RangeFacts.group_ok vok) ts gs ->
  forallb Conan.RangeFacts.pipe_free ts = true ->
  forallb Conan.RangeFacts.upper_free ts = true ->
  vok v = true ->
  r_contains Conan.Entry.r vok vcmp (join $"||" ts) v =
  Some
    (existsb
       (fun g : list Conan.Range.constraint => forallb (Conan.Range.sat_constraint vcmp v) g)
       gs).
Proof. exact Conan.RangeFacts.conan_c02_groups. Qed.
Print Assumptions C02_conan_groups.

(* cran (AND: comma) *)

Theorem C02_cran :
  forall (vok : bytes -> bool) (vcmp : bytes -> bytes -> comparison) (op a v : bytes),
  In op Operators.cran_ops -> bound_in_scope a -> negb (contains_c ","%char a) = true ->
  vok a = true -> vok v = true ->
  r_contains Cran.Entry.r vok vcmp (op ++ a) v = Some (sat (sem6 op) (vcmp v a)).
Proof. exact C02Lists.cran_c02. Qed.
Print Assumptions C02_cran.

Theorem C02_cran_bare :
  forall (vok : bytes -> bool) (vcmp : bytes -> bytes -> comparison) (a v : bytes),
  bound_in_scope a -> negb (contains_c ","%char a) = true ->
  vok a = true -> vok v = true ->
  r_contains Cran.Entry.r vok vcmp a v = Some (sat CEq (vcmp v a)).
Proof. exact C02Lists.cran_c02_bare. Qed.
Print Assumptions C02_cran_bare.

Theorem C02_cran_and :
  forall (vok : bytes -> bool) (vcmp : bytes -> bytes -> comparison) (cs : list constraint) (v : bytes),
  cs <> [] ->
  Forall (fun c : bytes * bytes =>
     (In (fst c) Operators.cran_ops /\ bound_in_scope (snd c) /\ vok (snd c) = true) /\
     negb (contains_c ","%char (snd c)) = true) cs ->
  vok v = true ->
  r_contains Cran.Entry.r vok vcmp (join $"," (map ctext cs)) v =   (* ctext c = fst c ++ snd c *)
  Some (forallb (fun c : bytes * bytes => sat (sem6 (fst c)) (vcmp v (snd c))) cs).
Proof. exact C02Lists.cran_c02_and. Qed.
Print Assumptions C02_cran_and.

(* debian (AND: comma) *)

Theorem C02_debian :
  forall (vok : bytes -> bool) (vcmp : bytes -> bytes -> comparison) (op a v : bytes),
  In op Debian.Range.debian_ops ->
  Debian.RangeFacts.in_scope a = true ->
  vok a = true ->
  vok v = true ->
  r_contains Debian.Entry.r vok vcmp (op ++ a) v = Some (sat (Debian.Range.debian_sem op) (vcmp v a)).
Proof. exact Debian.RangeFacts.debian_c02. Qed.
Print Assumptions C02_debian.

Theorem C02_debian_bare :
  forall (vok : bytes -> bool) (vcmp : bytes -> bytes -> comparison) (a v : bytes),
  Debian.RangeFacts.in_scope a = true ->
  vok a = true ->
  vok v = true -> r_contains Debian.Entry.r vok vcmp a v = Some (sat CEq (vcmp v a)).
Proof. exact Debian.RangeFacts.debian_c02_bare. Qed.
Print Assumptions C02_debian_bare.

Theorem C02_debian_and :
  forall (vok : bytes -> bool) (vcmp : bytes -> bytes -> comparison) (cs : list constraint) (v : bytes),
  cs <> [] ->
  Forall (fun c : bytes * bytes =>
     (In (fst c) Debian.Range.debian_ops /\ bound_in_scope (snd c) /\ vok (snd c) = true) /\
     negb (contains_c ","%char (snd c)) = true) cs ->
  vok v = true ->
  r_contains Debian.Entry.r vok vcmp (join $"," (map ctext cs)) v =   (* ctext c = fst c ++ snd c *)
  Some (forallb (fun c : bytes * bytes => sat (Debian.Range.debian_sem (fst c)) (vcmp v (snd c))) cs).
Proof. exact C02Lists.debian_c02_and. Qed.
Print Assumptions C02_debian_and.

Theorem C02_debian_sem_table :
  Debian.Range.debian_sem $"=" = CEq /\
  Debian.Range.debian_sem $"!=" = CNe /\
  Debian.Range.debian_sem $">" = CGt /\
  Debian.Range.debian_sem $">>" = CGt /\
  Debian.Range.debian_sem $">=" = CGe /\
  Debian.Range.debian_sem $"<" = CLt /\
  Debian.Range.debian_sem $"<<" = CLt /\
  Debian.Range.debian_sem $"<=" = CLe.
Proof. exact Debian.RangeFacts.debian_sem_table. Qed.
Print Assumptions C02_debian_sem_table.

(* gem (AND: comma; bounds are not validated when the range is parsed) *)

Theorem C02_gem :
  forall (vok : bytes -> bool) (vcmp : bytes -> bytes -> comparison) (op a v : bytes),
  In op Gem.Range.gem_ops ->
  Gem.RangeFacts.bound_scope a = true ->
  vok a = true ->
  vok v = true -> Gem.Range.r_contains vok vcmp (op ++ a) v = Some (sat (sem6 op) (vcmp v a)).
Proof. exact Gem.RangeFacts.gem_c02. Qed.
Print Assumptions C02_gem.

Theorem C02_gem_bare :
  forall (vok : bytes -> bool) (vcmp : bytes -> bytes -> comparison) (a v : bytes),
  Gem.RangeFacts.bound_scope a = true ->
  vok a = true -> vok v = true -> Gem.Range.r_contains vok vcmp a v = Some (sat CEq (vcmp v a)).
Proof. exact Gem.RangeFacts.gem_c02_bare. Qed.
Print Assumptions C02_gem_bare.

Theorem C02_gem_and :
  forall (vok : bytes -> bool) (vcmp : bytes -> bytes -> comparison) (cs : list constraint) (v : bytes),
  cs <> [] ->
  Forall (fun c : bytes * bytes =>
     (In (fst c) Gem.Range.gem_ops /\ bound_in_scope (snd c) /\ vok (snd c) = true) /\
     negb (contains_c ","%char (snd c)) = true) cs ->
  vok v = true ->
  r_contains Gem.Entry.r vok vcmp (join $"," (map ctext cs)) v =   (* ctext c = fst c ++ snd c *)
  Some (forallb (fun c : bytes * bytes => sat (sem6 (fst c)) (vcmp v (snd c))) cs).
Proof. exact GemSupport.gem_c02_and. Qed.
Print Assumptions C02_gem_and.

Theorem C02_gem_invalid_bound_accepted :
  Gem.Range.r_show Gem.RangeFacts.self_ok $"!= x" =
  Some $"!= x" /\
  Gem.Range.r_contains Gem.RangeFacts.self_ok Gem.RangeFacts.self_cmp
    $"!= x" $"1" = Some false.
Proof. exact Gem.RangeFacts.finding_invalid_bound_accepted. Qed.
Print Assumptions C02_gem_invalid_bound_accepted.

(* gentoo (AND: commas and whitespace) *)

Theorem C02_gentoo :
  forall (vok : bytes -> bool) (vcmp : bytes -> bytes -> comparison) (op a v : bytes),
  In op Gentoo.Range.gentoo_ops ->
  Gentoo.RangeFacts.in_scope a = true ->
  vok a = true ->
  vok v = true ->
  r_contains Gentoo.Entry.r vok vcmp (op ++ a) v = Some (sat (sem6 op) (vcmp v a)).
Proof. exact Gentoo.RangeFacts.gentoo_c02. Qed.
Print Assumptions C02_gentoo.

Theorem C02_gentoo_bare :
  forall (vok : bytes -> bool) (vcmp : bytes -> bytes -> comparison) (a v : bytes),
  Gentoo.RangeFacts.in_scope a = true ->
  vok a = true ->
  vok v = true -> r_contains Gentoo.Entry.r vok vcmp a v = Some (sat CEq (vcmp v a)).
Proof. exact Gentoo.RangeFacts.gentoo_c02_bare. Qed.
Print Assumptions C02_gentoo_bare.

Theorem C02_gentoo_and :
  forall (vok : bytes -> bool) (vcmp : bytes -> bytes -> comparison)
    (c0 : constraint) (cs : list (bytes * constraint)) (v : bytes),
  Gentoo.RangeFacts.con_ok vok c0 ->
  Forall
    (fun sc : bytes * constraint =>
     Gentoo.RangeFacts.sep_ok (fst sc) /\ Gentoo.RangeFacts.con_ok vok (snd sc)) cs ->
  vok v = true ->
  r_contains Gentoo.Entry.r vok vcmp
    (Gentoo.RangeFacts.glue (Gentoo.RangeFacts.ctext c0)
       (map (fun sc : bytes * constraint => (fst sc, Gentoo.RangeFacts.ctext (snd sc))) cs)) v =
  Some
    (forallb (fun c : bytes * bytes => sat (sem6 (fst c)) (vcmp v (snd c))) (c0 :: map snd cs)).
Proof. exact Gentoo.RangeFacts.gentoo_c02_and. Qed.
Print Assumptions C02_gentoo_and.

(* github (AND: whitespace) *)

Theorem C02_github :
  forall (vok : bytes -> bool) (vcmp : bytes -> bytes -> comparison) (op a v : bytes),
  In op Github.Range.github_ops ->
  bound_in_scope a ->
  vok a = true ->
  vok v = true ->
  r_contains Github.Entry.r vok vcmp (op ++ a) v = Some (sat (sem5 op) (vcmp v a)).
Proof. exact Github.RangeFacts.github_c02. Qed.
Print Assumptions C02_github.

Theorem C02_github_bare :
  forall (vok : bytes -> bool) (vcmp : bytes -> bytes -> comparison) (a v : bytes),
  bound_in_scope a ->
  vok a = true ->
  vok v = true -> r_contains Github.Entry.r vok vcmp a v = Some (sat CEq (vcmp v a)).
Proof. exact Github.RangeFacts.github_c02_bare. Qed.
Print Assumptions C02_github_bare.

Theorem C02_github_and :
  forall (vok : bytes -> bool) (vcmp : bytes -> bytes -> comparison) (cs : list constraint) (v : bytes),
  cs <> [] ->
  Forall (fun c : bytes * bytes =>
     (In (fst c) Github.Range.github_ops /\ bound_in_scope (snd c) /\ vok (snd c) = true)) cs ->
  vok v = true ->
  r_contains Github.Entry.r vok vcmp (join $" " (map ctext cs)) v =   (* ctext c = fst c ++ snd c *)
  Some (forallb (fun c : bytes * bytes => sat (sem5 (fst c)) (vcmp v (snd c))) cs).
Proof. exact C02Lists.github_c02_and. Qed.
Print Assumptions C02_github_and.

(* golang (AND: one space) *)

Theorem C02_golang :
  forall (vok : bytes -> bool) (vcmp : bytes -> bytes -> comparison) (op a v : bytes),
  In op Golang.Range.golang_ops ->
  bound_in_scope a ->
  vok a = true ->
  vok v = true ->
  r_contains Golang.Entry.r vok vcmp (op ++ a) v = Some (sat (Golang.Range.golang_sem op) (vcmp v a)).
Proof. exact Golang.RangeFacts.golang_c02_single. Qed.
Print Assumptions C02_golang.

Theorem C02_golang_bare :
  forall (vok : bytes -> bool) (vcmp : bytes -> bytes -> comparison) (a v : bytes),
  bound_in_scope a ->
  vok a = true ->
  vok v = true -> r_contains Golang.Entry.r vok vcmp a v = Some (sat CEq (vcmp v a)).
Proof. exact Golang.RangeFacts.golang_c02_bare. Qed.
Print Assumptions C02_golang_bare.

Theorem C02_golang_and :
  forall (vok : bytes -> bool) (vcmp : bytes -> bytes -> comparison)
    (cs : list constraint) (v : bytes),
  cs <> [] ->
  Forall (Golang.RangeFacts.in_scope vok) cs ->
  vok v = true ->
  r_contains Golang.Entry.r vok vcmp (join $" " (map ctext cs)) v =
  Some (forallb (fun c : bytes * bytes => sat (Golang.Range.golang_sem (fst c)) (vcmp v (snd c))) cs).
Proof. exact Golang.RangeFacts.golang_c02. Qed.
Print Assumptions C02_golang_and.

Theorem C02_golang_sem_table :
  map Golang.Range.golang_sem Golang.Range.golang_ops = [CGe; CLe; CNe; CGt; CLt; CEq].
Proof. exact Golang.RangeFacts.golang_sem_table. Qed.
Print Assumptions C02_golang_sem_table.

(* hex (AND: whitespace, optionally the word "and") *)

Theorem C02_hex :
  forall (vok : bytes -> bool) (vcmp : bytes -> bytes -> comparison) (op a v : bytes),
  In op Hex.RangeFacts.plain_ops ->
  Hex.RangeFacts.scope_b a = true ->
  vok a = true ->
  vok v = true ->
  r_contains Hex.Entry.r vok vcmp (op ++ a) v = Some (sat (sem5 op) (vcmp v a)).
Proof. exact Hex.RangeFacts.hex_c02. Qed.
Print Assumptions C02_hex.

Theorem C02_hex_bare :
  forall (vok : bytes -> bool) (vcmp : bytes -> bytes -> comparison) (a v : bytes),
  Hex.RangeFacts.scope_b a = true ->
  vok a = true ->
  vok v = true -> r_contains Hex.Entry.r vok vcmp a v = Some (sat CEq (vcmp v a)).
Proof. exact Hex.RangeFacts.hex_c02_bare. Qed.
Print Assumptions C02_hex_bare.

Theorem C02_hex_and :
  forall (vok : bytes -> bool) (vcmp : bytes -> bytes -> comparison) (s1 s2 v : bytes),
  trim_space s1 <> [] ->
  trim_space s2 <> [] ->
  r_contains Hex.Entry.r vok vcmp (s1 ++ $" " ++ s2) v =
  Hex.RangeFacts.both (r_contains Hex.Entry.r vok vcmp s1 v)
    (r_contains Hex.Entry.r vok vcmp s2 v).
Proof. exact Hex.RangeFacts.hex_and_space. Qed.
Print Assumptions C02_hex_and.

Theorem C02_hex_and_word :
  forall (vok : bytes -> bool) (vcmp : bytes -> bytes -> comparison) (w s1 s2 v : bytes),
  beq (to_lower w) $"and" = true ->
  trim_space s1 <> [] ->
  trim_space s2 <> [] ->
  r_contains Hex.Entry.r vok vcmp
    (s1 ++ $" " ++ w ++ $" " ++ s2) v =
  Hex.RangeFacts.both (r_contains Hex.Entry.r vok vcmp s1 v)
    (r_contains Hex.Entry.r vok vcmp s2 v).
Proof. exact Hex.RangeFacts.hex_and_word. Qed.
Print Assumptions C02_hex_and_word.

(* mattermost (AND: whitespace) *)

Theorem C02_mattermost :
  forall (vok : bytes -> bool) (vcmp : bytes -> bytes -> comparison) (op a v : bytes),
  In op Mattermost.Range.mattermost_ops ->
  bound_in_scope a ->
  vok a = true ->
  vok v = true ->
  r_contains Mattermost.Entry.r vok vcmp (op ++ a) v = Some (sat (sem5 op) (vcmp v a)).
Proof. exact Mattermost.RangeFacts.c02_op. Qed.
Print Assumptions C02_mattermost.

Theorem C02_mattermost_bare :
  forall (vok : bytes -> bool) (vcmp : bytes -> bytes -> comparison) (a v : bytes),
  bound_in_scope a ->
  vok a = true ->
  vok v = true -> r_contains Mattermost.Entry.r vok vcmp a v = Some (sat CEq (vcmp v a)).
Proof. exact Mattermost.RangeFacts.c02_bare. Qed.
Print Assumptions C02_mattermost_bare.

Theorem C02_mattermost_and :
  forall (vok : bytes -> bool) (vcmp : bytes -> bytes -> comparison)
    (cs : list constraint) (v : bytes),
  cs <> [] ->
  Forall
    (fun c : bytes * bytes =>
     In (fst c) Mattermost.Range.mattermost_ops /\ bound_in_scope (snd c) /\ vok (snd c) = true) cs ->
  vok v = true ->
  r_contains Mattermost.Entry.r vok vcmp (join $" " (map ctext cs)) v =
  Some (forallb (fun c : bytes * bytes => sat (sem5 (fst c)) (vcmp v (snd c))) cs).
Proof. exact Mattermost.RangeFacts.c02_and. Qed.
Print Assumptions C02_mattermost_and.

(* maven: no comparator syntax; the bare version is the exact match *)

Theorem C02_maven_bare :
  forall (vok : bytes -> bool) (vcmp : bytes -> bytes -> comparison) (a v : bytes),
  Maven.RangeFacts.bare_scope a = true ->
  vok a = true ->
  vok v = true -> r_contains Maven.Entry.r vok vcmp a v = Some (sat CEq (vcmp v a)).
Proof. exact Maven.RangeFacts.c02_bare. Qed.
Print Assumptions C02_maven_bare.

(* npm (AND: space; OR: ||) *)

Theorem C02_npm :
  forall (vok : bytes -> bool) (vcmp : bytes -> bytes -> comparison) (op a v : bytes),
  In op Npm.RangeFacts.ops5 ->
  Npm.RangeFacts.bound_scope a = true ->
  vok a = true ->
  vok v = true ->
  r_contains Npm.Entry.r vok vcmp (op ++ a) v = Some (sat (sem6 op) (vcmp v a)).
Proof. exact Npm.RangeFacts.npm_c02. Qed.
Print Assumptions C02_npm.

Theorem C02_npm_bare :
  forall (vok : bytes -> bool) (vcmp : bytes -> bytes -> comparison) (a v : bytes),
  Npm.RangeFacts.bound_scope a = true ->
  vok a = true ->
  vok v = true -> r_contains Npm.Entry.r vok vcmp a v = Some (sat CEq (vcmp v a)).
Proof. exact Npm.RangeFacts.npm_c02_bare. Qed.
Print Assumptions C02_npm_bare.

Theorem C02_npm_and :
  forall (vok : bytes -> bool) (vcmp : bytes -> bytes -> comparison)
    (c1 c2 : bytes) (r1 r2 : Npm.Range.range),
  Npm.RangeFacts.plain c1 = true ->
  Npm.RangeFacts.plain c2 = true ->
  Npm.RangeFacts.hd_not $"^~-" c1 = true ->
  Npm.RangeFacts.hd_not $"-" c2 = true ->
  Npm.Range.parse_range vok c1 = Some r1 ->
  Npm.Range.parse_range vok c2 = Some r2 ->
  exists r : Npm.Range.range,
    Npm.Range.parse_range vok (Npm.RangeFacts.sp c1 c2) = Some r /\
    (forall v : bytes,
     Npm.Range.contains vok vcmp r v =
     Npm.Range.contains vok vcmp r1 v && Npm.Range.contains vok vcmp r2 v).
Proof. exact Npm.RangeFacts.and_inter. Qed.
Print Assumptions C02_npm_and.

Theorem C02_npm_or :
  forall (vok : bytes -> bool) (vcmp : bytes -> bytes -> comparison)
    (s1 s2 : bytes) (r1 r2 : Npm.Range.range),
  Npm.StrFacts.hd_nonspace s1 = true ->
  Npm.StrFacts.last_nonspace s1 = true ->
  Npm.StrFacts.hd_nonspace s2 = true ->
  Npm.StrFacts.last_nonspace s2 = true ->
  contains_c "|" s1 = false ->
  contains_c "|" s2 = false ->
  Npm.Range.parse_range vok s1 = Some r1 ->
  Npm.Range.parse_range vok s2 = Some r2 ->
  exists r : Npm.Range.range,
    Npm.Range.parse_range vok (Npm.RangeFacts.orr s1 s2) = Some r /\
    (forall v : bytes,
     Npm.Range.contains vok vcmp r v =
     Npm.Range.contains vok vcmp r1 v || Npm.Range.contains vok vcmp r2 v).
Proof. exact Npm.RangeFacts.or_union. Qed.
Print Assumptions C02_npm_or.

Theorem C02_npm_ne_rejected :
  forall vok : bytes -> bool,
  Npm.Range.parse_range vok $"!=1.0.0" = None.
Proof. exact Npm.RangeFacts.ne_example. Qed.
Print Assumptions C02_npm_ne_rejected.

(* nuget (comparators only inside the comma-separated list form) *)

Theorem C02_nuget :
  forall (vok : bytes -> bool) (vcmp : bytes -> bytes -> comparison) (op a v : bytes),
  In op Nuget.Range.nuget_ops ->
  Nuget.RangeFacts.bound_scope a = true ->
  vok a = true ->
  vok v = true ->
  r_contains Nuget.Entry.r vok vcmp (op ++ a ++ $",") v =
  Some (sat (sem6 op) (vcmp v a)).
Proof. exact Nuget.RangeFacts.nuget_c02. Qed.
Print Assumptions C02_nuget.

Theorem C02_nuget_bare :
  forall (vok : bytes -> bool) (vcmp : bytes -> bytes -> comparison) (a v : bytes),
  Nuget.RangeFacts.bound_scope a = true ->
  vok a = true ->
  vok v = true -> r_contains Nuget.Entry.r vok vcmp a v = Some (sat CGe (vcmp v a)).
Proof. exact Nuget.RangeFacts.nuget_c02_bare. Qed.
Print Assumptions C02_nuget_bare.

Theorem C02_nuget_bare_comma :
  forall (vok : bytes -> bool) (vcmp : bytes -> bytes -> comparison) (a v : bytes),
  Nuget.RangeFacts.bound_scope a = true ->
  vok a = true ->
  vok v = true ->
  r_contains Nuget.Entry.r vok vcmp (a ++ $",") v =
  Some (sat CGe (vcmp v a)).
Proof. exact Nuget.RangeFacts.nuget_c02_bare_comma. Qed.
Print Assumptions C02_nuget_bare_comma.

Theorem C02_nuget_and :
  forall (vok : bytes -> bool) (vcmp : bytes -> bytes -> comparison)
    (its : list Nuget.RangeFacts.item) (v : bytes),
  2 <= Datatypes.length its ->
  Forall (Nuget.RangeFacts.item_ok vok) its ->
  flat_map Nuget.RangeFacts.inorm its <> [] ->
  vok v = true ->
  r_contains Nuget.Entry.r vok vcmp
    (join $"," (map Nuget.RangeFacts.itext its)) v =
  Some
    (forallb (fun c : bytes * bytes => sat (sem6 (fst c)) (vcmp v (snd c)))
       (flat_map Nuget.RangeFacts.inorm its)).
Proof. exact Nuget.RangeFacts.nuget_c02_and. Qed.
Print Assumptions C02_nuget_and.

Theorem C02_nuget_single_rejected :
  forall (vok : bytes -> bool) (op a : bytes),
  In op Nuget.Range.nuget_ops ->
  Nuget.RangeFacts.bound_scope a = true ->
  vok (op ++ a) = false -> Nuget.Range.parse_range vok (op ++ a) = None.
Proof. exact Nuget.RangeFacts.single_comparator_rejected. Qed.
Print Assumptions C02_nuget_single_rejected.

Theorem C02_nuget_single_rejected_self :
  forall op a : bytes,
  In op Nuget.Range.nuget_ops ->
  Nuget.RangeFacts.bound_scope a = true ->
  Nuget.Range.parse_range (self_vok Nuget.Entry.entry) (op ++ a) = None.
Proof. exact Nuget.RangeFacts.single_comparator_rejected_self. Qed.
Print Assumptions C02_nuget_single_rejected_self.

(* pypi (AND: comma) *)

Theorem C02_pypi :
  forall (vok : bytes -> bool) (vcmp : bytes -> bytes -> comparison) (op a v : bytes),
  In op Pypi.RangeFacts.cmp_ops ->
  Pypi.RangeFacts.in_scope a = true ->
  has_suffix $".*" a = false ->
  vok a = true ->
  vok v = true ->
  r_contains Pypi.Entry.r vok vcmp (op ++ a) v = Some (sat (Pypi.Range.sem op) (vcmp v a)).
Proof. exact Pypi.RangeFacts.c02_comparator. Qed.
Print Assumptions C02_pypi.

Theorem C02_pypi_bare :
  forall (vok : bytes -> bool) (vcmp : bytes -> bytes -> comparison) (a v : bytes),
  Pypi.RangeFacts.in_scope a = true ->
  vok a = true ->
  vok v = true -> r_contains Pypi.Entry.r vok vcmp a v = Some (sat CEq (vcmp v a)).
Proof. exact Pypi.RangeFacts.c02_bare. Qed.
Print Assumptions C02_pypi_bare.

(* [Cargo.NumFacts.trimmed_b s]: s is non-empty and neither starts nor ends with whitespace *)
Theorem C02_pypi_and :
  forall (vok : bytes -> bool) (vcmp : bytes -> bytes -> comparison) (a b : bytes)
    (ra rb : Pypi.Range.range),
  Cargo.NumFacts.trimmed_b a = true -> Cargo.NumFacts.trimmed_b b = true ->
  Pypi.Range.parse_range vok a = Some ra -> Pypi.Range.parse_range vok b = Some rb ->
  exists r : Pypi.Range.range,
    Pypi.Range.parse_range vok (a ++ $"," ++ b) = Some r /\
    (forall v : bytes,
     Pypi.Range.contains vok vcmp r v =
     Pypi.Range.contains vok vcmp ra v && Pypi.Range.contains vok vcmp rb v).
Proof. exact C02Lists.pypi_c02_and. Qed.
Print Assumptions C02_pypi_and.

(* rpm (AND: comma) *)

Theorem C02_rpm :
  forall (vok : bytes -> bool) (vcmp : bytes -> bytes -> comparison) (op a v : bytes),
  In op Rpm.Range.rpm_ops ->
  bound_in_scope a ->
  Rpm.RangeFacts.no_comma a = true ->
  vok a = true ->
  vok v = true ->
  r_contains Rpm.Entry.r vok vcmp (op ++ a) v = Some (sat (sem6 op) (vcmp v a)).
Proof. exact Rpm.RangeFacts.rpm_r_contains_c02. Qed.
Print Assumptions C02_rpm.

Theorem C02_rpm_bare :
  forall (vok : bytes -> bool) (vcmp : bytes -> bytes -> comparison) (a v : bytes),
  bound_in_scope a ->
  Rpm.RangeFacts.no_comma a = true ->
  vok a = true ->
  vok v = true -> r_contains Rpm.Entry.r vok vcmp a v = Some (sat CEq (vcmp v a)).
Proof. exact Rpm.RangeFacts.rpm_r_contains_bare. Qed.
Print Assumptions C02_rpm_bare.

Theorem C02_rpm_and :
  forall (vok : bytes -> bool) (vcmp : bytes -> bytes -> comparison) (cs : list constraint) (v : bytes),
  cs <> [] ->
  Forall (fun c : bytes * bytes =>
     (In (fst c) Rpm.Range.rpm_ops /\ bound_in_scope (snd c) /\ vok (snd c) = true) /\
     negb (contains_c ","%char (snd c)) = true) cs ->
  vok v = true ->
  r_contains Rpm.Entry.r vok vcmp (join $"," (map ctext cs)) v =   (* ctext c = fst c ++ snd c *)
  Some (forallb (fun c : bytes * bytes => sat (sem6 (fst c)) (vcmp v (snd c))) cs).
Proof. exact C02Lists.rpm_c02_and. Qed.
Print Assumptions C02_rpm_and.

Theorem C02_rpm_and_parsed :
  forall (V : Type) (vparse : bytes -> option V) (vcmp : V -> V -> comparison)
    (cs : list constraint),
  cs <> [] ->
  Forall (Rpm.RangeFacts.rpm_in_scope V vparse) cs ->
  exists r : range,
    parse_range V vparse Rpm.Range.cfg (join $"," (map ctext cs)) = Some r /\
    (forall v : V,
     contains V vparse vcmp Rpm.Range.cfg r v =
     forallb
       (fun c : bytes * bytes =>
        match vparse (snd c) with
        | Some b => sat (sem6 (fst c)) (vcmp v b)
        | None => false
        end) cs).
Proof. exact Rpm.RangeFacts.rpm_range_c02. Qed.
Print Assumptions C02_rpm_and_parsed.

(* semver (AND: comma or space) *)

Theorem C02_semver :
  forall (vok : bytes -> bool) (vcmp : bytes -> bytes -> comparison) (sp a v : bytes),
  Semver.RangeFacts.spelling sp ->
  Semver.RangeFacts.bound_scope a = true ->
  vok a = true ->
  vok v = true ->
  r_contains Semver.Entry.r vok vcmp (sp ++ a) v = Some (sat (sem6 (Semver.RangeFacts.op_of sp)) (vcmp v a)).
Proof. exact Semver.RangeFacts.c02_single. Qed.
Print Assumptions C02_semver.

Theorem C02_semver_table :
  forall (vok : bytes -> bool) (vcmp : bytes -> bytes -> comparison) (a v : bytes),
  Semver.RangeFacts.bound_scope a = true ->
  vok a = true ->
  vok v = true ->
  r_contains Semver.Entry.r vok vcmp ($">=" ++ a) v = Some (sat CGe (vcmp v a)) /\
  r_contains Semver.Entry.r vok vcmp ($"<=" ++ a) v = Some (sat CLe (vcmp v a)) /\
  r_contains Semver.Entry.r vok vcmp ($"!=" ++ a) v = Some (sat CNe (vcmp v a)) /\
  r_contains Semver.Entry.r vok vcmp ($">" ++ a) v = Some (sat CGt (vcmp v a)) /\
  r_contains Semver.Entry.r vok vcmp ($"<" ++ a) v = Some (sat CLt (vcmp v a)) /\
  r_contains Semver.Entry.r vok vcmp ($"=" ++ a) v = Some (sat CEq (vcmp v a)) /\
  r_contains Semver.Entry.r vok vcmp a v = Some (sat CEq (vcmp v a)).
Proof. exact Semver.RangeFacts.c02_table. Qed.
Print Assumptions C02_semver_table.

Theorem C02_semver_and :
  forall (vok : bytes -> bool) (vcmp : bytes -> bytes -> comparison)
    (sep : ascii) (cs : list Semver.RangeFacts.item) (v : bytes),
  sep = ","%char \/ sep = " "%char ->
  cs <> [] ->
  Forall (Semver.RangeFacts.item_scope vok) cs ->
  exists r : Semver.Range.range,
    Semver.Range.parse_range vok (join [sep] (map Semver.RangeFacts.ctext cs)) = Some r /\
    Semver.Range.r_cs r = map Semver.RangeFacts.item_constr cs /\
    Semver.Range.contains vcmp r v =
    forallb (fun i : bytes * bytes => sat (sem6 (Semver.RangeFacts.op_of (fst i))) (vcmp v (snd i)))
      cs.
Proof. exact Semver.RangeFacts.c02_list. Qed.
Print Assumptions C02_semver_and.

(* TODO, not proved: nothing for the 20 ecosystems (maven has no comparator syntax).
   Not stated in full generality: AND-lists of more than two parts for cargo, npm, pypi, hex and
   composer (the two-part theorems compose, each part being any accepted range text of the stated
   shape). *)

(* ====== ties to the source: BEGIN (written by bin/mkties) ====== *)
(* The Go functions named here are translated into Gallina from /repo's source on every run
   (tools/gen -> Gen/Code/<Eco>.v for loop-free functions, Gen/Loops/<Eco>.v for functions with
   loops and index expressions, where a panic is Panic and a loop takes fuel); Tie/<Eco>.v,
   Tie/<Eco>Range.v and Tie/Loops/<Eco>.v prove each translation equal to the model the theorems
   above speak about (and, for the loop functions: no panic, termination within a linear bound).
   If the code changes so that a tie no longer holds, this file no longer checks. *)
Require Verif.Tie.AlpineRange.
Require Verif.Tie.AlpmRange.
Require Verif.Tie.ApacheRange.
Require Verif.Tie.CargoRange.
Require Verif.Tie.ConanRange.
Require Verif.Tie.CranRange.
Require Verif.Tie.DebianRange.
Require Verif.Tie.GemRange.
Require Verif.Tie.GentooRange.
Require Verif.Tie.GithubRange.
Require Verif.Tie.GolangRange.
Require Verif.Tie.HexRange.
Require Verif.Tie.MattermostRange.
Require Verif.Tie.MavenRange.
Require Verif.Tie.NugetRange.
Require Verif.Tie.PypiRange.
Require Verif.Tie.RpmRange.
Require Verif.Tie.Extra.Composer.
Definition C02_tie_alpine_VersionRange_String := @Verif.Tie.AlpineRange.tie_alpine_VersionRange_String.
Definition C02_tie_alpine_VersionRange_Contains := @Verif.Tie.AlpineRange.tie_alpine_VersionRange_Contains.
Definition C02_tie_alpm_matches := @Verif.Tie.AlpmRange.tie_alpm_matches.
Definition C02_tie_alpm_matches_model := @Verif.Tie.AlpmRange.tie_alpm_matches_model.
Definition C02_tie_alpm_contains := @Verif.Tie.AlpmRange.tie_alpm_contains.
Definition C02_tie_apache_matches := @Verif.Tie.ApacheRange.tie_apache_matches.
Definition C02_tie_apache_matches_model := @Verif.Tie.ApacheRange.tie_apache_matches_model.
Definition C02_tie_apache_contains := @Verif.Tie.ApacheRange.tie_apache_contains.
Definition C02_tie_cargo_caret := @Verif.Tie.CargoRange.tie_cargo_caret.
Definition C02_tie_cargo_tilde := @Verif.Tie.CargoRange.tie_cargo_tilde.
Definition C02_tie_cargo_satisfiesConstraint := @Verif.Tie.CargoRange.tie_cargo_satisfiesConstraint.
Definition C02_tie_conan_isOperator := @Verif.Tie.ConanRange.tie_conan_isOperator.
Definition C02_tie_conan_VersionRange_constraintSatisfied := @Verif.Tie.ConanRange.tie_conan_VersionRange_constraintSatisfied.
Definition C02_tie_conan_VersionRange_constraintSatisfied_model := @Verif.Tie.ConanRange.tie_conan_VersionRange_constraintSatisfied_model.
Definition C02_tie_conan_VersionRange_groupSatisfied := @Verif.Tie.ConanRange.tie_conan_VersionRange_groupSatisfied.
Definition C02_tie_conan_VersionRange_Contains := @Verif.Tie.ConanRange.tie_conan_VersionRange_Contains.
Definition C02_tie_conan_VersionRange_String := @Verif.Tie.ConanRange.tie_conan_VersionRange_String.
Definition C02_tie_cran_satisfiesConstraint := @Verif.Tie.CranRange.tie_cran_satisfiesConstraint.
Definition C02_tie_cran_contains := @Verif.Tie.CranRange.tie_cran_contains.
Definition C02_tie_cran_contains_model := @Verif.Tie.CranRange.tie_cran_contains_model.
Definition C02_tie_debian_satisfiesConstraint := @Verif.Tie.DebianRange.tie_debian_satisfiesConstraint.
Definition C02_tie_debian_satisfiesConstraint_model := @Verif.Tie.DebianRange.tie_debian_satisfiesConstraint_model.
Definition C02_tie_debian_contains := @Verif.Tie.DebianRange.tie_debian_contains.
Definition C02_tie_gem_VersionRange_String := @Verif.Tie.GemRange.tie_gem_VersionRange_String.
Definition C02_tie_gem_VersionRange_Contains := @Verif.Tie.GemRange.tie_gem_VersionRange_Contains.
Definition C02_tie_gentoo_matches := @Verif.Tie.GentooRange.tie_gentoo_matches.
Definition C02_tie_gentoo_contains := @Verif.Tie.GentooRange.tie_gentoo_contains.
Definition C02_tie_gentoo_contains_model := @Verif.Tie.GentooRange.tie_gentoo_contains_model.
Definition C02_tie_github_matches := @Verif.Tie.GithubRange.tie_github_matches.
Definition C02_tie_github_matches_model := @Verif.Tie.GithubRange.tie_github_matches_model.
Definition C02_tie_github_contains := @Verif.Tie.GithubRange.tie_github_contains.
Definition C02_tie_golang_VersionRange_String := @Verif.Tie.GolangRange.tie_golang_VersionRange_String.
Definition C02_tie_golang_VersionRange_Contains := @Verif.Tie.GolangRange.tie_golang_VersionRange_Contains.
Definition C02_tie_hex_matches := @Verif.Tie.HexRange.tie_hex_matches.
Definition C02_tie_hex_matches_model := @Verif.Tie.HexRange.tie_hex_matches_model.
Definition C02_tie_hex_contains := @Verif.Tie.HexRange.tie_hex_contains.
Definition C02_tie_mattermost_matches := @Verif.Tie.MattermostRange.tie_mattermost_matches.
Definition C02_tie_mattermost_matches_model := @Verif.Tie.MattermostRange.tie_mattermost_matches_model.
Definition C02_tie_mattermost_contains := @Verif.Tie.MattermostRange.tie_mattermost_contains.
Definition C02_tie_maven_satisfiesConstraint := @Verif.Tie.MavenRange.tie_maven_satisfiesConstraint.
Definition C02_tie_maven_contains := @Verif.Tie.MavenRange.tie_maven_contains.
Definition C02_tie_nuget_matches := @Verif.Tie.NugetRange.tie_nuget_matches.
Definition C02_tie_nuget_matches_model := @Verif.Tie.NugetRange.tie_nuget_matches_model.
Definition C02_tie_nuget_contains := @Verif.Tie.NugetRange.tie_nuget_contains.
Definition C02_tie_pypi_VersionRange_String := @Verif.Tie.PypiRange.tie_pypi_VersionRange_String.
Definition C02_tie_pypi_VersionRange_Contains := @Verif.Tie.PypiRange.tie_pypi_VersionRange_Contains.
Definition C02_tie_rpm_satisfiesRPMConstraint := @Verif.Tie.RpmRange.tie_rpm_satisfiesRPMConstraint.
Definition C02_tie_rpm_satisfiesRPMConstraint_model := @Verif.Tie.RpmRange.tie_rpm_satisfiesRPMConstraint_model.
Definition C02_tie_rpm_contains := @Verif.Tie.RpmRange.tie_rpm_contains.
Definition C02_tie_composer_normalizeOperator := @Verif.Tie.Extra.Composer.tie_composer_normalizeOperator.
Definition C02_tie_composer_normalizeOperator_sat := @Verif.Tie.Extra.Composer.tie_composer_normalizeOperator_sat.
Definition C02_ties_all := (C02_tie_alpine_VersionRange_Contains, (C02_tie_alpine_VersionRange_String, (C02_tie_alpm_contains, (C02_tie_alpm_matches, (C02_tie_alpm_matches_model, (C02_tie_apache_contains, (C02_tie_apache_matches, (C02_tie_apache_matches_model, (C02_tie_cargo_caret, (C02_tie_cargo_satisfiesConstraint, (C02_tie_cargo_tilde, (C02_tie_composer_normalizeOperator, (C02_tie_composer_normalizeOperator_sat, (C02_tie_conan_VersionRange_Contains, (C02_tie_conan_VersionRange_String, (C02_tie_conan_VersionRange_constraintSatisfied, (C02_tie_conan_VersionRange_constraintSatisfied_model, (C02_tie_conan_VersionRange_groupSatisfied, (C02_tie_conan_isOperator, (C02_tie_cran_contains, (C02_tie_cran_contains_model, (C02_tie_cran_satisfiesConstraint, (C02_tie_debian_contains, (C02_tie_debian_satisfiesConstraint, (C02_tie_debian_satisfiesConstraint_model, (C02_tie_gem_VersionRange_Contains, (C02_tie_gem_VersionRange_String, (C02_tie_gentoo_contains, (C02_tie_gentoo_contains_model, (C02_tie_gentoo_matches, (C02_tie_github_contains, (C02_tie_github_matches, (C02_tie_github_matches_model, (C02_tie_golang_VersionRange_Contains, (C02_tie_golang_VersionRange_String, (C02_tie_hex_contains, (C02_tie_hex_matches, (C02_tie_hex_matches_model, (C02_tie_mattermost_contains, (C02_tie_mattermost_matches, (C02_tie_mattermost_matches_model, (C02_tie_maven_contains, (C02_tie_maven_satisfiesConstraint, (C02_tie_nuget_contains, (C02_tie_nuget_matches, (C02_tie_nuget_matches_model, (C02_tie_pypi_VersionRange_Contains, (C02_tie_pypi_VersionRange_String, (C02_tie_rpm_contains, (C02_tie_rpm_satisfiesRPMConstraint, C02_tie_rpm_satisfiesRPMConstraint_model)))))))))))))))))))))))))))))))))))))))))))))))))).
Print Assumptions C02_ties_all.
(* ====== ties to the source: END ====== *)
