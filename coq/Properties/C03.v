(* C03 — Numbers order numerically; pre-release < release < post-release, everywhere.
   Statements only; the proofs live in Eco/<E>/VersionFacts.v (alpm: C03Facts.v; cran:
   Properties/Support/CranC03.v).

   For every ecosystem the theorems say, about the model of NewVersion ([parse_core] on the
   trimmed text, or [parse]) and of Compare ([cmp_core] on the parsed structure, or [cmp]):
     (a) the dotted decimal text of a tuple of naturals (written with [dec]; components below
         2^63, i.e. the whole int64 range - the property asks for 2^31 - and UNBOUNDED for alpm,
         debian, rpm whose components are compared as digit strings) is accepted, and two such
         texts compare as [lex_short N.compare] on the tuples (for equal arity this is the
         integer-tuple order; where a theorem allows different arities, a proper prefix is
         smaller; conan and pypi pad with zeros instead: [lex_pad 0]);
     (b) appending the ecosystem's pre-release marker to such a text gives an accepted version
         that is Lt the unmarked one, and appending its post-release / revision marker gives
         one that is Gt.
   Arity covered by (a): alpine, conan, gem, maven, pypi: any n >= 1 (gem, like conan and
   pypi, also across arities by zero padding); alpm, debian, rpm: any n >= 1 and
   any two arities; cran: any n >= 2 and any two arities; composer, nuget: 1..4; hex: 2 and 3;
   apache, cargo, github, golang, mattermost, npm, semver: exactly 3 (golang: every other arity
   is REJECTED, C03_golang_arity); gentoo: [tuple_ok].
   Markers covered by (b):
     alpine      every suffix of pre_markers / post_markers, with or without a number
     alpm        letters glued to the number are older; a suffix after a non-alphanumeric
                 delimiter is newer (pkgrel is not claimed, as in the property)
     apache      -<letters><digits>
     cargo, golang, hex, npm, nuget, semver   -<pre-release identifiers>; +<build> compares Eq
     composer    pre_words Lt; post_words Gt ONLY with a number > 0 - a post marker without
                 a number compares Eq (C03_composer_post_marker_bare_eq); a fifth numeric
                 component is ignored (C03_composer_fifth_component_ignored)
     conan       -<identifiers> Lt; +<build> Eq
     debian      "~" Lt; a letter, "+", "." or "-" Gt, in upstream (and "~" in the revision);
                 stated on parsed structures, for all epochs / revisions
     gem         -<letters, digits, dots> and .<letters><digits> Lt (RubyGems has no post-release
                 marker; the former finding F-gem-numeric-split, 2.0.0.rc1 > 2.0.0, is fixed)
     gentoo      _alpha/_beta/_pre/_rc Lt; _p, -rN (N > 0), trailing letter Gt; -r0 Eq
     github      <sep><letters>[.][N] Lt; date-shaped versions (4-digit first component) are
                 compared among themselves only
     mattermost  -rc<digits> and -esr<digits> Lt (the code's order; the property claims no
                 direction for -esr)
     maven       pre_markers Lt, post_markers Gt, ga/final/release identical to the release
     pypi        a/b/rc/... Lt, post/rev/r Gt, dev Lt (and below every pre-release); local
                 version labels are ignored; a larger epoch wins
     rpm         ~x Lt; any further alphanumeric segment Gt; -release Gt; epochs
     cran        no markers exist in the grammar ("-" is a separator)
   No open finding of this property is known for the 20 ecosystems. *)

From Verif Require GenTie.  (* ties of model constants to the generated tables *)
From Verif.Base Require Import Bytes BytesFacts GoNum Ord.
From Verif.Eco Require Import RangeCore RangeCoreFacts Iface VLayer VLayerFacts.
From Verif.Eco.Alpine Require Version VersionFacts Range RangeFacts Entry OrdMore.
From Verif.Eco.Alpm Require Version VersionFacts Range RangeFacts Entry C03Facts.
From Verif.Eco.Apache Require Version VersionFacts Range RangeFacts Entry.
From Verif.Eco.Cargo Require Version VersionFacts Range RangeFacts Entry.
From Verif.Eco.Composer Require Version VersionFacts Range RangeFacts Entry.
From Verif.Eco.Conan Require Version VersionFacts Range RangeFacts Entry.
From Verif.Eco.Cran Require Version VersionFacts Range Entry.
From Verif.Eco.Debian Require Version VersionFacts Range RangeFacts Entry.
From Verif.Eco.Gem Require Version VersionFacts Range RangeFacts Entry.
From Verif.Eco.Gentoo Require Version VersionFacts Range RangeFacts Entry.
From Verif.Eco.Github Require Version VersionFacts Range RangeFacts Entry.
From Verif.Eco.Golang Require Version VersionFacts Range RangeFacts Entry.
From Verif.Eco.Hex Require Version VersionFacts Range RangeFacts Entry.
From Verif.Eco.Mattermost Require Version VersionFacts Range RangeFacts Entry.
From Verif.Eco.Maven Require Version VersionFacts Range RangeFacts Entry.
From Verif.Eco.Npm Require Version VersionFacts Range RangeFacts Entry.
From Verif.Eco.Nuget Require Version VersionFacts Range RangeFacts Entry.
From Verif.Eco.Pypi Require Version VersionFacts Range RangeFacts Entry.
From Verif.Eco.Rpm Require Version VersionFacts Range RangeFacts Entry.
From Verif.Eco.Semver Require Version VersionFacts Range RangeFacts Entry.
From Verif.Properties.Support Require CranC03.


(* alpine *)

Theorem C03_alpine_numeric_tuples :
  forall t1 t2 : list N,
  t1 <> [] ->
  Datatypes.length t1 = Datatypes.length t2 ->
  Forall (fun n : N => (n < two63)%N) t1 ->
  Forall (fun n : N => (n < two63)%N) t2 ->
  exists v1 v2 : Alpine.Version.ver,
    Alpine.Version.parse (Alpine.VersionFacts.dotted t1) = Some v1 /\
    Alpine.Version.parse (Alpine.VersionFacts.dotted t2) = Some v2 /\
    Alpine.Version.cmp v1 v2 = lex_short N.compare t1 t2.
Proof. exact Alpine.VersionFacts.c03_numeric_tuples. Qed.
Print Assumptions C03_alpine_numeric_tuples.

Theorem C03_alpine_markers :
  forall (t : list N) (name : bytes) (k : option N),
  t <> [] ->
  Forall (fun n : N => (n < two63)%N) t ->
  In name (Alpine.VersionFacts.pre_markers ++ Alpine.VersionFacts.post_markers) ->
  match k with
  | Some k0 => (k0 < two63)%N
  | None => True
  end ->
  exists v1 v0 : Alpine.Version.ver,
    Alpine.Version.parse
      (Alpine.VersionFacts.dotted t ++
       Alpine.VersionFacts.sfx_text name (Alpine.VersionFacts.num_text k)) = 
    Some v1 /\
    Alpine.Version.parse (Alpine.VersionFacts.dotted t) = Some v0 /\
    Alpine.Version.cmp v1 v0 = (if mem name Alpine.VersionFacts.pre_markers then Lt else Gt).
Proof. exact Alpine.VersionFacts.c03_markers. Qed.
Print Assumptions C03_alpine_markers.

(* alpm *)

Theorem C03_alpm_tuples :
  forall t1 t2 : list N,
  t1 <> [] ->
  t2 <> [] ->
  exists c1 c2 : Alpm.Version.core,
    Alpm.Version.parse_core (Alpm.C03Facts.dots t1) = Some c1 /\
    Alpm.Version.parse_core (Alpm.C03Facts.dots t2) = Some c2 /\
    Alpm.Version.cmp_core c1 c2 = lex_short N.compare t1 t2.
Proof. exact Alpm.C03Facts.c03_tuples. Qed.
Print Assumptions C03_alpm_tuples.

Theorem C03_alpm_tuples_ver :
  forall t1 t2 : list N,
  t1 <> [] ->
  t2 <> [] ->
  exists v1 v2 : Alpm.Version.ver,
    Alpm.Version.parse (Alpm.C03Facts.dots t1) = Some v1 /\
    Alpm.Version.parse (Alpm.C03Facts.dots t2) = Some v2 /\
    Alpm.Version.cmp v1 v2 = lex_short N.compare t1 t2.
Proof. exact Alpm.C03Facts.c03_tuples_ver. Qed.
Print Assumptions C03_alpm_tuples_ver.

Theorem C03_alpm_glued_letters_older :
  forall (t : list N) (w : list ascii),
  t <> [] ->
  w <> [] ->
  forallb is_letter w = true ->
  exists c1 c2 : Alpm.Version.core,
    Alpm.Version.parse_core (Alpm.C03Facts.dots t ++ w) = Some c1 /\
    Alpm.Version.parse_core (Alpm.C03Facts.dots t) = Some c2 /\ Alpm.Version.cmp_core c1 c2 = Lt.
Proof. exact Alpm.C03Facts.c03_glued_letters_older. Qed.
Print Assumptions C03_alpm_glued_letters_older.

Theorem C03_alpm_delimited_suffix_newer :
  forall (t : list N) (d : ascii) (x : list ascii),
  t <> [] ->
  Alpm.C03Facts.plain d = true ->
  is_letter d = false ->
  is_digit d = false ->
  forallb Alpm.C03Facts.plain x = true ->
  exists c1 c2 : Alpm.Version.core,
    Alpm.Version.parse_core (Alpm.C03Facts.dots t ++ d :: x) = Some c1 /\
    Alpm.Version.parse_core (Alpm.C03Facts.dots t) = Some c2 /\ Alpm.Version.cmp_core c1 c2 = Gt.
Proof. exact Alpm.C03Facts.c03_delimited_suffix_newer. Qed.
Print Assumptions C03_alpm_delimited_suffix_newer.

(* apache *)

Theorem C03_apache_numeric :
  forall t1 t2 : list N,
  Datatypes.length t1 = 3 ->
  Datatypes.length t2 = 3 ->
  Forall (fun x : N => (x < two63)%N) t1 ->
  Forall (fun x : N => (x < two63)%N) t2 ->
  exists c1 c2 : Apache.Version.core,
    Apache.Version.parse_core (join $"." (map dec t1)) = Some c1 /\
    Apache.Version.parse_core (join $"." (map dec t2)) = Some c2 /\
    Apache.Version.cmp_core c1 c2 = lex_short N.compare t1 t2.
Proof. exact Apache.VersionFacts.c03_numeric. Qed.
Print Assumptions C03_apache_numeric.

Theorem C03_apache_prerelease :
  forall (a b c : N) (l d : list ascii),
  (a < two63)%N ->
  (b < two63)%N ->
  (c < two63)%N ->
  l <> [] ->
  forallb is_letter l = true ->
  forallb is_digit d = true ->
  (digits_val d < two63)%N ->
  exists q : Apache.Version.core,
    Apache.Version.parse_core (Apache.VersionFacts.num3 a b c ++ "-"%char :: l ++ d) = Some q /\
    Apache.Version.cmp_core q (Apache.VersionFacts.release a b c) = Lt /\
    Apache.Version.cmp_core (Apache.VersionFacts.release a b c) q = Gt.
Proof. exact Apache.VersionFacts.c03_prerelease. Qed.
Print Assumptions C03_apache_prerelease.

(* cargo *)

Theorem C03_cargo_tuples :
  forall x y z x' y' z' : N,
  (x < two63)%N ->
  (y < two63)%N ->
  (z < two63)%N ->
  (x' < two63)%N ->
  (y' < two63)%N ->
  (z' < two63)%N ->
  exists c c' : Cargo.Version.core,
    Cargo.Version.parse_core (join $"." (map dec [x; y; z])) = Some c /\
    Cargo.Version.parse_core (join $"." (map dec [x'; y'; z'])) =
    Some c' /\ Cargo.Version.cmp_core c c' = lex_short N.compare [x; y; z] [x'; y'; z'].
Proof. exact Cargo.VersionFacts.C03_tuples. Qed.
Print Assumptions C03_cargo_tuples.

Theorem C03_cargo_prerelease_lt :
  forall (x y z : N) (p : bytes),
  (x < two63)%N ->
  (y < two63)%N ->
  (z < two63)%N ->
  Cargo.Version.dotted_idents p = true ->
  exists c c' : Cargo.Version.core,
    Cargo.Version.parse_core (Cargo.VersionFacts.plain x y z ++ $"-" ++ p) =
    Some c /\
    Cargo.Version.parse_core (Cargo.VersionFacts.plain x y z) = Some c' /\
    Cargo.Version.cmp_core c c' = Lt /\ Cargo.Version.cmp_core c' c = Gt.
Proof. exact Cargo.VersionFacts.C03_prerelease_lt. Qed.
Print Assumptions C03_cargo_prerelease_lt.

Theorem C03_cargo_build_eq :
  forall (x y z : N) (b : bytes),
  (x < two63)%N ->
  (y < two63)%N ->
  (z < two63)%N ->
  Cargo.Version.dotted_idents b = true ->
  exists c c' : Cargo.Version.core,
    Cargo.Version.parse_core (Cargo.VersionFacts.plain x y z ++ $"+" ++ b) =
    Some c /\
    Cargo.Version.parse_core (Cargo.VersionFacts.plain x y z) = Some c' /\
    Cargo.Version.cmp_core c c' = Eq.
Proof. exact Cargo.VersionFacts.C03_build_eq. Qed.
Print Assumptions C03_cargo_build_eq.

(* composer *)

Theorem C03_composer_parse_core_nums :
  forall (a : N) (ds : list N),
  (a < two63)%N ->
  Forall (fun x : N => (x < two63)%N) ds ->
  Datatypes.length ds <= 4 ->
  Composer.Version.parse_core (Composer.VersionFacts.numtext (a :: ds)) =
  Some
    (Composer.Version.CRel (Z.of_N a) (Composer.VersionFacts.zn ds 0) (Composer.VersionFacts.zn ds 1)
       (Composer.VersionFacts.zn ds 2) Composer.Version.stabilityStable 0).
Proof. exact Composer.VersionFacts.parse_core_nums. Qed.
Print Assumptions C03_composer_parse_core_nums.

Theorem C03_composer_cmp_nums :
  forall t1 t2 : list N,
  Datatypes.length t1 = Datatypes.length t2 ->
  1 <= Datatypes.length t1 <= 4 ->
  Forall (fun x : N => (x < two63)%N) t1 ->
  Forall (fun x : N => (x < two63)%N) t2 ->
  exists c1 c2 : Composer.Version.core,
    Composer.Version.parse_core (Composer.VersionFacts.numtext t1) = Some c1 /\
    Composer.Version.parse_core (Composer.VersionFacts.numtext t2) = Some c2 /\
    Composer.Version.cmp_core c1 c2 = lex_short N.compare t1 t2.
Proof. exact Composer.VersionFacts.cmp_nums. Qed.
Print Assumptions C03_composer_cmp_nums.

Theorem C03_composer_parse_core_marked :
  forall (a : N) (ds : list N) (sfx w : bytes) (k : option N),
  (a < two63)%N ->
  Forall (fun x : N => (x < two63)%N) ds ->
  Datatypes.length ds <= 4 ->
  Composer.VersionFacts.marked sfx w k ->
  Composer.Version.parse_core (Composer.VersionFacts.numtext (a :: ds) ++ sfx) =
  Some
    (Composer.Version.CRel (Z.of_N a) (Composer.VersionFacts.zn ds 0) (Composer.VersionFacts.zn ds 1)
       (Composer.VersionFacts.zn ds 2) (Composer.Version.stab_of w) (Composer.VersionFacts.num_of k)).
Proof. exact Composer.VersionFacts.parse_core_marked. Qed.
Print Assumptions C03_composer_parse_core_marked.

Theorem C03_composer_pre_marker_lt :
  forall (a : N) (ds : list N) (sfx w : bytes) (k : option N),
  (a < two63)%N ->
  Forall (fun x : N => (x < two63)%N) ds ->
  Datatypes.length ds <= 4 ->
  Composer.VersionFacts.marked sfx w k ->
  In w Composer.VersionFacts.pre_words ->
  exists c1 c0 : Composer.Version.core,
    Composer.Version.parse_core (Composer.VersionFacts.numtext (a :: ds) ++ sfx) = Some c1 /\
    Composer.Version.parse_core (Composer.VersionFacts.numtext (a :: ds)) = Some c0 /\
    Composer.Version.cmp_core c1 c0 = Lt.
Proof. exact Composer.VersionFacts.pre_marker_lt. Qed.
Print Assumptions C03_composer_pre_marker_lt.

Theorem C03_composer_post_marker_gt :
  forall (a : N) (ds : list N) (sfx w : bytes) (k : N),
  (a < two63)%N ->
  Forall (fun x : N => (x < two63)%N) ds ->
  Datatypes.length ds <= 4 ->
  Composer.VersionFacts.marked sfx w (Some k) ->
  In w Composer.VersionFacts.post_words ->
  (0 < k)%N ->
  exists c1 c0 : Composer.Version.core,
    Composer.Version.parse_core (Composer.VersionFacts.numtext (a :: ds) ++ sfx) = Some c1 /\
    Composer.Version.parse_core (Composer.VersionFacts.numtext (a :: ds)) = Some c0 /\
    Composer.Version.cmp_core c1 c0 = Gt.
Proof. exact Composer.VersionFacts.post_marker_gt. Qed.
Print Assumptions C03_composer_post_marker_gt.

Theorem C03_composer_post_marker_bare_eq :
  forall (a : N) (ds : list N) (sfx w : bytes),
  (a < two63)%N ->
  Forall (fun x : N => (x < two63)%N) ds ->
  Datatypes.length ds <= 4 ->
  Composer.VersionFacts.marked sfx w None ->
  In w Composer.VersionFacts.post_words ->
  exists c1 c0 : Composer.Version.core,
    Composer.Version.parse_core (Composer.VersionFacts.numtext (a :: ds) ++ sfx) = Some c1 /\
    Composer.Version.parse_core (Composer.VersionFacts.numtext (a :: ds)) = Some c0 /\
    Composer.Version.cmp_core c1 c0 = Eq.
Proof. exact Composer.VersionFacts.post_marker_bare_eq. Qed.
Print Assumptions C03_composer_post_marker_bare_eq.

Theorem C03_composer_marker_level_lt :
  forall (a : N) (ds : list N) (sfx1 w1 : bytes) (k1 : option N) (sfx2 w2 : bytes) (k2 : option N),
  (a < two63)%N ->
  Forall (fun x : N => (x < two63)%N) ds ->
  Datatypes.length ds <= 4 ->
  Composer.VersionFacts.marked sfx1 w1 k1 ->
  Composer.VersionFacts.marked sfx2 w2 k2 ->
  (Composer.Version.stab_of w1 < Composer.Version.stab_of w2)%Z ->
  exists c1 c2 : Composer.Version.core,
    Composer.Version.parse_core (Composer.VersionFacts.numtext (a :: ds) ++ sfx1) = Some c1 /\
    Composer.Version.parse_core (Composer.VersionFacts.numtext (a :: ds) ++ sfx2) = Some c2 /\
    Composer.Version.cmp_core c1 c2 = Lt.
Proof. exact Composer.VersionFacts.marker_level_lt. Qed.
Print Assumptions C03_composer_marker_level_lt.

(* dev < alpha = a < beta = b < RC = rc < patch = pl (the levels, not their numbers) *)
Theorem C03_composer_marker_words_order :
  (Composer.Version.stab_of $"dev" < Composer.Version.stab_of $"alpha" /\
   Composer.Version.stab_of $"alpha" = Composer.Version.stab_of $"a" /\
   Composer.Version.stab_of $"alpha" < Composer.Version.stab_of $"beta" /\
   Composer.Version.stab_of $"beta" = Composer.Version.stab_of $"b" /\
   Composer.Version.stab_of $"beta" < Composer.Version.stab_of $"RC" /\
   Composer.Version.stab_of $"RC" = Composer.Version.stab_of $"rc" /\
   Composer.Version.stab_of $"RC" < Composer.Version.stab_of $"patch" /\
   Composer.Version.stab_of $"patch" = Composer.Version.stab_of $"pl")%Z.
Proof. exact Composer.VersionFacts.marker_words_order. Qed.
Print Assumptions C03_composer_marker_words_order.

Theorem C03_composer_fifth_component_ignored :
  forall a b c d e1 e2 : N,
  Forall (fun x : N => (x < two63)%N) [a; b; c; d; e1; e2] ->
  exists c1 c2 : Composer.Version.core,
    Composer.Version.parse_core (Composer.VersionFacts.numtext [a; b; c; d; e1]) = Some c1 /\
    Composer.Version.parse_core (Composer.VersionFacts.numtext [a; b; c; d; e2]) = Some c2 /\
    Composer.Version.cmp_core c1 c2 = Eq.
Proof. exact Composer.VersionFacts.fifth_component_ignored. Qed.
Print Assumptions C03_composer_fifth_component_ignored.

(* conan *)

Theorem C03_conan_numeric :
  forall t1 t2 : list N,
  t1 <> [] ->
  Datatypes.length t1 = Datatypes.length t2 ->
  Forall (fun n : N => (n < two63)%N) t1 ->
  Forall (fun n : N => (n < two63)%N) t2 ->
  exists c1 c2 : Conan.Version.core,
    Conan.Version.parse_core (join ["."%char] (map dec t1)) = Some c1 /\
    Conan.Version.parse_core (join ["."%char] (map dec t2)) = Some c2 /\
    Conan.Version.cmp_core c1 c2 = lex_short N.compare t1 t2.
Proof. exact Conan.VersionFacts.c03_numeric. Qed.
Print Assumptions C03_conan_numeric.

Theorem C03_conan_numeric_pad :
  forall t1 t2 : list N,
  Forall (fun n : N => (n < two63)%N) t1 ->
  Forall (fun n : N => (n < two63)%N) t2 ->
  Conan.Version.parts_cmp (map dec t1) (map dec t2) = lex_pad 0%N N.compare t1 t2.
Proof. exact Conan.VersionFacts.c03_numeric_pad. Qed.
Print Assumptions C03_conan_numeric_pad.

Theorem C03_conan_parse_main :
  forall ps : list bytes,
  ps <> [] ->
  Conan.Version.main_ok ps = true ->
  Conan.Version.parse_core (join ["."%char] ps) =
  Some {| Conan.Version.c_parts := ps; Conan.Version.c_pre := None |}.
Proof. exact Conan.VersionFacts.parse_main. Qed.
Print Assumptions C03_conan_parse_main.

Theorem C03_conan_parse_main_pre :
  forall ps ids : list bytes,
  ps <> [] ->
  Conan.Version.main_ok ps = true ->
  ids <> [] ->
  Conan.Version.idents_ok ids = true ->
  Conan.Version.parse_core (join ["."%char] ps ++ "-"%char :: join ["."%char] ids) =
  Some {| Conan.Version.c_parts := ps; Conan.Version.c_pre := Some ids |}.
Proof. exact Conan.VersionFacts.parse_main_pre. Qed.
Print Assumptions C03_conan_parse_main_pre.

Theorem C03_conan_parse_main_build :
  forall ps bs : list bytes,
  ps <> [] ->
  Conan.Version.main_ok ps = true ->
  bs <> [] ->
  Conan.Version.idents_ok bs = true ->
  Conan.Version.parse_core (join ["."%char] ps ++ "+"%char :: join ["."%char] bs) =
  Some {| Conan.Version.c_parts := ps; Conan.Version.c_pre := None |}.
Proof. exact Conan.VersionFacts.parse_main_build. Qed.
Print Assumptions C03_conan_parse_main_build.

Theorem C03_conan_pre_lt_release :
  forall ps ids : list bytes,
  Conan.Version.cmp_core {| Conan.Version.c_parts := ps; Conan.Version.c_pre := Some ids |}
    {| Conan.Version.c_parts := ps; Conan.Version.c_pre := None |} = Lt.
Proof. exact Conan.VersionFacts.pre_lt_release. Qed.
Print Assumptions C03_conan_pre_lt_release.

Theorem C03_conan_release_gt_pre :
  forall ps ids : list bytes,
  Conan.Version.cmp_core {| Conan.Version.c_parts := ps; Conan.Version.c_pre := None |}
    {| Conan.Version.c_parts := ps; Conan.Version.c_pre := Some ids |} = Gt.
Proof. exact Conan.VersionFacts.release_gt_pre. Qed.
Print Assumptions C03_conan_release_gt_pre.

(* cran *)

Theorem C03_cran_parse : forall t : list N,
  2 <= length t -> Forall (fun n : N => (n < two63)%N) t ->
  Cran.Version.parse_core (CranC03.dotted t) = Some (map Z.of_N t).
Proof. exact CranC03.c03_parse. Qed.
Print Assumptions C03_cran_parse.

Theorem C03_cran_numeric : forall t1 t2 : list N,
  2 <= length t1 -> 2 <= length t2 ->
  Forall (fun n : N => (n < two63)%N) t1 -> Forall (fun n : N => (n < two63)%N) t2 ->
  exists v1 v2 : Cran.Version.ver,
    Cran.Version.parse (CranC03.dotted t1) = Some v1 /\
    Cran.Version.parse (CranC03.dotted t2) = Some v2 /\
    Cran.Version.cmp v1 v2 = lex_short N.compare t1 t2.
Proof. exact CranC03.c03_numeric. Qed.
Print Assumptions C03_cran_numeric.

(* debian *)

Theorem C03_debian_parse_core_num :
  forall t : list N,
  t <> [] ->
  Debian.Version.parse_core (Debian.VersionFacts.numtext t) =
  Some
    {|
      Debian.Version.epoch := 0;
      Debian.Version.upstream := Debian.VersionFacts.numtext t;
      Debian.Version.revision := []
    |}.
Proof. exact Debian.VersionFacts.parse_core_num. Qed.
Print Assumptions C03_debian_parse_core_num.

Theorem C03_debian_cmp_core_num :
  forall (t1 t2 : list N) (c1 c2 : Debian.Version.core),
  t1 <> [] ->
  t2 <> [] ->
  Debian.Version.parse_core (Debian.VersionFacts.numtext t1) = Some c1 ->
  Debian.Version.parse_core (Debian.VersionFacts.numtext t2) = Some c2 ->
  Debian.Version.cmp_core c1 c2 = lex_short N.compare t1 t2.
Proof. exact Debian.VersionFacts.cmp_core_num. Qed.
Print Assumptions C03_debian_cmp_core_num.

Theorem C03_debian_cmp_core_tilde_lt :
  forall (e : Z) (u w : list ascii) (r r' : bytes),
  Debian.Version.cmp_core
    {|
      Debian.Version.epoch := e;
      Debian.Version.upstream := u ++ "~"%char :: w;
      Debian.Version.revision := r
    |} {| Debian.Version.epoch := e; Debian.Version.upstream := u; Debian.Version.revision := r' |} =
  Lt.
Proof. exact Debian.VersionFacts.cmp_core_tilde_lt. Qed.
Print Assumptions C03_debian_cmp_core_tilde_lt.

Theorem C03_debian_cmp_core_post_gt :
  forall (c : ascii) (e : Z) (u w : list ascii) (r r' : bytes),
  Debian.VersionFacts.post_marker c = true ->
  Debian.Version.cmp_core
    {|
      Debian.Version.epoch := e; Debian.Version.upstream := u ++ c :: w; Debian.Version.revision := r
    |} {| Debian.Version.epoch := e; Debian.Version.upstream := u; Debian.Version.revision := r' |} =
  Gt.
Proof. exact Debian.VersionFacts.cmp_core_post_gt. Qed.
Print Assumptions C03_debian_cmp_core_post_gt.

Theorem C03_debian_cmp_core_rev_tilde_lt :
  forall (e : Z) (u : bytes) (c : ascii) (r w : list ascii),
  Debian.Version.cmp_core
    {|
      Debian.Version.epoch := e;
      Debian.Version.upstream := u;
      Debian.Version.revision := (c :: r) ++ "~"%char :: w
    |}
    {| Debian.Version.epoch := e; Debian.Version.upstream := u; Debian.Version.revision := c :: r |} =
  Lt.
Proof. exact Debian.VersionFacts.cmp_core_rev_tilde_lt. Qed.
Print Assumptions C03_debian_cmp_core_rev_tilde_lt.

Theorem C03_debian_cmp_core_epoch :
  forall c1 c2 : Debian.Version.core,
  (Debian.Version.epoch c1 < Debian.Version.epoch c2)%Z -> Debian.Version.cmp_core c1 c2 = Lt.
Proof. exact Debian.VersionFacts.cmp_core_epoch. Qed.
Print Assumptions C03_debian_cmp_core_epoch.

Theorem C03_debian_cmp_core_native :
  forall (e : Z) (u : bytes),
  Debian.Version.cmp_core
    {| Debian.Version.epoch := e; Debian.Version.upstream := u; Debian.Version.revision := [] |}
    {|
      Debian.Version.epoch := e;
      Debian.Version.upstream := u;
      Debian.Version.revision := $"0"
    |} = Eq.
Proof. exact Debian.VersionFacts.cmp_core_native. Qed.
Print Assumptions C03_debian_cmp_core_native.

(* gem *)

Theorem C03_gem_parse_dots :
  forall t : list N,
  t <> [] ->
  Gem.VersionFacts.small t ->
  Gem.Version.parse (Gem.VersionFacts.dots t) =
  Some
    {|
      v_core := Gem.Version.remove_trailing_zeros (map Gem.VersionFacts.num_seg t);
      v_orig := Gem.VersionFacts.dots t
    |}.
Proof. exact Gem.VersionFacts.parse_dots. Qed.
Print Assumptions C03_gem_parse_dots.

Theorem C03_gem_tuples :
  forall t1 t2 : list N,
  t1 <> [] ->
  Gem.VersionFacts.small t1 ->
  Gem.VersionFacts.small t2 ->
  Datatypes.length t1 = Datatypes.length t2 ->
  exists v1 v2 : Gem.Version.ver,
    Gem.Version.parse (Gem.VersionFacts.dots t1) = Some v1 /\
    Gem.Version.parse (Gem.VersionFacts.dots t2) = Some v2 /\
    Gem.Version.cmp v1 v2 = lex_short N.compare t1 t2.
Proof. exact Gem.VersionFacts.c03_tuples. Qed.
Print Assumptions C03_gem_tuples.

Theorem C03_gem_tuples_padded :
  forall t1 t2 : list N,
  t1 <> [] ->
  t2 <> [] ->
  Gem.VersionFacts.small t1 ->
  Gem.VersionFacts.small t2 ->
  exists v1 v2 : Gem.Version.ver,
    Gem.Version.parse (Gem.VersionFacts.dots t1) = Some v1 /\
    Gem.Version.parse (Gem.VersionFacts.dots t2) = Some v2 /\
    Gem.Version.cmp v1 v2 = lex_pad 0%N N.compare t1 t2.
Proof. exact Gem.VersionFacts.c03_tuples_padded. Qed.
Print Assumptions C03_gem_tuples_padded.

Theorem C03_gem_dash_marker_lt :
  forall (t : list N) (x : list ascii),
  t <> [] ->
  Gem.VersionFacts.small t ->
  x <> [] ->
  forallb Gem.VersionFacts.dl x = true ->
  exists v1 v2 : Gem.Version.ver,
    Gem.Version.parse (Gem.VersionFacts.dots t ++ "-"%char :: x) = Some v1 /\
    Gem.Version.parse (Gem.VersionFacts.dots t) = Some v2 /\ Gem.Version.cmp v1 v2 = Lt.
Proof. exact Gem.VersionFacts.c03_dash_marker_lt. Qed.
Print Assumptions C03_gem_dash_marker_lt.

Theorem C03_gem_dot_marker_lt :
  forall (t : list N) (w d : list ascii),
  t <> [] ->
  Gem.VersionFacts.small t ->
  w <> [] ->
  forallb is_letter w = true ->
  forallb is_digit d = true ->
  exists v1 v2 : Gem.Version.ver,
    Gem.Version.parse (Gem.VersionFacts.dots t ++ "."%char :: w ++ d) = Some v1 /\
    Gem.Version.parse (Gem.VersionFacts.dots t) = Some v2 /\ Gem.Version.cmp v1 v2 = Lt.
Proof. exact Gem.VersionFacts.c03_dot_marker_lt. Qed.
Print Assumptions C03_gem_dot_marker_lt.

(* gentoo *)

Theorem C03_gentoo_numeric_parse :
  forall t : list N,
  Gentoo.VersionFacts.tuple_ok t ->
  Gentoo.Version.parse_core (Gentoo.VersionFacts.num_text t) =
  Some (Gentoo.VersionFacts.plain (map Z.of_N t)).
Proof. exact Gentoo.VersionFacts.c03_numeric_parse. Qed.
Print Assumptions C03_gentoo_numeric_parse.

Theorem C03_gentoo_numeric_cmp :
  forall t1 t2 : list N,
  Datatypes.length t1 = Datatypes.length t2 ->
  Gentoo.Version.cmp_core (Gentoo.VersionFacts.plain (map Z.of_N t1))
    (Gentoo.VersionFacts.plain (map Z.of_N t2)) = lex_short N.compare t1 t2.
Proof. exact Gentoo.VersionFacts.c03_numeric_cmp. Qed.
Print Assumptions C03_gentoo_numeric_cmp.

Theorem C03_gentoo_numeric :
  forall t1 t2 : list N,
  Gentoo.VersionFacts.tuple_ok t1 ->
  Gentoo.VersionFacts.tuple_ok t2 ->
  Datatypes.length t1 = Datatypes.length t2 ->
  exists c1 c2 : Gentoo.Version.core,
    Gentoo.Version.parse_core (Gentoo.VersionFacts.num_text t1) = Some c1 /\
    Gentoo.Version.parse_core (Gentoo.VersionFacts.num_text t2) = Some c2 /\
    Gentoo.Version.cmp_core c1 c2 = lex_short N.compare t1 t2.
Proof. exact Gentoo.VersionFacts.c03_numeric. Qed.
Print Assumptions C03_gentoo_numeric.

Theorem C03_gentoo_pre_marker :
  forall (t : list N) (m : bytes) (k : option N),
  Gentoo.VersionFacts.tuple_ok t ->
  In m Gentoo.VersionFacts.pre_markers ->
  Gentoo.VersionFacts.opt_small k ->
  exists c c0 : Gentoo.Version.core,
    Gentoo.Version.parse_core
      (Gentoo.VersionFacts.num_text t ++
       $"_" ++ m ++ Gentoo.VersionFacts.opt_num k) = 
    Some c /\
    Gentoo.Version.parse_core (Gentoo.VersionFacts.num_text t) = Some c0 /\
    Gentoo.Version.cmp_core c c0 = Lt /\ Gentoo.Version.cmp_core c0 c = Gt.
Proof. exact Gentoo.VersionFacts.c03_pre_marker. Qed.
Print Assumptions C03_gentoo_pre_marker.

Theorem C03_gentoo_post_marker_p :
  forall (t : list N) (k : option N),
  Gentoo.VersionFacts.tuple_ok t ->
  Gentoo.VersionFacts.opt_small k ->
  exists c c0 : Gentoo.Version.core,
    Gentoo.Version.parse_core
      (Gentoo.VersionFacts.num_text t ++ $"_p" ++ Gentoo.VersionFacts.opt_num k) =
    Some c /\
    Gentoo.Version.parse_core (Gentoo.VersionFacts.num_text t) = Some c0 /\
    Gentoo.Version.cmp_core c c0 = Gt /\ Gentoo.Version.cmp_core c0 c = Lt.
Proof. exact Gentoo.VersionFacts.c03_post_marker_p. Qed.
Print Assumptions C03_gentoo_post_marker_p.

Theorem C03_gentoo_post_marker_rev :
  forall (t : list N) (k : N),
  Gentoo.VersionFacts.tuple_ok t ->
  (k < two63)%N ->
  exists c c0 : Gentoo.Version.core,
    Gentoo.Version.parse_core
      (Gentoo.VersionFacts.num_text t ++ $"-r" ++ dec k) = 
    Some c /\
    Gentoo.Version.parse_core (Gentoo.VersionFacts.num_text t) = Some c0 /\
    Gentoo.Version.cmp_core c c0 = (if (k =? 0)%N then Eq else Gt) /\
    Gentoo.Version.cmp_core c0 c = (if (k =? 0)%N then Eq else Lt).
Proof. exact Gentoo.VersionFacts.c03_post_marker_rev. Qed.
Print Assumptions C03_gentoo_post_marker_rev.

Theorem C03_gentoo_post_marker_letter :
  forall (t : list N) (x : ascii),
  Gentoo.VersionFacts.tuple_ok t ->
  is_letter x = true ->
  exists c c0 : Gentoo.Version.core,
    Gentoo.Version.parse_core (Gentoo.VersionFacts.num_text t ++ [x]) = Some c /\
    Gentoo.Version.parse_core (Gentoo.VersionFacts.num_text t) = Some c0 /\
    Gentoo.Version.cmp_core c c0 = Gt /\ Gentoo.Version.cmp_core c0 c = Lt.
Proof. exact Gentoo.VersionFacts.c03_post_marker_letter. Qed.
Print Assumptions C03_gentoo_post_marker_letter.

Theorem C03_gentoo_zero_padding :
  forall ns zs : list Z,
  Forall (fun z : Z => z = 0%Z) zs ->
  Gentoo.Version.cmp_core (Gentoo.VersionFacts.plain ns)
    (Gentoo.VersionFacts.plain (ns ++ zs)) = Eq.
Proof. exact Gentoo.VersionFacts.c03_zero_padding. Qed.
Print Assumptions C03_gentoo_zero_padding.

(* github *)

Theorem C03_github_numeric :
  forall a b c a' b' c' : N,
  (a < two63)%N ->
  (b < two63)%N ->
  (c < two63)%N ->
  (a' < two63)%N ->
  (b' < two63)%N ->
  (c' < two63)%N ->
  Github.VersionFacts.date_shaped a b c = false ->
  Github.VersionFacts.date_shaped a' b' c' = false ->
  exists x y : Github.Version.core,
    Github.Version.parse_core (join $"." (map dec [a; b; c])) = Some x /\
    Github.Version.parse_core (join $"." (map dec [a'; b'; c'])) =
    Some y /\ Github.Version.cmp_core x y = lex_short N.compare [a; b; c] [a'; b'; c'].
Proof. exact Github.VersionFacts.c03_numeric. Qed.
Print Assumptions C03_github_numeric.

Theorem C03_github_numeric_dates :
  forall (a b c a' b' c' : N) (x y : Github.Version.core),
  Github.VersionFacts.date_shaped a b c = true ->
  Github.VersionFacts.date_shaped a' b' c' = true ->
  Github.Version.parse_core (Github.VersionFacts.dotted3 a b c) = Some x ->
  Github.Version.parse_core (Github.VersionFacts.dotted3 a' b' c') = Some y ->
  Github.Version.cmp_core x y = lex_short N.compare [a; b; c] [a'; b'; c'].
Proof. exact Github.VersionFacts.c03_numeric_dates. Qed.
Print Assumptions C03_github_numeric_dates.

Theorem C03_github_prerelease :
  forall (a b c : N) (sep : ascii) (q : list ascii) (dot : bool) (n : option N),
  (a < two63)%N ->
  (b < two63)%N ->
  (c < two63)%N ->
  Github.VersionFacts.date_shaped a b c = false ->
  Github.VersionFacts.is_sep sep = true ->
  q <> [] ->
  forallb is_letter q = true ->
  match n with
  | Some k => (k < two63)%N
  | None => True
  end ->
  exists x y : Github.Version.core,
    Github.Version.parse_core (Github.VersionFacts.dotted3 a b c ++ Github.VersionFacts.qtail sep q dot n) =
    Some x /\
    Github.Version.parse_core (Github.VersionFacts.dotted3 a b c) = Some y /\
    Github.Version.cmp_core x y = Lt.
Proof. exact Github.VersionFacts.c03_prerelease. Qed.
Print Assumptions C03_github_prerelease.

(* golang *)

Theorem C03_golang_release_parses :
  forall a b c : N,
  (a < two63)%N ->
  (b < two63)%N ->
  (c < two63)%N ->
  Golang.Version.parse_core (Golang.VersionFacts.dots3 a b c) =
  Some (Golang.VersionFacts.mk a b c []) /\
  Golang.Version.parse_core ("v"%char :: Golang.VersionFacts.dots3 a b c) =
  Some (Golang.VersionFacts.mk a b c []).
Proof. exact Golang.VersionFacts.c03_release_parses. Qed.
Print Assumptions C03_golang_release_parses.

Theorem C03_golang_tuples :
  forall t1 t2 : list N,
  Datatypes.length t1 = 3 ->
  Datatypes.length t2 = 3 ->
  Forall (fun x : N => (x < 2 ^ 31)%N) t1 ->
  Forall (fun x : N => (x < 2 ^ 31)%N) t2 ->
  exists v1 v2 : Golang.Version.core,
    Golang.Version.parse_core (join $"." (map dec t1)) = Some v1 /\
    Golang.Version.parse_core (join $"." (map dec t2)) = Some v2 /\
    Golang.Version.cmp_core v1 v2 = lex_short N.compare t1 t2.
Proof. exact Golang.VersionFacts.c03_tuples. Qed.
Print Assumptions C03_golang_tuples.

Theorem C03_golang_tuples_int64 :
  forall a b c a' b' c' : N,
  (a < two63)%N ->
  (b < two63)%N ->
  (c < two63)%N ->
  (a' < two63)%N ->
  (b' < two63)%N ->
  (c' < two63)%N ->
  exists v1 v2 : Golang.Version.core,
    Golang.Version.parse_core ("v"%char :: Golang.VersionFacts.dots3 a b c) = Some v1 /\
    Golang.Version.parse_core ("v"%char :: Golang.VersionFacts.dots3 a' b' c') = Some v2 /\
    Golang.Version.cmp_core v1 v2 = lex_short N.compare [a; b; c] [a'; b'; c'].
Proof. exact Golang.VersionFacts.c03_tuples_int64. Qed.
Print Assumptions C03_golang_tuples_int64.

Theorem C03_golang_arity :
  forall t : list N,
  Datatypes.length t <> 3 ->
  Golang.Version.parse_core (join $"." (map dec t)) = None.
Proof. exact Golang.VersionFacts.c03_arity. Qed.
Print Assumptions C03_golang_arity.

Theorem C03_golang_prerelease_lt :
  forall (a b c : N) (p : bytes),
  (a < two63)%N ->
  (b < two63)%N ->
  (c < two63)%N ->
  Golang.Version.idents_ok p = true ->
  exists v1 v2 : Golang.Version.core,
    Golang.Version.parse_core ("v"%char :: Golang.VersionFacts.dots3 a b c ++ "-"%char :: p) =
    Some v1 /\
    Golang.Version.parse_core ("v"%char :: Golang.VersionFacts.dots3 a b c) = Some v2 /\
    Golang.Version.cmp_core v1 v2 = Lt /\ Golang.Version.cmp_core v2 v1 = Gt.
Proof. exact Golang.VersionFacts.c03_prerelease_lt. Qed.
Print Assumptions C03_golang_prerelease_lt.

Theorem C03_golang_build_eq :
  forall (a b c : N) (bld : bytes),
  (a < two63)%N ->
  (b < two63)%N ->
  (c < two63)%N ->
  Golang.Version.idents_ok bld = true ->
  exists v1 v2 : Golang.Version.core,
    Golang.Version.parse_core ("v"%char :: Golang.VersionFacts.dots3 a b c ++ "+"%char :: bld) =
    Some v1 /\
    Golang.Version.parse_core ("v"%char :: Golang.VersionFacts.dots3 a b c) = Some v2 /\
    Golang.Version.cmp_core v1 v2 = Eq.
Proof. exact Golang.VersionFacts.c03_build_eq. Qed.
Print Assumptions C03_golang_build_eq.

(* hex *)

Theorem C03_hex_numeric3 :
  forall a b c a' b' c' : N,
  (a < two63)%N ->
  (b < two63)%N ->
  (c < two63)%N ->
  (a' < two63)%N ->
  (b' < two63)%N ->
  (c' < two63)%N ->
  exists x y : Hex.Version.core,
    Hex.Version.parse_core (Hex.VersionFacts.ver3 a b c) = Some x /\
    Hex.Version.parse_core (Hex.VersionFacts.ver3 a' b' c') = Some y /\
    Hex.Version.cmp_core x y = lex_short N.compare [a; b; c] [a'; b'; c'].
Proof. exact Hex.VersionFacts.c03_numeric3. Qed.
Print Assumptions C03_hex_numeric3.

Theorem C03_hex_numeric2 :
  forall a b a' b' : N,
  (a < two63)%N ->
  (b < two63)%N ->
  (a' < two63)%N ->
  (b' < two63)%N ->
  exists x y : Hex.Version.core,
    Hex.Version.parse_core (Hex.VersionFacts.ver2 a b) = Some x /\
    Hex.Version.parse_core (Hex.VersionFacts.ver2 a' b') = Some y /\
    Hex.Version.cmp_core x y = lex_short N.compare [a; b] [a'; b'].
Proof. exact Hex.VersionFacts.c03_numeric2. Qed.
Print Assumptions C03_hex_numeric2.

Theorem C03_hex_prerelease_lt :
  forall (a b c : N) (p : bytes),
  (a < two63)%N ->
  (b < two63)%N ->
  (c < two63)%N ->
  Hex.VersionFacts.valid_pre p = true ->
  exists x y : Hex.Version.core,
    Hex.Version.parse_core (Hex.VersionFacts.ver3 a b c ++ "-"%char :: p) = Some x /\
    Hex.Version.parse_core (Hex.VersionFacts.ver3 a b c) = Some y /\ Hex.Version.cmp_core x y = Lt.
Proof. exact Hex.VersionFacts.c03_prerelease_lt. Qed.
Print Assumptions C03_hex_prerelease_lt.

Theorem C03_hex_build_ignored :
  forall (a b c : N) (bm : bytes),
  (a < two63)%N ->
  (b < two63)%N ->
  (c < two63)%N ->
  Hex.VersionFacts.valid_build bm = true ->
  exists x y : Hex.Version.core,
    Hex.Version.parse_core (Hex.VersionFacts.ver3 a b c ++ "+"%char :: bm) = Some x /\
    Hex.Version.parse_core (Hex.VersionFacts.ver3 a b c) = Some y /\ Hex.Version.cmp_core x y = Eq.
Proof. exact Hex.VersionFacts.c03_build_ignored. Qed.
Print Assumptions C03_hex_build_ignored.

(* mattermost *)

Theorem C03_mattermost_numeric :
  forall (p1 p2 : bytes) (t1 t2 : list N),
  Mattermost.VersionFacts.pfx_ok p1 ->
  Mattermost.VersionFacts.pfx_ok p2 ->
  Datatypes.length t1 = 3 ->
  Datatypes.length t2 = 3 ->
  Forall (fun x : N => (x < two63)%N) t1 ->
  Forall (fun x : N => (x < two63)%N) t2 ->
  exists c1 c2 : Mattermost.Version.core,
    Mattermost.Version.parse_core (p1 ++ join $"." (map dec t1)) =
    Some c1 /\
    Mattermost.Version.parse_core (p2 ++ join $"." (map dec t2)) =
    Some c2 /\ Mattermost.Version.cmp_core c1 c2 = lex_short N.compare t1 t2.
Proof. exact Mattermost.VersionFacts.c03_numeric. Qed.
Print Assumptions C03_mattermost_numeric.

Theorem C03_mattermost_prerelease :
  forall (p : bytes) (a b c : N) (q : bytes) (d : list ascii),
  Mattermost.VersionFacts.pfx_ok p ->
  (a < two63)%N ->
  (b < two63)%N ->
  (c < two63)%N ->
  Mattermost.VersionFacts.marker q ->
  forallb is_digit d = true ->
  (digits_val d < two63)%N ->
  exists k : Mattermost.Version.core,
    Mattermost.Version.parse_core (p ++ Mattermost.VersionFacts.num3 a b c ++ "-"%char :: q ++ d) =
    Some k /\
    Mattermost.Version.major k = Z.of_N a /\
    Mattermost.Version.minor k = Z.of_N b /\
    Mattermost.Version.patch k = Z.of_N c /\
    Mattermost.Version.qualifier k = q /\
    Mattermost.Version.number k = match d with
                       | [] => 0%Z
                       | _ :: _ => Z.of_N (digits_val d)
                       end /\
    Mattermost.Version.cmp_core k (Mattermost.VersionFacts.release p a b c) = Lt /\
    Mattermost.Version.cmp_core (Mattermost.VersionFacts.release p a b c) k = Gt.
Proof. exact Mattermost.VersionFacts.c03_prerelease. Qed.
Print Assumptions C03_mattermost_prerelease.

(* maven *)

Theorem C03_maven_numeric :
  forall (ds1 ds2 : list bytes) (c1 c2 : Maven.Version.core),
  ds1 <> [] ->
  ds2 <> [] ->
  Forall Maven.VersionFacts.digit_token ds1 ->
  Forall Maven.VersionFacts.digit_token ds2 ->
  Datatypes.length ds1 = Datatypes.length ds2 ->
  Maven.Version.parse_core (join $"." ds1) = Some c1 ->
  Maven.Version.parse_core (join $"." ds2) = Some c2 ->
  Maven.Version.cmp_core c1 c2 = lex_short N.compare (map digits_val ds1) (map digits_val ds2).
Proof. exact Maven.VersionFacts.c03_numeric. Qed.
Print Assumptions C03_maven_numeric.

Theorem C03_maven_numeric_dec :
  forall t1 t2 : list N,
  t1 <> [] ->
  Datatypes.length t1 = Datatypes.length t2 ->
  Forall (fun n : N => (n < two63)%N) t1 ->
  Forall (fun n : N => (n < two63)%N) t2 ->
  exists c1 c2 : Maven.Version.core,
    Maven.Version.parse_core (join $"." (map dec t1)) = Some c1 /\
    Maven.Version.parse_core (join $"." (map dec t2)) = Some c2 /\
    Maven.Version.cmp_core c1 c2 = lex_short N.compare t1 t2.
Proof. exact Maven.VersionFacts.c03_numeric_dec. Qed.
Print Assumptions C03_maven_numeric_dec.

Theorem C03_maven_pre :
  forall (ds : list bytes) (q : bytes) (cq c : Maven.Version.core),
  ds <> [] ->
  Forall Maven.VersionFacts.digit_token ds ->
  In q Maven.VersionFacts.pre_markers ->
  Maven.Version.parse_core
    (join $"." ds ++ $"-" ++ q) = 
  Some cq ->
  Maven.Version.parse_core (join $"." ds) = Some c ->
  Maven.Version.cmp_core cq c = Lt.
Proof. exact Maven.VersionFacts.c03_pre. Qed.
Print Assumptions C03_maven_pre.

Theorem C03_maven_post :
  forall (ds : list bytes) (q : bytes) (cq c : Maven.Version.core),
  ds <> [] ->
  Forall Maven.VersionFacts.digit_token ds ->
  In q Maven.VersionFacts.post_markers ->
  Maven.Version.parse_core
    (join $"." ds ++ $"-" ++ q) = 
  Some cq ->
  Maven.Version.parse_core (join $"." ds) = Some c ->
  Maven.Version.cmp_core cq c = Gt.
Proof. exact Maven.VersionFacts.c03_post. Qed.
Print Assumptions C03_maven_post.

Theorem C03_maven_release_alias :
  forall (ds : list bytes) (q : list ascii) (cq c : Maven.Version.core),
  ds <> [] ->
  Forall Maven.VersionFacts.digit_token ds ->
  In q
    [$"ga"; $"final"; $"release";
     $"GA"; $"Final"; $"RELEASE"] ->
  Maven.Version.parse_core
    (join $"." ds ++ $"-" ++ q) = 
  Some cq -> Maven.Version.parse_core (join $"." ds) = Some c -> cq = c.
Proof. exact Maven.VersionFacts.c03_release_alias. Qed.
Print Assumptions C03_maven_release_alias.

(* npm *)

Theorem C03_npm_parse_core_triple :
  forall a b c : N,
  (a < two63)%N ->
  (b < two63)%N ->
  (c < two63)%N ->
  Npm.Version.parse_core (Npm.VersionFacts.triple_text a b c) =
  Some
    {|
      Npm.Version.major := Z.of_N a;
      Npm.Version.minor := Z.of_N b;
      Npm.Version.patch := Z.of_N c;
      Npm.Version.prerelease := [];
      Npm.Version.build := []
    |}.
Proof. exact Npm.VersionFacts.parse_core_triple. Qed.
Print Assumptions C03_npm_parse_core_triple.

Theorem C03_npm_cmp_core_triple :
  forall (a b c a' b' c' : N) (x y : Npm.Version.core),
  (a < two63)%N ->
  (b < two63)%N ->
  (c < two63)%N ->
  (a' < two63)%N ->
  (b' < two63)%N ->
  (c' < two63)%N ->
  Npm.Version.parse_core (Npm.VersionFacts.triple_text a b c) = Some x ->
  Npm.Version.parse_core (Npm.VersionFacts.triple_text a' b' c') = Some y ->
  Npm.Version.cmp_core x y = lex_short N.compare [a; b; c] [a'; b'; c'].
Proof. exact Npm.VersionFacts.cmp_core_triple. Qed.
Print Assumptions C03_npm_cmp_core_triple.

Theorem C03_npm_prerelease_marker_lt :
  forall (a b c : N) (p : bytes),
  (a < two63)%N ->
  (b < two63)%N ->
  (c < two63)%N ->
  Npm.Version.ident_list_ok p = true ->
  exists x y : Npm.Version.core,
    Npm.Version.parse_core (Npm.VersionFacts.triple_text a b c ++ "-"%char :: p) = Some x /\
    Npm.Version.parse_core (Npm.VersionFacts.triple_text a b c) = Some y /\
    Npm.Version.cmp_core x y = Lt.
Proof. exact Npm.VersionFacts.prerelease_marker_lt. Qed.
Print Assumptions C03_npm_prerelease_marker_lt.

Theorem C03_npm_build_marker_eq :
  forall (a b c : N) (bl : bytes),
  (a < two63)%N ->
  (b < two63)%N ->
  (c < two63)%N ->
  Npm.Version.ident_list_ok bl = true ->
  exists x y : Npm.Version.core,
    Npm.Version.parse_core (Npm.VersionFacts.triple_text a b c ++ "+"%char :: bl) = Some x /\
    Npm.Version.parse_core (Npm.VersionFacts.triple_text a b c) = Some y /\
    Npm.Version.cmp_core x y = Eq.
Proof. exact Npm.VersionFacts.build_marker_eq. Qed.
Print Assumptions C03_npm_build_marker_eq.

(* nuget *)

Theorem C03_nuget_numeric :
  forall t1 t2 : list N,
  Datatypes.length t1 = Datatypes.length t2 ->
  1 <= Datatypes.length t1 <= 4 ->
  Forall (fun n : N => (n < two63)%N) t1 ->
  Forall (fun n : N => (n < two63)%N) t2 ->
  exists c1 c2 : Nuget.Version.core,
    Nuget.Version.parse_core (Nuget.VersionFacts.dots t1) = Some c1 /\
    Nuget.Version.parse_core (Nuget.VersionFacts.dots t2) = Some c2 /\
    Nuget.Version.cmp_core c1 c2 = lex_short N.compare t1 t2.
Proof. exact Nuget.VersionFacts.c03_numeric. Qed.
Print Assumptions C03_nuget_numeric.

Theorem C03_nuget_prerelease :
  forall (t : list N) (pre : bytes),
  1 <= Datatypes.length t <= 4 ->
  Forall (fun n : N => (n < two63)%N) t ->
  Nuget.Version.ident_list_ok pre = true ->
  exists c1 c2 : Nuget.Version.core,
    Nuget.Version.parse_core (Nuget.VersionFacts.dots t ++ "-"%char :: pre) = Some c1 /\
    Nuget.Version.parse_core (Nuget.VersionFacts.dots t) = Some c2 /\
    Nuget.Version.cmp_core c1 c2 = Lt /\ Nuget.Version.cmp_core c2 c1 = Gt.
Proof. exact Nuget.VersionFacts.c03_prerelease. Qed.
Print Assumptions C03_nuget_prerelease.

Theorem C03_nuget_build :
  forall (t : list N) (b : bytes),
  1 <= Datatypes.length t <= 4 ->
  Forall (fun n : N => (n < two63)%N) t ->
  Nuget.Version.ident_list_ok b = true ->
  exists c1 c2 : Nuget.Version.core,
    Nuget.Version.parse_core (Nuget.VersionFacts.dots t ++ "+"%char :: b) = Some c1 /\
    Nuget.Version.parse_core (Nuget.VersionFacts.dots t) = Some c2 /\
    Nuget.Version.cmp_core c1 c2 = Eq.
Proof. exact Nuget.VersionFacts.c03_build. Qed.
Print Assumptions C03_nuget_build.

Theorem C03_nuget_pre_build :
  forall (t : list N) (pre b : bytes),
  1 <= Datatypes.length t <= 4 ->
  Forall (fun n : N => (n < two63)%N) t ->
  Nuget.Version.ident_list_ok pre = true ->
  Nuget.Version.ident_list_ok b = true ->
  exists c1 c2 : Nuget.Version.core,
    Nuget.Version.parse_core (Nuget.VersionFacts.dots t ++ "-"%char :: pre ++ "+"%char :: b) =
    Some c1 /\
    Nuget.Version.parse_core (Nuget.VersionFacts.dots t ++ "-"%char :: pre) = Some c2 /\
    Nuget.Version.cmp_core c1 c2 = Eq.
Proof. exact Nuget.VersionFacts.c03_pre_build. Qed.
Print Assumptions C03_nuget_pre_build.

(* pypi *)

Theorem C03_pypi_parse_core_release :
  forall t : list N,
  Pypi.VersionFacts.nums_ok t ->
  Pypi.Version.parse_core (Pypi.VersionFacts.dotted t) = Some (Pypi.VersionFacts.release_core t).
Proof. exact Pypi.VersionFacts.parse_core_release. Qed.
Print Assumptions C03_pypi_parse_core_release.

Theorem C03_pypi_cmp_release :
  forall t1 t2 : list N,
  Pypi.Version.cmp_core (Pypi.VersionFacts.release_core t1) (Pypi.VersionFacts.release_core t2) =
  lex_pad 0%N N.compare t1 t2.
Proof. exact Pypi.VersionFacts.cmp_release. Qed.
Print Assumptions C03_pypi_cmp_release.

Theorem C03_pypi_cmp_release_same_arity :
  forall t1 t2 : list N,
  Datatypes.length t1 = Datatypes.length t2 ->
  Pypi.Version.cmp_core (Pypi.VersionFacts.release_core t1) (Pypi.VersionFacts.release_core t2) =
  lex_short N.compare t1 t2.
Proof. exact Pypi.VersionFacts.cmp_release_same_arity. Qed.
Print Assumptions C03_pypi_cmp_release_same_arity.

Theorem C03_pypi_cmp_dotted :
  forall (t1 t2 : list N) (c1 c2 : Pypi.Version.core),
  Pypi.VersionFacts.nums_ok t1 ->
  Pypi.VersionFacts.nums_ok t2 ->
  Datatypes.length t1 = Datatypes.length t2 ->
  Pypi.Version.parse_core (Pypi.VersionFacts.dotted t1) = Some c1 ->
  Pypi.Version.parse_core (Pypi.VersionFacts.dotted t2) = Some c2 ->
  Pypi.Version.cmp_core c1 c2 = lex_short N.compare t1 t2.
Proof. exact Pypi.VersionFacts.cmp_dotted. Qed.
Print Assumptions C03_pypi_cmp_dotted.

Theorem C03_pypi_parse_core_epoch :
  forall (e : N) (t : list N),
  (e < two63)%N ->
  Pypi.VersionFacts.nums_ok t ->
  Pypi.Version.parse_core (dec e ++ $"!" ++ Pypi.VersionFacts.dotted t) =
  Some (Pypi.VersionFacts.epoch_core e t).
Proof. exact Pypi.VersionFacts.parse_core_epoch. Qed.
Print Assumptions C03_pypi_parse_core_epoch.

Theorem C03_pypi_cmp_epoch :
  forall (e1 : N) (t1 : list N) (e2 : N) (t2 : list N),
  e1 <> e2 ->
  Pypi.Version.cmp_core (Pypi.VersionFacts.epoch_core e1 t1) (Pypi.VersionFacts.epoch_core e2 t2) =
  (e1 ?= e2)%N.
Proof. exact Pypi.VersionFacts.cmp_epoch. Qed.
Print Assumptions C03_pypi_cmp_epoch.

Theorem C03_pypi_parse_pre :
  forall (t : list N) (sep m : bytes) (n : N),
  Pypi.VersionFacts.nums_ok t ->
  Pypi.VersionFacts.is_sep sep ->
  mem m Pypi.Version.pre_markers = true ->
  (n < two63)%N ->
  Pypi.Version.parse_core (Pypi.VersionFacts.marked t sep m n) = Some (Pypi.VersionFacts.with_pre t m n).
Proof. exact Pypi.VersionFacts.parse_pre. Qed.
Print Assumptions C03_pypi_parse_pre.

Theorem C03_pypi_parse_post :
  forall (t : list N) (sep m : bytes) (n : N),
  Pypi.VersionFacts.nums_ok t ->
  Pypi.VersionFacts.is_sep sep ->
  mem m Pypi.Version.post_markers = true ->
  (n < two63)%N ->
  Pypi.Version.parse_core (Pypi.VersionFacts.marked t sep m n) = Some (Pypi.VersionFacts.with_post t n).
Proof. exact Pypi.VersionFacts.parse_post. Qed.
Print Assumptions C03_pypi_parse_post.

Theorem C03_pypi_parse_dev :
  forall (t : list N) (sep : bytes) (n : N),
  Pypi.VersionFacts.nums_ok t ->
  Pypi.VersionFacts.is_sep sep ->
  (n < two63)%N ->
  Pypi.Version.parse_core (Pypi.VersionFacts.marked t sep $"dev" n) =
  Some (Pypi.VersionFacts.with_dev t n).
Proof. exact Pypi.VersionFacts.parse_dev. Qed.
Print Assumptions C03_pypi_parse_dev.

Theorem C03_pypi_pre_lt_release :
  forall (t : list N) (m : bytes) (n : N),
  Pypi.Version.cmp_core (Pypi.VersionFacts.with_pre t m n) (Pypi.VersionFacts.release_core t) = Lt.
Proof. exact Pypi.VersionFacts.pre_lt_release. Qed.
Print Assumptions C03_pypi_pre_lt_release.

Theorem C03_pypi_post_gt_release :
  forall (t : list N) (n : N),
  Pypi.Version.cmp_core (Pypi.VersionFacts.with_post t n) (Pypi.VersionFacts.release_core t) = Gt.
Proof. exact Pypi.VersionFacts.post_gt_release. Qed.
Print Assumptions C03_pypi_post_gt_release.

Theorem C03_pypi_dev_lt_release :
  forall (t : list N) (n : N),
  Pypi.Version.cmp_core (Pypi.VersionFacts.with_dev t n) (Pypi.VersionFacts.release_core t) = Lt.
Proof. exact Pypi.VersionFacts.dev_lt_release. Qed.
Print Assumptions C03_pypi_dev_lt_release.

Theorem C03_pypi_dev_lt_pre :
  forall (t : list N) (n : N) (m : bytes) (k : N),
  Pypi.Version.cmp_core (Pypi.VersionFacts.with_dev t n) (Pypi.VersionFacts.with_pre t m k) = Lt.
Proof. exact Pypi.VersionFacts.dev_lt_pre. Qed.
Print Assumptions C03_pypi_dev_lt_pre.

Theorem C03_pypi_local_ignored :
  forall (c : Pypi.Version.core) (l : bytes),
  Pypi.Version.cmp_core
    {|
      Pypi.Version.c_epoch := Pypi.Version.c_epoch c;
      Pypi.Version.c_release := Pypi.Version.c_release c;
      Pypi.Version.c_pre := Pypi.Version.c_pre c;
      Pypi.Version.c_post := Pypi.Version.c_post c;
      Pypi.Version.c_dev := Pypi.Version.c_dev c;
      Pypi.Version.c_local := l
    |} c = Eq.
Proof. exact Pypi.VersionFacts.local_ignored. Qed.
Print Assumptions C03_pypi_local_ignored.

(* rpm *)

Theorem C03_rpm_numeric :
  forall t1 t2 : list N,
  t1 <> [] ->
  t2 <> [] ->
  exists c1 c2 : Rpm.Version.core,
    Rpm.Version.parse_core (Rpm.VersionFacts.numstr t1) = Some c1 /\
    Rpm.Version.parse_core (Rpm.VersionFacts.numstr t2) = Some c2 /\
    Rpm.Version.cmp_core c1 c2 = lex_short N.compare t1 t2.
Proof. exact Rpm.VersionFacts.c03_numeric. Qed.
Print Assumptions C03_rpm_numeric.

Theorem C03_rpm_tilde_pre :
  forall (t : list N) (x : bytes),
  t <> [] ->
  Rpm.Version.valid_str x = true ->
  contains_c "-" x = false ->
  exists c c' : Rpm.Version.core,
    Rpm.Version.parse_core (Rpm.VersionFacts.numstr t) = Some c /\
    Rpm.Version.parse_core (Rpm.VersionFacts.numstr t ++ "~"%char :: x) = Some c' /\
    Rpm.Version.cmp_core c' c = Lt.
Proof. exact Rpm.VersionFacts.c03_tilde_pre. Qed.
Print Assumptions C03_rpm_tilde_pre.

Theorem C03_rpm_post :
  forall (t : list N) (pre : list ascii) (c : ascii) (x : bytes),
  t <> [] ->
  forallb Rpm.VersionFacts.is_sep_nh pre = true ->
  is_alnum c = true ->
  pre <> [] \/ is_letter c = true ->
  Rpm.Version.valid_str x = true ->
  contains_c "-" x = false ->
  exists v v' : Rpm.Version.core,
    Rpm.Version.parse_core (Rpm.VersionFacts.numstr t) = Some v /\
    Rpm.Version.parse_core (Rpm.VersionFacts.numstr t ++ pre ++ c :: x) = Some v' /\
    Rpm.Version.cmp_core v' v = Gt.
Proof. exact Rpm.VersionFacts.c03_post. Qed.
Print Assumptions C03_rpm_post.

Theorem C03_rpm_release :
  forall (t : list N) (c : ascii) (x : bytes),
  t <> [] ->
  is_alnum c = true ->
  Rpm.Version.valid_str x = true ->
  contains_c "-" x = false ->
  exists v v' : Rpm.Version.core,
    Rpm.Version.parse_core (Rpm.VersionFacts.numstr t) = Some v /\
    Rpm.Version.parse_core (Rpm.VersionFacts.numstr t ++ "-"%char :: c :: x) = Some v' /\
    Rpm.Version.cmp_core v' v = Gt.
Proof. exact Rpm.VersionFacts.c03_release. Qed.
Print Assumptions C03_rpm_release.

Theorem C03_rpm_epoch :
  forall (e1 e2 : N) (s1 s2 : bytes),
  (e1 < two63)%N ->
  (e2 < two63)%N ->
  Rpm.VersionFacts.plain s1 ->
  Rpm.VersionFacts.plain s2 ->
  e1 <> e2 ->
  exists v1 v2 : Rpm.Version.core,
    Rpm.Version.parse_core (dec e1 ++ ":"%char :: s1) = Some v1 /\
    Rpm.Version.parse_core (dec e2 ++ ":"%char :: s2) = Some v2 /\
    Rpm.Version.cmp_core v1 v2 = (e1 ?= e2)%N.
Proof. exact Rpm.VersionFacts.c03_epoch. Qed.
Print Assumptions C03_rpm_epoch.

Theorem C03_rpm_epoch_default :
  forall s : bytes,
  Rpm.VersionFacts.plain s ->
  exists v1 v2 : Rpm.Version.core,
    Rpm.Version.parse_core s = Some v1 /\
    Rpm.Version.parse_core ($"0:" ++ s) = Some v2 /\
    Rpm.Version.cmp_core v1 v2 = Eq /\ Rpm.Version.cmp_core v2 v1 = Eq.
Proof. exact Rpm.VersionFacts.c03_epoch_default. Qed.
Print Assumptions C03_rpm_epoch_default.

(* semver *)

Theorem C03_semver_numeric :
  forall t1 t2 : list N,
  Datatypes.length t1 = 3 ->
  Datatypes.length t2 = 3 ->
  Forall (fun n : N => (n < two63)%N) t1 ->
  Forall (fun n : N => (n < two63)%N) t2 ->
  exists c1 c2 : Semver.Version.core,
    Semver.Version.parse_core (join $"." (map dec t1)) = Some c1 /\
    Semver.Version.parse_core (join $"." (map dec t2)) = Some c2 /\
    Semver.Version.cmp_core c1 c2 = lex_short N.compare t1 t2.
Proof. exact Semver.VersionFacts.c03_numeric. Qed.
Print Assumptions C03_semver_numeric.

Theorem C03_semver_numeric_31 :
  forall t1 t2 : list N,
  Datatypes.length t1 = 3 ->
  Datatypes.length t2 = 3 ->
  Forall (fun n : N => (n < 2 ^ 31)%N) t1 ->
  Forall (fun n : N => (n < 2 ^ 31)%N) t2 ->
  exists c1 c2 : Semver.Version.core,
    Semver.Version.parse_core (join $"." (map dec t1)) = Some c1 /\
    Semver.Version.parse_core (join $"." (map dec t2)) = Some c2 /\
    Semver.Version.cmp_core c1 c2 = lex_short N.compare t1 t2.
Proof. exact Semver.VersionFacts.c03_numeric_31. Qed.
Print Assumptions C03_semver_numeric_31.

Theorem C03_semver_prerelease_lt :
  forall (a b c : N) (p : bytes) (bld1 bld2 : option bytes),
  (a < two63)%N ->
  (b < two63)%N ->
  (c < two63)%N ->
  Semver.VersionFacts.pre_valid p = true ->
  Semver.VersionFacts.opt_valid Semver.VersionFacts.build_valid bld1 = true ->
  Semver.VersionFacts.opt_valid Semver.VersionFacts.build_valid bld2 = true ->
  exists x y : Semver.Version.core,
    Semver.Version.parse_core
      (Semver.VersionFacts.triple a b c ++ "-"%char :: p ++ Semver.VersionFacts.opt_text "+" bld1) = 
    Some x /\
    Semver.Version.parse_core (Semver.VersionFacts.triple a b c ++ Semver.VersionFacts.opt_text "+" bld2) = Some y /\
    Semver.Version.cmp_core x y = Lt /\ Semver.Version.cmp_core y x = Gt.
Proof. exact Semver.VersionFacts.c03_prerelease_lt. Qed.
Print Assumptions C03_semver_prerelease_lt.

Theorem C03_semver_build_ignored :
  forall (a b c : N) (pre bld1 bld2 : option bytes),
  (a < two63)%N ->
  (b < two63)%N ->
  (c < two63)%N ->
  Semver.VersionFacts.opt_valid Semver.VersionFacts.pre_valid pre = true ->
  Semver.VersionFacts.opt_valid Semver.VersionFacts.build_valid bld1 = true ->
  Semver.VersionFacts.opt_valid Semver.VersionFacts.build_valid bld2 = true ->
  exists x y : Semver.Version.core,
    Semver.Version.parse_core
      (Semver.VersionFacts.triple a b c ++
       Semver.VersionFacts.opt_text "-" pre ++ Semver.VersionFacts.opt_text "+" bld1) = 
    Some x /\
    Semver.Version.parse_core
      (Semver.VersionFacts.triple a b c ++
       Semver.VersionFacts.opt_text "-" pre ++ Semver.VersionFacts.opt_text "+" bld2) = 
    Some y /\ Semver.Version.cmp_core x y = Eq.
Proof. exact Semver.VersionFacts.c03_build_ignored. Qed.
Print Assumptions C03_semver_build_ignored.

(* TODO, not proved: nothing for the 20 ecosystems.  Not every accepted spelling of a
   marker is covered for every ecosystem (e.g. apache and mattermost: the "-" separator only;
   github: upper-case qualifiers), the lemmas cover the spellings listed in the header. *)

(* ====== ties to the source: BEGIN (written by bin/mkties) ====== *)
(* The Go functions named here are translated into Gallina from /repo's source on every run
   (tools/gen -> Gen/Code/<Eco>.v for loop-free functions, Gen/Loops/<Eco>.v for functions with
   loops and index expressions, where a panic is Panic and a loop takes fuel); Tie/<Eco>.v,
   Tie/<Eco>Range.v and Tie/Loops/<Eco>.v prove each translation equal to the model the theorems
   above speak about (and, for the loop functions: no panic, termination within a linear bound).
   If the code changes so that a tie no longer holds, this file no longer checks. *)
Require Verif.Tie.Alpine.
Require Verif.Tie.Alpm.
Require Verif.Tie.Apache.
Require Verif.Tie.Cargo.
Require Verif.Tie.Composer.
Require Verif.Tie.Conan.
Require Verif.Tie.Cran.
Require Verif.Tie.Debian.
Require Verif.Tie.Gem.
Require Verif.Tie.Gentoo.
Require Verif.Tie.Github.
Require Verif.Tie.Golang.
Require Verif.Tie.Hex.
Require Verif.Tie.Mattermost.
Require Verif.Tie.Npm.
Require Verif.Tie.Nuget.
Require Verif.Tie.Pypi.
Require Verif.Tie.Rpm.
Require Verif.Tie.Semver.
Definition C03_tie_alpine_compareInt := @Verif.Tie.Alpine.tie_alpine_compareInt.
Definition C03_tie_alpine_compareLetters := @Verif.Tie.Alpine.tie_alpine_compareLetters.
Definition C03_tie_alpm_compare := @Verif.Tie.Alpm.tie_alpm_compare.
Definition C03_tie_apache_compareInt := @Verif.Tie.Apache.tie_apache_compareInt.
Definition C03_tie_apache_getQualifierPrecedence := @Verif.Tie.Apache.tie_apache_getQualifierPrecedence.
Definition C03_tie_apache_compare := @Verif.Tie.Apache.tie_apache_compare.
Definition C03_tie_cargo_compareInt := @Verif.Tie.Cargo.tie_cargo_compareInt.
Definition C03_tie_cargo_compare := @Verif.Tie.Cargo.tie_cargo_compare.
Definition C03_tie_composer_compareInt := @Verif.Tie.Composer.tie_composer_compareInt.
Definition C03_tie_composer_compare := @Verif.Tie.Composer.tie_composer_compare.
Definition C03_tie_conan_compareInt := @Verif.Tie.Conan.tie_conan_compareInt.
Definition C03_tie_conan_Version_Compare := @Verif.Tie.Conan.tie_conan_Version_Compare.
Definition C03_tie_cran_compareInt := @Verif.Tie.Cran.tie_cran_compareInt.
Definition C03_tie_debian_compare := @Verif.Tie.Debian.tie_debian_compare.
Definition C03_tie_gem_compareInt := @Verif.Tie.Gem.tie_gem_compareInt.
Definition C03_tie_gem_compareSegments := @Verif.Tie.Gem.tie_gem_compareSegments.
Definition C03_tie_gentoo_compareInt := @Verif.Tie.Gentoo.tie_gentoo_compareInt.
Definition C03_tie_github_compareInt := @Verif.Tie.Github.tie_github_compareInt.
Definition C03_tie_github_getQualifierPrecedence := @Verif.Tie.Github.tie_github_getQualifierPrecedence.
Definition C03_tie_github_compareQualifiers := @Verif.Tie.Github.tie_github_compareQualifiers.
Definition C03_tie_github_compare := @Verif.Tie.Github.tie_github_compare.
Definition C03_tie_golang_compareInt := @Verif.Tie.Golang.tie_golang_compareInt.
Definition C03_tie_golang_Version_Compare := @Verif.Tie.Golang.tie_golang_Version_Compare.
Definition C03_tie_hex_compareInt := @Verif.Tie.Hex.tie_hex_compareInt.
Definition C03_tie_hex_compare := @Verif.Tie.Hex.tie_hex_compare.
Definition C03_tie_mattermost_compareInt := @Verif.Tie.Mattermost.tie_mattermost_compareInt.
Definition C03_tie_mattermost_getQualifierPrecedence := @Verif.Tie.Mattermost.tie_mattermost_getQualifierPrecedence.
Definition C03_tie_mattermost_compare := @Verif.Tie.Mattermost.tie_mattermost_compare.
Definition C03_tie_npm_compareInt := @Verif.Tie.Npm.tie_npm_compareInt.
Definition C03_tie_npm_compare := @Verif.Tie.Npm.tie_npm_compare.
Definition C03_tie_nuget_compareInt := @Verif.Tie.Nuget.tie_nuget_compareInt.
Definition C03_tie_nuget_compare := @Verif.Tie.Nuget.tie_nuget_compare.
Definition C03_tie_pypi_compareInt := @Verif.Tie.Pypi.tie_pypi_compareInt.
Definition C03_tie_pypi_normalizePrereleaseType := @Verif.Tie.Pypi.tie_pypi_normalizePrereleaseType.
Definition C03_tie_pypi_comparePrereleases := @Verif.Tie.Pypi.tie_pypi_comparePrereleases.
Definition C03_tie_pypi_comparePostReleases := @Verif.Tie.Pypi.tie_pypi_comparePostReleases.
Definition C03_tie_pypi_compareDevReleases := @Verif.Tie.Pypi.tie_pypi_compareDevReleases.
Definition C03_tie_pypi_Version_Compare := @Verif.Tie.Pypi.tie_pypi_Version_Compare.
Definition C03_tie_rpm_compare := @Verif.Tie.Rpm.tie_rpm_compare.
Definition C03_tie_semver_compareInt := @Verif.Tie.Semver.tie_semver_compareInt.
Definition C03_tie_semver_compare := @Verif.Tie.Semver.tie_semver_compare.
Definition C03_ties_all := (C03_tie_alpine_compareInt, (C03_tie_alpine_compareLetters, (C03_tie_alpm_compare, (C03_tie_apache_compare, (C03_tie_apache_compareInt, (C03_tie_apache_getQualifierPrecedence, (C03_tie_cargo_compare, (C03_tie_cargo_compareInt, (C03_tie_composer_compare, (C03_tie_composer_compareInt, (C03_tie_conan_Version_Compare, (C03_tie_conan_compareInt, (C03_tie_cran_compareInt, (C03_tie_debian_compare, (C03_tie_gem_compareInt, (C03_tie_gem_compareSegments, (C03_tie_gentoo_compareInt, (C03_tie_github_compare, (C03_tie_github_compareInt, (C03_tie_github_compareQualifiers, (C03_tie_github_getQualifierPrecedence, (C03_tie_golang_Version_Compare, (C03_tie_golang_compareInt, (C03_tie_hex_compare, (C03_tie_hex_compareInt, (C03_tie_mattermost_compare, (C03_tie_mattermost_compareInt, (C03_tie_mattermost_getQualifierPrecedence, (C03_tie_npm_compare, (C03_tie_npm_compareInt, (C03_tie_nuget_compare, (C03_tie_nuget_compareInt, (C03_tie_pypi_Version_Compare, (C03_tie_pypi_compareDevReleases, (C03_tie_pypi_compareInt, (C03_tie_pypi_comparePostReleases, (C03_tie_pypi_comparePrereleases, (C03_tie_pypi_normalizePrereleaseType, (C03_tie_rpm_compare, (C03_tie_semver_compare, C03_tie_semver_compareInt)))))))))))))))))))))))))))))))))))))))).
Print Assumptions C03_ties_all.
(* ====== ties to the source: END ====== *)
