(* C04 — VERS containment is union-of-intervals under the scheme's order.
   Statements only; the proofs live in Vers/FactsC04.v (and Vers/FactsExample.v).

   Property: for a well-formed VERS range of a supported scheme whose constraint versions are
   pairwise distinct and whose comparators alternate as the VERS specification requires (optional
   leading upper bound, then lower/upper pairs, optional trailing lower bound, with '=' points and
   '!=' exclusions anywhere), vers.Contains returns true exactly for the versions that equal no
   '!=' version and either equal an '=' version or lie inside one of the denoted intervals (a
   range made only of '!=' exclusions denoting every other version), with 'inside' and 'equal'
   decided by that scheme's version comparison.  A single-constraint range behaves as that one
   comparator and 'vers:<scheme>/*' contains every valid version.  For pypi, pre-/dev-release
   probes are excluded unless a constraint names a pre-release.

   The yardstick is [VS.spec_contains] of Spec/VersIntervals.v (independent of the model), over
   the scheme's comparison [s_vcmp S].  [spec_list ncs] is the normalized constraint list seen as
   a specification list, [b2v] maps bool to VTrue/VFalse.
   Hypotheses: [native_ok S st] — the ecosystem's range parser gives the native text of an
   interval (a point, a lower bound, an upper bound, or a lower bound strictly below an upper
   bound, with accepted bounds: [iv_wf]) the meaning of that interval ([in_interval]);
   [sorted_alternating S ncs] — the normalized list is strictly sorted by version and its bounds
   alternate, which is exactly the specification's [VS.well_formed] (C04_sorted_alternating_spec).
   C04_digit_* : a scheme for which every semantic hypothesis is proved (non-vacuity).

   END TO END (C04_<scheme>_end_to_end, all eleven schemes): with the model's own ecosystem layers
   ([Top.model_scheme_ops], [Top.model_vers] = vers.Contains over the generated dispatch tables) the
   hypothesis [native_ok] is PROVED (Vers/Native<Eco>.v, from each ecosystem's C02/C05 theorems)
   for bounds inside that ecosystem's C02 scope clause (a boolean predicate: no white space, no
   separator character, no leading operator character, ...), and the order hypothesis is the
   ecosystem's total-preorder theorem (C01).  What remains are structural hypotheses on the range
   text only: it is syntactically valid and star-free, the probe and the bounds are accepted
   versions, the bounds are in scope, pairwise non-equivalent, and alternate.  For maven, whose
   Compare is not a total preorder on all parsed versions (C01_maven_refuted), sortedness of the
   normalized list is kept as a hypothesis.  [native_ok_q Q] / C04_*_scoped are the forms of the
   hypothesis and of the theorems restricted to bounds satisfying Q. *)
From Coq Require Import List Permutation Sorted.
From Verif.Base Require Import Bytes BytesFacts.
From Verif.Eco Require Import RangeCoreFacts Iface.
From Verif.Eco.Semver Require RangeFacts.
From Verif.Eco.Npm Require RangeFacts.
From Verif.Eco.Cargo Require RangeFacts.
From Verif.Eco.Gem Require RangeFacts.
From Verif.Eco.Nuget Require RangeFacts.
From Verif.Eco.Maven Require RangeFacts.
From Verif.Eco.Pypi Require RangeFacts.
From Verif.Vers Require Import Model FactsStr FactsC17 FactsSort FactsC16 FactsC04 FactsExample.
From Verif.Vers Require Import NativeCommon NativeAlpine NativeDebian NativeRpm NativeGolang NativeSemver
  NativeNpm NativeCargo NativeGem NativeNuget NativeMaven NativePypi.
From Verif.Spec Require VersIntervals.
From Verif.Gen Require Import VersDispatch.
From Verif Require Import Top.
Import ListNotations.

Theorem C04_alternating_in_bounds :
  forall cmp v bs ivs,
  Forall (fun c => is_bound_c c = true) bs ->
      alternating None None bs = Some ivs ->
      existsb (fun i => in_interval cmp i v) ivs = VS.in_bounds cmp (spec_list bs) v.
Proof. exact alternating_in_bounds. Qed.
Print Assumptions C04_alternating_in_bounds.

Theorem C04_alternating_spec :
  forall bs,
  Forall (fun c => is_bound_c c = true) bs ->
    (alternating None None bs <> None <-> VS.bounds_alternate (spec_list bs) = true).
Proof. exact alternating_spec. Qed.
Print Assumptions C04_alternating_spec.

Theorem C04_strictly_sorted_spec :
  forall S ncs,
  StronglySorted (ltc (ccmp S)) ncs <-> VS.strictly_sorted (s_vcmp S) (spec_list ncs) = true.
Proof. exact strictly_sorted_spec. Qed.
Print Assumptions C04_strictly_sorted_spec.

Theorem C04_sorted_alternating_spec :
  forall S ncs,
  sorted_alternating S ncs <-> VS.well_formed (s_vcmp S) (spec_list ncs) = true.
Proof. exact sorted_alternating_spec. Qed.
Print Assumptions C04_sorted_alternating_spec.

Theorem C04_contains_generic_spec :
  forall S st cs ncs v,
  native_ok S st ->
    s_vok S v = true ->
    normalize S cs = Some ncs -> ncs <> [] ->
    sorted_alternating S ncs ->
    contains_generic S (Some st) cs v = b2v (VS.spec_contains (s_vcmp S) (spec_list ncs) v).
Proof. exact C04_contains_generic. Qed.
Print Assumptions C04_contains_generic_spec.

Theorem C04_contains_generic_preorder :
  forall S st cs ncs v,
  TotalPreorderOn (vok_text S) (s_vcmp S) ->
    native_ok S st ->
    pairwise_nonequiv S cs ->
    s_vok S v = true ->
    normalize S cs = Some ncs -> ncs <> [] ->
    alternating None None (filter is_bound_c ncs) <> None ->
    contains_generic S (Some st) cs v = b2v (VS.spec_contains (s_vcmp S) (spec_list ncs) v).
Proof. exact C04_contains_generic_tp. Qed.
Print Assumptions C04_contains_generic_preorder.

Theorem C04_contains_pypi_spec :
  forall S st cs ncs v,
  native_ok S st ->
    s_vok S v = true ->
    normalize S cs = Some ncs -> ncs <> [] ->
    sorted_alternating S ncs ->
    contains_pypi S (Some st) cs v =
      if pypi_is_prerelease (s_vshow S v) && negb (pypi_names_pre cs) then VFalse
      else b2v (VS.spec_contains (s_vcmp S) (spec_list ncs) v).
Proof. exact C04_contains_pypi. Qed.
Print Assumptions C04_contains_pypi_spec.

Theorem C04_single_constraint :
  forall S st c o a v,
  native_ok S st -> s_vok S v = true ->
    parse_text (strip_spaces c) = Some (o, a) -> s_vok S a = true ->
    contains_generic S (Some st) [c] v = b2v (VS.sat (conv o) (s_vcmp S v a)).
Proof. exact C04_single. Qed.
Print Assumptions C04_single_constraint.

Theorem C04_star_contains_all :
  forall table styles ops eco version,
  eco <> [] -> forallb scheme_char eco = true ->
    vers_contains table styles ops (vers_text eco $"*") version = VTrue.
Proof. exact C04_star. Qed.
Print Assumptions C04_star_contains_all.

Theorem C04_vers_contains_spec :
  forall table styles ops eco ctext version sc st ncs,
  contains_c "/"%char eco = false ->
    valid (vers_text eco ctext) <> None ->
    existsb is_star (split_c "|"%char ctext) = false ->
    find_scheme eco table = Some sc ->
    lookup (sc_eco sc) styles = Some st ->
    let S := ops (sc_eco sc) in
    let cl := split_c "|"%char ctext in
    native_ok S st ->
    s_vok S version = true ->
    normalize S cl = Some ncs -> ncs <> [] ->
    sorted_alternating S ncs ->
    vers_contains table styles ops (vers_text eco ctext) version =
      if sc_pypi_gate sc && pypi_is_prerelease (s_vshow S version) && negb (pypi_names_pre cl)
      then VFalse
      else b2v (VS.spec_contains (s_vcmp S) (spec_list ncs) version).
Proof. exact C04_vers_contains. Qed.
Print Assumptions C04_vers_contains_spec.

(* ---------- scoped forms ---------- *)

Theorem C04_contains_generic_scoped :
  forall Q S st cs ncs v,
  native_ok_q Q S st ->
    Forall (fun c => Q (snd c)) ncs ->
    s_vok S v = true ->
    normalize S cs = Some ncs -> ncs <> [] ->
    sorted_alternating S ncs ->
    contains_generic S (Some st) cs v = b2v (VS.spec_contains (s_vcmp S) (spec_list ncs) v).
Proof. exact C04_contains_generic_q. Qed.
Print Assumptions C04_contains_generic_scoped.

Theorem C04_contains_pypi_scoped :
  forall Q S st cs ncs v,
  native_ok_q Q S st ->
    Forall (fun c => Q (snd c)) ncs ->
    s_vok S v = true ->
    normalize S cs = Some ncs -> ncs <> [] ->
    sorted_alternating S ncs ->
    contains_pypi S (Some st) cs v =
      if pypi_is_prerelease (s_vshow S v) && negb (pypi_names_pre cs) then VFalse
      else b2v (VS.spec_contains (s_vcmp S) (spec_list ncs) v).
Proof. exact C04_contains_pypi_q. Qed.
Print Assumptions C04_contains_pypi_scoped.

Theorem C04_vers_contains_scoped :
  forall Q table styles ops eco ctext version sc st ncs,
  contains_c "/"%char eco = false ->
    valid (vers_text eco ctext) <> None ->
    existsb is_star (split_c "|"%char ctext) = false ->
    find_scheme eco table = Some sc ->
    lookup (sc_eco sc) styles = Some st ->
    let S := ops (sc_eco sc) in
    let cl := split_c "|"%char ctext in
    native_ok_q Q S st ->
    Forall (fun c => Q (snd c)) ncs ->
    s_vok S version = true ->
    normalize S cl = Some ncs -> ncs <> [] ->
    sorted_alternating S ncs ->
    vers_contains table styles ops (vers_text eco ctext) version =
      if sc_pypi_gate sc && pypi_is_prerelease (s_vshow S version) && negb (pypi_names_pre cl)
      then VFalse
      else b2v (VS.spec_contains (s_vcmp S) (spec_list ncs) version).
Proof. exact C04_vers_contains_q. Qed.
Print Assumptions C04_vers_contains_scoped.

(* ---------- non-vacuity: a scheme with every semantic hypothesis proved ---------- *)

Theorem C04_digit_tpo :
  TotalPreorderOn (vok_text digit_scheme) (s_vcmp digit_scheme).
Proof. exact digit_tpo. Qed.
Print Assumptions C04_digit_tpo.

Theorem C04_digit_native_ok :
  native_ok digit_scheme NSpace.
Proof. exact digit_native_ok. Qed.
Print Assumptions C04_digit_native_ok.

Theorem C04_digit_C04 :
  forall cs ncs v,
  pairwise_nonequiv digit_scheme cs ->
    d_vok v = true ->
    normalize digit_scheme cs = Some ncs -> ncs <> [] ->
    alternating None None (filter is_bound_c ncs) <> None ->
    contains_generic digit_scheme (Some NSpace) cs v =
      b2v (VS.spec_contains bytes_cmp (spec_list ncs) v).
Proof. exact digit_C04. Qed.
Print Assumptions C04_digit_C04.

Theorem C04_digit_C16 :
  forall st cs cs' v,
  pairwise_nonequiv digit_scheme cs -> same_texts cs cs' ->
    contains_generic digit_scheme st cs v = contains_generic digit_scheme st cs' v.
Proof. exact digit_C16. Qed.
Print Assumptions C04_digit_C16.

Theorem C04_ex_normalize :
  normalize digit_scheme ex_cs = Some ex_ncs.
Proof. exact ex_normalize. Qed.
Print Assumptions C04_ex_normalize.

Theorem C04_ex_sorted_alternating :
  sorted_alternating digit_scheme ex_ncs.
Proof. exact ex_sorted_alternating. Qed.
Print Assumptions C04_ex_sorted_alternating.

Theorem C04_ex_C04 :
  forall v,
  d_vok v = true ->
    contains_generic digit_scheme (Some NSpace) ex_cs v =
      b2v (VS.spec_contains bytes_cmp (spec_list ex_ncs) v).
Proof. exact ex_C04. Qed.
Print Assumptions C04_ex_C04.

Theorem C04_ex_values :
  map (fun v => VS.spec_contains bytes_cmp (spec_list ex_ncs) v)
        [ $"0"; $"1"; $"2"; $"3"; $"4"; $"5"; $"6"; $"7"; $"8"; $"9" ] =
    [ true; true; false; false; true; false; false; true; true; true ].
Proof. exact ex_values. Qed.
Print Assumptions C04_ex_values.

(* ---------- end to end: the eleven schemes over the model's own ecosystem layers ---------- *)

Theorem C04_alpine_native_ok :
  native_ok_q (fun a => alpine_scope a = true) alpine_S NSpace.
Proof. exact NativeAlpine.alpine_native_ok. Qed.
Print Assumptions C04_alpine_native_ok.

Theorem C04_alpine_order :
  TotalPreorderOn (vok_text alpine_S) (s_vcmp alpine_S).
Proof. exact NativeAlpine.alpine_tpo. Qed.
Print Assumptions C04_alpine_order.

Theorem C04_alpine_end_to_end :
  forall ctext version ncs,
  let S := model_scheme_ops $"alpine" in
    let cl := split_c "|"%char ctext in
    valid (vers_text $"alpine" ctext) <> None ->
    existsb is_star cl = false ->
    s_vok S version = true ->
    normalize S cl = Some ncs -> ncs <> [] ->
    Forall (fun c => alpine_scope (snd c) = true) ncs ->
    pairwise_nonequiv S cl ->
    alternating None None (filter is_bound_c ncs) <> None ->
    model_vers (vers_text $"alpine" ctext) version =
      b2v (VS.spec_contains (s_vcmp S) (spec_list ncs) version).
Proof. exact NativeAlpine.C04_alpine_end_to_end. Qed.
Print Assumptions C04_alpine_end_to_end.

Theorem C04_deb_native_ok :
  native_ok_q (fun a => scope_c a = true) debian_S NComma.
Proof. exact NativeDebian.debian_native_ok. Qed.
Print Assumptions C04_deb_native_ok.

Theorem C04_deb_order :
  TotalPreorderOn (vok_text debian_S) (s_vcmp debian_S).
Proof. exact NativeDebian.debian_tpo. Qed.
Print Assumptions C04_deb_order.

Theorem C04_deb_end_to_end :
  forall ctext version ncs,
  let S := model_scheme_ops $"debian" in
    let cl := split_c "|"%char ctext in
    valid (vers_text $"deb" ctext) <> None ->
    existsb is_star cl = false ->
    s_vok S version = true ->
    normalize S cl = Some ncs -> ncs <> [] ->
    Forall (fun c => scope_c (snd c) = true) ncs ->
    pairwise_nonequiv S cl ->
    alternating None None (filter is_bound_c ncs) <> None ->
    model_vers (vers_text $"deb" ctext) version =
      b2v (VS.spec_contains (s_vcmp S) (spec_list ncs) version).
Proof. exact NativeDebian.C04_deb_end_to_end. Qed.
Print Assumptions C04_deb_end_to_end.

Theorem C04_rpm_native_ok :
  native_ok_q (fun a => scope_c a = true) rpm_S NComma.
Proof. exact NativeRpm.rpm_native_ok. Qed.
Print Assumptions C04_rpm_native_ok.

Theorem C04_rpm_order :
  TotalPreorderOn (vok_text rpm_S) (s_vcmp rpm_S).
Proof. exact NativeRpm.rpm_tpo. Qed.
Print Assumptions C04_rpm_order.

Theorem C04_rpm_end_to_end :
  forall ctext version ncs,
  let S := model_scheme_ops $"rpm" in
    let cl := split_c "|"%char ctext in
    valid (vers_text $"rpm" ctext) <> None ->
    existsb is_star cl = false ->
    s_vok S version = true ->
    normalize S cl = Some ncs -> ncs <> [] ->
    Forall (fun c => scope_c (snd c) = true) ncs ->
    pairwise_nonequiv S cl ->
    alternating None None (filter is_bound_c ncs) <> None ->
    model_vers (vers_text $"rpm" ctext) version =
      b2v (VS.spec_contains (s_vcmp S) (spec_list ncs) version).
Proof. exact NativeRpm.C04_rpm_end_to_end. Qed.
Print Assumptions C04_rpm_end_to_end.

Theorem C04_golang_native_ok :
  native_ok_q (fun a => scope_s a = true) golang_S NGolang.
Proof. exact NativeGolang.golang_native_ok. Qed.
Print Assumptions C04_golang_native_ok.

Theorem C04_golang_order :
  TotalPreorderOn (vok_text golang_S) (s_vcmp golang_S).
Proof. exact NativeGolang.golang_tpo. Qed.
Print Assumptions C04_golang_order.

Theorem C04_golang_end_to_end :
  forall ctext version ncs,
  let S := model_scheme_ops $"golang" in
    let cl := split_c "|"%char ctext in
    valid (vers_text $"golang" ctext) <> None ->
    existsb is_star cl = false ->
    s_vok S version = true ->
    normalize S cl = Some ncs -> ncs <> [] ->
    Forall (fun c => scope_s (snd c) = true) ncs ->
    pairwise_nonequiv S cl ->
    alternating None None (filter is_bound_c ncs) <> None ->
    model_vers (vers_text $"golang" ctext) version =
      b2v (VS.spec_contains (s_vcmp S) (spec_list ncs) version).
Proof. exact NativeGolang.C04_golang_end_to_end. Qed.
Print Assumptions C04_golang_end_to_end.

Theorem C04_generic_native_ok :
  native_ok_q (fun a => semver_scope a = true) semver_S NSpace.
Proof. exact NativeSemver.semver_native_ok. Qed.
Print Assumptions C04_generic_native_ok.

Theorem C04_generic_order :
  TotalPreorderOn (vok_text semver_S) (s_vcmp semver_S).
Proof. exact NativeSemver.semver_tpo. Qed.
Print Assumptions C04_generic_order.

Theorem C04_generic_end_to_end :
  forall ctext version ncs,
  let S := model_scheme_ops $"semver" in
    let cl := split_c "|"%char ctext in
    valid (vers_text $"generic" ctext) <> None ->
    existsb is_star cl = false ->
    s_vok S version = true ->
    normalize S cl = Some ncs -> ncs <> [] ->
    Forall (fun c => semver_scope (snd c) = true) ncs ->
    pairwise_nonequiv S cl ->
    alternating None None (filter is_bound_c ncs) <> None ->
    model_vers (vers_text $"generic" ctext) version =
      b2v (VS.spec_contains (s_vcmp S) (spec_list ncs) version).
Proof. exact NativeSemver.C04_generic_end_to_end. Qed.
Print Assumptions C04_generic_end_to_end.

Theorem C04_npm_native_ok :
  native_ok_q (fun a => npm_scope a = true) npm_S NSpace.
Proof. exact NativeNpm.npm_native_ok. Qed.
Print Assumptions C04_npm_native_ok.

Theorem C04_npm_order :
  TotalPreorderOn (vok_text npm_S) (s_vcmp npm_S).
Proof. exact NativeNpm.npm_tpo. Qed.
Print Assumptions C04_npm_order.

Theorem C04_npm_end_to_end :
  forall ctext version ncs,
  let S := model_scheme_ops $"npm" in
    let cl := split_c "|"%char ctext in
    valid (vers_text $"npm" ctext) <> None ->
    existsb is_star cl = false ->
    s_vok S version = true ->
    normalize S cl = Some ncs -> ncs <> [] ->
    Forall (fun c => npm_scope (snd c) = true) ncs ->
    pairwise_nonequiv S cl ->
    alternating None None (filter is_bound_c ncs) <> None ->
    model_vers (vers_text $"npm" ctext) version =
      b2v (VS.spec_contains (s_vcmp S) (spec_list ncs) version).
Proof. exact NativeNpm.C04_npm_end_to_end. Qed.
Print Assumptions C04_npm_end_to_end.

Theorem C04_cargo_native_ok :
  native_ok_q (fun a => cargo_scope a = true) cargo_S NComma.
Proof. exact NativeCargo.cargo_native_ok. Qed.
Print Assumptions C04_cargo_native_ok.

Theorem C04_cargo_order :
  TotalPreorderOn (vok_text cargo_S) (s_vcmp cargo_S).
Proof. exact NativeCargo.cargo_tpo. Qed.
Print Assumptions C04_cargo_order.

Theorem C04_cargo_end_to_end :
  forall ctext version ncs,
  let S := model_scheme_ops $"cargo" in
    let cl := split_c "|"%char ctext in
    valid (vers_text $"cargo" ctext) <> None ->
    existsb is_star cl = false ->
    s_vok S version = true ->
    normalize S cl = Some ncs -> ncs <> [] ->
    Forall (fun c => cargo_scope (snd c) = true) ncs ->
    pairwise_nonequiv S cl ->
    alternating None None (filter is_bound_c ncs) <> None ->
    model_vers (vers_text $"cargo" ctext) version =
      b2v (VS.spec_contains (s_vcmp S) (spec_list ncs) version).
Proof. exact NativeCargo.C04_cargo_end_to_end. Qed.
Print Assumptions C04_cargo_end_to_end.

Theorem C04_gem_native_ok :
  native_ok_q (fun a => gem_scope a = true) gem_S NComma.
Proof. exact NativeGem.gem_native_ok. Qed.
Print Assumptions C04_gem_native_ok.

Theorem C04_gem_order :
  TotalPreorderOn (vok_text gem_S) (s_vcmp gem_S).
Proof. exact NativeGem.gem_tpo. Qed.
Print Assumptions C04_gem_order.

Theorem C04_gem_end_to_end :
  forall ctext version ncs,
  let S := model_scheme_ops $"gem" in
    let cl := split_c "|"%char ctext in
    valid (vers_text $"gem" ctext) <> None ->
    existsb is_star cl = false ->
    s_vok S version = true ->
    normalize S cl = Some ncs -> ncs <> [] ->
    Forall (fun c => gem_scope (snd c) = true) ncs ->
    pairwise_nonequiv S cl ->
    alternating None None (filter is_bound_c ncs) <> None ->
    model_vers (vers_text $"gem" ctext) version =
      b2v (VS.spec_contains (s_vcmp S) (spec_list ncs) version).
Proof. exact NativeGem.C04_gem_end_to_end. Qed.
Print Assumptions C04_gem_end_to_end.

Theorem C04_nuget_native_ok :
  native_ok_q (fun a => nuget_scope a = true) nuget_S NNuget.
Proof. exact NativeNuget.nuget_native_ok. Qed.
Print Assumptions C04_nuget_native_ok.

Theorem C04_nuget_order :
  TotalPreorderOn (vok_text nuget_S) (s_vcmp nuget_S).
Proof. exact NativeNuget.nuget_tpo. Qed.
Print Assumptions C04_nuget_order.

Theorem C04_nuget_end_to_end :
  forall ctext version ncs,
  let S := model_scheme_ops $"nuget" in
    let cl := split_c "|"%char ctext in
    valid (vers_text $"nuget" ctext) <> None ->
    existsb is_star cl = false ->
    s_vok S version = true ->
    normalize S cl = Some ncs -> ncs <> [] ->
    Forall (fun c => nuget_scope (snd c) = true) ncs ->
    pairwise_nonequiv S cl ->
    alternating None None (filter is_bound_c ncs) <> None ->
    model_vers (vers_text $"nuget" ctext) version =
      b2v (VS.spec_contains (s_vcmp S) (spec_list ncs) version).
Proof. exact NativeNuget.C04_nuget_end_to_end. Qed.
Print Assumptions C04_nuget_end_to_end.

Theorem C04_maven_native_ok :
  native_ok_q (fun a => maven_scope a = true) maven_S NMaven.
Proof. exact NativeMaven.maven_native_ok. Qed.
Print Assumptions C04_maven_native_ok.

Theorem C04_maven_end_to_end :
  forall ctext version ncs,
  let S := model_scheme_ops $"maven" in
    let cl := split_c "|"%char ctext in
    valid (vers_text $"maven" ctext) <> None ->
    existsb is_star cl = false ->
    s_vok S version = true ->
    normalize S cl = Some ncs -> ncs <> [] ->
    Forall (fun c => maven_scope (snd c) = true) ncs ->
    sorted_alternating S ncs ->
    model_vers (vers_text $"maven" ctext) version =
      b2v (VS.spec_contains (s_vcmp S) (spec_list ncs) version).
Proof. exact NativeMaven.C04_maven_end_to_end. Qed.
Print Assumptions C04_maven_end_to_end.

Theorem C04_pypi_native_ok :
  native_ok_q (fun a => pypi_scope a = true) pypi_S NPypi.
Proof. exact NativePypi.pypi_native_ok. Qed.
Print Assumptions C04_pypi_native_ok.

Theorem C04_pypi_order :
  TotalPreorderOn (vok_text pypi_S) (s_vcmp pypi_S).
Proof. exact NativePypi.pypi_tpo. Qed.
Print Assumptions C04_pypi_order.

Theorem C04_pypi_end_to_end :
  forall ctext version ncs,
  let S := model_scheme_ops $"pypi" in
    let cl := split_c "|"%char ctext in
    valid (vers_text $"pypi" ctext) <> None ->
    existsb is_star cl = false ->
    s_vok S version = true ->
    normalize S cl = Some ncs -> ncs <> [] ->
    Forall (fun c => pypi_scope (snd c) = true) ncs ->
    pairwise_nonequiv S cl ->
    alternating None None (filter is_bound_c ncs) <> None ->
    model_vers (vers_text $"pypi" ctext) version =
      if pypi_is_prerelease (s_vshow S version) && negb (pypi_names_pre cl) then VFalse
      else b2v (VS.spec_contains (s_vcmp S) (spec_list ncs) version).
Proof. exact NativePypi.C04_pypi_end_to_end. Qed.
Print Assumptions C04_pypi_end_to_end.

(* ====== ties to the source: BEGIN (written by bin/mkties) ====== *)
(* The Go functions named here are translated into Gallina from /repo's source on every run
   (tools/gen -> Gen/Code/<Eco>.v for loop-free functions, Gen/Loops/<Eco>.v for functions with
   loops and index expressions, where a panic is Panic and a loop takes fuel); Tie/<Eco>.v,
   Tie/<Eco>Range.v and Tie/Loops/<Eco>.v prove each translation equal to the model the theorems
   above speak about (and, for the loop functions: no panic, termination within a linear bound).
   If the code changes so that a tie no longer holds, this file no longer checks. *)
Require Verif.Tie.Alpine.
Require Verif.Tie.AlpineRange.
Require Verif.Tie.Cargo.
Require Verif.Tie.CargoRange.
Require Verif.Tie.Debian.
Require Verif.Tie.DebianRange.
Require Verif.Tie.Gem.
Require Verif.Tie.GemRange.
Require Verif.Tie.Golang.
Require Verif.Tie.GolangRange.
Require Verif.Tie.MavenRange.
Require Verif.Tie.Npm.
Require Verif.Tie.Nuget.
Require Verif.Tie.NugetRange.
Require Verif.Tie.Pypi.
Require Verif.Tie.PypiRange.
Require Verif.Tie.Rpm.
Require Verif.Tie.RpmRange.
Require Verif.Tie.Semver.
Require Verif.Tie.Vers.Code.
Require Verif.Tie.Vers.Constraints.
Require Verif.Tie.Vers.CoreAlternating.
Require Verif.Tie.Vers.CoreContains.
Require Verif.Tie.Vers.CoreDispatch.
Require Verif.Tie.Vers.CoreGroup.
Require Verif.Tie.Vers.CoreGroupLen.
Require Verif.Tie.Vers.CoreGroupTie.
Require Verif.Tie.Vers.CoreNormalize.
Require Verif.Tie.Vers.CoreToRanges.
Require Verif.Tie.Vers.Printers.
Require Verif.Tie.Vers.Pypi.
Require Verif.Tie.Vers.Texts.
Require Verif.Tie.Vers.Valid.
Definition C04_tie_alpine_compareInt := @Verif.Tie.Alpine.tie_alpine_compareInt.
Definition C04_tie_alpine_compareLetters := @Verif.Tie.Alpine.tie_alpine_compareLetters.
Definition C04_tie_alpine_VersionRange_String := @Verif.Tie.AlpineRange.tie_alpine_VersionRange_String.
Definition C04_tie_alpine_VersionRange_Contains := @Verif.Tie.AlpineRange.tie_alpine_VersionRange_Contains.
Definition C04_tie_cargo_compareInt := @Verif.Tie.Cargo.tie_cargo_compareInt.
Definition C04_tie_cargo_compare := @Verif.Tie.Cargo.tie_cargo_compare.
Definition C04_tie_cargo_caret := @Verif.Tie.CargoRange.tie_cargo_caret.
Definition C04_tie_cargo_tilde := @Verif.Tie.CargoRange.tie_cargo_tilde.
Definition C04_tie_cargo_satisfiesConstraint := @Verif.Tie.CargoRange.tie_cargo_satisfiesConstraint.
Definition C04_tie_debian_compare := @Verif.Tie.Debian.tie_debian_compare.
Definition C04_tie_debian_satisfiesConstraint := @Verif.Tie.DebianRange.tie_debian_satisfiesConstraint.
Definition C04_tie_debian_satisfiesConstraint_model := @Verif.Tie.DebianRange.tie_debian_satisfiesConstraint_model.
Definition C04_tie_debian_contains := @Verif.Tie.DebianRange.tie_debian_contains.
Definition C04_tie_gem_compareInt := @Verif.Tie.Gem.tie_gem_compareInt.
Definition C04_tie_gem_compareSegments := @Verif.Tie.Gem.tie_gem_compareSegments.
Definition C04_tie_gem_VersionRange_String := @Verif.Tie.GemRange.tie_gem_VersionRange_String.
Definition C04_tie_gem_VersionRange_Contains := @Verif.Tie.GemRange.tie_gem_VersionRange_Contains.
Definition C04_tie_golang_compareInt := @Verif.Tie.Golang.tie_golang_compareInt.
Definition C04_tie_golang_Version_Compare := @Verif.Tie.Golang.tie_golang_Version_Compare.
Definition C04_tie_golang_VersionRange_String := @Verif.Tie.GolangRange.tie_golang_VersionRange_String.
Definition C04_tie_golang_VersionRange_Contains := @Verif.Tie.GolangRange.tie_golang_VersionRange_Contains.
Definition C04_tie_maven_satisfiesConstraint := @Verif.Tie.MavenRange.tie_maven_satisfiesConstraint.
Definition C04_tie_maven_contains := @Verif.Tie.MavenRange.tie_maven_contains.
Definition C04_tie_npm_compareInt := @Verif.Tie.Npm.tie_npm_compareInt.
Definition C04_tie_npm_compare := @Verif.Tie.Npm.tie_npm_compare.
Definition C04_tie_nuget_compareInt := @Verif.Tie.Nuget.tie_nuget_compareInt.
Definition C04_tie_nuget_compare := @Verif.Tie.Nuget.tie_nuget_compare.
Definition C04_tie_nuget_matches := @Verif.Tie.NugetRange.tie_nuget_matches.
Definition C04_tie_nuget_matches_model := @Verif.Tie.NugetRange.tie_nuget_matches_model.
Definition C04_tie_nuget_contains := @Verif.Tie.NugetRange.tie_nuget_contains.
Definition C04_tie_pypi_compareInt := @Verif.Tie.Pypi.tie_pypi_compareInt.
Definition C04_tie_pypi_normalizePrereleaseType := @Verif.Tie.Pypi.tie_pypi_normalizePrereleaseType.
Definition C04_tie_pypi_comparePrereleases := @Verif.Tie.Pypi.tie_pypi_comparePrereleases.
Definition C04_tie_pypi_comparePostReleases := @Verif.Tie.Pypi.tie_pypi_comparePostReleases.
Definition C04_tie_pypi_compareDevReleases := @Verif.Tie.Pypi.tie_pypi_compareDevReleases.
Definition C04_tie_pypi_Version_Compare := @Verif.Tie.Pypi.tie_pypi_Version_Compare.
Definition C04_tie_pypi_VersionRange_String := @Verif.Tie.PypiRange.tie_pypi_VersionRange_String.
Definition C04_tie_pypi_VersionRange_Contains := @Verif.Tie.PypiRange.tie_pypi_VersionRange_Contains.
Definition C04_tie_rpm_compare := @Verif.Tie.Rpm.tie_rpm_compare.
Definition C04_tie_rpm_satisfiesRPMConstraint := @Verif.Tie.RpmRange.tie_rpm_satisfiesRPMConstraint.
Definition C04_tie_rpm_satisfiesRPMConstraint_model := @Verif.Tie.RpmRange.tie_rpm_satisfiesRPMConstraint_model.
Definition C04_tie_rpm_contains := @Verif.Tie.RpmRange.tie_rpm_contains.
Definition C04_tie_semver_compareInt := @Verif.Tie.Semver.tie_semver_compareInt.
Definition C04_tie_semver_compare := @Verif.Tie.Semver.tie_semver_compare.
Definition C04_tie_shouldMergeConstraints_tie := @Verif.Tie.Vers.Code.shouldMergeConstraints_tie.
Definition C04_tie_ensureVPrefix_tie := @Verif.Tie.Vers.Code.ensureVPrefix_tie.
Definition C04_tie_parseConstraint_tie := @Verif.Tie.Vers.Constraints.parseConstraint_tie.
Definition C04_tie_parseConstraint_finished := @Verif.Tie.Vers.Constraints.parseConstraint_finished.
Definition C04_tie_parseConstraints_tie := @Verif.Tie.Vers.Constraints.parseConstraints_tie.
Definition C04_tie_parseConstraints_finished := @Verif.Tie.Vers.Constraints.parseConstraints_finished.
Definition C04_tie_parseConstraints_normalize := @Verif.Tie.Vers.Constraints.parseConstraints_normalize.
Definition C04_tie_alternatingIntervals_no_panic := @Verif.Tie.Vers.CoreAlternating.alternatingIntervals_no_panic.
Definition C04_tie_alternatingIntervals_total := @Verif.Tie.Vers.CoreAlternating.alternatingIntervals_total.
Definition C04_tie_printers_len := @Verif.Tie.Vers.CoreContains.printers_len.
Definition C04_tie_printers_len' := @Verif.Tie.Vers.CoreContains.printers_len'.
Definition C04_tie_contains_tie := @Verif.Tie.Vers.CoreContains.contains_tie.
Definition C04_tie_toRanges_no_panic := @Verif.Tie.Vers.CoreContains.toRanges_no_panic.
Definition C04_tie_contains_no_panic := @Verif.Tie.Vers.CoreContains.contains_no_panic.
Definition C04_tie_isPyPIPrerelease_tie := @Verif.Tie.Vers.CoreDispatch.isPyPIPrerelease_tie.
Definition C04_tie_pypiContains_tie := @Verif.Tie.Vers.CoreDispatch.pypiContains_tie.
Definition C04_tie_Contains_tie := @Verif.Tie.Vers.CoreDispatch.Contains_tie.
Definition C04_tie_Contains_no_panic := @Verif.Tie.Vers.CoreDispatch.Contains_no_panic.
Definition C04_tie_groupConstraintsIntoIntervals_no_panic := @Verif.Tie.Vers.CoreGroup.groupConstraintsIntoIntervals_no_panic.
Definition C04_tie_groupConstraintsIntoIntervals_total := @Verif.Tie.Vers.CoreGroup.groupConstraintsIntoIntervals_total.
Definition C04_tie_ensures_finished := @Verif.Tie.Vers.CoreGroupLen.ensures_finished.
Definition C04_tie_alternatingIntervals_tie := @Verif.Tie.Vers.CoreGroupTie.alternatingIntervals_tie.
Definition C04_tie_alternatingIntervals_tie_finished := @Verif.Tie.Vers.CoreGroupTie.alternatingIntervals_tie_finished.
Definition C04_tie_groupConstraintsIntoIntervals_tie := @Verif.Tie.Vers.CoreGroupTie.groupConstraintsIntoIntervals_tie.
Definition C04_tie_groupConstraintsIntoIntervals_tie_finished := @Verif.Tie.Vers.CoreGroupTie.groupConstraintsIntoIntervals_tie_finished.
Definition C04_tie_normalizeConstraints_no_panic := @Verif.Tie.Vers.CoreNormalize.normalizeConstraints_no_panic.
Definition C04_tie_collect_tie := @Verif.Tie.Vers.CoreNormalize.collect_tie.
Definition C04_tie_ccmp_le_total := @Verif.Tie.Vers.CoreNormalize.ccmp_le_total.
Definition C04_tie_normalize_go_tie := @Verif.Tie.Vers.CoreNormalize.normalize_go_tie.
Definition C04_tie_normalizeConstraints_tie := @Verif.Tie.Vers.CoreNormalize.normalizeConstraints_tie.
Definition C04_tie_toRanges_tie := @Verif.Tie.Vers.CoreToRanges.toRanges_tie.
Definition C04_tie_toRanges_normalize := @Verif.Tie.Vers.CoreToRanges.toRanges_normalize.
Definition C04_tie_alpine_printer_tie := @Verif.Tie.Vers.Printers.alpine_printer_tie.
Definition C04_tie_cargo_printer_tie := @Verif.Tie.Vers.Printers.cargo_printer_tie.
Definition C04_tie_debian_printer_tie := @Verif.Tie.Vers.Printers.debian_printer_tie.
Definition C04_tie_gem_printer_tie := @Verif.Tie.Vers.Printers.gem_printer_tie.
Definition C04_tie_golang_printer_tie := @Verif.Tie.Vers.Printers.golang_printer_tie.
Definition C04_tie_maven_printer_tie := @Verif.Tie.Vers.Printers.maven_printer_tie.
Definition C04_tie_npm_printer_tie := @Verif.Tie.Vers.Printers.npm_printer_tie.
Definition C04_tie_nuget_printer_tie := @Verif.Tie.Vers.Printers.nuget_printer_tie.
Definition C04_tie_pypi_printer_tie := @Verif.Tie.Vers.Printers.pypi_printer_tie.
Definition C04_tie_rpm_printer_tie := @Verif.Tie.Vers.Printers.rpm_printer_tie.
Definition C04_tie_semver_printer_tie := @Verif.Tie.Vers.Printers.semver_printer_tie.
Definition C04_tie_printers_keys := @Verif.Tie.Vers.Printers.printers_keys.
Definition C04_tie_printers_match_style_table := @Verif.Tie.Vers.Printers.printers_match_style_table.
Definition C04_tie_printers_on_model_interval := @Verif.Tie.Vers.Printers.printers_on_model_interval.
Definition C04_tie_containsPrereleaseMarkers_tie := @Verif.Tie.Vers.Pypi.containsPrereleaseMarkers_tie.
Definition C04_tie_containsPrereleaseMarkers_finished := @Verif.Tie.Vers.Pypi.containsPrereleaseMarkers_finished.
Definition C04_tie_constraintsIncludePrerelease_finished := @Verif.Tie.Vers.Pypi.constraintsIncludePrerelease_finished.
Definition C04_tie_constraintsIncludePrerelease_tie := @Verif.Tie.Vers.Pypi.constraintsIncludePrerelease_tie.
Definition C04_tie_printers_texts := @Verif.Tie.Vers.Texts.printers_texts.
Definition C04_tie_printers_texts_normalize := @Verif.Tie.Vers.Texts.printers_texts_normalize.
Definition C04_tie_valid_tie := @Verif.Tie.Vers.Valid.valid_tie.
Definition C04_tie_valid_finished := @Verif.Tie.Vers.Valid.valid_finished.
Definition C04_tie_scheme_tie := @Verif.Tie.Vers.Valid.scheme_tie.
Definition C04_tie_scheme_finished := @Verif.Tie.Vers.Valid.scheme_finished.
Definition C04_ties_all := (C04_tie_Contains_no_panic, (C04_tie_Contains_tie, (C04_tie_alpine_VersionRange_Contains, (C04_tie_alpine_VersionRange_String, (C04_tie_alpine_compareInt, (C04_tie_alpine_compareLetters, (C04_tie_alpine_printer_tie, (C04_tie_alternatingIntervals_no_panic, (C04_tie_alternatingIntervals_tie, (C04_tie_alternatingIntervals_tie_finished, (C04_tie_alternatingIntervals_total, (C04_tie_cargo_caret, (C04_tie_cargo_compare, (C04_tie_cargo_compareInt, (C04_tie_cargo_printer_tie, (C04_tie_cargo_satisfiesConstraint, (C04_tie_cargo_tilde, (C04_tie_ccmp_le_total, (C04_tie_collect_tie, (C04_tie_constraintsIncludePrerelease_finished, (C04_tie_constraintsIncludePrerelease_tie, (C04_tie_containsPrereleaseMarkers_finished, (C04_tie_containsPrereleaseMarkers_tie, (C04_tie_contains_no_panic, (C04_tie_contains_tie, (C04_tie_debian_compare, (C04_tie_debian_contains, (C04_tie_debian_printer_tie, (C04_tie_debian_satisfiesConstraint, (C04_tie_debian_satisfiesConstraint_model, (C04_tie_ensureVPrefix_tie, (C04_tie_ensures_finished, (C04_tie_gem_VersionRange_Contains, (C04_tie_gem_VersionRange_String, (C04_tie_gem_compareInt, (C04_tie_gem_compareSegments, (C04_tie_gem_printer_tie, (C04_tie_golang_VersionRange_Contains, (C04_tie_golang_VersionRange_String, (C04_tie_golang_Version_Compare, (C04_tie_golang_compareInt, (C04_tie_golang_printer_tie, (C04_tie_groupConstraintsIntoIntervals_no_panic, (C04_tie_groupConstraintsIntoIntervals_tie, (C04_tie_groupConstraintsIntoIntervals_tie_finished, (C04_tie_groupConstraintsIntoIntervals_total, (C04_tie_isPyPIPrerelease_tie, (C04_tie_maven_contains, (C04_tie_maven_printer_tie, (C04_tie_maven_satisfiesConstraint, (C04_tie_normalizeConstraints_no_panic, (C04_tie_normalizeConstraints_tie, (C04_tie_normalize_go_tie, (C04_tie_npm_compare, (C04_tie_npm_compareInt, (C04_tie_npm_printer_tie, (C04_tie_nuget_compare, (C04_tie_nuget_compareInt, (C04_tie_nuget_contains, (C04_tie_nuget_matches, (C04_tie_nuget_matches_model, (C04_tie_nuget_printer_tie, (C04_tie_parseConstraint_finished, (C04_tie_parseConstraint_tie, (C04_tie_parseConstraints_finished, (C04_tie_parseConstraints_normalize, (C04_tie_parseConstraints_tie, (C04_tie_printers_keys, (C04_tie_printers_len, (C04_tie_printers_len', (C04_tie_printers_match_style_table, (C04_tie_printers_on_model_interval, (C04_tie_printers_texts, (C04_tie_printers_texts_normalize, (C04_tie_pypiContains_tie, (C04_tie_pypi_VersionRange_Contains, (C04_tie_pypi_VersionRange_String, (C04_tie_pypi_Version_Compare, (C04_tie_pypi_compareDevReleases, (C04_tie_pypi_compareInt, (C04_tie_pypi_comparePostReleases, (C04_tie_pypi_comparePrereleases, (C04_tie_pypi_normalizePrereleaseType, (C04_tie_pypi_printer_tie, (C04_tie_rpm_compare, (C04_tie_rpm_contains, (C04_tie_rpm_printer_tie, (C04_tie_rpm_satisfiesRPMConstraint, (C04_tie_rpm_satisfiesRPMConstraint_model, (C04_tie_scheme_finished, (C04_tie_scheme_tie, (C04_tie_semver_compare, (C04_tie_semver_compareInt, (C04_tie_semver_printer_tie, (C04_tie_shouldMergeConstraints_tie, (C04_tie_toRanges_no_panic, (C04_tie_toRanges_normalize, (C04_tie_toRanges_tie, (C04_tie_valid_finished, C04_tie_valid_tie))))))))))))))))))))))))))))))))))))))))))))))))))))))))))))))))))))))))))))))))))))))))))))))))))).
Print Assumptions C04_ties_all.
(* ====== ties to the source: END ====== *)
